package main

import (
	"bytes"
	"strings"
)

// parseRes is the uniform view of one parser call used by the C01/C03 oracles.
type parseRes struct {
	ok    bool   // accepted (no error, or only the documented trailing-data warning)
	rem   []byte // returned remainder
	ser   []byte // re-serialisation of the returned value
	serOK bool   // serialiser returned without error
	obs   string // further observations that must be stable under appended bytes
}

type parser func(w []byte) parseRes

var appendSamples = [][]byte{{0x00}, {0xff, 0x3b}, {0x00, 0x05, 0x01, 0x61, 0x3d, 0x00, 0x3b, 0x07}}

// checkFraming evaluates C01 (re-serialisation = consumed bytes) and the three clauses of C03 on
// the real library for one input. name identifies the parser in signatures; hasRem=false for
// parsers that return no remainder (only C01 is judged then, on the extent given by res.rem).
func checkFraming(name string, p parser, w []byte, res parseRes, allCuts bool) []Fail {
	var fails []Fail
	if !res.ok {
		return nil
	}
	// C03a: remainder is a suffix
	if !isSuffix(w, res.rem) {
		fails = append(fails, fail("C03", "suffix:"+name, "%s: remainder (len %d) is not a suffix of the input (len %d)", name, len(res.rem), len(w)))
		return fails
	}
	consumed := w[:len(w)-len(res.rem)]
	// C01
	if !res.serOK {
		fails = append(fails, fail("C01", "ser-error:"+name, "%s accepted the input but serialising the value failed", name))
	} else if !bytes.Equal(res.ser, consumed) {
		fails = append(fails, fail("C01", "reser:"+name, "%s: re-serialisation (%d bytes) differs from the %d consumed bytes: got %s want %s", name, len(res.ser), len(consumed), trunc(hx(res.ser), 80), trunc(hx(consumed), 80)))
	}
	// C03b: appended bytes change neither value nor consumed count
	for _, x := range appendSamples {
		w2 := append(append([]byte{}, w...), x...)
		r2 := p(w2)
		wantRem := append(append([]byte{}, res.rem...), x...)
		if !r2.ok || !bytes.Equal(r2.rem, wantRem) || !bytes.Equal(r2.ser, res.ser) || r2.obs != res.obs {
			fails = append(fails, fail("C03", "append:"+name, "%s: appending %s changed the parse (ok %v→%v, consumed %d→%d, same bytes %v, same fields %v)", name, hx(x), res.ok, r2.ok, len(consumed), len(w2)-len(r2.rem), bytes.Equal(r2.ser, res.ser), r2.obs == res.obs))
			break
		}
	}
	// C03b at the 16-bit boundary: a length that is truncated to uint16 somewhere shows only when 65,536 or
	// more bytes follow. One input in eight (chosen by its content, so that replay is deterministic) gets
	// padded to total lengths just above 65,536.
	if len(w) > 0 && len(w) <= 4096 && (int(w[len(w)/2])+len(w))%8 == 0 {
		for _, total := range []int{65536, 65536 + 40, 65536 + 64, 65536 + 96, 65536 + 200} {
			x := make([]byte, total-len(w))
			w2 := append(append([]byte{}, w...), x...)
			r2 := p(w2)
			if !r2.ok || len(r2.rem) != len(res.rem)+len(x) || !bytes.Equal(r2.ser, res.ser) || r2.obs != res.obs {
				fails = append(fails, fail("C03", "append-64k:"+name, "%s: appending %d zero bytes (total %d) changed the parse (ok %v→%v, consumed %d→%d)", name, len(x), total, res.ok, r2.ok, len(consumed), len(w2)-len(r2.rem)))
				break
			}
		}
	}
	// C03c: no proper prefix of a completely consumed encoding parses successfully
	if len(res.rem) == 0 {
		cuts := []int{}
		if allCuts || len(w) <= 48 {
			for k := 0; k < len(w); k++ {
				cuts = append(cuts, k)
			}
		} else {
			for _, k := range []int{0, 1, 2, 3, len(w) / 2, len(w) - 8, len(w) - 5, len(w) - 4, len(w) - 3, len(w) - 2, len(w) - 1} {
				if k >= 0 && k < len(w) {
					cuts = append(cuts, k)
				}
			}
		}
		for _, k := range cuts {
			in := append([]byte{}, w[:k]...)
			r3 := p(in)
			if !bytes.Equal(in, w[:k]) {
				// a parser only reads its input — also when it rejects it: a later parse of the same buffer (the
				// complete structure, once more bytes have arrived) must see what the sender wrote
				for _, pr := range []string{"C03", "C01"} {
					fails = append(fails, fail(pr, "input-modified:"+name, "%s on the %d-byte prefix of a %d-byte encoding changed the caller's buffer (accepted=%v): %s → %s", name, k, len(w), r3.ok, trunc(hx(w[:k]), 40), trunc(hx(in), 40)))
				}
				break
			}
			if r3.ok {
				fails = append(fails, fail("C03", "prefix:"+name, "%s: the %d-byte prefix of a completely consumed %d-byte encoding is accepted", name, k, len(w)))
				break
			}
		}
	}
	return fails
}

func init() {
	// !exact <op> <hex>: <hex> is, by construction, exactly one well-formed encoding for reader <op>.
	reg("!exact", func(a []string) (string, []Fail) {
		f, ok := ops[a[0]]
		if !ok {
			return "no-such-op", []Fail{fail("HARNESS", "no-such-op", "unknown op %s", a[0])}
		}
		out, _ := f(a[1:])
		var fails []Fail
		switch {
		case !strings.HasPrefix(out, "ok"):
			for _, p := range []string{"C03", "C02"} {
				fails = append(fails, fail(p, "exact-encoding:rejected:"+a[0], "%s rejects an encoding built as exactly one well-formed structure (%d bytes)", a[0], len(a[1])/2))
			}
		case strings.Contains(out, "rem=") && !strings.Contains(out, "rem=0 ") && !strings.HasSuffix(out, "rem=0"):
			for _, p := range []string{"C03", "C02", "C01"} {
				fails = append(fails, fail(p, "exact-encoding:remainder:"+a[0], "%s does not consume exactly the %d bytes of a well-formed structure: %s", a[0], len(a[1])/2, trunc(out, 40)))
			}
		}
		return trunc(out, 24), fails
	})
}
