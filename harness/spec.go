package main

// Independent implementation of the I2P 0.9.67 common-structures wire layout (C02).
//
// Nothing in this file calls the library under test: the encoders and decoders below are written
// from the specification text (as quoted in the struct comments of /repo and in the published
// common-structures document).  They are the "third implementation" of DESIGN.md section C02:
// the library parser is compared with these decoders, the library serialiser with these encoders.
//
// Layout rules transcribed here:
//   Integer        big-endian, fixed width
//   String         1 length byte, then that many bytes (0..255)
//   Mapping        2-byte size of the body, body = { String '=' String ';' }*
//   KeysAndCert    384-byte key block: crypto public key at the START, signing public key at the END,
//                  padding in between; then the certificate (1 type, 2 length, payload).
//                  KEY certificate payload = 2 signing type, 2 crypto type, excess key data.
//                  NULL certificate = DSA-SHA1 (128) / ElGamal (256), no padding.
//   Lease          32 gateway hash, 4 tunnel id, 8 end date (ms)
//   Lease2         32 gateway hash, 4 tunnel id, 4 end date (s)
//   OfflineSig     4 expires, 2 transient type, transient key, signature by the destination key
//   LeaseSet       Destination, 256 encryption key, signing key (size of the destination's signing
//                  type), 1 count (0..16), leases, signature
//   LeaseSet2      Destination, 4 published, 2 expires, 2 flags, [offline sig if flags bit 0],
//                  Mapping, 1 key count (1..16 here; see spec), { 2 type, 2 len, key }, 1 lease count (0..16),
//                  Lease2s, signature (transient type if offline, else destination type)
//   MetaLeaseSet   same header and options, 1 entry count, { 32 hash, 1 type, 4 expires, 1 cost,
//                  Mapping properties } (the layout documented in /repo/meta_leaseset), signature
//   EncryptedLS    2 sig type, blinded key, 4 published, 2 expires, 2 flags, [offline sig],
//                  2 inner length, inner data, signature
//   RouterAddress  1 cost, 8 expiration, String style, Mapping options
//   RouterInfo     RouterIdentity, 8 published, 1 address count, addresses, 1 peer size (0),
//                  Mapping options, signature

import (
	"bytes"
	"sort"
)

// ---- the specification's size tables -------------------------------------------------------------

// signing type code -> {public key bytes, signature bytes}
var spSig = map[int][2]int{
	0: {128, 40}, 1: {64, 64}, 2: {96, 96}, 3: {132, 132}, 4: {256, 256}, 5: {384, 384}, 6: {512, 512},
	7: {32, 64}, 8: {32, 64}, 11: {32, 64},
}

// crypto type code -> public key bytes (as carried in the key block)
var spCrypto = map[int]int{0: 256, 1: 64, 2: 96, 3: 132, 4: 32, 5: 32, 6: 32, 7: 32}

const spKeyBlock = 384

// ---- writer / reader ---------------------------------------------------------------------------------

type spW struct{ b []byte }

func (w *spW) raw(p []byte) { w.b = append(w.b, p...) }
func (w *spW) be(v uint64, n int) {
	for i := n - 1; i >= 0; i-- {
		w.b = append(w.b, byte(v>>(8*uint(i))))
	}
}
func (w *spW) str(s []byte) { w.be(uint64(len(s)), 1); w.raw(s) }

type spR struct {
	b  []byte
	ok bool
}

func newSpR(b []byte) *spR { return &spR{b: b, ok: true} }

func (r *spR) take(n int) []byte {
	if !r.ok || n < 0 || len(r.b) < n {
		r.ok = false
		return nil
	}
	out := append([]byte{}, r.b[:n]...)
	r.b = r.b[n:]
	return out
}
func (r *spR) be(n int) uint64 {
	p := r.take(n)
	var v uint64
	for _, c := range p {
		v = v<<8 | uint64(c)
	}
	return v
}
func (r *spR) str() []byte { return r.take(int(r.be(1))) }
func (r *spR) lit(c byte) {
	p := r.take(1)
	if r.ok && p[0] != c {
		r.ok = false
	}
}

// ---- Mapping -------------------------------------------------------------------------------------------

type SpecMapping struct{ Pairs [][2][]byte }

func (m SpecMapping) Encode() []byte {
	var body spW
	for _, p := range m.Pairs {
		body.str(p[0])
		body.raw([]byte{'='})
		body.str(p[1])
		body.raw([]byte{';'})
	}
	var w spW
	w.be(uint64(len(body.b)), 2)
	w.raw(body.b)
	return w.b
}

func (m SpecMapping) wellFormed() bool {
	total := 0
	for _, p := range m.Pairs {
		if len(p[0]) > 255 || len(p[1]) > 255 {
			return false
		}
		total += len(p[0]) + len(p[1]) + 4
	}
	return total <= 65535
}

func decodeMapping(r *spR) SpecMapping {
	size := int(r.be(2))
	body := newSpR(r.take(size))
	body.ok = r.ok
	m := SpecMapping{}
	for body.ok && len(body.b) > 0 {
		k := body.str()
		body.lit('=')
		v := body.str()
		body.lit(';')
		if body.ok {
			m.Pairs = append(m.Pairs, [2][]byte{k, v})
		}
	}
	if !body.ok {
		r.ok = false
	}
	return m
}

func DecodeMapping(b []byte) (SpecMapping, []byte, bool) {
	r := newSpR(b)
	m := decodeMapping(r)
	return m, r.b, r.ok
}

// sortedByKey is the specification's canonical order for signed mappings (bytewise on the key).
func (m SpecMapping) sortedByKey() SpecMapping {
	out := SpecMapping{Pairs: append([][2][]byte{}, m.Pairs...)}
	sort.SliceStable(out.Pairs, func(i, j int) bool { return bytes.Compare(out.Pairs[i][0], out.Pairs[j][0]) < 0 })
	return out
}

func (m SpecMapping) equal(o SpecMapping) bool {
	if len(m.Pairs) != len(o.Pairs) {
		return false
	}
	for i := range m.Pairs {
		if !bytes.Equal(m.Pairs[i][0], o.Pairs[i][0]) || !bytes.Equal(m.Pairs[i][1], o.Pairs[i][1]) {
			return false
		}
	}
	return true
}

// ---- Identity (KeysAndCert / Destination / RouterIdentity) --------------------------------------------

// SpecIdentity holds exactly the specification's fields of a KeysAndCert.
// NullCert: certificate type 0 (DSA-SHA1 signing key, ElGamal crypto key); CertExtra is then the
// certificate payload (empty in every conforming encoding, but the length field may announce more).
// Otherwise a KEY certificate (type 5) with the two type codes; CertExtra = payload bytes after the
// type codes and after any excess key data.
type SpecIdentity struct {
	NullCert   bool
	SigType    int
	CryptoType int
	CryptoKey  []byte
	Padding    []byte
	SigKey     []byte
	CertExtra  []byte
}

func (id SpecIdentity) sizes() (cs, ss int, ok bool) {
	if id.NullCert {
		return 256, 128, id.SigType == 0 && id.CryptoType == 0
	}
	sp, ok1 := spSig[id.SigType]
	cs, ok2 := spCrypto[id.CryptoType]
	return cs, sp[0], ok1 && ok2
}

func (id SpecIdentity) wellFormed() bool {
	cs, ss, ok := id.sizes()
	if !ok || len(id.CryptoKey) != cs || len(id.SigKey) != ss {
		return false
	}
	inBlock := ss
	if inBlock > 128 {
		inBlock = 128
	}
	return len(id.Padding) == spKeyBlock-cs-inBlock && len(id.CertExtra) <= 65535-4-(ss-inBlock)
}

func (id SpecIdentity) Encode() []byte {
	var w spW
	ss := len(id.SigKey)
	inBlock := ss
	if inBlock > 128 {
		inBlock = 128 // the first 128 bytes go into the block, the excess into the certificate
	}
	w.raw(id.CryptoKey)
	w.raw(id.Padding)
	w.raw(id.SigKey[:inBlock])
	if id.NullCert {
		w.be(0, 1)
		w.be(uint64(len(id.CertExtra)), 2)
		w.raw(id.CertExtra)
		return w.b
	}
	w.be(5, 1)
	w.be(uint64(4+(ss-inBlock)+len(id.CertExtra)), 2)
	w.be(uint64(id.SigType), 2)
	w.be(uint64(id.CryptoType), 2)
	w.raw(id.SigKey[inBlock:])
	w.raw(id.CertExtra)
	return w.b
}

func decodeIdentity(r *spR) SpecIdentity {
	block := r.take(spKeyBlock)
	ct := int(r.be(1))
	cl := int(r.be(2))
	payload := newSpR(r.take(cl))
	payload.ok = r.ok
	id := SpecIdentity{}
	if !r.ok {
		return id
	}
	switch ct {
	case 0:
		id.NullCert = true
		id.CryptoKey, id.SigKey = block[:256], block[256:]
		id.Padding = []byte{}
		id.CertExtra = payload.b
	case 5:
		id.SigType = int(payload.be(2))
		id.CryptoType = int(payload.be(2))
		sp, ok1 := spSig[id.SigType]
		cs, ok2 := spCrypto[id.CryptoType]
		if !payload.ok || !ok1 || !ok2 {
			r.ok = false
			return id
		}
		inBlock := sp[0]
		if inBlock > 128 {
			inBlock = 128
		}
		if cs+inBlock > spKeyBlock {
			r.ok = false
			return id
		}
		id.CryptoKey = block[:cs]
		id.Padding = block[cs : spKeyBlock-inBlock]
		id.SigKey = append(append([]byte{}, block[spKeyBlock-inBlock:]...), payload.take(sp[0]-inBlock)...)
		if !payload.ok {
			r.ok = false
			return id
		}
		id.CertExtra = payload.b
	default:
		// HASHCASH, HIDDEN, SIGNED, MULTIPLE certificates are not used with any structure generated here
		r.ok = false
	}
	return id
}

func DecodeIdentity(b []byte) (SpecIdentity, []byte, bool) {
	r := newSpR(b)
	id := decodeIdentity(r)
	return id, r.b, r.ok
}

// sigLen is the length of a signature made with this identity's signing key.
func (id SpecIdentity) sigLen() int { return spSig[id.SigType][1] }

// ---- Lease / Lease2 ------------------------------------------------------------------------------------

type SpecLease struct {
	Gateway  []byte // 32
	TunnelID uint32
	EndDate  uint64 // milliseconds
}

func (l SpecLease) Encode() []byte {
	var w spW
	w.raw(l.Gateway)
	w.be(uint64(l.TunnelID), 4)
	w.be(l.EndDate, 8)
	return w.b
}
func decodeLease(r *spR) SpecLease {
	return SpecLease{Gateway: r.take(32), TunnelID: uint32(r.be(4)), EndDate: r.be(8)}
}
func DecodeLease(b []byte) (SpecLease, []byte, bool) {
	r := newSpR(b)
	l := decodeLease(r)
	return l, r.b, r.ok
}

type SpecLease2 struct {
	Gateway  []byte // 32
	TunnelID uint32
	EndDate  uint32 // seconds
}

func (l SpecLease2) Encode() []byte {
	var w spW
	w.raw(l.Gateway)
	w.be(uint64(l.TunnelID), 4)
	w.be(uint64(l.EndDate), 4)
	return w.b
}
func decodeLease2(r *spR) SpecLease2 {
	return SpecLease2{Gateway: r.take(32), TunnelID: uint32(r.be(4)), EndDate: uint32(r.be(4))}
}
func DecodeLease2(b []byte) (SpecLease2, []byte, bool) {
	r := newSpR(b)
	l := decodeLease2(r)
	return l, r.b, r.ok
}

// ---- OfflineSignature ------------------------------------------------------------------------------------

type SpecOfflineSig struct {
	Expires       uint32
	TransientType int
	TransientKey  []byte
	Signature     []byte // by the destination's key: its length is fixed by the destination's signing type
}

func (o SpecOfflineSig) Encode() []byte {
	var w spW
	w.be(uint64(o.Expires), 4)
	w.be(uint64(o.TransientType), 2)
	w.raw(o.TransientKey)
	w.raw(o.Signature)
	return w.b
}
func decodeOfflineSig(r *spR, destSigType int) SpecOfflineSig {
	o := SpecOfflineSig{Expires: uint32(r.be(4)), TransientType: int(r.be(2))}
	tp, ok1 := spSig[o.TransientType]
	dp, ok2 := spSig[destSigType]
	if !ok1 || !ok2 {
		r.ok = false
		return o
	}
	o.TransientKey = r.take(tp[0])
	o.Signature = r.take(dp[1])
	return o
}
func DecodeOfflineSig(b []byte, destSigType int) (SpecOfflineSig, []byte, bool) {
	r := newSpR(b)
	o := decodeOfflineSig(r, destSigType)
	return o, r.b, r.ok
}

// ---- LeaseSet (type 1) -------------------------------------------------------------------------------------

type SpecLeaseSet struct {
	Dest       SpecIdentity
	EncKey     []byte // 256, ElGamal
	SigningKey []byte // revocation key: length of the destination's signing key type
	Leases     []SpecLease
	Signature  []byte
}

func (v SpecLeaseSet) Encode() []byte {
	var w spW
	w.raw(v.Dest.Encode())
	w.raw(v.EncKey)
	w.raw(v.SigningKey)
	w.be(uint64(len(v.Leases)), 1)
	for _, l := range v.Leases {
		w.raw(l.Encode())
	}
	w.raw(v.Signature)
	return w.b
}
func DecodeLeaseSet(b []byte) (SpecLeaseSet, []byte, bool) {
	r := newSpR(b)
	v := SpecLeaseSet{Dest: decodeIdentity(r)}
	if !r.ok {
		return v, r.b, false
	}
	v.EncKey = r.take(256)
	v.SigningKey = r.take(spSig[v.Dest.SigType][0])
	n := int(r.be(1))
	if n > 16 {
		r.ok = false
	}
	for i := 0; i < n && r.ok; i++ {
		v.Leases = append(v.Leases, decodeLease(r))
	}
	v.Signature = r.take(v.Dest.sigLen())
	return v, r.b, r.ok
}

// ---- LeaseSet2 -----------------------------------------------------------------------------------------------

type SpecEncKey struct {
	Type int
	Data []byte // the 2-byte length field is len(Data)
}

type SpecLeaseSet2 struct {
	Dest      SpecIdentity
	Published uint32
	Expires   uint16
	Flags     uint16
	Offline   *SpecOfflineSig // present iff Flags bit 0
	Options   SpecMapping
	Keys      []SpecEncKey
	Leases    []SpecLease2
	Signature []byte
}

func encodeLS2Header(w *spW, dest SpecIdentity, published uint32, expires, flags uint16, off *SpecOfflineSig) {
	w.raw(dest.Encode())
	w.be(uint64(published), 4)
	w.be(uint64(expires), 2)
	w.be(uint64(flags), 2)
	if off != nil {
		w.raw(off.Encode())
	}
}

// decodeLS2Header returns the header fields and the signing type of the trailing signature.
func decodeLS2Header(r *spR) (dest SpecIdentity, published uint32, expires, flags uint16, off *SpecOfflineSig, sigType int) {
	dest = decodeIdentity(r)
	if !r.ok {
		return
	}
	published, expires, flags = uint32(r.be(4)), uint16(r.be(2)), uint16(r.be(2))
	sigType = dest.SigType
	if flags&1 != 0 {
		o := decodeOfflineSig(r, dest.SigType)
		off = &o
		sigType = o.TransientType
	}
	return
}

func (v SpecLeaseSet2) Encode() []byte {
	var w spW
	encodeLS2Header(&w, v.Dest, v.Published, v.Expires, v.Flags, v.Offline)
	w.raw(v.Options.Encode())
	w.be(uint64(len(v.Keys)), 1)
	for _, k := range v.Keys {
		w.be(uint64(k.Type), 2)
		w.be(uint64(len(k.Data)), 2)
		w.raw(k.Data)
	}
	w.be(uint64(len(v.Leases)), 1)
	for _, l := range v.Leases {
		w.raw(l.Encode())
	}
	w.raw(v.Signature)
	return w.b
}
func DecodeLeaseSet2(b []byte) (SpecLeaseSet2, []byte, bool) {
	r := newSpR(b)
	v := SpecLeaseSet2{}
	var sigType int
	v.Dest, v.Published, v.Expires, v.Flags, v.Offline, sigType = decodeLS2Header(r)
	if !r.ok {
		return v, r.b, false
	}
	v.Options = decodeMapping(r)
	nk := int(r.be(1))
	if nk < 1 || nk > 16 {
		r.ok = false
	}
	for i := 0; i < nk && r.ok; i++ {
		k := SpecEncKey{Type: int(r.be(2))}
		k.Data = r.take(int(r.be(2)))
		v.Keys = append(v.Keys, k)
	}
	nl := int(r.be(1))
	if nl > 16 {
		r.ok = false
	}
	for i := 0; i < nl && r.ok; i++ {
		v.Leases = append(v.Leases, decodeLease2(r))
	}
	sp, ok := spSig[sigType]
	if !ok {
		return v, r.b, false
	}
	v.Signature = r.take(sp[1])
	return v, r.b, r.ok
}

// ---- MetaLeaseSet ----------------------------------------------------------------------------------------------

type SpecMetaEntry struct {
	Hash       []byte // 32
	Type       int    // 1 LeaseSet, 3 LeaseSet2, 5 EncryptedLeaseSet
	Expires    uint32
	Cost       int
	Properties SpecMapping
}

type SpecMetaLeaseSet struct {
	Dest      SpecIdentity
	Published uint32
	Expires   uint16
	Flags     uint16
	Offline   *SpecOfflineSig
	Options   SpecMapping
	Entries   []SpecMetaEntry
	Signature []byte
}

func (v SpecMetaLeaseSet) Encode() []byte {
	var w spW
	encodeLS2Header(&w, v.Dest, v.Published, v.Expires, v.Flags, v.Offline)
	w.raw(v.Options.Encode())
	w.be(uint64(len(v.Entries)), 1)
	for _, e := range v.Entries {
		w.raw(e.Hash)
		w.be(uint64(e.Type), 1)
		w.be(uint64(e.Expires), 4)
		w.be(uint64(e.Cost), 1)
		w.raw(e.Properties.Encode())
	}
	w.raw(v.Signature)
	return w.b
}
func DecodeMetaLeaseSet(b []byte) (SpecMetaLeaseSet, []byte, bool) {
	r := newSpR(b)
	v := SpecMetaLeaseSet{}
	var sigType int
	v.Dest, v.Published, v.Expires, v.Flags, v.Offline, sigType = decodeLS2Header(r)
	if !r.ok {
		return v, r.b, false
	}
	v.Options = decodeMapping(r)
	n := int(r.be(1))
	if n < 1 || n > 16 {
		r.ok = false
	}
	for i := 0; i < n && r.ok; i++ {
		e := SpecMetaEntry{Hash: r.take(32), Type: int(r.be(1)), Expires: uint32(r.be(4)), Cost: int(r.be(1))}
		if e.Type != 1 && e.Type != 3 && e.Type != 5 {
			r.ok = false
		}
		e.Properties = decodeMapping(r)
		v.Entries = append(v.Entries, e)
	}
	sp, ok := spSig[sigType]
	if !ok {
		return v, r.b, false
	}
	v.Signature = r.take(sp[1])
	return v, r.b, r.ok
}

// ---- EncryptedLeaseSet -------------------------------------------------------------------------------------------

type SpecEncryptedLeaseSet struct {
	SigType    int
	BlindedKey []byte
	Published  uint32
	Expires    uint16
	Flags      uint16
	Offline    *SpecOfflineSig
	Inner      []byte
	Signature  []byte
}

func (v SpecEncryptedLeaseSet) Encode() []byte {
	var w spW
	w.be(uint64(v.SigType), 2)
	w.raw(v.BlindedKey)
	w.be(uint64(v.Published), 4)
	w.be(uint64(v.Expires), 2)
	w.be(uint64(v.Flags), 2)
	if v.Offline != nil {
		w.raw(v.Offline.Encode())
	}
	w.be(uint64(len(v.Inner)), 2)
	w.raw(v.Inner)
	w.raw(v.Signature)
	return w.b
}
func DecodeEncryptedLeaseSet(b []byte) (SpecEncryptedLeaseSet, []byte, bool) {
	r := newSpR(b)
	v := SpecEncryptedLeaseSet{SigType: int(r.be(2))}
	sp, ok := spSig[v.SigType]
	if !ok || !r.ok {
		return v, r.b, false
	}
	v.BlindedKey = r.take(sp[0])
	v.Published, v.Expires, v.Flags = uint32(r.be(4)), uint16(r.be(2)), uint16(r.be(2))
	sigType := v.SigType
	if r.ok && v.Flags&1 != 0 {
		o := decodeOfflineSig(r, v.SigType)
		v.Offline = &o
		sigType = o.TransientType
	}
	v.Inner = r.take(int(r.be(2)))
	tp, ok := spSig[sigType]
	if !ok {
		return v, r.b, false
	}
	v.Signature = r.take(tp[1])
	return v, r.b, r.ok
}

// ---- RouterAddress / RouterInfo -----------------------------------------------------------------------------------

type SpecRouterAddress struct {
	Cost       int
	Expiration uint64 // 8 bytes, all zero in every current implementation
	Style      []byte
	Options    SpecMapping
}

func (v SpecRouterAddress) Encode() []byte {
	var w spW
	w.be(uint64(v.Cost), 1)
	w.be(v.Expiration, 8)
	w.str(v.Style)
	w.raw(v.Options.Encode())
	return w.b
}
func decodeRouterAddress(r *spR) SpecRouterAddress {
	v := SpecRouterAddress{Cost: int(r.be(1)), Expiration: r.be(8)}
	v.Style = r.str()
	v.Options = decodeMapping(r)
	return v
}
func DecodeRouterAddress(b []byte) (SpecRouterAddress, []byte, bool) {
	r := newSpR(b)
	v := decodeRouterAddress(r)
	return v, r.b, r.ok
}

type SpecRouterInfo struct {
	Ident     SpecIdentity
	Published uint64 // milliseconds
	Addresses []SpecRouterAddress
	Peers     [][]byte // 1-byte count, then that many 32-byte hashes: always empty in practice
	Options   SpecMapping
	Signature []byte
}

func (v SpecRouterInfo) Encode() []byte {
	var w spW
	w.raw(v.Ident.Encode())
	w.be(v.Published, 8)
	w.be(uint64(len(v.Addresses)), 1)
	for _, a := range v.Addresses {
		w.raw(a.Encode())
	}
	w.be(uint64(len(v.Peers)), 1)
	for _, p := range v.Peers {
		w.raw(p)
	}
	w.raw(v.Options.Encode())
	w.raw(v.Signature)
	return w.b
}
func DecodeRouterInfo(b []byte) (SpecRouterInfo, []byte, bool) {
	r := newSpR(b)
	v := SpecRouterInfo{Ident: decodeIdentity(r)}
	if !r.ok {
		return v, r.b, false
	}
	v.Published = r.be(8)
	n := int(r.be(1))
	for i := 0; i < n && r.ok; i++ {
		v.Addresses = append(v.Addresses, decodeRouterAddress(r))
	}
	np := int(r.be(1))
	for i := 0; i < np && r.ok; i++ {
		v.Peers = append(v.Peers, r.take(32))
	}
	v.Options = decodeMapping(r)
	v.Signature = r.take(v.Ident.sigLen())
	return v, r.b, r.ok
}
