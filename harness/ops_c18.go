package main

// C18 — "Any number of goroutines may concurrently serialise, hash, validate, verify and query one shared
// parsed or constructed value; every call returns the same result it would return alone and no data race
// occurs."  Two implementation-side ops (no Lean counterpart; the Lean side is Conc.lean + Props/C18.lean):
//
//	!concurrent <kind>[/<path>] <hex> <aux> <R>   result half: every read-only method of the value (and of the
//	        structures it hands out) is called once alone, then by 8 goroutines × R rounds on the SAME value;
//	        each concurrent result must equal the sequential one.  The race half is the Go race detector:
//	        ./check runs this suite with the -race build (GORACE=halt_on_error=1).
//	!captight <kind> <hex> <aux>                  the invariant Theorem 2 assumes: on values from EVERY parser
//	        and constructor path of <kind>, the slices used as `append` bases have cap == len.
import (
	"fmt"
	"os"
	"reflect"
	"runtime"
	"sort"
	"strings"
	"sync"
	"time"

	"github.com/go-i2p/common/certificate"
	"github.com/go-i2p/common/data"
	"github.com/go-i2p/common/destination"
	"github.com/go-i2p/common/encrypted_leaseset"
	"github.com/go-i2p/common/key_certificate"
	"github.com/go-i2p/common/keys_and_cert"
	"github.com/go-i2p/common/lease"
	"github.com/go-i2p/common/lease_set"
	"github.com/go-i2p/common/lease_set2"
	"github.com/go-i2p/common/meta_leaseset"
	"github.com/go-i2p/common/offline_signature"
	"github.com/go-i2p/common/router_address"
	"github.com/go-i2p/common/router_identity"
	"github.com/go-i2p/common/router_info"
	"github.com/go-i2p/common/signature"
)

const c18Goroutines = 8

// c18Path builds one value of a kind from wire bytes along one parser/constructor path.
// It returns a POINTER to the value (the shared object), or nil when the path rejects the input.
type c18Path struct {
	name  string
	build func(w []byte, aux int) interface{}
}

func nilIfErr(v interface{}, err error) interface{} {
	if err != nil || v == nil || reflect.ValueOf(v).IsNil() {
		return nil
	}
	return v
}

func parsedCert(w []byte) *certificate.Certificate {
	c, _, err := certificate.ReadCertificate(w)
	if err != nil || c == nil {
		return nil
	}
	return c
}

func parsedKac(w []byte) *keys_and_cert.KeysAndCert {
	k, _, err := keys_and_cert.ReadKeysAndCert(w)
	if err != nil || k == nil {
		return nil
	}
	return k
}

// c18Paths: the first path of a kind is its primary parser.
var c18Paths = map[string][]c18Path{
	"cert": {
		{"ReadCertificate", func(w []byte, _ int) interface{} {
			c, _, err := certificate.ReadCertificate(w)
			return nilIfErr(c, err)
		}},
		{"NewCertificateWithType", func(w []byte, _ int) interface{} {
			c := parsedCert(w)
			if c == nil {
				return nil
			}
			t, err1 := c.Type()
			d, err2 := c.Data()
			if err1 != nil || err2 != nil {
				return nil
			}
			return nilIfErr(certificate.NewCertificateWithType(uint8(t), d))
		}},
		{"CertificateBuilder.Build", func(w []byte, _ int) interface{} {
			c := parsedCert(w)
			if c == nil {
				return nil
			}
			t, err1 := c.Type()
			d, err2 := c.Data()
			if err1 != nil || err2 != nil {
				return nil
			}
			b, err := certificate.NewCertificateBuilder().WithType(uint8(t))
			if err != nil || b == nil {
				return nil
			}
			return nilIfErr(b.WithPayload(d).Build())
		}},
		{"NewCertificate", func(w []byte, _ int) interface{} {
			if len(w) != 3 || w[0] != 0 {
				return nil
			}
			return certificate.NewCertificate()
		}},
	},
	"keycert": {
		{"NewKeyCertificate", func(w []byte, _ int) interface{} {
			k, _, err := key_certificate.NewKeyCertificate(w)
			return nilIfErr(k, err)
		}},
		{"KeyCertificateFromCertificate", func(w []byte, _ int) interface{} {
			c := parsedCert(w)
			if c == nil {
				return nil
			}
			return nilIfErr(key_certificate.KeyCertificateFromCertificate(c))
		}},
		{"NewKeyCertificateWithTypes", func(w []byte, _ int) interface{} {
			k, _, err := key_certificate.NewKeyCertificate(w)
			if err != nil || k == nil {
				return nil
			}
			return nilIfErr(key_certificate.NewKeyCertificateWithTypes(k.SigningPublicKeyType(), k.PublicKeyType()))
		}},
		{"NewEd25519X25519KeyCertificate", func(w []byte, _ int) interface{} {
			if len(w) < 7 || w[4] != 7 || w[6] != 4 {
				return nil
			}
			return nilIfErr(key_certificate.NewEd25519X25519KeyCertificate())
		}},
		{"NewDSAElGamalKeyCertificate", func(w []byte, _ int) interface{} {
			if len(w) < 7 || w[4] != 0 || w[6] != 0 {
				return nil
			}
			return nilIfErr(key_certificate.NewDSAElGamalKeyCertificate())
		}},
		{"NewECDSAP256KeyCertificate", func(w []byte, _ int) interface{} {
			if len(w) < 7 || w[4] != 1 {
				return nil
			}
			return nilIfErr(key_certificate.NewECDSAP256KeyCertificate())
		}},
		{"NewECDSAP384KeyCertificate", func(w []byte, _ int) interface{} {
			if len(w) < 7 || w[4] != 2 {
				return nil
			}
			return nilIfErr(key_certificate.NewECDSAP384KeyCertificate())
		}},
		{"NewRedDSAX25519KeyCertificate", func(w []byte, _ int) interface{} {
			if len(w) < 7 || w[4] != 11 {
				return nil
			}
			return nilIfErr(key_certificate.NewRedDSAX25519KeyCertificate())
		}},
	},
	"kac": {
		{"ReadKeysAndCert", func(w []byte, _ int) interface{} {
			k, _, err := keys_and_cert.ReadKeysAndCert(w)
			return nilIfErr(k, err)
		}},
		{"ReadKeysAndCertElgAndEd25519", func(w []byte, _ int) interface{} {
			k, _, err := keys_and_cert.ReadKeysAndCertElgAndEd25519(w)
			return nilIfErr(k, err)
		}},
		{"ReadKeysAndCertX25519AndEd25519", func(w []byte, _ int) interface{} {
			k, _, err := keys_and_cert.ReadKeysAndCertX25519AndEd25519(w)
			return nilIfErr(k, err)
		}},
		{"NewKeysAndCert", func(w []byte, _ int) interface{} {
			k := parsedKac(w)
			if k == nil {
				return nil
			}
			return nilIfErr(keys_and_cert.NewKeysAndCert(k.KeyCertificate, k.ReceivingPublic, k.Padding, k.SigningPublic))
		}},
	},
	"dest": {
		{"ReadDestination", func(w []byte, _ int) interface{} {
			d, _, err := destination.ReadDestination(w)
			return nilIfErr(&d, err)
		}},
		{"NewDestinationFromBytes", func(w []byte, _ int) interface{} {
			d, _, err := destination.NewDestinationFromBytes(w)
			return nilIfErr(d, err)
		}},
		{"NewDestination", func(w []byte, _ int) interface{} {
			k := parsedKac(w)
			if k == nil {
				return nil
			}
			return nilIfErr(destination.NewDestination(k))
		}},
		{"RouterIdentity.AsDestination", func(w []byte, _ int) interface{} {
			r, _, err := router_identity.ReadRouterIdentity(w)
			if err != nil || r == nil {
				return nil
			}
			d := r.AsDestination()
			return &d
		}},
	},
	"rid": {
		{"ReadRouterIdentity", func(w []byte, _ int) interface{} {
			r, _, err := router_identity.ReadRouterIdentity(w)
			return nilIfErr(r, err)
		}},
		{"NewRouterIdentityFromBytes", func(w []byte, _ int) interface{} {
			r, _, err := router_identity.NewRouterIdentityFromBytes(w)
			return nilIfErr(r, err)
		}},
		{"NewRouterIdentityFromKeysAndCert", func(w []byte, _ int) interface{} {
			k := parsedKac(w)
			if k == nil {
				return nil
			}
			return nilIfErr(router_identity.NewRouterIdentityFromKeysAndCert(k))
		}},
		{"NewRouterIdentity", func(w []byte, _ int) interface{} {
			k := parsedKac(w)
			if k == nil || k.KeyCertificate == nil {
				return nil
			}
			return nilIfErr(router_identity.NewRouterIdentity(k.ReceivingPublic, k.SigningPublic, k.Certificate(), k.Padding))
		}},
	},
	"ls": {
		{"ReadLeaseSet", func(w []byte, _ int) interface{} {
			v, err := lease_set.ReadLeaseSet(w)
			return nilIfErr(&v, err)
		}},
		{"ReadDestinationFromLeaseSet", func(w []byte, _ int) interface{} {
			d, _, err := lease_set.ReadDestinationFromLeaseSet(w)
			return nilIfErr(&d, err)
		}},
	},
	"ls2": {{"ReadLeaseSet2", func(w []byte, _ int) interface{} {
		v, _, err := lease_set2.ReadLeaseSet2(w)
		return nilIfErr(&v, err)
	}}},
	"meta": {{"ReadMetaLeaseSet", func(w []byte, _ int) interface{} {
		v, _, err := meta_leaseset.ReadMetaLeaseSet(w)
		return nilIfErr(&v, err)
	}}},
	"els": {{"ReadEncryptedLeaseSet", func(w []byte, _ int) interface{} {
		v, _, err := encrypted_leaseset.ReadEncryptedLeaseSet(w)
		return nilIfErr(&v, err)
	}}},
	"ri": {
		{"ReadRouterInfo", func(w []byte, _ int) interface{} {
			v, _, err := router_info.ReadRouterInfo(w)
			return nilIfErr(&v, err)
		}},
		{"OwnedRouterInfo", func(w []byte, _ int) interface{} {
			v, _, err := router_info.ReadRouterInfo(w)
			if err != nil || v.RouterIdentity() == nil || v.RouterIdentity().KeyCertificate == nil {
				return nil
			}
			return nilIfErr(router_info.OwnedRouterInfo(*v.RouterIdentity().KeyCertificate), nil)
		}},
	},
	"ra": {
		{"ReadRouterAddress", func(w []byte, _ int) interface{} {
			v, _, err := router_address.ReadRouterAddress(w)
			return nilIfErr(&v, err)
		}},
		{"NewRouterAddress", func(w []byte, _ int) interface{} {
			v, _, err := router_address.ReadRouterAddress(w)
			if err != nil {
				return nil
			}
			style, serr := v.TransportStyle().Data()
			om := v.Options()
			opts, oerr := om.ToGoMap()
			if serr != nil || oerr != nil {
				return nil
			}
			return nilIfErr(router_address.NewRouterAddress(uint8(v.Cost()), v.Expiration().Time(), style, opts))
		}},
	},
	"mapping": {
		{"ReadMapping", func(w []byte, _ int) interface{} {
			m, _, errs := data.ReadMapping(w)
			if len(errs) != 0 {
				return nil
			}
			return &m
		}},
		{"NewMapping", func(w []byte, _ int) interface{} {
			m, _, errs := data.NewMapping(w)
			if len(errs) != 0 || m == nil {
				return nil
			}
			return m
		}},
		{"GoMapToMapping", func(w []byte, _ int) interface{} {
			m, _, errs := data.ReadMapping(w)
			if len(errs) != 0 {
				return nil
			}
			gm, err := m.ToGoMap()
			if err != nil {
				return nil
			}
			return nilIfErr(data.GoMapToMapping(gm))
		}},
		{"ValuesToMapping", func(w []byte, _ int) interface{} {
			m, _, errs := data.ReadMapping(w)
			if len(errs) != 0 {
				return nil
			}
			vals := append(data.MappingValues{}, m.Values()...)
			return nilIfErr(data.ValuesToMapping(vals))
		}},
	},
	"offsig": {
		{"ReadOfflineSignature", func(w []byte, aux int) interface{} {
			o, _, err := offline_signature.ReadOfflineSignature(w, uint16(aux))
			return nilIfErr(&o, err)
		}},
		{"NewOfflineSignature", func(w []byte, aux int) interface{} {
			o, _, err := offline_signature.ReadOfflineSignature(w, uint16(aux))
			if err != nil {
				return nil
			}
			n, err := offline_signature.NewOfflineSignature(o.Expires(), o.TransientSigType(), o.TransientPublicKey(), o.Signature(), uint16(aux))
			return nilIfErr(&n, err)
		}},
	},
	"sig": {
		{"ReadSignature", func(w []byte, aux int) interface{} {
			s, _, err := signature.ReadSignature(w, aux)
			return nilIfErr(&s, err)
		}},
		{"NewSignature", func(w []byte, aux int) interface{} {
			s, _, err := signature.NewSignature(w, aux)
			return nilIfErr(s, err)
		}},
		{"NewSignatureFromBytes", func(w []byte, aux int) interface{} {
			s, err := signature.NewSignatureFromBytes(w, aux)
			return nilIfErr(&s, err)
		}},
	},
	"lease": {
		{"ReadLease", func(w []byte, _ int) interface{} {
			l, _, err := lease.ReadLease(w)
			return nilIfErr(&l, err)
		}},
		{"NewLeaseFromBytes", func(w []byte, _ int) interface{} {
			l, _, err := lease.NewLeaseFromBytes(w)
			return nilIfErr(l, err)
		}},
	},
	"lease2": {
		{"ReadLease2", func(w []byte, _ int) interface{} {
			l, _, err := lease.ReadLease2(w)
			return nilIfErr(&l, err)
		}},
		{"NewLease2FromBytes", func(w []byte, _ int) interface{} {
			l, _, err := lease.NewLease2FromBytes(w)
			return nilIfErr(l, err)
		}},
	},
}

// clockDependent: results that legitimately depend on time.Now() (IsExpired and its callers)
func clockDependent(typ, method string) bool {
	if method == "IsExpired" {
		return true
	}
	switch typ + "." + method {
	case "Lease.Validate", "Lease2.Validate", "OfflineSignature.Validate", "OfflineSignature.IsValid", "OfflineSignature.String":
		return true
	}
	return false
}

// ---- deterministic rendering of arbitrary results ---------------------------------------------------

var timeType = reflect.TypeOf(time.Time{})
var errorType = reflect.TypeOf((*error)(nil)).Elem()

// render writes a canonical text of v: bytes as hex, pointers dereferenced (never printed as addresses),
// map keys sorted, errors reduced to err/nil, unexported fields included.
func render(b *strings.Builder, v reflect.Value, depth int) {
	if !v.IsValid() {
		b.WriteString("<invalid>")
		return
	}
	if depth > 7 {
		b.WriteString("…")
		return
	}
	t := v.Type()
	if t.Implements(errorType) && (v.Kind() == reflect.Interface || v.Kind() == reflect.Ptr) {
		if v.IsNil() {
			b.WriteString("nil")
		} else {
			b.WriteString("err")
		}
		return
	}
	if t == timeType {
		if v.CanInterface() {
			fmt.Fprintf(b, "time(%d)", v.Interface().(time.Time).UnixNano())
		} else {
			fmt.Fprintf(b, "time(%d,%d)", v.Field(0).Uint(), v.Field(1).Int())
		}
		return
	}
	switch v.Kind() {
	case reflect.Bool:
		fmt.Fprintf(b, "%v", v.Bool())
	case reflect.Int, reflect.Int8, reflect.Int16, reflect.Int32, reflect.Int64:
		fmt.Fprintf(b, "%d", v.Int())
	case reflect.Uint, reflect.Uint8, reflect.Uint16, reflect.Uint32, reflect.Uint64, reflect.Uintptr:
		fmt.Fprintf(b, "%d", v.Uint())
	case reflect.Float32, reflect.Float64:
		fmt.Fprintf(b, "%v", v.Float())
	case reflect.String:
		b.WriteString("s:")
		b.WriteString(hxs(v.String()))
	case reflect.Ptr, reflect.Interface:
		if v.IsNil() {
			b.WriteString("nil")
			return
		}
		b.WriteString("&")
		render(b, v.Elem(), depth+1)
	case reflect.Slice, reflect.Array:
		if v.Kind() == reflect.Slice && v.IsNil() {
			b.WriteString("nil[]")
			return
		}
		if t.Elem().Kind() == reflect.Uint8 {
			b.WriteString("x:")
			const hexd = "0123456789abcdef"
			for i := 0; i < v.Len(); i++ {
				c := byte(v.Index(i).Uint())
				b.WriteByte(hexd[c>>4])
				b.WriteByte(hexd[c&15])
			}
			return
		}
		b.WriteString("[")
		for i := 0; i < v.Len(); i++ {
			if i > 0 {
				b.WriteString(",")
			}
			render(b, v.Index(i), depth+1)
		}
		b.WriteString("]")
	case reflect.Map:
		if v.IsNil() {
			b.WriteString("nilmap")
			return
		}
		var ents []string
		it := v.MapRange()
		for it.Next() {
			var e strings.Builder
			render(&e, it.Key(), depth+1)
			e.WriteString("=>")
			render(&e, it.Value(), depth+1)
			ents = append(ents, e.String())
		}
		sort.Strings(ents)
		b.WriteString("map{" + strings.Join(ents, ";") + "}")
	case reflect.Struct:
		b.WriteString(t.Name() + "{")
		for i := 0; i < v.NumField(); i++ {
			if i > 0 {
				b.WriteString(",")
			}
			render(b, v.Field(i), depth+1)
		}
		b.WriteString("}")
	case reflect.Func, reflect.Chan, reflect.UnsafePointer:
		if v.IsNil() {
			b.WriteString("nil")
		} else {
			b.WriteString(v.Kind().String())
		}
	default:
		b.WriteString("?" + v.Kind().String())
	}
}

// c18Call invokes method i of rv under recover and renders all results.
func c18Call(rv reflect.Value, i int) (out string) {
	defer func() {
		if r := recover(); r != nil {
			out = "panic"
		}
	}()
	res := rv.Method(i).Call(nil)
	var b strings.Builder
	for k, r := range res {
		if k > 0 {
			b.WriteString(" | ")
		}
		render(&b, r, 0)
	}
	return b.String()
}

type c18Method struct {
	subject reflect.Value // pointer to the shared value
	key     string        // how the subject was reached from the root ("root", "field:KeysAndCert", "call:Certificate")
	typ     string
	idx     int
	name    string
	want    string
	compare bool
}

func typeName(rv reflect.Value) string {
	t := rv.Type()
	for t.Kind() == reflect.Ptr {
		t = t.Elem()
	}
	return t.Name()
}

type c18Subject struct {
	key string
	v   reflect.Value
}

// c18Subjects: the root value plus the library structures it shares by pointer — its exported pointer
// fields (Destination.KeysAndCert, KeysAndCert.KeyCertificate) and, when withCalls, what its own accessors
// hand out (Certificate(), RouterIdentity(), OfflineSignature(), Published(), RouterAddresses()[i] …).
// Without withCalls no method of the value is invoked: the value stays untouched.
func c18Subjects(root reflect.Value, withCalls bool, limit int) []c18Subject {
	out := []c18Subject{{"root", root}}
	seen := map[uintptr]bool{root.Pointer(): true}
	add := func(key string, p reflect.Value) {
		if len(out) > limit || p.Kind() != reflect.Ptr || p.IsNil() || p.Elem().Kind() == reflect.Ptr {
			return
		}
		if !strings.HasPrefix(p.Type().Elem().PkgPath(), "github.com/go-i2p/common/") || p.Type().NumMethod() == 0 {
			return
		}
		if !seen[p.Pointer()] {
			seen[p.Pointer()] = true
			out = append(out, c18Subject{key, p})
		}
	}
	if e := root.Elem(); e.Kind() == reflect.Struct {
		for i := 0; i < e.NumField(); i++ {
			f := e.Field(i)
			if f.Kind() == reflect.Ptr && f.CanInterface() {
				add("field:"+e.Type().Field(i).Name, f)
			}
		}
	}
	if !withCalls {
		return out
	}
	t := root.Type()
	for i := 0; i < t.NumMethod(); i++ {
		m := t.Method(i)
		if m.Type.NumIn() != 1 || m.Type.IsVariadic() || m.Type.NumOut() == 0 {
			continue
		}
		k := m.Type.Out(0).Kind()
		if k != reflect.Ptr && !(k == reflect.Slice && m.Type.Out(0).Elem().Kind() == reflect.Ptr) {
			continue
		}
		func() {
			defer func() { recover() }()
			r := root.Method(i).Call(nil)[0]
			if r.Kind() == reflect.Ptr {
				add("call:"+m.Name, r)
			} else {
				for j := 0; j < r.Len() && j < 2; j++ {
					add(fmt.Sprintf("call:%s[%d]", m.Name, j), r.Index(j))
				}
			}
		}()
	}
	return out
}

// c18Methods lists the read-only methods of the subjects (exported, argument-free, not clock dependent).
func c18Methods(subjects []c18Subject) []c18Method {
	var ms []c18Method
	for _, s := range subjects {
		t := s.v.Type()
		tn := typeName(s.v)
		for i := 0; i < t.NumMethod(); i++ {
			m := t.Method(i)
			if m.Type.NumIn() != 1 || m.Type.IsVariadic() || clockDependent(tn, m.Name) {
				continue
			}
			ms = append(ms, c18Method{subject: s.v, key: s.key, typ: tn, idx: i, name: m.Name})
		}
	}
	return ms
}

// c18Alone builds a value and calls every method once, sequentially: key.method → rendered result.
func c18Alone(kindPath string, w []byte, aux int) map[string]string {
	val, _, _ := c18Build(kindPath, w, aux)
	if val == nil {
		return nil
	}
	res := map[string]string{}
	for _, m := range c18Methods(c18Subjects(reflect.ValueOf(val), true, 6)) {
		res[m.key+"."+m.name] = c18Call(m.subject, m.idx)
	}
	return res
}

// c18Fresh: every method of the root value and of its pointer fields called on a value built for that one
// call — "the result it would return alone" in the strict sense (no other call has touched the value).
func c18Fresh(kindPath string, w []byte, aux int) map[string]string {
	val, _, _ := c18Build(kindPath, w, aux)
	if val == nil {
		return nil
	}
	res := map[string]string{}
	n := len(c18Methods(c18Subjects(reflect.ValueOf(val), false, 6)))
	for i := 0; i < n; i++ {
		v, _, _ := c18Build(kindPath, w, aux)
		if v == nil {
			return res
		}
		ms := c18Methods(c18Subjects(reflect.ValueOf(v), false, 6))
		if i >= len(ms) {
			break
		}
		res[ms[i].key+"."+ms[i].name] = c18Call(ms[i].subject, ms[i].idx)
	}
	return res
}

func c18Build(kindPath string, w []byte, aux int) (interface{}, string, bool) {
	kind, pathName := kindPath, ""
	if i := strings.IndexByte(kindPath, '/'); i >= 0 {
		kind, pathName = kindPath[:i], kindPath[i+1:]
	}
	paths, ok := c18Paths[kind]
	if !ok {
		panic("harness: unknown C18 kind " + kind)
	}
	for i, p := range paths {
		if (pathName == "" && i == 0) || p.name == pathName {
			return p.build(w, aux), p.name, true
		}
	}
	panic("harness: unknown C18 path " + kindPath)
}

// ---- CapTight ----------------------------------------------------------------------------------------

// capTightFields: struct type → fields whose slice must satisfy cap == len: exactly the receiver-derived
// `append` bases of the read paths (Props/C18.lean `capTightBases`; keep the two lists in step).
var capTightFields = map[string][]string{
	"github.com/go-i2p/common/certificate.Certificate": {"kind"},
}

// capTightWatched: sibling slices that are NOT append bases today (the extractor reports none); their
// tightness is only counted (stats.json counters), never a failure — the property does not need it.
var capTightWatched = map[string][]string{
	"github.com/go-i2p/common/certificate.Certificate": {"len", "payload"},
}

// walkCapTight visits everything reachable from v and reports "Type.field" for every non-tight slice.
func walkCapTight(v reflect.Value, depth int, seen map[uintptr]bool, found *int, bad *[]string) {
	if !v.IsValid() || depth > 12 {
		return
	}
	switch v.Kind() {
	case reflect.Ptr:
		if v.IsNil() || seen[v.Pointer()] {
			return
		}
		seen[v.Pointer()] = true
		walkCapTight(v.Elem(), depth+1, seen, found, bad)
	case reflect.Interface:
		if !v.IsNil() {
			walkCapTight(v.Elem(), depth+1, seen, found, bad)
		}
	case reflect.Struct:
		t := v.Type()
		if fields, ok := capTightFields[t.PkgPath()+"."+t.Name()]; ok {
			for _, fn := range fields {
				f := v.FieldByName(fn)
				if !f.IsValid() || f.Kind() != reflect.Slice {
					*bad = append(*bad, t.Name()+"."+fn+"(missing)")
					continue
				}
				*found++
				if f.Len() > 0 && f.Cap() != f.Len() {
					*bad = append(*bad, fmt.Sprintf("%s.%s", t.Name(), fn))
				}
			}
		}
		for _, fn := range capTightWatched[t.PkgPath()+"."+t.Name()] {
			if f := v.FieldByName(fn); f.IsValid() && f.Kind() == reflect.Slice && f.Len() > 0 && f.Cap() != f.Len() {
				count("c18-watched-slice-with-spare-capacity:" + t.Name() + "." + fn)
			}
		}
		if t == timeType {
			return
		}
		for i := 0; i < v.NumField(); i++ {
			walkCapTight(v.Field(i), depth+1, seen, found, bad)
		}
	case reflect.Slice, reflect.Array:
		if v.Type().Elem().Kind() == reflect.Uint8 {
			return
		}
		for i := 0; i < v.Len(); i++ {
			walkCapTight(v.Index(i), depth+1, seen, found, bad)
		}
	case reflect.Map:
		it := v.MapRange()
		for it.Next() {
			walkCapTight(it.Value(), depth+1, seen, found, bad)
		}
	}
}

func init() {
	reg("!concurrent", func(a []string) (string, []Fail) {
		w, aux, rounds := unhx(a[1]), 0, 20
		if len(a) > 2 {
			aux = atoi(a[2])
		}
		if len(a) > 3 {
			rounds = atoi(a[3])
		}
		if raceEnabled {
			// progress marker: a detected race kills the process (halt_on_error); ./check reads the last marker
			fmt.Fprintf(os.Stderr, "C18-OP !concurrent %s\n", joinArgs(a))
		}
		// (the reference results are computed AFTER the concurrent phase: state that is filled on first use — a lazily
		//  written package-level table, a memo — must meet the goroutines untouched, not pre-filled by a solo pass)
		if probe, _, _ := c18Build(a[0], w, aux); probe == nil {
			return "err", nil
		}
		// 2. together: fresh copies of the value that NO call has touched yet (a lazily filled cache, a sort on
		//    first use write only once), shared by 8 goroutines each. Copy 0 stays completely untouched before the
		//    goroutines start; the later copies also expose the structures handed out by the accessors.
		copies := 2
		if rounds >= 100 {
			copies = 4
		}
		type diff struct {
			m   c18Method
			got string
		}
		var mu sync.Mutex
		var diffs []diff
		type pendingCopy struct {
			methods []c18Method
			seen    []map[string]bool
		}
		var pending []pendingCopy
		total, nsubjects := 0, 0
		for c := 0; c < copies; c++ {
			val, _, _ := c18Build(a[0], w, aux)
			if val == nil {
				break
			}
			subjects := c18Subjects(reflect.ValueOf(val), c > 0, 6)
			methods := c18Methods(subjects)
			seenRes := make([]map[string]bool, len(methods)) // distinct results per method, merged from the goroutines
			for i := range seenRes {
				seenRes[i] = map[string]bool{}
			}
			nsubjects += len(subjects)
			n := len(methods)
			if n == 0 {
				continue
			}
			per := (rounds + copies - 1) / copies
			if copies > 2 { // soak: vary the parallelism per copy (all CPUs, 4, all, 2)
				prev := runtime.GOMAXPROCS([]int{runtime.NumCPU(), 4, runtime.NumCPU(), 2}[c%4])
				defer runtime.GOMAXPROCS(prev)
			}
			total += n * per * c18Goroutines
			start := make(chan struct{})
			var wg sync.WaitGroup
			for g := 0; g < c18Goroutines; g++ {
				wg.Add(1)
				go func(g int) {
					local := make([]map[string]bool, n)
					defer func() {
						mu.Lock()
						for i, m := range local {
							for r := range m {
								seenRes[i][r] = true
							}
						}
						mu.Unlock()
						wg.Done()
					}()
					<-start
					for r := 0; r < per; r++ {
						for k := 0; k < n; k++ {
							// round 0: all goroutines hit each method at the same moment (first-use effects);
							// later rounds: each goroutine walks the list from its own offset, alternating direction
							i := k
							if r > 0 {
								i = (k + g*7 + r) % n
								if (g+r)%2 == 1 {
									i = n - 1 - i
								}
							}
							got := c18Call(methods[i].subject, methods[i].idx)
							if local[i] == nil {
								local[i] = map[string]bool{}
							}
							if len(local[i]) < 4 {
								local[i][got] = true
							}
							if (k+g+r)%3 == 0 {
								runtime.Gosched()
							}
						}
					}
				}(g)
			}
			close(start)
			wg.Wait()
			pending = append(pending, pendingCopy{methods, seenRes})
		}
		// the reference: every method called alone on a value built for that purpose; a second build tells which
		// results are functions of the input at all (a constructor may draw padding or read the clock)
		want := c18Alone(a[0], w, aux)
		if want == nil {
			return "err", nil
		}
		again := c18Alone(a[0], w, aux)
		for _, pc := range pending {
			for i := range pc.methods {
				k := pc.methods[i].key + "." + pc.methods[i].name
				wv, have := want[k]
				if !have || again == nil || again[k] != wv {
					continue
				}
				pc.methods[i].want = wv
				var rs []string
				for r := range pc.seen[i] {
					rs = append(rs, r)
				}
				sort.Strings(rs)
				for _, r := range rs {
					if r != wv && len(diffs) < 16 {
						diffs = append(diffs, diff{pc.methods[i], r})
					}
				}
			}
		}
		var fails []Fail
		seen := map[string]bool{}
		for _, d := range diffs {
			sig := "result-differs:" + d.m.typ + "." + d.m.name
			if seen[sig] {
				continue
			}
			seen[sig] = true
			fails = append(fails, fail("C18", sig, "%s.%s (%s) returned %s when called alone and %s when %d goroutines shared the value",
				d.m.typ, d.m.name, d.m.key, trunc(d.m.want, 200), trunc(d.got, 200), c18Goroutines))
		}
		// 3. history: a result obtained after the other read-only calls ran must equal the one obtained on a value
		//    no call has touched ("read-only operations mutate neither the receiver nor package-level state")
		fresh := c18Fresh(a[0], w, aux)
		var hk []string
		for k := range fresh {
			hk = append(hk, k)
		}
		sort.Strings(hk)
		for _, k := range hk {
			if wv, ok := want[k]; ok && again != nil && again[k] == wv && fresh[k] != wv {
				sig := "result-depends-on-earlier-calls:" + a[0] + ":" + k
				if !seen[sig] && len(seen) < 24 {
					seen[sig] = true
					fails = append(fails, fail("C18", sig, "%s returns %s on an untouched value and %s after the other read-only methods ran once",
						k, trunc(fresh[k], 200), trunc(wv, 200)))
				}
			}
		}
		counters["c18-fresh-value-calls"] += len(fresh)
		unstable := 0
		for k, v := range want {
			if again == nil || again[k] != v {
				unstable++
			}
		}
		count("c18-concurrent-values:" + strings.SplitN(a[0], "/", 2)[0])
		counters["c18-concurrent-calls"] += total
		counters["c18-results-not-a-function-of-the-input"] += unstable
		return fmt.Sprintf("ok copies=%d subjects=%d methods=%d rounds=%d", copies, nsubjects, len(want), rounds), fails
	})
	reg("!captight", func(a []string) (string, []Fail) {
		w, aux := unhx(a[1]), 0
		if len(a) > 2 {
			aux = atoi(a[2])
		}
		paths, ok := c18Paths[a[0]]
		if !ok {
			panic("harness: unknown C18 kind " + a[0])
		}
		var fails []Fail
		built, checked := 0, 0
		for _, p := range paths {
			val := p.build(w, aux)
			if val == nil {
				continue
			}
			built++
			var bad []string
			found := 0
			walkCapTight(reflect.ValueOf(val), 0, map[uintptr]bool{}, &found, &bad)
			checked += found
			if found > 0 {
				count("c18-captight-path:" + p.name)
			}
			dedup := map[string]bool{}
			for _, f := range bad {
				if !dedup[f] {
					dedup[f] = true
					fails = append(fails, fail("C18", "cap-not-tight:"+f+":"+p.name, "%s on a value from %s has cap > len: an append on the read path would write into shared memory", f, p.name))
				}
			}
		}
		if built == 0 {
			return "err", fails
		}
		return fmt.Sprintf("ok paths=%d slices=%d", built, checked), fails
	})
}
