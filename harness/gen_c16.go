package main

import (
	"strconv"

	"github.com/go-i2p/common/lease_set2"
)

// genLS2Accepted draws correctly signed LeaseSet2 encodings from the STRUCT generator until the reader
// accepts one completely (the generator also emits out-of-range counts and malformed options on purpose).
func (g *G) genLS2Accepted() []byte {
	for try := 0; try < 200; try++ {
		id := g.pickIdentity(false)
		tr := g.transientFor(0.3)
		body, sg := g.encLS2Body(id, tr, "")
		w := cat(body, sg.sign(cat([]byte{3}, body)))
		if _, rem, err := lease_set2.ReadLeaseSet2(w); err == nil && len(rem) == 0 {
			return w
		}
	}
	panic("harness: no acceptable LeaseSet2 in 200 draws")
}

func (g *G) x25519Private() []byte {
	r := g.R
	k := r.bytes(32)
	switch r.intn(8) {
	case 0, 1, 2: // clamped, as most libraries store it
		k[0] &= 248
		k[31] &= 127
		k[31] |= 64
	case 3:
		k = make([]byte, 32) // clamps to 2^254
	case 4:
		for i := range k {
			k[i] = 0xff
		}
	}
	return k
}

var c16Offsets = []int{0, 14 * 3600, -12 * 3600, 5*3600 + 1800}

// instants either side of UTC midnights, of the epoch, of leap days, and of the 4-digit-year limits
var c16Instants = []int64{
	0, 1, -1, 86399, 86400, 86401,
	999993599, 999993600, 999993601, 1000000000, // the midnight before 1e9
	951782399, 951782400, 951868799, 951868800, // 2000-02-29
	4107542399, 4107542400, // 2100-02-28 → 2100-03-01
	253402300799, 253402300800, // 9999-12-31 → 10000-01-01
	-62167219200, -62167219201, // 0000-01-01 → year −1
	-62135596800, -62135596801, // 0001-01-01 (Go's zero Time)
}

func genC16Enc(g *G, count int) {
	r := g.R
	// every combination of (unpublished, blinded) flags with every transient key type — the inner LeaseSet2 of an
	// encrypted leaseset is read back by ReadLeaseSet2, whose framing depends on both — on an Ed25519 destination
	g.in("enc-roundtrip-flag-x-transient")
	for _, fl := range []int{0, 2, 4, 6} {
		for _, tt := range []int{-1, 7, 2, 0, 1, 11} {
			if g.quick() && tt == 0 && fl != 4 {
				continue // DSA key generation is slow: once, with the blinded flag
			}
			id := g.newIdentity(7, 4, false, nil)
			var tr *signer
			if tt >= 0 {
				tr = g.newSigner(tt)
			}
			forceLS2Flags = fl
			wasValid := g.valid
			g.valid = true
			body, sg := g.encLS2Body(id, tr, "")
			g.valid = wasValid
			forceLS2Flags = -1
			g.emit("!encRoundtrip", hx(cat(body, sg.sign(cat([]byte{3}, body)))), hx(g.x25519Private()), hx(r.bytes(32)), "1")
		}
	}
	for i := 0; i < count; i++ {
		g.in("enc-roundtrip")
		cookie := r.bytes(32)
		if r.coin(0.1) {
			cookie = make([]byte, 32)
		}
		bits := "1"
		if !g.quick() {
			bits = "8"
		}
		g.emit("!encRoundtrip", hx(g.genLS2Accepted()), hx(g.x25519Private()), hx(cookie), bits)
	}
}

func genC16Blind(g *G, count int) {
	r := g.R
	secretFor := func() []byte { return r.bytes(r.pick(32, 32, 32, 33, 64, 100)) }
	// every boundary instant in every zone, both supported signing types
	g.in("blind-boundary")
	for _, st := range []int{7, 11} {
		id := g.newIdentity(st, r.pick(0, 4), false, nil)
		secret := secretFor()
		for _, s := range c16Instants {
			for _, off := range c16Offsets {
				g.emit("!blind", hx(id.bytes), hx(secret), strconv.FormatInt(s, 10), itoa(off))
			}
		}
	}
	g.in("blind-random")
	for i := 0; i < count; i++ {
		st := r.pick(7, 7, 11)
		var extra []byte
		if r.coin(0.2) {
			extra = r.bytes(r.rng(1, 6))
		}
		id := g.newIdentity(st, r.pick(0, 4, 4), false, extra)
		s := int64(r.next() % 8000000000)
		if r.coin(0.5) { // next to a midnight
			s = s/86400*86400 + int64(r.pick(-1, 0, 1, 86399))
		}
		g.emit("!blind", hx(id.bytes), hx(secretFor()), strconv.FormatInt(s, 10), itoa(c16Offsets[r.intn(len(c16Offsets))]))
	}
	g.in("blind-rejected")
	n := count/4 + 4
	for i := 0; i < n; i++ {
		// secrets shorter than 32 bytes
		id := g.newIdentity(r.pick(7, 11), 0, false, nil)
		g.emit("!blind", hx(id.bytes), hx(r.bytes(r.pick(0, 1, 16, 31))), strconv.FormatInt(int64(r.next()%4000000000), 10), "0")
	}
	for _, st := range []int{1, 0} { // unsupported signing types (P-256 key certificate, DSA)
		if st == 0 && g.quick() && !r.coin(0.5) {
			continue // DSA key generation is slow
		}
		id := g.newIdentity(st, 0, false, nil)
		g.emit("!blind", hx(id.bytes), hx(r.bytes(32)), "1000000000", "0")
		if st == 0 {
			idn := g.newIdentity(0, 0, true, nil)
			g.emit("!blind", hx(idn.bytes), hx(r.bytes(32)), "1000000000", "3600")
		}
	}
	// Ed25519ph (type 8): a 32-byte Ed25519 key under a signing type that blinding does not support
	for i := 0; i < 3; i++ {
		id := g.newIdentity(8, r.pick(0, 4), false, nil)
		g.emit("!blind", hx(id.bytes), hx(r.bytes(32)), strconv.FormatInt(int64(r.next()%4000000000), 10), itoa(c16Offsets[r.intn(len(c16Offsets))]))
	}
	g.in("blind-not-a-point")
	for i := 0; i < n; i++ {
		// signing key bytes that are random: about half of them are no curve point
		id := g.newIdentity(7, 0, false, nil)
		w := append([]byte{}, id.bytes...)
		copy(w[352:384], r.bytes(32))
		g.emit("!blind", hx(w), hx(r.bytes(32)), strconv.FormatInt(int64(r.next()%4000000000), 10), "0")
	}
}

func genC16Days(g *G, count int) {
	r := g.R
	g.in("utcday-boundary")
	for _, s := range c16Instants {
		for _, off := range c16Offsets {
			g.emit("utcDay", strconv.FormatInt(s, 10), itoa(off))
		}
	}
	g.in("utcday-random")
	for i := 0; i < count; i++ {
		// years −1000 … 11000, half of the instants next to a midnight
		s := int64(r.next()%378691200000) - 93726000000
		if r.coin(0.5) {
			s = floorDiv(s, 86400)*86400 + int64(r.pick(-1, 0, 1, 86399))
		}
		off := c16Offsets[r.intn(len(c16Offsets))]
		if r.coin(0.2) {
			off = r.rng(-18*3600, 18*3600)
		}
		g.emit("utcDay", strconv.FormatInt(s, 10), itoa(off))
	}
	g.in("utcday-month-ends")
	// the last second of every month of a leap year, a common year, a century common year and a 400-year
	for _, base := range []int64{946684800 /*2000*/, 978307200 /*2001*/, 4102444800 /*2100*/, 1704067200 /*2024*/} {
		for d := int64(27); d < 370; d++ {
			g.emit("utcDay", strconv.FormatInt(base+d*86400-1, 10), "0")
		}
	}
}

func init() {
	suites["C16"] = func(g *G) {
		genC16Days(g, g.n(2000, 60000))
		genC16Blind(g, g.n(60, 1500))
		genC16Enc(g, g.n(10, 60))
	}
}
