module verif/harness

go 1.24.5

toolchain go1.24.12

require (
	filippo.io/edwards25519 v1.1.0
	github.com/go-i2p/common v0.0.0
	github.com/go-i2p/crypto v0.1.4-0.20260218221204-a8834457f3f1
	github.com/go-i2p/logger v0.1.2
	go.step.sm/crypto v0.76.0
	golang.org/x/crypto v0.47.0
)

require (
	github.com/cespare/xxhash/v2 v2.3.0 // indirect
	github.com/go-i2p/elgamal v0.0.2 // indirect
	github.com/oklog/ulid/v2 v2.1.1 // indirect
	github.com/samber/lo v1.52.0 // indirect
	github.com/samber/oops v1.21.0 // indirect
	github.com/sirupsen/logrus v1.9.4 // indirect
	go.opentelemetry.io/otel v1.39.0 // indirect
	go.opentelemetry.io/otel/trace v1.39.0 // indirect
	golang.org/x/sys v0.40.0 // indirect
	golang.org/x/text v0.33.0 // indirect
)

replace github.com/go-i2p/common => /repo
