package main

// C15 — expiry arithmetic. Every op builds the real structure with chosen raw field values (by parsing a
// self-encoded minimal wire form, and through the library's constructors where they accept raw fields),
// calls the real accessors and prints integers derived from them. The oracles evaluate the property
// sentence with math/big on the raw fields.

import (
	"bytes"
	"encoding/binary"
	"fmt"
	"math/big"
	"strconv"
	"strings"
	"time"

	"github.com/go-i2p/common/data"
	"github.com/go-i2p/common/destination"
	"github.com/go-i2p/common/encrypted_leaseset"
	"github.com/go-i2p/common/lease"
	"github.com/go-i2p/common/lease_set"
	"github.com/go-i2p/common/lease_set2"
	"github.com/go-i2p/common/meta_leaseset"
	"github.com/go-i2p/common/offline_signature"
	"github.com/go-i2p/common/router_identity"
	"github.com/go-i2p/common/router_info"
	"github.com/go-i2p/common/signature"
	i2ped25519 "github.com/go-i2p/crypto/ed25519"
	"github.com/go-i2p/crypto/types"
)

// ---- argument parsing ------------------------------------------------------------------------

func atoi64(s string) int64 {
	v, err := strconv.ParseInt(s, 10, 64)
	if err != nil {
		panic("harness: bad int64 argument " + s)
	}
	return v
}

func atou(s string, bits int) uint64 {
	v, err := strconv.ParseUint(s, 10, bits)
	if err != nil {
		panic("harness: bad unsigned argument " + s)
	}
	return v
}

func parseDates(s string) []uint64 {
	if s == "-" {
		return nil
	}
	var out []uint64
	for _, f := range strings.Split(s, ",") {
		out = append(out, atou(f, 64))
	}
	return out
}

// ---- minimal wire encodings -------------------------------------------------------------------

func be16(v uint16) []byte { b := make([]byte, 2); binary.BigEndian.PutUint16(b, v); return b }
func be32(v uint32) []byte { b := make([]byte, 4); binary.BigEndian.PutUint32(b, v); return b }
func be64(v uint64) []byte { b := make([]byte, 8); binary.BigEndian.PutUint64(b, v); return b }

func fill(n int, seed byte) []byte {
	b := make([]byte, n)
	for i := range b {
		b[i] = seed + byte(i)
	}
	return b
}

func catb(parts ...[]byte) []byte {
	var out []byte
	for _, p := range parts {
		out = append(out, p...)
	}
	return out
}

// timeDestBytes: 384 key bytes + KEY certificate (Ed25519 signing key, ElGamal crypto key) = 391 bytes.
func timeDestBytes() []byte {
	return catb(fill(384, 1), []byte{0x05, 0x00, 0x04, 0x00, 0x07, 0x00, 0x00})
}

func timeDest() destination.Destination {
	d, _, err := destination.ReadDestination(timeDestBytes())
	if err != nil {
		panic("harness: cannot build the test destination: " + err.Error())
	}
	return d
}

func lease2Bytes(endDate uint32, i int) []byte {
	return catb(fill(32, byte(17*i+3)), be32(uint32(1000+i)), be32(endDate))
}

func leaseBytes(date uint64, i int) []byte {
	return catb(fill(32, byte(29*i+5)), be32(uint32(2000+i)), be64(date))
}

// ls2Wire: destination | published | expires | flags=0 | empty options | one X25519 key | one Lease2 | signature
func ls2Wire(published uint32, expires uint16) []byte {
	return catb(timeDestBytes(), be32(published), be16(expires), be16(0), []byte{0, 0},
		[]byte{1}, be16(4), be16(32), fill(32, 9),
		[]byte{1}, lease2Bytes(published, 0), fill(64, 0xA0))
}

// elsWire: sig_type=7 | blinded key | published | expires | flags=0 | len | inner data | signature
func elsWire(published uint32, expires uint16) []byte {
	return catb(be16(7), fill(32, 7), be32(published), be16(expires), be16(0), be16(80), fill(80, 0x30), fill(64, 0xB0))
}

func metaEntryWire(expires uint32, i int) []byte {
	return catb(fill(32, byte(40+i)), []byte{3}, be32(expires), []byte{byte(i)}, []byte{0, 0})
}

// metaWire: destination | published | expires | flags=0 | empty options | entries | signature
func metaWire(published uint32, expires uint16, entries ...uint32) []byte {
	w := catb(timeDestBytes(), be32(published), be16(expires), be16(0), []byte{0, 0}, []byte{byte(len(entries))})
	for i, e := range entries {
		w = append(w, metaEntryWire(e, i)...)
	}
	return append(w, fill(64, 0xC0)...)
}

// offsigWire: expires | transient sig type=7 | transient key (32) | signature by an Ed25519 destination (64)
func offsigWire(expires uint32) []byte {
	return catb(be32(expires), be16(7), fill(32, 0x50), fill(64, 0x60))
}

// leaseSetWire: destination | 256-byte ElGamal key | 32-byte Ed25519 signing key | num | leases | signature
func leaseSetWire(dates []uint64) []byte {
	w := catb(timeDestBytes(), fill(256, 2), fill(32, 3), []byte{byte(len(dates))})
	for i, d := range dates {
		w = append(w, leaseBytes(d, i)...)
	}
	return append(w, fill(64, 0xD0)...)
}

// ---- exact arithmetic -----------------------------------------------------------------------

func bi(v int64) *big.Int         { return big.NewInt(v) }
func bu(v uint64) *big.Int        { return new(big.Int).SetUint64(v) }
func badd(a, b *big.Int) *big.Int { return new(big.Int).Add(a, b) }
func bmul(a, b *big.Int) *big.Int { return new(big.Int).Mul(a, b) }
func beq(a, b *big.Int) bool      { return a.Cmp(b) == 0 }

var two63 = new(big.Int).Lsh(big.NewInt(1), 63)
var two32 = new(big.Int).Lsh(big.NewInt(1), 32)

// headerOracle: published time and published+expires are exact, whole seconds.
func headerOracle(what string, p uint32, e uint16, pub, exp time.Time) []Fail {
	var fails []Fail
	if !beq(bi(pub.Unix()), bu(uint64(p))) || pub.Nanosecond() != 0 {
		fails = append(fails, fail("C15", what+"-published", "%s published=%d: PublishedTime() = %d s + %d ns", what, p, pub.Unix(), pub.Nanosecond()))
	}
	want := badd(bu(uint64(p)), bu(uint64(e)))
	if !beq(bi(exp.Unix()), want) || exp.Nanosecond() != 0 {
		fails = append(fails, fail("C15", what+"-expiration", "%s published=%d expires=%d: ExpirationTime() = %d s + %d ns, exact value %s", what, p, e, exp.Unix(), exp.Nanosecond(), want))
	}
	return fails
}

func hdrLine(pub, exp time.Time) string {
	return fmt.Sprintf("ok pub=%d exp=%d nsec=%d", pub.Unix(), exp.Unix(), exp.Nanosecond())
}

func dateU64(d data.Date) uint64 { return binary.BigEndian.Uint64(d[:]) }

func lease2Oracle(what string, l lease.Lease2, e uint32) []Fail {
	var fails []Fail
	if l.EndDate() != e {
		fails = append(fails, fail("C15", "lease2-enddate", "%s: EndDate() = %d, stored %d", what, l.EndDate(), e))
	}
	if t := l.Time(); !beq(bi(t.Unix()), bu(uint64(e))) || t.Nanosecond() != 0 {
		fails = append(fails, fail("C15", "lease2-time", "%s end_date=%d: Time() = %d s + %d ns", what, e, t.Unix(), t.Nanosecond()))
	}
	if ms := dateU64(l.Date()); !beq(bu(ms), bmul(bu(uint64(e)), bi(1000))) {
		fails = append(fails, fail("C15", "lease2-date", "%s end_date=%d: Date() = %d ms, exact value %d000", what, e, ms, e))
	}
	return fails
}

func lease2Line(l lease.Lease2) string {
	return fmt.Sprintf("ok end=%d time=%d ms=%d", l.EndDate(), l.Time().Unix(), dateU64(l.Date()))
}

// router identity + signing key for NewRouterInfo (built once; the key only signs, nothing is verified)
var riIdent *router_identity.RouterIdentity
var riKey types.SigningPrivateKey

func riSetup() {
	if riIdent != nil {
		return
	}
	id, _, err := router_identity.ReadRouterIdentity(timeDestBytes())
	if err != nil {
		panic("harness: cannot build the test router identity: " + err.Error())
	}
	k, err := i2ped25519.GenerateEd25519Key()
	if err != nil {
		panic("harness: cannot generate a signing key: " + err.Error())
	}
	pk := k.(i2ped25519.Ed25519PrivateKey)
	riIdent, riKey = id, &pk
}

func init() {
	// riPublished s n: the published Date of router_info.NewRouterInfo(…, time.Unix(s, n), …)
	reg("riPublished", func(a []string) (string, []Fail) {
		s, n := atoi64(a[0]), atoi64(a[1])
		riSetup()
		ri, err := router_info.NewRouterInfo(riIdent, time.Unix(s, n), nil, map[string]string{}, riKey, signature.SIGNATURE_TYPE_EDDSA_SHA512_ED25519)
		if err != nil || ri == nil || ri.Published() == nil {
			// the constructor rejects exactly the zero date ("undefined"); anything else is a harness problem
			if s*1000+n/1000000 == 0 {
				return "err", nil
			}
			return "err", []Fail{fail("HARNESS", "ri-build", "NewRouterInfo: %v", err)}
		}
		stored := dateU64(*ri.Published())
		ms := badd(bmul(bi(s), bi(1000)), new(big.Int).Div(bi(n), bi(1000000)))
		var fails []Fail
		if ms.Sign() >= 0 && ms.Cmp(two63) < 0 && !beq(bu(stored), ms) {
			fails = append(fails, fail("C15", "ri-published", "NewRouterInfo(published = time.Unix(%d,%d)) stores %d ms, exact value %s", s, n, stored, ms))
		}
		return fmt.Sprintf("ok date=%d", stored), fails
	})
	reg("ls2Expiry", func(a []string) (string, []Fail) {
		p, e := uint32(atou(a[0], 32)), uint16(atou(a[1], 16))
		ls2, _, err := lease_set2.ReadLeaseSet2(ls2Wire(p, e))
		if err != nil {
			return "err", []Fail{fail("HARNESS", "ls2-build", "cannot parse the self-encoded LeaseSet2: %v", err)}
		}
		var fails []Fail
		if ls2.Published() != p || ls2.Expires() != e {
			fails = append(fails, fail("C15", "ls2-fields", "LeaseSet2 fields read back as %d/%d, wrote %d/%d", ls2.Published(), ls2.Expires(), p, e))
		}
		fails = append(fails, headerOracle("ls2", p, e, ls2.PublishedTime(), ls2.ExpirationTime())...)
		// the constructor path stores the same raw fields
		l2, _, _ := lease.ReadLease2(lease2Bytes(p, 0))
		key := lease_set2.EncryptionKey{KeyType: 4, KeyLen: 32, KeyData: fill(32, 9)}
		if c, cerr := lease_set2.NewLeaseSet2(timeDest(), p, e, 0, nil, data.Mapping{}, []lease_set2.EncryptionKey{key}, []lease.Lease2{l2}, nil); cerr == nil {
			if !c.PublishedTime().Equal(ls2.PublishedTime()) || !c.ExpirationTime().Equal(ls2.ExpirationTime()) {
				fails = append(fails, fail("C15", "ls2-ctor", "NewLeaseSet2(%d,%d) and the parsed form disagree on the times", p, e))
			}
			fails = append(fails, headerOracle("ls2", p, e, c.PublishedTime(), c.ExpirationTime())...)
		}
		return hdrLine(ls2.PublishedTime(), ls2.ExpirationTime()), fails
	})
	reg("elsExpiry", func(a []string) (string, []Fail) {
		p, e := uint32(atou(a[0], 32)), uint16(atou(a[1], 16))
		els, _, err := encrypted_leaseset.ReadEncryptedLeaseSet(elsWire(p, e))
		if err != nil {
			if e != 0 {
				return "err", []Fail{fail("HARNESS", "els-build", "cannot parse the self-encoded EncryptedLeaseSet: %v", err)}
			}
			return "err", nil // the library refuses a zero expires offset (not a representable structure)
		}
		var fails []Fail
		if els.Published() != p || els.Expires() != e {
			fails = append(fails, fail("C15", "els-fields", "EncryptedLeaseSet fields read back as %d/%d, wrote %d/%d", els.Published(), els.Expires(), p, e))
		}
		fails = append(fails, headerOracle("els", p, e, els.PublishedTime(), els.ExpirationTime())...)
		if c, cerr := encrypted_leaseset.NewEncryptedLeaseSet(7, fill(32, 7), p, e, 0, nil, fill(80, 0x30), nil); cerr == nil && c != nil {
			fails = append(fails, headerOracle("els", p, e, c.PublishedTime(), c.ExpirationTime())...)
		}
		return hdrLine(els.PublishedTime(), els.ExpirationTime()), fails
	})
	reg("metaExpiry", func(a []string) (string, []Fail) {
		p, e := uint32(atou(a[0], 32)), uint16(atou(a[1], 16))
		mls, _, err := meta_leaseset.ReadMetaLeaseSet(metaWire(p, e, p))
		if err != nil {
			return "err", []Fail{fail("HARNESS", "meta-build", "cannot parse the self-encoded MetaLeaseSet: %v", err)}
		}
		var fails []Fail
		if mls.Published() != p || mls.Expires() != e {
			fails = append(fails, fail("C15", "meta-fields", "MetaLeaseSet fields read back as %d/%d, wrote %d/%d", mls.Published(), mls.Expires(), p, e))
		}
		fails = append(fails, headerOracle("meta", p, e, mls.PublishedTime(), mls.ExpirationTime())...)
		return hdrLine(mls.PublishedTime(), mls.ExpirationTime()), fails
	})
	reg("metaEntry", func(a []string) (string, []Fail) {
		x := uint32(atou(a[0], 32))
		mls, _, err := meta_leaseset.ReadMetaLeaseSet(metaWire(1, 1, 7, x))
		if err != nil || mls.NumEntries() != 2 {
			return "err", []Fail{fail("HARNESS", "meta-build", "cannot parse the self-encoded MetaLeaseSet: %v", err)}
		}
		en, _ := mls.GetEntry(1)
		var fails []Fail
		if t := en.ExpiresTime(); en.Expires() != x || !beq(bi(t.Unix()), bu(uint64(x))) || t.Nanosecond() != 0 {
			fails = append(fails, fail("C15", "entry-expires", "entry expires=%d: Expires()=%d ExpiresTime()=%d s + %d ns", x, en.Expires(), t.Unix(), t.Nanosecond()))
		}
		return fmt.Sprintf("ok exp=%d time=%d", en.Expires(), en.ExpiresTime().Unix()), fails
	})
	reg("offsigExpires", func(a []string) (string, []Fail) {
		x := uint32(atou(a[0], 32))
		o, _, err := offline_signature.ReadOfflineSignature(offsigWire(x), 7)
		if err != nil {
			return "err", []Fail{fail("HARNESS", "offsig-build", "cannot parse the self-encoded OfflineSignature: %v", err)}
		}
		var fails []Fail
		check := func(what string, o *offline_signature.OfflineSignature) {
			if t := o.ExpiresTime(); o.Expires() != x || !beq(bi(t.Unix()), bu(uint64(x))) || t.Nanosecond() != 0 {
				fails = append(fails, fail("C15", "offsig-time", "%s expires=%d: Expires()=%d ExpiresTime()=%d s + %d ns", what, x, o.Expires(), t.Unix(), t.Nanosecond()))
			}
			d, derr := o.ExpiresDate()
			if derr != nil || d == nil {
				fails = append(fails, fail("C15", "offsig-date", "%s expires=%d: ExpiresDate() failed: %v", what, x, derr))
			} else if !beq(bu(dateU64(*d)), bmul(bu(uint64(x)), bi(1000))) {
				fails = append(fails, fail("C15", "offsig-date", "%s expires=%d: ExpiresDate() = %d ms, exact value %d000", what, x, dateU64(*d), x))
			}
		}
		check("parsed", &o)
		if c, cerr := offline_signature.NewOfflineSignature(x, 7, fill(32, 0x50), fill(64, 0x60), 7); cerr == nil {
			check("constructed", &c)
		} else {
			fails = append(fails, fail("HARNESS", "offsig-build", "NewOfflineSignature: %v", cerr))
		}
		d, derr := o.ExpiresDate()
		if derr != nil || d == nil {
			return "err", fails
		}
		return fmt.Sprintf("ok exp=%d time=%d date=%d", o.Expires(), o.ExpiresTime().Unix(), dateU64(*d)), fails
	})
	reg("lease2Read", func(a []string) (string, []Fail) {
		x := uint32(atou(a[0], 32))
		l, _, err := lease.ReadLease2(lease2Bytes(x, 1))
		if err != nil {
			return "err", []Fail{fail("HARNESS", "lease2-build", "ReadLease2: %v", err)}
		}
		d := l.Date()
		return lease2Line(l) + " date=" + hx(d[:]), lease2Oracle("parsed Lease2", l, x)
	})
	reg("lease2New", func(a []string) (string, []Fail) {
		s, n := atoi64(a[0]), atoi64(a[1])
		t := time.Unix(s, n)
		var gw data.Hash
		copy(gw[:], fill(32, 11))
		l, err := lease.NewLease2(gw, 77, t)
		// exact second count of the argument: s + floor(n / 1e9)
		sec := badd(bi(s), new(big.Int).Div(bi(n), bi(1000000000))) // big.Int.Div is Euclidean: floor for a positive divisor
		inRange := sec.Sign() >= 0 && sec.Cmp(two32) < 0
		var fails []Fail
		if inRange != (err == nil && l != nil) {
			fails = append(fails, fail("C15", "lease2-domain", "NewLease2(time.Unix(%d,%d)) (second %s): err=%v", s, n, sec, err))
		}
		fails = append(fails, zoneFails("NewLease2", t, func(tt time.Time) ([]byte, bool) {
			x, e := lease.NewLease2(gw, 77, tt)
			if e != nil || x == nil {
				return nil, false
			}
			return x.Bytes(), true
		})...)
		if err != nil || l == nil {
			return "err", fails
		}
		if inRange {
			fails = append(fails, lease2Oracle("NewLease2", *l, uint32(sec.Uint64()))...)
		}
		return lease2Line(*l), fails
	})
	reg("leaseNew", func(a []string) (string, []Fail) {
		s, n := atoi64(a[0]), atoi64(a[1])
		t := time.Unix(s, n)
		var gw data.Hash
		copy(gw[:], fill(32, 13))
		l, err := lease.NewLease(gw, 78, t)
		zf := zoneFails("NewLease", t, func(tt time.Time) ([]byte, bool) {
			x, e := lease.NewLease(gw, 78, tt)
			if e != nil || x == nil {
				return nil, false
			}
			return x.Bytes(), true
		})
		if err != nil || l == nil {
			return "err", zf
		}
		stored := dateU64(l.Date())
		// exact millisecond count of the argument: s*1000 + floor(n / 1e6)
		ms := badd(bmul(bi(s), bi(1000)), new(big.Int).Div(bi(n), bi(1000000)))
		fails := zf
		if ms.Sign() >= 0 && ms.Cmp(two63) < 0 { // a representable millisecond date
			if !beq(bu(stored), ms) {
				fails = append(fails, fail("C15", "lease-new-date", "NewLease(time.Unix(%d,%d)) stores %d ms, exact value %s", s, n, stored, ms))
			}
			if got := l.Time().UnixMilli(); !beq(bi(got), ms) {
				fails = append(fails, fail("C15", "lease-new-time", "NewLease(time.Unix(%d,%d)).Time() = %d ms, exact value %s", s, n, got, ms))
			}
		}
		return fmt.Sprintf("ok date=%d timeMs=%d", stored, l.Time().UnixMilli()), fails
	})
	reg("leaseRead", func(a []string) (string, []Fail) {
		d := atou(a[0], 64)
		l, _, err := lease.ReadLease(leaseBytes(d, 2))
		if err != nil {
			return "err", []Fail{fail("HARNESS", "lease-build", "ReadLease: %v", err)}
		}
		dt := l.Date()
		var fails []Fail
		if dateU64(dt) != d {
			fails = append(fails, fail("C15", "lease-date", "Lease.Date() = %d, stored %d", dateU64(dt), d))
		}
		if d < 1<<63 {
			t := l.Time()
			if !beq(bi(t.UnixMilli()), bu(d)) || !beq(bi(t.Unix()), new(big.Int).Div(bu(d), bi(1000))) {
				fails = append(fails, fail("C15", "lease-time", "Lease.Time() = %d ms (%d s) for the stored date %d", t.UnixMilli(), t.Unix(), d))
			}
			if !beq(bi(int64(dt.Int())), bu(d)) || !beq(bi(dt.Time().UnixMilli()), bu(d)) {
				fails = append(fails, fail("C15", "date-time", "Date.Int() = %d, Date.Time() = %d ms for the stored date %d", dt.Int(), dt.Time().UnixMilli(), d))
			}
		}
		return fmt.Sprintf("ok date=%d int=%d timeMs=%d dtimeMs=%d", dateU64(dt), dt.Int(), l.Time().UnixMilli(), dt.Time().UnixMilli()), fails
	})
	reg("newestOldest", func(a []string) (string, []Fail) {
		dates := parseDates(a[0])
		ls, err := lease_set.ReadLeaseSet(leaseSetWire(dates))
		if err != nil {
			return "err", []Fail{fail("HARNESS", "leaseset-build", "cannot parse the self-encoded LeaseSet: %v", err)}
		}
		var fails []Fail
		if got := ls.Leases(); len(got) != len(dates) {
			fails = append(fails, fail("HARNESS", "leaseset-build", "LeaseSet has %d leases, wrote %d", len(got), len(dates)))
		}
		nw, e1 := ls.NewestExpiration()
		ol, e2 := ls.OldestExpiration()
		if (e1 != nil) != (e2 != nil) {
			fails = append(fails, fail("C15", "extrema-error", "NewestExpiration err=%v but OldestExpiration err=%v", e1, e2))
		}
		if len(dates) >= 1 && (e1 != nil || e2 != nil) {
			fails = append(fails, fail("C15", "extrema-error", "%d leases: NewestExpiration err=%v, OldestExpiration err=%v", len(dates), e1, e2))
		}
		if e1 != nil || e2 != nil {
			return "err", fails
		}
		n, o := dateU64(nw), dateU64(ol)
		inDomain := len(dates) >= 1 && len(dates) <= 16
		for _, d := range dates {
			if d >= 1<<63 {
				inDomain = false
			}
		}
		if inDomain {
			memN, memO := false, false
			for _, d := range dates {
				memN = memN || d == n
				memO = memO || d == o
				if bu(d).Cmp(bu(n)) > 0 {
					fails = append(fails, fail("C15", "newest-bound", "lease date %d exceeds NewestExpiration() = %d", d, n))
				}
				if bu(d).Cmp(bu(o)) < 0 {
					fails = append(fails, fail("C15", "oldest-bound", "lease date %d precedes OldestExpiration() = %d", d, o))
				}
			}
			if !memN {
				fails = append(fails, fail("C15", "newest-member", "NewestExpiration() = %d is not the date of any lease", n))
			}
			if !memO {
				fails = append(fails, fail("C15", "oldest-member", "OldestExpiration() = %d is not the date of any lease", o))
			}
		}
		return fmt.Sprintf("ok newest=%d oldest=%d", n, o), fails
	})
	// expired <kind> <delta> <e>: a structure whose expiry is the clock reading + delta (seconds; milliseconds
	// for kind "lease"), with expires offset e where the structure has one. Only the flag is printed.
	reg("expired", func(a []string) (string, []Fail) {
		kind, delta, e := a[0], atoi64(a[1]), uint16(atou(a[2], 16))
		if delta > -3 && delta < 3 || kind == "lease" && delta > -3000 && delta < 3000 {
			panic("harness: expired needs |delta| of at least 3 s to be a function of its arguments")
		}
		now := time.Now()
		u32 := func(v int64) uint32 {
			if v < 0 || v > 1<<32-1 {
				panic("harness: expiry outside the 32-bit range")
			}
			return uint32(v)
		}
		expiry := now.Unix() + delta
		var got bool
		day := int64(86400)
		switch kind {
		case "ls2":
			ls2, _, err := lease_set2.ReadLeaseSet2(ls2Wire(u32(expiry-int64(e)), e))
			if err != nil {
				panic("harness: ls2 build: " + err.Error())
			}
			got = ls2.IsExpired()
		case "els":
			els, _, err := encrypted_leaseset.ReadEncryptedLeaseSet(elsWire(u32(expiry-int64(e)), e))
			if err != nil {
				panic("harness: els build: " + err.Error())
			}
			got = els.IsExpired()
		case "meta":
			mls, _, err := meta_leaseset.ReadMetaLeaseSet(metaWire(u32(expiry-int64(e)), e, 5))
			if err != nil {
				panic("harness: meta build: " + err.Error())
			}
			got = mls.IsExpired()
		case "entry":
			mls, _, err := meta_leaseset.ReadMetaLeaseSet(metaWire(1, 1, u32(expiry)))
			if err != nil {
				panic("harness: meta build: " + err.Error())
			}
			en, _ := mls.GetEntry(0)
			got = en.IsExpired()
		case "offsig":
			o, _, err := offline_signature.ReadOfflineSignature(offsigWire(u32(expiry)), 7)
			if err != nil {
				panic("harness: offsig build: " + err.Error())
			}
			got = o.IsExpired()
		case "lease2":
			l, _, err := lease.ReadLease2(lease2Bytes(u32(expiry), 3))
			if err != nil {
				panic("harness: lease2 build: " + err.Error())
			}
			got = l.IsExpired()
		case "lease":
			ms := now.UnixMilli() + delta
			if ms < 0 {
				panic("harness: negative lease date")
			}
			l, _, err := lease.ReadLease(leaseBytes(uint64(ms), 3))
			if err != nil {
				panic("harness: lease build: " + err.Error())
			}
			got = l.IsExpired()
			day = 86400000
		default:
			panic("harness: unknown kind " + kind)
		}
		var fails []Fail
		if delta <= -day && !got {
			fails = append(fails, fail("C15", "expired-past:"+kind, "%s whose expiry lies %d in the past is not reported expired", kind, -delta))
		}
		if delta >= day && got {
			fails = append(fails, fail("C15", "expired-future:"+kind, "%s whose expiry lies %d in the future is reported expired", kind, delta))
		}
		return fmt.Sprintf("expired=%v", got), fails
	})
}

// zoneFails: an instant is the same instant in every Location — a constructor that takes a time.Time must accept or
// reject it, and encode it, exactly as it does for the UTC presentation of the same instant (C15: the conversions
// equal the mathematically exact values of the INSTANT).
func zoneFails(name string, t time.Time, build func(time.Time) ([]byte, bool)) []Fail {
	ref, refOK := build(t.UTC())
	for _, off := range []int{3600, -18000, 45900, -43200, 50400} {
		got, ok := build(t.In(time.FixedZone("z", off)))
		if ok != refOK || !bytes.Equal(got, ref) {
			return []Fail{fail("C15", "zone:"+name, "%s of the instant %d s in a zone %+d s from UTC: accepted=%v bytes=%x; in UTC: accepted=%v bytes=%x", name, t.Unix(), off, ok, got, refOK, ref)}
		}
	}
	return nil
}
