package main

// Suite C05: the inputs of the signed-structure generator (correctly signed, signed by the wrong key, near-miss
// messages, bit flips, forged / transplanted offline blocks, mutated encodings), replayed through the
// `verifyObl` op, plus corner cases of the offline path that the shared generator does not reach.

var verifyKinds = map[string]string{"readLS2": "ls2", "readMeta": "meta", "readELS": "els", "readLS": "ls", "readRI": "ri"}

// offSigWith: expires ‖ transient type ‖ transient key ‖ signature of those bytes by id.
func offSigWith(id *signer, expires uint32, ttype int, tpub []byte) []byte {
	signed := cat(u32(expires), u16(ttype), tpub)
	return cat(signed, id.sign(signed))
}

// ls2With: a one-key one-lease LeaseSet2 body (everything before the signature) with the given offline block.
func (g *G) ls2With(id *identity, off []byte) []byte {
	flags := 0
	if off != nil {
		flags = 1
	}
	body := cat(id.bytes, u32(g.ts()), u16(600), u16(flags), off, []byte{0, 0}, []byte{1}, u16(4), u16(32), g.R.bytes(32), []byte{1}, encLease2(g.R, g.ts()))
	return body
}

func genVerifyCorners(g *G) {
	r := g.R
	emit := func(tag, kind string, b []byte) {
		g.gen = "c05-" + tag
		g.emit("verifyObl", kind, hx(b))
	}
	for i := 0; i < g.n(3, 40); i++ {
		id := g.newIdentity(r.pick(7, 7, 11), 4, false, nil)
		// genuine offline block whose expiry is zero: ValidateStructure refuses it
		tr := g.newSigner(7)
		body := g.ls2With(id, offSigWith(id.sg, 0, 7, tr.pub))
		emit("offline-expires-zero", "ls2", cat(body, tr.sign(cat([]byte{3}, body))))
		// Ed25519ph transient key (type 8): the library checks it with plain Ed25519 (D17)
		tr8 := g.newSigner(8)
		body = g.ls2With(id, offSigWith(id.sg, uint32(r.next())|1, 8, tr8.pub))
		emit("transient-ed25519ph", "ls2", cat(body, tr8.sign(cat([]byte{3}, body))))
		// transient key of a type without a constructor (RSA-2048): never verifies
		body = g.ls2With(id, offSigWith(id.sg, uint32(r.next())|1, 4, r.bytes(256)))
		emit("transient-rsa", "ls2", cat(body, r.bytes(256)))
		// P-256 destination: the offline path supports destination types 7, 8, 11 only
		idp := g.newIdentity(1, 0, false, nil)
		trp := g.newSigner(7)
		body = g.ls2With(idp, offSigWith(idp.sg, uint32(r.next())|1, 7, trp.pub))
		emit("offline-dest-p256", "ls2", cat(body, trp.sign(cat([]byte{3}, body))))
		// transplanted block: issued by another identity for the same transient key
		other := g.newSigner(id.sg.typ)
		body = g.ls2With(id, offSigWith(other, uint32(r.next())|1, 7, tr.pub))
		emit("offline-transplanted", "ls2", cat(body, tr.sign(cat([]byte{3}, body))))
		// the identity's key signs the body although an (authorised) transient key is announced
		body = g.ls2With(id, offSigWith(id.sg, uint32(r.next())|1, 7, tr.pub))
		emit("offline-signed-by-identity", "ls2", cat(body, id.sg.sign(cat([]byte{3}, body))))
		emit("offline-genuine", "ls2", cat(body, tr.sign(cat([]byte{3}, body))))
		// trailing bytes after a correctly signed structure are not covered and not consumed
		emit("trailing", "ls2", cat(body, tr.sign(cat([]byte{3}, body)), r.bytes(r.rng(1, 5))))

		// EncryptedLeaseSet with an Ed25519ph blinded key: plain path = plain Ed25519 (D17),
		// offline path = Ed25519ph API over a 38-byte message (cannot succeed)
		bl := g.newSigner(8)
		inner := r.bytes(61)
		eb := cat(u16(8), bl.pub, u32(g.ts()), u16(600), u16(0), u16(61), inner)
		emit("els-blinded-ed25519ph", "els", cat(eb, bl.sign(cat([]byte{5}, eb))))
		eb = cat(u16(8), bl.pub, u32(g.ts()), u16(600), u16(1), offSigWith(bl, uint32(r.next())|1, 7, tr.pub), u16(61), inner)
		emit("els-blinded-ed25519ph-offline", "els", cat(eb, tr.sign(cat([]byte{5}, eb))))
		// blinded key of a type without a constructor
		eb = cat(u16(3), r.bytes(132), u32(g.ts()), u16(600), u16(0), u16(61), inner)
		emit("els-blinded-p521", "els", cat(eb, r.bytes(132)))
		// RedDSA blinded key, genuine offline block, expiry zero / non-zero
		bl11 := g.newSigner(11)
		for _, exp := range []uint32{0, uint32(r.next()) | 1} {
			eb = cat(u16(11), bl11.pub, u32(g.ts()), u16(600), u16(1), offSigWith(bl11, exp, 7, tr.pub), u16(61), inner)
			emit("els-offline-expires", "els", cat(eb, tr.sign(cat([]byte{5}, eb))))
		}
	}
}

func init() {
	suites["C05"] = func(g *G) {
		sub := &G{R: g.R, Tier: g.Tier}
		genSignedStructs(sub, g.n(80, 1000))
		for _, c := range sub.Cases {
			if kind, ok := verifyKinds[c.Op]; ok {
				g.gen = "c05:" + c.Gen
				g.emit("verifyObl", kind, c.Args[0])
			}
		}
		genVerifyCorners(g)
	}
}
