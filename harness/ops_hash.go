package main

// !hashFns <hex> — C07's mechanism "HashData / HashReader" (data/hash.go): both equal SHA-256 of exactly the bytes
// given (independently computed with crypto/sha256), however the reader delivers them (one byte at a time, in
// odd chunks, with a short final read); NewHash / NewHashFromSlice / ReadHash / Bytes / Equal / IsZero agree on
// the 32 bytes.
import (
	"bytes"
	"crypto/sha256"
	"fmt"
	"io"
	"testing/iotest"

	"github.com/go-i2p/common/data"
)

type chunkReader struct {
	b []byte
	n int
}

func (c *chunkReader) Read(p []byte) (int, error) {
	if len(c.b) == 0 {
		return 0, io.EOF
	}
	n := c.n
	if n > len(c.b) {
		n = len(c.b)
	}
	if n > len(p) {
		n = len(p)
	}
	copy(p, c.b[:n])
	c.b = c.b[n:]
	c.n = c.n%7 + 1
	return n, nil
}

func init() {
	reg("!hashFns", func(a []string) (string, []Fail) {
		w := unhx(a[0])
		want := sha256.Sum256(w)
		var fails []Fail
		if h := data.HashData(w); h.Bytes() != want {
			fails = append(fails, fail("C07", "hashfn:HashData", "HashData is not SHA-256 of its %d input bytes", len(w)))
		}
		readers := map[string]io.Reader{
			"bytes.Reader": bytes.NewReader(w),
			"one-byte":     iotest.OneByteReader(bytes.NewReader(w)),
			"data-err":     iotest.DataErrReader(bytes.NewReader(w)),
			"chunks":       &chunkReader{b: append([]byte{}, w...), n: 3},
		}
		for name, r := range readers {
			h, err := data.HashReader(r)
			if err != nil || h.Bytes() != want {
				fails = append(fails, fail("C07", "hashfn:HashReader", "HashReader over a %s reader is not SHA-256 of the %d bytes read (err=%v)", name, len(w), err))
			}
		}
		if _, err := data.HashReader(iotest.ErrReader(io.ErrUnexpectedEOF)); err == nil {
			fails = append(fails, fail("C07", "hashfn:HashReader-error", "HashReader reports a hash for a reader that failed"))
		}
		h1 := data.NewHash(want)
		h2, err2 := data.NewHashFromSlice(want[:])
		h3, rem, err3 := data.ReadHash(cat(want[:], w))
		if err2 != nil || err3 != nil || h1 != h2 || h2 != h3 || h1.Bytes() != want || !h1.Equal(h3) || !bytes.Equal(rem, w) {
			fails = append(fails, fail("C07", "hashfn:constructors", "NewHash / NewHashFromSlice / ReadHash disagree on the same 32 bytes"))
		}
		flipped := want
		flipped[len(w)%32] ^= 0x80
		if h1.Equal(data.NewHash(flipped)) || h1.IsZero() != (want == [32]byte{}) {
			fails = append(fails, fail("C07", "hashfn:equal", "Hash.Equal ignores a byte, or IsZero is wrong"))
		}
		return fmt.Sprintf("ok %x", want[:4]), fails
	})
}
