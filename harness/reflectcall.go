package main

import (
	"fmt"
	"reflect"
	"sort"
	"strings"
)

// callAllMethods invokes every exported argument-free method of v (value and pointer receiver,
// promoted methods included) under recover and returns the names of those that panicked, with the
// panic text. v must be a pointer to a struct (possibly to the zero value).
func callAllMethods(v interface{}) (called int, panics []string) {
	rv := reflect.ValueOf(v)
	if !rv.IsValid() {
		return 0, nil
	}
	t := rv.Type()
	for i := 0; i < t.NumMethod(); i++ {
		m := t.Method(i)
		if m.Type.NumIn() != 1 { // receiver only
			continue
		}
		if m.Type.IsVariadic() {
			continue
		}
		called++
		func() {
			defer func() {
				if r := recover(); r != nil {
					panics = append(panics, fmt.Sprintf("%s: %v", m.Name, r))
				}
			}()
			rv.Method(i).Call(nil)
		}()
	}
	sort.Strings(panics)
	return
}

// methodFails turns panics of callAllMethods into oracle failures for property prop.
func methodFails(prop, typeName string, v interface{}) []Fail {
	_, ps := callAllMethods(v)
	var fails []Fail
	for _, p := range ps {
		name := strings.SplitN(p, ":", 2)[0]
		fails = append(fails, fail(prop, "method-panic:"+typeName+"."+name, "%s.%s", typeName, p))
	}
	return fails
}
