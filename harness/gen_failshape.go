package main

// Generators for suite C20P (`failShape <Reader> <hex> [type]`): well-formed encodings of every structure,
// cut at every point (small ones) or at every field boundary ±1 plus random points (big ones), and with
// single-byte corruptions of every type / length / count field. The same directed part (fixed seed) is
// the reader → witness table of `harness observe` (partialSwept / partialPanics in Gen/Observed.lean).

// fsEnc is an encoding under construction that remembers where its fields end and which bytes steer
// the parser (type codes, lengths, counts, flags).
type fsEnc struct {
	b     []byte
	marks []int
	ctl   []int
	arg   string // second op argument (a type code), "" when the reader takes none
}

func (e *fsEnc) add(ps ...[]byte) {
	for _, p := range ps {
		e.b = append(e.b, p...)
		e.marks = append(e.marks, len(e.b))
	}
}

func (e *fsEnc) control(p []byte) {
	for i := range p {
		e.ctl = append(e.ctl, len(e.b)+i)
	}
	e.add(p)
}

// identity kinds: (signing type, crypto type, NULL certificate, extra KEY-certificate payload bytes)
type fsKind struct {
	sig, cpk int
	null     bool
	extra    int
}

var fsDestKinds = []fsKind{{0, 0, true, 0}, {7, 4, false, 0}, {7, 0, false, 0}, {1, 0, false, 0}, {2, 4, false, 0}, {11, 4, false, 0}, {0, 0, false, 0}, {7, 4, false, 3}}
var fsRidKinds = []fsKind{{0, 0, true, 0}, {7, 4, false, 0}, {7, 0, false, 0}, {1, 0, false, 0}, {2, 4, false, 0}, {0, 0, false, 0}, {7, 4, false, 3}}

// fsIdentity appends a KeysAndCert; the returned signer owns the signing key (nil for DSA, whose key
// generation is slow and not needed by any parser).
func (g *G) fsIdentity(e *fsEnc, k fsKind) *signer {
	r := g.R
	blk := r.bytes(384)
	blk[0] &= 0x7f
	if blk[0] == 0 {
		blk[0] = 1
	}
	var sg *signer
	if k.sig != 0 {
		sg = g.newSigner(k.sig)
		copy(blk[384-len(sg.pub):], sg.pub)
	} else {
		blk[256] &= 0x7f
		blk[256] |= 0x01
	}
	e.add(blk[:256], blk[256:])
	if k.null {
		e.control([]byte{0})
		e.control([]byte{0, 0})
		return sg
	}
	e.control([]byte{5})
	e.control(u16(4 + k.extra))
	e.control(cat(u16(k.sig), u16(k.cpk)))
	if k.extra > 0 {
		e.add(r.bytes(k.extra))
	}
	return sg
}

// fsSign: a genuine signature when the harness owns an Ed25519-family key, random bytes of the right length
// otherwise (ECDSA signing draws a data-dependent number of bytes from its random source, which would make
// the rest of the generated stream — and the witness table of `harness observe` — irreproducible).
func (g *G) fsSign(sg *signer, typ int, msg []byte) []byte {
	if sg != nil && (typ == 7 || typ == 8 || typ == 11) {
		return sg.sign(msg)
	}
	return g.R.bytes(specSig[typ][1])
}

// fsOffSig appends an offline block for an identity of signing type idType and returns the transient signer.
func (g *G) fsOffSig(e *fsEnc, id *signer, idType, transType int) *signer {
	tr := g.newSigner(transType)
	signed := cat(u32(g.ts()|1), u16(transType), tr.pub)
	e.add(signed[:4])
	e.control(signed[4:6])
	e.add(tr.pub)
	e.add(g.fsSign(id, idType, signed))
	return tr
}

func (g *G) fsOptions(e *fsEnc) {
	b := []byte{0, 0}
	if g.valid || g.R.coin(0.6) { // directed bases always carry pairs, so that every mapping stage can be cut

		b = encMapping(g.genPairs(g.R.rng(1, 3)))
	}
	e.control(b[:2])
	if len(b) > 2 {
		e.add(b[2:])
	}
}

func (g *G) fsLS2(k fsKind, offline bool) *fsEnc {
	r := g.R
	e := &fsEnc{}
	id := g.fsIdentity(e, k)
	flags := r.pick(0, 2, 4)
	if offline {
		flags |= 1
	}
	e.add(u32(g.ts()), u16(r.pick(1, 600, 65535)))
	e.control(u16(flags))
	sg, st := id, k.sig
	if offline {
		st = r.pick(7, 7, 1, 2, 11)
		sg = g.fsOffSig(e, id, k.sig, st)
	}
	g.fsOptions(e)
	nk := r.pick(1, 2, 3)
	e.control([]byte{byte(nk)})
	for i := 0; i < nk; i++ {
		t := r.pick(4, 0, 5, 6)
		e.control(u16(t))
		e.control(u16(specCrypto[t]))
		e.add(r.bytes(specCrypto[t]))
	}
	nl := r.pick(0, 1, 2, 16)
	e.control([]byte{byte(nl)})
	for i := 0; i < nl; i++ {
		e.add(encLease2(r, g.ts()))
	}
	e.add(g.fsSign(sg, st, cat([]byte{3}, e.b)))
	return e
}

func (g *G) fsMeta(k fsKind, offline bool) *fsEnc {
	r := g.R
	e := &fsEnc{}
	id := g.fsIdentity(e, k)
	flags := r.pick(0, 2)
	if offline {
		flags |= 1
	}
	e.add(u32(g.ts()), u16(r.pick(1, 600, 65535)))
	e.control(u16(flags))
	sg, st := id, k.sig
	if offline {
		st = r.pick(7, 7, 1, 2, 11)
		sg = g.fsOffSig(e, id, k.sig, st)
	}
	g.fsOptions(e)
	ne := r.pick(1, 2, 3)
	e.control([]byte{byte(ne)})
	for i := 0; i < ne; i++ {
		e.add(r.bytes(32))
		e.control([]byte{byte(r.pick(1, 3, 5))})
		e.add(u32(g.ts()), []byte{byte(r.intn(256))})
		g.fsOptions(e)
	}
	e.add(g.fsSign(sg, st, cat([]byte{7}, e.b)))
	return e
}

func (g *G) fsELS(blType int, offline bool) *fsEnc {
	r := g.R
	e := &fsEnc{}
	var bl *signer
	pub := r.bytes(specSig[blType][0])
	if blType != 0 {
		bl = g.newSigner(blType)
		pub = bl.pub
	}
	e.control(u16(blType))
	e.add(pub, u32(g.ts()), u16(r.pick(1, 600, 65535)))
	flags := r.pick(0, 2)
	if offline {
		flags |= 1
	}
	e.control(u16(flags))
	sg, st := bl, blType
	if offline {
		st = r.pick(7, 7, 1, 2, 11)
		sg = g.fsOffSig(e, bl, blType, st)
	}
	il := r.pick(61, 62, 100, 300)
	e.control(u16(il))
	e.add(r.bytes(il))
	e.add(g.fsSign(sg, st, cat([]byte{5}, e.b)))
	return e
}

func (g *G) fsLS(k fsKind) *fsEnc {
	r := g.R
	e := &fsEnc{}
	id := g.fsIdentity(e, k)
	elg := r.bytes(256)
	elg[0] &= 0x7f
	elg[0] |= 0x01
	e.add(elg)
	rev := r.bytes(specSig[k.sig][0])
	if k.sig == 0 {
		rev[0] &= 0x7f
		rev[0] |= 0x01
	}
	e.add(rev)
	nl := r.pick(0, 1, 2, 16)
	e.control([]byte{byte(nl)})
	for i := 0; i < nl; i++ {
		e.add(encLease(r, r.next()>>uint(r.rng(1, 30))))
	}
	e.add(g.fsSign(id, k.sig, e.b))
	return e
}

func (g *G) fsRA(e *fsEnc) {
	r := g.R
	style := []byte(r.pickS("NTCP2", "SSU2", "", "x"))
	e.add([]byte{byte(r.intn(256))}, make([]byte, 8))
	e.control([]byte{byte(len(style))})
	if len(style) > 0 {
		e.add(style)
	}
	g.fsOptions(e)
}

func (g *G) fsRI(k fsKind, na int) *fsEnc {
	r := g.R
	e := &fsEnc{}
	id := g.fsIdentity(e, k)
	e.add(u64(r.next() >> uint(r.rng(1, 30))))
	e.control([]byte{byte(na)})
	for i := 0; i < na; i++ {
		g.fsRA(e)
	}
	e.control([]byte{0})
	g.fsOptions(e)
	e.add(g.fsSign(id, k.sig, e.b))
	return e
}

// fsEmit emits the whole encoding, its truncations and its single-byte corruptions for one reader.
// dense: every cut point; otherwise every field boundary ±1 and `random` further points.
func (g *G) fsEmit(reader string, e *fsEnc, dense bool, random int) {
	r := g.R
	args := func(b []byte) []string {
		if e.arg != "" {
			return []string{reader, hx(b), e.arg}
		}
		return []string{reader, hx(b)}
	}
	g.emit("failShape", args(e.b)...)
	g.emit("failShape", args(cat(e.b, r.bytes(r.rng(1, 5))))...)
	seen := map[int]bool{}
	cut := func(k int) {
		if k >= 0 && k < len(e.b) && !seen[k] {
			seen[k] = true
			g.emit("failShape", args(e.b[:k])...)
		}
	}
	if dense || len(e.b) <= 200 {
		for k := 0; k < len(e.b); k++ {
			cut(k)
		}
	} else {
		for _, m := range append([]int{0, 1, 2}, e.marks...) {
			cut(m - 1)
			cut(m)
			cut(m + 1)
		}
		for i := 0; i < random; i++ {
			cut(r.intn(len(e.b)))
		}
	}
	for _, off := range e.ctl {
		old := e.b[off]
		vals := []byte{0, 1, old + 1, old - 1, 0xff, 17, 5, byte(r.next())}
		if !dense && g.quick() {
			vals = []byte{0, old + 1, 0xff, 17, byte(r.next())}
		}
		done := map[byte]bool{old: true}
		for _, v := range vals {
			if done[v] {
				continue
			}
			done[v] = true
			m := append([]byte{}, e.b...)
			m[off] = v
			g.emit("failShape", args(m)...)
		}
	}
}

// fsDirected: one base encoding per structural variant of every partial-value reader (the witness
// table of `harness observe`); fsRandom adds `n` randomly chosen variants.
func fsComposite(g *G, directed bool, n int, dense bool, random int) {
	r := g.R
	pickDest := func(i int) fsKind {
		if directed {
			return fsDestKinds[i%len(fsDestKinds)]
		}
		return fsDestKinds[r.intn(len(fsDestKinds))]
	}
	pickRid := func(i int) fsKind {
		if directed {
			return fsRidKinds[i%len(fsRidKinds)]
		}
		return fsRidKinds[r.intn(len(fsRidKinds))]
	}
	if directed {
		n = 2 * len(fsDestKinds)
	}
	g.valid = directed
	defer func() { g.valid = false }()
	for i := 0; i < n; i++ {
		off := i%2 == 1
		k := pickDest(i / 2)
		g.in("c20p-ls2")
		g.fsEmit("ReadLeaseSet2", g.fsLS2(k, off), dense, random)
		g.in("c20p-meta")
		g.fsEmit("ReadMetaLeaseSet", g.fsMeta(k, off), dense, random)
		g.in("c20p-els")
		g.fsEmit("ReadEncryptedLeaseSet", g.fsELS([]int{7, 11, 1, 2, 0, 8, 7, 11}[(i/2)%8], off), dense, random)
		g.in("c20p-ri")
		g.fsEmit("ReadRouterInfo", g.fsRI(pickRid(i/2), []int{0, 1, 2, 3}[i%4]), dense, random)
		g.in("c20p-ls")
		ls := g.fsLS(k)
		g.fsEmit("ReadLeaseSet", ls, dense, random)
		g.fsEmit("ReadDestinationFromLeaseSet", ls, false, 4)
	}
}

func fsSmall(g *G, n int) {
	r := g.R
	// router addresses
	g.in("c20p-ra")
	for i := 0; i < n; i++ {
		e := &fsEnc{}
		g.fsRA(e)
		g.fsEmit("ReadRouterAddress", e, true, 0)
	}
	for i := 0; i < n; i++ {
		b, tag := g.maybeMutate(g.encRouterAddress(), 0.5)
		g.gen = "c20p-ra" + tag
		g.emit("failShape", "ReadRouterAddress", hx(b))
	}
	// offline signatures: every (destination type, transient type) pair incl. unknown codes
	g.in("c20p-offsig")
	for _, dt := range []int{0, 1, 2, 3, 7, 8, 11, 9, 65535} {
		for _, tt := range []int{0, 1, 2, 3, 4, 7, 8, 11, 9, 65280} {
			e := &fsEnc{arg: itoa(dt)}
			e.add(u32(uint32(r.next()) | 1))
			e.control(u16(tt))
			e.add(r.bytes(specSig[tt][0]), r.bytes(specSig[dt][1]))
			g.fsEmit("ReadOfflineSignature", e, false, 6)
		}
	}
	// an all-zero header: the value handed out with the error is indistinguishable from the zero value
	for _, n := range []int{0, 5, 6, 7, 133, 134, 173, 174} {
		g.emit("failShape", "ReadOfflineSignature", hx(make([]byte, n)), "0")
		g.emit("failShape", "ReadOfflineSignature", hx(make([]byte, n)), "9")
	}
	// signatures
	g.in("c20p-sig")
	for _, t := range []int{-1, 0, 1, 2, 3, 4, 5, 6, 7, 8, 9, 10, 11, 12, 13, 20, 21, 255, 65280, 65535, 65536} {
		ln := specSig[t][1]
		for _, d := range []int{-1, 0, 1} {
			if ln+d < 0 {
				continue
			}
			b := hx(r.bytes(ln + d))
			for _, rd := range []string{"ReadSignature", "NewSignature", "NewSignatureFromBytes"} {
				g.emit("failShape", rd, b, itoa(t))
			}
		}
	}
	// fixed-size values
	g.in("c20p-fixed")
	for _, f := range []struct {
		readers []string
		size    int
	}{
		{[]string{"ReadLease", "NewLeaseFromBytes"}, 44},
		{[]string{"ReadLease2", "NewLease2FromBytes"}, 40},
		{[]string{"ReadSessionKey", "NewSessionKey", "ReadSessionTag", "NewSessionTag", "NewSessionTagFromBytes", "ReadHash", "NewHashFromSlice"}, 32},
		{[]string{"ReadECIESSessionTag", "NewECIESSessionTag", "NewECIESSessionTagFromBytes", "ReadDate", "NewDate", "NewIntegerFromBytes"}, 8},
	} {
		for k := 0; k <= f.size+2; k++ {
			b := hx(r.bytes(k))
			for _, rd := range f.readers {
				g.emit("failShape", rd, b)
			}
		}
	}
	// strings and mappings
	g.in("c20p-string")
	for i := 0; i < n; i++ {
		s := r.bytes(r.pick(0, 1, 2, 5, 40, 255))
		e := &fsEnc{}
		e.control([]byte{byte(len(s))})
		e.add(s)
		g.fsEmit("ReadI2PString", e, len(s) < 50, 8)
		g.fsEmit("NewI2PStringFromBytes", e, len(s) < 50, 8)
	}
	g.in("c20p-mapping")
	for i := 0; i < n; i++ {
		b, shape := g.genMappingBytes()
		e := &fsEnc{}
		e.control(b[:min(2, len(b))])
		if len(b) > 2 {
			e.add(b[2:])
		}
		g.gen = "c20p-mapping-" + shape
		g.fsEmit("ReadMapping", e, len(b) < 120, 12)
		g.fsEmit("NewMapping", e, len(b) < 60, 6)
	}
	// certificates and identities
	g.in("c20p-cert")
	for i := 0; i < n; i++ {
		t := byte(r.pick(0, 0, 1, 2, 3, 4, 5, 5, 5, 5, 6, 255))
		pl := r.pick(0, 0, 1, 3, 4, 4, 5, 8, 40, 72)
		e := &fsEnc{}
		e.control([]byte{t})
		e.control(u16(pl))
		if pl > 0 {
			e.add(r.bytes(pl))
		}
		g.fsEmit("ReadCertificate", e, true, 0)
		g.fsEmit("NewKeyCertificate", e, true, 0)
	}
	g.in("c20p-ident")
	idReaders := []string{"ReadKeysAndCert", "ReadDestination", "NewDestinationFromBytes", "ReadRouterIdentity", "NewRouterIdentityFromBytes",
		"ReadKeysAndCertElgAndEd25519", "ReadKeysAndCertX25519AndEd25519", "ReadDestinationFromLeaseSet"}
	for _, s := range append(append([]int{}, knownSig...), 9, 65535) {
		for _, c := range append(append([]int{}, knownCrypto...), 8, 65280) {
			e := &fsEnc{}
			blk := r.bytes(384)
			e.add(blk[:256], blk[256:])
			e.control([]byte{5})
			e.control(u16(4))
			e.control(cat(u16(s), u16(c)))
			for _, rd := range idReaders {
				if (s == 7 && (c == 0 || c == 4)) || (s == 0 && c == 0) || (s == 4 && c == 5) {
					g.fsEmit(rd, e, false, 2) // every boundary and every control byte for a few pairs
					continue
				}
				// for all other pairs: the whole encoding and the two cuts inside the certificate
				g.emit("failShape", rd, hx(e.b))
				g.emit("failShape", rd, hx(e.b[:390]))
				g.emit("failShape", rd, hx(e.b[:386]))
			}
		}
	}
	for i := 0; i < n; i++ {
		b := g.genIdentity()
		g.gen = "c20p-ident-stream"
		if r.coin(0.4) {
			var tag string
			b, tag = g.mutate(b)
			g.gen += tag
		}
		for _, rd := range idReaders {
			g.emit("failShape", rd, hx(b))
		}
	}
}

func init() {
	suites["C20P"] = func(g *G) {
		fsSmall(g, g.n(40, 300))
		fsComposite(g, true, 0, !g.quick(), 24)
		fsComposite(g, false, g.n(6, 30), false, g.n(24, 120))
	}
}
