package main

// !methodArgs <kind> <hex> <aux> — C04, second sentence: "Every exported method then invoked on a value that was
// returned without error also returns normally."  The argument-free methods are called by methodFails in the
// parse ops; this op calls the exported methods that TAKE arguments (Equals(other), GetOption(key), GetEntry(i),
// FindEntriesByType(t), SetBytes(b), AddAddress(a), VerifySignature(key) …) on the value, on its pointer fields
// and on the structures its accessors hand out, with arguments synthesised from their types: boundary integers,
// empty/short/long strings and byte slices, nil, the zero value, and the receiver itself where the types match.
// Every call runs on a value built freshly from the wire bytes (setters may change it) under recover.
import (
	"fmt"
	"math"
	"reflect"
	"sort"
	"strings"
	"time"
)

// argCandidates: a small set of values of type t; self is the receiver (pointer) the method is called on.
func argCandidates(t reflect.Type, self reflect.Value, depth int) []reflect.Value {
	var out []reflect.Value
	conv := func(vs ...interface{}) {
		for _, v := range vs {
			rv := reflect.ValueOf(v)
			if rv.Type().ConvertibleTo(t) {
				out = append(out, rv.Convert(t))
			}
		}
	}
	switch t.Kind() {
	case reflect.Bool:
		conv(false, true)
	case reflect.Int, reflect.Int64:
		conv(int64(0), int64(1), int64(-1), int64(255), int64(65536), int64(math.MaxInt64), int64(math.MinInt64))
	case reflect.Int8:
		conv(int8(0), int8(-1), int8(127))
	case reflect.Int16:
		conv(int16(0), int16(-1), int16(32767))
	case reflect.Int32:
		conv(int32(0), int32(-1), int32(math.MaxInt32))
	case reflect.Uint, reflect.Uint64, reflect.Uintptr:
		conv(uint64(0), uint64(1), uint64(255), uint64(65536), uint64(math.MaxUint64))
	case reflect.Uint8:
		conv(uint8(0), uint8(1), uint8(5), uint8(255))
	case reflect.Uint16:
		conv(uint16(0), uint16(1), uint16(7), uint16(65535))
	case reflect.Uint32:
		conv(uint32(0), uint32(1), uint32(math.MaxUint32))
	case reflect.Float32, reflect.Float64:
		conv(float64(0), float64(-1))
	case reflect.String:
		conv("", "a", "host", "port", "caps", "router.version", "netId", "0.9.67", "\x00", strings.Repeat("x", 300))
	case reflect.Slice:
		out = append(out, reflect.Zero(t), reflect.MakeSlice(t, 0, 0))
		if t.Elem().Kind() == reflect.Uint8 {
			for _, n := range []int{1, 31, 32, 33, 64, 256, 1000} {
				s := reflect.MakeSlice(t, n, n)
				for i := 0; i < n; i++ {
					s.Index(i).SetUint(uint64(i*7 + 1))
				}
				out = append(out, s)
			}
		} else if depth < 2 {
			for _, e := range argCandidates(t.Elem(), self, depth+1) {
				s := reflect.MakeSlice(t, 1, 1)
				s.Index(0).Set(e)
				out = append(out, s)
				if len(out) > 5 {
					break
				}
			}
		}
	case reflect.Array:
		z := reflect.New(t).Elem()
		out = append(out, z)
		if t.Elem().Kind() == reflect.Uint8 {
			f := reflect.New(t).Elem()
			for i := 0; i < t.Len(); i++ {
				f.Index(i).SetUint(uint64(255 - i%7))
			}
			out = append(out, f)
		}
	case reflect.Ptr:
		out = append(out, reflect.Zero(t), reflect.New(t.Elem()))
		if self.IsValid() && self.Type() == t {
			out = append(out, self)
			if !self.IsNil() && t.Elem().Kind() == reflect.Struct {
				for _, h := range holedCopies(self.Elem()) {
					p := reflect.New(t.Elem())
					p.Elem().Set(h)
					out = append(out, p)
				}
			}
		}
	case reflect.Struct:
		out = append(out, reflect.Zero(t))
		if t == timeType {
			out = append(out, reflect.ValueOf(time.Unix(1700000000, 0)), reflect.ValueOf(time.Unix(1<<40, 0)), reflect.ValueOf(time.Unix(-1<<40, 0)))
		}
		if self.IsValid() && self.Kind() == reflect.Ptr && self.Type().Elem() == t && !self.IsNil() {
			out = append(out, self.Elem())
			out = append(out, holedCopies(self.Elem())...)
		}
	case reflect.Interface, reflect.Map, reflect.Func, reflect.Chan:
		out = append(out, reflect.Zero(t))
		if t.Kind() == reflect.Map {
			out = append(out, reflect.MakeMap(t))
		}
	default:
		out = append(out, reflect.Zero(t))
	}
	return out
}

// margSubjects: the C18 subjects (root, pointer fields, pointers handed out by accessors) plus the named
// non-pointer library values the root's argument-free accessors return (MappingValues, I2PString, Integer,
// Date, Hash, Signature, Destination …), each boxed so that pointer-receiver methods are callable too.
func margSubjects(root reflect.Value) []c18Subject {
	out := c18Subjects(root, true, 6)
	t := root.Type()
	for i := 0; i < t.NumMethod() && len(out) < 24; i++ {
		m := t.Method(i)
		if m.Type.NumIn() != 1 || m.Type.NumOut() == 0 {
			continue
		}
		rt := m.Type.Out(0)
		if rt.Kind() == reflect.Ptr || rt.Kind() == reflect.Interface || !strings.HasPrefix(rt.PkgPath(), "github.com/go-i2p/common/") {
			continue
		}
		if reflect.PtrTo(rt).NumMethod() == 0 {
			continue
		}
		func() {
			defer func() { recover() }()
			r := root.Method(i).Call(nil)[0]
			box := reflect.New(rt)
			box.Elem().Set(r)
			out = append(out, c18Subject{"value:" + m.Name, box})
		}()
	}
	return out
}

// holedCopies: copies of a structure that agree with it except that ONE exported pointer / slice / interface / map
// field is nil — an "incomplete twin" of the receiver (what a reader returns with an error, or a value assembled
// from exported fields), which passes the cheap comparisons a method makes first.
func holedCopies(v reflect.Value) []reflect.Value {
	var out []reflect.Value
	if v.Kind() != reflect.Struct {
		return nil
	}
	for i := 0; i < v.NumField() && len(out) < 6; i++ {
		f := v.Type().Field(i)
		if f.PkgPath != "" {
			continue
		}
		switch f.Type.Kind() {
		case reflect.Ptr, reflect.Slice, reflect.Interface, reflect.Map:
			c := reflect.New(v.Type()).Elem()
			c.Set(v)
			c.Field(i).Set(reflect.Zero(f.Type))
			out = append(out, c)
		}
	}
	return out
}

type margMethod struct {
	subj int // index into the subject list
	idx  int // method index
}

func margMethods(subjects []c18Subject) []margMethod {
	var ms []margMethod
	for si, s := range subjects {
		t := s.v.Type()
		for i := 0; i < t.NumMethod(); i++ {
			m := t.Method(i)
			if m.Type.NumIn() < 2 || m.Type.IsVariadic() {
				continue
			}
			ms = append(ms, margMethod{si, i})
		}
	}
	return ms
}

const margMaxCombos = 40

func init() {
	reg("!methodArgs", func(a []string) (string, []Fail) {
		w, aux := unhx(a[1]), 0
		if len(a) > 2 {
			aux = atoi(a[2])
		}
		val, _, _ := c18Build(a[0], w, aux)
		if val == nil {
			return "err", nil
		}
		methods := margMethods(margSubjects(reflect.ValueOf(val)))
		calls := 0
		panics := map[string]string{}
		for _, mm := range methods {
			// enumerate argument tuples in mixed radix, capped
			probe := margSubjects(reflect.ValueOf(val))
			if mm.subj >= len(probe) {
				continue
			}
			mt := probe[mm.subj].v.Type().Method(mm.idx)
			nin := mt.Type.NumIn() - 1
			radix := make([]int, nin)
			total := 1
			for k := 0; k < nin; k++ {
				radix[k] = len(argCandidates(mt.Type.In(k+1), probe[mm.subj].v, 0))
				if radix[k] == 0 {
					total = 0
					break
				}
				if total < 1<<20 {
					total *= radix[k]
				}
			}
			step := 1
			if total > margMaxCombos {
				step = total/margMaxCombos + 1
			}
			for c := 0; c < total; c += step {
				// a fresh value per call: setters and adders may change the receiver
				fresh, _, _ := c18Build(a[0], w, aux)
				if fresh == nil {
					break
				}
				subjects := margSubjects(reflect.ValueOf(fresh))
				if mm.subj >= len(subjects) || subjects[mm.subj].v.Type() != probe[mm.subj].v.Type() {
					break
				}
				recv := subjects[mm.subj].v
				args := make([]reflect.Value, nin)
				x := c
				for k := 0; k < nin; k++ {
					cands := argCandidates(mt.Type.In(k+1), recv, 0)
					args[k] = cands[x%len(cands)]
					x /= len(cands)
				}
				calls++
				func() {
					defer func() {
						if r := recover(); r != nil {
							key := typeName(recv) + "." + mt.Name
							if _, seen := panics[key]; !seen {
								var as []string
								for _, v := range args {
									as = append(as, trunc(fmt.Sprintf("%#v", v), 60))
								}
								panics[key] = fmt.Sprintf("%s(%s): %v", key, strings.Join(as, ", "), r)
							}
						}
					}()
					recv.Method(mm.idx).Call(args)
					// … and whatever the call made of the value, its argument-free methods still return normally
					// (a setter that accepted an argument it should have refused shows up here)
					if _, ps := callAllMethods(fresh); len(ps) > 0 {
						key := typeName(recv) + "." + mt.Name + "→" + strings.SplitN(ps[0], ":", 2)[0]
						if _, seen := panics[key]; !seen {
							var as []string
							for _, v := range args {
								as = append(as, trunc(fmt.Sprintf("%#v", v), 60))
							}
							panics[key] = fmt.Sprintf("after %s.%s(%s) returned normally, %s", typeName(recv), mt.Name, strings.Join(as, ", "), ps[0])
						}
					}
				}()
			}
		}
		var keys []string
		for k := range panics {
			keys = append(keys, k)
		}
		sort.Strings(keys)
		var fails []Fail
		for _, k := range keys {
			fails = append(fails, fail("C04", "method-args-panic:"+k, "%s", panics[k]))
		}
		counters["c04-method-with-arguments-calls"] += calls
		return fmt.Sprintf("ok methods=%d calls=%d", len(methods), calls), fails
	})

	suites["MARGS"] = func(g *G) {
		perKind := g.n(6, 60)
		taken := map[string]int{}
		for _, v := range c18Pool(g) {
			if taken[v.kind] >= perKind {
				continue
			}
			if val := genBuild(v.kind, unhx(v.hex), atoi(v.aux)); val == nil {
				continue
			}
			taken[v.kind]++
			g.gen = "c04-method-args-" + v.kind
			g.emit("!methodArgs", v.kind, v.hex, v.aux)
		}
	}
}
