package main

// Generators of suites C06 and C14: constructor argument tuples (valid ones over the whole admissible
// grid, and one variant per documented defect class derived systematically from a valid tuple).

import (
	"fmt"
	"strings"
)

func (g *G) seed() string { return hx(g.R.bytes(8)) }

// optionShapes: option maps in the `k:v,k:v` hex form of op goMap.
func (g *G) optionShapes(rich bool) []string {
	p := func(kv ...string) string {
		var ps [][2][]byte
		for i := 0; i+1 < len(kv); i += 2 {
			ps = append(ps, [2][]byte{[]byte(kv[i]), []byte(kv[i+1])})
		}
		return assocArg(ps)
	}
	out := []string{
		"-",
		p("a", ""),           // one-byte key, empty value (the D1 shape)
		p("z", "", "a", "1"), // greatest key with an empty value
		p("", ""),            // empty key and value
		p("caps", "XfR", "netId", "2", "router.version", "0.9.67"),
		p("host", "192.0.2.1", "port", "12345", "s", strings.Repeat("A", 44), "i", strings.Repeat("B", 24), "v", "2"),
		p("k", "=;", "=", ";", ";", "="), // delimiters inside strings
		p("a", "1", "a\x00", "2", "ab", "3"),
	}
	if rich {
		out = append(out,
			p(strings.Repeat("k", 255), strings.Repeat("v", 255)),
			assocArg(g.genPairs(g.R.rng(2, 6))),
			assocArg(g.genPairs(g.R.rng(10, 40))),
		)
	}
	return out
}

var ctorSigTypes = []int{0, 1, 2, 3, 4, 5, 6, 7, 8, 11, 65280}
var ctorCryptoTypes = []int{0, 1, 2, 3, 4, 5, 6, 7, 65280}

func genCtorIdentities(g *G) {
	// valid tuples: the whole (signing, crypto) grid the key-certificate constructor accepts
	for _, s := range ctorSigTypes {
		for _, c := range ctorCryptoTypes {
			if s == 0 && g.quick() && c != 0 && c != 4 {
				continue
			}
			seed := g.seed()
			g.in(fmt.Sprintf("kac-grid"))
			g.emit("!ctorKeysAndCert", itoa(s), itoa(c), seed, "ok")
			g.in("dest-grid")
			g.emit("!ctorDestination", itoa(s), itoa(c), seed, "ok")
			g.in("rid-grid")
			g.emit("!ctorRouterIdentity", itoa(s), itoa(c), seed, "ok")
		}
	}
	for _, t := range []int{9, 10, 12, 20, 255, 65535, 65536, -1} { // types no key certificate can be built for
		g.in("kac-badtype")
		g.emit("!ctorKeysAndCert", itoa(t), "4", g.seed(), "ok")
		g.emit("!ctorKeysAndCert", "7", itoa(t), g.seed(), "ok")
	}
	// single-defect variants
	for _, tc := range [][2]int{{7, 4}, {7, 0}, {1, 0}, {0, 0}, {11, 4}, {2, 4}} {
		seed := g.seed()
		g.in("kac-defect")
		for _, v := range []string{"nil-cert", "nil-crypto-key", "nil-signing-key", "nil-keys", "crypto-key-short", "crypto-key-long",
			"signing-key-short", "signing-key-long", "padding-short", "padding-long"} {
			g.emit("!ctorKeysAndCert", itoa(tc[0]), itoa(tc[1]), seed, v)
		}
		g.in("dest-defect")
		for _, v := range []string{"nil-kac", "nil-signing-key", "nil-crypto-key", "signing-key-short"} {
			g.emit("!ctorDestination", itoa(tc[0]), itoa(tc[1]), seed, v)
		}
		g.in("rid-defect")
		for _, v := range []string{"nil-cert", "nil-signing-key", "nil-crypto-key", "signing-key-short", "padding-short"} {
			g.emit("!ctorRouterIdentity", itoa(tc[0]), itoa(tc[1]), seed, v)
		}
	}
	for _, tc := range [][2]int{{65280, 4}, {7, 65280}, {65280, 65280}, {65534, 0}} {
		g.in("kac-defect")
		g.emit("!ctorKeysAndCert", itoa(tc[0]), itoa(tc[1]), g.seed(), "unknown-key-type")
	}
	for _, tc := range [][2]int{{4, 4}, {5, 0}, {6, 4}, {8, 4}, {7, 5}, {7, 6}, {7, 7}, {11, 4}} {
		g.in("dest-prohibited")
		if tc[0] != 11 {
			g.emit("!ctorDestination", itoa(tc[0]), itoa(tc[1]), g.seed(), "prohibited-type")
		}
		g.in("rid-prohibited")
		g.emit("!ctorRouterIdentity", itoa(tc[0]), itoa(tc[1]), g.seed(), "prohibited-type")
	}
}

func genCtorRouterAddress(g *G) {
	r := g.R
	styles := []string{"NTCP2", "SSU2", "x", strings.Repeat("s", 255), "\x00\xff"}
	g.in("ra-valid")
	for _, o := range g.optionShapes(true) {
		for _, st := range styles {
			g.emit("!ctorRouterAddress", itoa(r.pick(0, 1, 10, 255)), itoa(r.pick(0, 1, 1700000000000, -1)), hxs(st), o, "ok")
		}
	}
	g.in("ra-defect")
	for _, v := range []string{"empty-style", "style-over-255", "option-key-over-255", "option-value-over-255", "options-over-65535",
		"nil-cost", "nil-date", "nil-options", "invalid-option-pair"} {
		g.emit("!ctorRouterAddress", "5", "0", hxs("NTCP2"), g.optionShapes(false)[4], v)
	}
}

func genCtorLeases(g *G) {
	r := g.R
	g.in("lease-valid")
	for _, ms := range []int{0, 1, 1700000000000, 4102444800000, 1<<53 + 1, -1, -4102444800000} {
		for _, id := range []int{0, 1, 1<<32 - 1} {
			g.emit("!ctorLease", hx(r.bytes(32)), itoa(id), itoa(ms), "ok")
		}
	}
	g.emit("!ctorLease", hx(make([]byte, 32)), "1", "4102444800000", "ok") // zero gateway through the valid path
	g.in("lease-defect")
	g.emit("!ctorLease", hx(r.bytes(32)), "7", "4102444800000", "zero-gateway")
	g.in("lease2-valid")
	for _, sec := range []int{0, 1, 1700000000, 4102444800, 1<<32 - 1} {
		for _, id := range []int{0, 1, 1<<32 - 1} {
			g.emit("!ctorLease2", hx(r.bytes(32)), itoa(id), itoa(sec), "ok")
		}
	}
	g.emit("!ctorLease2", hx(make([]byte, 32)), "1", "4102444800", "ok")
	g.in("lease2-defect")
	for _, v := range []string{"zero-gateway", "end-date-over-uint32", "end-date-negative"} {
		g.emit("!ctorLease2", hx(r.bytes(32)), "7", "4102444800", v)
	}
}

// genCtorRouterInfo: valid tuples of NewRouterInfo (C06 and C14a/b).
func genCtorRouterInfo(g *G, rich bool) {
	r := g.R
	pubs := []int{1700000000000, 1, 0, 1<<53 + 7, 253402300799999}
	naddrs := []int{1, 2, 0, 3, 16}
	if rich {
		naddrs = append(naddrs, 255, 254, 100)
		pubs = append(pubs, -1, 9223372036854775807)
	}
	g.in("ri-valid")
	for i, o := range g.optionShapes(rich) {
		for j, na := range naddrs {
			pub := pubs[(i+j)%len(pubs)]
			g.emit("!ctorRouterInfo", "7", itoa(r.pick(4, 4, 0)), g.seed(), itoa(pub), itoa(na), o, "ok")
		}
	}
	// every published × address-count corner once with empty options
	for _, pub := range pubs {
		for _, na := range []int{0, 1, 255} {
			g.emit("!ctorRouterInfo", "7", "4", g.seed(), itoa(pub), itoa(na), "-", "ok")
		}
	}
	n := g.n(60, 4000)
	if !rich {
		n = g.n(5, 400)
	}
	for i := 0; i < n; i++ {
		g.emit("!ctorRouterInfo", "7", itoa(r.pick(4, 0)), g.seed(), itoa(int(r.next()>>uint(r.rng(12, 40)))), itoa(r.pick(0, 1, 1, 2, 3, 5, 17)), assocArg(g.genPairs(r.rng(0, 8))), "ok")
	}
	// identities NewRouterInfo cannot sign for (it signs with Ed25519 only): must not yield a value that claims otherwise
	g.in("ri-other-identity")
	for _, s := range []int{1, 0} {
		g.emit("!ctorRouterInfo", itoa(s), "0", g.seed(), "1700000000000", "1", "-", "ok")
	}
}

func genCtorRouterInfoDefects(g *G) {
	g.in("ri-defect")
	for _, v := range []string{"zero-published", "nil-identity", "nil-address-element", "over-255-addresses", "nil-private-key", "option-value-over-255"} {
		g.emit("!ctorRouterInfo", "7", "4", g.seed(), "1700000000000", "2", "-", v)
	}
}

func genCtorLeaseSet(g *G, rich bool) {
	type idk struct {
		sig  int
		kind string
	}
	ids := []idk{{7, "key"}, {11, "key"}, {1, "key"}, {2, "key"}, {0, "key"}, {0, "null"}}
	counts := []int{0, 1, 2, 16}
	if rich {
		counts = []int{0, 1, 2, 3, 8, 15, 16}
	}
	g.in("ls-valid")
	for _, id := range ids {
		for _, n := range counts {
			if id.sig == 0 && g.quick() && n != 1 && n != 16 {
				continue
			}
			g.emit("!ctorLeaseSet", itoa(id.sig), id.kind, g.seed(), itoa(n), "ok")
		}
	}
	for i := 0; i < g.n(30, 3000); i++ {
		id := ids[g.R.intn(4)]
		g.emit("!ctorLeaseSet", itoa(id.sig), id.kind, g.seed(), itoa(g.R.rng(0, 16)), "ok")
	}
}

func genCtorLeaseSetDefects(g *G) {
	g.in("ls-keyvalue")
	for _, v := range []string{"elg-zero", "elg-max"} {
		g.emit("!ctorLeaseSet", "7", "key", g.seed(), "1", v)
	}
	g.emit("!ctorLeaseSet", "0", "null", g.seed(), "1", "dsa-revocation-key-zero")
	g.emit("!ctorLeaseSet", "0", "null", g.seed(), "1", "elg-zero")
	g.in("ls-defect")
	for _, s := range []int{7, 1} {
		for _, v := range []string{"over-16-leases", "encryption-key-short", "encryption-key-long", "nil-encryption-key", "nil-signing-key",
			"signing-key-short", "signing-key-long", "nil-private-key", "nil-destination"} {
			g.emit("!ctorLeaseSet", itoa(s), "key", g.seed(), "2", v)
		}
	}
}

func genCtorLeaseSet2(g *G, rich bool) {
	r := g.R
	keySpecs := []string{"4:32", "0:256", "4:32,0:256", "5:32,4:32", "6:32", "7:32", "65280:10", "1:64", "4:32,4:32,4:32,4:32,4:32,4:32,4:32,4:32,4:32,4:32,4:32,4:32,4:32,4:32,4:32,4:32"}
	offs := []string{"-", "7", "11", "1", "2", "0"} // incl. transient types whose signature length differs from the destination's (P-384: 96, DSA: 40)
	g.in("ls2-valid")
	i := 0
	for _, sig := range []int{7, 11, 1, 0} {
		if sig == 0 && g.quick() && !rich {
			continue
		}
		for _, off := range offs {
			if off != "-" && sig != 7 && sig != 11 {
				continue
			}
			for _, fl := range []int{0, 2, 4, 6} {
				if off != "-" {
					fl |= 1
				}
				opts := g.optionShapes(rich)
				i++
				g.emit("!ctorLeaseSet2", itoa(sig), itoa(r.pick(0, 4)), g.seed(), itoa(r.pick(0, 1, 1700000000, 1<<32-1)), itoa(r.pick(0, 1, 600, 65535)),
					itoa(fl), off, opts[i%len(opts)], keySpecs[i%len(keySpecs)], itoa(r.pick(1, 2, 16, 3)), "ok")
			}
		}
	}
	for _, o := range g.optionShapes(rich) {
		g.emit("!ctorLeaseSet2", "7", "4", g.seed(), "1700000000", "600", "0", "-", o, "4:32", "1", "ok")
	}
	// thorough tier: random walks over every argument of the valid region
	for k := 0; k < g.n(0, 2500); k++ {
		sig := r.pick(7, 7, 11, 1)
		off, fl := "-", r.pick(0, 2, 4, 6)
		if (sig == 7 || sig == 11) && r.coin(0.4) {
			off, fl = offs[1+r.intn(len(offs)-1)], fl|1
		}
		opts := g.optionShapes(rich)
		g.emit("!ctorLeaseSet2", itoa(sig), itoa(r.pick(0, 4)), g.seed(), itoa(int(uint32(r.next()))), itoa(r.rng(0, 65535)),
			itoa(fl), off, opts[r.intn(len(opts))], keySpecs[r.intn(len(keySpecs))], itoa(r.rng(1, 16)), "ok")
	}
	g.emit("!ctorLeaseSet2", "7", "4", g.seed(), "1700000000", "600", "0", "-", "-", "4:32", "0", "ok") // zero leases: the constructor's own rule
	// the forms of the signing-key argument (interface{}): private key object (above), Signer, nil, anything else
	for _, sig := range []int{7, 1, 0} {
		g.emit("!ctorLeaseSet2", itoa(sig), "4", g.seed(), "1700000000", "600", "0", "-", "-", "4:32", "1", "signer-object")
	}
	g.emit("!ctorLeaseSet2", "7", "4", g.seed(), "1700000000", "600", "0", "-", "-", "4:32", "1", "nil-key-placeholder")
	// unsigned placeholders with an offline block of every transient type: the placeholder is sized by the
	// transient type, so the value must still validate and survive the wire
	for _, off := range []string{"7", "11", "1", "2", "0"} {
		g.emit("!ctorLeaseSet2", "7", "4", g.seed(), "1700000000", "600", "1", off, "-", "4:32", "1", "nil-key-placeholder")
	}
	g.emit("!ctorLeaseSet2", "7", "4", g.seed(), "1700000000", "600", "0", "-", "-", "4:32", "1", "unsupported-signing-key-type")
}

func genCtorLeaseSet2Defects(g *G) {
	g.in("ls2-defect")
	em := func(flags int, off, keys string, nl int, v string) {
		g.emit("!ctorLeaseSet2", "7", "4", g.seed(), "1700000000", "600", itoa(flags), off, "-", keys, itoa(nl), v)
	}
	seventeen := strings.TrimSuffix(strings.Repeat("4:32,", 17), ",")
	em(0, "-", "-", 1, "no-encryption-keys")
	em(0, "-", seventeen, 1, "over-16-encryption-keys")
	em(0, "-", "4:32:31", 1, "keylen-vs-data")
	em(0, "-", "4:31:32", 1, "keylen-vs-data")
	em(0, "-", "4:31", 1, "keylen-vs-type")
	em(0, "-", "0:32", 1, "keylen-vs-type")
	em(0, "-", "4:32,5:33", 1, "keylen-vs-type")
	// the defective key at a later position, behind keys of every kind (known type, unknown / experimental type,
	// several of them): a per-key check that stops at the first key it has no rule for must not hide it
	for _, before := range []string{"65280:10", "65281:0", "9:7", "4:32,65280:10", "65280:10,4:32", "65280:10,65281:3,0:256"} {
		em(0, "-", before+",4:31", 1, "keylen-vs-type")
		em(0, "-", before+",0:32", 1, "keylen-vs-type")
		em(0, "-", before+",4:32:31", 1, "keylen-vs-data")
		em(0, "-", before+",4:31:32", 1, "keylen-vs-data")
	}
	em(1, "-", "4:32", 1, "offline-flag-without-block")
	em(0, "7", "4:32", 1, "offline-block-without-flag")
	for _, f := range []int{8, 0x10, 0x8000, 0xFFF8} {
		em(f, "-", "4:32", 1, "reserved-flags")
	}
	em(9, "7", "4:32", 1, "reserved-flags")
	em(0, "-", "4:32", 17, "over-16-leases")
}

func genCtorELS(g *G, rich bool) {
	r := g.R
	g.in("els-valid")
	forms := []string{"std", "ptr", "arr", "bytes"}
	i := 0
	for _, st := range []int{7, 11} {
		for _, off := range []string{"-", "7", "11", "2", "0"} { // incl. transient types with 96- and 40-byte signatures
			for _, fl := range []int{0, 2} {
				if off != "-" {
					fl |= 1
				}
				for _, il := range []int{61, 62, 100, 1000, 65535} {
					if !rich && il > 100 && i%3 != 0 {
						i++
						continue
					}
					i++
					g.emit("!ctorEncryptedLeaseSet", itoa(st), g.seed(), itoa(r.pick(0, 1, 1700000000, 1<<32-1)), itoa(r.pick(1, 600, 65535)),
						itoa(fl), off, itoa(il), forms[i%4], "ok")
				}
			}
		}
	}
	for k := 0; k < g.n(0, 2500); k++ {
		off, fl := "-", r.pick(0, 2)
		if r.coin(0.4) {
			off, fl = r.pickS("7", "11", "2", "0"), fl|1
		}
		g.emit("!ctorEncryptedLeaseSet", itoa(r.pick(7, 11)), g.seed(), itoa(int(uint32(r.next()))), itoa(r.rng(1, 65535)),
			itoa(fl), off, itoa(r.pick(61, 62, r.rng(61, 300), r.rng(61, 65535))), forms[r.intn(4)], "ok")
	}
	// transient keys of a non-Ed25519 type: NewEncryptedLeaseSet signs with Ed25519 keys only
	g.emit("!ctorEncryptedLeaseSet", "7", g.seed(), "1700000000", "600", "1", "1", "61", "std", "ok")
}

func genCtorELSDefects(g *G) {
	g.in("els-defect")
	em := func(st, expires, flags int, off string, il int, v string) {
		g.emit("!ctorEncryptedLeaseSet", itoa(st), g.seed(), "1700000000", itoa(expires), itoa(flags), off, itoa(il), "std", v)
	}
	em(9, 600, 0, "-", 61, "unknown-sig-type")
	em(65280, 600, 0, "-", 61, "unknown-sig-type")
	em(7, 600, 0, "-", 61, "blinded-key-short")
	em(7, 600, 0, "-", 61, "blinded-key-long")
	em(7, 0, 0, "-", 61, "zero-expires")
	for _, f := range []int{4, 8, 0x8000, 0xFFFC} {
		em(7, 600, f, "-", 61, "reserved-flags")
	}
	em(7, 600, 1, "-", 61, "offline-flag-without-block")
	em(7, 600, 0, "7", 61, "offline-block-without-flag")
	em(7, 600, 0, "-", 0, "empty-inner-data")
	em(7, 600, 0, "-", 60, "inner-data-under-61")
	em(7, 600, 0, "-", 1, "inner-data-under-61")
	em(7, 600, 0, "-", 65536+61, "inner-length-over-65535")
	em(7, 600, 0, "-", 65536, "inner-length-over-65535")
	em(7, 600, 0, "-", 70000, "inner-length-over-65535")
}

func genCtorOffline(g *G, rich bool) {
	r := g.R
	all := []int{0, 1, 2, 3, 4, 5, 6, 7, 8, 11}
	g.in("offsig-valid")
	for _, dt := range all {
		for _, tt := range all {
			if (dt == 0 || tt == 0) && g.quick() && !(dt == 7 || tt == 7) {
				continue // DSA keys are the slow ones
			}
			exp := r.pick(1, 1700000000, 4102444800, 1<<32-1)
			g.emit("!ctorOfflineSig", itoa(dt), itoa(tt), g.seed(), itoa(exp), "ok")
		}
	}
	if rich {
		for i := 0; i < g.n(90, 4000); i++ {
			g.emit("!ctorOfflineSig", itoa(r.pick(7, 11)), itoa(r.pick(7, 11, 1, 2, 8)), g.seed(), itoa(int(uint32(r.next())|1)), "ok")
		}
	}
}

func genCtorOfflineDefects(g *G) {
	g.in("offsig-defect")
	for _, dt := range []int{7, 11, 1} {
		g.emit("!ctorOfflineSig", itoa(dt), "7", g.seed(), "0", "zero-expires")
		for _, v := range []string{"transient-key-short", "transient-key-long", "signature-short", "signature-long"} {
			g.emit("!ctorOfflineSig", itoa(dt), "7", g.seed(), "4102444800", v)
		}
		for _, t := range []int{9, 12, 65280, 65535} {
			g.emit("!ctorOfflineSig", itoa(dt), itoa(t), g.seed(), "4102444800", "unknown-transient-type")
		}
	}
	for _, t := range []int{9, 12, 65280, 65535} {
		g.emit("!ctorOfflineSig", itoa(t), "7", g.seed(), "4102444800", "unknown-destination-type")
	}
}

func genCtorSmall(g *G) {
	g.in("sig-grid")
	for _, t := range []int{-1, 0, 1, 2, 3, 4, 5, 6, 7, 8, 9, 10, 11, 12, 20, 21, 255, 65280, 65534, 65535, 65536} {
		sp, known := specSig[t]
		if known {
			g.emit("!ctorSignature", itoa(t), itoa(sp[1]), "ok")
			for _, d := range []int{-1, 1} {
				g.emit("!ctorSignature", itoa(t), itoa(sp[1]+d), "length-vs-type")
			}
			g.emit("!ctorSignature", itoa(t), "0", "length-vs-type")
		} else {
			for _, n := range []int{0, 40, 64} {
				g.emit("!ctorSignature", itoa(t), itoa(n), "unknown-type")
			}
		}
	}
	r := g.R
	g.in("cert-valid")
	for _, route := range []string{"direct", "builder"} {
		g.emit("!ctorCertificate", route, "0", "-", "ok")
		g.emit("!ctorCertificate", route, "2", "-", "ok")
		for _, n := range []int{0, 1, 4, 100, 65535} {
			g.emit("!ctorCertificate", route, "1", hx(r.bytes(n)), "ok")
			g.emit("!ctorCertificate", route, "4", hx(r.bytes(n)), "ok")
		}
		for _, n := range []int{40, 72} {
			g.emit("!ctorCertificate", route, "3", hx(r.bytes(n)), "ok")
		}
		for _, n := range []int{0, 1, 3, 4, 5, 8, 200} { // KEY: the payload rule (>= 4) is the KeyCertificate's
			if route == "builder" && n == 0 {
				continue
			}
			g.emit("!ctorCertificate", route, "5", hx(r.bytes(n)), "ok")
		}
	}
	g.emit("!ctorCertificate", "builder", "0", "none", "ok")
	g.emit("!ctorCertificate", "builder", "2", "none", "ok")
	for _, kt := range [][2]int{{7, 4}, {0, 0}, {11, 4}, {65535, 65535}, {9, 9}, {65543, 4}} {
		g.emit("!ctorCertificate", "builder-keys", itoa(kt[0]), itoa(kt[1]), "ok")
	}
	g.in("cert-defect")
	for _, route := range []string{"direct", "builder"} {
		for _, t := range []int{6, 7, 100, 255} {
			g.emit("!ctorCertificate", route, itoa(t), "-", "unknown-type")
		}
		g.emit("!ctorCertificate", route, "0", "01", "null-with-payload")
		g.emit("!ctorCertificate", route, "2", "01", "hidden-with-payload")
		for _, n := range []int{0, 39, 41, 71, 73} {
			g.emit("!ctorCertificate", route, "3", hx(r.bytes(n)), "signed-payload-length")
		}
		for _, t := range []int{1, 4, 5} {
			g.emit("!ctorCertificate", route, itoa(t), "-", "payload-over-65535")
		}
	}
	g.emit("!ctorCertificate", "builder", "5", "none", "key-without-types-or-payload")
	g.emit("!ctorCertificate", "builder-keys", "-1", "4", "negative-key-type")
	g.emit("!ctorCertificate", "builder-keys", "7", "-1", "negative-key-type")

	g.in("mapping-valid")
	for _, route := range []string{"gomap", "values", "add"} {
		for _, o := range g.optionShapes(true) {
			g.emit("!ctorMapping", route, o, "ok")
		}
	}
	// order and duplicates only the MappingValues routes can express
	dup := assocArg([][2][]byte{{[]byte("a"), []byte("1")}, {[]byte("a"), []byte("2")}})
	uns := assocArg([][2][]byte{{[]byte("b"), []byte("1")}, {[]byte("a"), []byte("2")}})
	for _, route := range []string{"values", "add"} {
		g.emit("!ctorMapping", route, dup, "ok")
		g.emit("!ctorMapping", route, uns, "ok")
	}
	var many [][2][]byte
	for i := 0; i <= 1000; i++ {
		many = append(many, [2][]byte{[]byte(fmt.Sprintf("k%04d", i)), {}})
	}
	g.emit("!ctorMapping", "gomap", assocArg(many[:1000]), "ok")
	g.emit("!ctorMapping", "gomap", assocArg(many), "ok")
	g.in("mapping-defect")
	for _, route := range []string{"gomap", "values", "add"} {
		for _, v := range []string{"key-over-255", "value-over-255", "total-over-65535", "total-just-over-65535", "total-exactly-65535"} {
			g.emit("!ctorMapping", route, "-", v)
		}
	}
}

func init() {
	// C06: every signing constructor with the matching private key, over the admissible contents
	suites["C06"] = func(g *G) {
		genCtorRouterInfo(g, true)
		genCtorLeaseSet(g, true)
		genCtorLeaseSet2(g, true)
		genCtorELS(g, true)
		genCtorOffline(g, true)
	}
	// C14: every structure with a constructor and a Validate: valid tuples and single-defect variants
	// CLS2: constructed LeaseSet2s of every flag / offline-type / key / option shape: the C16 round trip on
	// constructed values lives in that op
	suites["CLS2"] = func(g *G) { genCtorLeaseSet2(g, false) }
	// CTWIN: the constructor routes that have twins (identity constructors incl. the generated-padding one,
	// EncryptedLeaseSet from a Destination): C19 twin oracles and the C10 layout oracle live in these ops
	suites["CTWIN"] = func(g *G) {
		genCtorIdentities(g)
		genCtorELS(g, false)
	}
	suites["C14"] = func(g *G) {
		genCtorIdentities(g)
		genCtorRouterAddress(g)
		genCtorLeases(g)
		genCtorRouterInfo(g, false)
		genCtorRouterInfoDefects(g)
		genCtorLeaseSet(g, false)
		genCtorLeaseSetDefects(g)
		genCtorLeaseSet2(g, false)
		genCtorLeaseSet2Defects(g)
		genCtorELS(g, false)
		genCtorELSDefects(g)
		genCtorOffline(g, false)
		genCtorOfflineDefects(g)
		genCtorSmall(g)
	}
}
