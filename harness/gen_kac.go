package main

import "crypto/sha256"

var knownSig = []int{0, 1, 2, 3, 4, 5, 6, 7, 8, 11}
var knownCrypto = []int{0, 1, 2, 3, 4, 5, 6, 7}
var unknownCodes = []int{9, 10, 12, 20, 255, 256, 65280, 65534, 65535}

// supported pairs: what the parser can construct
var supSig = []int{0, 1, 2, 7, 8, 11}
var supCrypto = []int{0, 4, 5, 6, 7}

// encKeyCert encodes a KEY certificate for (spk, cpk) with `extra` additional payload bytes.
func encKeyCert(spk, cpk int, extra []byte) []byte {
	return cat([]byte{5}, u16(4+len(extra)), u16(spk), u16(cpk), extra)
}

// encIdentity builds a 384-byte block of random bytes followed by the given certificate bytes.
func (g *G) encIdentity(cert []byte) []byte {
	blk := g.R.bytes(384)
	if blk[0] == 0 {
		blk[0] = 1
	}
	return cat(blk, cert)
}

// genIdentity yields one encoded identity from the spec-directed valid stream (all type pairs,
// NULL and KEY certificates, extra payload) and says whether it is expected to be well-formed.
func (g *G) genIdentity() []byte {
	r := g.R
	switch r.intn(12) {
	case 0: // NULL certificate
		return g.encIdentity([]byte{0, 0, 0})
	case 1: // NULL certificate with payload (accepted with a warning only)
		n := r.rng(1, 5)
		return g.encIdentity(cat([]byte{0}, u16(n), r.bytes(n)))
	case 2, 3, 4, 5: // supported pair
		return g.encIdentity(encKeyCert(supSig[r.intn(len(supSig))], supCrypto[r.intn(len(supCrypto))], nil))
	case 6: // supported pair with extra payload
		return g.encIdentity(encKeyCert(supSig[r.intn(len(supSig))], supCrypto[r.intn(len(supCrypto))], r.bytes(r.rng(1, 12))))
	case 7, 8: // any known pair
		return g.encIdentity(encKeyCert(knownSig[r.intn(len(knownSig))], knownCrypto[r.intn(len(knownCrypto))], nil))
	case 9: // unknown codes
		s, c := knownSig[r.intn(len(knownSig))], knownCrypto[r.intn(len(knownCrypto))]
		if r.coin(0.5) {
			s = unknownCodes[r.intn(len(unknownCodes))]
		} else {
			c = unknownCodes[r.intn(len(unknownCodes))]
		}
		return g.encIdentity(encKeyCert(s, c, nil))
	case 10: // other certificate types
		t := byte(r.pick(1, 2, 3, 4, 6, 7, 255))
		n := r.pick(0, 0, 4, 40, 72)
		return g.encIdentity(cat([]byte{t}, u16(n), r.bytes(n)))
	default: // KEY certificate with a short or inconsistent payload
		n := r.pick(0, 1, 2, 3, 4, 5)
		decl := n + r.pick(0, 0, 1, -1, 3)
		if decl < 0 {
			decl = 0
		}
		return g.encIdentity(cat([]byte{5}, u16(decl), r.bytes(n)))
	}
}

func (g *G) mutate(b []byte) ([]byte, string) {
	r := g.R
	switch r.intn(5) {
	case 0:
		if len(b) == 0 {
			return b, ""
		}
		return b[:r.intn(len(b))], "+cut"
	case 1: // cut near the end / near the certificate header
		k := len(b) - r.rng(1, 8)
		if k < 0 {
			k = 0
		}
		return b[:k], "+cutend"
	case 2:
		return cat(b, r.bytes(r.rng(1, 9))), "+trail"
	case 3:
		if len(b) == 0 {
			return b, ""
		}
		m := append([]byte{}, b...)
		m[r.intn(len(m))] ^= byte(1 << uint(r.intn(8)))
		return m, "+flip"
	case 4: // corrupt the certificate header of an identity
		if len(b) > 387 {
			m := append([]byte{}, b...)
			m[384+r.intn(3)] = byte(r.pick(0, 1, 5, 255, int(r.next()&0xff)))
			return m, "+hdr"
		}
	}
	return b, ""
}

func genIdentities(g *G, opsList []string, count int) {
	r := g.R
	g.in("ident-all-known-pairs")
	for _, s := range append(append([]int{}, knownSig...), 9, 65280, 65535) {
		for _, c := range append(append([]int{}, knownCrypto...), 8, 255, 65280) {
			b := g.encIdentity(encKeyCert(s, c, nil))
			for _, op := range opsList {
				g.emit(op, hx(b))
			}
		}
	}
	g.in("ident-boundary-lengths")
	for _, n := range []int{0, 1, 383, 384, 385, 386, 387, 388, 390, 391, 392} {
		for _, cert := range [][]byte{{0, 0, 0}, encKeyCert(7, 4, nil), encKeyCert(0, 0, nil), encKeyCert(3, 4, nil)} {
			b := g.encIdentity(cert)
			if n <= len(b) {
				for _, op := range opsList {
					g.emit(op, hx(b[:n]))
				}
			}
		}
	}
	for i := 0; i < count; i++ {
		op := opsList[r.intn(len(opsList))]
		b := g.genIdentity()
		g.gen = "ident-valid-stream"
		if (op == "readKacElgEd" || op == "readKacXEd") && r.coin(0.6) {
			c := 0
			if op == "readKacXEd" {
				c = 4
			}
			var extra []byte
			if r.coin(0.3) {
				extra = r.bytes(r.rng(1, 9))
			}
			b = g.encIdentity(encKeyCert(7, c, extra))
			g.gen = "ident-fastpath-matched"
		}
		if r.coin(0.4) {
			var tag string
			b, tag = g.mutate(b)
			g.gen += tag
		}
		g.emit(op, hx(b))
	}
	g.in("ident-random")
	for i := 0; i < count/10+5; i++ {
		b := r.bytes(r.rng(0, 420))
		g.emit(opsList[r.intn(len(opsList))], hx(b))
	}
}

func genCerts(g *G, count int) {
	r := g.R
	g.in("cert-all-types")
	for t := 0; t < 256; t++ {
		for _, n := range []int{0, 4} {
			b := cat([]byte{byte(t)}, u16(n), r.bytes(n))
			g.emit("readCert", hx(b))
			if t == 5 || t < 8 {
				g.emit("readKeyCert", hx(b))
			}
		}
	}
	// KEY certificates whose declared payload is longer than the two type fields (excess payload is legal): the type
	// codes are the FIRST four payload bytes on every route (bytes → KeyCertificate, Certificate → KeyCertificate)
	g.in("keycert-excess-payload")
	for _, p := range [][2]int{{7, 4}, {0, 0}, {1, 0}, {11, 4}, {2, 0}, {7, 0}} {
		for _, extra := range []int{1, 2, 4, 5, 8} {
			b := encKeyCert(p[0], p[1], r.bytes(extra))
			g.emit("readKeyCert", hx(b))
			g.emit("readCert", hx(b))
			g.emit("readKeyCert", hx(cat(b, r.bytes(3))))
		}
	}
	g.in("cert-shapes")
	for i := 0; i < count; i++ {
		t := byte(r.pick(0, 0, 1, 2, 3, 4, 5, 5, 5, 5, 6, 255))
		n := r.pick(0, 0, 1, 3, 4, 4, 5, 8, 40, 72)
		decl := n
		switch r.intn(6) {
		case 0:
			decl = n + r.rng(1, 3)
		case 1:
			if n > 0 {
				decl = n - 1
			}
		}
		b := cat([]byte{t}, u16(decl), r.bytes(n))
		if t == 5 && n >= 4 && r.coin(0.7) {
			copy(b[3:], cat(u16(r.pick(append(knownSig, unknownCodes...)...)), u16(r.pick(append(knownCrypto, unknownCodes...)...))))
		}
		b, tag := g.mutate(b)
		g.gen = "cert-shapes" + tag
		g.emit("readCert", hx(b))
		g.emit("readKeyCert", hx(b))
	}
	g.in("cert-short")
	for n := 0; n <= 4; n++ {
		g.emit("readCert", hx(r.bytes(n)))
		g.emit("readKeyCert", hx(r.bytes(n)))
	}
}

var identOps = []string{"readKac", "readDest", "readRid", "readKacElgEd", "readKacXEd"}

func genIdentityAccessors(g *G, count int) {
	r := g.R
	g.in("ident-accessors")
	for i := 0; i < count; i++ {
		var b []byte
		switch r.intn(4) {
		case 0:
			b = g.encIdentity([]byte{0, 0, 0})
		case 1:
			b = g.encIdentity(encKeyCert(supSig[r.intn(len(supSig))], r.pick(0, 4), r.bytes(r.rng(0, 5))))
		default:
			b = g.encIdentity(encKeyCert(r.pick(0, 1, 2, 7, 11), r.pick(0, 4), nil))
		}
		// the SHA-256 of the identity's own extent (the harness knows where its encoding ends)
		sum := sha256.Sum256(b)
		if r.coin(0.3) {
			b = cat(b, r.bytes(r.rng(1, 6)))
		}
		g.emit("destAddr", hx(b), hx(sum[:]))
		if i%4 == 0 {
			g.emit("!hashFns", hx(b[:r.pick(0, 1, 31, 32, 33, 55, 56, 63, 64, 65, 119, 120, len(b))]))
		}
	}
}

func genLookups(g *G) {
	g.in("lookup-known-and-boundaries")
	for _, c := range []int{-65529, -1, 0, 1, 2, 3, 4, 5, 6, 7, 8, 9, 10, 11, 12, 13, 20, 21, 255, 256, 65279, 65280, 65534, 65535, 65536, 65543, 1 << 20} {
		g.emit("lookup", itoa(c))
		if c >= 0 && c < 65536 {
			g.emit("!useSizes", itoa(c))
		}
	}
	if g.quick() {
		g.in("lookup-random")
		for i := 0; i < 3000; i++ {
			g.emit("lookup", itoa(g.R.intn(65536)))
		}
		for i := 0; i < 300; i++ {
			g.emit("!useSizes", itoa(g.R.intn(65536)))
		}
		return
	}
	g.in("lookup-exhaustive")
	for c := 0; c < 65536; c++ {
		g.emit("lookup", itoa(c))
	}
	for c := 0; c < 65536; c += 1 + g.R.intn(7) {
		g.emit("!useSizes", itoa(c))
	}
}

func init() {
	suites["LOOKUPS"] = genLookups
	suites["IDENT"] = func(g *G) { genIdentityAccessors(g, g.n(200, 5000)) }
	suites["KAC"] = func(g *G) {
		genCerts(g, g.n(300, 10000))
		genIdentities(g, identOps, g.n(3000, 40000))
	}
}
