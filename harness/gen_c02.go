package main

// Generators of spec-level values for C02 (all structures, every supported type pair, NULL and KEY
// certificates with and without extra payload, counts 0..16 with the boundaries forced, any flags the
// specification defines, option mappings of every shape, with and without offline block).

import (
	"bytes"
	"fmt"
	"sort"
)

// ---- mappings ------------------------------------------------------------------------------------------

func (g *G) c02Key() []byte {
	r := g.R
	switch r.intn(10) {
	case 0:
		return []byte{byte('a' + r.intn(26))} // one-character key
	case 1:
		return []byte(r.pickS("host", "port", "caps", "netId", "router.version", "s", "i", "v"))
	case 2:
		return r.bytes(255)
	case 3:
		return []byte{'=', ';', byte(r.intn(256))} // delimiters inside a length-prefixed string
	case 4:
		return []byte{0}
	case 5:
		return []byte{} // the empty key is a legal String
	default:
		return r.bytes(r.rng(1, 12))
	}
}

func (g *G) c02Val() []byte {
	r := g.R
	switch r.intn(8) {
	case 0, 1:
		return []byte{} // empty value
	case 2:
		return r.bytes(255)
	case 3:
		return []byte("=;")
	default:
		return r.bytes(r.rng(1, 20))
	}
}

// c02Mapping: n pairs with distinct keys, sorted by key unless unsorted is requested.
func (g *G) c02Mapping(n int, unsorted bool) SpecMapping {
	seen := map[string]bool{}
	m := SpecMapping{}
	for len(m.Pairs) < n {
		k := g.c02Key()
		if seen[string(k)] {
			k = g.R.bytes(g.R.rng(2, 9))
			if seen[string(k)] {
				continue
			}
		}
		seen[string(k)] = true
		m.Pairs = append(m.Pairs, [2][]byte{k, g.c02Val()})
	}
	if !unsorted {
		sort.SliceStable(m.Pairs, func(i, j int) bool { return bytes.Compare(m.Pairs[i][0], m.Pairs[j][0]) < 0 })
	}
	return m
}

// c02ManyPairs: n pairs with short distinct keys (1000 pairs stay far below the 65535-byte body limit).
func (g *G) c02ManyPairs(n int, unsorted bool) SpecMapping {
	m := SpecMapping{}
	for i := 0; i < n; i++ {
		m.Pairs = append(m.Pairs, [2][]byte{{byte(i >> 8), byte(i)}, g.R.bytes(g.R.intn(3))})
	}
	if unsorted {
		for i := len(m.Pairs) - 1; i > 0; i-- {
			j := g.R.intn(i + 1)
			m.Pairs[i], m.Pairs[j] = m.Pairs[j], m.Pairs[i]
		}
	}
	return m
}

// c02Options: the shapes an embedded options mapping takes.
func (g *G) c02Options() SpecMapping {
	r := g.R
	switch r.intn(8) {
	case 0, 1, 2:
		return SpecMapping{}
	case 3:
		return SpecMapping{Pairs: [][2][]byte{{{byte('a' + r.intn(26))}, {}}}} // {"a": ""}
	case 4:
		return SpecMapping{Pairs: [][2][]byte{{r.bytes(255), r.bytes(255)}}}
	default:
		return g.c02Mapping(r.rng(1, 5), false)
	}
}

// ---- identities ---------------------------------------------------------------------------------------------

var c02KacSig = []int{0, 1, 2, 7, 8, 11}
var c02KacCrypto = []int{0, 4, 5, 6, 7}
var c02DestSig = []int{0, 1, 2, 7, 11}
var c02RidSig = []int{0, 1, 2, 7}
var c02DestCrypto = []int{0, 4}

func (g *G) c02KeyBytes(n int) []byte {
	b := g.R.bytes(n)
	if n > 0 {
		b[0] &= 0x7f // ElGamal / DSA values stay below the group modulus
		if b[0] == 0 {
			b[0] = 1
		}
	}
	return b
}

// c02Identity: who = "kac" | "dest" | "rid"; certShape: 0 any, 1 KEY only.
func (g *G) c02IdentityOf(sigType, cryptoType int, null bool, extra []byte) SpecIdentity {
	if null {
		return SpecIdentity{NullCert: true, CryptoKey: g.c02KeyBytes(256), Padding: []byte{}, SigKey: g.c02KeyBytes(128), CertExtra: extra}
	}
	cs, ss := spCrypto[cryptoType], spSig[sigType][0]
	return SpecIdentity{SigType: sigType, CryptoType: cryptoType, CryptoKey: g.c02KeyBytes(cs), Padding: g.R.bytes(spKeyBlock - cs - ss),
		SigKey: g.c02KeyBytes(ss), CertExtra: extra}
}

func (g *G) c02Identity(who string, keyOnly bool) SpecIdentity {
	r := g.R
	sigs, cryptos := c02KacSig, c02KacCrypto
	switch who {
	case "dest":
		sigs, cryptos = c02DestSig, c02DestCrypto
	case "rid":
		sigs, cryptos = c02RidSig, c02DestCrypto
	}
	extra := []byte{}
	if r.coin(0.25) {
		extra = r.bytes(r.rng(1, 9))
	}
	if !keyOnly && r.coin(0.2) {
		return g.c02IdentityOf(0, 0, true, extra)
	}
	return g.c02IdentityOf(sigs[r.intn(len(sigs))], cryptos[r.intn(len(cryptos))], false, extra)
}

// ---- small structures ------------------------------------------------------------------------------------------

var c02Times32 = []uint32{0, 1, 1<<31 - 1, 1 << 31, 1<<32 - 1}

func (g *G) c02T32() uint32 {
	if g.R.coin(0.3) {
		return c02Times32[g.R.intn(len(c02Times32))]
	}
	return uint32(g.R.next())
}

func (g *G) c02T64() uint64 {
	r := g.R
	switch r.intn(6) {
	case 0:
		return 0
	case 1:
		return 1<<64 - 1
	case 2:
		return 1 << 63
	default:
		return r.next() >> uint(r.rng(0, 40))
	}
}

func (g *G) c02Lease2() SpecLease2 {
	return SpecLease2{Gateway: g.R.bytes(32), TunnelID: g.c02T32(), EndDate: g.c02T32()}
}
func (g *G) c02Lease() SpecLease {
	return SpecLease{Gateway: g.R.bytes(32), TunnelID: g.c02T32(), EndDate: g.c02T64()}
}

var c02AllSig = []int{0, 1, 2, 3, 4, 5, 6, 7, 8, 11}

func (g *G) c02Offline(destType int, transient int) *SpecOfflineSig {
	return &SpecOfflineSig{Expires: g.c02T32(), TransientType: transient, TransientKey: g.R.bytes(spSig[transient][0]), Signature: g.R.bytes(spSig[destType][1])}
}

func (g *G) c02Transient() int { return g.R.pick(7, 7, 7, 11, 1, 2, 0, 8, 3, 4) }

func (g *G) c02Count16(min int) int {
	n := g.R.pick(0, 1, 1, 2, 2, 3, 5, 15, 16, 16)
	if n < min {
		n = min
	}
	return n
}

// ---- composite structures -----------------------------------------------------------------------------------------

func (g *G) c02LS2(nk, nl int, offline bool) SpecLeaseSet2 {
	r := g.R
	v := SpecLeaseSet2{Dest: g.c02Identity("dest", false), Published: g.c02T32(), Expires: uint16(r.pick(0, 1, 600, 65535, int(r.next()&0xffff))),
		Flags: uint16(r.pick(0, 0, 2, 4, 6)), Options: g.c02Options()}
	sigType := v.Dest.SigType
	if offline {
		v.Flags |= 1
		v.Offline = g.c02Offline(v.Dest.SigType, g.c02Transient())
		sigType = v.Offline.TransientType
	}
	for i := 0; i < nk; i++ {
		t := r.pick(4, 4, 0, 5, 6, 7)
		data := r.bytes(spCrypto[t])
		if r.coin(0.1) { // unknown / experimental encryption type: the length field says how much to skip
			t = r.pick(65280, 255, 8, 1000)
			data = r.bytes(r.rng(0, 40))
		}
		v.Keys = append(v.Keys, SpecEncKey{Type: t, Data: data})
	}
	for i := 0; i < nl; i++ {
		v.Leases = append(v.Leases, g.c02Lease2())
	}
	v.Signature = r.bytes(spSig[sigType][1])
	return v
}

func (g *G) c02Meta(ne int, offline bool) SpecMetaLeaseSet {
	r := g.R
	v := SpecMetaLeaseSet{Dest: g.c02Identity("dest", false), Published: g.c02T32(), Expires: uint16(r.pick(0, 1, 600, 65535, int(r.next()&0xffff))),
		Flags: uint16(r.pick(0, 0, 2)), Options: g.c02Options()}
	sigType := v.Dest.SigType
	if offline {
		v.Flags |= 1
		v.Offline = g.c02Offline(v.Dest.SigType, g.c02Transient())
		sigType = v.Offline.TransientType
	}
	for i := 0; i < ne; i++ {
		v.Entries = append(v.Entries, SpecMetaEntry{Hash: r.bytes(32), Type: r.pick(1, 3, 5), Expires: g.c02T32(), Cost: r.intn(256), Properties: g.c02Options()})
	}
	v.Signature = r.bytes(spSig[sigType][1])
	return v
}

func (g *G) c02ELS(sigType int, offline bool, transient int, inner int) SpecEncryptedLeaseSet {
	r := g.R
	v := SpecEncryptedLeaseSet{SigType: sigType, BlindedKey: r.bytes(spSig[sigType][0]), Published: g.c02T32(),
		Expires: uint16(r.pick(1, 600, 65535, 1+int(r.next()%65535))), Flags: uint16(r.pick(0, 0, 2)), Inner: r.bytes(inner)}
	st := sigType
	if offline {
		v.Flags |= 1
		v.Offline = g.c02Offline(sigType, transient)
		st = transient
	}
	v.Signature = r.bytes(spSig[st][1])
	return v
}

func (g *G) c02LS(nl int, keyOnly bool) SpecLeaseSet {
	v := SpecLeaseSet{Dest: g.c02Identity("dest", keyOnly), EncKey: g.c02KeyBytes(256)}
	v.SigningKey = g.c02KeyBytes(spSig[v.Dest.SigType][0])
	for i := 0; i < nl; i++ {
		v.Leases = append(v.Leases, g.c02Lease())
	}
	v.Signature = g.R.bytes(spSig[v.Dest.SigType][1])
	return v
}

func (g *G) c02RA(forCtor bool) SpecRouterAddress {
	r := g.R
	v := SpecRouterAddress{Cost: r.intn(256), Style: []byte(r.pickS("NTCP2", "SSU2", "NTCP", "SSU", "x")), Options: g.c02Options()}
	if !forCtor {
		if r.coin(0.1) {
			v.Expiration = g.c02T64() // all zeros in current routers; the field is still eight bytes of the layout
		}
		switch r.intn(12) {
		case 0:
			v.Style = []byte{}
		case 1:
			v.Style = r.bytes(255)
		}
	}
	return v
}

func (g *G) c02RI(na int, forCtor bool) SpecRouterInfo {
	v := SpecRouterInfo{Ident: g.c02Identity("rid", forCtor), Published: g.c02T64(), Options: g.c02Options()}
	if forCtor {
		v.Ident = g.c02IdentityOf(7, g.R.pick(0, 4), false, v.Ident.CertExtra)
		v.Published = g.R.next() >> uint(g.R.rng(11, 40)) // time arithmetic at the int64 edges is C15's subject
	}
	for i := 0; i < na; i++ {
		v.Addresses = append(v.Addresses, g.c02RA(forCtor))
	}
	v.Signature = g.R.bytes(spSig[v.Ident.SigType][1])
	return v
}

// ---- emitters ---------------------------------------------------------------------------------------------------------

// emitSpec: the two transcriptions of the layout (spec.go / Spec/Structs.lean) decode the same bytes — the
// encoding itself, the encoding followed by stream bytes, and damaged variants (both must agree on rejection too).
func (g *G) emitSpec(kind string, enc []byte) {
	sk := kind
	if kind == "kac" || kind == "dest" || kind == "rid" {
		sk = "ident"
	}
	save := g.gen
	g.gen = "c02-spec-vs-spec"
	g.emit("specDecode", sk, hx(enc))
	if g.R.coin(0.5) {
		b, tag := g.mutate(enc)
		g.gen = "c02-spec-vs-spec" + tag
		g.emit("specDecode", sk, hx(b))
	}
	g.gen = save
}

// emitParse emits the encoding alone or followed by stream bytes.
func (g *G) emitParse(kind string, enc []byte, noTrail bool) {
	g.emitSpec(kind, enc)
	if !noTrail && g.R.coin(0.3) {
		g.emit("!c02parse", kind, hx(cat(enc, g.R.bytes(g.R.rng(1, 9)))), itoa(len(enc)))
		return
	}
	g.emit("!c02parse", kind, hx(enc), itoa(len(enc)))
}

func genC02Parse(g *G, n int) {
	r := g.R
	// mappings
	g.in("c02-parse-mapping")
	g.emitParse("mapping", SpecMapping{}.Encode(), false)
	g.emitParse("mapping", SpecMapping{Pairs: [][2][]byte{{[]byte("a"), {}}}}.Encode(), false)
	g.emitParse("mapping", SpecMapping{Pairs: [][2][]byte{{r.bytes(255), r.bytes(255)}}}.Encode(), false)
	g.emitParse("mapping", g.c02Mapping(127, false).Encode(), false)
	{ // the largest body the 2-byte size allows: 127 pairs of 255+255 bytes and one that fills the rest
		m := SpecMapping{}
		for i := 0; i < 127; i++ {
			m.Pairs = append(m.Pairs, [2][]byte{cat([]byte{byte(i)}, r.bytes(254)), r.bytes(255)})
		}
		m.Pairs = append(m.Pairs, [2][]byte{cat([]byte{200}, r.bytes(252)), {}})
		if len(m.Encode()) != 2+65535 {
			panic(fmt.Sprintf("harness: c02: maximal mapping has %d bytes", len(m.Encode())))
		}
		g.emitParse("mapping", m.Encode(), false)
	}
	g.emitParse("mapping", g.c02ManyPairs(1000, false).Encode(), false)
	for i := 0; i < n; i++ {
		g.emitParse("mapping", g.c02Mapping(r.pick(0, 1, 1, 2, 3, 5, 8, 20), r.coin(0.3)).Encode(), false)
	}
	// identities: every supported pair, NULL and KEY, with and without extra payload
	g.in("c02-parse-identity-grid")
	for _, who := range []string{"kac", "dest", "rid"} {
		sigs, cryptos := c02KacSig, c02KacCrypto
		if who == "dest" {
			sigs, cryptos = c02DestSig, c02DestCrypto
		} else if who == "rid" {
			sigs, cryptos = c02RidSig, c02DestCrypto
		}
		for _, s := range sigs {
			for _, c := range cryptos {
				g.emitParse(who, g.c02IdentityOf(s, c, false, []byte{}).Encode(), false)
				g.emitParse(who, g.c02IdentityOf(s, c, false, r.bytes(r.rng(1, 12))).Encode(), false)
			}
		}
		g.emitParse(who, g.c02IdentityOf(0, 0, true, []byte{}).Encode(), false)
		g.emitParse(who, g.c02IdentityOf(0, 0, true, r.bytes(r.rng(1, 6))).Encode(), false)
	}
	g.in("c02-parse-identity")
	for i := 0; i < n; i++ {
		who := r.pickS("kac", "dest", "rid")
		g.emitParse(who, g.c02Identity(who, false).Encode(), false)
	}
	// leases, offline signatures
	g.in("c02-parse-lease")
	for i := 0; i < n/4+8; i++ {
		g.emitParse("lease", g.c02Lease().Encode(), false)
		g.emitParse("lease2", g.c02Lease2().Encode(), false)
	}
	g.in("c02-parse-offsig-grid")
	for _, d := range c02AllSig {
		for _, t := range c02AllSig {
			g.emitParse(fmt.Sprintf("offsig:%d", d), g.c02Offline(d, t).Encode(), false)
		}
	}
	// LeaseSet2: count boundaries first
	g.in("c02-parse-ls2-boundaries")
	for _, nk := range []int{1, 2, 15, 16} {
		for _, nl := range []int{0, 1, 15, 16} {
			for _, off := range []bool{false, true} {
				g.emitParse("ls2", g.c02LS2(nk, nl, off).Encode(), false)
			}
		}
	}
	// the shortest encodings the layout allows: DSA/ElGamal destination with a NULL certificate (387 bytes, 40-byte
	// signature), empty options, one X25519 key, no lease (475 bytes) / one entry with empty properties (478 bytes)
	g.in("c02-parse-minimal")
	{
		v := g.c02LS2(1, 0, false)
		v.Dest, v.Options, v.Flags = g.c02IdentityOf(0, 0, true, []byte{}), SpecMapping{}, 0
		v.Keys = []SpecEncKey{{Type: 4, Data: r.bytes(32)}}
		v.Signature = r.bytes(40)
		g.emitParse("ls2", v.Encode(), true)
		v.Leases = []SpecLease2{g.c02Lease2()} // 515 bytes
		g.emitParse("ls2", v.Encode(), true)
		m := g.c02Meta(1, false)
		m.Dest, m.Options, m.Flags = g.c02IdentityOf(0, 0, true, []byte{}), SpecMapping{}, 0
		m.Entries[0].Properties = SpecMapping{}
		m.Signature = r.bytes(40)
		g.emitParse("meta", m.Encode(), true)
		m.Entries = append(m.Entries, m.Entries[0]) // 518 bytes
		g.emitParse("meta", m.Encode(), true)
	}
	g.in("c02-parse-ls2")
	for i := 0; i < n; i++ {
		g.emitParse("ls2", g.c02LS2(g.c02Count16(1), g.c02Count16(0), r.coin(0.4)).Encode(), false)
	}
	g.in("c02-parse-meta-boundaries")
	for _, ne := range []int{1, 2, 15, 16} {
		for _, off := range []bool{false, true} {
			g.emitParse("meta", g.c02Meta(ne, off).Encode(), false)
		}
	}
	g.in("c02-parse-meta")
	for i := 0; i < n; i++ {
		g.emitParse("meta", g.c02Meta(g.c02Count16(1), r.coin(0.4)).Encode(), false)
	}
	g.in("c02-parse-els-grid")
	for _, s := range c02AllSig {
		g.emitParse("els", g.c02ELS(s, false, 0, 61).Encode(), false)
		for _, t := range []int{7, 11, 1, 0, 3} {
			g.emitParse("els", g.c02ELS(s, true, t, r.pick(61, 62, 300)).Encode(), false)
		}
	}
	g.emitParse("els", g.c02ELS(7, false, 0, 65535).Encode(), false)
	g.in("c02-parse-els")
	for i := 0; i < n; i++ {
		g.emitParse("els", g.c02ELS(c02AllSig[r.intn(len(c02AllSig))], r.coin(0.4), g.c02Transient(), r.pick(61, 61, 62, 100, 300, 1000)).Encode(), false)
	}
	// LeaseSet: ReadLeaseSet returns no remainder, so no stream bytes are appended
	g.in("c02-parse-ls-boundaries")
	for _, nl := range []int{0, 1, 15, 16} {
		g.emitParse("ls", g.c02LS(nl, false).Encode(), true)
		g.emitParse("ls", g.c02LS(nl, true).Encode(), true)
	}
	g.in("c02-parse-ls")
	for i := 0; i < n; i++ {
		g.emitParse("ls", g.c02LS(g.c02Count16(0), false).Encode(), true)
	}
	// RouterAddress / RouterInfo
	g.in("c02-parse-ra")
	for i := 0; i < n; i++ {
		g.emitParse("ra", g.c02RA(false).Encode(), false)
	}
	g.in("c02-parse-ri-boundaries")
	for _, na := range []int{0, 1, 16, 255} {
		g.emitParse("ri", g.c02RI(na, false).Encode(), false)
	}
	g.in("c02-parse-ri")
	for i := 0; i < n; i++ {
		g.emitParse("ri", g.c02RI(r.pick(0, 1, 1, 2, 3, 4), false).Encode(), false)
	}
}

func genC02Ctor(g *G, n int) {
	r := g.R
	seed := func() string { return hx(r.bytes(32)) }
	g.in("c02-ctor-gomap")
	g.emit("!c02ctor", "gomap", hx(SpecMapping{}.Encode()))
	g.emit("!c02ctor", "gomap", hx(SpecMapping{Pairs: [][2][]byte{{[]byte("a"), {}}}}.Encode()))
	g.emit("!c02ctor", "gomap", hx(SpecMapping{Pairs: [][2][]byte{{r.bytes(255), r.bytes(255)}}}.Encode()))
	g.emit("!c02ctor", "gomap", hx(g.c02ManyPairs(1000, true).Encode()))
	for i := 0; i < n; i++ {
		g.emit("!c02ctor", "gomap", hx(g.c02Mapping(r.pick(0, 1, 2, 3, 5, 8, 20), true).Encode()))
	}
	g.in("c02-ctor-cert")
	for _, c := range [][]byte{{0, 0, 0}, {2, 0, 0}, cat([]byte{1}, u16(8), r.bytes(8)), cat([]byte{3}, u16(40), r.bytes(40)), cat([]byte{3}, u16(72), r.bytes(72)),
		cat([]byte{4}, u16(5), r.bytes(5)), cat([]byte{5}, u16(4), u16(7), u16(4)), cat([]byte{5}, u16(9), u16(7), u16(4), r.bytes(5))} {
		g.emit("!c02ctor", "cert", hx(c))
	}
	g.in("c02-ctor-identity-grid")
	for _, who := range []string{"kac", "dest", "rid"} {
		sigs, cryptos := c02KacSig, c02KacCrypto
		if who == "dest" {
			sigs, cryptos = c02DestSig, c02DestCrypto
		} else if who == "rid" {
			sigs, cryptos = c02RidSig, c02DestCrypto
		}
		for _, s := range sigs {
			for _, c := range cryptos {
				g.emit("!c02ctor", who, hx(g.c02IdentityOf(s, c, false, []byte{}).Encode()))
				g.emit("!c02ctor", who, hx(g.c02IdentityOf(s, c, false, r.bytes(r.rng(1, 12))).Encode()))
			}
		}
	}
	g.in("c02-ctor-lease")
	for i := 0; i < n/4+8; i++ {
		l := g.c02Lease()
		l.EndDate = r.next() >> uint(r.rng(11, 40)) // time arithmetic at the int64 edges is C15's subject
		g.emit("!c02ctor", "lease", hx(l.Encode()))
		g.emit("!c02ctor", "lease2", hx(g.c02Lease2().Encode()))
	}
	g.in("c02-ctor-offsig-grid")
	for _, d := range c02AllSig {
		for _, t := range c02AllSig {
			g.emit("!c02ctor", fmt.Sprintf("offsig:%d", d), hx(g.c02Offline(d, t).Encode()))
		}
	}
	for _, d := range []int{7, 11} { // CreateOfflineSignature signs with Ed25519 keys only; type 8 never names a Destination key
		for _, t := range c02AllSig {
			o := g.c02Offline(d, t)
			o.Expires |= 1
			g.emit("!c02ctor", fmt.Sprintf("offsigcreate:%d", d), hx(o.Encode()), seed())
		}
	}
	g.in("c02-ctor-ls2")
	for _, nk := range []int{1, 16} {
		for _, nl := range []int{1, 16} {
			for _, off := range []bool{false, true} {
				v := g.c02LS2(nk, nl, off)
				v.Dest = g.c02Identity("dest", true)
				if off {
					v.Offline = g.c02Offline(v.Dest.SigType, v.Offline.TransientType)
				} else {
					v.Signature = r.bytes(spSig[v.Dest.SigType][1])
				}
				g.emit("!c02ctor", "ls2", hx(v.Encode()))
			}
		}
	}
	for i := 0; i < n; i++ {
		off := r.coin(0.4)
		v := g.c02LS2(g.c02Count16(1), g.c02Count16(1), off)
		v.Dest = g.c02Identity("dest", true)
		if off {
			v.Offline = g.c02Offline(v.Dest.SigType, v.Offline.TransientType)
		} else {
			v.Signature = r.bytes(spSig[v.Dest.SigType][1])
		}
		g.emit("!c02ctor", "ls2", hx(v.Encode()))
	}
	g.in("c02-ctor-els")
	for i := 0; i < n; i++ {
		// the constructor signs with Ed25519: the trailing signature has 64 bytes
		off := r.coin(0.4)
		g.emit("!c02ctor", "els", hx(g.c02ELS(r.pick(7, 7, 11, 8, 1), off, r.pick(7, 11, 8, 1), r.pick(61, 61, 62, 100, 300, 1000)).Encode()), seed())
	}
	g.in("c02-ctor-ls")
	for _, nl := range []int{0, 1, 16} {
		g.emit("!c02ctor", "ls", hx(g.c02LS(nl, true).Encode()))
	}
	for i := 0; i < n; i++ {
		v := g.c02LS(g.c02Count16(0), true)
		for j := range v.Leases {
			v.Leases[j].EndDate = r.next() >> uint(r.rng(11, 40))
		}
		g.emit("!c02ctor", "ls", hx(v.Encode()))
	}
	g.in("c02-ctor-ra")
	for i := 0; i < n; i++ {
		g.emit("!c02ctor", "ra", hx(g.c02RA(true).Encode()))
	}
	g.in("c02-ctor-ri")
	for _, na := range []int{0, 1, 255} {
		g.emit("!c02ctor", "ri", hx(g.c02RI(na, true).Encode()), seed())
	}
	for i := 0; i < n; i++ {
		g.emit("!c02ctor", "ri", hx(g.c02RI(r.pick(0, 1, 1, 2, 3, 4), true).Encode()), seed())
	}
}

// genC02Probe: layout-conforming encodings on the far side of each recorded parser restriction.
func genC02Probe(g *G) {
	r := g.R
	g.in("c02-probe-restrictions")
	// Mapping: duplicate keys; 1001 pairs
	g.emit("!c02probe", "mapping", hx(SpecMapping{Pairs: [][2][]byte{{[]byte("a"), []byte("1")}, {[]byte("a"), []byte("2")}}}.Encode()), "duplicate-key")
	g.emit("!c02probe", "mapping", hx(g.c02ManyPairs(1001, false).Encode()), "1001-pairs")
	// identity: ECDSA-P521 signing key (132 bytes: 128 in the block, 4 in the KEY certificate)
	p521 := SpecIdentity{SigType: 3, CryptoType: 0, CryptoKey: g.c02KeyBytes(256), Padding: []byte{}, SigKey: r.bytes(132), CertExtra: []byte{}}
	g.emit("!c02probe", "kac", hx(p521.Encode()), "p521-signing-key")
	rsa := SpecIdentity{SigType: 4, CryptoType: 4, CryptoKey: r.bytes(32), Padding: r.bytes(224), SigKey: r.bytes(256), CertExtra: []byte{}}
	g.emit("!c02probe", "kac", hx(rsa.Encode()), "rsa2048-signing-key")
	g.emit("!c02probe", "kac", hx(g.c02IdentityOf(7, 1, false, []byte{}).Encode()), "p256-crypto-key")
	// LeaseSet2: reserved flag bits
	v := g.c02LS2(1, 2, false)
	v.Flags |= 0x8000
	g.emit("!c02probe", "ls2", hx(v.Encode()), "reserved-flag")
	// EncryptedLeaseSet: expires 0; short inner data; reserved flag bit
	e := g.c02ELS(7, false, 0, 61)
	e.Expires = 0
	g.emit("!c02probe", "els", hx(e.Encode()), "expires-0")
	g.emit("!c02probe", "els", hx(g.c02ELS(7, false, 0, 60).Encode()), "inner-60")
	g.emit("!c02probe", "els", hx(g.c02ELS(7, false, 0, 0).Encode()), "inner-0")
	e = g.c02ELS(7, false, 0, 61)
	e.Flags |= 4
	g.emit("!c02probe", "els", hx(e.Encode()), "reserved-flag")
}

func init() {
	suites["C02"] = func(g *G) {
		genC02Probe(g)
		genC02Parse(g, g.n(600, 6000))
		genC02Ctor(g, g.n(400, 4000))
	}
}
