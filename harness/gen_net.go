package main

import (
	"fmt"
	"strings"
)

// ---- IP-literal grammar (DESIGN.md appendix B) -----------------------------------------------------

var ipOctetEdges = []int{0, 1, 9, 10, 19, 99, 100, 199, 200, 249, 250, 254, 255}

func (g *G) ipOctet() string {
	r := g.R
	if r.coin(0.5) {
		return itoa(ipOctetEdges[r.intn(len(ipOctetEdges))])
	}
	return itoa(r.intn(256))
}

func (g *G) validV4() string {
	return g.ipOctet() + "." + g.ipOctet() + "." + g.ipOctet() + "." + g.ipOctet()
}

// ipBadOctet: one malformed IPv4 field.
func (g *G) ipBadOctet() string {
	return g.R.pickS("", "00", "01", "007", "256", "260", "300", "999", "1000", "+1", "-1", " 1", "1 ", "0x1", "a", "1a", "٣", "1e1", "0.", "25５")
}

func (g *G) invalidV4() string {
	r := g.R
	f := []string{g.ipOctet(), g.ipOctet(), g.ipOctet(), g.ipOctet()}
	switch r.intn(14) {
	case 0: // one bad field
		f[r.intn(4)] = g.ipBadOctet()
		return strings.Join(f, ".")
	case 1: // too few fields
		return strings.Join(f[:r.rng(1, 3)], ".")
	case 2: // too many fields
		return strings.Join(append(f, g.ipOctet()), ".")
	case 3:
		return "." + strings.Join(f, ".")
	case 4:
		return strings.Join(f, ".") + "."
	case 5: // double dot
		i := r.rng(1, 3)
		return strings.Join(f[:i], ".") + ".." + strings.Join(f[i:], ".")
	case 6: // port suffix
		return strings.Join(f, ".") + ":" + itoa(r.rng(0, 65535))
	case 7: // zone
		return strings.Join(f, ".") + "%" + r.pickS("eth0", "", "1", "lo")
	case 8: // whitespace
		return r.pickS(" ", "\t", "\n", "\r\n", "\x00", "\xc2\xa0") + strings.Join(f, ".")
	case 9:
		return strings.Join(f, ".") + r.pickS(" ", "\t", "\n", "\r\n", "\x00", "/24", "/")
	case 10: // other separators
		return strings.Join(f, r.pickS(",", " ", "-", "。", ". ", " ."))
	case 11: // brackets
		return "[" + strings.Join(f, ".") + "]"
	case 12: // classful short forms and single numbers
		return r.pickS("127.1", "127.0.1", "2130706433", "0x7f000001", "017700000001", "1", "255", "0")
	default: // hostname that starts like an address
		return strings.Join(f, ".") + r.pickS(".example.com", ".in-addr.arpa", "a", ".i2p")
	}
}

func (g *G) ipHexGroup() string {
	r := g.R
	n := r.rng(1, 4)
	const lower, upper = "0123456789abcdef", "0123456789ABCDEF"
	var b []byte
	for i := 0; i < n; i++ {
		if r.coin(0.3) {
			b = append(b, upper[r.intn(16)])
		} else {
			b = append(b, lower[r.intn(16)])
		}
	}
	if r.coin(0.15) {
		return r.pickS("0", "0000", "ffff", "FFFF", "1", "00", "000")
	}
	return string(b)
}

func (g *G) ipGroups(n int) []string {
	var out []string
	for i := 0; i < n; i++ {
		out = append(out, g.ipHexGroup())
	}
	return out
}

// v6With builds an address of `total` 16-bit ipGroups of which the last two may be a dotted quad,
// with an optional "::" standing for `gap` ≥ 1 ipGroups at a random position.
func (g *G) v6With(total int, v4tail, ellipsis bool, gap int) string {
	r := g.R
	n := total
	if v4tail {
		n -= 2
	}
	if ellipsis {
		n -= gap
	}
	if n < 0 {
		n = 0
	}
	gs := g.ipGroups(n)
	if v4tail {
		gs = append(gs, g.validV4())
	}
	if !ellipsis {
		return strings.Join(gs, ":")
	}
	pos := r.intn(n + 1) // the "::" goes before group pos (never inside the dotted quad)
	left, right := strings.Join(gs[:pos], ":"), strings.Join(gs[pos:], ":")
	return left + "::" + right
}

func (g *G) validV6() string {
	r := g.R
	switch r.intn(10) {
	case 0:
		return r.pickS("::", "::1", "1::", "::ffff:1.2.3.4", "::FFFF:255.255.255.255", "::1.2.3.4", "fe80::1", "2001:db8::", "0:0:0:0:0:0:0:0",
			"0:0:0:0:0:ffff:127.0.0.1", "ffff:ffff:ffff:ffff:ffff:ffff:ffff:ffff", "1:2:3:4:5:6:7::", "::2:3:4:5:6:7:8", "1:2:3:4:5:6:1.2.3.4", "64:ff9b::192.0.2.33")
	case 1, 2:
		return g.v6With(8, false, false, 0)
	case 3:
		return g.v6With(8, true, false, 0)
	case 4:
		return "::ffff:" + g.validV4()
	case 5, 6:
		return g.v6With(8, false, true, r.rng(1, 8))
	default:
		return g.v6With(8, r.coin(0.5), true, r.rng(1, 6))
	}
}

func (g *G) invalidV6() string {
	r := g.R
	switch r.intn(20) {
	case 0: // nine ipGroups
		return g.v6With(9, false, false, 0)
	case 1: // too few ipGroups without "::"
		return g.v6With(r.rng(1, 7), false, false, 0)
	case 2: // "::" that expands to zero ipGroups
		return g.v6With(8, false, true, 0)
	case 3: // two "::"
		a, b := g.v6With(3, false, true, 1), g.v6With(3, false, true, 1)
		return a + r.pickS(":", "") + b
	case 4: // ":::"
		return strings.Replace(g.v6With(8, false, true, r.rng(1, 4)), "::", ":::", 1)
	case 5: // five hex digits / value ≥ 2^16
		gs := g.ipGroups(8)
		gs[r.intn(8)] = r.pickS("10000", "00000", "fffff", "12345", "0ffff")
		return strings.Join(gs, ":")
	case 6: // empty group, leading or trailing single colon
		s := g.v6With(8, false, false, 0)
		return r.pickS(":"+s, s+":", strings.Replace(s, ":", "::", 2))
	case 7: // non-hex letter
		gs := g.ipGroups(8)
		gs[r.intn(8)] = r.pickS("g", "xyz", "1g", "z1", "0x1", "-1", "+1", " 1", "1 ")
		return strings.Join(gs, ":")
	case 8: // zone
		return g.validV6() + "%" + r.pickS("eth0", "", "1", "lo0", "25")
	case 9: // zone without address / percent first
		return r.pickS("%eth0", "%", "%::1", "fe80%eth0::1")
	case 10: // dotted quad not at the end
		return g.validV4() + ":" + strings.Join(g.ipGroups(6), ":")
	case 11: // dotted quad at the wrong offset (no "::")
		return g.v6With(r.pick(5, 6, 7, 9), true, false, 0)
	case 12: // no room for the dotted quad
		return strings.Join(g.ipGroups(7), ":") + ":" + g.validV4()
	case 13: // malformed dotted quad inside
		return r.pickS("::", "::ffff:", "1:2:3:4:5:6:") + g.invalidV4()
	case 14: // brackets, ports
		s := g.validV6()
		return r.pickS("["+s+"]", "["+s+"]:80", s+":80", "["+s, s+"]")
	case 15: // whitespace
		s := g.validV6()
		return r.pickS(" "+s, s+" ", "\t"+s, s+"\n", s+"\x00", strings.Replace(s, ":", " :", 1))
	case 16: // CIDR and other suffixes
		return g.validV6() + r.pickS("/64", "/", "/128", ".", ":", "::")
	case 17: // dotted quad followed by more
		return "::" + g.validV4() + r.pickS(":1", ":", "::", ".1", ":80")
	case 18: // "::" then too many ipGroups
		return "::" + strings.Join(g.ipGroups(r.rng(8, 9)), ":")
	default: // hex-only host names and bare words with one colon
		return r.pickS("dead:beef", "cafe", "::g", "a:b", "abc:def:", ":", ":::", "::::", "1:", ":1", "1:2", "face:b00c")
	}
}

var netHostnames = []string{"localhost", "example.com", "a.b", "i2p-projekt.de", "abc", "deadbeef", "dead.beef", "router.i2p", "xn--nxasmq6b.com",
	"EXAMPLE.COM", "a", "f", "0", "-", ".", "..", "...", "1.2.3.4.5.6", "localhost:7654", "example.com:80", "ip6-localhost", "::ffff", "my host", "host\x00name"}

const netMutAlphabet = "0123456789abcdefABCDEFgGxz.:%[] -+/_\t\n\x00\xff"

func (g *G) mutateText(s string) string {
	r := g.R
	b := []byte(s)
	c := netMutAlphabet[r.intn(len(netMutAlphabet))]
	switch r.intn(4) {
	case 0: // insert
		i := r.intn(len(b) + 1)
		b = append(b[:i], append([]byte{c}, b[i:]...)...)
	case 1: // replace
		if len(b) > 0 {
			b[r.intn(len(b))] = c
		}
	case 2: // delete
		if len(b) > 0 {
			i := r.intn(len(b))
			b = append(b[:i], b[i+1:]...)
		}
	default: // duplicate a byte
		if len(b) > 0 {
			i := r.intn(len(b))
			b = append(b[:i+1], b[i:]...)
		}
	}
	return string(b)
}

// netHostString draws one host option value; kind names the grammar class.
func (g *G) netHostString() (s, kind string) {
	r := g.R
	switch r.intn(12) {
	case 0, 1:
		return g.validV4(), "v4"
	case 2, 3:
		return g.validV6(), "v6"
	case 4:
		return g.invalidV4(), "v4-bad"
	case 5, 6:
		return g.invalidV6(), "v6-bad"
	case 7:
		return netHostnames[r.intn(len(netHostnames))], "hostname"
	case 8:
		return g.mutateText(g.validV4()), "v4-mut"
	case 9:
		return g.mutateText(g.validV6()), "v6-mut"
	case 10:
		n := r.rng(0, 24)
		b := make([]byte, n)
		for i := range b {
			b[i] = netMutAlphabet[r.intn(len(netMutAlphabet))]
		}
		return string(b), "alphabet"
	default:
		return "", "empty"
	}
}

// ---- port strings ----------------------------------------------------------------------------------

var netPortFixed = []string{"", "0", "1", "2", "80", "443", "7654", "9999", "10000", "65534", "65535", "65536", "65537", "99999", "100000",
	"+80", "-80", "+0", "-0", "+1", "-1", "+65535", "+65536", "-65535", "+", "-", "+-1", "-+1", "++1", "--1", "+ 80", "80+", "80-",
	"0080", "00080", "0000000000000000000000080", "000000000000000065535", "000000000000000065536", "00", "000000000000000000000", "01", "+0080", "-0080",
	"9223372036854775807", "9223372036854775808", "-9223372036854775808", "-9223372036854775809", "18446744073709551615", "18446744073709551616",
	"99999999999999999999", "999999999999999999", "1000000000000000000", "4294967296", "4294967376", "2147483648", "-2147483648",
	"80a", "a80", "8 0", " 80", "80 ", "80\n", "\t80", "80\x00", "0x50", "0X50", "0b1", "0o7", "1e3", "1_000", "8_0", "８０", "٨٠", "80.0", "80.", ".80", "80,0",
	"http", "port", "ssh", "0x", "1.2.3.4", "::", "65535 ", "６５５３５"}

func (g *G) netPortString() (s, kind string) {
	r := g.R
	switch r.intn(10) {
	case 0, 1, 2:
		return itoa(r.rng(1, 65535)), "decimal"
	case 3:
		return netPortFixed[r.intn(len(netPortFixed))], "fixed"
	case 4:
		return r.pickS("+", "-") + itoa(r.rng(0, 70000)), "signed"
	case 5:
		return strings.Repeat("0", r.rng(1, 22)) + itoa(r.rng(0, 70000)), "padded"
	case 6:
		return itoa(r.rng(65536, 1<<31)) + strings.Repeat("0", r.rng(0, 12)), "overflow"
	case 7:
		return g.mutateText(itoa(r.rng(1, 65535))), "mutated"
	case 8:
		n := r.rng(0, 8)
		b := make([]byte, n)
		const al = "0123456789+- _abx."
		for i := range b {
			b[i] = al[r.intn(len(al))]
		}
		return string(b), "alphabet"
	default:
		return "", "empty"
	}
}

// ---- option maps -----------------------------------------------------------------------------------

var raDecoyKeys = []string{"hos", "hostx", "h", "ho", "host ", "Host", "HOST", "hosts", "host\x00", "ports", "por", "p", "port0", "Port",
	"s", "sx", "ss", "S", "i", "ii", "ix", "I", "caps", "cap", "caps6", "v", "vv", "ih", "ih0", "ih1", "ih2", "ih3", "ih00", "iexp0", "iexp", "itag0", "itag1", "itag3", ""}

var raSizedLens = []int{0, 15, 16, 17, 31, 32, 33}

func (g *G) optionValueFor(key string) string {
	r := g.R
	switch {
	case strings.HasPrefix(strings.ToLower(key), "ho") || key == "h":
		if r.coin(0.7) { // decoys carry *valid* literals, so a wrong match would be accepted
			if r.coin(0.5) {
				return g.validV4()
			}
			return g.validV6()
		}
		s, _ := g.netHostString()
		return s
	case strings.HasPrefix(strings.ToLower(key), "p"):
		if r.coin(0.7) {
			return itoa(r.rng(1, 65535))
		}
		s, _ := g.netPortString()
		return s
	case key == "s" || key == "sx" || key == "ss" || key == "S" || key == "i" || key == "ii" || key == "ix" || key == "I":
		return string(r.bytes(raSizedLens[r.intn(len(raSizedLens))]))
	case strings.HasPrefix(key, "cap"):
		return r.pickS("", "6", "4", "46", "B6", "BC", "64", "6 ", "PfR")
	case key == "v":
		return r.pickS("2", "", "1", "2,3")
	default:
		return string(r.bytes(r.pick(0, 1, 4, 32)))
	}
}

type optPair = [2][]byte

// optionMap draws an option list in stored order: real keys (sometimes missing), decoys before and after
// them, and — when dups is set — repeated keys with a different value.
func (g *G) optionMap(dups bool) []optPair {
	r := g.R
	var ps []optPair
	add := func(k, v string) { ps = append(ps, optPair{[]byte(k), []byte(v)}) }
	if r.coin(0.85) {
		h, _ := g.netHostString()
		add("host", h)
	}
	if r.coin(0.85) {
		p, _ := g.netPortString()
		add("port", p)
	}
	if r.coin(0.5) {
		add("s", g.optionValueFor("s"))
	}
	if r.coin(0.5) {
		add("i", g.optionValueFor("i"))
	}
	if r.coin(0.3) {
		add("caps", g.optionValueFor("caps"))
	}
	if r.coin(0.3) {
		add("v", g.optionValueFor("v"))
	}
	nd := r.rng(0, 4)
	for j := 0; j < nd; j++ {
		k := raDecoyKeys[r.intn(len(raDecoyKeys))]
		add(k, g.optionValueFor(k))
	}
	if dups && len(ps) > 0 {
		for j := r.rng(1, 2); j > 0; j-- {
			k := string(ps[r.intn(len(ps))][0])
			add(k, g.optionValueFor(k))
		}
	}
	// stored order: shuffled for the parser path (decoys land before and after the real key)
	for j := len(ps) - 1; j > 0; j-- {
		k := r.intn(j + 1)
		ps[j], ps[k] = ps[k], ps[j]
	}
	if !dups { // keep the keys distinct so that the constructor path applies
		seen := map[string]bool{}
		var out []optPair
		for _, p := range ps {
			if !seen[string(p[0])] {
				seen[string(p[0])] = true
				out = append(out, p)
			}
		}
		ps = out
	}
	return ps
}

// ---- suites ----------------------------------------------------------------------------------------

func genParseIP(g *G) {
	emit := func(s string) { g.emit("parseIP", hxs(s)) }
	g.in("ip-fixed")
	for _, s := range []string{"", "1.2.3.4", "0.0.0.0", "255.255.255.255", "256.1.1.1", "01.2.3.4", "1.2.3.04", "1.2.3.00", "0.0.0.00", "1.2.3", "1.2.3.4.5", "1..3.4",
		".1.2.3", "1.2.3.", "1.2.3.4:80", "1.2.3.4%eth0", " 1.2.3.4", "1.2.3.4 ", "1.2.3.4\n", "+1.2.3.4", "1.2.3.-4", "1.2.3.4/32", "[1.2.3.4]",
		"::", "::1", "1::", ":", ":::", "::ffff:1.2.3.4", "::ffff:1.2.3.4:80", "::1.2.3.4", "1:2:3:4:5:6:7:8", "1:2:3:4:5:6:7:8:9", "1:2:3:4:5:6:7",
		"1:2:3:4:5:6:7::", "1:2:3:4:5:6:7:8::", "::1:2:3:4:5:6:7:8", "::2:3:4:5:6:7:8", "1::8", "1::2::3", "12345::", "1:2:3:4:5:6:1.2.3.4", "1:2:3:4:5:1.2.3.4",
		"1:2:3:4:5:6:7:1.2.3.4", "1:2:3:4:5:6::1.2.3.4", "1:2:3:4:5::1.2.3.4", "::1.2.3", "::1.2.3.4.5", "::1.256.3.4", "::01.2.3.4", "::1.2.3.4:", "1.2.3.4::",
		"fe80::1%eth0", "fe80::1%", "%eth0", "%", "fe80::%25eth0", "[::1]", "[::1]:80", "::1 ", " ::1", "::g", "::G", "::F", "::f", "FFFF::ffff", "localhost", "example.com",
		"dead:beef", "deadbeef", "a", "1", "0x7f.0.0.1", "127.1", "2130706433", "１.2.3.4", "1.2.3.4\x00", "::ffff:0:0", "::ffff:0.0.0.0", "0:0:0:0:0:ffff:1.2.3.4",
		"0:0:0:0:0:fffe:1.2.3.4", "::fffe:1.2.3.4", "0::ffff:1.2.3.4", "::0:ffff:1.2.3.4", "1:2:3:4:5:6:7:", ":1:2:3:4:5:6:7", "1:2:3:4:5:6:7:8:", "1:::2"} {
		emit(s)
	}
	for _, h := range netHostnames {
		emit(h)
	}
	g.in("ip-octets") // every field value 0..300 in every position, with and without a leading zero
	for v := 0; v <= 300; v++ {
		pos := v % 4
		f := []string{"10", "20", "30", "40"}
		f[pos] = itoa(v)
		emit(strings.Join(f, "."))
		f[pos] = "0" + itoa(v)
		emit(strings.Join(f, "."))
		if v%16 == 0 {
			emit("::" + strings.Join(f, "."))
			f[pos] = itoa(v)
			emit("::ffff:" + strings.Join(f, "."))
		}
	}
	g.in("ip-ellipsis") // "::" at every position standing for every number of ipGroups, with and without a dotted quad
	for total := 7; total <= 9; total++ {
		for n := 0; n <= total; n++ {
			for pos := 0; pos <= n; pos++ {
				gs := g.ipGroups(n)
				emit(strings.Join(gs[:pos], ":") + "::" + strings.Join(gs[pos:], ":"))
				if n == total {
					emit(strings.Join(gs, ":"))
				}
				if n <= total-2 {
					l, rr := strings.Join(gs[:pos], ":"), strings.Join(append(gs[pos:n:n], "1.2.3.4"), ":")
					emit(l + "::" + rr)
				}
			}
		}
	}
	g.in("ip-grammar")
	for i := 0; i < g.n(2500, 120000); i++ {
		s, kind := g.netHostString()
		g.gen = "ip-" + kind
		emit(s)
	}
	g.in("ip-mutation-chain")
	for i := 0; i < g.n(300, 15000); i++ {
		s := g.validV6()
		if g.R.coin(0.4) {
			s = g.validV4()
		}
		for k := g.R.rng(1, 3); k > 0; k-- {
			s = g.mutateText(s)
		}
		emit(s)
	}
}

func genAtoi(g *G) {
	r := g.R
	emit := func(s string) { g.emit("atoi", hxs(s)) }
	g.in("atoi-fixed")
	for _, s := range netPortFixed {
		emit(s)
	}
	g.in("atoi-lengths") // the 18/19-character boundary between strconv's fast and slow paths
	for n := 1; n <= 22; n++ {
		for _, d := range []string{"1", "9", "0"} {
			emit(strings.Repeat(d, n))
			emit("-" + strings.Repeat(d, n))
			emit("+" + strings.Repeat(d, n))
			emit(strings.Repeat(d, n) + "x")
			emit(strings.Repeat(d, n-1) + "_" + d)
		}
	}
	g.in("atoi-int64-edge")
	for d := -3; d <= 3; d++ {
		emit(fmt.Sprintf("%d", uint64(1<<63-1)+uint64(d+3)-3))
		emit(fmt.Sprintf("-%d", uint64(1<<63)+uint64(d+3)-3))
	}
	g.in("atoi-grammar")
	for i := 0; i < g.n(1500, 60000); i++ {
		s, kind := g.netPortString()
		g.gen = "atoi-" + kind
		emit(s)
	}
	g.in("itoa")
	for _, v := range []int{-1, 0, 1, 9, 10, 11, 99, 100, 101, 999, 1000, 9999, 10000, 65534, 65535, 65536, 99999, 100000, 1<<31 - 1, 1 << 31, 1<<63 - 1} {
		g.emit("itoa", itoa(v))
	}
	step := 1
	if g.quick() {
		step = 37
	}
	for v := 0; v <= 65535; v += step {
		g.emit("itoa", itoa(v))
	}
	for i := 0; i < g.n(100, 5000); i++ {
		g.emit("itoa", itoa(int(r.next()>>uint(r.rng(1, 62)))))
	}
}

func genRouterAddrOptions(g *G) {
	r := g.R
	one := func(k, v string) optPair { return optPair{[]byte(k), []byte(v)} }
	g.in("ra-fixed")
	g.emit("raAcc", "-")
	g.emit("raAcc", assocArg([]optPair{one("host", "127.0.0.1"), one("port", "7654")}))
	g.emit("raAcc", assocArg([]optPair{one("host", "::1"), one("port", "+0080"), one("s", string(r.bytes(32))), one("i", string(r.bytes(16))), one("v", "2"), one("caps", "46")}))
	g.emit("raAcc", assocArg([]optPair{one("host", "localhost"), one("port", "http")}))
	g.emit("raAcc", assocArg([]optPair{one("caps", "6")}))
	g.emit("raAcc", assocArg([]optPair{one("caps", "4"), one("host", "example.com")}))
	g.emit("raAcc", assocArg([]optPair{one("caps", ""), one("host", "")}))
	g.emit("raAcc", assocArg([]optPair{one("ih0", string(r.bytes(32))), one("ih1", "b"), one("ih2", "c"), one("ih3", "d"), one("iexp0", "1"), one("iexp2", "2"), one("itag0", "7"), one("itag1", "8")}))
	// M47-style decoys: only near-miss keys are present, each with a perfectly valid value
	g.emit("raAcc", assocArg([]optPair{one("hos", "1.2.3.4"), one("hostx", "::1"), one("por", "80"), one("ports", "81"), one("sx", string(r.bytes(32))), one("ii", string(r.bytes(16)))}))
	g.emit("raAcc", assocArg([]optPair{one("hos", "1.2.3.4"), one("host", "example.com"), one("hostx", "::1"), one("por", "80"), one("port", "0"), one("ports", "81")}))
	g.emit("raAcc", assocArg([]optPair{one("hostx", "1.2.3.4"), one("host", "::2"), one("hos", "::1"), one("ports", "80"), one("port", "82"), one("por", "81")}))
	g.emit("raAcc", assocArg([]optPair{one("host", "1.2.3.4"), one("host", "example.com")}))
	g.emit("raAcc", assocArg([]optPair{one("host", "example.com"), one("host", "1.2.3.4")}))
	g.emit("raAcc", assocArg([]optPair{one("", "1.2.3.4"), one("host", "")}))
	g.in("ra-host-x-port") // every corner host with every corner port
	hosts := []string{"1.2.3.4", "::ffff:1.2.3.4", "2001:db8::1", "fe80::1%eth0", "1.2.3.4:80", " 1.2.3.4", "localhost", "01.2.3.4", "", "::", "[::1]", "deadbeef"}
	ports := []string{"80", "+80", "0080", "0", "65535", "65536", "-1", "", " 80", "80a", "9223372036854775808", "+"}
	for _, h := range hosts {
		for _, p := range ports {
			g.emit("raAcc", assocArg([]optPair{one("host", h), one("port", p)}))
		}
	}
	g.in("ra-sized") // "s" and "i" of every interesting length
	for _, n := range []int{0, 1, 15, 16, 17, 31, 32, 33, 64, 255} {
		g.emit("raAcc", assocArg([]optPair{one("s", string(r.bytes(n)))}))
		g.emit("raAcc", assocArg([]optPair{one("i", string(r.bytes(n)))}))
		g.emit("raAcc", assocArg([]optPair{one("sx", string(r.bytes(32))), one("s", string(r.bytes(n))), one("ii", string(r.bytes(16))), one("i", string(r.bytes(n)))}))
	}
	g.emit("raAcc", assocArg([]optPair{one("s", strings.Repeat("=", 32)), one("i", strings.Repeat(";", 16))}))
	g.in("ra-maps")
	for i := 0; i < g.n(2200, 40000); i++ {
		g.emit("raAcc", assocArg(g.optionMap(false)))
	}
	g.in("ra-maps-dup")
	for i := 0; i < g.n(500, 10000); i++ {
		g.emit("raAcc", assocArg(g.optionMap(true)))
	}
	g.in("ra-get")
	for i := 0; i < g.n(600, 10000); i++ {
		ps := g.optionMap(r.coin(0.2))
		var key string
		switch r.intn(6) {
		case 0:
			key = raDecoyKeys[r.intn(len(raDecoyKeys))]
		case 1, 2:
			if len(ps) > 0 {
				key = string(ps[r.intn(len(ps))][0])
				switch r.intn(4) {
				case 0:
					if len(key) > 0 {
						key = key[:len(key)-1]
					}
				case 1:
					key += r.pickS("x", "\x00", " ", "0")
				case 2:
					if len(key) > 0 {
						key = key[1:]
					}
				}
			}
		case 3:
			key = r.pickS("host", "port", "s", "i", "caps", "v")
		case 4:
			key = string(r.bytes(r.pick(0, 1, 2, 254, 255, 256, 300)))
		default:
			key = strings.Repeat("k", r.pick(255, 256))
		}
		g.emit("raGet", assocArg(ps), hxs(key))
	}
	// a 255-byte key that is stored, asked for exactly and as a 254-byte prefix
	long := strings.Repeat("k", 255)
	g.emit("raGet", assocArg([]optPair{one(long, "v")}), hxs(long))
	g.emit("raGet", assocArg([]optPair{one(long, "v")}), hxs(long[:254]))
	g.emit("raGet", assocArg([]optPair{one(long[:254], "v")}), hxs(long))
	g.in("ra-wire") // accessors on whatever the mapping parser stores for damaged or unusual bodies
	for _, s := range []string{"-", "00", "0000", "0001", "000501613d003b", "000d04686f73743d03613a623b", "000c04686f73743d03613a62"} {
		g.emit("raWire", s)
	}
	for i := 0; i < g.n(700, 15000); i++ {
		var b []byte
		if r.coin(0.75) {
			b = encMapping(g.optionMap(r.coin(0.3)))
			g.gen = "ra-wire-options"
		} else {
			b, _ = g.genMappingBytes()
			g.gen = "ra-wire-shapes"
		}
		switch r.intn(8) {
		case 0:
			if len(b) > 2 {
				b = append([]byte{}, b...)
				b[r.intn(len(b))] ^= byte(1 << uint(r.intn(8)))
				g.gen += "+flip"
			}
		case 1:
			if len(b) > 2 {
				b = b[:r.intn(len(b))]
				g.gen += "+cut"
			}
		case 2:
			b = cat(b, r.bytes(r.rng(1, 9)))
			g.gen += "+trail"
		}
		g.emit("raWire", hx(b))
	}
}

func init() {
	suites["C17"] = func(g *G) { genParseIP(g); genAtoi(g); genRouterAddrOptions(g) }
}
