package main

import (
	"bytes"
	"crypto"
	"crypto/ecdsa"
	"crypto/ed25519"
	"crypto/elliptic"
	"crypto/sha256"
	"crypto/sha512"
	"fmt"
	"math/big"

	"github.com/go-i2p/common/destination"
	"github.com/go-i2p/common/encrypted_leaseset"
	"github.com/go-i2p/common/lease"
	"github.com/go-i2p/common/lease_set"
	"github.com/go-i2p/common/lease_set2"
	"github.com/go-i2p/common/meta_leaseset"
	"github.com/go-i2p/common/offline_signature"
	"github.com/go-i2p/common/router_address"
	"github.com/go-i2p/common/router_info"
	"github.com/go-i2p/common/session_key"
	"github.com/go-i2p/common/session_tag"
	"github.com/go-i2p/common/signature"
	i2pdsa "github.com/go-i2p/crypto/dsa"
)

// indepVerify checks a signature of I2P type t with code that is independent of /repo
// (standard library; DSA-SHA1 through go-i2p/crypto, which is outside the code under test).
// known=false when the type cannot be verified here.
func indepVerify(t int, key, msg, sig []byte) (ok bool, known bool) {
	switch t {
	case 7, 11:
		if len(key) != 32 || len(sig) != 64 {
			return false, true
		}
		return ed25519.Verify(ed25519.PublicKey(key), msg, sig), true
	case 8:
		if len(key) != 32 || len(sig) != 64 {
			return false, true
		}
		return ed25519.VerifyWithOptions(ed25519.PublicKey(key), msg, sig, &ed25519.Options{Hash: crypto.SHA512}) == nil, true
	case 1, 2:
		n, curve := 32, elliptic.P256()
		var digest []byte
		if t == 1 {
			h := sha256.Sum256(msg)
			digest = h[:]
		} else {
			n, curve = 48, elliptic.P384()
			h := sha512.Sum384(msg)
			digest = h[:]
		}
		if len(key) != 2*n || len(sig) != 2*n {
			return false, true
		}
		x, y := new(big.Int).SetBytes(key[:n]), new(big.Int).SetBytes(key[n:])
		if !curve.IsOnCurve(x, y) {
			return false, true
		}
		pub := &ecdsa.PublicKey{Curve: curve, X: x, Y: y}
		return ecdsa.Verify(pub, digest, new(big.Int).SetBytes(sig[:n]), new(big.Int).SetBytes(sig[n:])), true
	case 0:
		if len(key) != 128 || len(sig) != 40 {
			return false, true
		}
		k, err := i2pdsa.NewDSAPublicKey(key)
		if err != nil {
			return false, true
		}
		v, err := k.NewVerifier()
		if err != nil {
			return false, true
		}
		return v.Verify(msg, sig) == nil, true
	}
	return false, false
}

// offlineOK: the offline block (expires ‖ transient type ‖ transient key) is signed by the identity key.
func offlineOK(idType int, idKey []byte, o *offline_signature.OfflineSignature) (bool, bool) {
	msg := cat(u32(o.Expires()), u16(int(o.TransientSigType())), o.TransientPublicKey())
	return indepVerify(idType, idKey, msg, o.Signature())
}

// verifyFails evaluates C05 for one parsed signed structure: the library reports success ⇒ the
// independent check over the RAW consumed bytes succeeds under the identity's own key (and, with an
// offline block, the transient key was itself signed by the identity's key).
func verifyFails(name string, libOK bool, prefix []byte, consumed []byte, sigLen int, idType int, idKey []byte, off *offline_signature.OfflineSignature) []Fail {
	offTag := "plain"
	if off != nil {
		offTag = "offline"
	}
	if !libOK {
		count("verify-fail:" + name + ":" + offTag)
		return nil
	}
	count("verify-ok:" + name + ":" + offTag)
	if sigLen > len(consumed) {
		return []Fail{fail("C05", "verify-shape:"+name, "%s verified although the signature is longer than the structure", name)}
	}
	body := consumed[:len(consumed)-sigLen]
	sig := consumed[len(consumed)-sigLen:]
	msg := cat(prefix, body)
	if off != nil {
		ok1, known1 := indepVerify(int(off.TransientSigType()), off.TransientPublicKey(), msg, sig)
		ok2, known2 := offlineOK(idType, idKey, off)
		if known2 && !ok2 {
			return []Fail{fail("C05", "offline-unauthorised:"+name, "%s verifies with a transient key that the identity's key (type %d) did not sign", name, idType)}
		}
		if known1 && !ok1 {
			return []Fail{fail("C05", "verify-mismatch:"+name, "%s verifies but the signature is not valid under the transient key over prefix‖received bytes", name)}
		}
		if !known1 || !known2 {
			return []Fail{fail("C05", "verify-unknown-type:"+name, "%s verifies with a signature type the independent check does not know (%d/%d)", name, idType, off.TransientSigType())}
		}
		return nil
	}
	ok, known := indepVerify(idType, idKey, msg, sig)
	if !known {
		return []Fail{fail("C05", "verify-unknown-type:"+name, "%s verifies with signature type %d, which the independent check does not know", name, idType)}
	}
	if !ok {
		return []Fail{fail("C05", "verify-mismatch:"+name, "%s verifies but the signature (type %d) is not valid under the identity's key over prefix‖received bytes", name, idType)}
	}
	return nil
}

func destKey(d destination.Destination) (int, []byte, bool) {
	if d.KeysAndCert == nil || d.KeyCertificate == nil {
		return 0, nil, false
	}
	k, err := d.SigningPublicKey()
	if err != nil || k == nil {
		return 0, nil, false
	}
	return d.KeyCertificate.SigningPublicKeyType(), k.Bytes(), true
}

func destPolicyFails(name string, d destination.Destination) []Fail {
	if d.KeysAndCert == nil || d.KeyCertificate == nil {
		return nil
	}
	s, c := d.KeyCertificate.SigningPublicKeyType(), d.KeyCertificate.PublicKeyType()
	if !destAllowedSpec(s, c) {
		return []Fail{fail("C09", "policy:"+name, "%s hands out a Destination with prohibited types (signing %d, crypto %d)", name, s, c)}
	}
	return nil
}

// verifyOKNoPanic runs a verification of a value that was returned together with an error; a panic is the C20
// violation "method panics on a failed-parse value" (it must not take the whole operation down with it).
func verifyOKNoPanic(typ string, f func() bool, fails *[]Fail) (ok bool) {
	defer func() {
		if r := recover(); r != nil {
			*fails = append(*fails, fail("C20", "method-panic:"+typ+".Verify", "%s: verification of the value returned with an error panics: %v", typ, r))
			ok = false
		}
	}()
	return f()
}

// scribble runs obs() before and after complementing every byte of buf.
func scribble(name string, buf []byte, obs func() string) []Fail {
	before := obs()
	for i := range buf {
		buf[i] ^= 0xff
	}
	after := obs()
	for i := range buf {
		buf[i] ^= 0xff
	}
	if before != after {
		return []Fail{fail("C08", "alias:"+name, "%s: value changed after the input buffer was overwritten (fields: %s)", name, diffFields(before, after))}
	}
	return nil
}

func okLine(res parseRes, noRem bool) string {
	if !res.ok {
		return "err"
	}
	if !res.serOK {
		return fmt.Sprintf("ok rem=%d bytes=err", len(res.rem))
	}
	if noRem {
		return "ok bytes=" + hx(res.ser)
	}
	return fmt.Sprintf("ok rem=%d bytes=%s", len(res.rem), hx(res.ser))
}

func init() {
	reg("readSig", func(a []string) (string, []Fail) {
		w, t := unhx(a[0]), atoi(a[1])
		p := func(w []byte) parseRes {
			s, rem, err := signature.ReadSignature(w, t)
			if err != nil {
				return parseRes{rem: rem}
			}
			return parseRes{ok: true, rem: rem, ser: s.Bytes(), serOK: true, obs: itoa(s.Type())}
		}
		res := p(w)
		fails := checkFraming("ReadSignature", p, w, res, len(w) <= 80)
		s, rem, err := signature.ReadSignature(w, t)
		// twins: NewSignature (pointer) and NewSignatureFromBytes (exact length)
		s2, rem2, err2 := signature.NewSignature(w, t)
		if (err == nil) != (err2 == nil) || (err == nil && (!bytes.Equal(s.Bytes(), s2.Bytes()) || !bytes.Equal(rem, rem2))) {
			fails = append(fails, fail("C19", "twin:ReadSignature/NewSignature", "differ for type %d on %d bytes", t, len(w)))
		}
		if n, serr := signature.SignatureSize(t); serr == nil {
			s3, err3 := signature.NewSignatureFromBytes(w, t)
			if (err3 == nil) != (len(w) == n) {
				fails = append(fails, fail("C19", "twin:ReadSignature/NewSignatureFromBytes", "NewSignatureFromBytes(type %d) on %d bytes (size %d): err=%v", t, len(w), n, err3))
			} else if err3 == nil && (err != nil || !bytes.Equal(s3.Bytes(), s.Bytes())) {
				fails = append(fails, fail("C19", "twin:ReadSignature/NewSignatureFromBytes", "values differ for type %d", t))
			}
			if err3 == nil {
				if verr := s3.Validate(); verr != nil {
					fails = append(fails, fail("C14", "ctor-validate:Signature", "NewSignatureFromBytes succeeded but Validate fails: %v", verr))
				}
			}
		}
		if err == nil {
			fails = append(fails, methodFails("C04", "Signature", &s)...)
			buf := append([]byte{}, w...)
			sb, _, _ := signature.ReadSignature(buf, t)
			fails = append(fails, scribble("ReadSignature", buf, func() string { return hx(sb.Bytes()) })...)
			// documented copies: Bytes()/Serialize() results may be overwritten
			out := sb.Bytes()
			ref := hx(out)
			for i := range out {
				out[i] ^= 0xff
			}
			if hx(sb.Bytes()) != ref {
				fails = append(fails, fail("C08", "accessor-alias:Signature.Bytes", "overwriting the slice returned by Signature.Bytes() changed the signature"))
			}
		} else {
			fails = append(fails, methodFails("C20", "Signature", &s)...)
		}
		return okLine(res, false), fails
	})
	reg("readOffSig", func(a []string) (string, []Fail) {
		w, t := unhx(a[0]), atoi(a[1])
		p := func(w []byte) parseRes {
			o, rem, err := offline_signature.ReadOfflineSignature(w, uint16(t))
			if err != nil {
				return parseRes{rem: rem}
			}
			return parseRes{ok: true, rem: rem, ser: o.Bytes(), serOK: true, obs: fmt.Sprintf("%d/%d/%d", o.Expires(), o.TransientSigType(), o.DestinationSigType())}
		}
		res := p(w)
		fails := checkFraming("ReadOfflineSignature", p, w, res, len(w) <= 120)
		o, _, err := offline_signature.ReadOfflineSignature(w, uint16(t))
		if err == nil {
			fails = append(fails, methodFails("C04", "OfflineSignature", &o)...)
			// exported methods with a byte-slice argument must return normally for every argument length
			for _, n := range []int{0, 1, 31, 32, 33, 64, 128} {
				func() {
					defer func() {
						if r := recover(); r != nil {
							fails = append(fails, fail("C04", "method-panic:OfflineSignature.VerifySignature", "VerifySignature with a %d-byte key on an accepted offline signature (destination type %d) panicked: %v", n, t, r))
						}
					}()
					ov, _, _ := offline_signature.ReadOfflineSignature(w, uint16(t))
					ov.VerifySignature(make([]byte, n))
				}()
			}
			buf := append([]byte{}, w...)
			ob, _, _ := offline_signature.ReadOfflineSignature(buf, uint16(t))
			fails = append(fails, scribble("ReadOfflineSignature", buf, func() string {
				return hx(ob.Bytes()) + hx(ob.TransientPublicKey()) + hx(ob.Signature())
			})...)
			for name, get := range map[string]func() []byte{"TransientPublicKey": ob.TransientPublicKey, "Signature": ob.Signature} {
				out := get()
				ref := hx(ob.Bytes())
				for i := range out {
					out[i] ^= 0xff
				}
				if hx(ob.Bytes()) != ref {
					fails = append(fails, fail("C08", "accessor-alias:OfflineSignature."+name, "overwriting the slice returned by %s() changed the value", name))
				}
			}
			return fmt.Sprintf("ok rem=%d ttype=%d bytes=%s", len(res.rem), o.TransientSigType(), hx(res.ser)), fails
		}
		fails = append(fails, methodFails("C20", "OfflineSignature", &o)...)
		return "err", fails
	})
	reg("readLease", func(a []string) (string, []Fail) {
		w := unhx(a[0])
		p := func(w []byte) parseRes {
			l, rem, err := lease.ReadLease(w)
			if err != nil {
				return parseRes{rem: rem}
			}
			return parseRes{ok: true, rem: rem, ser: l.Bytes(), serOK: true}
		}
		res := p(w)
		fails := checkFraming("ReadLease", p, w, res, len(w) <= 60)
		l, rem, err := lease.ReadLease(w)
		l2, rem2, err2 := lease.NewLeaseFromBytes(w)
		if (err == nil) != (err2 == nil) || (err == nil && (!l.Equal(*l2) || !bytes.Equal(rem, rem2))) {
			fails = append(fails, fail("C19", "twin:ReadLease/NewLeaseFromBytes", "differ on %d bytes", len(w)))
		}
		if err == nil {
			fails = append(fails, methodFails("C04", "Lease", &l)...)
			buf := append([]byte{}, w...)
			lb, _, _ := lease.ReadLease(buf)
			fails = append(fails, scribble("ReadLease", buf, func() string { return hx(lb.Bytes()) })...)
		}
		return okLine(res, false), fails
	})
	reg("readLease2", func(a []string) (string, []Fail) {
		w := unhx(a[0])
		p := func(w []byte) parseRes {
			l, rem, err := lease.ReadLease2(w)
			if err != nil {
				return parseRes{rem: rem}
			}
			return parseRes{ok: true, rem: rem, ser: l.Bytes(), serOK: true}
		}
		res := p(w)
		fails := checkFraming("ReadLease2", p, w, res, len(w) <= 60)
		l, rem, err := lease.ReadLease2(w)
		l2, rem2, err2 := lease.NewLease2FromBytes(w)
		if (err == nil) != (err2 == nil) || (err == nil && (!l.Equal(*l2) || !bytes.Equal(rem, rem2))) {
			fails = append(fails, fail("C19", "twin:ReadLease2/NewLease2FromBytes", "differ on %d bytes", len(w)))
		}
		if err == nil {
			fails = append(fails, methodFails("C04", "Lease2", &l)...)
			buf := append([]byte{}, w...)
			lb, _, _ := lease.ReadLease2(buf)
			fails = append(fails, scribble("ReadLease2", buf, func() string { return hx(lb.Bytes()) })...)
		}
		return okLine(res, false), fails
	})
	reg("readLS2", func(a []string) (string, []Fail) {
		w := unhx(a[0])
		p := func(w []byte) parseRes {
			v, rem, err := lease_set2.ReadLeaseSet2(w)
			if err != nil {
				return parseRes{rem: rem}
			}
			b, berr := v.Bytes()
			return parseRes{ok: true, rem: rem, ser: b, serOK: berr == nil, obs: fmt.Sprintf("%d/%d/%d/%d/%d", v.Published(), v.Expires(), v.Flags(), v.EncryptionKeyCount(), v.LeaseCount())}
		}
		res := p(w)
		fails := checkFraming("ReadLeaseSet2", p, w, res, false)
		v, rem, err := lease_set2.ReadLeaseSet2(w)
		if err != nil {
			fails = append(fails, methodFails("C20", "LeaseSet2", &v)...)
			fails = append(fails, destPolicyFails("ReadLeaseSet2 (value returned with an error)", v.Destination())...)
			if verifyOKNoPanic("LeaseSet2", func() bool { return v.Verify() == nil }, &fails) {
				fails = append(fails, fail("C20", "verify-on-failed-parse:LeaseSet2", "Verify() succeeds on the value returned with an error"))
			}
			return "err", fails
		}
		fails = append(fails, methodFails("C04", "LeaseSet2", &v)...)
		fails = append(fails, destPolicyFails("ReadLeaseSet2", v.Destination())...)
		// C08: identity, key, lease and signature parts (the options mapping is out of scope)
		buf := append([]byte{}, w...)
		vb, _, _ := lease_set2.ReadLeaseSet2(buf)
		fails = append(fails, scribble("ReadLeaseSet2", buf, func() string {
			db, _ := vb.Destination().Bytes()
			s := hx(db) + " sig=" + hx(vb.Signature().Bytes())
			for _, k := range vb.EncryptionKeys() {
				s += " key=" + hx(k.KeyData)
			}
			for _, l := range vb.Leases() {
				s += " lease=" + hx(l.Bytes())
			}
			if o := vb.OfflineSignature(); o != nil {
				s += " off=" + hx(o.Bytes())
			}
			return s
		})...)
		// C05
		if t, k, ok := destKey(v.Destination()); ok {
			var off *offline_signature.OfflineSignature
			if v.HasOfflineKeys() {
				off = v.OfflineSignature()
			}
			fails = append(fails, verifyFails("LeaseSet2", v.Verify() == nil, []byte{3}, w[:len(w)-len(rem)], v.Signature().Len(), t, k, off)...)
		}
		return okLine(res, false), fails
	})
	reg("readMeta", func(a []string) (string, []Fail) {
		w := unhx(a[0])
		p := func(w []byte) parseRes {
			v, rem, err := meta_leaseset.ReadMetaLeaseSet(w)
			if err != nil {
				return parseRes{rem: rem}
			}
			b, berr := v.Bytes()
			return parseRes{ok: true, rem: rem, ser: b, serOK: berr == nil, obs: fmt.Sprintf("%d/%d/%d/%d", v.Published(), v.Expires(), v.Flags(), v.NumEntries())}
		}
		res := p(w)
		fails := checkFraming("ReadMetaLeaseSet", p, w, res, false)
		v, rem, err := meta_leaseset.ReadMetaLeaseSet(w)
		if err != nil {
			fails = append(fails, methodFails("C20", "MetaLeaseSet", &v)...)
			fails = append(fails, destPolicyFails("ReadMetaLeaseSet (value returned with an error)", v.Destination())...)
			if verifyOKNoPanic("MetaLeaseSet", func() bool { return v.Verify() == nil }, &fails) {
				fails = append(fails, fail("C20", "verify-on-failed-parse:MetaLeaseSet", "Verify() succeeds on the value returned with an error"))
			}
			return "err", fails
		}
		fails = append(fails, methodFails("C04", "MetaLeaseSet", &v)...)
		fails = append(fails, destPolicyFails("ReadMetaLeaseSet", v.Destination())...)
		buf := append([]byte{}, w...)
		vb, _, _ := meta_leaseset.ReadMetaLeaseSet(buf)
		fails = append(fails, scribble("ReadMetaLeaseSet", buf, func() string {
			db, _ := vb.Destination().Bytes()
			s := hx(db) + " sig=" + hx(vb.Signature().Bytes())
			for _, e := range vb.Entries() {
				h := e.Hash()
				s += fmt.Sprintf(" entry=%s/%d/%d/%d", hx(h[:]), e.Type(), e.Expires(), e.Cost())
			}
			if o := vb.OfflineSignature(); o != nil {
				s += " off=" + hx(o.Bytes())
			}
			return s
		})...)
		// SortEntriesByCost is documented to return a fresh slice
		es := vb.SortEntriesByCost()
		if len(es) > 1 {
			b0, _ := vb.Bytes()
			es[0], es[len(es)-1] = es[len(es)-1], es[0]
			b1, _ := vb.Bytes()
			if !bytes.Equal(b0, b1) {
				fails = append(fails, fail("C08", "accessor-alias:MetaLeaseSet.SortEntriesByCost", "permuting the returned slice changed the value"))
			}
		}
		if t, k, ok := destKey(v.Destination()); ok {
			var off *offline_signature.OfflineSignature
			if v.HasOfflineKeys() {
				off = v.OfflineSignature()
			}
			fails = append(fails, verifyFails("MetaLeaseSet", v.Verify() == nil, []byte{7}, w[:len(w)-len(rem)], v.Signature().Len(), t, k, off)...)
		}
		return okLine(res, false), fails
	})
	reg("readELS", func(a []string) (string, []Fail) {
		w := unhx(a[0])
		p := func(w []byte) parseRes {
			v, rem, err := encrypted_leaseset.ReadEncryptedLeaseSet(w)
			if err != nil {
				return parseRes{rem: rem}
			}
			b, berr := v.Bytes()
			return parseRes{ok: true, rem: rem, ser: b, serOK: berr == nil, obs: fmt.Sprintf("%d/%d/%d/%d/%d", v.SigType(), v.Published(), v.Expires(), v.Flags(), v.InnerLength())}
		}
		res := p(w)
		fails := checkFraming("ReadEncryptedLeaseSet", p, w, res, false)
		v, rem, err := encrypted_leaseset.ReadEncryptedLeaseSet(w)
		if err != nil {
			fails = append(fails, methodFails("C20", "EncryptedLeaseSet", &v)...)
			if verifyOKNoPanic("EncryptedLeaseSet", func() bool { return v.Verify() == nil }, &fails) {
				fails = append(fails, fail("C20", "verify-on-failed-parse:EncryptedLeaseSet", "Verify() succeeds on the value returned with an error"))
			}
			return "err", fails
		}
		fails = append(fails, methodFails("C04", "EncryptedLeaseSet", &v)...)
		if verr := v.Validate(); verr != nil {
			fails = append(fails, fail("C14", "parse-validate:EncryptedLeaseSet", "accepted by the parser but Validate fails: %v", verr))
		}
		buf := append([]byte{}, w...)
		vb, _, _ := encrypted_leaseset.ReadEncryptedLeaseSet(buf)
		fails = append(fails, scribble("ReadEncryptedLeaseSet", buf, func() string {
			b, _ := vb.Bytes()
			return hx(b) + " key=" + hx(vb.BlindedPublicKey()) + " inner=" + hx(vb.EncryptedInnerData())
		})...)
		for name, get := range map[string]func() []byte{"BlindedPublicKey": vb.BlindedPublicKey, "EncryptedInnerData": vb.EncryptedInnerData} {
			out := get()
			b0, _ := vb.Bytes()
			for i := range out {
				out[i] ^= 0xff
			}
			b1, _ := vb.Bytes()
			if !bytes.Equal(b0, b1) {
				fails = append(fails, fail("C08", "accessor-alias:EncryptedLeaseSet."+name, "overwriting the slice returned by %s() changed the value", name))
			}
		}
		var off *offline_signature.OfflineSignature
		if v.HasOfflineKeys() {
			off = v.OfflineSignature()
		}
		fails = append(fails, verifyFails("EncryptedLeaseSet", v.Verify() == nil, []byte{5}, w[:len(w)-len(rem)], v.Signature().Len(), int(v.SigType()), v.BlindedPublicKey(), off)...)
		return okLine(res, false), fails
	})
	reg("readLS", func(a []string) (string, []Fail) {
		w := unhx(a[0])
		v, err := lease_set.ReadLeaseSet(w)
		if err != nil {
			fails := methodFails("C20", "LeaseSet", &v)
			fails = append(fails, destPolicyFails("ReadLeaseSet (value returned with an error)", v.Destination())...)
			if verifyOKNoPanic("LeaseSet", func() bool { return v.Verify() == nil }, &fails) {
				fails = append(fails, fail("C20", "verify-on-failed-parse:LeaseSet", "Verify() succeeds on the value returned with an error"))
			}
			return "err", fails
		}
		var fails []Fail
		b, berr := v.Bytes()
		// ReadLeaseSet returns no remainder: the consumed extent is the length of the re-serialisation
		if berr != nil {
			fails = append(fails, fail("C01", "ser-error:ReadLeaseSet", "accepted but Bytes() fails: %v", berr))
			return "ok bytes=err", fails
		}
		if len(b) > len(w) || !bytes.Equal(b, w[:len(b)]) {
			fails = append(fails, fail("C01", "reser:ReadLeaseSet", "re-serialisation is not a prefix of the input"))
		}
		fails = append(fails, methodFails("C04", "LeaseSet", &v)...)
		fails = append(fails, destPolicyFails("ReadLeaseSet", v.Destination())...)
		// twin: ReadDestinationFromLeaseSet vs ReadDestination on the same bytes
		d1, _, e1 := lease_set.ReadDestinationFromLeaseSet(w)
		d2, _, e2 := destination.ReadDestination(w)
		if (e1 == nil) != (e2 == nil) {
			fails = append(fails, fail("C19", "twin:ReadDestinationFromLeaseSet/ReadDestination", "acceptance differs (%v vs %v)", e1, e2))
		} else if e1 == nil {
			b1, _ := d1.Bytes()
			b2, _ := d2.Bytes()
			if !bytes.Equal(b1, b2) {
				fails = append(fails, fail("C19", "twin:ReadDestinationFromLeaseSet/ReadDestination", "serialisations differ"))
			}
		}
		buf := append([]byte{}, w...)
		vb, _ := lease_set.ReadLeaseSet(buf)
		fails = append(fails, scribble("ReadLeaseSet", buf, func() string { x, _ := vb.Bytes(); return hx(x) })...)
		if t, k, ok := destKey(v.Destination()); ok && len(b) <= len(w) {
			fails = append(fails, verifyFails("LeaseSet", v.Verify() == nil, nil, w[:len(b)], v.Signature().Len(), t, k, nil)...)
		}
		return "ok bytes=" + hx(b), fails
	})
	reg("readRA", func(a []string) (string, []Fail) {
		w := unhx(a[0])
		p := func(w []byte) parseRes {
			v, rem, err := router_address.ReadRouterAddress(w)
			if err != nil {
				return parseRes{rem: rem}
			}
			return parseRes{ok: true, rem: rem, ser: v.Bytes(), serOK: true, obs: fmt.Sprintf("%d/%s", v.Cost(), hx(v.TransportStyle()))}
		}
		res := p(w)
		fails := checkFraming("ReadRouterAddress", p, w, res, len(w) <= 80)
		v, _, err := router_address.ReadRouterAddress(w)
		if err != nil {
			fails = append(fails, methodFails("C20", "RouterAddress", &v)...)
			return "err", fails
		}
		fails = append(fails, methodFails("C04", "RouterAddress", &v)...)
		return okLine(res, false), fails
	})
	reg("readRI", func(a []string) (string, []Fail) {
		w := unhx(a[0])
		p := func(w []byte) parseRes {
			v, rem, err := router_info.ReadRouterInfo(w)
			if err != nil {
				return parseRes{rem: rem}
			}
			b, berr := v.Bytes()
			return parseRes{ok: true, rem: rem, ser: b, serOK: berr == nil, obs: fmt.Sprintf("%d/%d", v.RouterAddressCount(), v.PeerSize())}
		}
		res := p(w)
		fails := checkFraming("ReadRouterInfo", p, w, res, false)
		v, rem, err := router_info.ReadRouterInfo(w)
		if err != nil {
			fails = append(fails, methodFails("C20", "RouterInfo", &v)...)
			if ri := v.RouterIdentity(); ri != nil && ri.KeysAndCert != nil && ri.KeyCertificate != nil {
				if s, c := ri.KeyCertificate.SigningPublicKeyType(), ri.KeyCertificate.PublicKeyType(); !ridAllowedSpec(s, c) {
					fails = append(fails, fail("C09", "policy:ReadRouterInfo (value returned with an error)", "the RouterInfo returned with an error hands out a RouterIdentity with prohibited types (%d,%d)", s, c))
				}
			}
			if verifyOKNoPanic("RouterInfo", func() bool { ok, _ := v.VerifySignature(); return ok }, &fails) {
				fails = append(fails, fail("C20", "verify-on-failed-parse:RouterInfo", "VerifySignature() succeeds on the value returned with an error"))
			}
			return "err", fails
		}
		fails = append(fails, methodFails("C04", "RouterInfo", &v)...)
		if ri := v.RouterIdentity(); ri != nil && ri.KeyCertificate != nil {
			s, c := ri.KeyCertificate.SigningPublicKeyType(), ri.KeyCertificate.PublicKeyType()
			if !ridAllowedSpec(s, c) {
				fails = append(fails, fail("C09", "policy:ReadRouterInfo", "RouterInfo hands out a RouterIdentity with prohibited types (%d,%d)", s, c))
			}
			// C07: IdentHash = SHA-256 of the identity's wire bytes
			ib, _ := ri.Bytes()
			h, herr := v.IdentHash()
			if herr != nil || len(ib) > len(w) || h != sha256.Sum256(w[:len(ib)]) {
				fails = append(fails, fail("C07", "identhash", "IdentHash() is not SHA-256 of the identity's wire bytes"))
			}
			// C05
			if k, kerr := ri.SigningPublicKey(); kerr == nil && k != nil {
				ok, _ := v.VerifySignature()
				fails = append(fails, verifyFails("RouterInfo", ok, nil, w[:len(w)-len(rem)], v.Signature().Len(), s, k.Bytes(), nil)...)
			}
		}
		return okLine(res, false), fails
	})
	// fixed-size primitives
	reg("!readSessionKey", func(a []string) (string, []Fail) {
		w := unhx(a[0])
		p := func(w []byte) parseRes {
			v, rem, err := session_key.ReadSessionKey(w)
			return parseRes{ok: err == nil, rem: rem, ser: v.Bytes(), serOK: true}
		}
		res := p(w)
		fails := checkFraming("ReadSessionKey", p, w, res, true)
		v, rem, err := session_key.ReadSessionKey(w)
		v2, rem2, err2 := session_key.NewSessionKey(w)
		if (err == nil) != (err2 == nil) || (err == nil && (!bytes.Equal(v.Bytes(), v2.Bytes()) || !bytes.Equal(rem, rem2))) {
			fails = append(fails, fail("C19", "twin:ReadSessionKey/NewSessionKey", "differ on %d bytes", len(w)))
		}
		if err == nil {
			// the array constructor, the setter and the comparisons are further routes to the same value
			var arr [32]byte
			copy(arr[:], w[:32])
			v3 := session_key.NewSessionKeyFromArray(arr)
			var v4 session_key.SessionKey
			serr := v4.SetBytes(w[:32])
			if !bytes.Equal(v3.Bytes(), v.Bytes()) || serr != nil || !bytes.Equal(v4.Bytes(), v.Bytes()) || !v.Equal(v3) || !v3.Equal(v4) {
				fails = append(fails, fail("C19", "twin:ReadSessionKey/FromArray/SetBytes", "the array constructor or SetBytes yields a different key"))
			}
			arr[31] ^= 1
			if v.Equal(session_key.NewSessionKeyFromArray(arr)) {
				fails = append(fails, fail("C19", "twin:ReadSessionKey/FromArray/SetBytes", "Equal ignores the last byte"))
			}
			if v4.SetBytes(w[:31]) == nil || (len(w) > 32 && v4.SetBytes(w[:33]) == nil) {
				fails = append(fails, fail("C19", "twin:ReadSessionKey/FromArray/SetBytes", "SetBytes accepts a length ReadSessionKey/NewSessionKey would not produce"))
			}
		}
		return okLine(res, false), fails
	})
	reg("!readSessionTag", func(a []string) (string, []Fail) {
		w := unhx(a[0])
		p := func(w []byte) parseRes {
			v, rem, err := session_tag.ReadSessionTag(w)
			return parseRes{ok: err == nil, rem: rem, ser: v.Bytes(), serOK: true}
		}
		res := p(w)
		fails := checkFraming("ReadSessionTag", p, w, res, true)
		v, rem, err := session_tag.ReadSessionTag(w)
		v2, rem2, err2 := session_tag.NewSessionTag(w)
		if (err == nil) != (err2 == nil) || (err == nil && (!bytes.Equal(v.Bytes(), v2.Bytes()) || !bytes.Equal(rem, rem2))) {
			fails = append(fails, fail("C19", "twin:ReadSessionTag/NewSessionTag", "differ on %d bytes", len(w)))
		}
		if len(w) == 32 {
			v3, err3 := session_tag.NewSessionTagFromBytes(w)
			if err3 != nil || err != nil || !bytes.Equal(v3.Bytes(), v.Bytes()) {
				fails = append(fails, fail("C19", "twin:ReadSessionTag/NewSessionTagFromBytes", "differ on exact-length input"))
			}
		}
		p2 := func(w []byte) parseRes {
			v, rem, err := session_tag.ReadECIESSessionTag(w)
			return parseRes{ok: err == nil, rem: rem, ser: v.Bytes(), serOK: true}
		}
		fails = append(fails, checkFraming("ReadECIESSessionTag", p2, w, p2(w), true)...)
		e1, erem1, eerr1 := session_tag.ReadECIESSessionTag(w)
		e2, erem2, eerr2 := session_tag.NewECIESSessionTag(w)
		if (eerr1 == nil) != (eerr2 == nil) || (eerr1 == nil && (!bytes.Equal(e1.Bytes(), e2.Bytes()) || !bytes.Equal(erem1, erem2))) {
			fails = append(fails, fail("C19", "twin:ReadECIESSessionTag/NewECIESSessionTag", "differ on %d bytes", len(w)))
		}
		if err == nil {
			var arr [32]byte
			copy(arr[:], w[:32])
			v3 := session_tag.NewSessionTagFromArray(arr)
			var v4 session_tag.SessionTag
			serr := v4.SetBytes(w[:32])
			if !bytes.Equal(v3.Bytes(), v.Bytes()) || serr != nil || !bytes.Equal(v4.Bytes(), v.Bytes()) || !v.Equal(v3) || !v3.Equal(v4) || v.Array() != arr {
				fails = append(fails, fail("C19", "twin:ReadSessionTag/FromArray/SetBytes", "the array constructor, SetBytes or Array() yields a different tag"))
			}
			arr[31] ^= 1
			if v.Equal(session_tag.NewSessionTagFromArray(arr)) {
				fails = append(fails, fail("C19", "twin:ReadSessionTag/FromArray/SetBytes", "Equal ignores the last byte"))
			}
		}
		if eerr1 == nil {
			var arr [8]byte
			copy(arr[:], w[:8])
			e3 := session_tag.NewECIESSessionTagFromArray(arr)
			var e4 session_tag.ECIESSessionTag
			serr := e4.SetBytes(w[:8])
			if !bytes.Equal(e3.Bytes(), e1.Bytes()) || serr != nil || !bytes.Equal(e4.Bytes(), e1.Bytes()) || !e1.Equal(e3) || !e3.Equal(e4) || e1.Array() != arr {
				fails = append(fails, fail("C19", "twin:ReadECIESSessionTag/FromArray/SetBytes", "the array constructor, SetBytes or Array() yields a different tag"))
			}
			arr[7] ^= 1
			if e1.Equal(session_tag.NewECIESSessionTagFromArray(arr)) {
				fails = append(fails, fail("C19", "twin:ReadECIESSessionTag/FromArray/SetBytes", "Equal ignores the last byte"))
			}
		}
		return okLine(res, false), fails
	})
}
