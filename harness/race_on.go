//go:build race

package main

// raceEnabled: this binary was built with -race (./check builds it as .build/harness-race for C18).
const raceEnabled = true
