package main

import (
	"bytes"
	"fmt"
	"math/big"
	"sort"
	"strings"
	"time"

	"github.com/go-i2p/common/data"
)

func bigOf(b []byte) *big.Int { return new(big.Int).SetBytes(b) }

func strErrTag(err error) string {
	switch err {
	case nil:
		return "none"
	case data.ErrZeroLength:
		return "zero"
	case data.ErrDataTooShort:
		return "short"
	case data.ErrLengthMismatch:
		return "mismatch"
	}
	return "other"
}

var mapErrTags = []struct{ sub, tag string }{
	{"zero length", "zero"},
	{"mapping length exceeds provided data", "exceeds"},
	{"data exists beyond length of mapping", "beyond"},
	{"mapping contained no data", "nodata"},
	{"exceeded maximum mapping pairs", "maxpairs"},
	{"no forward progress", "noprogress"},
	{"duplicate key", "dup"},
	{"expected =", "expeq"},
	{"expected ;", "expsemi"},
	{"error parsing mapping values", "parsevals"},
}

func mapErrTag(e error) string {
	s := e.Error()
	for _, t := range mapErrTags {
		if strings.Contains(s, t.sub) {
			return t.tag
		}
	}
	return "other(" + s + ")"
}

func mapErrTagsOf(errs []error) []string {
	var out []string
	for _, e := range errs {
		out = append(out, mapErrTag(e))
	}
	return out
}

// mappingAccepted: nothing but the documented trailing-data warning.
func mappingAccepted(errs []error) bool {
	for _, e := range errs {
		if mapErrTag(e) != "beyond" {
			return false
		}
	}
	return true
}

func pairsHex(v data.MappingValues) string {
	if len(v) == 0 {
		return "-"
	}
	var parts []string
	for _, p := range v {
		parts = append(parts, hx(p[0])+":"+hx(p[1]))
	}
	return strings.Join(parts, ",")
}

func parseMappingRes(w []byte) parseRes {
	m, rem, errs := data.ReadMapping(w)
	d := m.Data()
	return parseRes{ok: mappingAccepted(errs), rem: rem, ser: d, serOK: d != nil, obs: pairsHex(m.Values())}
}

func parseAssoc(s string) [][2]string {
	if s == "-" {
		return nil
	}
	var out [][2]string
	for _, kv := range strings.Split(s, ",") {
		p := strings.Split(kv, ":")
		out = append(out, [2]string{string(unhx(p[0])), string(unhx(p[1]))})
	}
	return out
}

func init() {
	reg("readInteger", func(a []string) (string, []Fail) {
		w, size := unhx(a[0]), atoi(a[1])
		v, rem := data.ReadInteger(w, size)
		var fails []Fail
		vs := "nil"
		if v != nil {
			vs = hx(v)
		}
		if size >= 1 && size <= 8 {
			p := func(w []byte) parseRes {
				v, rem := data.ReadInteger(w, size)
				return parseRes{ok: v != nil && len(v) == size, rem: rem, ser: v.Bytes(), serOK: true, obs: fmt.Sprint(v.Int())}
			}
			fails = append(fails, checkFraming("ReadInteger", p, w, p(w), true)...)
			if len(w) < size && len(v) == size {
				fails = append(fails, fail("C12", "int-short-complete", "ReadInteger returned a complete %d-byte value from %d bytes", size, len(w)))
			}
			if len(w) >= size && !bytes.Equal(v, w[:size]) {
				fails = append(fails, fail("C12", "int-read-value", "ReadInteger(%s,%d) returned %s", a[0], size, vs))
			}
		}
		return fmt.Sprintf("val=%s rem=%d", vs, len(rem)), fails
	})
	reg("intOf", func(a []string) (string, []Fail) {
		w := unhx(a[0])
		v := data.Integer(w).Int()
		var fails []Fail
		if len(w) >= 1 && len(w) <= 8 && bigOf(w).IsInt64() && bigOf(w).Int64() != int64(v) {
			fails = append(fails, fail("C12", "int-value", "Integer(%s).Int() = %d", a[0], v))
		}
		return itoa(v), fails
	})
	reg("intSafe", func(a []string) (string, []Fail) {
		v, err := data.Integer(unhx(a[0])).IntSafe()
		if err != nil {
			return "err", nil
		}
		return "ok " + itoa(v), nil
	})
	reg("uintSafe", func(a []string) (string, []Fail) {
		w := unhx(a[0])
		v, err := data.Integer(w).UintSafe()
		var fails []Fail
		if len(w) >= 1 && len(w) <= 8 {
			if err != nil || bigOf(w).Uint64() != v {
				fails = append(fails, fail("C12", "uint-full-range", "UintSafe(%s) = %d, %v", a[0], v, err))
			}
		} else if err == nil {
			fails = append(fails, fail("C12", "uint-size", "UintSafe accepted %d bytes", len(w)))
		}
		if err != nil {
			return "err", fails
		}
		return fmt.Sprintf("ok %d", v), fails
	})
	reg("decodeIntN", func(a []string) (string, []Fail) {
		w := unhx(a[0])
		v, err := data.DecodeIntN(w)
		var fails []Fail
		// twin: Integer.IntSafe within the non-negative int range
		if len(w) >= 1 && len(w) <= 8 && bigOf(w).IsInt64() {
			v2, err2 := data.Integer(w).IntSafe()
			if err != nil || err2 != nil || v != v2 || int64(v) != bigOf(w).Int64() {
				fails = append(fails, fail("C19", "twin:DecodeIntN/IntSafe", "DecodeIntN(%s)=%d,%v IntSafe=%d,%v", a[0], v, err, v2, err2))
			}
		}
		if err != nil {
			return "err", fails
		}
		return "ok " + itoa(v), fails
	})
	reg("newInt", func(a []string) (string, []Fail) {
		v, n := atoi(a[0]), atoi(a[1])
		i, err := data.NewIntegerFromInt(v, n)
		var fails []Fail
		fits := n >= 1 && n <= 8 && v >= 0 && (n == 8 || new(big.Int).Lsh(big.NewInt(1), uint(8*n)).Cmp(big.NewInt(int64(v))) > 0)
		if fits != (err == nil) {
			fails = append(fails, fail("C12", "int-domain", "NewIntegerFromInt(%d,%d): fits=%v err=%v", v, n, fits, err))
		}
		if err == nil {
			if len(*i) != n || bigOf(*i).Cmp(big.NewInt(int64(v))) != 0 || i.Int() != v {
				fails = append(fails, fail("C12", "int-roundtrip", "NewIntegerFromInt(%d,%d) = %s, Int() = %d", v, n, hx(*i), i.Int()))
			}
			if r, rem := data.ReadInteger(append(append([]byte{}, (*i)...), 0xaa), n); !bytes.Equal(r, *i) || len(rem) != 1 {
				fails = append(fails, fail("C12", "int-roundtrip", "ReadInteger does not read back NewIntegerFromInt(%d,%d)", v, n))
			}
		}
		// the results belong to the caller (history): kept across another call, written into, appended to
		if err == nil {
			fails = append(fails, privateResultFails("C12", "EncodeIntN", func() []byte { x, _ := data.EncodeIntN(v, n); return x },
				func() { data.EncodeIntN((v+1)%200, n); data.EncodeIntN(v^1, n) })...)
			fails = append(fails, privateResultFails("C12", "NewIntegerFromInt", func() []byte {
				x, e := data.NewIntegerFromInt(v, n)
				if e != nil || x == nil {
					return nil
				}
				return []byte(*x)
			}, func() { data.NewIntegerFromInt(v^1, n) })...)
		}
		// twins: EncodeIntN and the fixed-width helpers
		e, err2 := data.EncodeIntN(v, n)
		if (err == nil) != (err2 == nil) || (err == nil && !bytes.Equal(e, *i)) {
			fails = append(fails, fail("C19", "twin:NewIntegerFromInt/EncodeIntN", "NewIntegerFromInt(%d,%d) vs EncodeIntN disagree", v, n))
		}
		if err == nil {
			var fw []byte
			switch n {
			case 2:
				x := data.EncodeUint16(uint16(v))
				fw = x[:]
				if data.DecodeUint16(x) != uint16(v) {
					fails = append(fails, fail("C12", "fixed-width", "DecodeUint16(EncodeUint16(%d))", v))
				}
			case 4:
				x := data.EncodeUint32(uint32(v))
				fw = x[:]
				if data.DecodeUint32(x) != uint32(v) {
					fails = append(fails, fail("C12", "fixed-width", "DecodeUint32(EncodeUint32(%d))", v))
				}
			case 8:
				x := data.EncodeUint64(uint64(v))
				fw = x[:]
				if data.DecodeUint64(x) != uint64(v) {
					fails = append(fails, fail("C12", "fixed-width", "DecodeUint64(EncodeUint64(%d))", v))
				}
			}
			if fw != nil && !bytes.Equal(fw, *i) {
				fails = append(fails, fail("C19", "twin:NewIntegerFromInt/EncodeUintN", "fixed-width helper differs for (%d,%d)", v, n))
			}
			if d, derr := data.DecodeIntN(*i); derr != nil || d != v {
				fails = append(fails, fail("C12", "int-roundtrip", "DecodeIntN(EncodeIntN(%d,%d)) = %d, %v", v, n, d, derr))
			}
		}
		if err != nil {
			return "err", fails
		}
		return "ok " + hx(*i), fails
	})
	reg("newIntFromBytes", func(a []string) (string, []Fail) {
		i, err := data.NewIntegerFromBytes(unhx(a[0]))
		return okHex(i, err), nil
	})
	reg("readStr", func(a []string) (string, []Fail) {
		w := unhx(a[0])
		s, rem, err := data.ReadI2PString(w)
		p := func(w []byte) parseRes {
			s, rem, err := data.ReadI2PString(w)
			d, _ := s.Data()
			return parseRes{ok: err == nil, rem: rem, ser: s, serOK: true, obs: d}
		}
		fails := checkFraming("ReadI2PString", p, w, p(w), true)
		if err == nil {
			if len(w) == 0 || int(w[0]) > len(w)-1 {
				fails = append(fails, fail("C12", "str-short-complete", "ReadI2PString accepted %s", a[0]))
			} else if d, derr := s.Data(); derr != nil || d != string(w[1:1+int(w[0])]) {
				fails = append(fails, fail("C12", "str-content", "ReadI2PString(%s).Data() = %q, %v", a[0], d, derr))
			}
		}
		return fmt.Sprintf("str=%s rem=%d err=%s", hx(s), len(rem), strErrTag(err)), fails
	})
	reg("newStr", func(a []string) (string, []Fail) {
		c := unhx(a[0])
		s, err := data.NewI2PString(string(c))
		var fails []Fail
		if (len(c) <= 255) != (err == nil) {
			fails = append(fails, fail("C12", "str-domain", "NewI2PString of %d bytes: err=%v", len(c), err))
		}
		s2, err2 := data.ToI2PString(string(c))
		if (err == nil) != (err2 == nil) || !bytes.Equal(s, s2) {
			fails = append(fails, fail("C19", "twin:NewI2PString/ToI2PString", "differ on %d bytes", len(c)))
		}
		if err == nil {
			fails = append(fails, privateResultFails("C12", "ToI2PString", func() []byte { x, _ := data.ToI2PString(string(c)); return []byte(x) },
				func() { data.ToI2PString(string(c) + "x"); data.ToI2PString("y") })...)
			want := append([]byte{byte(len(c))}, c...)
			// read back from a stream (bytes follow) and from a buffer the string fills exactly
			for _, x := range [][]byte{{0x3d, 0x01}, {}} {
				r, rem, rerr := data.ReadI2PString(append(append([]byte{}, s...), x...))
				d, derr := r.Data()
				if !bytes.Equal(s, want) || rerr != nil || !bytes.Equal(r, want) || !bytes.Equal(rem, x) || derr != nil || d != string(c) {
					fails = append(fails, fail("C12", "str-roundtrip", "NewI2PString/ReadI2PString round trip failed for %d bytes followed by %d bytes", len(c), len(x)))
					break
				}
			}
		}
		return okHex(s, err), fails
	})
	reg("newStrFromBytes", func(a []string) (string, []Fail) {
		s, err := data.NewI2PStringFromBytes(unhx(a[0]))
		return okHex(s, err), nil
	})
	reg("strData", func(a []string) (string, []Fail) {
		d, err := data.I2PString(unhx(a[0])).Data()
		st := "ok"
		if err != nil {
			st = "err"
		}
		return st + " " + hxs(d), nil
	})
	reg("readDate", func(a []string) (string, []Fail) {
		w := unhx(a[0])
		d, rem, err := data.ReadDate(w)
		p := func(w []byte) parseRes {
			d, rem, err := data.ReadDate(w)
			return parseRes{ok: err == nil, rem: rem, ser: d.Bytes(), serOK: true, obs: itoa(d.Int())}
		}
		fails := checkFraming("ReadDate", p, w, p(w), true)
		// twin: NewDate
		d2, rem2, err2 := data.NewDate(w)
		if (err == nil) != (err2 == nil) || (err == nil && (*d2 != d || !bytes.Equal(rem, rem2))) {
			fails = append(fails, fail("C19", "twin:ReadDate/NewDate", "differ on %s", a[0]))
		}
		if err != nil {
			return "err", fails
		}
		if bigOf(d[:]).IsInt64() {
			ms := bigOf(d[:]).Int64()
			if d.Time().UnixMilli() != ms {
				fails = append(fails, fail("C15", "date-time", "Date(%s).Time().UnixMilli() = %d", hx(d[:]), d.Time().UnixMilli()))
			}
		}
		return fmt.Sprintf("ok %s rem=%d ms=%d", hx(d[:]), len(rem), d.Int()), fails
	})
	reg("newDateMs", func(a []string) (string, []Fail) {
		ms := int64(atoi(a[0]))
		d, err := data.NewDateFromMillis(ms)
		var fails []Fail
		if (ms >= 0) != (err == nil) {
			fails = append(fails, fail("C12", "date-domain", "NewDateFromMillis(%d): err=%v", ms, err))
		}
		if err == nil && ms >= 0 {
			if int64(d.Int()) != ms || d.Time().UnixMilli() != ms || bigOf(d[:]).Cmp(big.NewInt(ms)) != 0 {
				fails = append(fails, fail("C12", "date-roundtrip", "NewDateFromMillis(%d) stores %s (Int()=%d)", ms, hx(d[:]), d.Int()))
				// the same sentence is part of C15 ("millisecond dates below 2^63, with no wrap-around")
				fails = append(fails, fail("C15", "date-millis-exact", "NewDateFromMillis(%d) stores %s: not the exact millisecond value", ms, hx(d[:])))
			}
			// twin: DateFromTime
			d2, _ := data.DateFromTime(time.UnixMilli(ms))
			if *d2 != *d {
				fails = append(fails, fail("C19", "twin:NewDateFromMillis/DateFromTime", "differ for %d ms", ms))
			}
			// twin: the reader of the eight bytes that denote the same instant (the two constructors above share code)
			if d3, _, rerr := data.ReadDate(u64(uint64(ms))); rerr != nil || d3 != *d {
				fails = append(fails, fail("C19", "twin:ReadDate/NewDateFromMillis", "ReadDate of the 8-byte big-endian value %d and NewDateFromMillis(%d) differ: %x vs %x", ms, ms, d3[:], d[:]))
			}
		}
		if err != nil {
			return "err", fails
		}
		return "ok " + hx(d[:]), fails
	})
	reg("newDateUnix", func(a []string) (string, []Fail) {
		s := int64(atoi(a[0]))
		d, err := data.NewDateFromUnix(s)
		var fails []Fail
		inRange := s >= 0 && s <= (1<<63-1)/1000
		if inRange != (err == nil) {
			fails = append(fails, fail("C12", "date-domain", "NewDateFromUnix(%d): err=%v", s, err))
		}
		if err == nil && inRange {
			if int64(d.Int()) != s*1000 {
				fails = append(fails, fail("C12", "date-roundtrip", "NewDateFromUnix(%d) stores %s", s, hx(d[:])))
			}
			d2, err2 := data.NewDateFromMillis(s * 1000)
			if err2 != nil || *d2 != *d {
				fails = append(fails, fail("C19", "twin:NewDateFromUnix/NewDateFromMillis", "differ for %d s", s))
			}
		}
		if err != nil {
			return "err", fails
		}
		return "ok " + hx(d[:]), fails
	})
	reg("dateFromTime", func(a []string) (string, []Fail) {
		s, n := int64(atoi(a[0])), int64(atoi(a[1]))
		d, _ := data.DateFromTime(time.Unix(s, n))
		return "ok " + hx(d[:]), nil
	})
	reg("readHash", func(a []string) (string, []Fail) {
		w := unhx(a[0])
		h, rem, err := data.ReadHash(w)
		p := func(w []byte) parseRes {
			h, rem, err := data.ReadHash(w)
			return parseRes{ok: err == nil, rem: rem, ser: h[:], serOK: true}
		}
		fails := checkFraming("ReadHash", p, w, p(w), true)
		if len(w) == 32 {
			h2, err2 := data.NewHashFromSlice(w)
			if err != nil || err2 != nil || h != h2 {
				fails = append(fails, fail("C19", "twin:ReadHash/NewHashFromSlice", "differ on %s", a[0]))
			}
		}
		if err != nil {
			return "err", fails
		}
		return fmt.Sprintf("ok %s rem=%d", hx(h[:]), len(rem)), fails
	})
	reg("readMapping", func(a []string) (string, []Fail) {
		w := unhx(a[0])
		m, rem, errs := data.ReadMapping(w)
		res := parseMappingRes(w)
		fails := checkFraming("ReadMapping", parseMappingRes, w, res, len(w) <= 64)
		if len(errs) == 0 {
			// C11 clause: a mapping parsed without error re-serialises to the bytes it was read from
			if !isSuffix(w, rem) || !bytes.Equal(m.Data(), w[:len(w)-len(rem)]) {
				fails = append(fails, fail("C11", "reser-clean", "mapping parsed without error re-serialises differently: %s -> %s", trunc(a[0], 80), trunc(hx(m.Data()), 80)))
			}
		}
		// twin: NewMapping
		m2, rem2, errs2 := data.NewMapping(w)
		if !bytes.Equal(m2.Data(), m.Data()) || !bytes.Equal(rem, rem2) || len(errs) != len(errs2) {
			fails = append(fails, fail("C19", "twin:ReadMapping/NewMapping", "differ on %s", trunc(a[0], 80)))
		}
		vals := pairsHex(m.Values())
		d := "nil"
		if m.Data() != nil {
			d = hx(m.Data())
		}
		return fmt.Sprintf("errs=[%s] rem=%d vals=%s data=%s", strings.Join(mapErrTagsOf(errs), ","), len(rem), vals, d), fails
	})
	reg("goMap", func(a []string) (string, []Fail) {
		pairs := parseAssoc(a[0])
		gm := map[string]string{}
		for _, p := range pairs {
			gm[p[0]] = p[1]
		}
		m, err := data.GoMapToMapping(gm)
		var fails []Fail
		within := true
		total := 0
		for k, v := range gm {
			if len(k) > 255 || len(v) > 255 {
				within = false
			}
			total += len(k) + len(v) + 4
		}
		if total > 65535 {
			within = false
		}
		if within != (err == nil) {
			fails = append(fails, fail("C11", "limits", "GoMapToMapping: within limits=%v (total %d) but err=%v", within, total, err))
		}
		if err != nil {
			return "err", fails
		}
		if m == nil {
			fails = append(fails, fail("C11", "nil-without-error", "GoMapToMapping returned neither a mapping nor an error (within limits=%v): the input is lost, not rejected", within))
			return "nil", fails
		}
		d := m.Data()
		// determinism under Go's map iteration order
		for i := 0; i < 6; i++ {
			m2, err2 := data.GoMapToMapping(gm)
			if err2 != nil || !bytes.Equal(m2.Data(), d) {
				fails = append(fails, fail("C11", "order", "GoMapToMapping is not deterministic for %s", trunc(a[0], 80)))
				break
			}
		}
		// size field, sortedness
		if len(d) < 2 || int(d[0])<<8|int(d[1]) != len(d)-2 {
			fails = append(fails, fail("C11", "size-field", "size field does not equal the number of bytes that follow (%d)", len(d)-2))
		}
		var keys []string
		for _, p := range m.Values() {
			k, _ := p[0].Data()
			keys = append(keys, k)
		}
		if !sort.StringsAreSorted(keys) {
			fails = append(fails, fail("C11", "sorted", "pairs are not sorted by key"))
		}
		// round trip through the wire
		back, rem, errs := data.ReadMapping(d)
		if len(errs) != 0 || len(rem) != 0 {
			sig := "roundtrip"
			if len(gm) > 1000 {
				sig = "roundtrip-over-1000-pairs" // MAX_MAPPING_PAIRS: the parser refuses what the constructor accepts
			}
			fails = append(fails, fail("C11", sig, "Data() of a map with %d pairs does not parse back cleanly: errs=%v rem=%d map=%s", len(gm), mapErrTagsOf(errs), len(rem), trunc(a[0], 80)))
		} else {
			gm2, gerr := back.ToGoMap()
			same := gerr == nil && len(gm2) == len(gm)
			if same {
				for k, v := range gm {
					if v2, ok := gm2[k]; !ok || v2 != v {
						same = false
					}
				}
			}
			if !same {
				fails = append(fails, fail("C11", "roundtrip", "map -> bytes -> map is not the identity for %s", trunc(a[0], 80)))
			}
		}
		return fmt.Sprintf("ok vals=%s data=%s", pairsHex(m.Values()), hx(d)), fails
	})
}
