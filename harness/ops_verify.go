package main

import (
	"strings"

	"github.com/go-i2p/common/encrypted_leaseset"
	"github.com/go-i2p/common/lease_set"
	"github.com/go-i2p/common/lease_set2"
	"github.com/go-i2p/common/meta_leaseset"
	"github.com/go-i2p/common/offline_signature"
	"github.com/go-i2p/common/router_info"
)

// obl is one verification obligation of property C05: signature sig must be valid for message msg under
// key with algorithm alg. alg is the algorithm tag of lean/I2P/Verify.lean (0 DSA-SHA1, 1 ECDSA-P256,
// 2 ECDSA-P384, 7 Ed25519, 8 the Ed25519ph API on the message as given); indepVerify evaluates exactly
// these tags.
type obl struct {
	alg           int
	key, msg, sig []byte
}

// the tables of the property statement (lean/I2P/Verify.lean: algOf, offAlgOf, sigConstructible)
func algOfSpec(t int) int {
	if t == 8 || t == 11 {
		return 7
	}
	return t
}

func offAlgOfSpec(t int) (int, bool) {
	switch t {
	case 7, 11:
		return 7, true
	case 8:
		return 8, true
	}
	return 0, false
}

func sigConstructibleSpec(t int) bool {
	switch t {
	case 0, 1, 2, 7, 8, 11:
		return true
	}
	return false
}

// offlineObl: the offline block must be signed by the identity's key (destination types 7, 8, 11 only,
// non-zero expiry, well-sized fields).
func offlineObl(o *offline_signature.OfflineSignature, idKey []byte) (obl, bool) {
	tt, dt := int(o.TransientSigType()), int(o.DestinationSigType())
	if o.Expires() == 0 {
		return obl{}, false
	}
	if sp, ok := specSig[tt]; !ok || len(o.TransientPublicKey()) != sp[0] {
		return obl{}, false
	}
	if sp, ok := specSig[dt]; !ok || len(o.Signature()) != sp[1] {
		return obl{}, false
	}
	a, ok := offAlgOfSpec(dt)
	if !ok || len(idKey) != 32 {
		return obl{}, false
	}
	return obl{a, idKey, cat(u32(o.Expires()), u16(tt), o.TransientPublicKey()), o.Signature()}, true
}

// keyObl: a key of I2P type t, as the library constructs it, checks sig over msg.
func keyObl(t int, key, msg, sig []byte) (obl, bool) {
	if sp, ok := specSig[t]; !ok || !sigConstructibleSpec(t) || len(key) != sp[0] {
		return obl{}, false
	}
	return obl{algOfSpec(t), key, msg, sig}, true
}

// signedObls: obligations of a structure signed by its identity key or, with an offline block, by the
// transient key that the identity key authorised.
func signedObls(prefix, consumed, sig []byte, idType int, idKey []byte, off *offline_signature.OfflineSignature) ([]obl, bool) {
	if len(sig) > len(consumed) {
		return nil, false
	}
	msg := cat(prefix, consumed[:len(consumed)-len(sig)])
	if off != nil {
		o1, ok := offlineObl(off, idKey)
		if !ok {
			return nil, false
		}
		o2, ok := keyObl(int(off.TransientSigType()), off.TransientPublicKey(), msg, sig)
		if !ok {
			return nil, false
		}
		return []obl{o1, o2}, true
	}
	o, ok := keyObl(idType, idKey, msg, sig)
	if !ok {
		return nil, false
	}
	return []obl{o}, true
}

func oblLine(os []obl, possible bool) string {
	if !possible {
		return "ok obligations=none"
	}
	parts := make([]string, len(os))
	for i, o := range os {
		parts[i] = itoa(o.alg) + ":" + hx(o.key) + ":" + hx(o.msg) + ":" + hx(o.sig)
	}
	return "ok obligations=[" + strings.Join(parts, ",") + "]"
}

// oblOracle: the library's verdict must equal "every obligation holds under independent crypto".
// "library accepts, obligations do not hold" is the violation of C05 proper. The converse ("library rejects a
// structure all of whose obligations hold") is not constrained by C05; it is flagged under its own signature
// because it means the obligation list is not the library's data flow — except for ECDSA obligations (tags 1, 2):
// go-i2p/crypto's CreateECVerifier hands the 64-byte X‖Y key to elliptic.Unmarshal, which only accepts the 65-byte
// SEC1 form, so no ECDSA signature ever verifies there (outside /repo; counted, not flagged).
func oblOracle(kind string, libOK bool, os []obl, possible bool) []Fail {
	want := possible
	ecdsa := false
	for _, o := range os {
		ok, known := indepVerify(o.alg, o.key, o.msg, o.sig)
		if !known {
			count("obl-unknown-alg:" + kind)
			return nil
		}
		if o.alg == 1 || o.alg == 2 {
			ecdsa = true
		}
		want = want && ok
	}
	tag := "reject"
	if want {
		tag = "accept"
	}
	count("obl-" + tag + ":" + kind + ":" + itoa(len(os)))
	if libOK && !want {
		return []Fail{fail("C05", "obligations-vs-verify:"+kind, "%s: the library reports success, but the %d obligation(s) of the property do not all hold (possible=%v)", kind, len(os), possible)}
	}
	if !libOK && want {
		if ecdsa {
			count("obl-valid-ecdsa-rejected:" + kind)
			return nil
		}
		return []Fail{fail("C05", "obligations-vs-verify:"+kind+":rejects-valid", "%s: all %d obligation(s) hold under independent crypto, but the library rejects", kind, len(os))}
	}
	return nil
}

func init() {
	reg("verifyObl", func(a []string) (string, []Fail) {
		kind, w := a[0], unhx(a[1])
		switch kind {
		case "ls2":
			v, rem, err := lease_set2.ReadLeaseSet2(w)
			if err != nil {
				return "err", nil
			}
			t, k, ok := destKey(v.Destination())
			if !ok {
				return "ok obligations=nokey", []Fail{fail("C05", "no-identity-key:ls2", "accepted LeaseSet2 without a destination signing key")}
			}
			var off *offline_signature.OfflineSignature
			if v.HasOfflineKeys() && v.OfflineSignature() != nil {
				off = v.OfflineSignature()
			}
			os, possible := signedObls([]byte{3}, w[:len(w)-len(rem)], v.Signature().Bytes(), t, k, off)
			return oblLine(os, possible), oblOracle(kind, v.Verify() == nil, os, possible)
		case "meta":
			v, rem, err := meta_leaseset.ReadMetaLeaseSet(w)
			if err != nil {
				return "err", nil
			}
			t, k, ok := destKey(v.Destination())
			if !ok {
				return "ok obligations=nokey", []Fail{fail("C05", "no-identity-key:meta", "accepted MetaLeaseSet without a destination signing key")}
			}
			var off *offline_signature.OfflineSignature
			if v.HasOfflineKeys() && v.OfflineSignature() != nil {
				off = v.OfflineSignature()
			}
			os, possible := signedObls([]byte{7}, w[:len(w)-len(rem)], v.Signature().Bytes(), t, k, off)
			return oblLine(os, possible), oblOracle(kind, v.Verify() == nil, os, possible)
		case "els":
			v, rem, err := encrypted_leaseset.ReadEncryptedLeaseSet(w)
			if err != nil {
				return "err", nil
			}
			var off *offline_signature.OfflineSignature
			if v.HasOfflineKeys() && v.OfflineSignature() != nil {
				off = v.OfflineSignature()
			}
			os, possible := signedObls([]byte{5}, w[:len(w)-len(rem)], v.Signature().Bytes(), int(v.SigType()), v.BlindedPublicKey(), off)
			return oblLine(os, possible), oblOracle(kind, v.Verify() == nil, os, possible)
		case "ls":
			v, err := lease_set.ReadLeaseSet(w)
			if err != nil {
				return "err", nil
			}
			b, berr := v.Bytes()
			if berr != nil || len(b) > len(w) {
				return "ok obligations=noextent", []Fail{fail("C01", "ser-error:ReadLeaseSet", "accepted but the consumed extent is unknown")}
			}
			t, k, ok := destKey(v.Destination())
			if !ok {
				return "ok obligations=nokey", []Fail{fail("C05", "no-identity-key:ls", "accepted LeaseSet without a destination signing key")}
			}
			sig := v.Signature().Bytes()
			possible := len(sig) != 0
			var os []obl
			if possible {
				os, possible = signedObls(nil, w[:len(b)], sig, t, k, nil)
			}
			return oblLine(os, possible), oblOracle(kind, v.Verify() == nil, os, possible)
		case "ri":
			v, rem, err := router_info.ReadRouterInfo(w)
			if err != nil {
				return "err", nil
			}
			ri := v.RouterIdentity()
			if ri == nil {
				return "ok obligations=nokey", []Fail{fail("C05", "no-identity-key:ri", "accepted RouterInfo without a router identity")}
			}
			k, kerr := ri.SigningPublicKey()
			if kerr != nil || k == nil {
				return "ok obligations=nokey", []Fail{fail("C05", "no-identity-key:ri", "accepted RouterInfo without a signing key")}
			}
			consumed := w[:len(w)-len(rem)]
			sig := v.Signature().Bytes()
			var os []obl
			// only an Ed25519 (type 7) signature under a 32-byte key can ever verify
			possible := v.Signature().Type() == 7 && len(k.Bytes()) == 32 && len(sig) <= len(consumed)
			if possible {
				os = []obl{{7, k.Bytes(), consumed[:len(consumed)-len(sig)], sig}}
			}
			libOK, _ := v.VerifySignature()
			return oblLine(os, possible), oblOracle(kind, libOK, os, possible)
		}
		panic("harness: verifyObl: unknown kind " + kind)
	})
}
