package main

import (
	"bytes"
	"crypto/sha256"
	"encoding/base32"
	"encoding/base64"
	"fmt"
	"strings"

	"github.com/go-i2p/common/certificate"
	"github.com/go-i2p/common/destination"
	"github.com/go-i2p/common/key_certificate"
	"github.com/go-i2p/common/keys_and_cert"
	"github.com/go-i2p/common/offline_signature"
	"github.com/go-i2p/common/router_identity"
	"github.com/go-i2p/common/signature"
)

// spec tables of the harness (typed independently of the Lean Spec/Tables and of the library)
var specSig = map[int][2]int{0: {128, 40}, 1: {64, 64}, 2: {96, 96}, 3: {132, 132}, 4: {256, 256}, 5: {384, 384}, 6: {512, 512}, 7: {32, 64}, 8: {32, 64}, 11: {32, 64}}
var specCrypto = map[int]int{0: 256, 1: 64, 2: 96, 3: 132, 4: 32, 5: 32, 6: 32, 7: 32}

func destAllowedSpec(s, c int) bool {
	return !(s == 4 || s == 5 || s == 6 || s == 8) && !(c == 5 || c == 6 || c == 7)
}
func ridAllowedSpec(s, c int) bool { return destAllowedSpec(s, c) && s != 11 }

var i2pB32 = base32.NewEncoding("abcdefghijklmnopqrstuvwxyz234567")
var i2pB64 = base64.NewEncoding("ABCDEFGHIJKLMNOPQRSTUVWXYZabcdefghijklmnopqrstuvwxyz0123456789-~")

// kacObs is the canonical observation of an accepted KeysAndCert.
func kacObs(k *keys_and_cert.KeysAndCert) (string, []byte, bool) {
	b, err := k.Bytes()
	if err != nil {
		return "bytes=err", nil, false
	}
	pub, sig := "nil", "nil"
	if k.ReceivingPublic != nil {
		pub = hx(k.ReceivingPublic.Bytes())
	}
	if k.SigningPublic != nil {
		sig = hx(k.SigningPublic.Bytes())
	}
	return fmt.Sprintf("spk=%d cpk=%d pub=%s pad=%s sig=%s bytes=%s", k.KeyCertificate.SigningPublicKeyType(), k.KeyCertificate.PublicKeyType(),
		pub, hx(k.Padding), sig, hx(b)), b, true
}

// layoutFails checks C10's layout clause on an accepted KeysAndCert.
func layoutFails(k *keys_and_cert.KeysAndCert, b []byte) []Fail {
	var fails []Fail
	s, c := k.KeyCertificate.SigningPublicKeyType(), k.KeyCertificate.PublicKeyType()
	ss, okS := specSig[s]
	cs, okC := specCrypto[c]
	if !okS || !okC {
		fails = append(fails, fail("C10", "layout-unknown-type", "accepted KeysAndCert with types (%d,%d) unknown to the specification table", s, c))
		return fails
	}
	pk, err1 := k.PublicKey()
	sk, err2 := k.SigningPublicKey()
	if err1 != nil || err2 != nil || pk == nil || sk == nil {
		fails = append(fails, fail("C10", "layout-keys", "PublicKey()/SigningPublicKey() failed on an accepted value (%v, %v)", err1, err2))
		return fails
	}
	if len(b) < 384 || pk.Len() != cs || sk.Len() != ss[0] || len(pk.Bytes()) != cs || len(sk.Bytes()) != ss[0] ||
		k.KeyCertificate.CryptoSize() != cs || k.KeyCertificate.SigningPublicKeySize() != ss[0] {
		fails = append(fails, fail("C10", "layout-sizes", "declared sizes (%d,%d) differ from key lengths (%d,%d) for types (%d,%d)", cs, ss[0], pk.Len(), sk.Len(), s, c))
		return fails
	}
	if cs+ss[0] <= 384 {
		if !bytes.Equal(b[:cs], pk.Bytes()) || !bytes.Equal(b[384-ss[0]:384], sk.Bytes()) || !bytes.Equal(b[cs:384-ss[0]], k.Padding) || cs+len(k.Padding)+ss[0] != 384 {
			fails = append(fails, fail("C10", "layout-offsets", "key block layout wrong for types (%d,%d): crypto key at start %v, signing key at end %v, padding between %v", s, c,
				bytes.Equal(b[:cs], pk.Bytes()), bytes.Equal(b[384-ss[0]:384], sk.Bytes()), bytes.Equal(b[cs:384-ss[0]], k.Padding)))
		}
	}
	return fails
}

func kacParser(read func([]byte) (*keys_and_cert.KeysAndCert, []byte, error)) parser {
	return func(w []byte) parseRes {
		k, rem, err := read(w)
		if err != nil || k == nil {
			return parseRes{ok: false, rem: rem}
		}
		obs, b, ok := kacObs(k)
		return parseRes{ok: true, rem: rem, ser: b, serOK: ok, obs: obs}
	}
}

// scribbleKac: C08 — overwrite the caller's buffer after parsing; nothing observable may change.
func scribbleKac(name string, read func([]byte) (*keys_and_cert.KeysAndCert, []byte, error), w []byte) []Fail {
	buf := append([]byte{}, w...)
	k, _, err := read(buf)
	if err != nil || k == nil {
		return nil
	}
	before, _, _ := kacObs(k)
	certBefore := hx(k.Certificate().Bytes())
	for i := range buf {
		buf[i] ^= 0xff
	}
	after, _, _ := kacObs(k)
	certAfter := hx(k.Certificate().Bytes())
	if before != after || certBefore != certAfter {
		return []Fail{fail("C08", "alias:"+name, "%s: value changed after the input buffer was overwritten (fields: %s)", name, diffFields(before, after))}
	}
	return nil
}

func diffFields(a, b string) string {
	fa, fb := strings.Fields(a), strings.Fields(b)
	var out []string
	for i := range fa {
		if i < len(fb) && fa[i] != fb[i] {
			out = append(out, strings.SplitN(fa[i], "=", 2)[0])
		}
	}
	return strings.Join(out, ",")
}

func certObs(c *certificate.Certificate) string {
	t, _ := c.Type()
	l, _ := c.Length()
	d, _ := c.Data()
	return fmt.Sprintf("type=%d len=%d data=%s bytes=%s", t, l, hx(d), hx(c.Bytes()))
}

func init() {
	reg("readCert", func(a []string) (string, []Fail) {
		w := unhx(a[0])
		p := func(w []byte) parseRes {
			c, rem, err := certificate.ReadCertificate(w)
			if err != nil || c == nil {
				return parseRes{rem: rem}
			}
			return parseRes{ok: true, rem: rem, ser: c.Bytes(), serOK: true, obs: certObs(c)}
		}
		res := p(w)
		fails := checkFraming("ReadCertificate", p, w, res, len(w) <= 64)
		c, _, err := certificate.ReadCertificate(w)
		if err == nil {
			fails = append(fails, methodFails("C04", "Certificate", c)...)
			// the package-level type getters are a second route to the key types (twin of the KeyCertificate accessors):
			// they never panic, and on a KEY certificate with ≥ 4 payload bytes they return the two big-endian fields
			var st, ct int
			var se, ce error
			if pmsg := try(func() {
				st, se = certificate.GetSignatureTypeFromCertificate(*c)
				ct, ce = certificate.GetCryptoTypeFromCertificate(*c)
			}); pmsg != "" {
				fails = append(fails, fail("C04", "panic:GetTypeFromCertificate", "Get{Signature,Crypto}TypeFromCertificate panics: %s", pmsg))
			} else if kind, kerr := c.Type(); kerr == nil {
				pl, _ := c.Data()
				isKey := kind == 5 && len(pl) >= 4
				if isKey != (se == nil) || isKey != (ce == nil) || (isKey && (st != int(pl[0])<<8|int(pl[1]) || ct != int(pl[2])<<8|int(pl[3]))) {
					fails = append(fails, fail("C19", "twin:GetTypeFromCertificate/payload", "type getters on a type-%d certificate with %d payload bytes: sig=%d (%v) crypto=%d (%v)", kind, len(pl), st, se, ct, ce))
				}
				if kc, kcerr := key_certificate.KeyCertificateFromCertificate(c); kcerr == nil && isKey {
					if kc.SigningPublicKeyType() != st || kc.PublicKeyType() != ct {
						fails = append(fails, fail("C19", "twin:GetTypeFromCertificate/KeyCertificate", "KeyCertificate reports types (%d,%d), the certificate getters (%d,%d)", kc.SigningPublicKeyType(), kc.PublicKeyType(), st, ct))
					}
				}
			}
			// C08
			buf := append([]byte{}, w...)
			c2, _, _ := certificate.ReadCertificate(buf)
			before := certObs(c2) + hx(c2.RawBytes())
			for i := range buf {
				buf[i] ^= 0xff
			}
			if certObs(c2)+hx(c2.RawBytes()) != before {
				fails = append(fails, fail("C08", "alias:ReadCertificate", "certificate changed after the input buffer was overwritten"))
			}
		} else if c != nil {
			fails = append(fails, methodFails("C20", "Certificate", c)...)
		}
		if !res.ok {
			return "err", fails
		}
		return fmt.Sprintf("ok rem=%d %s", len(res.rem), res.obs), fails
	})
	reg("readKeyCert", func(a []string) (string, []Fail) {
		w := unhx(a[0])
		obs := func(kc *key_certificate.KeyCertificate) string {
			return fmt.Sprintf("spk=%d cpk=%d bytes=%s", kc.SigningPublicKeyType(), kc.PublicKeyType(), hx(kc.Bytes()))
		}
		p := func(w []byte) parseRes {
			kc, rem, err := key_certificate.NewKeyCertificate(w)
			if err != nil || kc == nil {
				return parseRes{rem: rem}
			}
			return parseRes{ok: true, rem: rem, ser: kc.Bytes(), serOK: true, obs: obs(kc)}
		}
		res := p(w)
		fails := checkFraming("NewKeyCertificate", p, w, res, len(w) <= 64)
		kc, rem, err := key_certificate.NewKeyCertificate(w)
		// twin: KeyCertificateFromCertificate ∘ ReadCertificate
		c, rem2, cerr := certificate.ReadCertificate(w)
		if cerr == nil {
			kc2, err2 := key_certificate.KeyCertificateFromCertificate(c)
			if (err == nil) != (err2 == nil) || (err == nil && (obs(kc) != obs(kc2) || !bytes.Equal(rem, rem2))) {
				fails = append(fails, fail("C19", "twin:NewKeyCertificate/FromCertificate", "differ on %s", trunc(a[0], 60)))
				if err == nil && err2 == nil && (kc.SigningPublicKeySize() != kc2.SigningPublicKeySize() || kc.SignatureSize() != kc2.SignatureSize() || kc.CryptoSize() != kc2.CryptoSize()) {
					fails = append(fails, fail("C10", "lookup-route:KeyCertificateFromCertificate", "the sizes a key certificate reports depend on the route it was built by (bytes: %d/%d/%d, certificate: %d/%d/%d) for %s",
						kc.SigningPublicKeySize(), kc.SignatureSize(), kc.CryptoSize(), kc2.SigningPublicKeySize(), kc2.SignatureSize(), kc2.CryptoSize(), trunc(a[0], 40)))
				}
			}
		} else if err == nil {
			fails = append(fails, fail("C19", "twin:NewKeyCertificate/FromCertificate", "NewKeyCertificate accepts what ReadCertificate rejects: %s", trunc(a[0], 60)))
		}
		if err == nil {
			fails = append(fails, methodFails("C04", "KeyCertificate", kc)...)
			// C10: the certificate's own size lookups agree with the specification table
			s, cr := kc.SigningPublicKeyType(), kc.PublicKeyType()
			if sp, ok := specSig[s]; (ok && (kc.SigningPublicKeySize() != sp[0] || kc.SignatureSize() != sp[1])) || (!ok && (kc.SigningPublicKeySize() != 0 || kc.SignatureSize() != 0)) {
				fails = append(fails, fail("C10", "kc-sig-size", "KeyCertificate sizes for signing type %d: key %d sig %d", s, kc.SigningPublicKeySize(), kc.SignatureSize()))
			}
			cs, cerr2 := kc.CryptoPublicKeySize()
			if sp, ok := specCrypto[cr]; (ok && (kc.CryptoSize() != sp || cs != sp || cerr2 != nil)) || (!ok && (kc.CryptoSize() != 0 || cerr2 == nil)) {
				fails = append(fails, fail("C10", "kc-crypto-size", "KeyCertificate sizes for crypto type %d: %d / %d,%v", cr, kc.CryptoSize(), cs, cerr2))
			}
		}
		if !res.ok {
			return "err", fails
		}
		return fmt.Sprintf("ok rem=%d %s", len(res.rem), res.obs), fails
	})

	kacOp := func(name string, read func([]byte) (*keys_and_cert.KeysAndCert, []byte, error), policy func(s, c int) bool, policyProp string) OpFn {
		return func(a []string) (string, []Fail) {
			w := unhx(a[0])
			p := kacParser(read)
			res := p(w)
			fails := checkFraming(name, p, w, res, false)
			fails = append(fails, scribbleKac(name, read, w)...)
			k, _, err := read(w)
			if err != nil || k == nil {
				if k != nil {
					fails = append(fails, methodFails("C20", "KeysAndCert", k)...)
				}
				return "err", fails
			}
			fails = append(fails, methodFails("C04", "KeysAndCert", k)...)
			if res.serOK {
				fails = append(fails, layoutFails(k, res.ser)...)
			}
			s, c := k.KeyCertificate.SigningPublicKeyType(), k.KeyCertificate.PublicKeyType()
			if policy != nil && !policy(s, c) {
				fails = append(fails, fail("C09", "policy:"+name, "%s returned an identity with prohibited types (signing %d, crypto %d)", name, s, c))
			}
			return fmt.Sprintf("ok rem=%d %s", len(res.rem), res.obs), fails
		}
	}
	reg("readKac", func(a []string) (string, []Fail) {
		out, fails := kacOp("ReadKeysAndCert", keys_and_cert.ReadKeysAndCert, nil, "")(a)
		// twins: the key-type-specific readers on encodings whose certificate declares those types
		w := unhx(a[0])
		k, rem, err := keys_and_cert.ReadKeysAndCert(w)
		if err == nil {
			s, c := k.KeyCertificate.SigningPublicKeyType(), k.KeyCertificate.PublicKeyType()
			isKey := len(w) > 384 && w[384] == 5
			var fast func([]byte) (*keys_and_cert.KeysAndCert, []byte, error)
			fname := ""
			if isKey && s == 7 && c == 0 {
				fast, fname = keys_and_cert.ReadKeysAndCertElgAndEd25519, "ElgAndEd25519"
			}
			if isKey && s == 7 && c == 4 {
				fast, fname = keys_and_cert.ReadKeysAndCertX25519AndEd25519, "X25519AndEd25519"
			}
			if fast != nil {
				k2, rem2, err2 := fast(w)
				o1, _, _ := kacObs(k)
				same := err2 == nil && bytes.Equal(rem, rem2)
				if same {
					o2, _, _ := kacObs(k2)
					same = o1 == o2
				}
				if !same {
					fails = append(fails, fail("C19", "twin:ReadKeysAndCert/"+fname, "generic and %s reader differ on %s…", fname, trunc(a[0], 40)))
				}
			}
		}
		return out, fails
	})
	reg("readKacElgEd", kacOp("ReadKeysAndCertElgAndEd25519", keys_and_cert.ReadKeysAndCertElgAndEd25519, nil, ""))
	reg("readKacXEd", kacOp("ReadKeysAndCertX25519AndEd25519", keys_and_cert.ReadKeysAndCertX25519AndEd25519, nil, ""))

	readDest := func(w []byte) (*keys_and_cert.KeysAndCert, []byte, error) {
		d, rem, err := destination.ReadDestination(w)
		return d.KeysAndCert, rem, err
	}
	readRid := func(w []byte) (*keys_and_cert.KeysAndCert, []byte, error) {
		r, rem, err := router_identity.ReadRouterIdentity(w)
		if r == nil {
			return nil, rem, err
		}
		return r.KeysAndCert, rem, err
	}
	reg("readDest", func(a []string) (string, []Fail) {
		out, fails := kacOp("ReadDestination", readDest, destAllowedSpec, "C09")(a)
		w := unhx(a[0])
		d, rem, err := destination.ReadDestination(w)
		// twin: NewDestinationFromBytes
		d2, rem2, err2 := destination.NewDestinationFromBytes(w)
		if (err == nil) != (err2 == nil) || !bytes.Equal(rem, rem2) {
			fails = append(fails, fail("C19", "twin:ReadDestination/NewDestinationFromBytes", "differ on %s…", trunc(a[0], 40)))
		} else if err == nil {
			b1, _ := d.Bytes()
			b2, _ := d2.Bytes()
			if !bytes.Equal(b1, b2) {
				fails = append(fails, fail("C19", "twin:ReadDestination/NewDestinationFromBytes", "serialisations differ on %s…", trunc(a[0], 40)))
			}
		}
		// C09 on every route that hands out a Destination: the pointer-returning reader and the constructor
		if err2 == nil && d2 != nil && d2.KeysAndCert != nil && d2.KeyCertificate != nil {
			if s2, c2 := d2.KeyCertificate.SigningPublicKeyType(), d2.KeyCertificate.PublicKeyType(); !destAllowedSpec(s2, c2) {
				fails = append(fails, fail("C09", "policy:NewDestinationFromBytes", "NewDestinationFromBytes returned a Destination with prohibited types (signing %d, crypto %d)", s2, c2))
			}
		}
		// twin / C09 non-rejection: the wrapper accepts exactly what ReadKeysAndCert accepts with permitted types
		k, _, kerr := keys_and_cert.ReadKeysAndCert(w)
		if kerr == nil {
			s, c := k.KeyCertificate.SigningPublicKeyType(), k.KeyCertificate.PublicKeyType()
			if nd, nerr := destination.NewDestination(k); nerr == nil && nd != nil && !destAllowedSpec(s, c) {
				fails = append(fails, fail("C09", "policy:NewDestination", "NewDestination accepted a KeysAndCert with prohibited types (signing %d, crypto %d)", s, c))
			} else if nerr != nil && destAllowedSpec(s, c) {
				fails = append(fails, fail("C09", "dest-policy-mismatch:NewDestination", "NewDestination rejects permitted types (%d,%d): %v", s, c, nerr))
			}
			if destAllowedSpec(s, c) != (err == nil) {
				fails = append(fails, fail("C09", "dest-policy-mismatch", "ReadDestination accept=%v for types (%d,%d), specification says allowed=%v", err == nil, s, c, destAllowedSpec(s, c)))
			}
		} else if err == nil {
			fails = append(fails, fail("C19", "twin:ReadDestination/ReadKeysAndCert", "ReadDestination accepts what ReadKeysAndCert rejects"))
		}
		if err == nil {
			fails = append(fails, identityFails("Destination", w[:len(w)-len(rem)], &d)...)
			fails = append(fails, methodFails("C04", "Destination", &d)...)
			// … and still after every argument-free method ran once (a query that disturbs the receiver)
			for _, f := range identityFails("Destination", w[:len(w)-len(rem)], &d) {
				f.Sig += ":after-queries"
				fails = append(fails, f)
			}
		} else {
			fails = append(fails, methodFails("C20", "Destination", &d)...)
			fails = append(fails, destPolicyFails("ReadDestination (value returned with an error)", d)...)
		}
		return out, fails
	})
	reg("readRid", func(a []string) (string, []Fail) {
		out, fails := kacOp("ReadRouterIdentity", readRid, ridAllowedSpec, "C09")(a)
		w := unhx(a[0])
		r, rem, err := router_identity.ReadRouterIdentity(w)
		r2, rem2, err2 := router_identity.NewRouterIdentityFromBytes(w)
		if (err == nil) != (err2 == nil) || !bytes.Equal(rem, rem2) {
			fails = append(fails, fail("C19", "twin:ReadRouterIdentity/NewRouterIdentityFromBytes", "differ on %s…", trunc(a[0], 40)))
		} else if err == nil {
			b1, _ := r.Bytes()
			b2, _ := r2.Bytes()
			if !bytes.Equal(b1, b2) || !r.Equal(r2) {
				fails = append(fails, fail("C19", "twin:ReadRouterIdentity/NewRouterIdentityFromBytes", "values differ on %s…", trunc(a[0], 40)))
			}
		}
		if err2 == nil && r2 != nil && r2.KeysAndCert != nil && r2.KeyCertificate != nil {
			if s2, c2 := r2.KeyCertificate.SigningPublicKeyType(), r2.KeyCertificate.PublicKeyType(); !ridAllowedSpec(s2, c2) {
				fails = append(fails, fail("C09", "policy:NewRouterIdentityFromBytes", "NewRouterIdentityFromBytes returned a RouterIdentity with prohibited types (signing %d, crypto %d)", s2, c2))
			}
		}
		k, _, kerr := keys_and_cert.ReadKeysAndCert(w)
		if kerr == nil {
			s, c := k.KeyCertificate.SigningPublicKeyType(), k.KeyCertificate.PublicKeyType()
			if nr, nerr := router_identity.NewRouterIdentityFromKeysAndCert(k); nerr == nil && nr != nil && !ridAllowedSpec(s, c) {
				fails = append(fails, fail("C09", "policy:NewRouterIdentityFromKeysAndCert", "NewRouterIdentityFromKeysAndCert accepted prohibited types (signing %d, crypto %d)", s, c))
			} else if nerr != nil && ridAllowedSpec(s, c) {
				fails = append(fails, fail("C09", "rid-policy-mismatch:NewRouterIdentityFromKeysAndCert", "NewRouterIdentityFromKeysAndCert rejects permitted types (%d,%d): %v", s, c, nerr))
			}
			if ridAllowedSpec(s, c) != (err == nil) {
				fails = append(fails, fail("C09", "rid-policy-mismatch", "ReadRouterIdentity accept=%v for types (%d,%d), specification says allowed=%v", err == nil, s, c, ridAllowedSpec(s, c)))
			}
		}
		if err == nil {
			fails = append(fails, methodFails("C04", "RouterIdentity", r)...)
			// C07 on a RouterIdentity: Equal ⇔ same bytes; AsDestination keeps bytes and satisfies the destination policy
			// (every argument-free method, AsDestination included, has already run once above: the comparisons
			// below are against the consumed wire bytes, so a method that disturbs the receiver is seen too)
			raw := w[:len(w)-len(rem)]
			ad := r.AsDestination()
			ab, aerr := ad.Bytes()
			if aerr != nil || !bytes.Equal(ab, raw) {
				fails = append(fails, fail("C07", "rid-as-destination", "AsDestination().Bytes() differs from the identity's wire bytes"))
			}
			if destAllowedSpec(ad.KeyCertificate.SigningPublicKeyType(), ad.KeyCertificate.PublicKeyType()) {
				fails = append(fails, identityFails("RouterIdentity.AsDestination", raw, &ad)...)
			}
			if b, berr := r.Bytes(); berr != nil || !bytes.Equal(b, raw) {
				fails = append(fails, fail("C07", "rid-bytes-after-queries", "RouterIdentity.Bytes() no longer equals its wire bytes after the argument-free queries (AsDestination, …) ran"))
			}
			if fresh, _, ferr := router_identity.ReadRouterIdentity(raw); ferr != nil || !r.Equal(fresh) {
				fails = append(fails, fail("C07", "rid-equal-after-queries", "RouterIdentity is no longer Equal to a fresh parse of its wire bytes after the argument-free queries ran"))
			}
			s, c := ad.KeyCertificate.SigningPublicKeyType(), ad.KeyCertificate.PublicKeyType()
			if !destAllowedSpec(s, c) {
				fails = append(fails, fail("C09", "policy:AsDestination", "AsDestination yields prohibited types (%d,%d)", s, c))
			}
		} else if r != nil {
			fails = append(fails, methodFails("C20", "RouterIdentity", r)...)
			if r.KeysAndCert != nil && r.KeyCertificate != nil {
				if s, c := r.KeyCertificate.SigningPublicKeyType(), r.KeyCertificate.PublicKeyType(); !ridAllowedSpec(s, c) {
					fails = append(fails, fail("C09", "policy:ReadRouterIdentity (value returned with an error)", "the RouterIdentity returned with an error has prohibited types (%d,%d)", s, c))
				}
			}
		}
		return out, fails
	})
}

func init() {
	// lookup: every size lookup the library offers on one type code; canonical line = the answer
	// they must all give; C10 oracle = they agree with each other and with the specification table
	reg("lookup", func(a []string) (string, []Fail) {
		c := atoi(a[0])
		var fails []Fail
		type ans struct {
			name     string
			key, sig int // -1 = not reported by this lookup
			known    bool
			isCrypto bool
		}
		var as []ans
		l, err := signature.SignatureSize(c)
		as = append(as, ans{"signature.SignatureSize", -1, l, err == nil, false})
		i1, ok1 := key_certificate.SigningKeySizes[c]
		as = append(as, ans{"SigningKeySizes", i1.SigningPublicKeySize, i1.SignatureSize, ok1, false})
		g1, e1 := key_certificate.GetSigningKeySize(c)
		g2, e2 := key_certificate.GetSignatureSize(c)
		as = append(as, ans{"GetSigningKeySize/GetSignatureSize", g1, g2, e1 == nil && e2 == nil, false})
		if (e1 == nil) != (e2 == nil) {
			fails = append(fails, fail("C10", "lookup-disagree", "GetSigningKeySize and GetSignatureSize disagree on whether code %d is known", c))
		}
		if _, kerr := key_certificate.GetKeySizes(c, 0); (kerr == nil) != (e1 == nil) {
			fails = append(fails, fail("C10", "lookup-disagree", "GetKeySizes and GetSigningKeySize disagree on code %d", c))
		}
		j1, okc1 := key_certificate.CryptoKeySizes[c]
		as = append(as, ans{"CryptoKeySizes", j1.CryptoPublicKeySize, -1, okc1, true})
		g3, e3 := key_certificate.GetCryptoKeySize(c)
		as = append(as, ans{"GetCryptoKeySize", g3, -1, e3 == nil, true})
		if c >= 0 && c < 65536 {
			i2, ok2 := key_certificate.SignaturePublicKeySizes[uint16(c)]
			as = append(as, ans{"SignaturePublicKeySizes", i2, -1, ok2, false})
			ok, os_ := offline_signature.SigningPublicKeySize(uint16(c)), offline_signature.SignatureSize(uint16(c))
			as = append(as, ans{"offline_signature sizes", ok, os_, ok != 0 || os_ != 0, false})
			j2, okc2 := key_certificate.CryptoPublicKeySizes[uint16(c)]
			as = append(as, ans{"CryptoPublicKeySizes", j2, -1, okc2, true})
			if kc, _, kerr := key_certificate.NewKeyCertificate(cat([]byte{5, 0, 4}, u16(c), u16(c))); kerr == nil {
				as = append(as, ans{"KeyCertificate methods", kc.SigningPublicKeySize(), kc.SignatureSize(), kc.SigningPublicKeySize() != 0 || kc.SignatureSize() != 0, false})
				cs, cerr := kc.CryptoPublicKeySize()
				as = append(as, ans{"KeyCertificate.CryptoSize", kc.CryptoSize(), -1, kc.CryptoSize() != 0, true})
				as = append(as, ans{"KeyCertificate.CryptoPublicKeySize", cs, -1, cerr == nil, true})
			}
		}
		sp, sknown := specSig[c]
		cp, cknown := specCrypto[c]
		for _, x := range as {
			if x.isCrypto {
				if x.known != cknown || (cknown && x.key != cp) || (!x.known && x.key != 0) {
					fails = append(fails, fail("C10", "lookup-crypto:"+x.name, "%s on crypto code %d: known=%v size=%d, specification: known=%v size=%d", x.name, c, x.known, x.key, cknown, cp))
				}
				continue
			}
			bad := x.known != sknown
			if sknown && x.known {
				if (x.key >= 0 && x.key != sp[0]) || (x.sig >= 0 && x.sig != sp[1]) {
					bad = true
				}
			}
			if !x.known && (x.key > 0 || x.sig > 0) {
				bad = true
			}
			if bad {
				fails = append(fails, fail("C10", "lookup-sig:"+x.name, "%s on signing code %d: known=%v key=%d sig=%d, specification: known=%v %v", x.name, c, x.known, x.key, x.sig, sknown, sp))
			}
		}
		sg, cr := "unknown", "unknown"
		if ok1 {
			sg = fmt.Sprintf("%d/%d", i1.SigningPublicKeySize, i1.SignatureSize)
		}
		if okc1 {
			cr = itoa(j1.CryptoPublicKeySize)
		}
		return fmt.Sprintf("sig=%s crypto=%s", sg, cr), fails
	})
	reg("destAddr", func(a []string) (string, []Fail) {
		w := unhx(a[0])
		d, rem, err := destination.ReadDestination(w)
		if err != nil {
			return "err", nil
		}
		h, _ := d.Hash()
		b32, _ := d.Base32Address()
		b64, _ := d.Base64()
		fails := identityFails("Destination", w[:len(w)-len(rem)], &d)
		if hx(unhx(a[1])) != hx(func() []byte { x := sha256.Sum256(w[:len(w)-len(rem)]); return x[:] }()) {
			fails = append(fails, fail("HARNESS", "bad-oracle-answer", "the sha256 argument is not SHA-256 of the identity bytes"))
		}
		return fmt.Sprintf("ok hash=%s b32=%s b64=%s", hx(h[:]), hxs(b32), hxs(b64)), fails
	})
}

// identityFails: C07 on a parsed Destination whose consumed input bytes are `raw`.
func identityFails(name string, raw []byte, d *destination.Destination) []Fail {
	var fails []Fail
	h := sha256.Sum256(raw)
	got, err := d.Hash()
	if err != nil || got != h {
		fails = append(fails, fail("C07", "hash:"+name, "Hash() is not SHA-256 of the identity's wire bytes"))
	}
	addr, err := d.Base32Address()
	want := strings.ToLower(strings.TrimRight(i2pB32.EncodeToString(h[:]), "=")) + ".b32.i2p"
	if err != nil || addr != want || len(addr) != 60 {
		fails = append(fails, fail("C07", "b32:"+name, "Base32Address() = %q, want %q", addr, want))
	}
	b64, err := d.Base64()
	dec, derr := i2pB64.DecodeString(b64)
	if err != nil || derr != nil || !bytes.Equal(dec, raw) {
		fails = append(fails, fail("C07", "b64:"+name, "Base64() does not decode back to the wire bytes"))
	}
	// Equals: a second parse of the same bytes is equal; every single-byte difference that still parses is unequal
	d2, _, err2 := destination.ReadDestination(raw)
	if err2 != nil || !d.Equals(&d2) {
		fails = append(fails, fail("C07", "equals-refl:"+name, "two parses of the same bytes are not Equals"))
	}
	for _, pos := range []int{0, 100, 255, 256, 300, 383, 385, 386, len(raw) - 1} {
		if pos < 0 || pos >= len(raw) || pos == 384 {
			continue
		}
		m := append([]byte{}, raw...)
		m[pos] ^= 0x01
		d3, rem3, err3 := destination.ReadDestination(m)
		if err3 != nil || len(rem3) != 0 {
			continue
		}
		h3, _ := d3.Hash()
		a3, _ := d3.Base32Address()
		if d.Equals(&d3) || h3 == got || a3 == addr {
			fails = append(fails, fail("C07", "byte-sensitivity:"+name, "changing byte %d of the identity does not change Equals/Hash/Base32Address", pos))
			break
		}
	}
	return fails
}
