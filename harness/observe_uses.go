package main

// Size lookups *as the structure readers use them* (C10: "all size lookups the library offers … leaseset key
// validation … agree with each other and with the specification's table"). The tables in key_certificate are
// consulted inline by ReadEncryptedLeaseSet (+ EncryptedLeaseSet.Validate), by signature.ReadSignature and by
// the LeaseSet2 encryption-key validation; none of these is an exported getter, so they are observed through
// the readers: for every 16-bit code a wire image is built with the lengths the specification gives (or, for a
// code the specification does not know, with the commonest lengths) and the reader says what it took.
//
//	useELS(c)    → (accepted, blinded-key bytes, signature bytes) of ReadEncryptedLeaseSet for signing code c
//	useReadSig(c)→ (accepted, signature bytes consumed) of signature.ReadSignature for signing code c
//	useLS2Key(c) → which of the candidate lengths ReadLeaseSet2 + LeaseSet2.Validate accept for an encryption key of crypto code c
//
// `harness observe` sweeps all 65,536 codes (Gen/Observed.lean: use_*), the op `!useSizes <code>` evaluates one
// code with the C10 oracle so that a disagreement has a concrete replay.

import (
	"fmt"
	"sort"
	"strings"

	"github.com/go-i2p/common/data"
	"github.com/go-i2p/common/encrypted_leaseset"
	"github.com/go-i2p/common/lease_set2"
	"github.com/go-i2p/common/signature"
)

func ufill(n int, b byte) []byte {
	out := make([]byte, n)
	for i := range out {
		out[i] = b + byte(i)
	}
	return out
}

// useELS builds sig_type ‖ key[K] ‖ published ‖ expires ‖ flags=0 ‖ len=61 ‖ inner[61] ‖ signature[S]
func useELS(c, K, S int) (ok bool, key, sig int) {
	w := cat(u16(c), ufill(K, 1), u32(1700000000), u16(600), u16(0), u16(61), ufill(61, 7), ufill(S, 3))
	els, rem, err := encrypted_leaseset.ReadEncryptedLeaseSet(w)
	if err != nil || len(rem) != 0 {
		return false, 0, 0
	}
	sg := els.Signature()
	return true, len(els.BlindedPublicKey()), len(sg.Bytes())
}

func useReadSig(c int) (ok bool, n int) {
	w := ufill(1200, 9)
	s, rem, err := signature.ReadSignature(w, c)
	if err != nil {
		return false, 0
	}
	if len(s.Bytes()) != len(w)-len(rem) {
		return true, -2
	}
	return true, len(w) - len(rem)
}

var ls2KeyCandidates = []int{32, 33, 256, 800}

// useLS2Key: a LeaseSet2 of an Ed25519/X25519 destination with ONE encryption key of type c and length K and one lease
func useLS2Key(c, K int) bool {
	dest := cat(ufill(384, 1), []byte{5, 0, 4, 0, 7, 0, 4})
	w := cat(dest, u32(1700000000), u16(600), u16(0), u16(0), []byte{1}, u16(c), u16(K), ufill(K, 5),
		[]byte{1}, ufill(32, 2), u32(1), u32(1700000600), ufill(64, 3))
	ls, rem, err := lease_set2.ReadLeaseSet2(w)
	if err != nil || len(rem) != 0 {
		return false
	}
	ks := ls.EncryptionKeys()
	if len(ks) != 1 || int(ks[0].KeyType) != c || len(ks[0].KeyData) != K {
		return false
	}
	return ls.Validate() == nil // the reader only warns; the key validation proper is LeaseSet2.Validate
}

func ls2KeyAccepted(c int) []int {
	var acc []int
	cands := append([]int{}, ls2KeyCandidates...)
	if n, ok := specCrypto[c]; ok {
		cands = append(cands, n-1, n, n+1)
	}
	sort.Ints(cands)
	for i, k := range cands {
		if k <= 0 || (i > 0 && cands[i-1] == k) {
			continue
		}
		if useLS2Key(c, k) {
			acc = append(acc, k)
		}
	}
	return acc
}

// observeUses renders the three sweeps as Lean tables.
func observeUses() string {
	var b strings.Builder
	var els, rs, lk []string
	unconstrained := 0
	for c := 0; c < 65536; c++ {
		K, S := 32, 64
		if sp, ok := specSig[c]; ok {
			K, S = sp[0], sp[1]
		}
		if ok, k, s := useELS(c, K, S); ok {
			els = append(els, fmt.Sprintf("(%d, %d, %d)", c, k, s))
		}
		if ok, n := useReadSig(c); ok {
			rs = append(rs, fmt.Sprintf("(%d, -1, %d)", c, n))
		}
		acc := ls2KeyAccepted(c)
		all := len(ls2KeyCandidates)
		if _, ok := specCrypto[c]; ok {
			all = -1
		}
		switch {
		case len(acc) == 1:
			lk = append(lk, fmt.Sprintf("(%d, %d)", c, acc[0]))
		case len(acc) == all:
			unconstrained++ // a type the validation does not know: any length passes
		case len(acc) == 0 && all > 0:
			// a type the specification does not define and the reader refuses outright: a policy, not a size claim
		default:
			lk = append(lk, fmt.Sprintf("(%d, %d)", c, -len(acc)-1)) // marker: neither one length nor all
		}
	}
	fmt.Fprintf(&b, "/-- signing codes for which `ReadEncryptedLeaseSet` accepts an image built with the specification's lengths\n    (32/64 for codes the specification does not know): (code, blinded-key bytes, signature bytes) it returned -/\ndef use_els : List (Nat × Int × Int) := [%s]\n\n", strings.Join(els, ", "))
	fmt.Fprintf(&b, "/-- signing codes `signature.ReadSignature` knows: (code, -1, bytes consumed) -/\ndef use_readSignature : List (Nat × Int × Int) := [%s]\n\n", strings.Join(rs, ", "))
	fmt.Fprintf(&b, "/-- crypto codes for which the LeaseSet2 reader's key validation accepts exactly one length: (code, length);\n    a negative length marks a code that accepts several but not all candidate lengths -/\ndef use_ls2_key : List (Nat × Int) := [%s]\n\n", strings.Join(lk, ", "))
	fmt.Fprintf(&b, "/-- number of crypto codes for which every candidate key length passes the LeaseSet2 validation (unknown types) -/\ndef use_ls2_key_unconstrained : Nat := %d\n\n", unconstrained)
	return b.String()
}

func init() {
	reg("!useSizes", func(a []string) (string, []Fail) {
		c := atoi(a[0])
		var fails []Fail
		sp, sknown := specSig[c]
		K, S := 32, 64
		if sknown {
			K, S = sp[0], sp[1]
		}
		ok, k, s := useELS(c, K, S)
		if ok != sknown || (ok && (k != K || s != S)) {
			fails = append(fails, fail("C10", "use:ReadEncryptedLeaseSet", "ReadEncryptedLeaseSet on signing code %d with a %d-byte key and %d-byte signature: accepted=%v key=%d sig=%d; specification: known=%v", c, K, S, ok, k, s, sknown))
		}
		if sknown { // a wrong length must not be taken for the right one
			for _, d := range []int{-1, 1} {
				if ok2, k2, _ := useELS(c, K+d, S); ok2 && k2 != K {
					fails = append(fails, fail("C10", "use:ReadEncryptedLeaseSet", "ReadEncryptedLeaseSet takes a %d-byte blinded key for signing code %d (specification: %d)", k2, c, K))
				}
			}
		}
		rok, n := useReadSig(c)
		if rok != sknown || (rok && n != S) {
			fails = append(fails, fail("C10", "use:ReadSignature", "ReadSignature on signing code %d: accepted=%v consumed=%d; specification: known=%v length=%d", c, rok, n, sknown, S))
		}
		acc := ls2KeyAccepted(c)
		if cp, cknown := specCrypto[c]; cknown {
			if len(acc) != 1 || acc[0] != cp {
				fails = append(fails, fail("C10", "use:LeaseSet2-key-validation", "ReadLeaseSet2 + Validate accept key lengths %v for crypto code %d; specification: exactly %d", acc, c, cp))
			}
		} else if len(acc) != len(ls2KeyCandidates) && len(acc) != 0 {
			fails = append(fails, fail("C10", "use:LeaseSet2-key-validation", "ReadLeaseSet2 + Validate accept only key lengths %v for crypto code %d, which the specification does not define", acc, c))
		}
		// the same table as NewLeaseSet2 applies it — the key under test alone, behind a known-type key and behind an
		// unknown-type key (a per-key rule must hold at every position): accepted exactly with the table's length
		ctorAcc := func(prefix []lease_set2.EncryptionKey, K int) (bool, string) {
			d, _, derr := ctorDestination(7, 4, false, []byte{1, 2, 3, 4, 5, 6, 7, 8})
			if derr != nil || d == nil {
				return false, "no-destination"
			}
			keys := append(append([]lease_set2.EncryptionKey{}, prefix...), lease_set2.EncryptionKey{KeyType: uint16(c), KeyLen: uint16(K), KeyData: ufill(K, 5)})
			var opts data.Mapping
			var err error
			p := try(func() {
				_, err = lease_set2.NewLeaseSet2(*d, 1700000000, 600, 0, nil, opts, keys, seedLeases2([]byte{9}, 1), nil)
			})
			if p != "" {
				return false, "panic: " + p
			}
			return err == nil, ""
		}
		x25519 := lease_set2.EncryptionKey{KeyType: 4, KeyLen: 32, KeyData: ufill(32, 1)}
		unknown := lease_set2.EncryptionKey{KeyType: 0xFF00, KeyLen: 10, KeyData: ufill(10, 2)}
		if cp, cknown := specCrypto[c]; cknown {
			for name, prefix := range map[string][]lease_set2.EncryptionKey{"alone": nil, "after an X25519 key": {x25519}, "after an unknown-type key": {unknown}} {
				for _, K := range []int{cp, cp + 1} {
					got, why := ctorAcc(prefix, K)
					if why == "no-destination" {
						continue
					}
					if got != (K == cp) {
						fails = append(fails, fail("C10", "use:NewLeaseSet2-key-validation", "NewLeaseSet2 with a %d-byte key of crypto code %d %s: accepted=%v %s; specification: %d bytes", K, c, name, got, why, cp))
					}
				}
			}
		}
		return fmt.Sprintf("ok els=%v/%d/%d readsig=%v/%d ls2key=%v", ok, k, s, rok, n, acc), fails
	})
}
