package main

import (
	"encoding/hex"
	"fmt"
	"strconv"
	"strings"
	"sync"
)

// Case is one line of the operation stream shared by the library executor and the Lean driver.
type Case struct {
	Op   string
	Args []string
	Gen  string // generator that produced it (statistics only)
}

// Fail is a failure of a property oracle evaluated on the real library.
type Fail struct {
	Prop string `json:"prop"`
	Sig  string `json:"sig"` // classifier used to match known findings
	Msg  string `json:"msg"`
}

// OpFn executes one operation on the real library and returns the canonical observation line
// plus any property-oracle failures. Ops whose name starts with "!" have no Lean counterpart.
type OpFn func(a []string) (string, []Fail)

var ops = map[string]OpFn{}

// counters collects distribution facts the oracles see but the canonical lines do not show
// (e.g. how many generated structures really verified); reported in stats.json.
var counters = map[string]int{}

func count(key string) { counters[key]++ }

func reg(name string, f OpFn) { ops[name] = f }

// ---- canonical encodings -------------------------------------------------------------------

func hx(b []byte) string {
	if len(b) == 0 {
		return "-"
	}
	return hex.EncodeToString(b)
}

func hxs(s string) string { return hx([]byte(s)) }

func unhx(s string) []byte {
	if s == "-" {
		return []byte{}
	}
	b, err := hex.DecodeString(s)
	if err != nil {
		panic("harness: bad hex argument " + s)
	}
	return b
}

func atoi(s string) int {
	v, err := strconv.ParseInt(s, 10, 64)
	if err != nil {
		panic("harness: bad int argument " + s)
	}
	return int(v)
}

func itoa(v int) string { return strconv.Itoa(v) }

func okHex(b []byte, err error) string {
	if err != nil {
		return "err"
	}
	return "ok " + hx(b)
}

func fail(prop, sig, format string, a ...interface{}) Fail {
	f := Fail{Prop: prop, Sig: sig, Msg: fmt.Sprintf(format, a...)}
	trailMu.Lock()
	opTrail = append(opTrail, f)
	trailMu.Unlock()
	return f
}

// opTrail: the failures an operation has produced so far. If the operation itself is taken down by a panic of the
// library (an unprotected call further down), execCase reports the trail instead of losing it.
var (
	opTrail []Fail
	trailMu sync.Mutex
)

// isSuffix reports whether rem is exactly the tail of w (by content and position).
func isSuffix(w, rem []byte) bool {
	if len(rem) > len(w) {
		return false
	}
	return string(w[len(w)-len(rem):]) == string(rem)
}

func joinArgs(a []string) string { return strings.Join(a, " ") }

// ---- deterministic randomness ----------------------------------------------------------------

type Rng struct{ s uint64 }

func (r *Rng) next() uint64 {
	r.s += 0x9e3779b97f4a7c15
	z := r.s
	z = (z ^ (z >> 30)) * 0xbf58476d1ce4e5b9
	z = (z ^ (z >> 27)) * 0x94d049bb133111eb
	return z ^ (z >> 31)
}
func (r *Rng) intn(n int) int {
	if n <= 0 {
		return 0
	}
	return int(r.next() % uint64(n))
}
func (r *Rng) rng(lo, hi int) int  { return lo + r.intn(hi-lo+1) } // inclusive
func (r *Rng) coin(p float64) bool { return float64(r.next()%1000000)/1000000 < p }
func (r *Rng) bytes(n int) []byte {
	b := make([]byte, n)
	for i := range b {
		b[i] = byte(r.next())
	}
	return b
}
func (r *Rng) pick(xs ...int) int        { return xs[r.intn(len(xs))] }
func (r *Rng) pickS(xs ...string) string { return xs[r.intn(len(xs))] }

// G collects the generated cases of one run.
type G struct {
	R     *Rng
	Tier  string
	Cases []Case
	gen   string
	valid bool // generators draw only well-formed counts/types while set (fixed-shape rounds)
}

func (g *G) quick() bool { return g.Tier != "thorough" }

// n scales a case count with the tier.
func (g *G) n(quick, thorough int) int {
	if g.quick() {
		return quick
	}
	return thorough
}
func (g *G) in(gen string) { g.gen = gen }
func (g *G) emit(op string, args ...string) {
	g.Cases = append(g.Cases, Case{Op: op, Args: args, Gen: g.gen})
}

// privateResultFails — a byte-slice result of a package-level encoder/decoder belongs to the caller: keeping it
// across a later call (with other arguments), or writing into it (its contents and the spare capacity an append
// would use) and calling again with the same arguments, must change nothing. (History clause of the encode/decode
// properties: "decode(encode x) = x" is about the value the caller holds, not only about the moment it is returned.)
func privateResultFails(prop, name string, call func() []byte, other func()) []Fail {
	var fails []Fail
	r1 := call()
	if r1 == nil {
		return nil
	}
	snap := append([]byte{}, r1...)
	other()
	if !bytesEqual(r1, snap) {
		fails = append(fails, fail(prop, "history:result-overwritten-by-later-call:"+name, "the %d bytes %s returned changed when the function was called again with other arguments", len(snap), name))
		return fails
	}
	for i := range r1 {
		r1[i] ^= 0xFF
	}
	spare := r1[len(r1):cap(r1)]
	for i := range spare {
		spare[i] ^= 0xA5
	}
	r2 := call()
	if !bytesEqual(r2, snap) {
		fails = append(fails, fail(prop, "history:result-aliases-shared-state:"+name, "%s returns different bytes after the caller wrote into (or appended to) its earlier result", name))
	}
	for i := range spare { // leave shared state, if any, as it was
		spare[i] ^= 0xA5
	}
	for i := range r1 {
		r1[i] ^= 0xFF
	}
	return fails
}

func bytesEqual(a, b []byte) bool {
	if len(a) != len(b) {
		return false
	}
	for i := range a {
		if a[i] != b[i] {
			return false
		}
	}
	return true
}
