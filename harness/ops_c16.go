package main

// C16 — encrypted LeaseSet2 payload and destination blinding.
//
// The ops run the real library (encrypted_leaseset.EncryptInnerLeaseSet2 / DecryptInnerData /
// CreateBlindedDestination / VerifyBlindedSignature) and judge it clause by clause against the property
// sentence. Everything the oracles compare with is recomputed from the layout and recipe of the Lean
// model (lean/I2P/Crypto16.lean) with crypto that does not pass through /repo or go-i2p/crypto:
// golang.org/x/crypto (curve25519, hkdf, chacha20poly1305) and filippo.io/edwards25519.

import (
	"bytes"
	"crypto/sha256"
	"fmt"
	"io"
	"time"

	"filippo.io/edwards25519"
	"github.com/go-i2p/common/destination"
	"github.com/go-i2p/common/encrypted_leaseset"
	"github.com/go-i2p/common/keys_and_cert"
	"github.com/go-i2p/common/lease_set2"
	i2pcurve "github.com/go-i2p/crypto/curve25519"
	"github.com/go-i2p/crypto/kdf"
	"go.step.sm/crypto/x25519"
	xchacha "golang.org/x/crypto/chacha20poly1305"
	xcurve "golang.org/x/crypto/curve25519"
	xhkdf "golang.org/x/crypto/hkdf"
)

const (
	c16EncInfo   = "i2p-encrypted-leaseset-encryption" // kdf.PurposeEncryptedLeaseSetEncryption, as read
	c16BlindInfo = "i2p-blinding-factor"               // kdf.deriveAlphaUsingHKDF, as read
)

// c16Envelope wraps an encrypted blob into the wire form of an EncryptedLeaseSet (signature type 7, a fixed
// blinded key, published 1, expires 600, no flags, zero signature) and parses it with the library's reader:
// the only public way to obtain a value on which DecryptInnerData can be called.
func c16Envelope(blob []byte) (*encrypted_leaseset.EncryptedLeaseSet, error) {
	key := make([]byte, 32)
	key[0] = 1 // y = 1: the neutral element's encoding is never inspected by the reader
	w := cat(u16(7), key, u32(1), u16(600), u16(0), u16(len(blob)), blob, make([]byte, 64))
	els, rem, err := encrypted_leaseset.ReadEncryptedLeaseSet(w)
	if err != nil {
		return nil, err
	}
	if len(rem) != 0 {
		return nil, fmt.Errorf("remainder %d", len(rem))
	}
	return &els, nil
}

// c16Decrypt: DecryptInnerData on the enveloped blob; returns the bytes of the recovered LeaseSet2.
func c16Decrypt(blob, cookie []byte, key interface{}) ([]byte, error) {
	els, err := c16Envelope(blob)
	if err != nil {
		panic("harness: envelope rejected: " + err.Error())
	}
	v, err := els.DecryptInnerData(cookie, key)
	if err != nil {
		if v != nil {
			return nil, fmt.Errorf("error together with a value")
		}
		return nil, err
	}
	if v == nil {
		return nil, fmt.Errorf("nil value without error")
	}
	return v.Bytes()
}

// c16OpenIndependent recomputes the plaintext from the blob through the model's layout.
func c16OpenIndependent(blob, priv []byte) ([]byte, error) {
	if len(blob) < 32+12+16 {
		return nil, fmt.Errorf("short")
	}
	shared, err := xcurve.X25519(priv, blob[:32])
	if err != nil {
		return nil, err
	}
	key := make([]byte, 32)
	if _, err := io.ReadFull(xhkdf.New(sha256.New, shared, nil, []byte(c16EncInfo)), key); err != nil {
		return nil, err
	}
	aead, err := xchacha.New(key)
	if err != nil {
		return nil, err
	}
	return aead.Open(nil, blob[32:44], blob[44:], nil)
}

func c16Region(i, n int) string {
	switch {
	case i < 32:
		return "eph"
	case i < 44:
		return "nonce"
	case i < n-16:
		return "ct"
	}
	return "tag"
}

// clampX: the scalar X25519 really uses (RFC 7748 decodeScalar25519).
func clampX(k []byte) [32]byte {
	var c [32]byte
	copy(c[:], k)
	c[0] &= 248
	c[31] &= 127
	c[31] |= 64
	return c
}

// ---- blinding recipe, recomputed --------------------------------------------------------------

// c16Alpha: SetUniformBytes(HKDF-SHA-256(ikm = secret, salt = "YYYY-MM-DD", info = "i2p-blinding-factor", 64 bytes)).
func c16Alpha(secret []byte, date string) *edwards25519.Scalar {
	wide := make([]byte, 64)
	if _, err := io.ReadFull(xhkdf.New(sha256.New, secret, []byte(date), []byte(c16BlindInfo)), wide); err != nil {
		panic("harness: hkdf: " + err.Error())
	}
	s, err := edwards25519.NewScalar().SetUniformBytes(wide)
	if err != nil {
		panic("harness: scalar: " + err.Error())
	}
	return s
}

// c16BlindKey: A + alpha·B; ok=false when A is not a point encoding or the sum is the neutral element.
func c16BlindKey(a []byte, alpha *edwards25519.Scalar) ([]byte, bool) {
	p, err := new(edwards25519.Point).SetBytes(a)
	if err != nil {
		return nil, false
	}
	q := new(edwards25519.Point).Add(p, new(edwards25519.Point).ScalarBaseMult(alpha))
	if q.Equal(edwards25519.NewIdentityPoint()) == 1 {
		return nil, false
	}
	return q.Bytes(), true
}

func scalar32(s *edwards25519.Scalar) (o [32]byte) { copy(o[:], s.Bytes()); return }

func floorDiv(a, b int64) int64 {
	q := a / b
	if a%b != 0 && (a < 0) != (b < 0) {
		q--
	}
	return q
}

type blindRes struct {
	ok  bool
	b   []byte // Bytes() of the blinded destination
	dst destination.Destination
}

func c16Blind(d destination.Destination, secret []byte, t time.Time) blindRes {
	b, err := encrypted_leaseset.CreateBlindedDestination(d, secret, t)
	if err != nil {
		return blindRes{}
	}
	w, err := b.Bytes()
	if err != nil {
		return blindRes{ok: true, dst: b}
	}
	return blindRes{ok: true, b: w, dst: b}
}

func (x blindRes) same(y blindRes) bool { return x.ok == y.ok && bytes.Equal(x.b, y.b) }

// c16FixedDest: a Destination (ElGamal + Ed25519) with a fixed, valid signing key; used by `utcDay`.
func c16FixedDest() (destination.Destination, []byte) {
	blk := make([]byte, 384)
	for i := range blk {
		blk[i] = byte(i*7 + 3)
	}
	blk[0] = 1
	a := new(edwards25519.Point).ScalarBaseMult(c16Alpha(bytes.Repeat([]byte{9}, 32), "fixed")).Bytes()
	copy(blk[352:], a)
	w := cat(blk, encKeyCert(7, 0, nil))
	d, _, err := destination.ReadDestination(w)
	if err != nil {
		panic("harness: fixed destination rejected: " + err.Error())
	}
	return d, w
}

func init() {
	// !encRoundtrip <ls2> <recipient private key> <cookie> [bits]
	// bits = 1 (default): position i is flipped in bit i mod 8 (position 31 therefore in its top bit);
	// bits = 8: every bit of every position.
	reg("!encRoundtrip", func(a []string) (string, []Fail) {
		w, sk, cookie := unhx(a[0]), unhx(a[1]), unhx(a[2])
		nbits := 1
		if len(a) > 3 {
			nbits = atoi(a[3])
		}
		if len(sk) != 32 || len(cookie) != 32 || (nbits != 1 && nbits != 8) {
			panic("harness: encRoundtrip wants a 32-byte key, a 32-byte cookie and bits 1|8")
		}
		v, rem, err := lease_set2.ReadLeaseSet2(w)
		if err != nil || len(rem) != 0 {
			count("c16:enc:ls2-not-accepted")
			return "err ls2", nil
		}
		want, err := v.Bytes()
		if err != nil {
			count("c16:enc:ls2-no-bytes")
			return "err ls2-bytes", nil
		}
		pub, err := xcurve.X25519(sk, xcurve.Basepoint)
		if err != nil {
			panic("harness: x25519 base: " + err.Error())
		}
		var ck [32]byte
		copy(ck[:], cookie)
		// every public-key form the library documents, chosen by the cookie so that replay is deterministic
		var pubArg interface{}
		switch cookie[0] % 4 {
		case 0:
			pubArg = append([]byte{}, pub...)
		case 1:
			p := x25519.PublicKey(append([]byte{}, pub...))
			pubArg = &p
		case 2:
			pubArg = x25519.PublicKey(append([]byte{}, pub...))
		default:
			pubArg = i2pcurve.Curve25519PublicKey(append([]byte{}, pub...))
		}
		// the private key is passed as x25519.PrivateKey everywhere below; the other two documented forms
		// are exercised once, on the untouched blob
		privArg := x25519.PrivateKey(append([]byte{}, sk...))
		var fails []Fail
		blob, err := encrypted_leaseset.EncryptInnerLeaseSet2(&v, ck, pubArg)
		if err != nil {
			return "err encrypt", []Fail{fail("C16", "encrypt-error", "EncryptInnerLeaseSet2 fails on an accepted LeaseSet2 of %d bytes: %v", len(want), err)}
		}
		if len(blob) > 65535 {
			count("c16:enc:blob-too-long-for-envelope")
			return "ok oversize", nil
		}
		count("c16:enc:cases")
		// layout, through the model: eph(32) ‖ nonce(12) ‖ ct ‖ tag(16), ct as long as the plaintext
		if len(blob) != 32+12+len(want)+16 {
			fails = append(fails, fail("C16", "layout", "blob has %d bytes for a %d-byte LeaseSet2 (expected %d)", len(blob), len(want), 60+len(want)))
		} else if pt, err := c16OpenIndependent(blob, sk); err != nil {
			fails = append(fails, fail("C16", "layout", "independent X25519/HKDF/ChaCha20-Poly1305 over eph‖nonce‖ct‖tag fails: %v", err))
		} else if !bytes.Equal(pt, want) {
			fails = append(fails, fail("C16", "layout", "independent decryption yields different bytes"))
		}
		if blob[31]&0x80 != 0 {
			fails = append(fails, fail("C16", "layout:eph-noncanonical", "emitted ephemeral key has its top bit set"))
		}
		// round trip, in each documented form of the private key
		got, err := c16Decrypt(blob, cookie, privArg)
		if err != nil {
			fails = append(fails, fail("C16", "roundtrip", "decryption with the matching key fails: %v", err))
		} else if !bytes.Equal(got, want) {
			fails = append(fails, fail("C16", "roundtrip", "decryption returns a LeaseSet2 with different bytes"))
		}
		ptr := x25519.PrivateKey(append([]byte{}, sk...))
		if got, err := c16Decrypt(blob, cookie, &ptr); err != nil || !bytes.Equal(got, want) {
			fails = append(fails, fail("C16", "roundtrip:pointer-key", "decryption with the matching *x25519.PrivateKey fails or differs: %v", err))
		}
		if got, err := c16Decrypt(blob, cookie, append([]byte{}, sk...)); err != nil || !bytes.Equal(got, want) {
			fails = append(fails, fail("C16", "roundtrip:byte-slice-key", "decryption with the matching key passed as 32-byte []byte fails or differs: %v", err))
		}
		// a different private key (one that denotes a different X25519 scalar)
		h := sha256.Sum256(cat(sk, []byte("other")))
		flip := append([]byte{}, sk...)
		flip[0] ^= 0x08
		for _, other := range [][]byte{h[:], flip} {
			if clampX(other) == clampX(sk) {
				continue
			}
			if b, err := c16Decrypt(blob, cookie, x25519.PrivateKey(other)); err == nil {
				fails = append(fails, fail("C16", "wrong-key", "decryption with a different private key returns a value (%d bytes)", len(b)))
			}
		}
		// … also on a value that has already been decrypted successfully (history: right key, wrong key, right key,
		// and a by-value copy of the decrypted value), and with a modified ciphertext stored into a second envelope
		if shared, eerr := c16Envelope(blob); eerr == nil {
			if v, err := shared.DecryptInnerData(cookie, privArg); err != nil || v == nil {
				fails = append(fails, fail("C16", "roundtrip", "decryption with the matching key fails on a fresh value: %v", err))
			} else {
				copyOf := *shared
				for _, other := range [][]byte{h[:], flip} {
					if clampX(other) == clampX(sk) {
						continue
					}
					if v2, err := shared.DecryptInnerData(cookie, x25519.PrivateKey(other)); err == nil {
						n := 0
						if v2 != nil {
							bb, _ := v2.Bytes()
							n = len(bb)
						}
						fails = append(fails, fail("C16", "wrong-key:after-successful-decrypt", "a different private key returns a value (%d bytes) on an EncryptedLeaseSet that was decrypted with the right key before", n))
					}
					if _, err := copyOf.DecryptInnerData(cookie, x25519.PrivateKey(other)); err == nil {
						fails = append(fails, fail("C16", "wrong-key:after-successful-decrypt", "a different private key returns a value on a copy of an EncryptedLeaseSet that was decrypted with the right key before"))
					}
				}
				if v3, err := shared.DecryptInnerData(cookie, privArg); err != nil || v3 == nil {
					fails = append(fails, fail("C16", "roundtrip:repeat", "the matching key no longer decrypts after other keys were tried: %v", err))
				} else if b3, _ := v3.Bytes(); !bytes.Equal(b3, want) {
					fails = append(fails, fail("C16", "roundtrip:repeat", "a repeated decryption returns different bytes"))
				}
			}
		}
		// private keys that differ only in bits X25519 discards denote the same key: recorded, not judged
		eq := append([]byte{}, sk...)
		eq[0] ^= 0x01
		eq[31] ^= 0x80
		if _, err := c16Decrypt(blob, cookie, x25519.PrivateKey(eq)); err == nil {
			count("c16:enc:clamp-equivalent-key-decrypts")
		}
		// the cookie is not bound (documented in DESIGN.md): recorded, not judged
		oc := append([]byte{}, cookie...)
		oc[5] ^= 0x40
		if _, err := c16Decrypt(blob, oc, privArg); err == nil {
			count("c16:enc:other-cookie-decrypts")
		}
		// every single-byte modification
		flips, accepted := 0, map[string]bool{}
		for i := range blob {
			for b := 0; b < 8; b++ {
				if nbits == 1 && b != i%8 {
					continue
				}
				m := append([]byte{}, blob...)
				m[i] ^= byte(1) << uint(b)
				flips++
				out, err := c16Decrypt(m, cookie, privArg)
				if err != nil {
					continue
				}
				sig := "tamper:" + c16Region(i, len(blob))
				if i == 31 && b == 7 {
					sig = "tamper:eph-top-bit"
				}
				if accepted[sig] {
					continue
				}
				accepted[sig] = true
				fails = append(fails, fail("C16", sig, "flipping bit %d of byte %d of %d still decrypts (same bytes: %v)", b, i, len(blob), bytes.Equal(out, want)))
			}
		}
		counters["c16:enc:flips"] += flips
		// every value of byte 31 (the last byte of the ephemeral key) on a blob whose ephemeral key ends in 0x00
		// — about one encryption in 128 — so that a guard that only looks at the magnitude of that byte is seen
		for try := 0; try < 1500; try++ {
			b2, err := encrypted_leaseset.EncryptInnerLeaseSet2(&v, ck, pubArg)
			if err != nil || len(b2) < 32 || b2[31] != 0 {
				continue
			}
			count("c16:enc:eph-last-byte-zero-cases")
			for val := 1; val < 256; val++ {
				m := append([]byte{}, b2...)
				m[31] = byte(val)
				if out, err := c16Decrypt(m, cookie, privArg); err == nil {
					fails = append(fails, fail("C16", "tamper:eph-last-byte", "ephemeral key ending in 0x00: replacing byte 31 by 0x%02x still decrypts (same bytes: %v)", val, bytes.Equal(out, want)))
					break
				}
			}
			break
		}
		// after all the rejected ciphertexts above: the caller's key object is untouched and still decrypts the genuine
		// blob (an error path must not modify its arguments)
		if !bytes.Equal([]byte(privArg), sk) {
			fails = append(fails, fail("C16", "roundtrip:key-modified", "DecryptInnerData modified the caller's x25519.PrivateKey while rejecting a ciphertext"))
		}
		if got, err := c16Decrypt(blob, cookie, privArg); err != nil || !bytes.Equal(got, want) {
			fails = append(fails, fail("C16", "roundtrip:after-rejections", "decrypt(encrypt(x)) with the matching key object fails after that object was used on rejected ciphertexts: %v", err))
		}
		// resized blobs are outside the sentence ("modified byte"): recorded, not judged
		if len(blob) > 61 {
			if _, err := c16Decrypt(blob[:len(blob)-1], cookie, privArg); err == nil {
				count("c16:enc:truncated-blob-decrypts")
			}
		}
		if len(blob) < 65535 {
			if _, err := c16Decrypt(cat(blob, []byte{0}), cookie, privArg); err == nil {
				count("c16:enc:extended-blob-decrypts")
			}
		}
		return fmt.Sprintf("ok plain=%d blob=%d flips=%d", len(want), len(blob), flips), fails
	})

	// !blind <destination> <secret> <unix seconds> <zone offset seconds>
	reg("!blind", func(a []string) (string, []Fail) {
		db, secret, s, off := unhx(a[0]), unhx(a[1]), atoi64(a[2]), atoi(a[3])
		d, _, err := destination.ReadDestination(db)
		if err != nil {
			// signing types a Destination may not carry (Ed25519ph) can still reach the blinding code in a
			// Destination value assembled from a parsed KeysAndCert
			kac, _, kerr := keys_and_cert.ReadKeysAndCert(db)
			if kerr != nil {
				count("c16:blind:destination-not-accepted")
				return "err dest", nil
			}
			count("c16:blind:destination-from-keys-and-cert")
			d = destination.Destination{KeysAndCert: kac}
		}
		at := func(sec int64, o int) time.Time { return time.Unix(sec, 0).In(time.FixedZone("z", o)) }
		t := at(s, off)
		r1, r2 := c16Blind(d, secret, t), c16Blind(d, secret, t)
		var fails []Fail
		if r1.ok && r1.b == nil {
			fails = append(fails, fail("C16", "blind:no-bytes", "the blinded destination does not serialise"))
			return "ok unserialisable", fails
		}
		if !r1.same(r2) {
			fails = append(fails, fail("C16", "blind:nondeterministic", "two calls with the same arguments differ"))
		}
		sigType := d.KeyCertificate.SigningPublicKeyType()
		supported := sigType == 7 || sigType == 11
		if !supported && r1.ok {
			fails = append(fails, fail("C16", "blind:unsupported-type-accepted", "signing type %d is blinded", sigType))
		}
		if len(secret) < 32 && r1.ok {
			fails = append(fails, fail("C16", "blind:short-secret-accepted", "a %d-byte secret is accepted", len(secret)))
		}
		// "a deterministic function of destination, secret and UTC calendar day": every instant of the same UTC
		// day gives the same result, down to the last nanosecond before midnight
		for _, ns := range []int64{1, 499999999, 500000000, 999999999} {
			tn := time.Unix(s, ns).In(time.FixedZone("z", off))
			if !c16Blind(d, secret, tn).same(r1) {
				fails = append(fails, fail("C16", "blind:sub-second-dependent", "second %d plus %d ns (same UTC day) gives a different result than the whole second", s, ns))
				break
			}
		}
		// the Location must not matter
		for _, o := range []int{0, 14 * 3600, -12 * 3600, off + 3600} {
			if !c16Blind(d, secret, at(s, o)).same(r1) {
				fails = append(fails, fail("C16", "blind:location-dependent", "the same instant at offset %d and %d gives different results", off, o))
				break
			}
		}
		day := floorDiv(s, 86400)
		if !supported || len(secret) < 32 || len(db) < 387 {
			count("c16:blind:rejected-by-precondition")
			if r1.ok {
				return "ok", fails
			}
			return "err", fails
		}
		orig := db[352:384]
		date := t.UTC().Format("2006-01-02")
		year := t.UTC().Year()
		_, isPoint := c16BlindKey(orig, edwards25519.NewScalar())
		if year < 0 || year > 9999 || !isPoint {
			// outside the sentence (no four-digit UTC year / no Ed25519 key to blind): outcome recorded only
			count(fmt.Sprintf("c16:blind:edge:year-in-range=%v:point=%v:ok=%v", year >= 0 && year <= 9999, isPoint, r1.ok))
			if r1.ok {
				return "ok " + hx(r1.b[352:384]), fails
			}
			return "err", fails
		}
		alpha := c16Alpha(secret, date)
		wantKey, okKey := c16BlindKey(orig, alpha)
		if !okKey {
			count("c16:blind:neutral-element")
			return "err", fails
		}
		if !r1.ok {
			fails = append(fails, fail("C16", "blind:unexpected-error", "type %d, %d-byte secret, %s: error", sigType, len(secret), date))
			return "err", fails
		}
		count(fmt.Sprintf("c16:blind:ok:type%d", sigType))
		// function of the UTC calendar day: same day ⇒ same value, neighbouring day ⇒ different value
		for _, sec := range []int64{day * 86400, day*86400 + 86399} {
			if !c16Blind(d, secret, at(sec, -off)).same(r1) {
				fails = append(fails, fail("C16", "blind:within-day-differs", "instants %d and %d lie in the same UTC day but blind differently", s, sec))
				break
			}
		}
		for _, sec := range []int64{day*86400 - 1, (day + 1) * 86400} {
			if o := c16Blind(d, secret, at(sec, off)); o.ok && o.same(r1) {
				fails = append(fails, fail("C16", "blind:day-collision", "instants %d and %d lie in different UTC days but blind identically", s, sec))
				break
			}
		}
		// keeps encryption key, padding and certificate; the signing key changes
		bb := r1.b
		if len(bb) != len(db) {
			fails = append(fails, fail("C16", "blind:length-changed", "%d bytes became %d", len(db), len(bb)))
			return "ok", fails
		}
		cs := 256
		if n, ok := specCrypto[d.KeyCertificate.PublicKeyType()]; ok {
			cs = n
		}
		if !bytes.Equal(bb[:cs], db[:cs]) || !bytes.Equal(r1.dst.ReceivingPublic.Bytes(), d.ReceivingPublic.Bytes()) {
			fails = append(fails, fail("C16", "blind:enc-key-changed", "encryption key differs"))
		}
		if !bytes.Equal(bb[cs:352], db[cs:352]) || !bytes.Equal(r1.dst.Padding, d.Padding) {
			fails = append(fails, fail("C16", "blind:padding-changed", "padding differs"))
		}
		if !bytes.Equal(bb[384:], db[384:]) {
			fails = append(fails, fail("C16", "blind:cert-changed", "certificate differs"))
		}
		if bytes.Equal(bb[352:384], orig) {
			fails = append(fails, fail("C16", "blind:signing-key-unchanged", "signing key is the original one"))
		}
		// the recipe, recomputed
		if la, err := kdf.DeriveBlindingFactor(secret, date); err != nil || la != scalar32(alpha) {
			fails = append(fails, fail("C16", "blind:alpha-recipe", "kdf.DeriveBlindingFactor differs from HKDF(secret, salt=date, info)+reduction"))
		}
		if !bytes.Equal(bb[352:384], wantKey) {
			fails = append(fails, fail("C16", "blind:key-recipe", "blinded key is not A + alpha·B for the alpha of %s", date))
		}
		// the library's own check: true with the derived factor, false with any other
		if !encrypted_leaseset.VerifyBlindedSignature(r1.dst, d, scalar32(alpha)) {
			fails = append(fails, fail("C16", fmt.Sprintf("blind:verify-own-alpha:type%d", sigType), "VerifyBlindedSignature rejects the derived factor (signing type %d)", sigType))
		}
		one := edwards25519.NewScalar()
		if _, err := one.SetCanonicalBytes(append([]byte{1}, make([]byte, 31)...)); err != nil {
			panic("harness: scalar one")
		}
		nextDay := time.Unix((day+1)*86400, 0).UTC().Format("2006-01-02")
		var nonCanonical [32]byte
		copy(nonCanonical[:], alpha.Bytes())
		nonCanonical[31] |= 0xe0
		wrong := []struct {
			name string
			v    [32]byte
		}{
			{"plus-one", scalar32(edwards25519.NewScalar().Add(alpha, one))},
			{"minus-one", scalar32(edwards25519.NewScalar().Subtract(alpha, one))},
			{"zero", [32]byte{}},
			{"next-day", scalar32(c16Alpha(secret, nextDay))},
			{"other-secret", scalar32(c16Alpha(cat(secret, []byte{0}), date))},
			{"non-canonical", nonCanonical},
		}
		for _, wa := range wrong {
			if wa.v == scalar32(alpha) {
				continue
			}
			if encrypted_leaseset.VerifyBlindedSignature(r1.dst, d, wa.v) {
				fails = append(fails, fail("C16", "blind:verify-wrong-alpha:"+wa.name, "VerifyBlindedSignature accepts a factor that was not derived (%s)", wa.name))
			}
		}
		return "ok " + hx(bb[352:384]), fails
	})

	// utcDay <unix seconds> <zone offset seconds> — modelled (Crypto16.utcDay).
	// The date string the blinding derivation uses for the instant time.Unix(s,0).In(FixedZone(off)),
	// `err` when kdf.DeriveBlindingFactor refuses it. Tied to the library: CreateBlindedDestination succeeds
	// exactly when the line is `ok`, and its result is the blinding for exactly that string.
	reg("utcDay", func(a []string) (string, []Fail) {
		s, off := atoi64(a[0]), atoi(a[1])
		t := time.Unix(s, 0).In(time.FixedZone("z", off))
		date := t.UTC().Format("2006-01-02")
		secret := bytes.Repeat([]byte{0x5a}, 32)
		d, db := c16FixedDest()
		la, err := kdf.DeriveBlindingFactor(secret, date)
		r := c16Blind(d, secret, t)
		var fails []Fail
		if r.ok != (err == nil) {
			fails = append(fails, fail("C16", "utcday:library-differs", "CreateBlindedDestination ok=%v but the date %q derives ok=%v", r.ok, date, err == nil))
		}
		if err != nil {
			return "err", fails
		}
		if la != scalar32(c16Alpha(secret, date)) {
			fails = append(fails, fail("C16", "blind:alpha-recipe", "kdf.DeriveBlindingFactor differs from the recipe for %q", date))
		}
		if r.ok {
			if k, ok := c16BlindKey(db[352:384], c16Alpha(secret, date)); !ok || len(r.b) < 384 || !bytes.Equal(r.b[352:384], k) {
				fails = append(fails, fail("C16", "utcday:library-differs", "CreateBlindedDestination did not use the date %q", date))
			}
		}
		return "ok " + hxs(date), fails
	})
}
