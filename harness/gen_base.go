package main

// Generators for C13 (base32/base64). The quantifier of the property: all byte strings for the
// encoders (exhaustive up to length 2, random up to several KiB, the limit sizes) and all strings
// over the full byte alphabet for the decoders (exhaustive up to length 2, length 3 and longer over
// reduced alphabets, encodings with one mutation, random text).

import "strings"

var (
	encOps     = []string{"b32enc", "b32encNoPad", "b64enc"}
	decOps     = []string{"b32dec", "b32decNoPad", "b64dec"}
	safeEncOps = []string{"b32encSafe", "b64encSafe"}
	safeDecOps = []string{"b32decSafe", "b32decSafeNoPad", "b64decSafe"}
)

func (g *G) emitAll(ops []string, arg string) {
	for _, op := range ops {
		g.emit(op, arg)
	}
}

func genBaseEncoders(g *G) {
	r := g.R
	g.in("base-consts")
	g.emit("baseConsts")

	g.in("base-enc-exhaustive")
	g.emitAll(encOps, "-")
	g.emitAll(safeEncOps, "-")
	for a := 0; a < 256; a++ {
		g.emitAll(encOps, hx([]byte{byte(a)}))
		g.emitAll(safeEncOps, hx([]byte{byte(a)}))
	}
	for a := 0; a < 256; a++ {
		for b := 0; b < 256; b++ {
			g.emitAll(encOps, hx([]byte{byte(a), byte(b)}))
		}
	}

	g.in("base-enc-lengths") // every length around the group sizes, fixed fills and random content
	for n := 3; n <= 48; n++ {
		for _, fill := range []int{0x00, 0xff, -1} {
			x := r.bytes(n)
			if fill >= 0 {
				for i := range x {
					x[i] = byte(fill)
				}
			}
			g.emitAll(encOps, hx(x))
			g.emitAll(safeEncOps, hx(x))
		}
	}

	g.in("base-enc-random")
	for i := 0; i < g.n(400, 6000); i++ {
		var n int
		switch r.intn(4) {
		case 0:
			n = r.rng(3, 40)
		case 1:
			n = r.rng(41, 400)
		case 2:
			n = r.pick(32, 256, 384, 387, 391, 1024) // hash, key and destination sizes
		default:
			n = r.rng(401, 6144)
		}
		x := hx(r.bytes(n))
		g.emitAll(encOps, x)
		if r.coin(0.2) {
			g.emitAll(safeEncOps, x)
		}
	}
}

// reduced alphabets: members and non-members of both alphabets, padding, the skipped bytes, 0xFF
var (
	decAlphaLen3  = []byte{'a', 'm', 'z', '2', '7', 'A', 'Q', '0', '1', '8', '-', '~', '=', '\r', '\n', 0xff, '+', '/', ' ', 0x00}
	decAlphaTiny  = []byte{'m', '=', 0xff}
	decAlphaTiny2 = []byte{'e', '=', '\n', '!'}
)

func genBaseDecoders(g *G) {
	r := g.R
	g.in("base-dec-exhaustive")
	g.emitAll(decOps, "-")
	g.emitAll(safeDecOps, "-")
	for a := 0; a < 256; a++ {
		g.emitAll(decOps, hx([]byte{byte(a)}))
		g.emitAll(safeDecOps, hx([]byte{byte(a)}))
	}
	for a := 0; a < 256; a++ {
		for b := 0; b < 256; b++ {
			g.emitAll(decOps, hx([]byte{byte(a), byte(b)}))
		}
	}

	// texts whose RAW length (line breaks included) is a "nice" one — 8, 16, 52 (a .b32.i2p address), 56, 64 — while
	// the alphabet characters that remain after the line breaks are skipped form an impossible final group (1, 3 or 6
	// characters of a base32 group; 1 of a base64 group): the group structure is judged on the characters, not on
	// the raw length
	g.in("base-dec-nice-raw-length")
	for _, L := range []int{8, 16, 52, 56, 64} {
		for _, k := range []int{1, 2, 3, 5, 6} {
			if k >= L {
				continue
			}
			body := []byte(strings.Repeat("abcdefghijklmnopqrstuvwxyz234567", 3))[:L-k]
			for _, shape := range []int{0, 1, 2} {
				var txt []byte
				switch shape {
				case 0: // breaks at the end
					txt = cat(body, []byte(strings.Repeat("\n", k)))
				case 1: // breaks in the middle
					txt = cat(body[:len(body)/2], []byte(strings.Repeat("\r\n", k))[:k], body[len(body)/2:])
				default: // breaks at the start
					txt = cat([]byte(strings.Repeat("\n", k)), body)
				}
				g.emitAll(decOps, hx(txt))
				g.emitAll(safeDecOps, hx(txt))
			}
		}
	}

	g.in("base-dec-len3")
	for _, a := range decAlphaLen3 {
		for _, b := range decAlphaLen3 {
			for _, c := range decAlphaLen3 {
				g.emitAll(decOps, hx([]byte{a, b, c}))
			}
		}
	}

	// all texts of length 4..L over very small alphabets: every position of padding, 0xFF and a
	// foreign byte relative to the 8- and 4-character quanta
	g.in("base-dec-tiny-alphabet")
	for _, al := range [][]byte{decAlphaTiny, decAlphaTiny2} {
		maxLen := g.n(9, 11)
		if len(al) == 4 {
			maxLen = g.n(7, 9)
		}
		for n := 4; n <= maxLen; n++ {
			total := 1
			for i := 0; i < n; i++ {
				total *= len(al)
			}
			buf := make([]byte, n)
			for v := 0; v < total; v++ {
				x := v
				for i := 0; i < n; i++ {
					buf[i] = al[x%len(al)]
					x /= len(al)
				}
				g.emitAll(decOps, hx(buf))
			}
		}
	}

	g.in("base-dec-valid") // well-formed text, CR/LF sprinkled in
	for i := 0; i < g.n(300, 5000); i++ {
		x := r.bytes(r.pick(r.rng(0, 12), r.rng(0, 12), r.rng(13, 300), r.rng(301, 4096)))
		for ci, c := range []baseCodec{codec32, codec32NoPad, codec64} {
			s := []byte(c.refEncode(x))
			if r.coin(0.3) {
				for k := r.rng(1, 3); k > 0; k-- {
					p := r.intn(len(s) + 1)
					s = append(s[:p], append([]byte{byte(r.pick('\r', '\n'))}, s[p:]...)...)
				}
			}
			g.emit(decOps[ci], hx(s))
			if r.coin(0.2) {
				g.emit(safeDecOps[ci], hx(s))
			}
		}
	}

	g.in("base-dec-mutated") // an encoding with a single mutation
	muts := []string{"to=", "toCR", "toLF", "toFF", "toForeign", "insert", "delete", "append", "trailbits"}
	for i := 0; i < g.n(4000, 60000); i++ {
		x := r.bytes(r.pick(r.rng(1, 10), r.rng(1, 10), r.rng(1, 10), r.rng(11, 64), r.rng(65, 2048)))
		ci := r.intn(3)
		c := []baseCodec{codec32, codec32NoPad, codec64}[ci]
		s := []byte(c.refEncode(x))
		foreign := func() byte {
			for {
				b := byte(r.next())
				if r.coin(0.5) {
					b = byte(r.pick('A', 'Z', '0', '1', '8', '9', '+', '/', '_', ' ', '.', 0x00, 0x7f, 0x80, 0xfe, '-', '~', 'a', '2'))
				}
				if b != '=' && b != '\r' && b != '\n' && indexByte(c.alpha, b) < 0 {
					return b
				}
			}
		}
		anyByte := func() byte {
			switch r.intn(6) {
			case 0:
				return '='
			case 1:
				return 0xff
			case 2:
				return byte(r.pick('\r', '\n'))
			case 3:
				return foreign()
			default:
				return c.alpha[r.intn(len(c.alpha))]
			}
		}
		// mutations near the end matter most (padding, final quantum): bias the position
		pos := func(n int) int {
			if n <= 1 || r.coin(0.4) {
				return r.intn(n)
			}
			lo := n - 10
			if lo < 0 {
				lo = 0
			}
			return r.rng(lo, n-1)
		}
		m := muts[r.intn(len(muts))]
		g.gen = "base-dec-mutated:" + m
		switch m {
		case "to=":
			s[pos(len(s))] = '='
		case "toCR":
			s[pos(len(s))] = '\r'
		case "toLF":
			s[pos(len(s))] = '\n'
		case "toFF":
			s[pos(len(s))] = 0xff
		case "toForeign":
			s[pos(len(s))] = foreign()
		case "insert":
			p := pos(len(s) + 1)
			s = append(s[:p], append([]byte{anyByte()}, s[p:]...)...)
		case "delete":
			p := pos(len(s))
			s = append(s[:p], s[p+1:]...)
		case "append":
			for k := r.rng(1, 3); k > 0; k-- {
				s = append(s, anyByte())
			}
		case "trailbits": // a different character at the last data position (non-zero trailing bits)
			p := len(s) - 1
			for p > 0 && s[p] == '=' {
				p--
			}
			s[p] = c.alpha[r.intn(len(c.alpha))]
		}
		g.emit(decOps[ci], hx(s))
		if r.coin(0.15) {
			g.emit(safeDecOps[ci], hx(s))
		}
	}

	g.in("base-dec-random-text") // random strings over alphabet ∪ {'=', LF, 0xFF}
	for i := 0; i < g.n(1500, 20000); i++ {
		ci := r.intn(3)
		c := []baseCodec{codec32, codec32NoPad, codec64}[ci]
		n := r.pick(r.rng(1, 9), r.rng(1, 9), r.rng(10, 24), r.rng(25, 200))
		s := make([]byte, n)
		for j := range s {
			switch {
			case r.coin(0.06):
				s[j] = '='
			case r.coin(0.03):
				s[j] = '\n'
			case r.coin(0.04):
				s[j] = 0xff
			default:
				s[j] = c.alpha[r.intn(len(c.alpha))]
			}
		}
		// often end in a run of padding
		if r.coin(0.4) {
			pb := byte('=')
			if r.coin(0.3) {
				pb = 0xff
			}
			for k := r.rng(1, 7); k > 0; k-- {
				s = append(s, pb)
			}
		}
		g.emit(decOps[ci], hx(s))
	}
}

func indexByte(s string, b byte) int {
	for i := 0; i < len(s); i++ {
		if s[i] == b {
			return i
		}
	}
	return -1
}

// genBaseLimits: every Safe variant at 0, 1, and its documented limit ± 1.
func genBaseLimits(g *G) {
	g.in("base-limits")
	const maxEnc = 10 * 1024 * 1024
	const maxDec32 = (maxEnc*8 + 4) / 5
	const maxDec64 = ((maxEnc + 2) / 3) * 4
	around := func(op string, max int) {
		for _, n := range []int{0, 1, 2, max - 8, max - 1, max, max + 1, max + 8} {
			if g.quick() && (n == max-8 || n == max+8) {
				continue
			}
			g.emit(op, itoa(n))
		}
	}
	around("b32encSafeLen", maxEnc)
	around("b64encSafeLen", maxEnc)
	around("b32decSafeLen", maxDec32)
	around("b32decSafeNoPadLen", maxDec32)
	around("b64decSafeLen", maxDec64)
	// the limit counts every byte: oversize input whose excess consists of line breaks is still oversize,
	// and input of exactly the limit that contains line breaks is still admitted by the guard
	for _, c := range []struct {
		name string
		max  int
	}{{"b32", maxDec32}, {"b32nopad", maxDec32}, {"b64", maxDec64}} {
		for _, cb := range [][2]int{{c.max, 1}, {c.max - 1, 2}, {c.max - 1, 1}, {c.max - 7, 8}, {1, 1}, {0, 1}, {0, 2}} {
			g.emit("!decSafeBreaks", c.name, itoa(cb[0]), itoa(cb[1]))
		}
	}
}

func init() {
	suites["C13"] = func(g *G) { genBaseEncoders(g); genBaseDecoders(g); genBaseLimits(g) }
}
