package main

// Generators of the C18 suite: real encodings of every structure (reusing the spec-directed generators of
// the parse suites, so the values carry genuine signatures, offline blocks, options, multiple leases and
// addresses), each emitted as
//   !captight   <kind> <hex> <aux>                 every parser/constructor path of the kind
//   !concurrent <kind>[/<path>] <hex> <aux> <R>    the primary parser for every value, the alternative
//                                                  constructor paths for a share of them

var c18KindOfOp = map[string]string{
	"readLS2": "ls2", "readMeta": "meta", "readELS": "els", "readLS": "ls", "readRI": "ri", "readRA": "ra",
	"readSig": "sig", "readOffSig": "offsig", "readLease": "lease", "readLease2": "lease2",
	"readCert": "cert", "readKeyCert": "keycert", "readKac": "kac", "readDest": "dest", "readRid": "rid",
}

type c18Val struct {
	kind string
	hex  string
	aux  string
}

func genC18(g *G) {
	rounds := itoa(g.n(20, 200))
	perKind := g.n(8, 16) // values per kind that get the (expensive) concurrent run
	vals := c18Pool(g)

	// concurrent runs: perKind accepted values per kind, SPREAD over the pool (its first entries are the ordinary ones)
	accepted := map[string][]c18Val{}
	var kinds []string
	for _, v := range vals {
		if genBuild(v.kind, unhx(v.hex), atoi(v.aux)) == nil {
			continue // rejected inputs carry no shared value
		}
		if len(accepted[v.kind]) == 0 {
			kinds = append(kinds, v.kind)
		}
		accepted[v.kind] = append(accepted[v.kind], v)
	}
	for _, kind := range kinds {
		vs := accepted[kind]
		n := perKind
		if n > len(vs) {
			n = len(vs)
		}
		for i := 0; i < n; i++ {
			v := vs[i*len(vs)/n]
			g.gen = "c18-concurrent-" + v.kind
			g.emit("!concurrent", v.kind, v.hex, v.aux, rounds)
			// alternative constructor paths: a few values per kind
			if i < g.n(2, 10) {
				for pi, p := range c18Paths[v.kind] {
					if pi == 0 {
						continue
					}
					g.gen = "c18-concurrent-" + v.kind + "-" + p.name
					g.emit("!concurrent", v.kind+"/"+p.name, v.hex, v.aux, rounds)
				}
			}
		}
	}
	// captight for everything (cheap) — after the concurrent runs, so that those meet first-use state untouched
	g.in("c18-captight")
	for _, v := range vals {
		g.gen = "c18-captight-" + v.kind
		g.emit("!captight", v.kind, v.hex, v.aux)
	}
}

// genBuild: c18Build at GENERATION time. A library panic must not take the generator (and with it the whole run)
// down: the value is reported as present, so that the operation is emitted, and the panic is reproduced — and
// reported together with its input — when the operation runs under execCase's recover.
type panickedAtGeneration struct{}

func genBuild(kind string, w []byte, aux int) (val interface{}) {
	defer func() {
		if r := recover(); r != nil {
			val = panickedAtGeneration{}
		}
	}()
	v, _, _ := c18Build(kind, w, aux)
	return v
}

// c18Pool: encodings of every structure kind (kind, wire bytes, auxiliary argument of the reader).
func c18Pool(g *G) []c18Val {
	var vals []c18Val
	add := func(kind, hex, aux string) { vals = append(vals, c18Val{kind, hex, aux}) }
	// mappings in descending key order with many pairs: anything that reorders on first use has work to do
	for _, n := range []int{16, 9, 5} {
		var ps [][2][]byte
		for i := n; i > 0; i-- {
			ps = append(ps, [2][]byte{[]byte{byte('a' + i), byte('a' + g.R.intn(26))}, g.R.bytes(g.R.rng(0, 6))})
		}
		add("mapping", hx(encMapping(ps)), "0")
	}
	// composites whose repeated parts are in no particular order (zig-zag dates, costs, keys): anything that sorts,
	// deduplicates or caches on first use has something to change. Correctly signed, so that they verify.
	{
		id := g.newIdentity(7, 4, false, nil)
		now := uint64(g.ts()) * 1000
		lb := cat(id.bytes, append([]byte{0x01}, g.R.bytes(255)...), g.newSigner(7).pub)
		lb = append(lb, 4)
		for _, d := range []uint64{3000, 1000, 4000, 2000} {
			lb = append(lb, cat(g.R.bytes(32), u32(uint32(g.R.next())), u64(now+d))...)
		}
		add("ls", hx(cat(lb, id.sg.sign(lb))), "0")
		body := cat(id.bytes, u32(g.ts()), u16(600), u16(0), encMapping([][2][]byte{{[]byte("b"), []byte("2")}, {[]byte("a"), []byte("1")}}),
			[]byte{2}, u16(4), u16(32), g.R.bytes(32), u16(0), u16(256), append([]byte{0x01}, g.R.bytes(255)...), []byte{3})
		for _, d := range []uint32{300, 100, 200} {
			body = append(body, cat(g.R.bytes(32), u32(uint32(g.R.next())), u32(g.ts()+d))...)
		}
		add("ls2", hx(cat(body, id.sg.sign(cat([]byte{3}, body)))), "0")
		mb := cat(id.bytes, u32(g.ts()), u16(600), u16(0), encMapping([][2][]byte{{[]byte("z"), []byte("1")}, {[]byte("y"), []byte("2")}}), []byte{3})
		for _, c := range []byte{9, 1, 5} {
			mb = cat(mb, g.R.bytes(32), []byte{3}, u32(g.ts()+uint32(c)), []byte{c}, encMapping(nil))
		}
		add("meta", hx(cat(mb, id.sg.sign(cat([]byte{7}, mb)))), "0")
	}
	for _, v := range vals[len(vals)-3:] { // the three fixtures above must be accepted and verify
		val := genBuild(v.kind, unhx(v.hex), 0)
		if _, crashed := val.(panickedAtGeneration); crashed {
			continue // the operations on this value will report the panic with its input
		}
		if val == nil {
			count("c18-pool:ordered-parts-fixture-not-accepted:" + v.kind)
			continue
		}
		if has, ok := verifySucceeds(val); !has || !ok {
			count("c18-pool:ordered-parts-fixture-does-not-verify:" + v.kind)
		}
	}
	// signed composites and small structures from the STRUCT generators (run on a scratch collector)
	tmp := &G{R: g.R, Tier: g.Tier}
	genSignedStructs(tmp, g.n(12, 60))
	genSmallStructs(tmp, g.n(12, 80))
	genCerts(tmp, g.n(20, 200))
	for _, c := range tmp.Cases {
		kind, ok := c18KindOfOp[c.Op]
		if !ok {
			continue
		}
		aux := "0"
		if len(c.Args) > 1 {
			aux = c.Args[1]
		}
		add(kind, c.Args[0], aux)
	}
	// identities: every supported (signing, crypto) pair, NULL certificates, extra payload — read as
	// KeysAndCert, Destination and RouterIdentity
	for _, s := range supSig {
		for _, c := range supCrypto {
			b := hx(g.encIdentity(encKeyCert(s, c, nil)))
			add("kac", b, "0")
			add("dest", b, "0")
			add("rid", b, "0")
		}
	}
	for i := 0; i < g.n(12, 120); i++ {
		b := hx(g.genIdentity())
		add("kac", b, "0")
		add("dest", b, "0")
		add("rid", b, "0")
	}
	for _, b := range [][]byte{g.encIdentity([]byte{0, 0, 0}), g.encIdentity(encKeyCert(7, 4, g.R.bytes(5))), g.encIdentity(encKeyCert(7, 0, nil))} {
		for _, k := range []string{"kac", "dest", "rid"} {
			add(k, hx(b), "0")
		}
	}
	// key certificates for every preset constructor
	for _, p := range [][2]int{{7, 4}, {0, 0}, {1, 0}, {2, 0}, {11, 4}, {7, 0}} {
		add("keycert", hx(encKeyCert(p[0], p[1], nil)), "0")
		add("cert", hx(encKeyCert(p[0], p[1], nil)), "0")
	}
	add("cert", "000000", "0")
	// key certificates with type codes the size tables do not know (unassigned, experimental range) and with the
	// rarely used ones (ML-KEM hybrids, Ed25519ph, RSA): the "unknown type" branches of the read-only lookups
	for _, p := range [][2]int{{9, 0}, {65280, 4}, {7, 65280}, {7, 5}, {7, 6}, {7, 7}, {8, 4}, {4, 0}, {3, 0}} {
		add("keycert", hx(encKeyCert(p[0], p[1], nil)), "0")
	}
	// mappings
	for i := 0; i < g.n(30, 300); i++ {
		b, _ := g.genMappingBytes()
		add("mapping", hx(b), "0")
	}
	add("mapping", hx(encMapping(g.genPairs(12))), "0")

	return vals
}

func init() { suites["C18"] = genC18 }
