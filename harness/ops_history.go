package main

// !history <kind>[/<path>] <hex> <aux> — properties that quantify over HISTORIES, checked on the real library by
// reflection over every structure kind and every parser/constructor path (the C18 path table):
//
//	H1 queries          every argument-free method of the value (and of the structures it hands out) is called once;
//	                    the serialisation afterwards equals the one before           (C01: "serialising the returned
//	                    value yields exactly the bytes the parser consumed" — not only the first time; C18: "read-only
//	                    operations mutate neither the receiver …")
//	H2 results          every byte slice a serialiser or accessor returned is overwritten — its contents, and the spare
//	                    capacity an `append` by the caller would write into; the value's serialisation, its key types and
//	                    the caller's input buffer are unchanged afterwards            (C08 second sentence; C01/C03: the
//	                    consumed bytes and the remainder are still the input; C09: a validated identity cannot turn into a
//	                    prohibited one; C19: a constructed value and the parsed one stay equal)
//	H3 verify-after-edit if verification succeeded, every byte field reachable through the accessors' results is edited
//	                    in turn and verification repeated: success is only acceptable while the serialisation is still
//	                    the signed one                                                (C05)
//
// Accessors that hand out internal storage *by contract* are exempt from the content half of H2 (list below, each with
// the doc comment that says so); the spare-capacity half has no exemption for serialisers.
import (
	"bytes"
	"crypto/sha256"
	"fmt"
	"reflect"
	"sort"
	"strings"
)

// Which results are copies BY CONTRACT (C08: "byte slices handed out by accessors that are documented to return
// copies"):
//   - the serialisers of structure types — Bytes / RawBytes / Serialize, and Data where it serialises the whole value
//     (Mapping.Data, KeyCertificate.Data): "returns the binary representation … serializes back to []byte";
//   - accessors whose doc comment promises a copy (transcribed from /repo's doc comments, file named for each).
//
// Everything else (Certificate.Data — "returns the payload", the conversions Integer.Bytes / I2PString results,
// Date/Hash arrays) may be a view by contract: aliasing there is counted, never reported.
var documentedCopies = map[string]string{
	"EncryptedLeaseSet.BlindedPublicKey":   "encrypted_leaseset.go: 'returns a copy of the blinded signing public key'",
	"EncryptedLeaseSet.EncryptedInnerData": "encrypted_leaseset.go: 'returns a copy … Callers cannot mutate the internal state through the returned slice'",
	"OfflineSignature.Signature":           "offline_signature.go: 'returns a copy of the signature bytes'",
	"OfflineSignature.TransientPublicKey":  "offline_signature.go: 'returns a copy of the transient signing public key bytes'",
	"Signature.Bytes":                      "signature_struct.go: 'A defensive copy is returned'",
	"MetaLeaseSet.SortEntriesByCost":       "meta_leaseset.go: 'returns a copy of entries sorted by cost'",
	"RouterIdentity.AsDestination":         "router_identity_struct.go: 'Returns a deep copy; mutating the returned Destination does not affect the original RouterIdentity'",
}

func copyByContract(recv reflect.Type, tn, method string) bool {
	if _, ok := documentedCopies[tn+"."+method]; ok {
		return true
	}
	e := recv
	for e.Kind() == reflect.Ptr {
		e = e.Elem()
	}
	if e.Kind() != reflect.Struct {
		return false
	}
	switch method {
	case "Bytes", "RawBytes", "Serialize":
		return true
	case "Data":
		return tn != "Certificate"
	}
	return false
}

// identityKinds: values whose serialisation is what an identity hash / address is computed from (C07)
var identityKinds = map[string]bool{"kac": true, "dest": true, "rid": true, "cert": true, "keycert": true}

// c08Kinds: the structures C08 names (RouterAddress, RouterInfo and Mapping are not among them).
var c08Kinds = map[string]bool{"cert": true, "keycert": true, "kac": true, "dest": true, "rid": true, "sig": true, "offsig": true,
	"lease": true, "lease2": true, "ls": true, "els": true, "ls2": true, "meta": true}

func histSerialiser(v reflect.Value) func() ([]byte, bool) {
	for _, name := range []string{"Bytes", "Data", "Serialize"} {
		m := v.MethodByName(name)
		if !m.IsValid() || m.Type().NumIn() != 0 {
			continue
		}
		t := m.Type()
		if t.NumOut() >= 1 && t.Out(0).Kind() == reflect.Slice && t.Out(0).Elem().Kind() == reflect.Uint8 {
			return func() (out []byte, ok bool) {
				defer func() {
					if recover() != nil {
						out, ok = nil, false
					}
				}()
				r := m.Call(nil)
				if len(r) == 2 && !r[1].IsNil() {
					return nil, false
				}
				return append([]byte{}, r[0].Bytes()...), true
			}
		}
	}
	return nil
}

// byteSliceOf: the result as a []byte sharing the result's memory (byte slices and named byte-slice types).
func byteSliceOf(r reflect.Value) ([]byte, bool) {
	if r.Kind() == reflect.Slice && r.Type().Elem().Kind() == reflect.Uint8 && !r.IsNil() {
		return r.Bytes(), true
	}
	return nil, false
}

type histHandle struct {
	name string
	b    []byte
}

// collectByteFields walks exported fields / pointers / slices below v and collects the byte slices found.
func collectByteFields(name string, v reflect.Value, depth int, out *[]histHandle, seen map[uintptr]bool) {
	if depth > 4 || len(*out) >= 48 || !v.IsValid() {
		return
	}
	switch v.Kind() {
	case reflect.Ptr, reflect.Interface:
		if v.IsNil() {
			return
		}
		if v.Kind() == reflect.Ptr {
			if seen[v.Pointer()] {
				return
			}
			seen[v.Pointer()] = true
		}
		collectByteFields(name, v.Elem(), depth+1, out, seen)
	case reflect.Struct:
		for i := 0; i < v.NumField(); i++ {
			if v.Type().Field(i).PkgPath != "" { // unexported: not reachable by a caller
				continue
			}
			collectByteFields(name+"."+v.Type().Field(i).Name, v.Field(i), depth+1, out, seen)
		}
	case reflect.Slice:
		if b, ok := byteSliceOf(v); ok {
			if len(b) > 0 {
				*out = append(*out, histHandle{name, b})
			}
			return
		}
		for i := 0; i < v.Len() && i < 3; i++ {
			collectByteFields(fmt.Sprintf("%s[%d]", name, i), v.Index(i), depth+1, out, seen)
		}
	case reflect.Array:
		if v.Type().Elem().Kind() != reflect.Uint8 {
			for i := 0; i < v.Len() && i < 3; i++ {
				collectByteFields(fmt.Sprintf("%s[%d]", name, i), v.Index(i), depth+1, out, seen)
			}
		}
	}
}

func histKeyTypes(val interface{}) (string, bool) {
	rv := reflect.ValueOf(val)
	for _, path := range [][]string{{"KeyCertificate"}, {"Destination", "KeyCertificate"}} {
		cur := rv
		ok := true
		for _, step := range path {
			if cur.Kind() == reflect.Ptr && cur.IsNil() {
				ok = false
				break
			}
			if m := cur.MethodByName(step); m.IsValid() && m.Type().NumIn() == 0 && m.Type().NumOut() >= 1 {
				func() {
					defer func() {
						if recover() != nil {
							ok = false
						}
					}()
					cur = m.Call(nil)[0]
				}()
			} else {
				e := cur
				for e.Kind() == reflect.Ptr && !e.IsNil() {
					e = e.Elem()
				}
				if e.Kind() != reflect.Struct {
					ok = false
					break
				}
				f := e.FieldByName(step)
				if !f.IsValid() {
					ok = false
					break
				}
				cur = f
			}
			if !ok {
				break
			}
		}
		if !ok || !cur.IsValid() || (cur.Kind() == reflect.Ptr && cur.IsNil()) {
			continue
		}
		s, c := cur.MethodByName("SigningPublicKeyType"), cur.MethodByName("PublicKeyType")
		if !s.IsValid() || !c.IsValid() {
			if cur.CanAddr() {
				s, c = cur.Addr().MethodByName("SigningPublicKeyType"), cur.Addr().MethodByName("PublicKeyType")
			}
		}
		if s.IsValid() && c.IsValid() {
			var out string
			func() {
				defer func() { recover() }()
				out = fmt.Sprintf("%v/%v", s.Call(nil)[0], c.Call(nil)[0])
			}()
			if out != "" {
				return out, true
			}
		}
	}
	return "", false
}

// histSubjects: the value, the structures it shares by pointer or hands out, and (second level) what those hand out
// in turn — RouterInfo → RouterIdentity → Certificate, LeaseSet2 → Destination → KeyCertificate …
func histSubjects(root reflect.Value) []c18Subject {
	out := append([]c18Subject{}, c18Subjects(root, true, 6)...)
	seen := map[uintptr]bool{}
	for _, s := range out {
		seen[s.v.Pointer()] = true
	}
	for _, s := range append([]c18Subject{}, out[1:]...) {
		var nested []c18Subject
		func() {
			defer func() { recover() }()
			nested = c18Subjects(s.v, true, 5)
		}()
		for _, n := range nested {
			if len(out) >= 16 {
				return out
			}
			if n.v.Kind() == reflect.Ptr && !n.v.IsNil() && !seen[n.v.Pointer()] {
				seen[n.v.Pointer()] = true
				out = append(out, c18Subject{s.key + "→" + n.key, n.v})
			}
		}
	}
	return out
}

// histDerived: for values with Hash()/Base32Address(), a checker that compares them with SHA-256 of the given
// (current) serialisation; returns "" when consistent.
func histDerived(root reflect.Value) func(cur []byte) string {
	hm, am := root.MethodByName("Hash"), root.MethodByName("Base32Address")
	if !hm.IsValid() && !am.IsValid() {
		return nil
	}
	return func(cur []byte) (msg string) {
		defer func() {
			if recover() != nil {
				msg = ""
			}
		}()
		want := sha256.Sum256(cur)
		if hm.IsValid() && hm.Type().NumIn() == 0 && hm.Type().NumOut() == 2 {
			r := hm.Call(nil)
			if r[1].IsNil() && r[0].Kind() == reflect.Array && r[0].Len() == 32 {
				var got [32]byte
				reflect.Copy(reflect.ValueOf(&got).Elem(), r[0])
				if got != want {
					return "Hash() is not SHA-256 of the value's current serialisation"
				}
			}
		}
		if am.IsValid() && am.Type().NumIn() == 0 && am.Type().NumOut() == 2 {
			r := am.Call(nil)
			if r[1].IsNil() && r[0].Kind() == reflect.String {
				exp := strings.ToLower(strings.TrimRight(i2pB32.EncodeToString(want[:]), "=")) + ".b32.i2p"
				if r[0].String() != exp {
					return "Base32Address() is not the address of the value's current serialisation"
				}
			}
		}
		return ""
	}
}

func init() {
	reg("!history", func(a []string) (string, []Fail) {
		w, aux := unhx(a[1]), 0
		if len(a) > 2 {
			aux = atoi(a[2])
		}
		w0 := append([]byte{}, w...)
		val, _, _ := c18Build(a[0], w, aux)
		if val == nil {
			return "err", nil
		}
		kind := strings.SplitN(a[0], "/", 2)[0]
		root := reflect.ValueOf(val)
		ser := histSerialiser(root)
		if ser == nil {
			return "no-serialiser", nil
		}
		ser0, ok0 := ser()
		if !ok0 {
			return "unserialisable", nil
		}
		types0, haveTypes := histKeyTypes(val)
		var fails []Fail
		seen := map[string]bool{}
		add := func(prop, sig, format string, args ...interface{}) {
			if !seen[prop+sig] {
				seen[prop+sig] = true
				fails = append(fails, fail(prop, sig, format, args...))
			}
		}
		same := func() bool {
			s, ok := ser()
			return ok && bytes.Equal(s, ser0)
		}
		inputIntact := func() bool { return bytes.Equal(w, w0) }

		// ---- H1: queries
		has, verified0 := verifySucceeds(val)
		callAllMethods(val)
		for _, s := range histSubjects(root)[1:] {
			callAllMethods(s.v.Interface())
		}
		if !same() {
			h1 := []string{"C01", "C02", "C18"}
			if identityKinds[kind] {
				h1 = append(h1, "C07") // the hashed bytes are the identity's serialisation
			}
			if kind == "mapping" {
				h1 = append(h1, "C11")
			}
			if has && verified0 {
				h1 = append(h1, "C06")
			}
			for _, p := range h1 {
				add(p, "history:queries-change-serialisation:"+kind, "the serialisation of a %s differs after its argument-free methods ran once", a[0])
			}
			s, _ := ser()
			ser0 = s // continue from the new state; the violation is recorded
		}
		if !inputIntact() {
			for _, p := range []string{"C08", "C03", "C01"} {
				add(p, "history:queries-write-input-buffer:"+kind, "calling the argument-free methods of a %s modified the caller's input buffer", a[0])
			}
			copy(w, w0)
		}

		// ---- H1b: a LATER parse or construction along the same path — of other bytes — leaves this value alone
		//      (scratch memory shared between values, a "default the first caller sets")
		{
			w2 := append([]byte{}, w0...)
			for _, span := range [][2]int{{len(w2) / 8, len(w2) / 2}, {len(w2) / 2, len(w2) * 7 / 8}, {32, 352}} {
				alt := append([]byte{}, w2...)
				lo, hi := span[0], span[1]
				if hi > len(alt) {
					hi = len(alt)
				}
				if lo >= hi {
					continue
				}
				for i := lo; i < hi; i++ {
					alt[i] ^= 0x5A
				}
				other, _, _ := c18Build(a[0], alt, aux)
				if other == nil {
					continue // the altered bytes are not accepted: nothing was built
				}
				if !same() {
					for _, p := range []string{"C01", "C18", "C10"} {
						add(p, "history:later-parse-disturbs-earlier-value:"+kind, "after another %s was built along the same path from different bytes (bytes %d…%d altered), the first value serialises differently", a[0], lo, hi)
					}
					s2, _ := ser()
					ser0 = s2
					break
				}
			}
		}

		// ---- H2: results handed out
		calls := 0
		subjects := histSubjects(root)
		for _, s := range subjects {
			t := s.v.Type()
			tn := typeName(s.v)
			for i := 0; i < t.NumMethod(); i++ {
				m := t.Method(i)
				if m.Type.NumIn() != 1 || m.Type.IsVariadic() || m.Type.NumOut() == 0 {
					continue
				}
				var res []reflect.Value
				func() {
					defer func() { recover() }()
					res = s.v.Method(i).Call(nil)
				}()
				if len(res) == 0 {
					continue
				}
				key := tn + "." + m.Name
				contract := copyByContract(t, tn, m.Name)
				var parts []histHandle
				if b, ok := byteSliceOf(res[0]); ok {
					parts = []histHandle{{key, b}}
				} else if _, doc := documentedCopies[key]; doc {
					collectByteFields(key+"()", res[0], 0, &parts, map[uintptr]bool{})
				} else {
					continue
				}
				for _, part := range parts {
					b := part.b
					calls++
					c08 := []string{"C01", "C18"}
					if c08Kinds[kind] {
						c08 = []string{"C08", "C01", "C18"}
					}
					if kind == "mapping" {
						c08 = append(c08, "C11")
					}
					if has && verified0 {
						c08 = append(c08, "C06")
					}
					// (a) what an append by the caller would write into
					if spare := b[len(b):cap(b)]; len(spare) > 0 {
						for j := range spare {
							spare[j] ^= 0xA5
						}
						okSer, okIn := same(), inputIntact()
						typesNow, _ := histKeyTypes(val)
						for j := range spare {
							spare[j] ^= 0xA5
						}
						if !contract {
							if !okSer || !okIn {
								count("history:view-by-contract:" + key)
							}
						} else {
							if !okSer || !okIn {
								tags := c08
								if !okIn { // consumed bytes ++ remainder are no longer the input
									tags = append(append([]string{}, c08...), "C03")
								}
								for _, p := range tags {
									add(p, "history:append-to-result:"+key, "%s returns a slice whose %d bytes of spare capacity lie inside the value's own storage or the caller's input: appending to it changes them (serialisation intact=%v, input intact=%v)", part.name, len(spare), okSer, okIn)
								}
							}
							if haveTypes && typesNow != types0 {
								add("C09", "history:append-to-result:"+key, "appending to the result of %s turns key types %s into %s", part.name, types0, typesNow)
							}
						}
					}
					// (b) the contents
					if len(b) > 0 {
						for j := range b {
							b[j] ^= 0xFF
						}
						okSer, okIn := same(), inputIntact()
						typesNow, _ := histKeyTypes(val)
						for j := range b {
							b[j] ^= 0xFF
						}
						if !contract {
							if !okSer || !okIn {
								count("history:view-by-contract:" + key)
							}
							continue
						}
						if !okSer || !okIn {
							for _, p := range c08 {
								add(p, "history:result-aliases-value:"+key, "overwriting the %d bytes of %s, which is a copy by contract, changes the value (serialisation intact=%v, input intact=%v)", len(b), part.name, okSer, okIn)
							}
							if kind == "cert" || kind == "keycert" {
								add("C19", "history:result-aliases-value:"+key, "overwriting the bytes %s returned changes a certificate built along path %s: it no longer equals its twins", part.name, a[0])
							}
						}
						if haveTypes && typesNow != types0 {
							add("C09", "history:result-aliases-value:"+key, "overwriting the result of %s turns key types %s into %s", part.name, types0, typesNow)
						}
					}
				}
			}
		}

		// ---- H3: edits through what the caller can reach — the exported fields of the value itself and of the
		//      structures its accessors hand out. After each single edit:
		//      E1 (C05) verification may only succeed while the serialisation is still the signed one;
		//      E2 (C07) hash and address are those of the value's CURRENT serialisation (no stale memo);
		//      E3 (C10/C18/C09) a value parsed afresh from the same bytes is unaffected (no state shared between values).
		edits := 0
		{
			var handles []histHandle
			ptrSeen := map[uintptr]bool{}
			collectByteFields("value", root, 0, &handles, ptrSeen)
			t := root.Type()
			for i := 0; i < t.NumMethod(); i++ {
				m := t.Method(i)
				if m.Type.NumIn() != 1 || m.Type.IsVariadic() || m.Type.NumOut() == 0 {
					continue
				}
				k := m.Type.Out(0).Kind()
				if k != reflect.Ptr && k != reflect.Slice && k != reflect.Struct {
					continue
				}
				func() {
					defer func() { recover() }()
					r := root.Method(i).Call(nil)[0]
					if _, isBytes := byteSliceOf(r); isBytes {
						return // plain byte results are H2's subject
					}
					collectByteFields(m.Name+"()", r, 0, &handles, ptrSeen)
				}()
			}
			sort.SliceStable(handles, func(i, j int) bool { return handles[i].name < handles[j].name })
			derived := histDerived(root) // nil when the kind has no hash/address
			for _, h := range handles {
				h.b[len(h.b)-1] ^= 0x01
				edits++
				cur, curOK := ser()
				changed := !curOK || !bytes.Equal(cur, ser0)
				if has && verified0 {
					if _, still := verifySucceeds(val); still && changed {
						add("C05", "history:verify-after-edit:"+kind, "verification of a %s still succeeds after %s was edited and the serialisation changed: the bytes it vouches for were never signed", a[0], h.name)
					}
				}
				if derived != nil && curOK {
					if msg := derived(cur); msg != "" {
						add("C07", "history:stale-derived:"+kind, "after %s was edited, %s", h.name, msg)
					}
				}
				if fresh, _, _ := c18Build(a[0], append([]byte{}, w0...), aux); fresh != nil {
					if fs := histSerialiser(reflect.ValueOf(fresh)); fs != nil {
						fb, fok := fs()
						ft, _ := histKeyTypes(fresh)
						if !fok || !bytes.Equal(fb, ser0) || (haveTypes && ft != types0) {
							leak := []string{"C18", "C01"}
							if haveTypes && ft != types0 { // the other value now declares other key types / sizes
								leak = append(leak, "C10", "C09")
							}
							for _, p := range leak {
								add(p, "history:edit-leaks-into-other-values:"+kind, "after %s of one %s was edited, a value parsed afresh from the same bytes differs (key types %s, before %s)", h.name, a[0], ft, types0)
							}
						}
					}
				}
				h.b[len(h.b)-1] ^= 0x01
			}
			if has && verified0 {
				if _, again := verifySucceeds(val); !again {
					count("history:verify-not-restored:" + kind)
				}
			}
		}
		counters["history:result-slices-overwritten"] += calls
		counters["history:verify-after-edit-steps"] += edits
		return fmt.Sprintf("ok results=%d edits=%d", calls, edits), fails
	})

	suites["HIST"] = func(g *G) {
		perKind := g.n(10, 120)
		byKind := map[string][]c18Val{}
		verifying := map[string][]c18Val{} // values whose signature verifies: H3/E1 and the C06 tags need them
		var kinds []string
		for _, v := range c18Pool(g) {
			val := genBuild(v.kind, unhx(v.hex), atoi(v.aux))
			if val == nil {
				continue
			}
			if len(byKind[v.kind]) == 0 && len(verifying[v.kind]) == 0 {
				kinds = append(kinds, v.kind)
			}
			if has, ok := verifySucceeds(val); has && ok {
				verifying[v.kind] = append(verifying[v.kind], v)
			} else {
				byKind[v.kind] = append(byKind[v.kind], v)
			}
		}
		// identities with a NULL certificate (their key types are implied, not stored in the certificate)
		for _, k := range []string{"kac", "dest", "rid"} {
			nb := hx(g.encIdentity([]byte{0, 0, 0}))
			if val := genBuild(k, unhx(nb), 0); val != nil {
				byKind[k] = append([]c18Val{{k, nb, "0"}}, byKind[k]...)
			}
		}
		spread := func(vs []c18Val, n int) []c18Val {
			if n > len(vs) {
				n = len(vs)
			}
			var out []c18Val
			for i := 0; i < n; i++ {
				out = append(out, vs[i*len(vs)/n]) // spread over the pool, not its first entries
			}
			return out
		}
		for _, kind := range kinds {
			vs := spread(verifying[kind], (perKind+1)/2)
			vs = append(vs, spread(byKind[kind], perKind-len(vs))...)
			for _, v := range vs {
				g.gen = "history-" + v.kind
				g.emit("!history", v.kind, v.hex, v.aux)
			}
			// every alternative parser / constructor path of the kind, on the first few values THAT PATH accepts
			// (a key-type-specific reader only takes its own key types)
			all := append(append([]c18Val{}, verifying[kind]...), byKind[kind]...)
			for pi, p := range c18Paths[kind] {
				if pi == 0 {
					continue
				}
				n := 0
				for _, v := range all {
					if n >= g.n(3, 20) {
						break
					}
					if genBuild(kind+"/"+p.name, unhx(v.hex), atoi(v.aux)) == nil {
						continue
					}
					n++
					g.gen = "history-" + kind + "-" + p.name
					g.emit("!history", kind+"/"+p.name, v.hex, v.aux)
				}
			}
		}
	}
}
