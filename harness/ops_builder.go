package main

import (
	"bytes"
	"fmt"
	"strings"

	"github.com/go-i2p/common/certificate"
)

// !certBuilder <steps>: a sequence of builder calls, then Build(). steps = comma-separated
//
//	t<type>        WithType
//	p<hex>         WithPayload
//	k<sig>:<cry>   WithKeyTypes
//
// C19 oracle: the builder must accept exactly what the direct constructor accepts for the configuration
// the calls describe, and produce the same serialisation. The configuration is the builder's documented one:
// the certificate type last set (WithKeyTypes sets KEY), and — whichever was called last — the explicit
// payload or the payload generated from the key types (certificate.BuildKeyTypePayload).
func init() {
	reg("!certBuilder", func(a []string) (string, []Fail) {
		cb := certificate.NewCertificateBuilder()
		typ := 0
		var payload []byte
		payloadSet := false
		var kt *[2]int
		for _, st := range strings.Split(a[0], ",") {
			if st == "" || st == "-" {
				continue
			}
			switch st[0] {
			case 't':
				t := atoi(st[1:])
				if _, err := cb.WithType(uint8(t)); err == nil {
					typ = t
				}
			case 'p':
				payload = unhx(st[1:])
				payloadSet = true
				cb.WithPayload(payload)
			case 'k':
				p := strings.Split(st[1:], ":")
				s, c := atoi(p[0]), atoi(p[1])
				if _, err := cb.WithKeyTypes(s, c); err == nil {
					typ = 5
					kt = &[2]int{s, c}
					payloadSet = false
				} else if s >= 0 && c >= 0 && (s > 65535 || c > 65535) {
					// rejected out-of-range types leave the builder unchanged, like a rejected WithType
					continue
				}
			}
		}
		got, gerr := cb.Build()
		// the direct route
		var want *certificate.Certificate
		var werr error
		switch {
		case payloadSet:
			want, werr = certificate.NewCertificateWithType(uint8(typ), payload)
		case kt != nil:
			var pl []byte
			pl, werr = certificate.BuildKeyTypePayload(kt[0], kt[1])
			if werr == nil {
				want, werr = certificate.NewCertificateWithType(uint8(typ), pl)
			}
		case typ == 5:
			werr = fmt.Errorf("KEY certificate without key types or payload")
		default:
			want, werr = certificate.NewCertificateWithType(uint8(typ), []byte{})
		}
		var fails []Fail
		if (gerr == nil) != (werr == nil) {
			fails = append(fails, fail("C19", "twin:builder/direct:acceptance", "steps %s: builder err=%v, direct constructor err=%v", a[0], gerr, werr))
		} else if gerr == nil && !bytes.Equal(got.Bytes(), want.Bytes()) {
			fails = append(fails, fail("C19", "twin:builder/direct:bytes", "steps %s: builder %s, direct constructor %s", a[0], hx(got.Bytes()), hx(want.Bytes())))
		}
		if gerr != nil {
			return "err", fails
		}
		return "ok " + hx(got.Bytes()), fails
	})
	suites["BUILDER"] = func(g *G) {
		r := g.R
		g.in("builder-sequences")
		step := func() string {
			switch r.intn(3) {
			case 0:
				return fmt.Sprintf("t%d", r.pick(0, 1, 2, 3, 4, 5, 5, 6, 255))
			case 1:
				n := r.pick(0, 0, 4, 4, 5, 40, 72, 3)
				return "p" + hx(r.bytes(n))
			}
			return fmt.Sprintf("k%d:%d", r.pick(7, 7, 0, 1, 11, 9, 65535, 65536, 65543, -1), r.pick(4, 0, 4, 5, 65535, 65540, -1))
		}
		for i := 0; i < g.n(600, 20000); i++ {
			n := r.rng(1, 4)
			var st []string
			for j := 0; j < n; j++ {
				st = append(st, step())
			}
			g.emit("!certBuilder", strings.Join(st, ","))
		}
		for _, fixed := range []string{"-", "t5", "k7:4", "p00070004,k7:4", "k7:4,p00070004", "t1,p01020304,k7:4", "t5,p0007", "k65543:4", "k7:65540", "t3,p" + hx(make([]byte, 40))} {
			g.emit("!certBuilder", fixed)
		}
	}
}
