package main

import (
	"bytes"
	"errors"
	"fmt"
	"strings"

	b32 "github.com/go-i2p/common/base32"
	b64 "github.com/go-i2p/common/base64"
)

// ---- C13: independent bit-level reference and text classification --------------------------------
//
// Nothing below calls encoding/base32 or encoding/base64: the reference reads RFC 4648 literally
// (bytes -> bit stream -> groups of k bits -> alphabet, '=' up to a full quantum), and the
// classification of decoder input is the property sentence: alphabet characters, CR/LF (skipped),
// and padding that fills the last quantum.

const (
	refAlpha32 = "abcdefghijklmnopqrstuvwxyz234567"
	refAlpha64 = "ABCDEFGHIJKLMNOPQRSTUVWXYZabcdefghijklmnopqrstuvwxyz0123456789-~"
)

type baseCodec struct {
	name    string // signature prefix: b32, b32-nopad, b64
	alpha   string
	k       int // bits per character
	quantum int // characters per quantum
	padded  bool
}

var (
	codec32      = baseCodec{"b32", refAlpha32, 5, 8, true}
	codec32NoPad = baseCodec{"b32-nopad", refAlpha32, 5, 8, false}
	codec64      = baseCodec{"b64", refAlpha64, 6, 4, true}
)

// digit returns the value of an alphabet character, -1 for any other byte (a table lookup: the
// limit-size ops look at 16 MiB of text).
func (c baseCodec) digit(b byte) int { return int(digitTables[c.alpha][b]) }

func digitTable(alpha string) *[256]int8 {
	t := new([256]int8)
	for i := range t {
		t[i] = -1
	}
	for i := 0; i < len(alpha); i++ {
		t[alpha[i]] = int8(i)
	}
	return t
}

var digitTables = map[string]*[256]int8{refAlpha32: digitTable(refAlpha32), refAlpha64: digitTable(refAlpha64)}

func (c baseCodec) refEncode(x []byte) string {
	out := make([]byte, 0, (len(x)*8+c.k-1)/c.k+c.quantum)
	mask := uint(1)<<uint(c.k) - 1
	acc, nbits := uint(0), 0 // the bits not yet emitted, most significant first
	for _, b := range x {
		acc, nbits = acc<<8|uint(b), nbits+8
		for nbits >= c.k {
			nbits -= c.k
			out = append(out, c.alpha[acc>>uint(nbits)&mask])
		}
		acc &= uint(1)<<uint(nbits) - 1
	}
	if nbits > 0 { // the last group is filled with zero bits
		out = append(out, c.alpha[acc<<uint(c.k-nbits)&mask])
	}
	if c.padded {
		for len(out)%c.quantum != 0 {
			out = append(out, '=')
		}
	}
	return string(out)
}

// refDecode of a run of alphabet characters: the bits in order, cut into whole bytes.
func (c baseCodec) refDecode(body string) []byte {
	out := make([]byte, 0, len(body)*c.k/8)
	acc, nbits := 0, 0
	for i := 0; i < len(body); i++ {
		acc = acc<<uint(c.k) | c.digit(body[i])
		nbits += c.k
		if nbits >= 8 {
			out = append(out, byte(acc>>uint(nbits-8)))
			nbits -= 8
			acc &= 1<<uint(nbits) - 1
		}
	}
	return out
}

type textClass struct {
	foreign    int    // index of the first byte outside alphabet ∪ {'=', CR, LF}; -1 if none
	wellFormed bool   // alphabet characters, then padding that exactly fills the last quantum
	body       string // the alphabet characters (meaningful when wellFormed)
	sig        string // failure class if the library accepts the text although it is not well formed
}

func (c baseCodec) classify(s string) textClass {
	tc := textClass{foreign: -1}
	t := make([]byte, 0, len(s))
	for i := 0; i < len(s); i++ {
		ch := s[i]
		if ch == '\r' || ch == '\n' {
			continue
		}
		if ch != '=' && tc.foreign < 0 && c.digit(ch) < 0 {
			tc.foreign = i
		}
		t = append(t, ch)
	}
	firstPad := bytes.IndexByte(t, '=')
	if tc.foreign >= 0 {
		fb := s[tc.foreign]
		before := s[:tc.foreign]
		switch {
		case !c.padded && fb == 0xff:
			tc.sig = c.name + "-0xff-accepted"
		case strings.IndexByte(before, '=') >= 0 || (!c.padded && strings.IndexByte(before, 0xff) >= 0):
			tc.sig = c.name + "-data-after-padding"
		default:
			tc.sig = c.name + "-foreign-accepted"
		}
		return tc
	}
	// only alphabet characters and '=' from here on
	if !c.padded {
		if firstPad >= 0 {
			tc.sig = c.name + "-pad-accepted"
			return tc
		}
		// a final quantum of this many characters cannot come from whole bytes
		if n := len(t) % c.quantum; (n*c.k)%8 >= c.k {
			tc.sig = c.name + "-impossible-length"
			return tc
		}
		tc.wellFormed, tc.body = true, string(t)
		return tc
	}
	body, tail := t, []byte{}
	if firstPad >= 0 {
		body, tail = t[:firstPad], t[firstPad:]
	}
	if strings.Trim(string(tail), "=") != "" {
		tc.sig = c.name + "-data-after-padding"
		return tc
	}
	n := len(body) % c.quantum
	if len(t)%c.quantum != 0 || len(tail) >= c.quantum || (n*c.k)%8 >= c.k {
		tc.sig = c.name + "-malformed-padding-accepted"
		return tc
	}
	tc.wellFormed, tc.body = true, string(body)
	return tc
}

// checkEncoder: the encoder clauses of C13 for one input.
func (c baseCodec) checkEncoder(x []byte, out string, dec func(string) ([]byte, error)) []Fail {
	var fails []Fail
	for i := 0; i < len(out); i++ {
		if c.digit(out[i]) < 0 && !(c.padded && out[i] == '=') {
			fails = append(fails, fail("C13", c.name+"-enc-alphabet", "output of %d bytes contains byte 0x%02x at %d", len(x), out[i], i))
			break
		}
	}
	if ref := c.refEncode(x); ref != out {
		fails = append(fails, fail("C13", c.name+"-enc-ref", "encoding of %s is %q, bit-level reference gives %q", trunc(hx(x), 64), trunc(out, 64), trunc(ref, 64)))
	}
	if back, err := dec(out); err != nil || !bytes.Equal(back, x) {
		fails = append(fails, fail("C13", c.name+"-roundtrip", "decode(encode(%s)) = %s, %v", trunc(hx(x), 64), trunc(hx(back), 64), err))
	}
	return fails
}

// checkDecoder: the decoder clauses of C13 for one text.
func (c baseCodec) checkDecoder(s string, r []byte, err error) []Fail {
	var fails []Fail
	tc := c.classify(s)
	switch {
	case !tc.wellFormed && err == nil:
		what := "malformed text"
		if tc.foreign >= 0 {
			what = fmt.Sprintf("text containing byte 0x%02x at %d", s[tc.foreign], tc.foreign)
		}
		fails = append(fails, fail("C13", tc.sig, "%s decoder accepted %s: %q -> %s", c.name, what, trunc(s, 80), trunc(hx(r), 64)))
	case tc.wellFormed && err != nil:
		fails = append(fails, fail("C13", c.name+"-wellformed-rejected", "%q rejected: %v", trunc(s, 80), err))
	case tc.wellFormed:
		if ref := c.refDecode(tc.body); !bytes.Equal(ref, r) {
			fails = append(fails, fail("C13", c.name+"-dec-ref", "%q decodes to %s, bit-level reference gives %s", trunc(s, 80), trunc(hx(r), 64), trunc(hx(ref), 64)))
		}
	}
	return fails
}

// ---- error enum and Safe-variant checks ----------------------------------------------------------------

func baseErrTag(err error) string {
	switch {
	case err == nil:
		return "none"
	case errors.Is(err, b32.ErrEmptyData), errors.Is(err, b64.ErrEmptyData), errors.Is(err, b64.ErrEmptyString):
		return "empty"
	case errors.Is(err, b32.ErrDataTooLarge), errors.Is(err, b32.ErrInputTooLarge), errors.Is(err, b64.ErrDataTooLarge), errors.Is(err, b64.ErrStringTooLarge):
		return "toolarge"
	}
	return "corrupt"
}

func isGuardErr(err error) bool { t := baseErrTag(err); return t == "empty" || t == "toolarge" }

// checkGuard: a Safe variant rejects exactly empty and oversize input (C13).
func checkGuard(name string, n, max int, err error) []Fail {
	var fails []Fail
	want := "none"
	if n == 0 {
		want = "empty"
	} else if n > max {
		want = "toolarge"
	}
	got := baseErrTag(err)
	if got == "corrupt" {
		got = "none" // the guard let it through; the decoder's own verdict is judged elsewhere
	}
	if got != want {
		fails = append(fails, fail("C13", name+"-guard", "%s on %d bytes (limit %d): guard says %s, documented %s", name, n, max, got, want))
	}
	return fails
}

// twinDec: within the limits a Safe decoder is the plain decoder (C19).
func twinDec(name string, s string, max int, plain, safe func(string) ([]byte, error)) []Fail {
	if len(s) == 0 || len(s) > max {
		return nil
	}
	r1, e1 := plain(s)
	r2, e2 := safe(s)
	if (e1 == nil) != (e2 == nil) || !bytes.Equal(r1, r2) {
		return []Fail{fail("C19", "twin:"+name, "%s differ on %q", name, trunc(s, 80))}
	}
	return nil
}

func safeDecLine(r []byte, err error) string {
	if err != nil {
		return "err " + baseErrTag(err)
	}
	return "ok " + hx(r)
}

func safeEncLine(s string, err error) string {
	if err != nil {
		return "err " + baseErrTag(err)
	}
	return "ok " + hxs(s)
}

// patternBytes: the deterministic content used by the limit-size ops.
func patternBytes(n int) []byte {
	b := make([]byte, n)
	for i := range b {
		b[i] = byte(i*131 + i>>8 + 7)
	}
	return b
}

func init() {
	reg("baseConsts", func(a []string) (string, []Fail) {
		var fails []Fail
		if b32.I2PEncodeAlphabet != refAlpha32 || b64.I2PEncodeAlphabet != refAlpha64 {
			fails = append(fails, fail("C13", "alphabet-constant", "library alphabets differ from the I2P alphabets"))
		}
		return fmt.Sprintf("a32=%s a64=%s maxEnc32=%d maxDec32=%d maxEnc64=%d maxDec64=%d", hxs(b32.I2PEncodeAlphabet), hxs(b64.I2PEncodeAlphabet),
			b32.MAX_ENCODE_SIZE, b32.MAX_DECODE_SIZE, b64.MAX_ENCODE_SIZE, b64.MAX_DECODE_SIZE), fails
	})

	// ---- encoders ----
	reg("b32enc", func(a []string) (string, []Fail) {
		x := unhx(a[0])
		out := b32.EncodeToString(x)
		fails := codec32.checkEncoder(x, out, b32.DecodeString)
		s, err := b32.EncodeToStringSafe(x)
		fails = append(fails, checkGuard("b32.EncodeToStringSafe", len(x), b32.MAX_ENCODE_SIZE, err)...)
		if len(x) > 0 && len(x) <= b32.MAX_ENCODE_SIZE && (err != nil || s != out) {
			fails = append(fails, fail("C19", "twin:b32.EncodeToString/EncodeToStringSafe", "differ on %s", trunc(a[0], 80)))
		}
		return "ok " + hxs(out), fails
	})
	reg("b32encNoPad", func(a []string) (string, []Fail) {
		x := unhx(a[0])
		out := b32.EncodeToStringNoPadding(x)
		return "ok " + hxs(out), codec32NoPad.checkEncoder(x, out, b32.DecodeStringNoPadding)
	})
	reg("b64enc", func(a []string) (string, []Fail) {
		x := unhx(a[0])
		out := b64.EncodeToString(x)
		fails := codec64.checkEncoder(x, out, b64.DecodeString)
		s, err := b64.EncodeToStringSafe(x)
		fails = append(fails, checkGuard("b64.EncodeToStringSafe", len(x), b64.MAX_ENCODE_SIZE, err)...)
		if len(x) > 0 && len(x) <= b64.MAX_ENCODE_SIZE && (err != nil || s != out) {
			fails = append(fails, fail("C19", "twin:b64.EncodeToString/EncodeToStringSafe", "differ on %s", trunc(a[0], 80)))
		}
		return "ok " + hxs(out), fails
	})

	// ---- decoders ----
	reg("b32dec", func(a []string) (string, []Fail) {
		s := string(unhx(a[0]))
		r, err := b32.DecodeString(s)
		var hist []Fail
		if err == nil {
			hist = privateResultFails("C13", "b32.DecodeString", func() []byte { x, _ := b32.DecodeString(s); return x },
				func() { b32.DecodeString(b32.EncodeToString([]byte{1, 2, 3, 4, 5})); b32.DecodeString(s + s) })
		}
		fails := codec32.checkDecoder(s, r, err)
		fails = append(fails, twinDec("b32.DecodeString/DecodeStringSafe", s, b32.MAX_DECODE_SIZE, b32.DecodeString, b32.DecodeStringSafe)...)
		return okHex(r, err), append(fails, hist...)
	})
	reg("b32decNoPad", func(a []string) (string, []Fail) {
		s := string(unhx(a[0]))
		r, err := b32.DecodeStringNoPadding(s)
		var hist []Fail
		if err == nil {
			hist = privateResultFails("C13", "b32.DecodeStringNoPadding", func() []byte { x, _ := b32.DecodeStringNoPadding(s); return x },
				func() {
					b32.DecodeStringNoPadding(strings.TrimRight(b32.EncodeToString([]byte{1, 2, 3, 4, 5, 6}), "="))
					b32.DecodeStringNoPadding(s + s)
				})
		}
		fails := codec32NoPad.checkDecoder(s, r, err)
		fails = append(fails, twinDec("b32.DecodeStringNoPadding/DecodeStringSafeNoPadding", s, b32.MAX_DECODE_SIZE, b32.DecodeStringNoPadding, b32.DecodeStringSafeNoPadding)...)
		return okHex(r, err), append(fails, hist...)
	})
	reg("b64dec", func(a []string) (string, []Fail) {
		s := string(unhx(a[0]))
		r, err := b64.DecodeString(s)
		var hist []Fail
		if err == nil {
			hist = privateResultFails("C13", "b64.DecodeString", func() []byte { x, _ := b64.DecodeString(s); return x },
				func() { b64.DecodeString(b64.EncodeToString([]byte{1, 2, 3, 4, 5, 6})); b64.DecodeString(s + s) })
		}
		fails := codec64.checkDecoder(s, r, err)
		fails = append(fails, twinDec("b64.DecodeString/DecodeStringSafe", s, b64.MAX_DECODE_SIZE, b64.DecodeString, b64.DecodeStringSafe)...)
		return okHex(r, err), append(fails, hist...)
	})

	// ---- size-guarded variants on explicit data ----
	reg("b32encSafe", func(a []string) (string, []Fail) {
		x := unhx(a[0])
		s, err := b32.EncodeToStringSafe(x)
		fails := checkGuard("b32.EncodeToStringSafe", len(x), b32.MAX_ENCODE_SIZE, err)
		if err == nil {
			fails = append(fails, codec32.checkEncoder(x, s, b32.DecodeStringSafe)...)
		}
		return safeEncLine(s, err), fails
	})
	reg("b64encSafe", func(a []string) (string, []Fail) {
		x := unhx(a[0])
		s, err := b64.EncodeToStringSafe(x)
		fails := checkGuard("b64.EncodeToStringSafe", len(x), b64.MAX_ENCODE_SIZE, err)
		if err == nil {
			fails = append(fails, codec64.checkEncoder(x, s, b64.DecodeStringSafe)...)
		}
		return safeEncLine(s, err), fails
	})
	reg("b32decSafe", func(a []string) (string, []Fail) {
		s := string(unhx(a[0]))
		r, err := b32.DecodeStringSafe(s)
		fails := checkGuard("b32.DecodeStringSafe", len(s), b32.MAX_DECODE_SIZE, err)
		if !isGuardErr(err) {
			fails = append(fails, codec32.checkDecoder(s, r, err)...)
		}
		return safeDecLine(r, err), fails
	})
	reg("b32decSafeNoPad", func(a []string) (string, []Fail) {
		s := string(unhx(a[0]))
		r, err := b32.DecodeStringSafeNoPadding(s)
		fails := checkGuard("b32.DecodeStringSafeNoPadding", len(s), b32.MAX_DECODE_SIZE, err)
		if !isGuardErr(err) {
			fails = append(fails, codec32NoPad.checkDecoder(s, r, err)...)
		}
		return safeDecLine(r, err), fails
	})
	reg("b64decSafe", func(a []string) (string, []Fail) {
		s := string(unhx(a[0]))
		r, err := b64.DecodeStringSafe(s)
		fails := checkGuard("b64.DecodeStringSafe", len(s), b64.MAX_DECODE_SIZE, err)
		if !isGuardErr(err) {
			fails = append(fails, codec64.checkDecoder(s, r, err)...)
		}
		return safeDecLine(r, err), fails
	})

	// ---- limit sizes: only the length travels; content is patternBytes(n) / its encoding ----
	encLen := func(name string, c baseCodec, max int, safe func([]byte) (string, error), plain func([]byte) string, dec func(string) ([]byte, error)) {
		reg(name, func(a []string) (string, []Fail) {
			n := atoi(a[0])
			x := patternBytes(n)
			s, err := safe(x)
			fails := checkGuard(name, n, max, err)
			if err != nil {
				return "err " + baseErrTag(err), fails
			}
			if s != plain(x) {
				fails = append(fails, fail("C19", "twin:"+name, "Safe and plain encoders differ on %d bytes", n))
			}
			if s != c.refEncode(x) {
				fails = append(fails, fail("C13", c.name+"-enc-ref", "encoding of %d pattern bytes differs from the bit-level reference", n))
			}
			if back, derr := dec(s); derr != nil || !bytes.Equal(back, x) {
				fails = append(fails, fail("C13", c.name+"-roundtrip", "decode(encode(x)) fails for %d pattern bytes: %v", n, derr))
			}
			return fmt.Sprintf("pass len=%d", len(s)), fails
		})
	}
	encLen("b32encSafeLen", codec32, b32.MAX_ENCODE_SIZE, b32.EncodeToStringSafe, b32.EncodeToString, b32.DecodeString)
	encLen("b64encSafeLen", codec64, b64.MAX_ENCODE_SIZE, b64.EncodeToStringSafe, b64.EncodeToString, b64.DecodeString)

	decLen := func(name string, c baseCodec, max int, safe, plain func(string) ([]byte, error)) {
		reg(name, func(a []string) (string, []Fail) {
			n := atoi(a[0])
			// the first n characters of the unpadded encoding of enough pattern bytes
			s := (baseCodec{c.name, c.alpha, c.k, c.quantum, false}).refEncode(patternBytes(n*c.k/8 + 1))[:n]
			r, err := safe(s)
			fails := checkGuard(name, n, max, err)
			if isGuardErr(err) {
				return "err " + baseErrTag(err), fails
			}
			r2, err2 := plain(s)
			if (err == nil) != (err2 == nil) || !bytes.Equal(r, r2) {
				fails = append(fails, fail("C19", "twin:"+name, "Safe and plain decoders differ on %d characters", n))
			}
			fails = append(fails, c.checkDecoder(s, r, err)...)
			return "pass", fails
		})
	}
	// !decSafeBreaks <codec> <chars> <breaks>: <chars> alphabet characters with <breaks> CR/LF bytes spread through
	// them; the documented limit counts every byte of the input, line breaks included
	reg("!decSafeBreaks", func(a []string) (string, []Fail) {
		chars, breaks := atoi(a[1]), atoi(a[2])
		var c baseCodec
		var max int
		var safe func(string) ([]byte, error)
		switch a[0] {
		case "b32":
			c, max, safe = codec32, b32.MAX_DECODE_SIZE, b32.DecodeStringSafe
		case "b32nopad":
			c, max, safe = codec32NoPad, b32.MAX_DECODE_SIZE, b32.DecodeStringSafeNoPadding
		default:
			c, max, safe = codec64, b64.MAX_DECODE_SIZE, b64.DecodeStringSafe
		}
		body := (baseCodec{c.name, c.alpha, c.k, c.quantum, false}).refEncode(patternBytes(chars*c.k/8 + 1))[:chars]
		var sb strings.Builder
		sb.Grow(chars + breaks)
		step := chars/(breaks+1) + 1
		put := 0
		for i := 0; i < chars; i += step {
			end := i + step
			if end > chars {
				end = chars
			}
			sb.WriteString(body[i:end])
			if put < breaks {
				sb.WriteByte("\n\r"[put%2])
				put++
			}
		}
		for ; put < breaks; put++ {
			sb.WriteByte('\n')
		}
		s := sb.String()
		_, err := safe(s)
		return "len=" + itoa(len(s)) + " " + baseErrTag(err), checkGuard(a[0]+".DecodeStringSafe(with line breaks)", len(s), max, err)
	})
	decLen("b32decSafeLen", codec32, b32.MAX_DECODE_SIZE, b32.DecodeStringSafe, b32.DecodeString)
	decLen("b32decSafeNoPadLen", codec32NoPad, b32.MAX_DECODE_SIZE, b32.DecodeStringSafeNoPadding, b32.DecodeStringNoPadding)
	decLen("b64decSafeLen", codec64, b64.MAX_DECODE_SIZE, b64.DecodeStringSafe, b64.DecodeString)
}
