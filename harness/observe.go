package main

import (
	"flag"
	"fmt"
	"os"
	"path/filepath"
	"reflect"
	"sort"
	"strings"

	"github.com/go-i2p/common/certificate"
	"github.com/go-i2p/common/destination"
	"github.com/go-i2p/common/key_certificate"
	"github.com/go-i2p/common/offline_signature"
	"github.com/go-i2p/common/router_identity"
	"github.com/go-i2p/common/signature"
)

// observe enumerates every finite lookup of the library completely through its public API and
// writes the observed graphs as Lean tables (lean/I2P/Gen/Observed.lean). Domain: all 65,536
// 16-bit codes plus a few out-of-range ints. A table lists the codes the lookup knows; every other
// code of the domain was observed to be unknown (error / zero) — if an out-of-range int is known,
// or a "known" answer is not a usable size, the table gets a marker entry that breaks the proofs.

type sigRow struct{ key, sig int }

func keyCertFor(s, c int) *key_certificate.KeyCertificate {
	kc, _, err := key_certificate.NewKeyCertificate(cat([]byte{5, 0, 4}, u16(s), u16(c)))
	if err != nil {
		return nil
	}
	return kc
}

func cmdObserve(args []string) {
	fs := flag.NewFlagSet("observe", flag.ExitOnError)
	out := fs.String("out", "", "output directory")
	fs.Parse(args)

	outOfRange := []int{-1, -65529, 65536, 65543, 1 << 20}
	sigTabs := map[string]map[int]sigRow{}
	cryTabs := map[string]map[int]int{}
	markers := []string{}
	addSig := func(name string, c int, known bool, key, sg int) {
		if !known {
			return
		}
		if sigTabs[name] == nil {
			sigTabs[name] = map[int]sigRow{}
		}
		sigTabs[name][c] = sigRow{key, sg}
	}
	addCry := func(name string, c int, known bool, size int) {
		if !known {
			return
		}
		if cryTabs[name] == nil {
			cryTabs[name] = map[int]int{}
		}
		cryTabs[name][c] = size
	}
	for _, n := range []string{"signature_SignatureSize", "keycert_SigningKeySizes", "keycert_SignaturePublicKeySizes", "keycert_GetSigningKeySize_GetSignatureSize",
		"keycert_methods", "offline_signature_sizes"} {
		sigTabs[n] = map[int]sigRow{}
	}
	for _, n := range []string{"keycert_CryptoKeySizes", "keycert_CryptoPublicKeySizes", "keycert_GetCryptoKeySize", "keycert_crypto_methods"} {
		cryTabs[n] = map[int]int{}
	}
	for c := 0; c < 65536; c++ {
		// signing lookups; -1 marks "this lookup does not report that component"
		l, err := signature.SignatureSize(c)
		addSig("signature_SignatureSize", c, err == nil, -1, l)
		i1, ok1 := key_certificate.SigningKeySizes[c]
		addSig("keycert_SigningKeySizes", c, ok1, i1.SigningPublicKeySize, i1.SignatureSize)
		i2, ok2 := key_certificate.SignaturePublicKeySizes[uint16(c)]
		addSig("keycert_SignaturePublicKeySizes", c, ok2, i2, -1)
		g1, e1 := key_certificate.GetSigningKeySize(c)
		g2, e2 := key_certificate.GetSignatureSize(c)
		if (e1 == nil) != (e2 == nil) {
			markers = append(markers, fmt.Sprintf("GetSigningKeySize and GetSignatureSize disagree on code %d", c))
		}
		addSig("keycert_GetSigningKeySize_GetSignatureSize", c, e1 == nil, g1, g2)
		if kc := keyCertFor(c, 0); kc != nil {
			addSig("keycert_methods", c, kc.SigningPublicKeySize() != 0 || kc.SignatureSize() != 0, kc.SigningPublicKeySize(), kc.SignatureSize())
		} else {
			markers = append(markers, fmt.Sprintf("NewKeyCertificate rejects a well-formed KEY certificate for signing code %d", c))
		}
		ok, os_ := offline_signature.SigningPublicKeySize(uint16(c)), offline_signature.SignatureSize(uint16(c))
		addSig("offline_signature_sizes", c, ok != 0 || os_ != 0, ok, os_)
		// crypto lookups
		j1, okc1 := key_certificate.CryptoKeySizes[c]
		addCry("keycert_CryptoKeySizes", c, okc1, j1.CryptoPublicKeySize)
		j2, okc2 := key_certificate.CryptoPublicKeySizes[uint16(c)]
		addCry("keycert_CryptoPublicKeySizes", c, okc2, j2)
		g3, e3 := key_certificate.GetCryptoKeySize(c)
		addCry("keycert_GetCryptoKeySize", c, e3 == nil, g3)
		if kc := keyCertFor(0, c); kc != nil {
			s1 := kc.CryptoSize()
			s2, e := kc.CryptoPublicKeySize()
			if (s1 != 0) != (e == nil) || (e == nil && s1 != s2) {
				markers = append(markers, fmt.Sprintf("KeyCertificate.CryptoSize and CryptoPublicKeySize disagree on code %d", c))
			}
			addCry("keycert_crypto_methods", c, s1 != 0, s1)
		}
	}
	for _, c := range outOfRange {
		if _, err := signature.SignatureSize(c); err == nil {
			markers = append(markers, fmt.Sprintf("signature.SignatureSize knows out-of-range code %d", c))
		}
		if _, err := key_certificate.GetSigningKeySize(c); err == nil {
			markers = append(markers, fmt.Sprintf("GetSigningKeySize knows out-of-range code %d", c))
		}
		if _, err := key_certificate.GetCryptoKeySize(c); err == nil {
			markers = append(markers, fmt.Sprintf("GetCryptoKeySize knows out-of-range code %d", c))
		}
		if _, err := key_certificate.GetSignatureSize(c); err == nil {
			markers = append(markers, fmt.Sprintf("GetSignatureSize knows out-of-range code %d", c))
		}
	}
	// policy: which (signing, crypto) pairs do the identity readers accept, over every pair of codes
	// that ReadKeysAndCert can construct (the readers reject everything else before the policy applies)
	var destOK, ridOK []string
	for s := 0; s < 65536; s++ {
		if _, ok := sigTabs["keycert_SigningKeySizes"][s]; !ok && s > 32 && s < 65280 {
			continue // unknown codes cannot be constructed; sampled at both ends of the range
		}
		for c := 0; c < 16; c++ {
			w := cat(make([]byte, 384), []byte{5, 0, 4}, u16(s), u16(c))
			w[0] = 1
			if _, _, err := destination.ReadDestination(w); err == nil {
				destOK = append(destOK, fmt.Sprintf("(%d, %d)", s, c))
			}
			if _, _, err := router_identity.ReadRouterIdentity(w); err == nil {
				ridOK = append(ridOK, fmt.Sprintf("(%d, %d)", s, c))
			}
		}
	}
	// certificate type validator over all 256 type bytes
	var certTypes []string
	for t := 0; t < 256; t++ {
		var payload []byte
		if t == 3 {
			payload = make([]byte, 40)
		}
		if _, err := certificate.NewCertificateWithType(uint8(t), payload); err == nil {
			certTypes = append(certTypes, fmt.Sprint(t))
		}
	}

	var b strings.Builder
	b.WriteString("/-! GENERATED by `harness observe` on every run from the library built out of /repo's working tree —\n    do not edit.  Every lookup was called on all 65,536 codes; a table lists the codes it knows as\n    (code, public-key bytes, signature bytes) resp. (code, key bytes); −1 = the lookup does not report\n    that component; every code not listed was observed to be unknown. -/\nnamespace I2P.Gen.Observed\n\n")
	names := []string{}
	for n := range sigTabs {
		names = append(names, n)
	}
	sort.Strings(names)
	for _, n := range names {
		t := sigTabs[n]
		var ks []int
		for k := range t {
			ks = append(ks, k)
		}
		sort.Ints(ks)
		var rows []string
		for _, k := range ks {
			rows = append(rows, fmt.Sprintf("(%d, %d, %d)", k, t[k].key, t[k].sig))
		}
		fmt.Fprintf(&b, "def sig_%s : List (Nat × Int × Int) := [%s]\n\n", n, strings.Join(rows, ", "))
	}
	names = names[:0]
	for n := range cryTabs {
		names = append(names, n)
	}
	sort.Strings(names)
	for _, n := range names {
		t := cryTabs[n]
		var ks []int
		for k := range t {
			ks = append(ks, k)
		}
		sort.Ints(ks)
		var rows []string
		for _, k := range ks {
			rows = append(rows, fmt.Sprintf("(%d, %d)", k, t[k]))
		}
		fmt.Fprintf(&b, "def crypto_%s : List (Nat × Int) := [%s]\n\n", n, strings.Join(rows, ", "))
	}
	fmt.Fprintf(&b, "/-- (signing, crypto) pairs for which `ReadDestination` accepts a well-formed KEY-certificate identity -/\ndef destAccepted : List (Nat × Nat) := [%s]\n\n", strings.Join(destOK, ", "))
	fmt.Fprintf(&b, "/-- the same for `ReadRouterIdentity` -/\ndef ridAccepted : List (Nat × Nat) := [%s]\n\n", strings.Join(ridOK, ", "))
	fmt.Fprintf(&b, "/-- certificate type bytes `NewCertificateWithType` accepts -/\ndef certTypesAccepted : List Nat := [%s]\n\n", strings.Join(certTypes, ", "))
	b.WriteString(observeUses())
	// zero values: every (type, exported argument-free method) pair called on the zero value
	var zrows, zpanics, zverify []string
	for _, n := range zeroTypeNames() {
		v := zeroValues[n]()
		cnt, ps := callAllMethods(v)
		parts := strings.SplitN(n, ".", 2)
		zrows = append(zrows, fmt.Sprintf("(%s, %s, %d)", leanQuote(parts[0]), leanQuote(parts[1]), cnt))
		for _, p := range ps {
			zpanics = append(zpanics, fmt.Sprintf("(%s, %s)", leanQuote(n), leanQuote(strings.SplitN(p, ":", 2)[0])))
		}
		if has, success := verifySucceeds(zeroValues[n]()); has && success {
			zverify = append(zverify, leanQuote(n))
		}
	}
	fmt.Fprintf(&b, "/-- (package, type, number of exported argument-free methods called on the zero value) -/\ndef zeroTypes : List (String × String × Nat) := [%s]\n\n", strings.Join(zrows, ", "))
	fmt.Fprintf(&b, "/-- (type, method) pairs that panicked on the zero value (must be empty) -/\ndef zeroPanics : List (String × String) := [%s]\n\n", strings.Join(zpanics, ", "))
	fmt.Fprintf(&b, "/-- types whose Verify/VerifySignature reports success on the zero value (must be empty) -/\ndef zeroVerifySuccess : List String := [%s]\n\n", strings.Join(zverify, ", "))
	// failed-parse values: every reader of ops_failshape.go is fed the directed witness inputs of gen_failshape.go
	// (fixed seed: truncations at every field boundary ±1 and single-byte corruptions of every control field of
	// one well-formed encoding per structural variant); every value returned with an error is classified by its
	// shape class, and all exported argument-free methods are called on (up to 64 witnesses of) every class
	psw, ppan, pver, pcodes := observeFailedParses()
	fmt.Fprintf(&b, "/-- (reader, shape class) pairs for which `harness observe` built a value of that class *through the real\n    reader* (a truncated or corrupted encoding) and called every exported argument-free method on it -/\ndef partialSwept : List (String × String) := [%s]\n\n", strings.Join(psw, ", "))
	for _, rd := range failReaderNames() {
		var rows []string
		for _, c := range pcodes[rd] {
			rows = append(rows, strings.ReplaceAll(fmt.Sprint(shapeCode(c)), " ", ", "))
		}
		fmt.Fprintf(&b, "/-- the shape classes of `partialSwept` for `%s`, as token lists (`shapeCode` of ops_failshape.go) -/\ndef partialSwept_%s : List (List Nat) := [%s]\n\n", rd, rd, strings.Join(rows, ", "))
	}
	fmt.Fprintf(&b, "/-- (reader, shape class, method) triples that panicked on such a value (must be empty) -/\ndef partialPanics : List (String × String × String) := [%s]\n\n", strings.Join(ppan, ", "))
	fmt.Fprintf(&b, "/-- (reader, shape class) pairs whose Verify/VerifySignature reported success on such a value (must be empty) -/\ndef partialVerifySuccess : List (String × String) := [%s]\n\n", strings.Join(pver, ", "))
	var ms []string
	for _, m := range markers {
		ms = append(ms, leanQuote(m))
	}
	fmt.Fprintf(&b, "/-- inconsistencies seen during the sweep (must be empty) -/\ndef markers : List String := [%s]\n\nend I2P.Gen.Observed\n", strings.Join(ms, ", "))
	os.MkdirAll(*out, 0o755)
	if err := os.WriteFile(filepath.Join(*out, "Observed.lean"), []byte(b.String()), 0o644); err != nil {
		fmt.Fprintln(os.Stderr, err)
		os.Exit(1)
	}
}

func leanQuote(s string) string {
	return "\"" + strings.ReplaceAll(strings.ReplaceAll(s, "\\", "\\\\"), "\"", "\\\"") + "\""
}

func init() { extraCmds["observe"] = cmdObserve }

// observeFailedParses is the reader → witness table of the failed-parse half of C20: the witnesses of a
// reader are the `failShape` cases the C20P generators emit for it under a fixed seed.
func observeFailedParses() (swept, panics, verified []string, classes map[string][]string) {
	classes = map[string][]string{}
	g := &G{R: &Rng{s: 0xC20C20}, Tier: "quick"}
	fsSmall(g, 10)
	fsComposite(g, true, 0, false, 6)
	type key struct{ reader, class string }
	seen := map[key]int{}
	pan := map[string]bool{}
	ver := map[key]bool{}
	done := map[string]bool{}
	for _, c := range g.Cases {
		if c.Op != "failShape" {
			continue
		}
		id := joinArgs(c.Args)
		if done[id] {
			continue
		}
		done[id] = true
		fr, ok := failReaders[c.Args[0]]
		if !ok {
			continue
		}
		t := 0
		if fr.args == 2 {
			t = atoi(c.Args[2])
		}
		w := unhx(c.Args[1])
		v, failed := fr.run(w, t)
		if !failed {
			continue
		}
		k := key{c.Args[0], shapeClass(shapeOf(reflect.ValueOf(v), 0))}
		seen[k]++
		if seen[k] > 64 {
			continue
		}
		p := addressable(v)
		if p == nil {
			continue // a nil pointer: there is no value to call a method on
		}
		_, ps := callAllMethods(p)
		for _, m := range ps {
			pan[fmt.Sprintf("(%s, %s, %s)", leanQuote(k.reader), leanQuote(k.class), leanQuote(strings.SplitN(m, ":", 2)[0]))] = true
		}
		v2, _ := fr.run(w, t)
		if p2 := addressable(v2); p2 != nil {
			if has, success := verifySucceeds(p2); has && success {
				ver[k] = true
			}
		}
	}
	var ks []key
	for k := range seen {
		ks = append(ks, k)
	}
	sort.Slice(ks, func(i, j int) bool {
		if ks[i].reader != ks[j].reader {
			return ks[i].reader < ks[j].reader
		}
		return ks[i].class < ks[j].class
	})
	for _, k := range ks {
		swept = append(swept, fmt.Sprintf("(%s, %s)", leanQuote(k.reader), leanQuote(k.class)))
		classes[k.reader] = append(classes[k.reader], k.class)
		if ver[k] {
			verified = append(verified, fmt.Sprintf("(%s, %s)", leanQuote(k.reader), leanQuote(k.class)))
		}
	}
	for m := range pan {
		panics = append(panics, m)
	}
	sort.Strings(panics)
	return
}
