package main

// C02 — wire format agrees with the I2P 0.9.67 specification, both directions.
//
//   !c02parse <kind> <hex> [enclen]   the hex starts with a spec encoding (spec.go) of <kind>, optionally
//                                     followed by stream bytes; the library parser must accept it, consume
//                                     exactly the encoding, re-serialise to it and expose every encoded field.
//   !c02ctor  <kind> <hex> [seed]     the hex is the spec encoding of the ARGUMENT VALUES; the value is built
//                                     through the library's constructors from those field values, serialised
//                                     with Bytes(), and the independent decoder must read the fields back.

import (
	"bytes"
	"crypto/ed25519"
	"encoding/binary"
	"errors"
	"fmt"
	"strings"
	"time"

	"github.com/go-i2p/common/certificate"
	"github.com/go-i2p/common/data"
	"github.com/go-i2p/common/destination"
	"github.com/go-i2p/common/encrypted_leaseset"
	"github.com/go-i2p/common/key_certificate"
	"github.com/go-i2p/common/keys_and_cert"
	"github.com/go-i2p/common/lease"
	"github.com/go-i2p/common/lease_set"
	"github.com/go-i2p/common/lease_set2"
	"github.com/go-i2p/common/meta_leaseset"
	"github.com/go-i2p/common/offline_signature"
	"github.com/go-i2p/common/router_address"
	"github.com/go-i2p/common/router_identity"
	"github.com/go-i2p/common/router_info"
	"github.com/go-i2p/common/signature"
	i2ped25519 "github.com/go-i2p/crypto/ed25519"
	"github.com/go-i2p/crypto/types"
)

// ---- failure collection ------------------------------------------------------------------------------

type c02 struct {
	kind  string
	pre   string // "spec-field" (parse direction) or "ctor-field" (constructor direction)
	fails []Fail
	seen  map[string]bool
}

func newC02(kind, pre string) *c02 { return &c02{kind: kind, pre: pre, seen: map[string]bool{}} }

func (c *c02) bad(field, format string, a ...interface{}) {
	if c.seen[field] {
		return
	}
	c.seen[field] = true
	c.fails = append(c.fails, fail("C02", c.pre+":"+c.kind+":"+field, "%s %s: %s", c.kind, field, fmt.Sprintf(format, a...)))
}
func (c *c02) eqB(field string, got, want []byte) {
	if !bytes.Equal(got, want) {
		c.bad(field, "got %s want %s", trunc(hx(got), 80), trunc(hx(want), 80))
	}
}
func (c *c02) eqI(field string, got, want int) {
	if got != want {
		c.bad(field, "got %d want %d", got, want)
	}
}
func (c *c02) eqU(field string, got, want uint64) {
	if got != want {
		c.bad(field, "got %d want %d", got, want)
	}
}

// ---- comparing library values with spec values ---------------------------------------------------------

func (c *c02) mapping(field string, m data.Mapping, want SpecMapping) {
	vals := m.Values()
	if len(vals) != len(want.Pairs) {
		c.bad(field, "%d pairs, want %d", len(vals), len(want.Pairs))
		return
	}
	for i, p := range vals {
		k, err1 := p[0].Data()
		v, err2 := p[1].Data()
		if err1 != nil || err2 != nil || k != string(want.Pairs[i][0]) || v != string(want.Pairs[i][1]) {
			c.bad(field, "pair %d is %s=%s, want %s=%s", i, hxs(k), hxs(v), hx(want.Pairs[i][0]), hx(want.Pairs[i][1]))
			return
		}
	}
}

func (c *c02) identity(pre string, k *keys_and_cert.KeysAndCert, want SpecIdentity) {
	if k == nil || k.KeyCertificate == nil {
		c.bad(pre+"identity", "nil KeysAndCert")
		return
	}
	c.eqI(pre+"sigtype", k.KeyCertificate.SigningPublicKeyType(), want.SigType)
	c.eqI(pre+"cryptotype", k.KeyCertificate.PublicKeyType(), want.CryptoType)
	if pk, err := k.PublicKey(); err != nil || pk == nil {
		c.bad(pre+"cryptokey", "PublicKey(): %v", err)
	} else {
		c.eqB(pre+"cryptokey", pk.Bytes(), want.CryptoKey)
		c.eqI(pre+"cryptokeylen", pk.Len(), len(want.CryptoKey))
	}
	if sk, err := k.SigningPublicKey(); err != nil || sk == nil {
		c.bad(pre+"sigkey", "SigningPublicKey(): %v", err)
	} else {
		c.eqB(pre+"sigkey", sk.Bytes(), want.SigKey)
		c.eqI(pre+"sigkeylen", sk.Len(), len(want.SigKey))
	}
	c.eqB(pre+"padding", k.Padding, want.Padding)
	cert := k.Certificate()
	if cert == nil {
		c.bad(pre+"cert", "Certificate() is nil")
	} else {
		wantType, wantPayload := 0, want.CertExtra
		if !want.NullCert {
			wantType = 5
			wantPayload = cat(u16(want.SigType), u16(want.CryptoType), want.SigKey[minInt(len(want.SigKey), 128):], want.CertExtra)
		}
		t, err1 := cert.Type()
		l, err2 := cert.Length()
		d, err3 := cert.Data()
		if err1 != nil || err2 != nil || (err3 != nil && len(wantPayload) > 0) {
			c.bad(pre+"cert", "certificate accessors fail: %v %v %v", err1, err2, err3)
		} else {
			c.eqI(pre+"certtype", t, wantType)
			c.eqI(pre+"certlen", l, len(wantPayload))
			c.eqB(pre+"certdata", d, wantPayload)
		}
	}
	if b, err := k.Bytes(); err != nil {
		c.bad(pre+"identitybytes", "Bytes(): %v", err)
	} else {
		c.eqB(pre+"identitybytes", b, want.Encode())
	}
}

func minInt(a, b int) int {
	if a < b {
		return a
	}
	return b
}

func (c *c02) offline(o *offline_signature.OfflineSignature, want *SpecOfflineSig, destType int) {
	if (o == nil) != (want == nil) {
		c.bad("offline", "offline block present=%v, want %v", o != nil, want != nil)
		return
	}
	if o == nil {
		return
	}
	c.eqU("offline.expires", uint64(o.Expires()), uint64(want.Expires))
	c.eqI("offline.type", int(o.TransientSigType()), want.TransientType)
	c.eqB("offline.key", o.TransientPublicKey(), want.TransientKey)
	c.eqB("offline.signature", o.Signature(), want.Signature)
	c.eqI("offline.desttype", int(o.DestinationSigType()), destType)
	c.eqB("offline.bytes", o.Bytes(), want.Encode())
}

func (c *c02) sig(s signature.Signature, want []byte, wantType int) {
	c.eqB("signature", s.Bytes(), want)
	c.eqI("signature.type", s.Type(), wantType)
	c.eqI("signature.len", s.Len(), len(want))
}

func (c *c02) lease2(i int, l lease.Lease2, want SpecLease2) {
	h := l.TunnelGateway()
	f := fmt.Sprintf("lease[%d].", i)
	if i < 0 {
		f = ""
	}
	c.eqB(f+"gateway", h[:], want.Gateway)
	c.eqU(f+"tunnelid", uint64(l.TunnelID()), uint64(want.TunnelID))
	c.eqU(f+"enddate", uint64(l.EndDate()), uint64(want.EndDate))
	c.eqB(f+"bytes", l.Bytes(), want.Encode())
}

func (c *c02) lease1(i int, l lease.Lease, want SpecLease) {
	h := l.TunnelGateway()
	f := fmt.Sprintf("lease[%d].", i)
	if i < 0 {
		f = ""
	}
	d := l.Date()
	c.eqB(f+"gateway", h[:], want.Gateway)
	c.eqU(f+"tunnelid", uint64(l.TunnelID()), uint64(want.TunnelID))
	c.eqU(f+"enddate", binary.BigEndian.Uint64(d[:]), want.EndDate)
	c.eqB(f+"bytes", l.Bytes(), want.Encode())
}

func (c *c02) routerAddress(pre string, a *router_address.RouterAddress, want SpecRouterAddress) {
	if a == nil {
		c.bad(pre+"address", "nil RouterAddress")
		return
	}
	c.eqI(pre+"cost", a.Cost(), want.Cost)
	e := a.Expiration()
	c.eqU(pre+"expiration", binary.BigEndian.Uint64(e[:]), want.Expiration)
	st, err := a.TransportStyle().Data()
	if err != nil && len(want.Style) > 0 {
		c.bad(pre+"style", "TransportStyle().Data(): %v", err)
	} else {
		c.eqB(pre+"style", []byte(st), want.Style)
	}
	c.mapping(pre+"options", a.Options(), want.Options)
	c.eqB(pre+"bytes", a.Bytes(), want.Encode())
}

// sigTypeOf: the type of the trailing signature of a LeaseSet2-family structure.
func sigTypeOf(destType int, off *SpecOfflineSig) int {
	if off != nil {
		return off.TransientType
	}
	return destType
}

// ---- !c02parse ------------------------------------------------------------------------------------------

// specSplit decodes the argument with the independent decoder: enc = the spec encoding, trail = stream bytes after it.
func specSplit(a []string, w []byte, rest []byte, ok bool) (enc, trail []byte) {
	if !ok {
		panic("harness: c02: the argument is not a spec encoding of kind " + a[0])
	}
	enc, trail = w[:len(w)-len(rest)], rest
	if len(a) > 2 && atoi(a[2]) != len(enc) {
		panic(fmt.Sprintf("harness: c02: spec decoder consumed %d bytes, the generator announced %s", len(enc), a[2]))
	}
	return
}

func (c *c02) framing(err error, rem, trail []byte) bool {
	if err != nil {
		c.fails = append(c.fails, fail("C02", "spec-rejected:"+c.kind+":error", "%s: the parser rejects a well-formed spec encoding: %v", c.kind, err))
		return false
	}
	if !bytes.Equal(rem, trail) {
		c.fails = append(c.fails, fail("C02", "spec-consumed:"+c.kind, "%s: remainder has %d bytes (%s), the encoding is followed by %d bytes (%s)", c.kind, len(rem), trunc(hx(rem), 40), len(trail), trunc(hx(trail), 40)))
	}
	return true
}

func (c *c02) done(summary string) (string, []Fail) {
	if len(c.fails) > 0 {
		return "fail " + summary, c.fails
	}
	count("c02:" + c.pre + ":" + strings.SplitN(c.kind, ":", 2)[0])
	return "ok " + summary, nil
}

func c02Parse(a []string) (string, []Fail) {
	kind := a[0]
	w := unhx(a[1])
	base := strings.SplitN(kind, ":", 2)[0]
	c := newC02(base, "spec-field")
	switch base {
	case "mapping":
		want, rest, ok := DecodeMapping(w)
		enc, trail := specSplit(a, w, rest, ok)
		m, rem, errs := data.ReadMapping(w)
		var err error
		if !mappingAccepted(errs) {
			err = errs[0]
		}
		if c.framing(err, rem, trail) {
			c.mapping("pairs", m, want)
			c.eqB("bytes", m.Data(), enc)
		}
		return c.done(fmt.Sprintf("pairs=%d", len(want.Pairs)))
	case "kac", "dest", "rid":
		want, rest, ok := DecodeIdentity(w)
		enc, trail := specSplit(a, w, rest, ok)
		var k *keys_and_cert.KeysAndCert
		var rem []byte
		var err error
		switch base {
		case "kac":
			k, rem, err = keys_and_cert.ReadKeysAndCert(w)
		case "dest":
			var d destination.Destination
			d, rem, err = destination.ReadDestination(w)
			k = d.KeysAndCert
		case "rid":
			var r *router_identity.RouterIdentity
			r, rem, err = router_identity.ReadRouterIdentity(w)
			if r != nil {
				k = r.KeysAndCert
			}
		}
		if c.framing(err, rem, trail) {
			c.identity("", k, want)
			_ = enc
		}
		return c.done(fmt.Sprintf("types=%d/%d null=%v extra=%d", want.SigType, want.CryptoType, want.NullCert, len(want.CertExtra)))
	case "lease":
		want, rest, ok := DecodeLease(w)
		_, trail := specSplit(a, w, rest, ok)
		l, rem, err := lease.ReadLease(w)
		if c.framing(err, rem, trail) {
			c.lease1(-1, l, want)
		}
		return c.done("")
	case "lease2":
		want, rest, ok := DecodeLease2(w)
		_, trail := specSplit(a, w, rest, ok)
		l, rem, err := lease.ReadLease2(w)
		if c.framing(err, rem, trail) {
			c.lease2(-1, l, want)
		}
		return c.done("")
	case "offsig":
		destType := atoi(strings.SplitN(kind, ":", 2)[1])
		want, rest, ok := DecodeOfflineSig(w, destType)
		_, trail := specSplit(a, w, rest, ok)
		o, rem, err := offline_signature.ReadOfflineSignature(w, uint16(destType))
		if c.framing(err, rem, trail) {
			c.offline(&o, &want, destType)
		}
		return c.done(fmt.Sprintf("dest=%d transient=%d", destType, want.TransientType))
	case "ls":
		want, rest, ok := DecodeLeaseSet(w)
		enc, _ := specSplit(a, w, rest, ok)
		v, err := lease_set.ReadLeaseSet(w)
		// ReadLeaseSet returns no remainder: "consumes exactly" is judged on the re-serialisation
		if c.framing(err, nil, nil) {
			d := v.Destination()
			c.identity("dest.", d.KeysAndCert, want.Dest)
			if pk, err := v.PublicKey(); err != nil {
				c.bad("enckey", "PublicKey(): %v", err)
			} else {
				c.eqB("enckey", pk[:], want.EncKey)
			}
			if sk, err := v.SigningKey(); err != nil || sk == nil {
				c.bad("signingkey", "SigningKey(): %v", err)
			} else {
				c.eqB("signingkey", sk.Bytes(), want.SigningKey)
			}
			c.eqI("leasecount", v.LeaseCount(), len(want.Leases))
			ls := v.Leases()
			c.eqI("leases", len(ls), len(want.Leases))
			for i := 0; i < len(ls) && i < len(want.Leases); i++ {
				c.lease1(i, ls[i], want.Leases[i])
			}
			c.sig(v.Signature(), want.Signature, want.Dest.SigType)
			if b, err := v.Bytes(); err != nil {
				c.bad("bytes", "Bytes(): %v", err)
			} else {
				c.eqB("bytes", b, enc)
			}
		}
		return c.done(fmt.Sprintf("leases=%d", len(want.Leases)))
	case "ls2":
		want, rest, ok := DecodeLeaseSet2(w)
		enc, trail := specSplit(a, w, rest, ok)
		v, rem, err := lease_set2.ReadLeaseSet2(w)
		if c.framing(err, rem, trail) {
			d := v.Destination()
			c.identity("dest.", d.KeysAndCert, want.Dest)
			c.eqU("published", uint64(v.Published()), uint64(want.Published))
			c.eqU("expires", uint64(v.Expires()), uint64(want.Expires))
			c.eqU("flags", uint64(v.Flags()), uint64(want.Flags))
			if v.HasOfflineKeys() != (want.Offline != nil) {
				c.bad("offline", "HasOfflineKeys() = %v", v.HasOfflineKeys())
			}
			c.offline(v.OfflineSignature(), want.Offline, want.Dest.SigType)
			c.mapping("options", v.Options(), want.Options)
			ks := v.EncryptionKeys()
			c.eqI("keycount", v.EncryptionKeyCount(), len(want.Keys))
			c.eqI("keys", len(ks), len(want.Keys))
			for i := 0; i < len(ks) && i < len(want.Keys); i++ {
				c.eqI(fmt.Sprintf("key[%d].type", i), int(ks[i].KeyType), want.Keys[i].Type)
				c.eqI(fmt.Sprintf("key[%d].len", i), int(ks[i].KeyLen), len(want.Keys[i].Data))
				c.eqB(fmt.Sprintf("key[%d].data", i), ks[i].KeyData, want.Keys[i].Data)
			}
			ls := v.Leases()
			c.eqI("leasecount", v.LeaseCount(), len(want.Leases))
			c.eqI("leases", len(ls), len(want.Leases))
			for i := 0; i < len(ls) && i < len(want.Leases); i++ {
				c.lease2(i, ls[i], want.Leases[i])
			}
			c.sig(v.Signature(), want.Signature, sigTypeOf(want.Dest.SigType, want.Offline))
			if b, err := v.Bytes(); err != nil {
				c.bad("bytes", "Bytes(): %v", err)
			} else {
				c.eqB("bytes", b, enc)
			}
		}
		return c.done(fmt.Sprintf("keys=%d leases=%d options=%d offline=%v", len(want.Keys), len(want.Leases), len(want.Options.Pairs), want.Offline != nil))
	case "meta":
		want, rest, ok := DecodeMetaLeaseSet(w)
		enc, trail := specSplit(a, w, rest, ok)
		v, rem, err := meta_leaseset.ReadMetaLeaseSet(w)
		if c.framing(err, rem, trail) {
			d := v.Destination()
			c.identity("dest.", d.KeysAndCert, want.Dest)
			c.eqU("published", uint64(v.Published()), uint64(want.Published))
			c.eqU("expires", uint64(v.Expires()), uint64(want.Expires))
			c.eqU("flags", uint64(v.Flags()), uint64(want.Flags))
			if v.HasOfflineKeys() != (want.Offline != nil) {
				c.bad("offline", "HasOfflineKeys() = %v", v.HasOfflineKeys())
			}
			c.offline(v.OfflineSignature(), want.Offline, want.Dest.SigType)
			c.mapping("options", v.Options(), want.Options)
			es := v.Entries()
			c.eqI("numentries", v.NumEntries(), len(want.Entries))
			c.eqI("entries", len(es), len(want.Entries))
			for i := 0; i < len(es) && i < len(want.Entries); i++ {
				h := es[i].Hash()
				f := fmt.Sprintf("entry[%d].", i)
				c.eqB(f+"hash", h[:], want.Entries[i].Hash)
				c.eqI(f+"type", int(es[i].Type()), want.Entries[i].Type)
				c.eqU(f+"expires", uint64(es[i].Expires()), uint64(want.Entries[i].Expires))
				c.eqI(f+"cost", int(es[i].Cost()), want.Entries[i].Cost)
				c.mapping(f+"properties", es[i].Properties(), want.Entries[i].Properties)
			}
			c.sig(v.Signature(), want.Signature, sigTypeOf(want.Dest.SigType, want.Offline))
			if b, err := v.Bytes(); err != nil {
				c.bad("bytes", "Bytes(): %v", err)
			} else {
				c.eqB("bytes", b, enc)
			}
		}
		return c.done(fmt.Sprintf("entries=%d options=%d offline=%v", len(want.Entries), len(want.Options.Pairs), want.Offline != nil))
	case "els":
		want, rest, ok := DecodeEncryptedLeaseSet(w)
		enc, trail := specSplit(a, w, rest, ok)
		v, rem, err := encrypted_leaseset.ReadEncryptedLeaseSet(w)
		if c.framing(err, rem, trail) {
			c.eqI("sigtype", int(v.SigType()), want.SigType)
			c.eqB("blindedkey", v.BlindedPublicKey(), want.BlindedKey)
			c.eqU("published", uint64(v.Published()), uint64(want.Published))
			c.eqU("expires", uint64(v.Expires()), uint64(want.Expires))
			c.eqU("flags", uint64(v.Flags()), uint64(want.Flags))
			c.offline(v.OfflineSignature(), want.Offline, want.SigType)
			c.eqI("innerlength", int(v.InnerLength()), len(want.Inner))
			c.eqB("inner", v.EncryptedInnerData(), want.Inner)
			c.sig(v.Signature(), want.Signature, sigTypeOf(want.SigType, want.Offline))
			if b, err := v.Bytes(); err != nil {
				c.bad("bytes", "Bytes(): %v", err)
			} else {
				c.eqB("bytes", b, enc)
			}
		}
		return c.done(fmt.Sprintf("sigtype=%d inner=%d offline=%v", want.SigType, len(want.Inner), want.Offline != nil))
	case "ra":
		want, rest, ok := DecodeRouterAddress(w)
		_, trail := specSplit(a, w, rest, ok)
		v, rem, err := router_address.ReadRouterAddress(w)
		if c.framing(err, rem, trail) {
			c.routerAddress("", &v, want)
		}
		return c.done(fmt.Sprintf("options=%d", len(want.Options.Pairs)))
	case "ri":
		want, rest, ok := DecodeRouterInfo(w)
		enc, trail := specSplit(a, w, rest, ok)
		v, rem, err := router_info.ReadRouterInfo(w)
		if c.framing(err, rem, trail) {
			if id := v.RouterIdentity(); id == nil {
				c.bad("ident.identity", "RouterIdentity() is nil")
			} else {
				c.identity("ident.", id.KeysAndCert, want.Ident)
			}
			if p := v.Published(); p == nil {
				c.bad("published", "Published() is nil")
			} else {
				c.eqU("published", binary.BigEndian.Uint64(p[:]), want.Published)
			}
			as := v.RouterAddresses()
			c.eqI("addresscount", v.RouterAddressCount(), len(want.Addresses))
			c.eqI("addresses", len(as), len(want.Addresses))
			for i := 0; i < len(as) && i < len(want.Addresses); i++ {
				c.routerAddress(fmt.Sprintf("address[%d].", i), as[i], want.Addresses[i])
			}
			c.eqI("peersize", v.PeerSize(), len(want.Peers))
			c.mapping("options", v.Options(), want.Options)
			c.sig(v.Signature(), want.Signature, want.Ident.SigType)
			if b, err := v.Bytes(); err != nil {
				c.bad("bytes", "Bytes(): %v", err)
			} else {
				c.eqB("bytes", b, enc)
			}
		}
		return c.done(fmt.Sprintf("addresses=%d options=%d", len(want.Addresses), len(want.Options.Pairs)))
	}
	panic("harness: c02parse: unknown kind " + kind)
}

// ---- !c02ctor -------------------------------------------------------------------------------------------

// raw keys: the constructors take key *interfaces*; the harness supplies the bytes of the argument
type rawEncKey []byte

func (k rawEncKey) Len() int      { return len(k) }
func (k rawEncKey) Bytes() []byte { return []byte(k) }
func (k rawEncKey) NewEncrypter() (types.Encrypter, error) {
	return nil, errors.New("harness key: no encrypter")
}

type rawSigKey []byte

func (k rawSigKey) Len() int      { return len(k) }
func (k rawSigKey) Bytes() []byte { return []byte(k) }
func (k rawSigKey) NewVerifier() (types.Verifier, error) {
	return nil, errors.New("harness key: no verifier")
}

// fixedSigner "signs" with the signature bytes of the argument value (NewLeaseSet takes any SigningPrivateKey)
type fixedSigner struct{ sig []byte }

func (f fixedSigner) NewSigner() (types.Signer, error)           { return f, nil }
func (f fixedSigner) Len() int                                   { return len(f.sig) }
func (f fixedSigner) Public() (types.SigningPublicKey, error)    { return nil, errors.New("harness key") }
func (f fixedSigner) Generate() (types.SigningPrivateKey, error) { return f, nil }
func (f fixedSigner) Sign(d []byte) ([]byte, error)              { return append([]byte{}, f.sig...), nil }
func (f fixedSigner) SignHash(h []byte) ([]byte, error)          { return append([]byte{}, f.sig...), nil }

func c02GoMapOf(m SpecMapping) map[string]string {
	out := map[string]string{}
	for _, p := range m.Pairs {
		if _, dup := out[string(p[0])]; dup {
			panic("harness: c02ctor: duplicate key in a Go-map argument")
		}
		out[string(p[0])] = string(p[1])
	}
	return out
}

// ctorKeysAndCert builds the identity through the certificate builder and NewKeysAndCert.
func ctorKeysAndCert(want SpecIdentity) (*keys_and_cert.KeysAndCert, *certificate.Certificate, error) {
	if want.NullCert {
		return nil, nil, errors.New("harness: a NULL-certificate identity has no public constructor")
	}
	var cert *certificate.Certificate
	var err error
	if len(want.CertExtra) == 0 {
		b, e := certificate.NewCertificateBuilder().WithKeyTypes(want.SigType, want.CryptoType)
		if e != nil {
			return nil, nil, e
		}
		cert, err = b.Build()
	} else {
		payload, e := certificate.BuildKeyTypePayload(want.SigType, want.CryptoType)
		if e != nil {
			return nil, nil, e
		}
		b, e := certificate.NewCertificateBuilder().WithType(certificate.CERT_KEY)
		if e != nil {
			return nil, nil, e
		}
		cert, err = b.WithPayload(cat(payload, want.CertExtra)).Build()
	}
	if err != nil {
		return nil, nil, err
	}
	kc, err := key_certificate.KeyCertificateFromCertificate(cert)
	if err != nil {
		return nil, nil, err
	}
	k, err := keys_and_cert.NewKeysAndCert(kc, rawEncKey(want.CryptoKey), want.Padding, rawSigKey(want.SigKey))
	return k, cert, err
}

func ctorOffline(o *SpecOfflineSig, destType int) (*offline_signature.OfflineSignature, error) {
	if o == nil {
		return nil, nil
	}
	v, err := offline_signature.NewOfflineSignature(o.Expires, uint16(o.TransientType), o.TransientKey, o.Signature, uint16(destType))
	if err != nil {
		return nil, err
	}
	return &v, nil
}

func hash32(b []byte) (h data.Hash) { copy(h[:], b); return }

func edKey(seedHex string) ed25519.PrivateKey {
	seed := unhx(seedHex)
	if len(seed) != 32 {
		panic("harness: c02ctor: the signing seed must be 32 bytes")
	}
	return ed25519.NewKeyFromSeed(seed)
}

func (c *c02) undecodable(why string, a ...interface{}) (string, []Fail) {
	return "fail", []Fail{fail("C02", "ctor-undecodable:"+c.kind, "%s: %s", c.kind, fmt.Sprintf(why, a...))}
}

// ctorErr: the constructor refused argument values that the specification allows
func (c *c02) ctorErr(err error) (string, []Fail) {
	return "fail", []Fail{fail("C02", "ctor-rejected:"+c.kind, "%s: the constructor rejects spec-conforming field values: %v", c.kind, err)}
}

func (c *c02) specIdentity(pre string, got, want SpecIdentity) {
	c.eqI(pre+"sigtype", got.SigType, want.SigType)
	c.eqI(pre+"cryptotype", got.CryptoType, want.CryptoType)
	if got.NullCert != want.NullCert {
		c.bad(pre+"certtype", "NULL certificate = %v, want %v", got.NullCert, want.NullCert)
	}
	c.eqB(pre+"cryptokey", got.CryptoKey, want.CryptoKey)
	c.eqB(pre+"padding", got.Padding, want.Padding)
	c.eqB(pre+"sigkey", got.SigKey, want.SigKey)
	c.eqB(pre+"certextra", got.CertExtra, want.CertExtra)
}

func (c *c02) specMapping(field string, got, want SpecMapping) {
	if !got.equal(want) {
		c.bad(field, "decoded %s, want %s", trunc(hx(got.Encode()), 80), trunc(hx(want.Encode()), 80))
	}
}

func (c *c02) specOffline(got, want *SpecOfflineSig) {
	if (got == nil) != (want == nil) {
		c.bad("offline", "offline block present=%v, want %v", got != nil, want != nil)
		return
	}
	if got == nil {
		return
	}
	c.eqU("offline.expires", uint64(got.Expires), uint64(want.Expires))
	c.eqI("offline.type", got.TransientType, want.TransientType)
	c.eqB("offline.key", got.TransientKey, want.TransientKey)
	c.eqB("offline.signature", got.Signature, want.Signature)
}

func (c *c02) specAddress(pre string, got, want SpecRouterAddress) {
	c.eqI(pre+"cost", got.Cost, want.Cost)
	c.eqU(pre+"expiration", got.Expiration, want.Expiration)
	c.eqB(pre+"style", got.Style, want.Style)
	c.specMapping(pre+"options", got.Options, want.Options.sortedByKey())
}

func c02Ctor(a []string) (string, []Fail) {
	kind := a[0]
	w := unhx(a[1])
	base := strings.SplitN(kind, ":", 2)[0]
	c := newC02(base, "ctor-field")
	need := func(ok bool, rest []byte) {
		if !ok || len(rest) != 0 {
			panic("harness: c02ctor: the argument is not exactly one spec encoding of kind " + kind)
		}
	}
	switch base {
	case "gomap":
		want, rest, ok := DecodeMapping(w)
		need(ok, rest)
		m, err := data.GoMapToMapping(c02GoMapOf(want))
		if err != nil || m == nil {
			return c.ctorErr(err)
		}
		got, rest, ok := DecodeMapping(m.Data())
		if !ok || len(rest) != 0 {
			return c.undecodable("GoMapToMapping(...).Data() = %s", trunc(hx(m.Data()), 80))
		}
		c.specMapping("pairs", got, want.sortedByKey())
		return c.done(fmt.Sprintf("pairs=%d", len(want.Pairs)))
	case "cert":
		// argument: a bare certificate (type, length, payload) as the spec writes it
		if len(w) < 3 || int(w[1])<<8|int(w[2]) != len(w)-3 {
			panic("harness: c02ctor cert: bad argument")
		}
		b, err := certificate.NewCertificateBuilder().WithType(w[0])
		if err != nil {
			return c.ctorErr(err)
		}
		if len(w) > 3 {
			b = b.WithPayload(w[3:])
		}
		cert, err := b.Build()
		if err != nil {
			return c.ctorErr(err)
		}
		c.eqB("bytes", cert.Bytes(), w)
		return c.done(fmt.Sprintf("type=%d payload=%d", w[0], len(w)-3))
	case "kac", "dest", "rid":
		want, rest, ok := DecodeIdentity(w)
		need(ok, rest)
		k, cert, err := ctorKeysAndCert(want)
		if err != nil {
			return c.ctorErr(err)
		}
		var b []byte
		switch base {
		case "kac":
			b, err = k.Bytes()
		case "dest":
			var d *destination.Destination
			if d, err = destination.NewDestination(k); err == nil {
				b, err = d.Bytes()
			}
		case "rid":
			var r *router_identity.RouterIdentity
			if r, err = router_identity.NewRouterIdentity(rawEncKey(want.CryptoKey), rawSigKey(want.SigKey), cert, want.Padding); err == nil {
				b, err = r.Bytes()
			}
		}
		if err != nil {
			return c.ctorErr(err)
		}
		got, rest, ok := DecodeIdentity(b)
		if !ok || len(rest) != 0 {
			return c.undecodable("Bytes() = %s", trunc(hx(b), 80))
		}
		c.specIdentity("", got, want)
		return c.done(fmt.Sprintf("types=%d/%d extra=%d", want.SigType, want.CryptoType, len(want.CertExtra)))
	case "lease":
		want, rest, ok := DecodeLease(w)
		need(ok, rest)
		l, err := lease.NewLease(hash32(want.Gateway), want.TunnelID, time.UnixMilli(int64(want.EndDate)))
		if err != nil {
			return c.ctorErr(err)
		}
		got, rest, ok := DecodeLease(l.Bytes())
		if !ok || len(rest) != 0 {
			return c.undecodable("Bytes() = %s", hx(l.Bytes()))
		}
		c.eqB("gateway", got.Gateway, want.Gateway)
		c.eqU("tunnelid", uint64(got.TunnelID), uint64(want.TunnelID))
		c.eqU("enddate", got.EndDate, want.EndDate)
		return c.done("")
	case "lease2":
		want, rest, ok := DecodeLease2(w)
		need(ok, rest)
		l, err := lease.NewLease2(hash32(want.Gateway), want.TunnelID, time.Unix(int64(want.EndDate), 0))
		if err != nil {
			return c.ctorErr(err)
		}
		got, rest, ok := DecodeLease2(l.Bytes())
		if !ok || len(rest) != 0 {
			return c.undecodable("Bytes() = %s", hx(l.Bytes()))
		}
		c.eqB("gateway", got.Gateway, want.Gateway)
		c.eqU("tunnelid", uint64(got.TunnelID), uint64(want.TunnelID))
		c.eqU("enddate", uint64(got.EndDate), uint64(want.EndDate))
		return c.done("")
	case "offsig", "offsigcreate":
		destType := atoi(strings.SplitN(kind, ":", 2)[1])
		want, rest, ok := DecodeOfflineSig(w, destType)
		need(ok, rest)
		var o offline_signature.OfflineSignature
		var err error
		if base == "offsig" {
			o, err = offline_signature.NewOfflineSignature(want.Expires, uint16(want.TransientType), want.TransientKey, want.Signature, uint16(destType))
		} else {
			o, err = offline_signature.CreateOfflineSignature(want.Expires, uint16(want.TransientType), want.TransientKey, edKey(a[2]), uint16(destType))
		}
		if err != nil {
			return c.ctorErr(err)
		}
		got, rest, ok := DecodeOfflineSig(o.Bytes(), destType)
		if !ok || len(rest) != 0 {
			return c.undecodable("Bytes() = %s", trunc(hx(o.Bytes()), 80))
		}
		if base == "offsigcreate" {
			want.Signature = got.Signature // produced by the constructor: only its length (checked by the decoder) is fixed by the arguments
		}
		c.specOffline(&got, &want)
		return c.done(fmt.Sprintf("dest=%d transient=%d", destType, want.TransientType))
	case "ls2":
		want, rest, ok := DecodeLeaseSet2(w)
		need(ok, rest)
		k, _, err := ctorKeysAndCert(want.Dest)
		if err != nil {
			return c.ctorErr(err)
		}
		d, err := destination.NewDestination(k)
		if err != nil {
			return c.ctorErr(err)
		}
		off, err := ctorOffline(want.Offline, want.Dest.SigType)
		if err != nil {
			return c.ctorErr(err)
		}
		opts, err := data.GoMapToMapping(c02GoMapOf(want.Options))
		if err != nil {
			return c.ctorErr(err)
		}
		var keys []lease_set2.EncryptionKey
		for _, ek := range want.Keys {
			keys = append(keys, lease_set2.EncryptionKey{KeyType: uint16(ek.Type), KeyLen: uint16(len(ek.Data)), KeyData: ek.Data})
		}
		var leases []lease.Lease2
		for _, sl := range want.Leases {
			l, err := lease.NewLease2(hash32(sl.Gateway), sl.TunnelID, time.Unix(int64(sl.EndDate), 0))
			if err != nil {
				return c.ctorErr(err)
			}
			leases = append(leases, *l)
		}
		v, err := lease_set2.NewLeaseSet2(*d, want.Published, want.Expires, want.Flags, off, *opts, keys, leases, nil)
		if err != nil {
			return c.ctorErr(err)
		}
		b, err := v.Bytes()
		if err != nil {
			return c.ctorErr(err)
		}
		got, rest, ok := DecodeLeaseSet2(b)
		if !ok || len(rest) != 0 {
			return c.undecodable("Bytes() = %s…", trunc(hx(b), 80))
		}
		c.specIdentity("dest.", got.Dest, want.Dest)
		c.eqU("published", uint64(got.Published), uint64(want.Published))
		c.eqU("expires", uint64(got.Expires), uint64(want.Expires))
		c.eqU("flags", uint64(got.Flags), uint64(want.Flags))
		c.specOffline(got.Offline, want.Offline)
		c.specMapping("options", got.Options, want.Options.sortedByKey())
		c.eqI("keys", len(got.Keys), len(want.Keys))
		for i := 0; i < len(got.Keys) && i < len(want.Keys); i++ {
			c.eqI(fmt.Sprintf("key[%d].type", i), got.Keys[i].Type, want.Keys[i].Type)
			c.eqB(fmt.Sprintf("key[%d].data", i), got.Keys[i].Data, want.Keys[i].Data)
		}
		c.eqI("leases", len(got.Leases), len(want.Leases))
		for i := 0; i < len(got.Leases) && i < len(want.Leases); i++ {
			c.eqB(fmt.Sprintf("lease[%d]", i), got.Leases[i].Encode(), want.Leases[i].Encode())
		}
		c.eqI("signature.len", len(got.Signature), len(want.Signature))
		return c.done(fmt.Sprintf("keys=%d leases=%d options=%d offline=%v", len(want.Keys), len(want.Leases), len(want.Options.Pairs), want.Offline != nil))
	case "els":
		want, rest, ok := DecodeEncryptedLeaseSet(w)
		need(ok, rest)
		off, err := ctorOffline(want.Offline, want.SigType)
		if err != nil {
			return c.ctorErr(err)
		}
		v, err := encrypted_leaseset.NewEncryptedLeaseSet(uint16(want.SigType), want.BlindedKey, want.Published, want.Expires, want.Flags, off, want.Inner, edKey(a[2]))
		if err != nil {
			return c.ctorErr(err)
		}
		b, err := v.Bytes()
		if err != nil {
			return c.ctorErr(err)
		}
		got, rest, ok := DecodeEncryptedLeaseSet(b)
		if !ok || len(rest) != 0 {
			return c.undecodable("Bytes() = %s…", trunc(hx(b), 80))
		}
		c.eqI("sigtype", got.SigType, want.SigType)
		c.eqB("blindedkey", got.BlindedKey, want.BlindedKey)
		c.eqU("published", uint64(got.Published), uint64(want.Published))
		c.eqU("expires", uint64(got.Expires), uint64(want.Expires))
		c.eqU("flags", uint64(got.Flags), uint64(want.Flags))
		c.specOffline(got.Offline, want.Offline)
		c.eqB("inner", got.Inner, want.Inner)
		c.eqI("signature.len", len(got.Signature), len(want.Signature))
		return c.done(fmt.Sprintf("sigtype=%d inner=%d offline=%v", want.SigType, len(want.Inner), want.Offline != nil))
	case "ls":
		want, rest, ok := DecodeLeaseSet(w)
		need(ok, rest)
		k, _, err := ctorKeysAndCert(want.Dest)
		if err != nil {
			return c.ctorErr(err)
		}
		d, err := destination.NewDestination(k)
		if err != nil {
			return c.ctorErr(err)
		}
		var leases []lease.Lease
		for _, sl := range want.Leases {
			l, err := lease.NewLease(hash32(sl.Gateway), sl.TunnelID, time.UnixMilli(int64(sl.EndDate)))
			if err != nil {
				return c.ctorErr(err)
			}
			leases = append(leases, *l)
		}
		v, err := lease_set.NewLeaseSet(*d, rawEncKey(want.EncKey), rawSigKey(want.SigningKey), leases, fixedSigner{want.Signature})
		if err != nil {
			return c.ctorErr(err)
		}
		b, err := v.Bytes()
		if err != nil {
			return c.ctorErr(err)
		}
		got, rest, ok := DecodeLeaseSet(b)
		if !ok || len(rest) != 0 {
			return c.undecodable("Bytes() = %s…", trunc(hx(b), 80))
		}
		c.specIdentity("dest.", got.Dest, want.Dest)
		c.eqB("enckey", got.EncKey, want.EncKey)
		c.eqB("signingkey", got.SigningKey, want.SigningKey)
		c.eqI("leases", len(got.Leases), len(want.Leases))
		for i := 0; i < len(got.Leases) && i < len(want.Leases); i++ {
			c.eqB(fmt.Sprintf("lease[%d]", i), got.Leases[i].Encode(), want.Leases[i].Encode())
		}
		c.eqB("signature", got.Signature, want.Signature)
		return c.done(fmt.Sprintf("leases=%d", len(want.Leases)))
	case "ra":
		want, rest, ok := DecodeRouterAddress(w)
		need(ok, rest)
		v, err := router_address.NewRouterAddress(uint8(want.Cost), time.UnixMilli(int64(want.Expiration)), string(want.Style), c02GoMapOf(want.Options))
		if err != nil {
			return c.ctorErr(err)
		}
		got, rest, ok := DecodeRouterAddress(v.Bytes())
		if !ok || len(rest) != 0 {
			return c.undecodable("Bytes() = %s…", trunc(hx(v.Bytes()), 80))
		}
		c.specAddress("", got, want)
		return c.done(fmt.Sprintf("options=%d", len(want.Options.Pairs)))
	case "ri":
		want, rest, ok := DecodeRouterInfo(w)
		need(ok, rest)
		_, cert, err := ctorKeysAndCert(want.Ident)
		if err != nil {
			return c.ctorErr(err)
		}
		rid, err := router_identity.NewRouterIdentity(rawEncKey(want.Ident.CryptoKey), rawSigKey(want.Ident.SigKey), cert, want.Ident.Padding)
		if err != nil {
			return c.ctorErr(err)
		}
		var addrs []*router_address.RouterAddress
		for _, sa := range want.Addresses {
			ra, err := router_address.NewRouterAddress(uint8(sa.Cost), time.UnixMilli(int64(sa.Expiration)), string(sa.Style), c02GoMapOf(sa.Options))
			if err != nil {
				return c.ctorErr(err)
			}
			addrs = append(addrs, ra)
		}
		pk := i2ped25519.Ed25519PrivateKey(edKey(a[2]))
		v, err := router_info.NewRouterInfo(rid, time.UnixMilli(int64(want.Published)), addrs, c02GoMapOf(want.Options), &pk, signature.SIGNATURE_TYPE_EDDSA_SHA512_ED25519)
		if err != nil {
			return c.ctorErr(err)
		}
		b, err := v.Bytes()
		if err != nil {
			return c.ctorErr(err)
		}
		got, rest, ok := DecodeRouterInfo(b)
		if !ok || len(rest) != 0 {
			return c.undecodable("Bytes() = %s…", trunc(hx(b), 80))
		}
		c.specIdentity("ident.", got.Ident, want.Ident)
		c.eqU("published", got.Published, want.Published)
		c.eqI("addresses", len(got.Addresses), len(want.Addresses))
		for i := 0; i < len(got.Addresses) && i < len(want.Addresses); i++ {
			c.specAddress(fmt.Sprintf("address[%d].", i), got.Addresses[i], want.Addresses[i])
		}
		c.eqI("peersize", len(got.Peers), 0)
		c.specMapping("options", got.Options, want.Options.sortedByKey())
		c.eqI("signature.len", len(got.Signature), len(want.Signature))
		return c.done(fmt.Sprintf("addresses=%d options=%d", len(want.Addresses), len(want.Options.Pairs)))
	}
	panic("harness: c02ctor: unknown kind " + kind)
}

// !c02probe <kind> <hex>: an encoding that follows the LAYOUT but lies outside what the parser accepts by
// design or by a recorded restriction (see the `…Accepted` hypotheses of lean/I2P/Props/C02.lean).  No oracle:
// the observation line records whether the library takes it, so a change of these borders shows up in the
// per-op statistics of the evidence file.
func c02Probe(a []string) (string, []Fail) {
	w := unhx(a[1])
	var err error
	switch a[0] {
	case "mapping":
		if _, _, ok := DecodeMapping(w); !ok {
			panic("harness: c02probe: not a spec encoding")
		}
		_, _, errs := data.ReadMapping(w)
		if !mappingAccepted(errs) {
			err = errs[0]
		}
	case "kac":
		if _, _, ok := DecodeIdentity(w); !ok {
			panic("harness: c02probe: not a spec encoding")
		}
		_, _, err = keys_and_cert.ReadKeysAndCert(w)
	case "ls2":
		if _, _, ok := DecodeLeaseSet2(w); !ok {
			panic("harness: c02probe: not a spec encoding")
		}
		_, _, err = lease_set2.ReadLeaseSet2(w)
	case "meta":
		if _, _, ok := DecodeMetaLeaseSet(w); !ok {
			panic("harness: c02probe: not a spec encoding")
		}
		_, _, err = meta_leaseset.ReadMetaLeaseSet(w)
	case "els":
		if _, _, ok := DecodeEncryptedLeaseSet(w); !ok {
			panic("harness: c02probe: not a spec encoding")
		}
		_, _, err = encrypted_leaseset.ReadEncryptedLeaseSet(w)
	default:
		panic("harness: c02probe: unknown kind " + a[0])
	}
	tag := a[0]
	if len(a) > 2 {
		tag += ":" + a[2]
	}
	if err != nil {
		count("c02:probe-rejected:" + tag)
		return "err rejected", nil
	}
	count("c02:probe-accepted:" + tag)
	return "ok accepted", nil
}

func init() {
	reg("!c02parse", c02Parse)
	reg("!c02ctor", c02Ctor)
	reg("!c02probe", c02Probe)
}

// ---- specDecode: the Go transcription of the layout against the Lean one ------------------------------------
//
// specDecode <kind> <hex> runs the INDEPENDENT decoder of spec.go (not the library) and prints every decoded
// field; the Lean driver runs the spec codec of lean/I2P/Spec/Structs.lean on the same bytes and prints the same
// line.  A slip in either transcription of the layout shows up as a correspondence disagreement.

func dId(id SpecIdentity) string {
	n := 0
	if id.NullCert {
		n = 1
	}
	return fmt.Sprintf("id(%d,%d,%d,%s,%s,%s,%s)", n, id.SigType, id.CryptoType, hx(id.CryptoKey), hx(id.Padding), hx(id.SigKey), hx(id.CertExtra))
}
func dMap(m SpecMapping) string {
	var parts []string
	for _, p := range m.Pairs {
		parts = append(parts, hx(p[0])+":"+hx(p[1]))
	}
	return "map[" + strings.Join(parts, ",") + "]"
}
func dOff(o *SpecOfflineSig) string {
	if o == nil {
		return "off-"
	}
	return fmt.Sprintf("off(%d,%d,%s,%s)", o.Expires, o.TransientType, hx(o.TransientKey), hx(o.Signature))
}
func dLease(l SpecLease) string {
	return fmt.Sprintf("lease(%s,%d,%d)", hx(l.Gateway), l.TunnelID, l.EndDate)
}
func dLease2(l SpecLease2) string {
	return fmt.Sprintf("lease2(%s,%d,%d)", hx(l.Gateway), l.TunnelID, l.EndDate)
}
func dList(parts []string) string { return "[" + strings.Join(parts, ",") + "]" }
func dRA(a SpecRouterAddress) string {
	return fmt.Sprintf("ra(%d,%d,%s,%s)", a.Cost, a.Expiration, hx(a.Style), dMap(a.Options))
}

// leanScope: the Lean SIdentity keeps the whole signing key inside the key block (types whose key exceeds
// 128 bytes are outside its scope and decode to `err` there)
func leanScope(id SpecIdentity) bool { return len(id.SigKey) <= 128 }

func specDecode(a []string) (string, []Fail) {
	kind, w := a[0], unhx(a[1])
	base := strings.SplitN(kind, ":", 2)[0]
	line := func(ok bool, rest []byte, dump string) (string, []Fail) {
		if !ok {
			return "err", nil
		}
		return fmt.Sprintf("ok rem=%d %s", len(rest), dump), nil
	}
	switch base {
	case "ident":
		v, rest, ok := DecodeIdentity(w)
		return line(ok && leanScope(v), rest, dId(v))
	case "mapping":
		v, rest, ok := DecodeMapping(w)
		return line(ok, rest, dMap(v))
	case "lease":
		v, rest, ok := DecodeLease(w)
		return line(ok, rest, dLease(v))
	case "lease2":
		v, rest, ok := DecodeLease2(w)
		return line(ok, rest, dLease2(v))
	case "offsig":
		v, rest, ok := DecodeOfflineSig(w, atoi(strings.SplitN(kind, ":", 2)[1]))
		return line(ok, rest, dOff(&v))
	case "ls2":
		v, rest, ok := DecodeLeaseSet2(w)
		var ks, ls []string
		for _, k := range v.Keys {
			ks = append(ks, fmt.Sprintf("key(%d,%s)", k.Type, hx(k.Data)))
		}
		for _, l := range v.Leases {
			ls = append(ls, dLease2(l))
		}
		return line(ok && leanScope(v.Dest), rest, fmt.Sprintf("ls2(%s,%d,%d,%d,%s,%s,%s,%s,%s)", dId(v.Dest), v.Published, v.Expires, v.Flags, dOff(v.Offline),
			dMap(v.Options), dList(ks), dList(ls), hx(v.Signature)))
	case "meta":
		v, rest, ok := DecodeMetaLeaseSet(w)
		var es []string
		for _, e := range v.Entries {
			es = append(es, fmt.Sprintf("entry(%s,%d,%d,%d,%s)", hx(e.Hash), e.Type, e.Expires, e.Cost, dMap(e.Properties)))
		}
		return line(ok && leanScope(v.Dest), rest, fmt.Sprintf("meta(%s,%d,%d,%d,%s,%s,%s,%s)", dId(v.Dest), v.Published, v.Expires, v.Flags, dOff(v.Offline),
			dMap(v.Options), dList(es), hx(v.Signature)))
	case "els":
		v, rest, ok := DecodeEncryptedLeaseSet(w)
		return line(ok, rest, fmt.Sprintf("els(%d,%s,%d,%d,%d,%s,%s,%s)", v.SigType, hx(v.BlindedKey), v.Published, v.Expires, v.Flags, dOff(v.Offline),
			hx(v.Inner), hx(v.Signature)))
	case "ls":
		v, rest, ok := DecodeLeaseSet(w)
		var ls []string
		for _, l := range v.Leases {
			ls = append(ls, dLease(l))
		}
		return line(ok && leanScope(v.Dest), rest, fmt.Sprintf("ls(%s,%s,%s,%s,%s)", dId(v.Dest), hx(v.EncKey), hx(v.SigningKey), dList(ls), hx(v.Signature)))
	case "ra":
		v, rest, ok := DecodeRouterAddress(w)
		return line(ok, rest, dRA(v))
	case "ri":
		v, rest, ok := DecodeRouterInfo(w)
		var as, ps []string
		for _, x := range v.Addresses {
			as = append(as, dRA(x))
		}
		for _, p := range v.Peers {
			ps = append(ps, hx(p))
		}
		return line(ok && leanScope(v.Ident), rest, fmt.Sprintf("ri(%s,%d,%s,%s,%s,%s)", dId(v.Ident), v.Published, dList(as), dList(ps), dMap(v.Options), hx(v.Signature)))
	}
	panic("harness: specDecode: unknown kind " + kind)
}

func init() { reg("specDecode", specDecode) }
