package main

import (
	"fmt"
	"reflect"
	"sort"

	"github.com/go-i2p/common/certificate"
	"github.com/go-i2p/common/data"
	"github.com/go-i2p/common/destination"
	"github.com/go-i2p/common/encrypted_leaseset"
	"github.com/go-i2p/common/key_certificate"
	"github.com/go-i2p/common/keys_and_cert"
	"github.com/go-i2p/common/lease"
	"github.com/go-i2p/common/lease_set"
	"github.com/go-i2p/common/lease_set2"
	"github.com/go-i2p/common/meta_leaseset"
	"github.com/go-i2p/common/offline_signature"
	"github.com/go-i2p/common/router_address"
	"github.com/go-i2p/common/router_identity"
	"github.com/go-i2p/common/router_info"
	"github.com/go-i2p/common/session_key"
	"github.com/go-i2p/common/session_tag"
	"github.com/go-i2p/common/signature"
)

// zeroValues: a pointer to the zero value of every exported named type of the modelled packages that
// has exported methods. Completeness against the current source is a Lean obligation
// (Props/C20.lean: the (package, type, #argument-free methods) table observed here must equal the one
// derived from the extractor's API surface).
var zeroValues = map[string]func() interface{}{
	"certificate.Certificate":              func() interface{} { return &certificate.Certificate{} },
	"certificate.CertificateBuilder":       func() interface{} { return &certificate.CertificateBuilder{} },
	"data.Date":                            func() interface{} { return &data.Date{} },
	"data.Hash":                            func() interface{} { return &data.Hash{} },
	"data.I2PString":                       func() interface{} { var v data.I2PString; return &v },
	"data.Integer":                         func() interface{} { var v data.Integer; return &v },
	"data.Mapping":                         func() interface{} { return &data.Mapping{} },
	"data.MappingValues":                   func() interface{} { var v data.MappingValues; return &v },
	"destination.Destination":              func() interface{} { return &destination.Destination{} },
	"encrypted_leaseset.EncryptedLeaseSet": func() interface{} { return &encrypted_leaseset.EncryptedLeaseSet{} },
	"key_certificate.KeyCertificate":       func() interface{} { return &key_certificate.KeyCertificate{} },
	"keys_and_cert.KeysAndCert":            func() interface{} { return &keys_and_cert.KeysAndCert{} },
	"keys_and_cert.PrivateKeysAndCert":     func() interface{} { return &keys_and_cert.PrivateKeysAndCert{} },
	"lease.Lease":                          func() interface{} { return &lease.Lease{} },
	"lease.Lease2":                         func() interface{} { return &lease.Lease2{} },
	"lease_set.LeaseSet":                   func() interface{} { return &lease_set.LeaseSet{} },
	"lease_set2.LeaseSet2":                 func() interface{} { return &lease_set2.LeaseSet2{} },
	"meta_leaseset.MetaLeaseSet":           func() interface{} { return &meta_leaseset.MetaLeaseSet{} },
	"meta_leaseset.MetaLeaseSetEntry":      func() interface{} { return &meta_leaseset.MetaLeaseSetEntry{} },
	"offline_signature.OfflineSignature":   func() interface{} { return &offline_signature.OfflineSignature{} },
	"router_address.RouterAddress":         func() interface{} { return &router_address.RouterAddress{} },
	"router_identity.RouterIdentity":       func() interface{} { return &router_identity.RouterIdentity{} },
	"router_info.RouterInfo":               func() interface{} { return &router_info.RouterInfo{} },
	"session_key.SessionKey":               func() interface{} { return &session_key.SessionKey{} },
	"session_tag.ECIESSessionTag":          func() interface{} { return &session_tag.ECIESSessionTag{} },
	"session_tag.SessionTag":               func() interface{} { return &session_tag.SessionTag{} },
	"signature.Signature":                  func() interface{} { return &signature.Signature{} },
}

func zeroTypeNames() []string {
	var ns []string
	for n := range zeroValues {
		ns = append(ns, n)
	}
	sort.Strings(ns)
	return ns
}

// verifySucceeds calls Verify()/VerifySignature() (if the type has one, with no arguments) and
// reports whether it claims success.
func verifySucceeds(v interface{}) (has bool, success bool) {
	rv := reflect.ValueOf(v)
	for _, name := range []string{"Verify", "VerifySignature"} {
		m := rv.MethodByName(name)
		if !m.IsValid() || m.Type().NumIn() != 0 {
			continue
		}
		has = true
		func() {
			defer func() { recover() }()
			out := m.Call(nil)
			switch len(out) {
			case 1: // error
				if out[0].IsNil() {
					success = true
				}
			case 2: // (bool, error)
				if out[0].Kind() == reflect.Bool && out[0].Bool() {
					success = true
				}
			}
		}()
	}
	return
}

func init() {
	reg("!zero", func(a []string) (string, []Fail) {
		mk, ok := zeroValues[a[0]]
		if !ok {
			return "no-such-type", []Fail{fail("HARNESS", "zero-unknown-type", "no zero-value constructor for %s", a[0])}
		}
		v := mk()
		n, _ := callAllMethods(v)
		fails := methodFails("C20", a[0], v)
		if has, success := verifySucceeds(mk()); has && success {
			fails = append(fails, fail("C20", "verify-on-zero:"+a[0], "verification of the zero %s reports success", a[0]))
		}
		return fmt.Sprintf("ok methods=%d", n), fails
	})
	suites["ZERO"] = func(g *G) {
		g.in("zero-values")
		for _, n := range zeroTypeNames() {
			g.emit("!zero", n)
		}
	}
}
