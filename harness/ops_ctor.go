package main

// C06 / C14: constructor-side oracles.
//
// Every op below is implementation-only ("!" prefix): it rebuilds a constructor argument tuple from its
// (replayable) arguments — seeds for key material, counts, flags, option pairs, timestamps — calls the
// library constructor and evaluates
//
//	C14a  constructor success ⇒ Validate()/IsValid() success           sig ctor-not-valid:<S>:<rule>
//	C14b  valid value ⇒ Bytes() ok ⇒ parse ok, empty remainder, same bytes  sig roundtrip:<S>:<why>
//	C14c  single-defect variant ⇒ constructor rejects and Validate rejects
//	      sig defect-accepted-by-ctor:<S>:<defect> / defect-accepted-by-validate:<S>:<defect>
//	C06   signing constructor with the matching private key ⇒ Verify on the output, on the re-parsed
//	      value, and independently over the produced bytes      sig ctor-output-does-not-verify:<S>,
//	      reparsed-does-not-verify:<S>, indep-verify-mismatch:<S>
//
// A constructor panic is recovered and reported as ctor-panic:<S>:<what> (C14) and panic:<op> (C04).
// The last argument of every op is the variant: "ok" (valid tuple as given by the other arguments) or
// the name of one defect applied to that tuple.

import (
	"bytes"
	"crypto/ecdsa"
	"crypto/ed25519"
	"crypto/elliptic"
	"crypto/sha256"
	"crypto/sha512"
	"encoding/binary"
	"errors"
	"fmt"
	"math/big"
	"strings"
	"time"

	"github.com/go-i2p/common/certificate"
	"github.com/go-i2p/common/data"
	"github.com/go-i2p/common/destination"
	"github.com/go-i2p/common/encrypted_leaseset"
	"github.com/go-i2p/common/key_certificate"
	"github.com/go-i2p/common/keys_and_cert"
	"github.com/go-i2p/common/lease"
	"github.com/go-i2p/common/lease_set"
	"github.com/go-i2p/common/lease_set2"
	"github.com/go-i2p/common/offline_signature"
	"github.com/go-i2p/common/router_address"
	"github.com/go-i2p/common/router_identity"
	"github.com/go-i2p/common/router_info"
	"github.com/go-i2p/common/signature"
	"github.com/go-i2p/crypto/curve25519"
	i2pdsa "github.com/go-i2p/crypto/dsa"
	i2pecdsa "github.com/go-i2p/crypto/ecdsa"
	i2ped "github.com/go-i2p/crypto/ed25519"
	elgamal "github.com/go-i2p/crypto/elg"
	"github.com/go-i2p/crypto/types"
	"go.step.sm/crypto/x25519"
	xcurve "golang.org/x/crypto/curve25519"
)

// ---- deterministic key material ---------------------------------------------------------------

// stream expands (seed, label) to n bytes (SHA-256 in counter mode): every key, padding and lease of an
// op is a function of the op's seed argument, so a case replays exactly.
func stream(seed []byte, label string, n int) []byte {
	var out []byte
	for ctr := 0; len(out) < n; ctr++ {
		h := sha256.Sum256(cat(seed, []byte(label), []byte{byte(ctr >> 8), byte(ctr)}))
		out = append(out, h[:]...)
	}
	return out[:n]
}

// rawRecv / rawSpk are keys of arbitrary length: wrong-length defects and key types for which
// go-i2p/crypto has no key object.
type rawRecv []byte

func (k rawRecv) Len() int      { return len(k) }
func (k rawRecv) Bytes() []byte { return []byte(k) }
func (k rawRecv) NewEncrypter() (types.Encrypter, error) {
	return nil, errors.New("harness: raw key cannot encrypt")
}

type rawSpk []byte

func (k rawSpk) Len() int      { return len(k) }
func (k rawSpk) Bytes() []byte { return []byte(k) }
func (k rawSpk) NewVerifier() (types.Verifier, error) {
	return nil, errors.New("harness: raw key cannot verify")
}

// p384Key: go-i2p/crypto's ECP384PrivateKey does not implement types.SigningPrivateKey (no NewSigner);
// NewLeaseSet accepts any implementation of the interface, so the harness supplies one (standard library).
type p384Key struct{ k *ecdsa.PrivateKey }

func (p *p384Key) NewSigner() (types.Signer, error) { return p, nil }
func (p *p384Key) Len() int                         { return 48 }
func (p *p384Key) Public() (types.SigningPublicKey, error) {
	var pk i2pecdsa.ECP384PublicKey
	copy(pk[:], cat(p.k.X.FillBytes(make([]byte, 48)), p.k.Y.FillBytes(make([]byte, 48))))
	return pk, nil
}
func (p *p384Key) Generate() (types.SigningPrivateKey, error) { return p, nil }
func (p *p384Key) Sign(m []byte) ([]byte, error) {
	h := sha512.Sum384(m)
	return p.SignHash(h[:])
}

func (p *p384Key) SignHash(h []byte) ([]byte, error) {
	r, s, err := ecdsa.Sign(detReader{seed: p.k.D.Bytes()}, p.k, h)
	if err != nil {
		return nil, err
	}
	return cat(r.FillBytes(make([]byte, 48)), s.FillBytes(make([]byte, 48))), nil
}

type detReader struct {
	seed []byte
	n    int
}

func (d detReader) Read(p []byte) (int, error) {
	copy(p, stream(d.seed, "rd", len(p)))
	return len(p), nil
}

// ckey is one signing key pair of I2P type typ derived from a seed.
type ckey struct {
	typ int
	pub []byte
	spk types.SigningPublicKey  // key object as the library's parsers build it
	sk  types.SigningPrivateKey // for NewLeaseSet and NewLeaseSet2
	ed  ed25519.PrivateKey      // Ed25519 family only
}

func ecScalar(curve elliptic.Curve, seed []byte, label string, n int) *big.Int {
	N := curve.Params().N
	for ctr := 0; ; ctr++ {
		d := new(big.Int).SetBytes(stream(seed, fmt.Sprintf("%s%d", label, ctr), n))
		if d.Sign() > 0 && d.Cmp(N) < 0 {
			return d
		}
	}
}

func ctorKey(typ int, seed []byte, label string) *ckey {
	switch typ {
	case 7, 8, 11:
		priv := ed25519.NewKeyFromSeed(stream(seed, label+"ed", 32))
		pub := []byte(priv.Public().(ed25519.PublicKey))
		return &ckey{typ: typ, pub: pub, spk: i2ped.Ed25519PublicKey(pub), sk: i2ped.Ed25519PrivateKey(priv), ed: priv}
	case 1:
		d := ecScalar(elliptic.P256(), seed, label+"p256", 32)
		x, y := elliptic.P256().ScalarBaseMult(d.Bytes())
		pub := cat(x.FillBytes(make([]byte, 32)), y.FillBytes(make([]byte, 32)))
		var pk i2pecdsa.ECP256PublicKey
		copy(pk[:], pub)
		sk, err := i2pecdsa.NewECP256PrivateKey(d.FillBytes(make([]byte, 32)))
		if err != nil {
			panic("harness: p256 key: " + err.Error())
		}
		return &ckey{typ: typ, pub: pub, spk: pk, sk: sk}
	case 2:
		d := ecScalar(elliptic.P384(), seed, label+"p384", 48)
		x, y := elliptic.P384().ScalarBaseMult(d.Bytes())
		pub := cat(x.FillBytes(make([]byte, 48)), y.FillBytes(make([]byte, 48)))
		var pk i2pecdsa.ECP384PublicKey
		copy(pk[:], pub)
		k := &ecdsa.PrivateKey{PublicKey: ecdsa.PublicKey{Curve: elliptic.P384(), X: x, Y: y}, D: d}
		return &ckey{typ: typ, pub: pub, spk: pk, sk: &p384Key{k}}
	case 0:
		// x < q (q has its top bit set, so clearing the top bit of a 160-bit string suffices);
		// go-i2p/crypto left-aligns Y when it has a leading zero byte, hence the self test.
		for ctr := 0; ctr < 64; ctr++ {
			x := stream(seed, fmt.Sprintf("%sdsa%d", label, ctr), 20)
			x[0] &= 0x7f
			dk, err := i2pdsa.NewDSAPrivateKey(x)
			if err != nil {
				continue
			}
			pk, err := dk.Public()
			if err != nil {
				continue
			}
			sg, err := dk.NewSigner()
			if err != nil {
				continue
			}
			sig, err := sg.Sign([]byte("self-test"))
			if err != nil {
				continue
			}
			if ok, _ := indepVerify(0, pk.Bytes(), []byte("self-test"), sig); !ok {
				continue
			}
			return &ckey{typ: 0, pub: append([]byte{}, pk.Bytes()...), spk: pk, sk: dk}
		}
		panic("harness: no DSA key from seed")
	}
	// no key object in go-i2p/crypto: a raw key of the declared size
	n := specSig[typ][0]
	pub := stream(seed, label+"raw", n)
	return &ckey{typ: typ, pub: pub, spk: rawSpk(pub)}
}

func ctorCryptoKey(cpk int, seed []byte, label string) types.ReceivingPublicKey {
	switch cpk {
	case 0:
		b := stream(seed, label+"elg", 256)
		b[0] &= 0x7f
		b[255] |= 2
		var k elgamal.ElgPublicKey
		copy(k[:], b)
		return k
	case 4, 5, 6, 7:
		return curve25519.Curve25519PublicKey(stream(seed, label+"x", 32))
	}
	return rawRecv(stream(seed, label+"rawc", specCrypto[cpk]))
}

// cident: a KeysAndCert argument tuple (certificate, keys, padding) derived from (sig, cpk, seed).
type cident struct {
	key *ckey
	cpk types.ReceivingPublicKey
	pad []byte
	kc  *key_certificate.KeyCertificate
}

func ctorIdentArgs(sig, cpk int, seed []byte) (*cident, error) {
	kc, err := key_certificate.NewKeyCertificateWithTypes(sig, cpk)
	if err != nil {
		return nil, err
	}
	id := &cident{kc: kc, key: ctorKey(sig, seed, "id"), cpk: ctorCryptoKey(cpk, seed, "id")}
	n := 384 - kc.CryptoSize() - kc.SigningPublicKeySize()
	if n > 0 {
		id.pad = stream(seed, "pad", n)
	}
	return id, nil
}

func (id *cident) kac() (*keys_and_cert.KeysAndCert, error) {
	return keys_and_cert.NewKeysAndCert(id.kc, id.cpk, id.pad, id.key.spk)
}

// try runs f and returns the panic message, "" when it returned normally.
func try(f func()) (p string) {
	defer func() {
		if r := recover(); r != nil {
			p = fmt.Sprint(r)
			if strings.HasPrefix(p, "harness:") {
				panic(r)
			}
			if p == "" {
				p = "panic"
			}
		}
	}()
	f()
	return ""
}

// cres accumulates the observation and the oracle failures of one constructor case.
type cres struct {
	S     string // structure
	op    string
	obs   []string
	fails []Fail
}

func (c *cres) note(format string, a ...interface{}) {
	c.obs = append(c.obs, fmt.Sprintf(format, a...))
}
func (c *cres) fail(prop, sig, format string, a ...interface{}) {
	c.fails = append(c.fails, fail(prop, sig, format, a...))
}
func (c *cres) line() string { return strings.Join(c.obs, " ") }

func (c *cres) panicked(what, msg string) {
	c.note("panic:%s", what)
	c.fail("C14", "ctor-panic:"+c.S+":"+what, "constructor of %s panicked (%s): %s", c.S, what, trunc(msg, 160))
	c.fail("C04", "panic:"+c.op, "%s panicked: %s", c.op, trunc(msg, 160))
}

// ctorValid: C14a.
func (c *cres) ctorValid(verr error, rule string) bool {
	if verr == nil {
		c.note("valid")
		count("c14a-valid:" + c.S)
		return true
	}
	c.note("invalid:%s", rule)
	c.fail("C14", "ctor-not-valid:"+c.S+":"+rule, "constructor of %s succeeded but validation fails (%s): %v", c.S, rule, verr)
	return false
}

// roundtrip: C14b. ser = serialisation of the value; parse returns the re-serialisation of the parsed value.
func (c *cres) roundtrip(b []byte, serErr error, parse func([]byte) (reser []byte, rem []byte, err error), noRem bool) bool {
	if serErr != nil {
		c.note("rt=bytes-error")
		c.fail("C14", "roundtrip:"+c.S+":bytes-error", "valid %s does not serialise: %v", c.S, serErr)
		return false
	}
	var b2, rem []byte
	var err error
	if p := try(func() { b2, rem, err = parse(append([]byte{}, b...)) }); p != "" {
		c.note("rt=parse-panic")
		c.fail("C14", "roundtrip:"+c.S+":parse-panic", "parser panicked on the bytes of a valid %s: %s", c.S, p)
		c.fail("C04", "panic:"+c.op, "parser panicked on constructor output: %s", p)
		return false
	}
	if err != nil {
		c.note("rt=parse-error")
		c.fail("C14", "roundtrip:"+c.S+":parse-error", "bytes of a valid %s (%d bytes) do not parse back: %v", c.S, len(b), err)
		return false
	}
	if !noRem && len(rem) != 0 {
		c.note("rt=remainder")
		c.fail("C14", "roundtrip:"+c.S+":remainder", "bytes of a valid %s parse back with %d bytes left over", c.S, len(rem))
		return false
	}
	if !bytes.Equal(b, b2) {
		c.note("rt=differs")
		c.fail("C14", "roundtrip:"+c.S+":differs", "valid %s re-serialises differently after parsing (%d vs %d bytes)", c.S, len(b), len(b2))
		return false
	}
	c.note("rt=ok")
	count("c14b-roundtrip:" + c.S)
	return true
}

// defect: C14c. ctorErr/valErr = results of constructor and validator on the defective tuple/value;
// haveCtor/haveVal say whether that side can express the defect at all.
func (c *cres) defect(name string, haveCtor bool, ctorErr error, haveVal bool, valErr error) {
	if haveCtor {
		if ctorErr == nil {
			c.note("ctor-accepts:%s", name)
			c.fail("C14", "defect-accepted-by-ctor:"+c.S+":"+name, "constructor of %s accepts the defect %q", c.S, name)
		} else {
			c.note("ctor-rejects:%s", name)
			count("c14c-ctor-rejects:" + c.S)
		}
	}
	if haveVal {
		if valErr == nil {
			c.note("validate-accepts:%s", name)
			c.fail("C14", "defect-accepted-by-validate:"+c.S+":"+name, "validation of %s accepts the defect %q", c.S, name)
		} else {
			c.note("validate-rejects:%s", name)
			count("c14c-validate-rejects:" + c.S)
		}
	}
}

// verified: C06 on the constructor output, the re-parsed value and independently over the bytes.
func (c *cres) verified(first, reparsed error, haveReparsed bool, indepOK, indepKnown bool) {
	c.verifiedT(-1, first, reparsed, haveReparsed, indepOK, indepKnown)
}

// verifiedT: sigType = type of the key that signed (the failure class is qualified for ECDSA keys,
// whose verifier in go-i2p/crypto cannot be constructed from an I2P-format key).
func (c *cres) verifiedT(sigType int, first, reparsed error, haveReparsed bool, indepOK, indepKnown bool) {
	S := c.S
	if sigType >= 1 && sigType <= 3 {
		c.S += ":ecdsa"
	}
	defer func() { c.S = S }()
	if first != nil {
		c.note("verify=fail")
		indep := "the independent check over the produced bytes is not available"
		if indepKnown {
			indep = fmt.Sprintf("independent check of the signature over the produced bytes under the identity's key: %v", indepOK)
		}
		c.fail("C06", "ctor-output-does-not-verify:"+c.S, "%s signed by its constructor with the matching private key does not verify: %v (%s)", c.S, first, indep)
	} else {
		c.note("verify=ok")
		count("c06-verify:" + c.S)
	}
	if !haveReparsed {
		// "still verifies after being serialised and parsed back" fails as soon as the bytes do not parse back
		c.note("reverify=unparseable")
		c.fail("C06", "does-not-parse-back:"+S, "%s signed by its constructor does not parse back from its own bytes, so it cannot verify after the wire", S)
	}
	if haveReparsed {
		if reparsed != nil {
			c.note("reverify=fail")
			c.fail("C06", "reparsed-does-not-verify:"+c.S, "%s signed by its constructor does not verify after serialise/parse: %v", c.S, reparsed)
		} else {
			c.note("reverify=ok")
			count("c06-reverify:" + c.S)
		}
	}
	if indepKnown && first == nil && !indepOK {
		c.note("indep=fail")
		c.fail("C06", "indep-verify-mismatch:"+c.S, "library verifies %s but the signature is not valid over the produced bytes under the identity's key", c.S)
	}
}

func boolErr(ok bool, err error) error {
	if err != nil {
		return err
	}
	if !ok {
		return errors.New("verification returned false")
	}
	return nil
}

func goMapOf(s string) map[string]string {
	m := map[string]string{}
	for _, p := range parseAssoc(s) {
		m[p[0]] = p[1]
	}
	return m
}

func errIf(b bool) error {
	if b {
		return errors.New("rejected")
	}
	return nil
}

// ---- KeysAndCert / Destination / RouterIdentity -----------------------------------------------

// kacRule names the Validate rule a constructed KeysAndCert violates.
func kacRule(k *keys_and_cert.KeysAndCert) string {
	switch {
	case k == nil:
		return "nil"
	case k.KeyCertificate == nil:
		return "nil-cert"
	case k.ReceivingPublic == nil || k.SigningPublic == nil:
		return "nil-keys"
	}
	return "keylen-vs-type"
}

// kacParseRule names why a valid KeysAndCert does not survive the wire.
func kacWireRule(sig, cpk int) string {
	_, sok := specSig[sig]
	_, cok := specCrypto[cpk]
	if !sok || !cok {
		return "unknown-key-type"
	}
	return "unparseable-key-type"
}

func opCtorKac(a []string) (string, []Fail) {
	sig, cpk, seed, variant := atoi(a[0]), atoi(a[1]), unhx(a[2]), a[3]
	c := &cres{S: "KeysAndCert", op: "!ctorKeysAndCert"}
	id, err := ctorIdentArgs(sig, cpk, seed)
	if err != nil {
		return "no-keycert", nil
	}
	kc, cp, pad, sp := id.kc, id.cpk, id.pad, types.SigningPublicKey(id.key.spk)
	haveVal := true
	switch variant {
	case "ok":
	case "unknown-key-type": // carried by the type arguments (size unknown to the tables): rejected since 4315d7c (D16a)
	case "nil-cert":
		kc = nil
	case "nil-crypto-key":
		cp = nil
	case "nil-signing-key":
		sp = nil
	case "nil-keys":
		cp, sp = nil, nil
	case "crypto-key-short":
		cp = rawRecv(cp.Bytes()[:cp.Len()-1])
	case "crypto-key-long":
		cp = rawRecv(cat(cp.Bytes(), []byte{1}))
	case "signing-key-short":
		sp = rawSpk(sp.Bytes()[:sp.Len()-1])
	case "signing-key-long":
		sp = rawSpk(cat(sp.Bytes(), []byte{1}))
	case "padding-short":
		if len(pad) == 0 {
			return "n/a", nil
		}
		pad, haveVal = pad[:len(pad)-1], false
	case "padding-long":
		pad, haveVal = cat(pad, []byte{7}), false
	default:
		panic("harness: unknown variant " + variant)
	}
	var k *keys_and_cert.KeysAndCert
	if p := try(func() { k, err = keys_and_cert.NewKeysAndCert(kc, cp, pad, sp) }); p != "" {
		c.panicked(variant, p)
		return c.line(), c.fails
	}
	if variant != "ok" {
		lit := &keys_and_cert.KeysAndCert{KeyCertificate: kc, ReceivingPublic: cp, Padding: pad, SigningPublic: sp}
		var verr error
		if p := try(func() { verr = lit.Validate() }); p != "" {
			c.panicked("validate-"+variant, p)
		}
		if !haveVal {
			// Validate documents nil fields and key sizes only; the padding rule belongs to the constructor
			if verr == nil {
				count("c14-observation:KeysAndCert.Validate-ignores-padding-length")
			}
		}
		c.defect(variant, true, err, haveVal, verr)
		return c.line(), c.fails
	}
	// the private-key carrying twin: same acceptance, same public part, and its own Validate
	{
		var pk *keys_and_cert.PrivateKeysAndCert
		var perr error
		encPriv := stream(seed, "encpriv", 32) // any non-nil crypto.PrivateKey
		var sigPriv interface{} = stream(seed, "sigpriv", 32)
		if id.key.sk != nil {
			sigPriv = id.key.sk
		}
		if p := try(func() { pk, perr = keys_and_cert.NewPrivateKeysAndCert(kc, cp, pad, sp, encPriv, sigPriv) }); p != "" {
			c.panicked("private-"+variant, p)
		} else if (perr == nil) != (err == nil) {
			c.fail("C19", "twin:NewKeysAndCert/NewPrivateKeysAndCert", "acceptance differs for types (%d,%d): %v vs %v", sig, cpk, err, perr)
		} else if perr == nil {
			if verr := pk.Validate(); verr != nil && k.Validate() == nil {
				c.fail("C14", "ctor-not-valid:PrivateKeysAndCert", "NewPrivateKeysAndCert succeeded but Validate fails: %v", verr)
			}
			b1, e1 := k.Bytes()
			b2, e2 := pk.KeysAndCert.Bytes()
			if (e1 == nil) != (e2 == nil) || !bytes.Equal(b1, b2) {
				c.fail("C19", "twin:NewKeysAndCert/NewPrivateKeysAndCert", "public parts serialise differently for types (%d,%d)", sig, cpk)
			}
			if pk.PrivateKey() == nil || pk.SigningPrivateKey() == nil {
				c.fail("C14", "ctor-not-valid:PrivateKeysAndCert", "a private key handed to the constructor is not returned by its accessor")
			}
		}
		for _, nilWhich := range []int{0, 1} {
			var e, s interface{} = encPriv, sigPriv
			if nilWhich == 0 {
				e = nil
			} else {
				s = nil
			}
			var x *keys_and_cert.PrivateKeysAndCert
			var xerr error
			if p := try(func() { x, xerr = keys_and_cert.NewPrivateKeysAndCert(kc, cp, pad, sp, e, s) }); p != "" {
				c.panicked("private-nil-key", p)
			} else if xerr == nil && x.Validate() != nil {
				c.fail("C14", "defect-accepted-by-ctor:PrivateKeysAndCert:nil-private-key", "NewPrivateKeysAndCert accepts a nil private key that Validate rejects")
			}
		}
	}
	if err != nil {
		c.note("err")
		return c.line(), c.fails
	}
	c.note("ok")
	if c.ctorValid(k.Validate(), kacRule(k)) {
		b, berr := k.Bytes()
		if !c.roundtrip(b, berr, func(w []byte) ([]byte, []byte, error) {
			k2, rem, err := keys_and_cert.ReadKeysAndCert(w)
			if err != nil {
				return nil, rem, err
			}
			b2, err := k2.Bytes()
			return b2, rem, err
		}, false) {
			// re-label: which rule do constructor/Validate not apply?
			for i := range c.fails {
				if c.fails[i].Sig == "roundtrip:KeysAndCert:parse-error" {
					c.fails[i].Sig += ":" + kacWireRule(sig, cpk)
				}
			}
		}
	}
	return c.line(), c.fails
}

func opCtorDest(a []string) (string, []Fail) {
	sig, cpk, seed, variant := atoi(a[0]), atoi(a[1]), unhx(a[2]), a[3]
	c := &cres{S: "Destination", op: "!ctorDestination"}
	id, err := ctorIdentArgs(sig, cpk, seed)
	if err != nil {
		return "no-keycert", nil
	}
	var k *keys_and_cert.KeysAndCert
	switch variant {
	case "ok", "prohibited-type":
		k, err = id.kac()
	case "nil-kac":
	case "nil-signing-key":
		k, err = keys_and_cert.NewKeysAndCert(id.kc, id.cpk, id.pad, nil)
	case "nil-crypto-key":
		k, err = keys_and_cert.NewKeysAndCert(id.kc, nil, id.pad, id.key.spk)
	case "signing-key-short": // only a literal can carry it: NewKeysAndCert rejects
		k = &keys_and_cert.KeysAndCert{KeyCertificate: id.kc, ReceivingPublic: id.cpk, Padding: id.pad, SigningPublic: rawSpk(id.key.pub[:len(id.key.pub)-1])}
	default:
		panic("harness: unknown variant " + variant)
	}
	if err != nil {
		return "no-kac", nil
	}
	var d *destination.Destination
	if p := try(func() { d, err = destination.NewDestination(k) }); p != "" {
		c.panicked(variant, p)
		return c.line(), c.fails
	}
	if variant == "prohibited-type" {
		// the key-type policy is the constructor's and the parser's; Validate documents initialisation only
		lit := &destination.Destination{KeysAndCert: k}
		if lit.Validate() == nil {
			count("c14-observation:Destination.Validate-ignores-key-type-policy")
		}
		c.defect(variant, true, err, false, nil)
		return c.line(), c.fails
	}
	if variant != "ok" {
		lit := &destination.Destination{KeysAndCert: k}
		c.defect(variant, true, err, true, lit.Validate())
		return c.line(), c.fails
	}
	if err != nil {
		c.note("err")
		if destAllowedSpec(sig, cpk) {
			count("c14-observation:NewDestination-rejects-allowed-types")
		}
		return c.line(), c.fails
	}
	c.note("ok")
	if c.ctorValid(d.Validate(), kacRule(d.KeysAndCert)) {
		b, berr := d.Bytes()
		if !c.roundtrip(b, berr, func(w []byte) ([]byte, []byte, error) {
			d2, rem, err := destination.ReadDestination(w)
			if err != nil {
				return nil, rem, err
			}
			b2, err := d2.Bytes()
			return b2, rem, err
		}, false) {
			for i := range c.fails {
				if c.fails[i].Sig == "roundtrip:Destination:parse-error" {
					c.fails[i].Sig += ":" + kacWireRule(sig, cpk)
				}
			}
		}
	}
	return c.line(), c.fails
}

func opCtorRid(a []string) (string, []Fail) {
	sig, cpk, seed, variant := atoi(a[0]), atoi(a[1]), unhx(a[2]), a[3]
	c := &cres{S: "RouterIdentity", op: "!ctorRouterIdentity"}
	id, err := ctorIdentArgs(sig, cpk, seed)
	if err != nil {
		return "no-keycert", nil
	}
	cert := &id.kc.Certificate
	cp, sp, pad := id.cpk, types.SigningPublicKey(id.key.spk), id.pad
	var k *keys_and_cert.KeysAndCert
	switch variant {
	case "ok", "prohibited-type":
		k, _ = id.kac()
	case "nil-cert":
		cert = nil
	case "nil-signing-key":
		sp = nil
		k, _ = keys_and_cert.NewKeysAndCert(id.kc, id.cpk, id.pad, nil)
	case "nil-crypto-key":
		cp = nil
		k, _ = keys_and_cert.NewKeysAndCert(id.kc, nil, id.pad, id.key.spk)
	case "signing-key-short":
		sp = rawSpk(id.key.pub[:len(id.key.pub)-1])
		k = &keys_and_cert.KeysAndCert{KeyCertificate: id.kc, ReceivingPublic: id.cpk, Padding: id.pad, SigningPublic: sp}
	case "padding-short":
		if len(pad) == 0 {
			return "n/a", nil
		}
		pad = pad[:len(pad)-1]
	default:
		panic("harness: unknown variant " + variant)
	}
	// constructor 1: from parts
	var r1 *router_identity.RouterIdentity
	var e1 error
	if p := try(func() { r1, e1 = router_identity.NewRouterIdentity(cp, sp, cert, pad) }); p != "" {
		c.panicked(variant, p)
		e1 = errors.New("panic")
	}
	// constructor 2: from a KeysAndCert
	var r2 *router_identity.RouterIdentity
	var e2 error
	have2 := variant != "nil-cert" && variant != "padding-short"
	if have2 {
		if p := try(func() { r2, e2 = router_identity.NewRouterIdentityFromKeysAndCert(k) }); p != "" {
			c.panicked("from-kac-"+variant, p)
			e2 = errors.New("panic")
		}
	}
	if variant != "ok" {
		lit := &router_identity.RouterIdentity{KeysAndCert: k}
		switch variant {
		case "prohibited-type":
			if lit.Validate() == nil {
				count("c14-observation:RouterIdentity.Validate-ignores-key-type-policy")
			}
			c.defect(variant, true, e1, false, nil)
			c.S = "RouterIdentityFromKeysAndCert"
			c.defect(variant, true, e2, false, nil)
		case "nil-cert", "padding-short":
			c.defect(variant, true, e1, false, nil)
		default:
			c.defect(variant, true, e1, true, lit.Validate())
			c.S = "RouterIdentityFromKeysAndCert"
			c.defect(variant, true, e2, false, nil)
		}
		return c.line(), c.fails
	}
	if (e1 == nil) != (e2 == nil) {
		c.fail("C19", "twin:NewRouterIdentity/NewRouterIdentityFromKeysAndCert", "acceptance differs for types (%d,%d): %v vs %v", sig, cpk, e1, e2)
	}
	// constructor 3: the padding is generated (Proposal 161 "compressible": one 32-byte block repeated)
	var r3 *router_identity.RouterIdentity
	var e3 error
	if p := try(func() { r3, e3 = router_identity.NewRouterIdentityWithCompressiblePadding(cp, sp, cert) }); p != "" {
		c.panicked("compressible-padding", p)
		e3 = errors.New("panic")
	}
	if (e1 == nil) != (e3 == nil) {
		c.fail("C19", "twin:NewRouterIdentity/NewRouterIdentityWithCompressiblePadding", "acceptance differs for types (%d,%d): %v vs %v", sig, cpk, e1, e3)
	}
	if e3 == nil && r3 != nil && r3.KeysAndCert != nil && e1 == nil {
		want := 384 - id.kc.CryptoSize() - id.kc.SigningPublicKeySize()
		if len(r3.Padding) != want {
			c.fail("C10", "layout:compressible-padding-length", "NewRouterIdentityWithCompressiblePadding: %d padding bytes for types (%d,%d), the key block leaves %d", len(r3.Padding), sig, cpk, want)
		}
		// same keys and certificate ⇒ the two constructors differ in the padding bytes only
		b1, _ := r1.KeysAndCert.Bytes()
		b3, _ := r3.KeysAndCert.Bytes()
		cs, ss := id.kc.CryptoSize(), id.kc.SigningPublicKeySize()
		if len(b1) != len(b3) || len(b3) < 384 || !bytes.Equal(b1[:cs], b3[:cs]) || !bytes.Equal(b1[384-ss:], b3[384-ss:]) {
			c.fail("C19", "twin:NewRouterIdentity/NewRouterIdentityWithCompressiblePadding", "serialisations differ outside the padding for types (%d,%d)", sig, cpk)
		}
	}
	if e1 != nil {
		c.note("err")
		return c.line(), c.fails
	}
	c.note("ok")
	for i, r := range []*router_identity.RouterIdentity{r1, r2, r3} {
		if r == nil {
			continue
		}
		if i == 1 {
			c.S = "RouterIdentityFromKeysAndCert"
		}
		if i == 2 {
			c.S = "RouterIdentityWithCompressiblePadding"
		}
		if c.ctorValid(r.Validate(), kacRule(r.KeysAndCert)) {
			b, berr := r.KeysAndCert.Bytes()
			S := c.S
			if !c.roundtrip(b, berr, func(w []byte) ([]byte, []byte, error) {
				x, rem, err := router_identity.ReadRouterIdentity(w)
				if err != nil {
					return nil, rem, err
				}
				b2, err := x.KeysAndCert.Bytes()
				return b2, rem, err
			}, false) {
				for i := range c.fails {
					if c.fails[i].Sig == "roundtrip:"+S+":parse-error" {
						c.fails[i].Sig += ":" + kacWireRule(sig, cpk)
					}
				}
			}
		}
	}
	return c.line(), c.fails
}

// ---- RouterAddress ---------------------------------------------------------------------------------

func readRAreser(w []byte) ([]byte, []byte, error) {
	ra, rem, err := router_address.ReadRouterAddress(w)
	if err != nil {
		return nil, rem, err
	}
	return ra.Bytes(), rem, nil
}

func opCtorRA(a []string) (string, []Fail) {
	cost, expMs, style, opts, variant := atoi(a[0]), atoi(a[1]), string(unhx(a[2])), goMapOf(a[3]), a[4]
	c := &cres{S: "RouterAddress", op: "!ctorRouterAddress"}
	big300 := strings.Repeat("x", 300)
	switch variant {
	case "ok":
	case "empty-style":
		style = ""
	case "style-over-255":
		style = big300
	case "option-key-over-255":
		opts[big300] = "v"
	case "option-value-over-255":
		opts["k"] = big300
	case "options-over-65535":
		for i := 0; i < 140; i++ {
			opts[fmt.Sprintf("%03d%s", i, strings.Repeat("k", 230))] = strings.Repeat("v", 240)
		}
	case "nil-cost", "nil-date", "nil-options", "invalid-option-pair":
	default:
		panic("harness: unknown variant " + variant)
	}
	var ra *router_address.RouterAddress
	var err error
	if p := try(func() {
		ra, err = router_address.NewRouterAddress(uint8(cost), time.UnixMilli(int64(expMs)), style, opts)
	}); p != "" {
		c.panicked(variant, p)
		return c.line(), c.fails
	}
	if variant != "ok" {
		// a value with the defect: exported fields
		good, gerr := router_address.NewRouterAddress(uint8(cost), time.UnixMilli(int64(expMs)), "NTCP2", goMapOf(a[3]))
		if gerr != nil {
			return "n/a", nil
		}
		lit := *good
		haveCtor, haveVal := true, true
		switch variant {
		case "empty-style":
			lit.TransportType = data.I2PString{}
		case "style-over-255":
			lit.TransportType = data.I2PString(cat([]byte{255}, []byte(big300)))
			haveVal = false // Validate documents presence only; a malformed string is an I2PString matter
		case "option-key-over-255", "option-value-over-255", "invalid-option-pair":
			bad := data.I2PString(cat([]byte{5}, []byte("ab"))) // length byte disagrees with the content
			if variant != "invalid-option-pair" {
				bad = data.I2PString(cat([]byte{255}, []byte(big300)))
			}
			k, _ := data.ToI2PString("k")
			pair := [2]data.I2PString{k, bad}
			if variant == "option-key-over-255" {
				pair = [2]data.I2PString{bad, k}
			}
			m, merr := data.ValuesToMapping(data.MappingValues{pair})
			if merr != nil {
				haveVal = false
			}
			lit.TransportOptions = m
			haveCtor = variant != "invalid-option-pair"
		case "options-over-65535":
			haveVal = false
		case "nil-cost":
			lit.TransportCost, haveCtor = nil, false
		case "nil-date":
			lit.ExpirationDate, haveCtor = nil, false
		case "nil-options":
			lit.TransportOptions, haveCtor = nil, false
		}
		var verr error
		if haveVal {
			if p := try(func() { verr = lit.Validate() }); p != "" {
				c.panicked("validate-"+variant, p)
			}
		}
		c.defect(variant, haveCtor, err, haveVal, verr)
		return c.line(), c.fails
	}
	if err != nil {
		c.note("err")
		return c.line(), c.fails
	}
	c.note("ok")
	if c.ctorValid(ra.Validate(), "fields") {
		c.roundtrip(ra.Bytes(), nil, readRAreser, false)
	}
	return c.line(), c.fails
}

// ---- RouterInfo ---------------------------------------------------------------------------------------

// seedAddresses builds n RouterAddresses from the seed through NewRouterAddress.
func seedAddresses(seed []byte, n int) []*router_address.RouterAddress {
	var out []*router_address.RouterAddress
	for i := 0; i < n; i++ {
		s := stream(seed, fmt.Sprintf("addr%d", i), 8)
		opts := map[string]string{}
		switch s[0] % 4 {
		case 0:
		case 1:
			opts["host"] = fmt.Sprintf("10.%d.%d.%d", s[1], s[2], s[3])
			opts["port"] = fmt.Sprint(1 + int(s[4])<<4)
		case 2:
			opts[string('a'+s[1]%26)] = "" // one-byte key, empty value
		case 3:
			opts["s"] = hx(s[1:5])
			opts["i"] = hx(s[5:8])
			opts["v"] = "2"
		}
		style := "NTCP2"
		if s[7]&1 == 1 {
			style = "SSU2"
		}
		ra, err := router_address.NewRouterAddress(s[6], time.Time{}, style, opts)
		if err != nil {
			panic("harness: seed address: " + err.Error())
		}
		out = append(out, ra)
	}
	return out
}

func opCtorRI(a []string) (string, []Fail) {
	sig, cpk, seed, pubMs, naddr, opts, variant := atoi(a[0]), atoi(a[1]), unhx(a[2]), atoi(a[3]), atoi(a[4]), goMapOf(a[5]), a[6]
	c := &cres{S: "RouterInfo", op: "!ctorRouterInfo"}
	id, err := ctorIdentArgs(sig, cpk, seed)
	if err != nil {
		return "no-keycert", nil
	}
	rid, err := router_identity.NewRouterIdentity(id.cpk, id.key.spk, &id.kc.Certificate, id.pad)
	if err != nil {
		return "no-identity", nil
	}
	addrs := seedAddresses(seed, naddr)
	var priv types.SigningPrivateKey
	if id.key.ed != nil {
		k := i2ped.Ed25519PrivateKey(id.key.ed)
		priv = &k
	}
	sigType := sig
	switch variant {
	case "ok":
	case "zero-published": // Date 0 = undefined: rejected since 1683fe6 (D21b)
		pubMs = 0
	case "nil-identity":
		rid = nil
	case "nil-address-element":
		addrs = append(addrs, nil)
	case "over-255-addresses":
		addrs = seedAddresses(seed, 256)
	case "nil-private-key":
		priv = nil
	case "option-value-over-255":
		opts["k"] = strings.Repeat("v", 256)
	default:
		panic("harness: unknown variant " + variant)
	}
	var ri *router_info.RouterInfo
	if p := try(func() {
		ri, err = router_info.NewRouterInfo(rid, time.UnixMilli(int64(pubMs)), addrs, opts, priv, sigType)
	}); p != "" {
		c.panicked(variant, p)
		return c.line(), c.fails
	}
	if variant != "ok" {
		// all fields are private: a defective value cannot be built outside the constructor
		c.defect(variant, true, err, false, nil)
		return c.line(), c.fails
	}
	if err != nil {
		c.note("err")
		return c.line(), c.fails
	}
	c.note("ok")
	rule := "fields"
	switch {
	case naddr == 0:
		rule = "no-addresses"
	case ri.Published() != nil && ri.Published().IsZero():
		rule = "published-zero"
	}
	valid := c.ctorValid(ri.Validate(), rule)
	b, berr := ri.Bytes()
	var re *router_info.RouterInfo
	parse := func(w []byte) ([]byte, []byte, error) {
		x, rem, err := router_info.ReadRouterInfo(w)
		if err != nil {
			return nil, rem, err
		}
		re = &x
		b2, err := x.Bytes()
		return b2, rem, err
	}
	if valid {
		c.roundtrip(b, berr, parse, false)
	} else if berr == nil {
		try(func() { parse(append([]byte{}, b...)) })
	}
	// C06: NewRouterInfo signs with Ed25519 only; the key matches the identity by construction
	if sig == 7 {
		first := boolErr(ri.VerifySignature())
		var second error
		if re != nil {
			second = boolErr(re.VerifySignature())
		}
		ok, known := false, false
		if berr == nil && len(b) > 64 {
			ok, known = indepVerify(7, id.key.pub, b[:len(b)-64], b[len(b)-64:])
		}
		c.verified(first, second, re != nil, ok, known)
		if re == nil && first == nil {
			c.note("reverify=unparsed")
			c.fail("C06", "reparsed-does-not-verify:RouterInfo", "RouterInfo produced by NewRouterInfo does not parse back, so it cannot verify after the wire")
		}
	}
	return c.line(), c.fails
}

// ---- Lease / Lease2 ----------------------------------------------------------------------------------------

func opCtorLease(a []string) (string, []Fail) {
	gw, id, ms, variant := unhx(a[0]), atoi(a[1]), atoi(a[2]), a[3]
	c := &cres{S: "Lease", op: "!ctorLease"}
	var h data.Hash
	copy(h[:], gw)
	if variant == "zero-gateway" {
		h = data.Hash{}
	}
	var l *lease.Lease
	var err error
	if p := try(func() { l, err = lease.NewLease(h, uint32(id), time.UnixMilli(int64(ms))) }); p != "" {
		c.panicked(variant, p)
		return c.line(), c.fails
	}
	structural := func(e error) error { // time-dependent expiry is outside C14
		if errors.Is(e, lease.ErrExpiredLease) {
			return nil
		}
		return e
	}
	if variant != "ok" {
		var lit lease.Lease
		copy(lit[32:], cat(u32(uint32(id)), u64(uint64(ms))))
		c.defect(variant, true, err, true, structural(lit.Validate()))
		return c.line(), c.fails
	}
	if err != nil {
		c.note("err")
		return c.line(), c.fails
	}
	c.note("ok")
	rule := "fields"
	if h.IsZero() {
		rule = "zero-gateway"
	}
	if c.ctorValid(structural(l.Validate()), rule) {
		c.roundtrip(l.Bytes(), nil, func(w []byte) ([]byte, []byte, error) {
			x, rem, err := lease.ReadLease(w)
			return x.Bytes(), rem, err
		}, false)
	}
	return c.line(), c.fails
}

func opCtorLease2(a []string) (string, []Fail) {
	gw, id, sec, variant := unhx(a[0]), atoi(a[1]), atoi(a[2]), a[3]
	c := &cres{S: "Lease2", op: "!ctorLease2"}
	var h data.Hash
	copy(h[:], gw)
	switch variant {
	case "zero-gateway":
		h = data.Hash{}
	case "end-date-over-uint32":
		sec = 1 << 32
	case "end-date-negative":
		sec = -1
	}
	var l *lease.Lease2
	var err error
	if p := try(func() { l, err = lease.NewLease2(h, uint32(id), time.Unix(int64(sec), 0)) }); p != "" {
		c.panicked(variant, p)
		return c.line(), c.fails
	}
	structural := func(e error) error {
		if errors.Is(e, lease.ErrExpiredLease) {
			return nil
		}
		return e
	}
	if variant != "ok" {
		if variant == "zero-gateway" {
			var lit lease.Lease2
			copy(lit[32:], cat(u32(uint32(id)), u32(uint32(sec))))
			c.defect(variant, true, err, true, structural(lit.Validate()))
		} else {
			c.defect(variant, true, err, false, nil) // a 4-byte field cannot hold the defect
		}
		return c.line(), c.fails
	}
	if err != nil {
		c.note("err")
		return c.line(), c.fails
	}
	c.note("ok")
	rule := "fields"
	if h.IsZero() {
		rule = "zero-gateway"
	}
	if c.ctorValid(structural(l.Validate()), rule) {
		c.roundtrip(l.Bytes(), nil, func(w []byte) ([]byte, []byte, error) {
			x, rem, err := lease.ReadLease2(w)
			return x.Bytes(), rem, err
		}, false)
	}
	return c.line(), c.fails
}

// ---- LeaseSet ------------------------------------------------------------------------------------------------

func seedLeases(seed []byte, n int) []lease.Lease {
	var out []lease.Lease
	for i := 0; i < n; i++ {
		s := stream(seed, fmt.Sprintf("lease%d", i), 44)
		var h data.Hash
		copy(h[:], s[:32])
		h[0] |= 1
		l, err := lease.NewLease(h, binary.BigEndian.Uint32(s[32:36])|1, time.UnixMilli(4102444800000+int64(binary.BigEndian.Uint32(s[36:40]))))
		if err != nil {
			panic("harness: seed lease: " + err.Error())
		}
		out = append(out, *l)
	}
	return out
}

func seedLeases2(seed []byte, n int) []lease.Lease2 {
	var out []lease.Lease2
	for i := 0; i < n; i++ {
		s := stream(seed, fmt.Sprintf("lease2-%d", i), 40)
		var h data.Hash
		copy(h[:], s[:32])
		h[0] |= 1
		l, err := lease.NewLease2(h, binary.BigEndian.Uint32(s[32:36])|1, time.Unix(4102444800+int64(s[36]), 0))
		if err != nil {
			panic("harness: seed lease2: " + err.Error())
		}
		out = append(out, *l)
	}
	return out
}

// ctorDestination builds a Destination through the library: KEY certificate via the constructors,
// NULL certificate (DSA/ElGamal) via the parser (no constructor produces one).
func ctorDestination(sig, cpk int, nullCert bool, seed []byte) (*destination.Destination, *ckey, error) {
	if nullCert {
		key := ctorKey(0, seed, "id")
		elg := ctorCryptoKey(0, seed, "id")
		d, _, err := destination.ReadDestination(cat(elg.Bytes(), key.pub, []byte{0, 0, 0}))
		return &d, key, err
	}
	id, err := ctorIdentArgs(sig, cpk, seed)
	if err != nil {
		return nil, nil, err
	}
	k, err := id.kac()
	if err != nil {
		return nil, nil, err
	}
	d, err := destination.NewDestination(k)
	return d, id.key, err
}

func opCtorLS(a []string) (string, []Fail) {
	sig, certKind, seed, nl, variant := atoi(a[0]), a[1], unhx(a[2]), atoi(a[3]), a[4]
	c := &cres{S: "LeaseSet", op: "!ctorLeaseSet"}
	d, key, err := ctorDestination(sig, 0, certKind == "null", seed)
	if err != nil {
		return "no-destination", nil
	}
	var enc types.ReceivingPublicKey = ctorCryptoKey(0, seed, "enc")
	rev := ctorKey(key.typ, seed, "rev")
	var revKey types.SigningPublicKey = rev.spk
	leases := seedLeases(seed, nl)
	priv := key.sk
	dest := *d
	switch variant {
	case "ok":
	case "elg-zero": // key value the parser refuses (Y < 2)
		enc = elgamal.ElgPublicKey{}
	case "elg-max": // Y >= p-1
		var k elgamal.ElgPublicKey
		for i := range k {
			k[i] = 0xff
		}
		enc = k
	case "dsa-revocation-key-zero": // NULL certificate: the parser builds the revocation key with NewDSAPublicKey (2 <= Y < p)
		revKey = i2pdsa.DSAPublicKey{}
	case "over-16-leases":
		leases = seedLeases(seed, 17)
	case "encryption-key-short":
		enc = rawRecv(enc.Bytes()[:255])
	case "encryption-key-long":
		enc = rawRecv(cat(enc.Bytes(), []byte{1}))
	case "nil-encryption-key":
		enc = nil
	case "nil-signing-key":
		revKey = nil
	case "signing-key-short":
		revKey = rawSpk(rev.pub[:len(rev.pub)-1])
	case "signing-key-long":
		revKey = rawSpk(cat(rev.pub, []byte{1}))
	case "nil-private-key":
		priv = nil
	case "nil-destination":
		dest = destination.Destination{}
	default:
		panic("harness: unknown variant " + variant)
	}
	if priv == nil && variant != "nil-private-key" {
		return "no-private-key", nil
	}
	var ls *lease_set.LeaseSet
	if p := try(func() { ls, err = lease_set.NewLeaseSet(dest, enc, revKey, leases, priv) }); p != "" {
		c.panicked(variant, p)
		return c.line(), c.fails
	}
	keyValueVariant := variant == "elg-zero" || variant == "elg-max" || variant == "dsa-revocation-key-zero"
	if keyValueVariant {
		// the parser's key-value ranges (NewElgPublicKey, NewDSAPublicKey): the constructor applies them
		// since 186a243 (D22); if it lets one through, the value path below shows what happens on the wire
		c.defect(variant, true, err, false, nil)
		if err != nil {
			return c.line(), c.fails
		}
	}
	valueVariant := variant == "ok" || keyValueVariant
	if !valueVariant {
		c.defect(variant, true, err, false, nil) // private fields: no defective value outside the constructor
		return c.line(), c.fails
	}
	if err != nil {
		c.note("err")
		return c.line(), c.fails
	}
	c.note("ok")
	var re *lease_set.LeaseSet
	if c.ctorValid(ls.Validate(), "fields") {
		b, berr := ls.Bytes()
		ok := c.roundtrip(b, berr, func(w []byte) ([]byte, []byte, error) {
			x, err := lease_set.ReadLeaseSet(w)
			if err != nil {
				return nil, nil, err
			}
			re = &x
			b2, err := x.Bytes()
			return b2, nil, err
		}, true)
		if !ok && variant != "ok" {
			for i := range c.fails {
				if c.fails[i].Sig == "roundtrip:LeaseSet:parse-error" {
					if variant == "dsa-revocation-key-zero" {
						c.fails[i].Sig += ":dsa-key-value"
					} else {
						c.fails[i].Sig += ":elgamal-key-value"
					}
				}
			}
		}
		first := ls.Verify()
		var second error
		if re != nil {
			second = re.Verify()
		}
		iok, known := false, false
		sl := ls.Signature().Len()
		if berr == nil && len(b) > sl {
			iok, known = indepVerify(key.typ, key.pub, b[:len(b)-sl], b[len(b)-sl:])
		}
		c.verifiedT(key.typ, first, second, re != nil, iok, known)
		if re == nil && first == nil && variant == "ok" {
			c.fail("C06", "reparsed-does-not-verify:LeaseSet", "LeaseSet produced by NewLeaseSet does not parse back")
		}
	}
	return c.line(), c.fails
}

// ---- OfflineSignature ------------------------------------------------------------------------------------------

func offSigMsg(expires uint32, tt int, tpub []byte) []byte {
	return cat(u32(expires), u16(tt), tpub)
}

func opCtorOff(a []string) (string, []Fail) {
	dt, tt, seed, expires, variant := atoi(a[0]), atoi(a[1]), unhx(a[2]), uint32(atoi(a[3])), a[4]
	c := &cres{S: "OfflineSignature", op: "!ctorOfflineSig"}
	dest := ctorKey(dt, seed, "dest")
	var tpub []byte
	if _, ok := specSig[tt]; ok {
		tpub = ctorKey(tt, seed, "transient").pub
	} else {
		tpub = stream(seed, "transient", 32)
	}
	sigLen := 0
	if sp, ok := specSig[dt]; ok {
		sigLen = sp[1]
	}
	sigBytes := make([]byte, sigLen)
	if dest.ed != nil && dt != 8 {
		sigBytes = ed25519.Sign(dest.ed, offSigMsg(expires, tt, tpub))
	}
	switch variant {
	case "ok", "zero-expires", "unknown-transient-type", "unknown-destination-type":
	case "transient-key-short":
		tpub = tpub[:len(tpub)-1]
	case "transient-key-long":
		tpub = cat(tpub, []byte{1})
	case "signature-short":
		sigBytes = sigBytes[:len(sigBytes)-1]
	case "signature-long":
		sigBytes = cat(sigBytes, []byte{1})
	default:
		panic("harness: unknown variant " + variant)
	}
	// NewOfflineSignature
	var o offline_signature.OfflineSignature
	var err error
	if p := try(func() {
		o, err = offline_signature.NewOfflineSignature(expires, uint16(tt), tpub, sigBytes, uint16(dt))
	}); p != "" {
		c.panicked(variant, p)
		return c.line(), c.fails
	}
	// CreateOfflineSignature (Ed25519-family destination keys only)
	var oc offline_signature.OfflineSignature
	var cerr error
	haveCreate := dest.ed != nil && !strings.HasPrefix(variant, "signature-")
	if haveCreate {
		if p := try(func() {
			oc, cerr = offline_signature.CreateOfflineSignature(expires, uint16(tt), tpub, dest.ed, uint16(dt))
		}); p != "" {
			c.S = "CreateOfflineSignature"
			c.panicked(variant, p)
			c.S = "OfflineSignature"
			cerr = errors.New("panic")
		}
	}
	if variant != "ok" {
		// validator side: the parser applies no expiry rule, so a parsed value can carry a zero expiry
		haveVal := false
		var verr error
		if variant == "zero-expires" && err == nil {
			if x, _, perr := offline_signature.ReadOfflineSignature(o.Bytes(), uint16(dt)); perr == nil {
				haveVal, verr = true, x.ValidateStructure()
			}
		}
		c.defect(variant, true, err, haveVal, verr)
		if haveCreate {
			c.S = "CreateOfflineSignature"
			c.defect(variant, true, cerr, false, nil)
		}
		return c.line(), c.fails
	}
	parse := func(re **offline_signature.OfflineSignature) func(w []byte) ([]byte, []byte, error) {
		return func(w []byte) ([]byte, []byte, error) {
			x, rem, err := offline_signature.ReadOfflineSignature(w, uint16(dt))
			if err != nil {
				return nil, rem, err
			}
			*re = &x
			return x.Bytes(), rem, nil
		}
	}
	if err != nil {
		c.note("err")
	} else {
		c.note("ok")
		rule := "fields"
		if expires == 0 {
			rule = "zero-expires"
		}
		if c.ctorValid(o.ValidateStructure(), rule) {
			var re *offline_signature.OfflineSignature
			c.roundtrip(o.Bytes(), nil, parse(&re), false)
		}
	}
	if haveCreate {
		c.S = "CreateOfflineSignature"
		if cerr != nil {
			c.note("create=err")
		} else {
			c.note("create=ok")
			if c.ctorValid(oc.ValidateStructure(), "fields") {
				var re *offline_signature.OfflineSignature
				c.roundtrip(oc.Bytes(), nil, parse(&re), false)
				first := boolErr(oc.VerifySignature(dest.pub))
				var second error
				if re != nil {
					second = boolErr(re.VerifySignature(dest.pub))
				}
				iok, known := indepVerify(dt, dest.pub, offSigMsg(expires, tt, tpub), oc.Signature())
				c.verified(first, second, re != nil, iok, known)
			}
		}
	}
	return c.line(), c.fails
}

// ---- LeaseSet2 -----------------------------------------------------------------------------------------------------

type ls2Key struct{ typ, declared, actual int }

// parseKeySpec: "type:len[:actual]" list; actual defaults to len.
func parseKeySpec(s string) []ls2Key {
	if s == "-" {
		return nil
	}
	var out []ls2Key
	for _, p := range strings.Split(s, ",") {
		f := strings.Split(p, ":")
		k := ls2Key{typ: atoi(f[0]), declared: atoi(f[1])}
		k.actual = k.declared
		if len(f) > 2 {
			k.actual = atoi(f[2])
		}
		out = append(out, k)
	}
	return out
}

// offlineFor creates the offline block for an Ed25519-family identity key through CreateOfflineSignature.
func offlineFor(idKey *ckey, tt int, seed []byte) (*offline_signature.OfflineSignature, *ckey, error) {
	tr := ctorKey(tt, seed, "transient")
	if idKey.ed == nil {
		return nil, nil, errors.New("offline blocks need an Ed25519-family identity key")
	}
	o, err := offline_signature.CreateOfflineSignature(4102444800, uint16(tt), tr.pub, idKey.ed, uint16(idKey.typ))
	if err != nil {
		return nil, nil, err
	}
	return &o, tr, nil
}

func opCtorLS2(a []string) (string, []Fail) {
	sig, cpk, seed := atoi(a[0]), atoi(a[1]), unhx(a[2])
	published, expires, flags := uint32(atoi(a[3])), uint16(atoi(a[4])), uint16(atoi(a[5]))
	offArg, optsArg, keys, nl, variant := a[6], a[7], parseKeySpec(a[8]), atoi(a[9]), a[10]
	c := &cres{S: "LeaseSet2", op: "!ctorLeaseSet2"}
	d, key, err := ctorDestination(sig, cpk, false, seed)
	if err != nil {
		return "no-destination", nil
	}
	var off *offline_signature.OfflineSignature
	signer := key
	if offArg != "-" {
		off, signer, err = offlineFor(key, atoi(offArg), seed)
		if err != nil {
			return "no-offline-block", nil
		}
	}
	opts := data.Mapping{}
	if optsArg != "-" {
		m, merr := data.GoMapToMapping(goMapOf(optsArg))
		if merr != nil {
			return "no-options", nil
		}
		opts = *m
	}
	var ek []lease_set2.EncryptionKey
	for i, k := range keys {
		ek = append(ek, lease_set2.EncryptionKey{KeyType: uint16(k.typ), KeyLen: uint16(k.declared), KeyData: stream(seed, fmt.Sprintf("ek%d", i), k.actual)})
	}
	leases := seedLeases2(seed, nl)
	var sk interface{}
	if signer.sk != nil {
		sk = signer.sk
	}
	switch variant {
	case "nil-key-placeholder": // documented: a nil key yields an unsigned LeaseSet2 (outside C06)
		sk = nil
	case "unsupported-signing-key-type": // neither a types.Signer nor a key with NewSigner(): an error since c5dd9b4 (D06)
		sk = "not a key"
	case "signer-object": // a types.Signer instead of a private key
		if signer.sk != nil {
			if sg, serr := signer.sk.NewSigner(); serr == nil {
				sk = sg
			}
		}
	}
	var ls lease_set2.LeaseSet2
	if p := try(func() {
		ls, err = lease_set2.NewLeaseSet2(*d, published, expires, flags, off, opts, ek, leases, sk)
	}); p != "" {
		c.panicked(variant, p)
		return c.line(), c.fails
	}
	reserved := flags&0xFFF8 != 0
	keylen := false
	for _, k := range keys {
		if n, ok := specCrypto[k.typ]; ok && k.declared != n && k.declared == k.actual {
			keylen = true
		}
	}
	if variant == "nil-key-placeholder" || variant == "signer-object" {
		variant = "ok"
		if sk == nil {
			count("c06-observation:NewLeaseSet2-nil-key-placeholder")
		}
	}
	if variant != "ok" {
		// validator side where the (lenient) parser can deliver the defective value
		haveVal := false
		var verr error
		if (variant == "reserved-flags" || variant == "keylen-vs-type") && err == nil {
			if b, berr := ls.Bytes(); berr == nil {
				if x, _, perr := lease_set2.ReadLeaseSet2(b); perr == nil {
					haveVal, verr = true, x.Validate()
				}
			}
		}
		c.defect(variant, true, err, haveVal, verr)
		return c.line(), c.fails
	}
	if err != nil {
		c.note("err")
		return c.line(), c.fails
	}
	c.note("ok")
	rule := "fields"
	switch {
	case reserved:
		rule = "reserved-flags"
	case keylen:
		rule = "keylen-vs-type"
	}
	valid := c.ctorValid(ls.Validate(), rule)
	b, berr := ls.Bytes()
	var re *lease_set2.LeaseSet2
	parse := func(w []byte) ([]byte, []byte, error) {
		x, rem, err := lease_set2.ReadLeaseSet2(w)
		if err != nil {
			return nil, rem, err
		}
		re = &x
		b2, err := x.Bytes()
		return b2, rem, err
	}
	if valid {
		c.roundtrip(b, berr, parse, false)
	} else if berr == nil {
		try(func() { parse(append([]byte{}, b...)) })
	}
	if sk != nil {
		first := ls.Verify()
		var second error
		if re != nil {
			second = re.Verify()
		}
		sl := ls.Signature().Len()
		iok, known := false, false
		if berr == nil && len(b) > sl {
			iok, known = indepVerify(signer.typ, signer.pub, cat([]byte{3}, b[:len(b)-sl]), b[len(b)-sl:])
		}
		c.verifiedT(signer.typ, first, second, re != nil, iok, known)
	}
	// C16 on a CONSTRUCTED LeaseSet2 (every flag / transient-type combination of this op): what the constructor
	// built, encrypted for a recipient and decrypted again, is the same LeaseSet2
	if valid && berr == nil && len(b)+60 <= 65535 {
		sk32 := stream(seed, "c16-recipient", 32)
		if pub, perr := xcurve.X25519(sk32, xcurve.Basepoint); perr == nil {
			var ck [32]byte
			copy(ck[:], stream(seed, "c16-cookie", 32))
			var blob []byte
			var eerr error
			if p := try(func() { blob, eerr = encrypted_leaseset.EncryptInnerLeaseSet2(&ls, ck, pub) }); p != "" {
				c.fail("C16", "roundtrip:constructed:panic", "EncryptInnerLeaseSet2 panics on a constructed LeaseSet2: %s", p)
			} else if eerr != nil {
				c.fail("C16", "roundtrip:constructed:encrypt-error", "EncryptInnerLeaseSet2 fails on a constructed, valid LeaseSet2: %v", eerr)
			} else if len(blob) <= 65535 {
				got, derr := c16Decrypt(blob, ck[:], x25519.PrivateKey(append([]byte{}, sk32...)))
				if derr != nil {
					c.fail("C16", "roundtrip:constructed:decrypt-error", "decrypt(encrypt(x)) fails for a constructed LeaseSet2 (flags %#x, offline %s): %v", flags, a[6], derr)
				} else if !bytes.Equal(got, b) {
					c.fail("C16", "roundtrip:constructed:differs", "decrypt(encrypt(x)) != x for a constructed LeaseSet2 (flags %#x, offline %s): x has %d bytes, the result %d", flags, a[6], len(b), len(got))
				}
			}
		}
	}
	return c.line(), c.fails
}

// ---- EncryptedLeaseSet ---------------------------------------------------------------------------------------------

func opCtorELS(a []string) (string, []Fail) {
	sigType, seed := atoi(a[0]), unhx(a[1])
	published, expires, flags := uint32(atoi(a[2])), uint16(atoi(a[3])), uint16(atoi(a[4]))
	offArg, innerLen, keyForm, variant := a[5], atoi(a[6]), a[7], a[8]
	c := &cres{S: "EncryptedLeaseSet", op: "!ctorEncryptedLeaseSet"}
	var blinded *ckey
	if _, ok := specSig[sigType]; ok {
		blinded = ctorKey(sigType, seed, "blinded")
	} else {
		blinded = &ckey{typ: sigType, pub: stream(seed, "blinded", 32)}
	}
	signer := blinded
	var off *offline_signature.OfflineSignature
	if offArg != "-" {
		var err error
		off, signer, err = offlineFor(blinded, atoi(offArg), seed)
		if err != nil {
			return "no-offline-block", nil
		}
	}
	pub := blinded.pub
	switch variant {
	case "blinded-key-short":
		pub = pub[:len(pub)-1]
	case "blinded-key-long":
		pub = cat(pub, []byte{1})
	}
	inner := stream(seed, "inner", innerLen)
	var sk interface{}
	if signer.ed != nil {
		switch keyForm {
		case "std":
			sk = signer.ed
		case "ptr":
			k := i2ped.Ed25519PrivateKey(signer.ed)
			sk = &k
		case "arr":
			var k [64]byte
			copy(k[:], signer.ed)
			sk = k
		case "bytes":
			sk = []byte(signer.ed)
		default:
			panic("harness: unknown key form " + keyForm)
		}
	} else if signer.sk != nil {
		sk = signer.sk
	}
	var els *encrypted_leaseset.EncryptedLeaseSet
	var err error
	if p := try(func() {
		els, err = encrypted_leaseset.NewEncryptedLeaseSet(uint16(sigType), pub, published, expires, flags, off, inner, sk)
	}); p != "" {
		c.panicked(variant, p)
		return c.line(), c.fails
	}
	if variant != "ok" && variant != "inner-length-over-65535" {
		c.defect(variant, true, err, false, nil) // private fields; the parser already runs Validate
		return c.line(), c.fails
	}
	if variant == "inner-length-over-65535" {
		// length-field mismatch: the 16-bit inner length cannot equal len(data); if the constructor lets
		// it through, its own output is the defective value the validator is asked about
		if err != nil {
			c.defect(variant, true, err, false, nil)
			return c.line(), c.fails
		}
		c.defect(variant, true, err, true, els.Validate())
	}
	// twin: NewEncryptedLeaseSetFromDestination takes type and blinded key from a Destination (no offline block:
	// an offline signature is bound to one blinded key)
	if variant == "ok" && offArg == "-" && (sigType == 7 || sigType == 11) {
		if d, dk, derr := ctorDestination(sigType, 4, false, seed); derr == nil && d != nil && dk.ed != nil {
			var t1, t2 *encrypted_leaseset.EncryptedLeaseSet
			var te1, te2 error
			if p := try(func() {
				t1, te1 = encrypted_leaseset.NewEncryptedLeaseSetFromDestination(*d, published, expires, flags, nil, inner, dk.ed)
				t2, te2 = encrypted_leaseset.NewEncryptedLeaseSet(uint16(sigType), dk.pub, published, expires, flags, nil, inner, dk.ed)
			}); p != "" {
				c.panicked("from-destination", p)
			} else if (te1 == nil) != (te2 == nil) {
				c.fail("C19", "twin:NewEncryptedLeaseSet/FromDestination", "acceptance differs: %v vs %v", te1, te2)
			} else if te1 == nil {
				tb1, _ := t1.Bytes()
				tb2, _ := t2.Bytes()
				sl := t1.Signature().Len()
				if len(tb1) != len(tb2) || len(tb1) < sl || !bytes.Equal(tb1[:len(tb1)-sl], tb2[:len(tb2)-sl]) {
					c.fail("C19", "twin:NewEncryptedLeaseSet/FromDestination", "serialisations differ before the signature")
				}
				if verr := t1.Verify(); verr != nil && innerLen <= 65535 {
					c.fail("C06", "ctor-does-not-verify:EncryptedLeaseSetFromDestination", "Verify() fails on the value NewEncryptedLeaseSetFromDestination just signed: %v", verr)
				}
			}
		}
	}
	if err != nil {
		c.note("err")
		return c.line(), c.fails
	}
	c.note("ok")
	valid := els.Validate() == nil
	if variant == "ok" {
		valid = c.ctorValid(els.Validate(), "fields")
	}
	b, berr := els.Bytes()
	var re *encrypted_leaseset.EncryptedLeaseSet
	parse := func(w []byte) ([]byte, []byte, error) {
		x, rem, err := encrypted_leaseset.ReadEncryptedLeaseSet(w)
		if err != nil {
			return nil, rem, err
		}
		re = &x
		b2, err := x.Bytes()
		return b2, rem, err
	}
	if valid {
		if !c.roundtrip(b, berr, parse, false) && innerLen > 65535 {
			for i := range c.fails {
				if strings.HasPrefix(c.fails[i].Sig, "roundtrip:EncryptedLeaseSet:") {
					c.fails[i].Sig += ":inner-length-over-65535"
				}
			}
		}
	}
	if signer.ed != nil && innerLen <= 65535 {
		first := els.Verify()
		var second error
		if re != nil {
			second = re.Verify()
		}
		sl := els.Signature().Len()
		iok, known := false, false
		if berr == nil && len(b) > sl {
			iok, known = indepVerify(signer.typ, signer.pub, cat([]byte{5}, b[:len(b)-sl]), b[len(b)-sl:])
		}
		c.verifiedT(signer.typ, first, second, re != nil, iok, known)
	}
	return c.line(), c.fails
}

// ---- Signature ------------------------------------------------------------------------------------------------------

func opCtorSig(a []string) (string, []Fail) {
	t, n, variant := atoi(a[0]), atoi(a[1]), a[2]
	c := &cres{S: "Signature", op: "!ctorSignature"}
	w := stream([]byte{byte(t), byte(n)}, "sig", n)
	var s signature.Signature
	var err error
	if p := try(func() { s, err = signature.NewSignatureFromBytes(w, t) }); p != "" {
		c.panicked(variant, p)
		return c.line(), c.fails
	}
	if variant != "ok" {
		c.defect(variant, true, err, false, nil) // private fields
		return c.line(), c.fails
	}
	if err != nil {
		c.note("err")
		return c.line(), c.fails
	}
	c.note("ok")
	if c.ctorValid(s.Validate(), "length-vs-type") {
		c.roundtrip(s.Bytes(), nil, func(w []byte) ([]byte, []byte, error) {
			x, rem, err := signature.ReadSignature(w, t)
			return x.Bytes(), rem, err
		}, false)
	}
	return c.line(), c.fails
}

// ---- Certificate ----------------------------------------------------------------------------------------------------

func opCtorCert(a []string) (string, []Fail) {
	// route direct|builder: x = certificate type, y = payload (hex, "none" = WithPayload not called)
	// route builder-keys:   x = signing type, y = crypto type (decimal)
	route, x, variant := a[0], atoi(a[1]), a[3]
	c := &cres{S: "Certificate", op: "!ctorCertificate"}
	var payload []byte
	if route != "builder-keys" && a[2] != "none" {
		payload = unhx(a[2])
	}
	if variant == "payload-over-65535" {
		payload = make([]byte, 65536)
	}
	var cert *certificate.Certificate
	var err, verr error
	haveVal := false
	p := try(func() {
		switch route {
		case "direct":
			cert, err = certificate.NewCertificateWithType(uint8(x), payload)
		case "builder":
			cb := certificate.NewCertificateBuilder()
			if _, err = cb.WithType(uint8(x)); err != nil {
				return
			}
			if a[2] != "none" {
				cb = cb.WithPayload(payload)
			}
			// CertificateBuilder.Validate is the builder's own validator
			haveVal, verr = true, cb.Validate()
			cert, err = cb.Build()
		case "builder-keys":
			cb := certificate.NewCertificateBuilder()
			if _, err = cb.WithKeyTypes(x, atoi(a[2])); err != nil {
				return
			}
			haveVal, verr = true, cb.Validate()
			cert, err = cb.Build()
		default:
			panic("harness: unknown route " + route)
		}
	})
	if p != "" {
		c.panicked(variant, p)
		return c.line(), c.fails
	}
	if variant != "ok" {
		if haveVal && verr == nil && err != nil {
			// the builder's Validate documents "consistency" of type/key-type/payload settings, not the payload rules
			count("c14-observation:CertificateBuilder.Validate-passes-but-Build-fails:" + variant)
		}
		c.defect(variant, true, err, false, nil)
		return c.line(), c.fails
	}
	if err != nil {
		c.note("err")
		return c.line(), c.fails
	}
	c.note("ok")
	if haveVal && verr != nil {
		c.fail("C14", "ctor-not-valid:CertificateBuilder:fields", "Build succeeded although the builder's Validate fails: %v", verr)
	}
	if c.ctorValid(errIf(!cert.IsValid()), "fields") {
		b := cert.Bytes()
		c.roundtrip(b, errIf(b == nil), func(w []byte) ([]byte, []byte, error) {
			x, rem, err := certificate.ReadCertificate(w)
			if err != nil {
				return nil, rem, err
			}
			return x.Bytes(), rem, nil
		}, false)
	}
	return c.line(), c.fails
}

// ---- Mapping --------------------------------------------------------------------------------------------------------

func opCtorMapping(a []string) (string, []Fail) {
	route, pairs, variant := a[0], parseAssoc(a[1]), a[2]
	c := &cres{S: "Mapping", op: "!ctorMapping"}
	big300 := strings.Repeat("x", 300)
	switch variant {
	case "ok":
	case "key-over-255":
		pairs = append(pairs, [2]string{big300, "v"})
	case "value-over-255":
		pairs = append(pairs, [2]string{"k", big300})
	case "total-just-over-65535", "total-exactly-65535":
		// 127 pairs of 255-byte key and 255-byte value (514 bytes each on the wire) + one pair that brings the body to
		// exactly 65535 (the last admissible size) resp. 65537 bytes
		for i := 0; i < 127; i++ {
			pairs = append(pairs, [2]string{fmt.Sprintf("%03d%s", i, strings.Repeat("k", 252)), strings.Repeat("v", 255)})
		}
		rest := 65535 - 127*514 - 4 // key+value bytes of the last pair for a body of exactly 65535
		if variant == "total-just-over-65535" {
			rest += 2
		}
		pairs = append(pairs, [2]string{"zzz" + strings.Repeat("k", 97), strings.Repeat("v", rest-100)})
	case "total-over-65535":
		for i := 0; i < 140; i++ {
			pairs = append(pairs, [2]string{fmt.Sprintf("%03d%s", i, strings.Repeat("k", 230)), strings.Repeat("v", 240)})
		}
	default:
		panic("harness: unknown variant " + variant)
	}
	var m *data.Mapping
	var err error
	p := try(func() {
		switch route {
		case "gomap":
			gm := map[string]string{}
			for _, p := range pairs {
				gm[p[0]] = p[1]
			}
			m, err = data.GoMapToMapping(gm)
		case "values": // ToI2PString + ValuesToMapping: order and duplicates as given
			var mv data.MappingValues
			for _, p := range pairs {
				k, e1 := data.ToI2PString(p[0])
				v, e2 := data.ToI2PString(p[1])
				if e1 != nil || e2 != nil {
					err = errors.New("string rejected")
					return
				}
				mv = append(mv, [2]data.I2PString{k, v})
			}
			m, err = data.ValuesToMapping(mv)
		case "add": // MappingValues.Add + ValuesToMapping
			mv := data.NewMappingValues(len(pairs))
			for _, p := range pairs {
				if mv, err = mv.Add(p[0], p[1]); err != nil {
					return
				}
			}
			m, err = data.ValuesToMapping(mv)
		default:
			panic("harness: unknown route " + route)
		}
	})
	if p != "" {
		c.panicked(variant, p)
		return c.line(), c.fails
	}
	if variant == "total-exactly-65535" {
		variant = "ok"
	}
	if variant != "ok" {
		haveVal := false
		var verr error
		if variant != "total-over-65535" && variant != "total-just-over-65535" { // a mapping value holding a malformed (over-long) string
			bad := data.I2PString(cat([]byte{255}, []byte(big300)))
			k, _ := data.ToI2PString("k")
			pair := [2]data.I2PString{k, bad}
			if variant == "key-over-255" {
				pair = [2]data.I2PString{bad, k}
			}
			if lit, lerr := data.ValuesToMapping(data.MappingValues{pair}); lerr == nil {
				haveVal, verr = true, lit.Validate()
			}
		}
		c.defect(variant, true, err, haveVal, verr)
		return c.line(), c.fails
	}
	if err != nil {
		c.note("err")
		return c.line(), c.fails
	}
	c.note("ok")
	verr := m.Validate()
	if verr == nil {
		verr = m.Values().Validate()
	}
	rule := "strings"
	if c.ctorValid(verr, rule) {
		d := m.Data()
		ok := c.roundtrip(d, errIf(d == nil), func(w []byte) ([]byte, []byte, error) {
			x, rem, errs := data.ReadMapping(w)
			if len(errs) > 0 {
				return nil, rem, errs[0]
			}
			return x.Data(), rem, nil
		}, false)
		if !ok {
			why := ""
			seen := map[string]bool{}
			for _, p := range pairs {
				if seen[p[0]] {
					why = ":duplicate-keys"
				}
				seen[p[0]] = true
			}
			if len(pairs) > 1000 {
				why = ":over-1000-pairs"
			}
			for i := range c.fails {
				if strings.HasPrefix(c.fails[i].Sig, "roundtrip:Mapping:") {
					c.fails[i].Sig += why
				}
			}
		}
		// history: a value is replaced through the pairs Values() hands out (they are the mapping's own); whatever
		// still passes Validate must still serialise to bytes that parse back ("Validate success ⇒ clean round trip")
		if vals := m.Values(); ok && len(vals) > 0 && len(vals) <= 1000 {
			old, _ := vals[len(vals)-1][1].Data()
			if longer, lerr := data.ToI2PString(old + "+edited"); lerr == nil && len(d)+7 <= 65535 {
				vals[len(vals)-1][1] = longer
				if m.Validate() == nil && m.Values().Validate() == nil {
					d2 := m.Data()
					back, rem, errs := data.ReadMapping(d2)
					switch {
					case len(d2) < 2 || int(d2[0])<<8|int(d2[1]) != len(d2)-2:
						c.fail("C14", "roundtrip:Mapping:after-edit:size-field", "after a value was replaced through Values(), Validate passes but Data() announces %d bytes and carries %d", int(d2[0])<<8|int(d2[1]), len(d2)-2)
					case len(errs) > 0 || len(rem) != 0:
						c.fail("C14", "roundtrip:Mapping:after-edit:parse-error", "after a value was replaced through Values(), Validate passes but the bytes do not parse back (%d errors, %d bytes left)", len(errs), len(rem))
					case !bytes.Equal(back.Data(), d2):
						c.fail("C14", "roundtrip:Mapping:after-edit:differs", "after a value was replaced through Values(), the bytes parse back to a different mapping")
					}
				}
			}
		}
	}
	return c.line(), c.fails
}

func init() {
	reg("!ctorKeysAndCert", opCtorKac)
	reg("!ctorDestination", opCtorDest)
	reg("!ctorRouterIdentity", opCtorRid)
	reg("!ctorRouterAddress", opCtorRA)
	reg("!ctorRouterInfo", opCtorRI)
	reg("!ctorLease", opCtorLease)
	reg("!ctorLease2", opCtorLease2)
	reg("!ctorLeaseSet", opCtorLS)
	reg("!ctorLeaseSet2", opCtorLS2)
	reg("!ctorEncryptedLeaseSet", opCtorELS)
	reg("!ctorOfflineSig", opCtorOff)
	reg("!ctorSignature", opCtorSig)
	reg("!ctorCertificate", opCtorCert)
	reg("!ctorMapping", opCtorMapping)
}
