package main

import (
	"fmt"
	"net"
	"strconv"
	"strings"
	"time"

	"github.com/go-i2p/common/data"
	"github.com/go-i2p/common/router_address"
)

// ---- canonical observation of every option accessor ------------------------------------------

func raRawStr(s data.I2PString) string {
	if len(s) == 0 {
		return "nil"
	}
	return hx(s)
}

func raTF(b bool) string {
	if b {
		return "t"
	}
	return "f"
}

func raI2PKey(k string) data.I2PString {
	s, _ := data.ToI2PString(k)
	return s
}

// raProbeKeys: prefixes and extensions of the well-known keys (same list as Driver/NetOps.lean).
var raProbeKeys = []string{"hos", "host", "hostx", "h", "por", "port", "ports", "s", "sx", "i", "ii", "", "caps", "caps6", "v"}

var raIntroNums = []int{-1, 0, 1, 2, 3}

func raAccLine(ra *router_address.RouterAddress) string {
	var b strings.Builder
	if a, err := ra.Host(); err != nil {
		b.WriteString("host=err")
	} else if ia, ok := a.(*net.IPAddr); !ok {
		fmt.Fprintf(&b, "host=ok:?%T", a)
	} else {
		b.WriteString("host=ok:" + hx(ia.IP.To16()))
		if ia.Zone != "" {
			b.WriteString("%" + hxs(ia.Zone))
		}
	}
	b.WriteString(" hvh=" + raTF(ra.HasValidHost()))
	if v := ra.IPVersion(); v == "" {
		b.WriteString(" ipv=-")
	} else {
		b.WriteString(" ipv=" + hxs(v))
	}
	if p, err := ra.Port(); err != nil {
		b.WriteString(" port=err")
	} else {
		b.WriteString(" port=ok:" + hxs(p))
	}
	b.WriteString(" hvp=" + raTF(ra.HasValidPort()))
	if k, err := ra.StaticKey(); err != nil {
		b.WriteString(" sk=err")
	} else {
		b.WriteString(" sk=ok:" + hx(k[:]))
	}
	if k, err := ra.InitializationVector(); err != nil {
		b.WriteString(" iv=err")
	} else {
		b.WriteString(" iv=ok:" + hx(k[:]))
	}
	if v, err := ra.ProtocolVersion(); err != nil {
		b.WriteString(" pv=err")
	} else {
		b.WriteString(" pv=ok:" + hxs(v))
	}
	b.WriteString(" caps=" + raRawStr(ra.CapsString()))
	list := func(name string, f func(int) data.I2PString) {
		var parts []string
		for _, n := range raIntroNums {
			parts = append(parts, raRawStr(f(n)))
		}
		b.WriteString(" " + name + "=" + strings.Join(parts, ","))
	}
	list("ih", ra.IntroducerHashString)
	list("iexp", ra.IntroducerExpirationString)
	list("itag", ra.IntroducerTagString)
	var parts []string
	for _, k := range raProbeKeys {
		parts = append(parts, raRawStr(ra.GetOption(raI2PKey(k)))+"/"+raTF(ra.CheckOption(k)))
	}
	b.WriteString(" probe=" + strings.Join(parts, ","))
	return b.String()
}

// ---- C17 oracles: literal transcription of the property on the real library ---------------------

// raOptLookup answers "which value is stored under exactly this key" independently of the accessors.
// ambiguous = several pairs carry the key with different values (parser path only); the property does
// not say which one wins, so the oracle then accepts any of them.
type raOptLookup func(key string) (vals []string)

func raPairsLookup(pairs [][2]string) raOptLookup {
	return func(key string) []string {
		var out []string
		for _, p := range pairs {
			if p[0] == key {
				out = append(out, p[1])
			}
		}
		return out
	}
}

// raChosen returns the option value the accessors must be judged against: the unique stored value, or —
// when duplicates make it ambiguous — the one the library's own lookup picked, provided it is one of them.
func raChosen(ra *router_address.RouterAddress, look raOptLookup, key string) (val string, present, judge bool) {
	vals := look(key)
	if len(vals) == 0 {
		return "", false, true
	}
	same := true
	for _, v := range vals {
		if v != vals[0] {
			same = false
		}
	}
	if same {
		return vals[0], true, true
	}
	got := ra.GetOption(raI2PKey(key))
	if got == nil {
		return "", false, false
	}
	d, err := got.Data()
	if err != nil {
		return "", false, false
	}
	for _, v := range vals {
		if v == d {
			return d, true, true
		}
	}
	return "", false, false // the lookup oracle reports this
}

func c17Oracles(ra *router_address.RouterAddress, look raOptLookup, keys []string, path string) []Fail {
	var fails []Fail
	// option lookup returns the value stored under exactly the requested key
	for _, k := range keys {
		vals := look(k)
		got := ra.GetOption(raI2PKey(k))
		if len(k) > 255 {
			continue
		}
		if len(vals) == 0 {
			if got != nil {
				fails = append(fails, fail("C17", "lookup-exact", "%s: GetOption(%q) returned %s although no option has exactly that key", path, k, hx(got)))
			}
			if ra.CheckOption(k) {
				fails = append(fails, fail("C17", "lookup-exact", "%s: CheckOption(%q) is true although no option has exactly that key", path, k))
			}
			continue
		}
		d, err := got.Data()
		found := false
		for _, v := range vals {
			if got != nil && err == nil && v == d {
				found = true
			}
		}
		if !found {
			fails = append(fails, fail("C17", "lookup-exact", "%s: GetOption(%q) returned %s, stored under that key: %q", path, k, raRawStr(got), vals))
		}
	}
	// host
	if val, present, judge := raChosen(ra, look, "host"); judge {
		ip := net.ParseIP(val)
		want := present && val != "" && ip != nil
		a, err := ra.Host()
		if (err == nil) != want {
			fails = append(fails, fail("C17", "host-accept", "%s: host option %q (present=%v): literal IP=%v but Host() err=%v", path, val, present, want, err))
		}
		if err == nil && want {
			ia, ok := a.(*net.IPAddr)
			if !ok || ia.Zone != "" || !ia.IP.Equal(ip) {
				fails = append(fails, fail("C17", "host-value", "%s: Host() of %q returned %v", path, val, a))
			}
			wantVer := "6"
			if ip.To4() != nil {
				wantVer = "4"
			}
			if v := ra.IPVersion(); v != wantVer {
				fails = append(fails, fail("C17", "ipversion", "%s: host %q is family %s but IPVersion() = %q", path, val, wantVer, v))
			}
		}
		if ra.HasValidHost() != (err == nil) {
			fails = append(fails, fail("C17", "hasValidHost", "%s: host %q: HasValidHost()=%v but Host() err=%v", path, val, ra.HasValidHost(), err))
		}
	}
	// port
	if val, present, judge := raChosen(ra, look, "port"); judge {
		n, aerr := strconv.Atoi(val)
		want := present && aerr == nil && n >= 1 && n <= 65535
		p, err := ra.Port()
		if (err == nil) != want {
			fails = append(fails, fail("C17", "port-accept", "%s: port option %q (present=%v): decimal port in range=%v but Port() err=%v", path, val, present, want, err))
		}
		if err == nil && want && p != strconv.Itoa(n) {
			fails = append(fails, fail("C17", "port-canonical", "%s: Port() of %q returned %q", path, val, p))
		}
		if ra.HasValidPort() != (err == nil) {
			fails = append(fails, fail("C17", "hasValidPort", "%s: port %q: HasValidPort()=%v but Port() err=%v", path, val, ra.HasValidPort(), err))
		}
	}
	// static key / IV
	if val, present, judge := raChosen(ra, look, "s"); judge {
		k, err := ra.StaticKey()
		want := present && len(val) == 32
		if (err == nil) != want || (want && string(k[:]) != val) {
			fails = append(fails, fail("C17", "statickey", "%s: static key option of %d bytes (present=%v): StaticKey() = %s, err=%v", path, len(val), present, hx(k[:]), err))
		}
	}
	if val, present, judge := raChosen(ra, look, "i"); judge {
		k, err := ra.InitializationVector()
		want := present && len(val) == 16
		if (err == nil) != want || (want && string(k[:]) != val) {
			fails = append(fails, fail("C17", "iv", "%s: IV option of %d bytes (present=%v): InitializationVector() = %s, err=%v", path, len(val), present, hx(k[:]), err))
		}
	}
	return fails
}

// ---- building addresses --------------------------------------------------------------------------

var raHeader = cat([]byte{5}, make([]byte, 8), []byte{5}, []byte("NTCP2"))

// raFromWire parses header ++ mapping bytes with ReadRouterAddress. Whether the parser *rejects* an
// address whose option mapping has duplicate keys or damaged bytes is a policy outside C17 (and differs
// between library versions); when it does, the accessors are observed on an address assembled from the
// same pieces the parser uses (data.NewInteger/NewDate/ReadI2PString/NewMapping on the same bytes), so the
// observation depends on the stored options only. rejected reports which of the two happened.
func raFromWire(mapping []byte) (ra *router_address.RouterAddress, rejected bool) {
	w := cat(raHeader, mapping)
	r, _, err := router_address.ReadRouterAddress(w)
	if err == nil {
		return &r, false
	}
	cost, rest, _ := data.NewInteger(w, 1)
	date, rest, _ := data.NewDate(rest)
	style, rest, _ := data.ReadI2PString(rest)
	opts, _, _ := data.NewMapping(rest)
	return &router_address.RouterAddress{TransportCost: cost, ExpirationDate: date, TransportType: style, TransportOptions: opts}, true
}

func raPairsBytes(pairs [][2]string) [][2][]byte {
	var out [][2][]byte
	for _, p := range pairs {
		if len(p[0]) > 255 || len(p[1]) > 255 {
			panic("harness: option string over 255 bytes in raAcc")
		}
		out = append(out, [2][]byte{[]byte(p[0]), []byte(p[1])})
	}
	return out
}

func raDistinctKeys(pairs [][2]string) bool {
	seen := map[string]bool{}
	for _, p := range pairs {
		if seen[p[0]] {
			return false
		}
		seen[p[0]] = true
	}
	return true
}

func raLookupKeys(pairs [][2]string) []string {
	keys := append([]string{}, raProbeKeys...)
	keys = append(keys, "ih0", "ih1", "ih2", "iexp0", "itag0")
	for _, p := range pairs {
		keys = append(keys, p[0])
		if len(p[0]) > 0 {
			keys = append(keys, p[0][:len(p[0])-1])
		}
		if len(p[0]) < 255 {
			keys = append(keys, p[0]+"x")
		}
	}
	return keys
}

func init() {
	reg("parseIP", func(a []string) (string, []Fail) {
		ip := net.ParseIP(string(unhx(a[0])))
		if ip == nil {
			return "err", nil
		}
		fam := "6"
		if ip.To4() != nil {
			fam = "4"
		}
		return "ok " + hx(ip.To16()) + " " + fam, nil
	})
	reg("atoi", func(a []string) (string, []Fail) {
		v, err := strconv.Atoi(string(unhx(a[0])))
		if err != nil {
			return "err", nil
		}
		return "ok " + itoa(v), nil
	})
	reg("itoa", func(a []string) (string, []Fail) {
		n := atoi(a[0])
		if n < 0 {
			return "neg", nil
		}
		return hxs(strconv.Itoa(n)), nil
	})
	reg("raAcc", func(a []string) (string, []Fail) {
		pairs := parseAssoc(a[0])
		look := raPairsLookup(pairs)
		keys := raLookupKeys(pairs)
		// parser path: options encoded by the harness in the given order
		ra, rejected := raFromWire(encMapping(raPairsBytes(pairs)))
		line := raAccLine(ra)
		fails := c17Oracles(ra, look, keys, "parser path")
		if rejected && raDistinctKeys(pairs) {
			fails = append(fails, fail("C19", "twin:ra-ctor/parse", "ReadRouterAddress rejects a cleanly encoded address with distinct option keys"))
		}
		// constructor path (a Go map: distinct keys only)
		if raDistinctKeys(pairs) {
			gm := map[string]string{}
			for _, p := range pairs {
				gm[p[0]] = p[1]
			}
			ra2, err2 := router_address.NewRouterAddress(5, time.Time{}, "NTCP2", gm)
			if err2 != nil {
				fails = append(fails, fail("C19", "twin:ra-ctor/parse", "NewRouterAddress rejected options the parser accepts: %v", err2))
			} else {
				fails = append(fails, c17Oracles(ra2, look, keys, "constructor path")...)
				if l2 := raAccLine(ra2); l2 != line {
					fails = append(fails, fail("C19", "twin:ra-ctor/parse", "accessors differ between constructor and parser path: ctor %s / parse %s", l2, line))
				}
				// and the constructed address serialises to something the parser reads back identically
				if b := ra2.Bytes(); b != nil {
					ra3, _, err3 := router_address.ReadRouterAddress(b)
					if err3 != nil || raAccLine(&ra3) != line {
						fails = append(fails, fail("C19", "twin:ra-ctor/parse", "accessors differ after NewRouterAddress→Bytes→ReadRouterAddress (err=%v)", err3))
					}
				}
			}
		}
		return line, fails
	})
	reg("raGet", func(a []string) (string, []Fail) {
		pairs := parseAssoc(a[0])
		key := string(unhx(a[1]))
		ra, _ := raFromWire(encMapping(raPairsBytes(pairs)))
		fails := c17Oracles(ra, raPairsLookup(pairs), []string{key}, "parser path")
		line := "get=" + raRawStr(ra.GetOption(raI2PKey(key))) + " has=" + raTF(ra.CheckOption(key))
		if raDistinctKeys(pairs) {
			gm := map[string]string{}
			for _, p := range pairs {
				gm[p[0]] = p[1]
			}
			if ra2, err2 := router_address.NewRouterAddress(5, time.Time{}, "NTCP2", gm); err2 == nil {
				fails = append(fails, c17Oracles(ra2, raPairsLookup(pairs), []string{key}, "constructor path")...)
				if l2 := "get=" + raRawStr(ra2.GetOption(raI2PKey(key))) + " has=" + raTF(ra2.CheckOption(key)); l2 != line {
					fails = append(fails, fail("C19", "twin:ra-ctor/parse", "GetOption(%q) differs: ctor %s / parse %s", key, l2, line))
				}
			}
		}
		return line, fails
	})
	reg("raWire", func(a []string) (string, []Fail) {
		ra, _ := raFromWire(unhx(a[0]))
		// the option list is whatever the mapping parser stored; judge the accessors against it
		vals := ra.Options().Values()
		look := func(key string) []string {
			var out []string
			for _, p := range vals {
				k, kerr := p[0].Data()
				v, verr := p[1].Data()
				if kerr == nil && verr == nil && k == key {
					out = append(out, v)
				}
			}
			return out
		}
		wellFormed := true
		for _, p := range vals {
			if _, e := p[0].Data(); e != nil {
				wellFormed = false
			}
			if _, e := p[1].Data(); e != nil {
				wellFormed = false
			}
		}
		var fails []Fail
		if wellFormed {
			fails = c17Oracles(ra, look, raProbeKeys, "parser path (raw mapping)")
		}
		return raAccLine(ra), fails
	})
}
