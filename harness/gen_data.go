package main

import (
	"fmt"
	"sort"
	"strings"
)

// ---- building blocks -------------------------------------------------------------------------

func u16(n int) []byte { return []byte{byte(n >> 8), byte(n)} }
func u32(n uint32) []byte {
	return []byte{byte(n >> 24), byte(n >> 16), byte(n >> 8), byte(n)}
}
func u64(n uint64) []byte {
	b := make([]byte, 8)
	for i := 7; i >= 0; i-- {
		b[i] = byte(n)
		n >>= 8
	}
	return b
}
func cat(parts ...[]byte) []byte {
	var out []byte
	for _, p := range parts {
		out = append(out, p...)
	}
	return out
}

func encPair(k, v []byte) []byte {
	return cat([]byte{byte(len(k))}, k, []byte{'='}, []byte{byte(len(v))}, v, []byte{';'})
}

// encMapping is the harness's own mapping encoder (pairs in the given order).
func encMapping(pairs [][2][]byte) []byte {
	var body []byte
	for _, p := range pairs {
		body = append(body, encPair(p[0], p[1])...)
	}
	return cat(u16(len(body)), body)
}

// genKey yields keys that stress the delimiters and the length byte.
func (g *G) genKey() []byte {
	r := g.R
	switch r.intn(10) {
	case 0:
		return []byte{byte('a' + r.intn(26))}
	case 1:
		return []byte("host")
	case 2:
		return r.bytes(r.rng(1, 4))
	case 3:
		return []byte{'=', ';'}
	case 4:
		return r.bytes(255)
	case 5:
		return []byte{0}
	default:
		n := r.rng(1, 12)
		b := make([]byte, n)
		for i := range b {
			b[i] = byte('a' + r.intn(26))
		}
		return b
	}
}

func (g *G) genVal() []byte {
	r := g.R
	switch r.intn(8) {
	case 0, 1:
		return []byte{}
	case 2:
		return []byte{byte('0' + r.intn(10))}
	case 3:
		return r.bytes(255)
	case 4:
		return []byte(";=;")
	default:
		return r.bytes(r.rng(1, 20))
	}
}

// genPairs returns n pairs with distinct keys, sorted by key.
func (g *G) genPairs(n int) [][2][]byte {
	seen := map[string]bool{}
	var ps [][2][]byte
	for len(ps) < n {
		k := g.genKey()
		if seen[string(k)] {
			k = append(k, byte('a'+len(ps)%26), byte('0'+g.R.intn(10)))
			if len(k) > 255 || seen[string(k)] {
				continue
			}
		}
		seen[string(k)] = true
		ps = append(ps, [2][]byte{k, g.genVal()})
	}
	sort.Slice(ps, func(i, j int) bool { return string(ps[i][0]) < string(ps[j][0]) })
	return ps
}

// genMappingBytes: one encoded mapping drawn from the option-map shapes of DESIGN.md 4.2.
func (g *G) genMappingBytes() (b []byte, shape string) {
	r := g.R
	shapes := []string{"empty", "one4", "one5", "one6", "multi", "multi", "unsorted", "dup", "big", "junk", "over", "under", "emptykey"}
	shape = shapes[r.intn(len(shapes))]
	switch shape {
	case "empty":
		return []byte{0, 0}, shape
	case "one4":
		return encMapping([][2][]byte{{{}, {}}}), shape
	case "one5":
		return encMapping([][2][]byte{{{byte('a' + r.intn(26))}, {}}}), shape
	case "one6":
		return encMapping([][2][]byte{{{'a'}, {'b'}}}), shape
	case "multi":
		return encMapping(g.genPairs(r.rng(2, 6))), shape
	case "unsorted":
		ps := g.genPairs(r.rng(2, 5))
		ps[0], ps[len(ps)-1] = ps[len(ps)-1], ps[0]
		return encMapping(ps), shape
	case "dup":
		ps := g.genPairs(r.rng(1, 3))
		ps = append(ps, [2][]byte{ps[0][0], g.genVal()})
		return encMapping(ps), shape
	case "big":
		return encMapping([][2][]byte{{r.bytes(255), r.bytes(255)}}), shape
	case "junk": // 1..7 stray bytes inside the declared size
		body := encMapping(g.genPairs(r.rng(0, 2)))[2:]
		body = append(body, r.bytes(r.rng(1, 7))...)
		return cat(u16(len(body)), body), shape
	case "over": // declared size larger than the body
		body := encMapping(g.genPairs(r.rng(1, 2)))[2:]
		return cat(u16(len(body)+r.rng(1, 4)), body), shape
	case "under": // declared size cuts a pair
		body := encMapping(g.genPairs(2))[2:]
		return cat(u16(r.rng(1, len(body)-1)), body), shape
	case "emptykey":
		return encMapping([][2][]byte{{{}, {'x'}}, {{'k'}, {}}}), shape
	}
	return []byte{0, 0}, "empty"
}

func assocArg(ps [][2][]byte) string {
	if len(ps) == 0 {
		return "-"
	}
	var parts []string
	for _, p := range ps {
		parts = append(parts, hx(p[0])+":"+hx(p[1]))
	}
	return strings.Join(parts, ",")
}

// ---- suites ------------------------------------------------------------------------------------

// genFixedWidth: the typed helpers of data/encoding.go over the whole range of each width — both signs, the
// powers of two and their neighbours, the extreme values, and uniformly random bit patterns.
func genFixedWidth(g *G) {
	r := g.R
	g.in("fixed-width-boundaries")
	for _, w := range []int{2, 4, 8} {
		bits := uint(8 * w)
		var us []uint64
		for k := uint(0); k < bits; k++ {
			p := uint64(1) << k
			us = append(us, p-1, p, p+1)
		}
		us = append(us, 0, ^uint64(0)>>(64-bits), ^uint64(0)>>(64-bits)-1)
		for _, u := range us {
			u &= ^uint64(0) >> (64 - bits)
			g.emit("fixedEncU", itoa(w), fmt.Sprint(u))
			g.emit("fixedDecU", hx(u64(u)[8-w:]))
			g.emit("fixedDecI", hx(u64(u)[8-w:]))
			// the same bit pattern read as a signed value of this width
			sv := int64(u<<(64-bits)) >> (64 - bits)
			g.emit("fixedEncI", itoa(w), fmt.Sprint(sv))
		}
	}
	g.in("fixed-width-random")
	for i := 0; i < g.n(600, 20000); i++ {
		w := r.pick(2, 4, 8)
		bits := uint(8 * w)
		u := r.next() >> uint(r.rng(0, 63)) & (^uint64(0) >> (64 - bits))
		if r.coin(0.5) {
			u = r.next() & (^uint64(0) >> (64 - bits))
		}
		switch r.intn(4) {
		case 0:
			g.emit("fixedEncU", itoa(w), fmt.Sprint(u))
		case 1:
			g.emit("fixedEncI", itoa(w), fmt.Sprint(int64(u<<(64-bits))>>(64-bits)))
		case 2:
			g.emit("fixedDecU", hx(u64(u)[8-w:]))
		default:
			g.emit("fixedDecI", hx(u64(u)[8-w:]))
		}
	}
}

func genIntegers(g *G) {
	r := g.R
	g.in("int-exhaustive-w1")
	for v := -1; v <= 257; v++ {
		g.emit("newInt", itoa(v), "1")
	}
	g.in("int-exhaustive-w2")
	step := 1
	if g.quick() {
		step = 7
	}
	for v := 0; v <= 65537; v += step {
		g.emit("newInt", itoa(v), "2")
	}
	for _, v := range []int{65534, 65535, 65536, 65537} {
		g.emit("newInt", itoa(v), "2")
	}
	g.in("int-boundaries")
	for n := -1; n <= 10; n++ {
		for _, v := range []int{-1 << 63, -1, 0, 1, 255, 256, 1<<63 - 1} {
			g.emit("newInt", itoa(v), itoa(n))
		}
		if n >= 1 && n <= 8 {
			var top uint64 = 1 << (8 * uint(n) % 64)
			for _, d := range []int64{-2, -1, 0, 1} {
				v := int64(top) + d
				if n == 8 {
					v = (1<<63 - 1) + d
					if d > 0 {
						continue
					}
				}
				g.emit("newInt", itoa(int(v)), itoa(n))
			}
		}
	}
	g.in("int-random")
	for i := 0; i < g.n(300, 20000); i++ {
		n := r.rng(1, 8)
		v := int64(r.next() >> uint(64-8*n))
		if n == 8 {
			v = int64(r.next() >> 1)
		}
		if r.coin(0.1) {
			v = int64(r.next() >> 1)
		}
		g.emit("newInt", itoa(int(v)), itoa(n))
	}
	g.in("int-read")
	for i := 0; i < g.n(300, 10000); i++ {
		w := r.bytes(r.rng(0, 12))
		size := r.pick(-1, 0, 1, 1, 2, 2, 3, 4, 5, 6, 7, 8, 8, 9, 100)
		g.emit("readInteger", hx(w), itoa(size))
		g.emit("intOf", hx(w))
		g.emit("intSafe", hx(w))
		g.emit("uintSafe", hx(w))
		g.emit("decodeIntN", hx(w))
		g.emit("newIntFromBytes", hx(w))
	}
	for n := 0; n <= 9; n++ {
		for _, fill := range []byte{0x00, 0x7f, 0x80, 0xff} {
			w := make([]byte, n)
			for i := range w {
				w[i] = fill
			}
			g.emit("intOf", hx(w))
			g.emit("intSafe", hx(w))
			g.emit("uintSafe", hx(w))
			g.emit("decodeIntN", hx(w))
		}
	}
}

func genStrings(g *G) {
	r := g.R
	g.in("str-all-lengths")
	for n := 0; n <= 300; n++ {
		c := r.bytes(n)
		g.emit("newStr", hx(c))
		// reader on exact, short-by-one, and long buffers
		if n <= 255 {
			e := append([]byte{byte(n)}, c...)
			g.emit("readStr", hx(e))
			g.emit("strData", hx(e))
			g.emit("newStrFromBytes", hx(e))
			if n > 0 {
				g.emit("readStr", hx(e[:len(e)-1]))
				g.emit("strData", hx(e[:len(e)-1]))
				g.emit("newStrFromBytes", hx(e[:len(e)-1]))
			}
			g.emit("readStr", hx(append(e, r.bytes(r.rng(1, 5))...)))
			g.emit("strData", hx(append(e, 0x00)))
		}
	}
	g.in("str-small-exhaustive")
	g.emit("readStr", "-")
	g.emit("strData", "-")
	g.emit("newStrFromBytes", "-")
	for a := 0; a < 256; a++ {
		g.emit("readStr", hx([]byte{byte(a)}))
	}
	lim := 256
	if g.quick() {
		lim = 6
	}
	for a := 0; a < lim; a++ {
		for b := 0; b < 256; b += 1 {
			g.emit("readStr", hx([]byte{byte(a), byte(b)}))
		}
	}
	g.in("str-random")
	for i := 0; i < g.n(300, 20000); i++ {
		w := r.bytes(r.rng(0, 300))
		if len(w) > 0 && r.coin(0.6) {
			w[0] = byte(r.rng(0, len(w)+2))
		}
		g.emit("readStr", hx(w))
		g.emit("strData", hx(w))
	}
}

func genDates(g *G) {
	r := g.R
	g.in("date-boundaries")
	for _, ms := range []int64{-1 << 63, -1000, -1, 0, 1, 999, 1000, 1001, 1<<31 - 1, 1 << 31, 1<<32 - 1, 1 << 32,
		9223372036854, 9223372036855, 9223372036854775, 9223372036854776, 1 << 62, 1<<63 - 1000, 1<<63 - 2, 1<<63 - 1} {
		g.emit("newDateMs", itoa(int(ms)))
		g.emit("newDateUnix", itoa(int(ms)))
	}
	g.in("date-random")
	for i := 0; i < g.n(200, 10000); i++ {
		ms := int64(r.next() >> uint(r.rng(1, 40)))
		g.emit("newDateMs", itoa(int(ms)))
		g.emit("newDateUnix", itoa(int(ms/1000)))
		g.emit("dateFromTime", itoa(int(ms/1000)), itoa(r.intn(1000000000)))
	}
	g.in("date-read")
	for n := 0; n <= 12; n++ {
		g.emit("readDate", hx(r.bytes(n)))
	}
	for i := 0; i < g.n(100, 5000); i++ {
		w := r.bytes(r.rng(8, 12))
		if r.coin(0.5) {
			w[0] &= 0x7f
		}
		g.emit("readDate", hx(w))
	}
	g.emit("readDate", hx(cat(u64(1<<63-1))))
	g.emit("readDate", hx(cat(u64(1<<63))))
	g.emit("readDate", hx(cat(u64(^uint64(0)))))
	g.in("hash-read")
	for _, n := range []int{0, 1, 31, 32, 33, 64} {
		g.emit("readHash", hx(r.bytes(n)))
	}
}

func genMappings(g *G) {
	r := g.R
	g.in("mapping-fixed")
	for _, s := range []string{"-", "00", "0000", "000000", "0001", "000100", "000501613d003b", "000601613d01623b",
		"000601613d0162", "000601613d01623b00", "0004003d003b", "000a01613d003b01613d003b", "000701613d003b3b", "ffff"} {
		g.emit("readMapping", s)
	}
	g.in("mapping-shapes")
	for i := 0; i < g.n(1500, 60000); i++ {
		b, shape := g.genMappingBytes()
		g.gen = "mapping-" + shape
		mut := r.intn(10)
		switch {
		case mut == 0 && len(b) > 2: // single corrupted byte
			b = append([]byte{}, b...)
			b[r.intn(len(b))] ^= byte(1 << uint(r.intn(8)))
			g.gen += "+flip"
		case mut == 1 && len(b) > 2: // truncation
			b = b[:r.intn(len(b))]
			g.gen += "+cut"
		case mut == 2: // stream data follows
			b = cat(b, r.bytes(r.rng(1, 9)))
			g.gen += "+trail"
		}
		g.emit("readMapping", hx(b))
	}
	g.in("mapping-random")
	for i := 0; i < g.n(150, 6000); i++ {
		w := r.bytes(r.rng(0, 40))
		if len(w) >= 2 && r.coin(0.7) {
			w[0] = 0
			w[1] = byte(r.rng(0, len(w)))
		}
		g.emit("readMapping", hx(w))
	}
	g.in("mapping-many-pairs")
	for _, n := range []int{999, 1000, 1001} {
		if g.quick() && n != 1000 {
			continue
		}
		var ps [][2][]byte
		for i := 0; i < n; i++ {
			ps = append(ps, [2][]byte{[]byte(fmt.Sprintf("k%04d", i)), {}})
		}
		g.emit("readMapping", hx(encMapping(ps)))
	}
}

func genGoMaps(g *G) {
	r := g.R
	g.in("gomap-small")
	g.emit("goMap", "-")
	g.emit("goMap", assocArg([][2][]byte{{{'a'}, {}}}))
	g.emit("goMap", assocArg([][2][]byte{{{}, {}}}))
	g.emit("goMap", assocArg([][2][]byte{{{'z'}, {}}, {{'a'}, {'1'}}}))
	g.emit("goMap", assocArg([][2][]byte{{[]byte("ab"), {'1'}}, {{'a'}, {'2'}}, {[]byte("a\x00"), {}}}))
	g.in("gomap-shapes")
	for i := 0; i < g.n(400, 20000); i++ {
		ps := g.genPairs(r.rng(0, 7))
		// present the pairs to the model in a shuffled order: the result must not depend on it
		for j := len(ps) - 1; j > 0; j-- {
			k := r.intn(j + 1)
			ps[j], ps[k] = ps[k], ps[j]
		}
		if r.coin(0.08) {
			ps = append(ps, [2][]byte{r.bytes(256), {}})
		}
		if r.coin(0.05) {
			ps = append(ps, [2][]byte{{'q', 'q'}, r.bytes(r.rng(256, 300))})
		}
		g.emit("goMap", assocArg(ps))
	}
	g.in("gomap-pair-count")
	for _, n := range []int{1000, 1001} {
		var ps [][2][]byte
		for i := 0; i < n; i++ {
			ps = append(ps, [2][]byte{[]byte(fmt.Sprintf("k%04d", i)), {}})
		}
		g.emit("goMap", assocArg(ps))
	}
	g.in("gomap-limits")
	// totals around the 65,535-byte limit: n pairs of 255+255 (514 bytes each) plus one filler pair
	for _, total := range []int{65533, 65534, 65535, 65536, 65537} {
		if g.quick() && (total == 65533 || total == 65537) {
			continue
		}
		var ps [][2][]byte
		rem := total
		i := 0
		for rem >= 514+5 {
			k := make([]byte, 255)
			copy(k, fmt.Sprintf("key%05d", i))
			for j := 8; j < 255; j++ {
				k[j] = 'k'
			}
			ps = append(ps, [2][]byte{k, r.bytes(255)})
			rem -= 514
			i++
		}
		// filler: key "~" + value of rem-5 bytes (rem-5 ≤ 255 by construction of the loop bound)
		if rem-5 <= 255 {
			ps = append(ps, [2][]byte{{'~'}, r.bytes(rem - 5)})
		} else {
			ps = append(ps, [2][]byte{[]byte("~a"), r.bytes(255)})
			ps = append(ps, [2][]byte{{'~'}, r.bytes(rem - 5 - 261)})
		}
		g.emit("goMap", assocArg(ps))
	}
}

func init() {
	suites["DATA"] = func(g *G) { genIntegers(g); genFixedWidth(g); genStrings(g); genDates(g) }
	suites["MAP"] = func(g *G) { genMappings(g); genGoMaps(g) }
}
