package main

import (
	"crypto/ecdsa"
	"crypto/ed25519"
	"crypto/elliptic"
	"crypto/sha256"
	"crypto/sha512"
	"fmt"
	"math/big"
	"strings"

	i2pdsa "github.com/go-i2p/crypto/dsa"
)

// signer produces signatures of one I2P type with keys the harness generated itself.
type signer struct {
	typ  int
	pub  []byte
	sign func(msg []byte) []byte
}

type rngReader struct{ r *Rng }

func (x rngReader) Read(p []byte) (int, error) {
	copy(p, x.r.bytes(len(p)))
	return len(p), nil
}

func (g *G) newSigner(typ int) *signer {
	switch typ {
	case 7, 11, 8:
		priv := ed25519.NewKeyFromSeed(g.R.bytes(32))
		pub := []byte(priv.Public().(ed25519.PublicKey))
		return &signer{typ: typ, pub: pub, sign: func(m []byte) []byte { return ed25519.Sign(priv, m) }}
	case 1:
		// deterministic P-256 key from the run's random stream
		var d *big.Int
		n := elliptic.P256().Params().N
		for {
			d = new(big.Int).SetBytes(g.R.bytes(32))
			if d.Sign() > 0 && d.Cmp(n) < 0 {
				break
			}
		}
		x, y := elliptic.P256().ScalarBaseMult(d.Bytes())
		k := &ecdsa.PrivateKey{PublicKey: ecdsa.PublicKey{Curve: elliptic.P256(), X: x, Y: y}, D: d}
		pub := append(x.FillBytes(make([]byte, 32)), y.FillBytes(make([]byte, 32))...)
		rd := rngReader{g.R}
		return &signer{typ: 1, pub: pub, sign: func(m []byte) []byte {
			h := sha256.Sum256(m)
			r, s, err := ecdsa.Sign(rd, k, h[:])
			if err != nil {
				panic("harness: ecdsa sign: " + err.Error())
			}
			return append(r.FillBytes(make([]byte, 32)), s.FillBytes(make([]byte, 32))...)
		}}
	case 2:
		var d *big.Int
		n := elliptic.P384().Params().N
		for {
			d = new(big.Int).SetBytes(g.R.bytes(48))
			if d.Sign() > 0 && d.Cmp(n) < 0 {
				break
			}
		}
		x, y := elliptic.P384().ScalarBaseMult(d.Bytes())
		k := &ecdsa.PrivateKey{PublicKey: ecdsa.PublicKey{Curve: elliptic.P384(), X: x, Y: y}, D: d}
		pub := append(x.FillBytes(make([]byte, 48)), y.FillBytes(make([]byte, 48))...)
		rd := rngReader{g.R}
		return &signer{typ: 2, pub: pub, sign: func(m []byte) []byte {
			h := sha512.Sum384(m)
			r, s, err := ecdsa.Sign(rd, k, h[:])
			if err != nil {
				panic("harness: ecdsa sign: " + err.Error())
			}
			return append(r.FillBytes(make([]byte, 48)), s.FillBytes(make([]byte, 48))...)
		}}
	case 0:
		var priv i2pdsa.DSAPrivateKey
		gen, err := priv.Generate()
		if err != nil {
			panic("harness: dsa generate: " + err.Error())
		}
		dk := gen.(i2pdsa.DSAPrivateKey)
		pk, err := dk.Public()
		if err != nil {
			panic("harness: dsa public: " + err.Error())
		}
		s, err := dk.NewSigner()
		if err != nil {
			panic("harness: dsa signer: " + err.Error())
		}
		return &signer{typ: 0, pub: pk.Bytes(), sign: func(m []byte) []byte {
			sig, err := s.Sign(m)
			if err != nil {
				panic("harness: dsa sign: " + err.Error())
			}
			return sig
		}}
	}
	panic("harness: no signer for type")
}

// identity = encoded KeysAndCert whose signing key belongs to sg
type identity struct {
	bytes []byte
	sg    *signer
	cpk   int
	null  bool
}

func (g *G) newIdentity(sigType, cpk int, nullCert bool, extra []byte) *identity {
	sg := g.newSigner(sigType)
	cs := specCrypto[cpk]
	ss := len(sg.pub)
	blk := g.R.bytes(384)
	blk[0] &= 0x7f
	if blk[0] == 0 {
		blk[0] = 1
	}
	_ = cs
	copy(blk[384-ss:], sg.pub)
	var cert []byte
	if nullCert {
		cert = []byte{0, 0, 0}
	} else {
		cert = encKeyCert(sigType, cpk, extra)
	}
	return &identity{bytes: cat(blk, cert), sg: sg, cpk: cpk, null: nullCert}
}

// pickIdentity draws an identity admissible for a Destination (or RouterIdentity when rid).
func (g *G) pickIdentity(rid bool) *identity {
	r := g.R
	if r.coin(0.12) {
		// key types that are prohibited in this kind of identity (the embedding parsers must reject them)
		if rid {
			switch r.intn(3) {
			case 0:
				return g.newIdentity(11, r.pick(0, 4), false, nil)
			case 1:
				return g.newIdentity(8, 4, false, nil)
			}
			return g.newIdentity(7, r.pick(5, 6, 7), false, nil)
		}
		if r.coin(0.5) {
			return g.newIdentity(8, r.pick(0, 4), false, nil)
		}
		return g.newIdentity(r.pick(7, 11, 1), r.pick(5, 6, 7), false, nil)
	}
	if r.coin(0.08) {
		return g.newIdentity(2, r.pick(0, 4), false, nil)
	}
	switch r.intn(8) {
	case 0:
		if !rid {
			return g.newIdentity(11, r.pick(0, 4), false, nil)
		}
	case 1:
		return g.newIdentity(1, 0, false, nil)
	case 2:
		if g.Tier == "thorough" || r.coin(0.2) { // DSA key generation is slow
			return g.newIdentity(0, 0, r.coin(0.5), nil)
		}
	case 3:
		return g.newIdentity(7, 4, false, r.bytes(r.rng(1, 6)))
	}
	return g.newIdentity(7, r.pick(0, 4, 4), false, nil)
}

func encLease2(r *Rng, end uint32) []byte { return cat(r.bytes(32), u32(uint32(r.next())), u32(end)) }
func encLease(r *Rng, ms uint64) []byte   { return cat(r.bytes(32), u32(uint32(r.next())), u64(ms)) }

var tsBoundary = []uint32{0, 1, 1<<31 - 1, 1 << 31, 1<<32 - 1}

func (g *G) ts() uint32 {
	if g.R.coin(0.3) {
		return tsBoundary[g.R.intn(len(tsBoundary))]
	}
	return uint32(g.R.next())
}

// encOffSig: expires ‖ transient type ‖ transient key ‖ signature by the identity key.
func (g *G) encOffSig(id *signer, transient *signer, forge string) []byte {
	signed := cat(u32(g.ts()|1), u16(transient.typ), transient.pub)
	if forge == "zero-expires" { // structurally invalid block (expires = 0) that the transient key vouches for itself
		signed = cat(u32(0), u16(transient.typ), transient.pub)
		forge = "self"
	}
	var sig []byte
	switch forge {
	case "":
		sig = id.sign(signed)
	case "zero":
		sig = make([]byte, specSig[id.typ][1])
	case "self": // the transient key signs its own authorisation
		sig = transient.sign(signed)
		if len(sig) != specSig[id.typ][1] {
			sig = make([]byte, specSig[id.typ][1])
		}
	case "other": // a block issued by another identity of the same type
		sig = g.newSigner(id.typ).sign(signed)
	}
	return cat(signed, sig)
}

type signedCase struct {
	bytes []byte
	tag   string
}

// adversary derives near-miss variants of a correctly signed structure: body = everything before
// the signature, prefix = store-type prefix, sg = the legitimate signing key.
func (g *G) adversary(prefix, body []byte, sg *signer, other *signer) []signedCase {
	r := g.R
	out := []signedCase{{cat(body, sg.sign(cat(prefix, body))), "signed"}}
	// coordinated two-field edit after signing: the identity's certificate length is raised by k and k bytes are
	// inserted behind its payload (a NULL certificate with a payload, a KEY certificate with excess payload): the
	// structure still frames, but these bytes were never signed
	if len(body) >= 387 && (body[384] == 0 || body[384] == 5) {
		good := cat(body, sg.sign(cat(prefix, body)))
		clen := int(body[385])<<8 | int(body[386])
		if at := 387 + clen; at <= len(body) && clen+2 <= 65535 {
			k := r.pick(1, 2, 2, 40)
			m := cat(good[:385], u16(clen+k), good[387:at], r.bytes(k), good[at:])
			out = append(out, signedCase{m, "cert-payload-inserted"})
		}
	}
	if !g.quick() || r.coin(0.5) {
		// wrong key of the same type
		w := g.newSigner(sg.typ)
		if sg.typ != 0 {
			out = append(out, signedCase{cat(body, w.sign(cat(prefix, body))), "wrong-key"})
		}
		if other != nil && len(other.sign([]byte{1})) == len(sg.sign([]byte{1})) {
			out = append(out, signedCase{cat(body, other.sign(cat(prefix, body))), "other-key-present"})
		}
		// near-miss messages
		if len(body) > 0 {
			out = append(out, signedCase{cat(body, sg.sign(cat(prefix, body[:len(body)-1]))), "msg-minus-last"})
		}
		out = append(out, signedCase{cat(body, sg.sign(body)), "msg-no-prefix"})
		out = append(out, signedCase{cat(body, sg.sign(cat([]byte{prefixOther(prefix)}, body))), "msg-other-prefix"})
		// bit flip in the covered region after signing
		good := cat(body, sg.sign(cat(prefix, body)))
		m := append([]byte{}, good...)
		pos := r.intn(len(body))
		m[pos] ^= byte(1 << uint(r.intn(8)))
		out = append(out, signedCase{m, "flip-covered"})
		m2 := append([]byte{}, good...)
		m2[len(body)-1] ^= 0x01
		out = append(out, signedCase{m2, "flip-last-covered"})
		m3 := append([]byte{}, good...)
		m3[len(m3)-1-r.intn(len(m3)-len(body))] ^= 0x10
		out = append(out, signedCase{m3, "flip-signature"})
	}
	return out
}

func prefixOther(p []byte) byte {
	if len(p) == 1 && p[0] == 3 {
		return 7
	}
	return 3
}

func (g *G) optionsBytes() []byte {
	r := g.R
	if g.valid {
		if r.coin(0.5) {
			return []byte{0, 0}
		}
		return encMapping(g.genPairs(r.rng(1, 3)))
	}
	switch r.intn(6) {
	case 0, 1:
		return []byte{0, 0}
	case 2:
		return encMapping([][2][]byte{{{byte('a' + r.intn(26))}, {}}})
	case 3:
		b, _ := g.genMappingBytes()
		return b
	default:
		return encMapping(g.genPairs(r.rng(1, 4)))
	}
}

func (g *G) count16() int {
	if g.valid {
		return g.R.pick(1, 2, 3, 16)
	}
	return g.R.pick(0, 1, 1, 2, 2, 3, 15, 16, 16, 17)
}

// forceLS2Flags: when ≥ 0, the unpublished/blinded bits encLS2Body uses (the offline bit follows the transient key)
var forceLS2Flags = -1

// encLS2Body: everything before the signature.
func (g *G) encLS2Body(id *identity, transient *signer, forge string) (body []byte, signerUsed *signer) {
	r := g.R
	flags := r.pick(0, 0, 0, 2, 4, 6)
	if forceLS2Flags >= 0 {
		flags = forceLS2Flags &^ 1
	}
	if transient != nil {
		flags |= 1
	}
	if r.coin(0.05) && !g.valid && forceLS2Flags < 0 {
		flags |= 8 << uint(r.intn(12)) // reserved bits
	}
	body = cat(id.bytes, u32(g.ts()), u16(r.pick(0, 1, 600, 65535)), u16(flags))
	signerUsed = id.sg
	if transient != nil {
		body = append(body, g.encOffSig(id.sg, transient, forge)...)
		signerUsed = transient
	}
	body = append(body, g.optionsBytes()...)
	nk := r.pick(1, 1, 1, 2, 16, 0, 17)
	if g.valid {
		nk = r.pick(1, 2)
	}
	if forceLS2Keys != nil {
		nk = len(forceLS2Keys)
	}
	body = append(body, byte(nk))
	for i := 0; i < nk; i++ {
		t := r.pick(4, 4, 0, 5, 6, 7, 1, 65280)
		kl, ok := specCrypto[t]
		if !ok || (r.coin(0.05) && !g.valid) {
			kl = r.rng(0, 40)
		}
		if forceLS2Keys != nil {
			t, kl = forceLS2Keys[i][0], forceLS2Keys[i][1]
		}
		body = cat(body, u16(t), u16(kl), r.bytes(kl))
	}
	nl := g.count16()
	body = append(body, byte(nl))
	for i := 0; i < nl; i++ {
		body = append(body, encLease2(r, g.ts())...)
	}
	return
}

func (g *G) transientFor(p float64) *signer {
	if !g.R.coin(p) {
		return nil
	}
	// incl. types whose signature length differs from the usual 64 bytes (P-384: 96, DSA: 40)
	t := g.R.pick(7, 7, 7, 11, 1, 2, 2)
	if g.R.coin(0.08) {
		t = 0
	}
	return g.newSigner(t)
}

func (g *G) forgeKind() string {
	return g.R.pickS("", "", "", "", "zero", "self", "other")
}

// forceLS2Keys: when non-nil, the (type, declared length) of the encryption keys encLS2Body writes
var forceLS2Keys [][2]int

// genLS2KeyLengths: correctly signed LeaseSet2s whose encryption keys of KNOWN type declare every length near zero
// and near the size the type calls for, at the first and at a later position (the random rounds reach a mismatch on a
// known type only now and then, and a declared length below four bytes almost never).
func genLS2KeyLengths(g *G) {
	saved, savedValid := *g.R, g.valid // the fixtures take nothing from the stream the other generators see
	defer func() { *g.R, g.valid = saved, savedValid }()
	g.valid = false
	for _, t := range []int{4, 0, 5} {
		want := specCrypto[t]
		for _, kl := range []int{0, 1, 2, 3, 4, want - 1, want + 1} {
			for _, later := range []bool{false, true} {
				forceLS2Keys = [][2]int{{t, kl}}
				if later {
					forceLS2Keys = [][2]int{{4, 32}, {t, kl}}
				}
				id := g.newIdentity(7, 4, false, nil)
				body, sg := g.encLS2Body(id, nil, "")
				forceLS2Keys = nil
				g.gen = "ls2-keylen-known-type"
				g.emit("readLS2", hx(cat(body, sg.sign(cat([]byte{3}, body)))))
			}
		}
	}
}

func genSignedStructs(g *G, count int) {
	r := g.R
	if count >= 50 {
		genLS2KeyLengths(g)
	}
	for i := 0; i < count; i++ {
		// LeaseSet2
		id := g.pickIdentity(false)
		tr := g.transientFor(0.4)
		forge := ""
		if tr != nil {
			forge = g.forgeKind()
		}
		// the first rounds are fixed shapes, so that every run contains, for each structure, an Ed25519 identity
		// with a genuine offline block and with each kind of forged one
		forced := i < 8
		g.valid = forced
		forcedForge := []string{"zero", "self", "other", ""}[i%4]
		if forced {
			id, tr, forge = g.newIdentity(7, 4, false, nil), g.newSigner(7), forcedForge
		}
		// … and one genuine offline block of every transient type whose signature length differs from the Ed25519
		// destination's (DSA = type 0: 40 bytes, P-384: 96) or equals it (P-256, RedDSA)
		if i >= 8 && i < 12 {
			g.valid = true
			id, tr, forge = g.newIdentity(7, 4, false, nil), g.newSigner([]int{0, 2, 1, 11}[i-8]), ""
		}
		// forged offline blocks under a destination whose key type the offline check does not implement (ECDSA P-256)
		// and blocks that are structurally invalid (expires = 0): an ERROR from the offline check must fail
		// verification just as a negative answer does
		forgedOther := i >= 12 && i < 16
		if forgedOther {
			g.valid = true
			id, tr, forge = g.newIdentity([]int{1, 1, 7, 7}[i-12], 4, false, nil), g.newSigner(7), []string{"self", "other", "zero-expires", "zero-expires"}[i-12]
		}
		// correctly signed structures with RESERVED flag bits set (with and without an offline block): whether a reader
		// admits them is its policy; a value it returns together with an error must not verify
		reservedRound := i >= 16 && i < 19
		reservedBits := 0
		if reservedRound {
			g.valid = true
			reservedBits = []int{0x0008, 0x8000, 0x0ff0}[i-16]
			id, forge = g.newIdentity(7, 4, false, nil), ""
			tr = nil
			if i == 17 {
				tr = g.newSigner(7)
			}
			forceLS2Flags = reservedBits | []int{0, 2, 4}[i-16]
		}
		body, sg := g.encLS2Body(id, tr, forge)
		forceLS2Flags = -1
		for _, c := range g.adversary([]byte{3}, body, sg, id.sg) {
			g.gen = "ls2-" + c.tag + "-off:" + offTag(tr, forge)
			b, tag := g.maybeMutate(c.bytes, 0.15)
			g.gen += tag
			g.emit("readLS2", hx(b))
			g.emitExact("readLS2", c.tag, tag, b, forced || forgedOther || (i >= 8 && i < 12))
		}
		// MetaLeaseSet
		id = g.pickIdentity(false)
		tr = g.transientFor(0.3)
		forge = ""
		if tr != nil {
			forge = g.forgeKind()
		}
		if forced {
			id, tr, forge = g.newIdentity(7, 4, false, nil), g.newSigner(7), forcedForge
		}
		if forgedOther {
			id, tr, forge = g.newIdentity([]int{1, 1, 7, 7}[i-12], 4, false, nil), g.newSigner(7), []string{"self", "other", "zero-expires", "zero-expires"}[i-12]
		}
		transientRound := i >= 8 && i < 12 // a genuine offline block of every transient type (see LeaseSet2 above)
		if transientRound {
			id, tr, forge = g.newIdentity(7, 4, false, nil), g.newSigner([]int{0, 2, 1, 11}[i-8]), ""
		}
		flags := r.pick(0, 0, 2)
		if reservedRound {
			id, forge = g.newIdentity(7, 4, false, nil), ""
			tr = nil
			if i == 17 {
				tr = g.newSigner(7)
			}
			flags = []int{0x0004, 0x8002, 0x0ff0}[i-16]
		}
		sg = id.sg
		mb := cat(id.bytes, u32(g.ts()), u16(r.pick(0, 600, 65535)))
		if tr != nil {
			mb = cat(mb, u16(flags|1), g.encOffSig(id.sg, tr, forge))
			sg = tr
		} else {
			mb = cat(mb, u16(flags))
		}
		mb = append(mb, g.optionsBytes()...)
		ne := r.pick(1, 1, 2, 3, 16, 0, 17)
		if g.valid {
			ne = r.pick(1, 2, 3)
		}
		mb = append(mb, byte(ne))
		for j := 0; j < ne; j++ {
			et := byte(r.pick(1, 3, 5, 5, 3, 2))
			if g.valid {
				et = byte(r.pick(1, 3, 5))
			}
			mb = cat(mb, r.bytes(32), []byte{et}, u32(g.ts()), []byte{byte(r.intn(256))}, g.optionsBytes())
		}
		for _, c := range g.adversary([]byte{7}, mb, sg, id.sg) {
			g.gen = "meta-" + c.tag + "-off:" + offTag(tr, forge)
			b, tag := g.maybeMutate(c.bytes, 0.15)
			g.gen += tag
			g.emit("readMeta", hx(b))
			g.emitExact("readMeta", c.tag, tag, b, forced || forgedOther || transientRound)
		}
		// EncryptedLeaseSet (blinded key = a key the harness owns)
		bl := g.newSigner(r.pick(7, 11, 11, 1))
		tr = g.transientFor(0.3)
		forge = ""
		if tr != nil {
			forge = g.forgeKind()
		}
		if forced {
			bl, tr, forge = g.newSigner(7), g.newSigner(7), forcedForge
		}
		if forgedOther {
			bl, tr, forge = g.newSigner([]int{1, 1, 7, 11}[i-12]), g.newSigner(7), []string{"self", "other", "zero-expires", "zero-expires"}[i-12]
		}
		if transientRound {
			bl, tr, forge = g.newSigner(7), g.newSigner([]int{0, 2, 1, 11}[i-8]), ""
		}
		sg = bl
		eexp := r.pick(1, 600, 65535, 0)
		if g.valid {
			eexp = 600
		}
		eb := cat(u16(bl.typ), bl.pub, u32(g.ts()), u16(eexp))
		ef := r.pick(0, 0, 2)
		if r.coin(0.05) && !g.valid {
			ef |= 4
		}
		if tr != nil {
			eb = cat(eb, u16(ef|1), g.encOffSig(bl, tr, forge))
			sg = tr
		} else {
			eb = cat(eb, u16(ef))
		}
		il := r.pick(61, 61, 62, 100, 300, 60, 1, 0)
		if g.valid {
			il = r.pick(61, 100)
		}
		eb = cat(eb, u16(il), r.bytes(il))
		for _, c := range g.adversary([]byte{5}, eb, sg, bl) {
			g.gen = "els-" + c.tag + "-off:" + offTag(tr, forge)
			b, tag := g.maybeMutate(c.bytes, 0.15)
			g.gen += tag
			g.emit("readELS", hx(b))
			g.emitExact("readELS", c.tag, tag, b, forced || forgedOther || transientRound)
		}
		// LeaseSet (type 1): destination, ElGamal key, revocation key, leases, signature by the destination key
		id = g.pickIdentity(false)
		nullRound := i == 0 || i == 5 // every run has LeaseSets of a NULL-certificate (DSA/ElGamal) destination
		if nullRound {
			id = g.newIdentity(0, 0, true, nil)
		}
		elg := r.bytes(256)
		elg[0] &= 0x7f
		elgKind := r.intn(12)
		if nullRound {
			elgKind = 11 // a usable ElGamal key
		}
		switch elgKind {
		case 0:
			elg = make([]byte, 256)
		case 1:
			elg = make([]byte, 256)
			elg[255] = 1
		case 2:
			for j := range elg {
				elg[j] = 0xff
			}
		}
		rev := g.newSigner(id.sg.typ)
		revKey := rev.pub
		if id.null && r.coin(0.1) && !nullRound {
			revKey = make([]byte, 128)
		}
		lb := cat(id.bytes, elg, revKey)
		nl := g.count16()
		lb = append(lb, byte(nl))
		for j := 0; j < nl; j++ {
			lb = append(lb, encLease(r, r.next()>>uint(r.rng(1, 30)))...)
		}
		for _, c := range g.adversary(nil, lb, id.sg, rev) {
			g.gen = "ls-" + c.tag
			b, tag := g.maybeMutate(c.bytes, 0.15)
			g.gen += tag
			g.emit("readLS", hx(b))
			g.emitExact("readLS", c.tag, tag, b, nullRound)
		}
		// RouterInfo (only Ed25519 identities can verify)
		rid := g.pickIdentity(true)
		// forced rounds: an Ed25519 router whose options are NOT in key order on the wire (the signature covers
		// the bytes as they are), two addresses, with and without peers
		riForced := i < 3
		if riForced {
			rid = g.newIdentity(7, 4, false, nil)
		}
		rb := cat(rid.bytes, u64(r.next()>>uint(r.rng(1, 30))))
		na := r.pick(0, 1, 1, 2, 3)
		if riForced {
			rb = cat(rid.bytes, u64(uint64(g.ts())*1000))
			na = []int{2, 17, 255}[i] // incl. the first count above 16 and the last the size byte can hold
			if g.quick() && na == 255 {
				na = 33
			}
		}
		rb = append(rb, byte(na))
		for j := 0; j < na; j++ {
			rb = append(rb, g.encRouterAddress()...)
		}
		npeers := r.pick(0, 0, 0, 1, 255)
		if riForced {
			npeers = 0
		}
		rb = append(rb, byte(npeers))
		optAt := len(rb)
		opts := g.optionsBytes()
		if riForced {
			opts = encMapping([][2][]byte{{[]byte("netId"), []byte("2")}, {[]byte("caps"), []byte("XfR")}, {[]byte("a.b"), []byte("9")}}[:2+i%2])
		}
		rb = append(rb, opts...)
		for _, c := range g.adversary(nil, rb, rid.sg, nil) {
			g.gen = "ri-" + c.tag
			b, tag := g.maybeMutate(c.bytes, 0.15)
			g.gen += tag
			g.emit("readRI", hx(b))
			g.emitExact("readRI", c.tag, tag, b, riForced)
		}
		if riForced {
			// the two first option pairs exchanged after signing: same length, every byte still well-formed, but
			// these are not the bytes the router signed
			good := cat(rb, rid.sg.sign(rb))
			p1 := encPair([]byte("netId"), []byte("2"))
			p2 := encPair([]byte("caps"), []byte("XfR"))
			sw := cat(good[:optAt+2], p2, p1, good[optAt+2+len(p1)+len(p2):])
			g.gen = "ri-options-reordered-after-signing"
			g.emit("readRI", hx(sw))
		}
		g.valid = false
		if i < 2 || !g.quick() && i < 20 {
			// offline-keys fixtures: the values returned with an error have the flag set but no block yet
			oid := g.newIdentity(7, 4, false, nil)
			otr := g.newSigner(g.R.pick(7, 1, 2))
			ob, osg := g.encLS2Body(oid, otr, "")
			g.emitCuts("readLS2", cat(ob, osg.sign(cat([]byte{3}, ob))), "ls2-offline-cuts")
			omb := cat(oid.bytes, u32(g.ts()), u16(600), u16(1), g.encOffSig(oid.sg, otr, ""), []byte{0, 0, 3})
			for j := 0; j < 3; j++ {
				omb = cat(omb, r.bytes(32), []byte{3}, u32(g.ts()), []byte{1}, g.optionsBytes())
			}
			g.emitCuts("readMeta", cat(omb, otr.sign(cat([]byte{7}, omb))), "meta-offline-cuts")
			// every truncation point of one well-formed encoding per structure
			g.emitCuts("readRI", cat(rb, rid.sg.sign(rb)), "ri-cuts")
			g.emitCuts("readLS2", cat(body, make([]byte, 64)), "ls2-cuts")
			g.emitCuts("readMeta", cat(mb, make([]byte, 64)), "meta-cuts")
			g.emitCuts("readELS", cat(eb, make([]byte, 64)), "els-cuts")
			g.emitCuts("readLS", cat(lb, id.sg.sign(lb)), "ls-cuts")
		}
	}
}

// emitCuts emits truncations of a well-formed encoding: every cut point (thorough) or a spread that
// covers the head, every 1/24th of the length and the last 70 bytes (quick).
func (g *G) emitCuts(op string, b []byte, tag string) {
	g.gen = tag
	if !g.quick() {
		for k := 0; k < len(b); k++ {
			g.emit(op, hx(b[:k]))
		}
		return
	}
	seen := map[int]bool{}
	add := func(k int) {
		if k >= 0 && k < len(b) && !seen[k] {
			seen[k] = true
			g.emit(op, hx(b[:k]))
		}
	}
	for k := 0; k < 4; k++ {
		add(k)
	}
	for i := 1; i < 24; i++ {
		add(len(b) * i / 24)
	}
	for k := len(b) - 70; k < len(b); k++ {
		add(k)
	}
	// around the identity boundary and the hard-coded minimum sizes of the composite parsers
	for k := 380; k < 400; k++ {
		add(k)
	}
	for k := 490; k < 524; k++ {
		add(k)
	}
	for k := 100; k < 116; k++ {
		add(k)
	}
}

// emitExact: for an encoding the generator built as exactly one well-formed structure (a forced round whose every
// dimension is fixed to a permitted value, correctly signed, not mutated), the reader must accept it and leave no remainder — "consumes exactly the structure's own
// declared extent" with the extent known from the construction.
func (g *G) emitExact(op, caseTag, mutTag string, b []byte, builtValid bool) {
	if builtValid && caseTag == "signed" && mutTag == "" {
		g.emit("!exact", op, hx(b))
	}
}

func offTag(tr *signer, forge string) string {
	if tr == nil {
		return "none"
	}
	if forge == "" {
		return "genuine"
	}
	return "forged-" + forge
}

func (g *G) maybeMutate(b []byte, p float64) ([]byte, string) {
	if g.R.coin(p) {
		return g.mutate(b)
	}
	return b, ""
}

func (g *G) encRouterAddress() []byte {
	r := g.R
	exp := make([]byte, 8)
	if r.coin(0.1) {
		exp = r.bytes(8)
	}
	style := []byte(r.pickS("NTCP2", "SSU2", "", "x"))
	return cat([]byte{byte(r.intn(256))}, exp, []byte{byte(len(style))}, style, g.optionsBytes())
}

func genSmallStructs(g *G, count int) {
	r := g.R
	g.in("sig-all-types")
	for t := -1; t <= 13; t++ {
		n := 0
		if sp, ok := specSig[t]; ok {
			n = sp[1]
		}
		for _, d := range []int{-1, 0, 1, 5} {
			if n+d >= 0 {
				g.emit("readSig", hx(r.bytes(n+d)), itoa(t))
			}
		}
	}
	for _, t := range []int{255, 256, 65280, 65535, 65536, -65529} {
		g.emit("readSig", hx(r.bytes(70)), itoa(t))
	}
	g.in("offsig-grid")
	for _, dt := range []int{0, 1, 2, 3, 7, 8, 11, 9, 65535} {
		for _, tt := range []int{0, 1, 2, 3, 4, 7, 8, 11, 9, 65280} {
			kl := 0
			if sp, ok := specSig[tt]; ok {
				kl = sp[0]
			}
			sl := 0
			if sp, ok := specSig[dt]; ok {
				sl = sp[1]
			}
			b := cat(u32(uint32(r.next())|1), u16(tt), r.bytes(kl), r.bytes(sl))
			g.emit("readOffSig", hx(b), itoa(dt))
			if len(b) > 0 {
				g.emit("readOffSig", hx(b[:len(b)-1]), itoa(dt))
			}
			g.emit("readOffSig", hx(cat(b, r.bytes(3))), itoa(dt))
		}
	}
	for n := 0; n <= 8; n++ {
		g.emit("readOffSig", hx(r.bytes(n)), "7")
	}
	g.in("lease-lengths")
	for _, n := range []int{0, 1, 39, 40, 41, 43, 44, 45, 88} {
		g.emit("readLease", hx(r.bytes(n)))
		g.emit("readLease2", hx(r.bytes(n)))
	}
	for _, n := range []int{0, 7, 8, 9, 31, 32, 33, 40} {
		g.emit("!readSessionKey", hx(r.bytes(n)))
		g.emit("!readSessionTag", hx(r.bytes(n)))
	}
	g.in("routeraddress")
	for i := 0; i < count; i++ {
		b := g.encRouterAddress()
		g.gen = "routeraddress"
		b, tag := g.maybeMutate(b, 0.3)
		g.gen += tag
		g.emit("readRA", hx(b))
	}
	for n := 0; n <= 14; n++ {
		g.emit("readRA", hx(r.bytes(n)))
	}
	// every truncation point of addresses whose options hold EMPTY values and unusual-but-legal texts for the keys
	// the accessors interpret (the value returned with an error then has `caps` but no `host`, `host` but no `port` …)
	g.in("routeraddress-option-cuts")
	for _, opts := range [][][2][]byte{
		{{[]byte("caps"), []byte("")}, {[]byte("host"), []byte("192.0.2.1")}, {[]byte("port"), []byte("4567")}},
		{{[]byte("caps"), []byte("6")}, {[]byte("host"), []byte("")}, {[]byte("port"), []byte("")}},
		{{[]byte("host"), []byte("::ffff:192.0.2.7")}, {[]byte("i"), []byte("")}, {[]byte("s"), []byte("")}, {[]byte("v"), []byte("2")}},
	} {
		for _, style := range []string{"NTCP2", "SSU2", ""} {
			b := cat([]byte{5}, make([]byte, 8), cat([]byte{byte(len(style))}, []byte(style)), encMapping(opts))
			g.emit("readRA", hx(b))
			for k := 9; k < len(b); k++ {
				g.emit("readRA", hx(b[:k]))
			}
		}
	}
}

// genSteeredLengths: "length-field steering". A declared length inside a composite structure is set so that the
// region it announces ends exactly k bytes before the end of a buffer of a chosen total size (k = 0…12): the
// embedded identity's certificate length (offset 385) and the options size of LeaseSet2 / MetaLeaseSet /
// RouterInfo. This is where a size guard that looks at the wrong variable (whole input instead of remainder)
// stops protecting the fixed-width header reads that follow.
func genSteeredLengths(g *G) {
	r := g.R
	totals := []int{391, 395, 403, 475, 499, 505, 506, 600}
	if !g.quick() {
		totals = append(totals, 392, 399, 401, 411, 435, 467, 498, 500, 504, 507, 523, 1024, 4096)
	}
	g.in("steer-cert-length")
	for _, op := range []string{"readLS2", "readMeta", "readLS", "readRI", "readDest", "readRid", "readKac"} {
		for _, L := range totals {
			for k := 0; k <= 12; k++ {
				plen := L - 387 - k
				if plen < 4 {
					continue
				}
				id := g.newIdentity(7, r.pick(4, 0), false, nil)
				b := cat(id.bytes[:384], []byte{5}, u16(plen), id.bytes[387:391], r.bytes(plen-4), r.bytes(k))
				g.emit(op, hx(b))
			}
		}
	}
	g.in("steer-options-size")
	for _, L := range totals {
		for k := 0; k <= 12; k++ {
			id := g.newIdentity(7, 4, false, nil)
			if n := L - len(id.bytes) - 10 - k; n >= 0 {
				hdr := cat(id.bytes, u32(g.ts()), u16(600), u16(0), u16(n))
				g.emit("readLS2", hx(cat(hdr, r.bytes(n+k))))
				g.emit("readMeta", hx(cat(hdr, r.bytes(n+k))))
			}
			if n := L - len(id.bytes) - 12 - k; n >= 0 {
				g.emit("readRI", hx(cat(id.bytes, u64(uint64(g.ts())*1000), []byte{0, 0}, u16(n), r.bytes(n+k))))
			}
		}
	}
}

// genRIOptions: RouterInfos whose options carry the keys the query methods interpret (router.version, caps,
// netId): well-formed, boundary and malformed values, so that GoodVersion / RouterVersion / RouterCapabilities /
// UnCongested / Reachable / SharedBandwidthCategory run on real option text (C04, C18 and C20 call them).
func genRIOptions(g *G) {
	r := g.R
	versions := []string{"0.9.67", "0.9.58", "0.9.57", "0.9.99", "0.9.100", "0.9.0", "0.9", "0.9.67.1", "1.0.0", "0.8.99", "0.10.1",
		"0.9.x", "", "0.9.-1", "99999999999999999999.0.0", "0.9.99999999999999999999", "0.9.67-rc", " 0.9.67", "0.9.67\n", "0.\x009.67",
		"..", "...", "0..67", "a.b.c", "０.９.６７", "+0.+9.+67", "0x0.9.67"}
	caps := []string{"L", "XfR", "OfU", "D", "E", "G", "", "KLMNOPX", "PRU", "RD", "UE", "XG", strings.Repeat("R", 255), "r", "\x00"}
	g.in("ri-option-text")
	emit := func(pairs [][2][]byte) {
		id := g.newIdentity(7, r.pick(4, 0), false, nil)
		rb := cat(id.bytes, u64(uint64(g.ts())*1000), []byte{1}, g.encRouterAddress(), []byte{0}, encMapping(pairs))
		g.emit("readRI", hx(cat(rb, id.sg.sign(rb))))
	}
	for _, v := range versions {
		emit([][2][]byte{{[]byte("caps"), []byte(caps[r.intn(len(caps))])}, {[]byte("netId"), []byte("2")}, {[]byte("router.version"), []byte(v)}})
	}
	for _, c := range caps {
		emit([][2][]byte{{[]byte("caps"), []byte(c)}, {[]byte("router.version"), []byte(versions[r.intn(4)])}})
	}
	emit([][2][]byte{{[]byte("router.version"), []byte("0.9.67")}})
	emit([][2][]byte{{[]byte("caps"), []byte("XfR")}})
	emit(nil)
	for i := 0; i < g.n(40, 2000); i++ {
		v := versions[r.intn(len(versions))]
		if r.coin(0.5) {
			v = fmt.Sprintf("%d.%d.%d", r.pick(0, 0, 0, 1), r.pick(9, 9, 9, 8, 10), r.rng(0, 120))
		}
		emit([][2][]byte{{[]byte("caps"), []byte(caps[r.intn(len(caps))])}, {[]byte("netId"), []byte(itoa(r.rng(0, 3)))}, {[]byte("router.version"), []byte(v)}})
	}
}

func init() {
	suites["STRUCT"] = func(g *G) {
		genSmallStructs(g, g.n(300, 8000))
		genSignedStructs(g, g.n(100, 1500))
		genSteeredLengths(g)
		genRIOptions(g)
	}
}
