package main

import (
	"bytes"
	"fmt"
	"strings"
	"time"

	"github.com/go-i2p/common/certificate"
	"github.com/go-i2p/common/data"
	"github.com/go-i2p/common/key_certificate"
	"github.com/go-i2p/common/lease"
	"github.com/go-i2p/common/session_key"
	"github.com/go-i2p/common/session_tag"
	"github.com/go-i2p/common/signature"
)

// C19 twin slice: every op runs BOTH (all) separately written entry points of one twin family on the real
// library and prints one canonical line; lean/I2P/Driver/TwinOps.lean prints the same line from the model
// (lean/I2P/Twins.lean). The C19 oracles that compare the twins directly live in ops_data.go / ops_struct.go /
// ops_builder.go (`twin:*`); only pairs without an oracle there get one here.

// twP: `ok:<value hex>:<remainder length>` / `err`
func twP(v []byte, rem []byte, err error) string {
	if err != nil {
		return "err"
	}
	return fmt.Sprintf("ok:%s:%d", hx(v), len(rem))
}

// twB: `ok:<value hex>` / `err`
func twB(v []byte, err error) string {
	if err != nil {
		return "err"
	}
	return "ok:" + hx(v)
}

func twI(v int, err error) string {
	if err != nil {
		return "err"
	}
	return "ok:" + itoa(v)
}

func twCert(c *certificate.Certificate, err error) string {
	if err != nil || c == nil {
		return "err"
	}
	return "ok:" + hx(c.Bytes())
}

func init() {
	reg("twSig", func(a []string) (string, []Fail) {
		w, t := unhx(a[0]), atoi(a[1])
		s, rem, err := signature.ReadSignature(w, t)
		r := twP(s.Bytes(), rem, err)
		var n string
		if s2, rem2, err2 := signature.NewSignature(w, t); err2 != nil || s2 == nil {
			n = "err"
		} else {
			n = twP(s2.Bytes(), rem2, nil)
		}
		s3, err3 := signature.NewSignatureFromBytes(w, t)
		return fmt.Sprintf("R=%s N=%s F=%s", r, n, twB(s3.Bytes(), err3)), nil
	})
	reg("twStrNew", func(a []string) (string, []Fail) {
		c := string(unhx(a[0]))
		s1, err1 := data.ToI2PString(c)
		s2, err2 := data.NewI2PString(c)
		return fmt.Sprintf("To=%s New=%s", twB(s1, err1), twB(s2, err2)), nil
	})
	reg("twStrRead", func(a []string) (string, []Fail) {
		w := unhx(a[0])
		s, rem, err := data.ReadI2PString(w)
		s2, err2 := data.NewI2PStringFromBytes(w)
		var fails []Fail
		// twin: NewI2PStringFromBytes takes exactly one string; ReadI2PString also takes a longer buffer and
		// returns the rest. On the inputs both are specified for (no bytes after the string) they must agree.
		exact := err == nil && len(rem) == 0
		if exact != (err2 == nil) {
			fails = append(fails, fail("C19", "twin:ReadI2PString/NewI2PStringFromBytes", "on %s: ReadI2PString err=%v rem=%d, NewI2PStringFromBytes err=%v", trunc(a[0], 60), err, len(rem), err2))
		} else if err2 == nil && !bytes.Equal(s, s2) {
			fails = append(fails, fail("C19", "twin:ReadI2PString/NewI2PStringFromBytes", "values differ on %s", trunc(a[0], 60)))
		}
		return fmt.Sprintf("Read=%s:%d:%s From=%s", hx(s), len(rem), strErrTag(err), twB(s2, err2)), fails
	})
	reg("twIntEnc", func(a []string) (string, []Fail) {
		v, n := atoi(a[0]), atoi(a[1])
		var nw string
		if i, err := data.NewIntegerFromInt(v, n); err != nil || i == nil {
			nw = "err"
		} else {
			nw = twB(*i, nil)
		}
		e, err2 := data.EncodeIntN(v, n)
		u := "n/a"
		switch n {
		case 2:
			x := data.EncodeUint16(uint16(v))
			u = hx(x[:])
		case 4:
			x := data.EncodeUint32(uint32(v))
			u = hx(x[:])
		case 8:
			x := data.EncodeUint64(uint64(v))
			u = hx(x[:])
		}
		return fmt.Sprintf("New=%s EncN=%s EncU=%s", nw, twB(e, err2), u), nil
	})
	reg("twIntDec", func(a []string) (string, []Fail) {
		w := unhx(a[0])
		v, err := data.DecodeIntN(w)
		v2, err2 := data.Integer(w).IntSafe()
		return fmt.Sprintf("Dec=%s Safe=%s", twI(v, err), twI(v2, err2)), nil
	})
	reg("twDateRead", func(a []string) (string, []Fail) {
		w := unhx(a[0])
		d, rem, err := data.ReadDate(w)
		r := twP(d[:], rem, err)
		n := "err"
		if d2, rem2, err2 := data.NewDate(w); err2 == nil && d2 != nil {
			n = twP(d2[:], rem2, nil)
		}
		return fmt.Sprintf("R=%s N=%s", r, n), nil
	})
	reg("twDateNew", func(a []string) (string, []Fail) {
		x := int64(atoi(a[0]))
		pd := func(d *data.Date, err error) string {
			if err != nil || d == nil {
				return "err"
			}
			return "ok:" + hx(d[:])
		}
		ft, _ := data.DateFromTime(time.UnixMilli(x))
		return fmt.Sprintf("Unix=%s Ms=%s MsOfUnix=%s FromTime=%s", pd(data.NewDateFromUnix(x)), pd(data.NewDateFromMillis(x)),
			pd(data.NewDateFromMillis(x*1000)), hx(ft[:])), nil
	})
	reg("twHash", func(a []string) (string, []Fail) {
		w := unhx(a[0])
		h, rem, err := data.ReadHash(w)
		h2, err2 := data.NewHashFromSlice(w)
		return fmt.Sprintf("R=%s S=%s", twP(h[:], rem, err), twB(h2[:], err2)), nil
	})
	reg("twMap", func(a []string) (string, []Fail) {
		w := unhx(a[0])
		show := func(m data.Mapping, rem []byte, errs []error) string {
			d := "nil"
			if m.Data() != nil {
				d = hx(m.Data())
			}
			return fmt.Sprintf("errs=[%s] rem=%d vals=%s data=%s", strings.Join(mapErrTagsOf(errs), ","), len(rem), pairsHex(m.Values()), d)
		}
		m, rem, errs := data.ReadMapping(w)
		m2, rem2, errs2 := data.NewMapping(w)
		return "R={" + show(m, rem, errs) + "} N={" + show(*m2, rem2, errs2) + "}", nil
	})
	reg("twLease", func(a []string) (string, []Fail) {
		w := unhx(a[0])
		l, rem, err := lease.ReadLease(w)
		nl := "err"
		if p, prem, perr := lease.NewLeaseFromBytes(w); perr == nil && p != nil {
			nl = twP(p.Bytes(), prem, nil)
		}
		l2, rem2, err2 := lease.ReadLease2(w)
		nl2 := "err"
		if p, prem, perr := lease.NewLease2FromBytes(w); perr == nil && p != nil {
			nl2 = twP(p.Bytes(), prem, nil)
		}
		return fmt.Sprintf("L=%s NL=%s L2=%s NL2=%s", twP(l.Bytes(), rem, err), nl, twP(l2.Bytes(), rem2, err2), nl2), nil
	})
	reg("twSess", func(a []string) (string, []Fail) {
		w := unhx(a[0])
		var fails []Fail
		k, krem, kerr := session_key.ReadSessionKey(w)
		nk := "err"
		if p, prem, perr := session_key.NewSessionKey(w); perr == nil && p != nil {
			nk = twP(p.Bytes(), prem, nil)
		}
		t, trem, terr := session_tag.ReadSessionTag(w)
		nt := "err"
		if p, prem, perr := session_tag.NewSessionTag(w); perr == nil && p != nil {
			nt = twP(p.Bytes(), prem, nil)
		}
		tb, tberr := session_tag.NewSessionTagFromBytes(w)
		e, erem, eerr := session_tag.ReadECIESSessionTag(w)
		ne := "err"
		if p, prem, perr := session_tag.NewECIESSessionTag(w); perr == nil && p != nil {
			ne = twP(p.Bytes(), prem, nil)
		}
		eb, eberr := session_tag.NewECIESSessionTagFromBytes(w)
		// twin: the exact-length constructor and the stream reader agree where both are specified
		if (eerr == nil && len(erem) == 0) != (eberr == nil) || (eberr == nil && !bytes.Equal(e.Bytes(), eb.Bytes())) {
			fails = append(fails, fail("C19", "twin:ReadECIESSessionTag/NewECIESSessionTagFromBytes", "differ on %d bytes", len(w)))
		}
		return fmt.Sprintf("K=%s NK=%s T=%s NT=%s TB=%s E=%s NE=%s EB=%s", twP(k.Bytes(), krem, kerr), nk, twP(t.Bytes(), trem, terr), nt,
			twB(tb.Bytes(), tberr), twP(e.Bytes(), erem, eerr), ne, twB(eb.Bytes(), eberr)), fails
	})
	// twBuilder <steps>: same step syntax as !certBuilder (t<type> | p<hex> | k<sig>:<crypto>, comma-separated, `-` = none).
	// B = the builder; D = the direct constructors for the configuration the accepted calls describe
	// (the comparison itself is the oracle of !certBuilder, not repeated here).
	reg("twBuilder", func(a []string) (string, []Fail) {
		cb := certificate.NewCertificateBuilder()
		typ := 0
		var payload []byte
		payloadSet := false
		var kt *[2]int
		if a[0] != "-" {
			for _, st := range strings.Split(a[0], ",") {
				switch st[0] {
				case 't':
					t := atoi(st[1:])
					if _, err := cb.WithType(uint8(t)); err == nil {
						typ = int(uint8(t))
					}
				case 'p':
					payload = unhx(st[1:])
					payloadSet = true
					cb.WithPayload(payload)
				case 'k':
					p := strings.Split(st[1:], ":")
					s, c := atoi(p[0]), atoi(p[1])
					if _, err := cb.WithKeyTypes(s, c); err == nil {
						typ = 5
						kt = &[2]int{s, c}
						payloadSet = false
					}
				}
			}
		}
		got, gerr := cb.Build()
		var want *certificate.Certificate
		var werr error
		switch {
		case payloadSet:
			want, werr = certificate.NewCertificateWithType(uint8(typ), payload)
		case kt != nil:
			var pl []byte
			pl, werr = certificate.BuildKeyTypePayload(kt[0], kt[1])
			if werr == nil {
				want, werr = certificate.NewCertificateWithType(uint8(typ), pl)
			}
		case typ == 5:
			werr = fmt.Errorf("KEY certificate without key types or payload")
		default:
			want, werr = certificate.NewCertificateWithType(uint8(typ), []byte{})
		}
		return fmt.Sprintf("B=%s D=%s", twCert(got, gerr), twCert(want, werr)), nil
	})
	// twKeyCert <sig> <crypto>: K = key_certificate.NewKeyCertificateWithTypes, B = builder.WithKeyTypes(...).Build(),
	// P = certificate.BuildKeyTypePayload.
	reg("twKeyCert", func(a []string) (string, []Fail) {
		s, c := atoi(a[0]), atoi(a[1])
		var fails []Fail
		k := "err"
		kc, kerr := key_certificate.NewKeyCertificateWithTypes(s, c)
		if kerr == nil && kc != nil {
			k = fmt.Sprintf("ok:%s:%d:%d", hx(kc.Bytes()), kc.SigningPublicKeyType(), kc.PublicKeyType())
		}
		b := "err"
		var bc *certificate.Certificate
		var berr error
		cb := certificate.NewCertificateBuilder()
		_, wkerr := cb.WithKeyTypes(s, c)
		berr = wkerr
		if wkerr == nil {
			bc, berr = cb.Build()
			b = twCert(bc, berr)
		}
		pl, perr := certificate.BuildKeyTypePayload(s, c)
		// twin: within the key types NewKeyCertificateWithTypes states (the implemented and experimental codes)
		// the builder must accept too and produce the same serialisation.
		if kerr == nil && (berr != nil || bc == nil || !bytes.Equal(kc.Bytes(), bc.Bytes())) {
			fails = append(fails, fail("C19", "twin:NewKeyCertificateWithTypes/WithKeyTypes", "types (%d,%d): constructor %s, builder %s", s, c, k, b))
		}
		// twin: WithKeyTypes and BuildKeyTypePayload state the same domain (0..65535 each)
		if (wkerr == nil) != (perr == nil) {
			fails = append(fails, fail("C19", "twin:WithKeyTypes/BuildKeyTypePayload", "types (%d,%d): WithKeyTypes err=%v, BuildKeyTypePayload err=%v", s, c, wkerr, perr))
		}
		return fmt.Sprintf("K=%s B=%s P=%s", k, b, twB(pl, perr)), fails
	})
}
