package main

import (
	"fmt"
	"reflect"
	"sort"
	"strconv"
	"strings"

	"github.com/go-i2p/common/certificate"
	"github.com/go-i2p/common/data"
	"github.com/go-i2p/common/destination"
	"github.com/go-i2p/common/encrypted_leaseset"
	"github.com/go-i2p/common/key_certificate"
	"github.com/go-i2p/common/keys_and_cert"
	"github.com/go-i2p/common/lease"
	"github.com/go-i2p/common/lease_set"
	"github.com/go-i2p/common/lease_set2"
	"github.com/go-i2p/common/meta_leaseset"
	"github.com/go-i2p/common/offline_signature"
	"github.com/go-i2p/common/router_address"
	"github.com/go-i2p/common/router_identity"
	"github.com/go-i2p/common/router_info"
	"github.com/go-i2p/common/session_key"
	"github.com/go-i2p/common/session_tag"
	"github.com/go-i2p/common/signature"
)

// C20, failed-parse half: WHICH value does a reader hand out together with an error?
//
// shapeOf is a canonical dump of the nil-structure of a value (unexported fields included):
//
//	nil pointer / slice / map / interface / func / chan   nil
//	pointer                                                &<shape>
//	interface                                              i<shape of the dynamic value>
//	struct                                                 {f1,f2,…}   (declaration order)
//	[]byte                                                 b<len>
//	[N]byte                                                a<N>
//	slice of structs or of pointers                        [e1,e2,…]   (every element)
//	any other slice                                        [<len>]
//	any other array                                        A<N>
//	map                                                    m<len>
//	bool, integers, floats, strings                        _
//
// It is a deterministic function of the value and separates nil from empty. The line printed by
// `failShape` is `ok` when the reader reports no error, and otherwise `err z <shape>` when the value
// is the zero value of its type (reflect's IsZero: every scalar 0, every array all-zero, every
// pointer/slice/interface nil — so `z` means "indistinguishable from the zero value the exhaustive
// C20 sweep already called every method on") and `err p <shape>` when something is populated.
func shapeOf(v reflect.Value, depth int) string {
	if !v.IsValid() {
		return "nil"
	}
	if depth > 24 {
		return "..."
	}
	switch v.Kind() {
	case reflect.Ptr:
		if v.IsNil() {
			return "nil"
		}
		return "&" + shapeOf(v.Elem(), depth+1)
	case reflect.Interface:
		if v.IsNil() {
			return "nil"
		}
		return "i" + shapeOf(v.Elem(), depth+1)
	case reflect.Struct:
		parts := make([]string, v.NumField())
		for i := range parts {
			parts[i] = shapeOf(v.Field(i), depth+1)
		}
		return "{" + strings.Join(parts, ",") + "}"
	case reflect.Slice:
		if v.IsNil() {
			return "nil"
		}
		ek := v.Type().Elem().Kind()
		if ek == reflect.Uint8 {
			return "b" + strconv.Itoa(v.Len())
		}
		if ek == reflect.Struct || ek == reflect.Ptr {
			parts := make([]string, v.Len())
			for i := range parts {
				parts[i] = shapeOf(v.Index(i), depth+1)
			}
			return "[" + strings.Join(parts, ",") + "]"
		}
		return "[" + strconv.Itoa(v.Len()) + "]"
	case reflect.Array:
		if v.Type().Elem().Kind() == reflect.Uint8 {
			return "a" + strconv.Itoa(v.Len())
		}
		return "A" + strconv.Itoa(v.Len())
	case reflect.Map:
		if v.IsNil() {
			return "nil"
		}
		return "m" + strconv.Itoa(v.Len())
	case reflect.Func, reflect.Chan, reflect.UnsafePointer:
		if v.IsNil() {
			return "nil"
		}
		return "f"
	}
	return "_"
}

// shapeClass erases what a class does not fix: every byte-string length and every plain-slice length
// becomes `*`, the dynamic value under an interface becomes `*` (the key types differ, not the
// nil-structure), and an element list keeps one copy of each distinct element class (first occurrence
// order). Array lengths stay: they are part of the type.
func shapeClass(s string) string {
	var out strings.Builder
	i := 0
	var list func() string // parses one shape starting at i, returns its class
	list = func() string {
		if i >= len(s) {
			return ""
		}
		switch s[i] {
		case '&':
			i++
			return "&" + list()
		case 'i':
			i++
			list()
			return "i*"
		case '{':
			i++
			var parts []string
			for i < len(s) && s[i] != '}' {
				parts = append(parts, list())
				if i < len(s) && s[i] == ',' {
					i++
				}
			}
			i++
			return "{" + strings.Join(parts, ",") + "}"
		case '[':
			i++
			if i < len(s) && s[i] >= '0' && s[i] <= '9' {
				for i < len(s) && s[i] != ']' {
					i++
				}
				i++
				return "[*]"
			}
			var parts []string
			seen := map[string]bool{}
			for i < len(s) && s[i] != ']' {
				p := list()
				if !seen[p] {
					seen[p] = true
					parts = append(parts, p)
				}
				if i < len(s) && s[i] == ',' {
					i++
				}
			}
			i++
			return "[" + strings.Join(parts, ",") + "]"
		case 'b':
			i++
			for i < len(s) && s[i] >= '0' && s[i] <= '9' {
				i++
			}
			return "b*"
		case 'a', 'A', 'm':
			j := i + 1
			for j < len(s) && s[j] >= '0' && s[j] <= '9' {
				j++
			}
			r := s[i:j]
			i = j
			return r
		case 'n':
			i += 3
			return "nil"
		case '.':
			i += 3
			return "..."
		}
		i++
		return s[i-1 : i]
	}
	out.WriteString(list())
	return out.String()
}

// shapeCode turns a shape class into a token list that a proof can compare without touching strings:
// nil 0 · &s 1,s · i* 2 · b* 3 · a<N> 4,N · [*] 5 · _ 6 · {f1..fk} 7,k,f1..fk · [e1..ek] 8,k,e1..ek; 9 = anything else.
func shapeCode(cls string) []int {
	i := 0
	var one func() []int
	many := func(close byte) []int {
		var parts [][]int
		for i < len(cls) && cls[i] != close {
			parts = append(parts, one())
			if i < len(cls) && cls[i] == ',' {
				i++
			}
		}
		i++
		out := []int{len(parts)}
		for _, p := range parts {
			out = append(out, p...)
		}
		return out
	}
	one = func() []int {
		if i >= len(cls) {
			return []int{9}
		}
		switch cls[i] {
		case 'n':
			i += 3
			return []int{0}
		case '&':
			i++
			return append([]int{1}, one()...)
		case 'i':
			i += 2
			return []int{2}
		case 'b':
			i += 2
			return []int{3}
		case 'a':
			j := i + 1
			for j < len(cls) && cls[j] >= '0' && cls[j] <= '9' {
				j++
			}
			n, _ := strconv.Atoi(cls[i+1 : j])
			i = j
			return []int{4, n}
		case '_':
			i++
			return []int{6}
		case '{':
			i++
			return append([]int{7}, many('}')...)
		case '[':
			if strings.HasPrefix(cls[i:], "[*]") {
				i += 3
				return []int{5}
			}
			i++
			return append([]int{8}, many(']')...)
		}
		i++
		return []int{9}
	}
	return one()
}

// failReader runs one real reader: the returned value (as handed out, pointer or value), whether an
// error was reported, and the short type name used in oracle signatures.
type failReader struct {
	typ  string
	args int // 1 = hex only, 2 = hex + integer type code
	run  func(w []byte, t int) (interface{}, bool)
}

func errsOf(es []error) bool { return len(es) > 0 }

var failReaders = map[string]failReader{
	// --- readers that return the zero value / a nil pointer on every error path
	"ReadCertificate": {"Certificate", 1, func(w []byte, _ int) (interface{}, bool) {
		v, _, err := certificate.ReadCertificate(w)
		return v, err != nil
	}},
	"NewKeyCertificate": {"KeyCertificate", 1, func(w []byte, _ int) (interface{}, bool) {
		v, _, err := key_certificate.NewKeyCertificate(w)
		return v, err != nil
	}},
	"ReadKeysAndCert": {"KeysAndCert", 1, func(w []byte, _ int) (interface{}, bool) {
		v, _, err := keys_and_cert.ReadKeysAndCert(w)
		return v, err != nil
	}},
	"ReadDestination": {"Destination", 1, func(w []byte, _ int) (interface{}, bool) {
		v, _, err := destination.ReadDestination(w)
		return v, err != nil
	}},
	"NewDestinationFromBytes": {"Destination", 1, func(w []byte, _ int) (interface{}, bool) {
		v, _, err := destination.NewDestinationFromBytes(w)
		return v, err != nil
	}},
	"ReadRouterIdentity": {"RouterIdentity", 1, func(w []byte, _ int) (interface{}, bool) {
		v, _, err := router_identity.ReadRouterIdentity(w)
		return v, err != nil
	}},
	"NewRouterIdentityFromBytes": {"RouterIdentity", 1, func(w []byte, _ int) (interface{}, bool) {
		v, _, err := router_identity.NewRouterIdentityFromBytes(w)
		return v, err != nil
	}},
	"ReadSignature": {"Signature", 2, func(w []byte, t int) (interface{}, bool) {
		v, _, err := signature.ReadSignature(w, t)
		return v, err != nil
	}},
	"NewSignature": {"Signature", 2, func(w []byte, t int) (interface{}, bool) {
		v, _, err := signature.NewSignature(w, t)
		return v, err != nil
	}},
	"NewSignatureFromBytes": {"Signature", 2, func(w []byte, t int) (interface{}, bool) {
		v, err := signature.NewSignatureFromBytes(w, t)
		return v, err != nil
	}},
	"ReadLease": {"Lease", 1, func(w []byte, _ int) (interface{}, bool) {
		v, _, err := lease.ReadLease(w)
		return v, err != nil
	}},
	"NewLeaseFromBytes": {"Lease", 1, func(w []byte, _ int) (interface{}, bool) {
		v, _, err := lease.NewLeaseFromBytes(w)
		return v, err != nil
	}},
	"ReadLease2": {"Lease2", 1, func(w []byte, _ int) (interface{}, bool) {
		v, _, err := lease.ReadLease2(w)
		return v, err != nil
	}},
	"NewLease2FromBytes": {"Lease2", 1, func(w []byte, _ int) (interface{}, bool) {
		v, _, err := lease.NewLease2FromBytes(w)
		return v, err != nil
	}},
	"ReadSessionKey": {"SessionKey", 1, func(w []byte, _ int) (interface{}, bool) {
		v, _, err := session_key.ReadSessionKey(w)
		return v, err != nil
	}},
	"NewSessionKey": {"SessionKey", 1, func(w []byte, _ int) (interface{}, bool) {
		v, _, err := session_key.NewSessionKey(w)
		return v, err != nil
	}},
	"ReadSessionTag": {"SessionTag", 1, func(w []byte, _ int) (interface{}, bool) {
		v, _, err := session_tag.ReadSessionTag(w)
		return v, err != nil
	}},
	"NewSessionTag": {"SessionTag", 1, func(w []byte, _ int) (interface{}, bool) {
		v, _, err := session_tag.NewSessionTag(w)
		return v, err != nil
	}},
	"NewSessionTagFromBytes": {"SessionTag", 1, func(w []byte, _ int) (interface{}, bool) {
		v, err := session_tag.NewSessionTagFromBytes(w)
		return v, err != nil
	}},
	"ReadECIESSessionTag": {"ECIESSessionTag", 1, func(w []byte, _ int) (interface{}, bool) {
		v, _, err := session_tag.ReadECIESSessionTag(w)
		return v, err != nil
	}},
	"NewECIESSessionTag": {"ECIESSessionTag", 1, func(w []byte, _ int) (interface{}, bool) {
		v, _, err := session_tag.NewECIESSessionTag(w)
		return v, err != nil
	}},
	"NewECIESSessionTagFromBytes": {"ECIESSessionTag", 1, func(w []byte, _ int) (interface{}, bool) {
		v, err := session_tag.NewECIESSessionTagFromBytes(w)
		return v, err != nil
	}},
	"ReadDate": {"Date", 1, func(w []byte, _ int) (interface{}, bool) {
		v, _, err := data.ReadDate(w)
		return v, err != nil
	}},
	"NewDate": {"Date", 1, func(w []byte, _ int) (interface{}, bool) {
		v, _, err := data.NewDate(w)
		return v, err != nil
	}},
	"ReadHash": {"Hash", 1, func(w []byte, _ int) (interface{}, bool) {
		v, _, err := data.ReadHash(w)
		return v, err != nil
	}},
	"NewHashFromSlice": {"Hash", 1, func(w []byte, _ int) (interface{}, bool) {
		v, err := data.NewHashFromSlice(w)
		return v, err != nil
	}},
	"NewIntegerFromBytes": {"Integer", 1, func(w []byte, _ int) (interface{}, bool) {
		v, err := data.NewIntegerFromBytes(w)
		return v, err != nil
	}},
	"NewI2PStringFromBytes": {"I2PString", 1, func(w []byte, _ int) (interface{}, bool) {
		v, err := data.NewI2PStringFromBytes(w)
		return v, err != nil
	}},
	"ReadLeaseSet": {"LeaseSet", 1, func(w []byte, _ int) (interface{}, bool) {
		v, err := lease_set.ReadLeaseSet(w)
		return v, err != nil
	}},
	"ReadDestinationFromLeaseSet": {"Destination", 1, func(w []byte, _ int) (interface{}, bool) {
		v, _, err := lease_set.ReadDestinationFromLeaseSet(w)
		return v, err != nil
	}},
	// --- readers that hand out partially populated values
	"ReadI2PString": {"I2PString", 1, func(w []byte, _ int) (interface{}, bool) {
		v, _, err := data.ReadI2PString(w)
		return v, err != nil
	}},
	"ReadMapping": {"Mapping", 1, func(w []byte, _ int) (interface{}, bool) {
		v, _, errs := data.ReadMapping(w)
		return v, errsOf(errs)
	}},
	"NewMapping": {"Mapping", 1, func(w []byte, _ int) (interface{}, bool) {
		v, _, errs := data.NewMapping(w)
		return v, errsOf(errs)
	}},
	"ReadOfflineSignature": {"OfflineSignature", 2, func(w []byte, t int) (interface{}, bool) {
		v, _, err := offline_signature.ReadOfflineSignature(w, uint16(t))
		return v, err != nil
	}},
	"ReadKeysAndCertElgAndEd25519": {"KeysAndCert", 1, func(w []byte, _ int) (interface{}, bool) {
		v, _, err := keys_and_cert.ReadKeysAndCertElgAndEd25519(w)
		return v, err != nil
	}},
	"ReadKeysAndCertX25519AndEd25519": {"KeysAndCert", 1, func(w []byte, _ int) (interface{}, bool) {
		v, _, err := keys_and_cert.ReadKeysAndCertX25519AndEd25519(w)
		return v, err != nil
	}},
	"ReadRouterAddress": {"RouterAddress", 1, func(w []byte, _ int) (interface{}, bool) {
		v, _, err := router_address.ReadRouterAddress(w)
		return v, err != nil
	}},
	"ReadEncryptedLeaseSet": {"EncryptedLeaseSet", 1, func(w []byte, _ int) (interface{}, bool) {
		v, _, err := encrypted_leaseset.ReadEncryptedLeaseSet(w)
		return v, err != nil
	}},
	"ReadLeaseSet2": {"LeaseSet2", 1, func(w []byte, _ int) (interface{}, bool) {
		v, _, err := lease_set2.ReadLeaseSet2(w)
		return v, err != nil
	}},
	"ReadMetaLeaseSet": {"MetaLeaseSet", 1, func(w []byte, _ int) (interface{}, bool) {
		v, _, err := meta_leaseset.ReadMetaLeaseSet(w)
		return v, err != nil
	}},
	"ReadRouterInfo": {"RouterInfo", 1, func(w []byte, _ int) (interface{}, bool) {
		v, _, err := router_info.ReadRouterInfo(w)
		return v, err != nil
	}},
}

func failReaderNames() []string {
	var ns []string
	for n := range failReaders {
		ns = append(ns, n)
	}
	sort.Strings(ns)
	return ns
}

// addressable returns a pointer through which every method of the returned value can be called
// (value and pointer receivers), or nil when the reader handed out a nil pointer.
func addressable(v interface{}) interface{} {
	rv := reflect.ValueOf(v)
	if !rv.IsValid() {
		return nil
	}
	if rv.Kind() == reflect.Ptr {
		if rv.IsNil() {
			return nil
		}
		return v
	}
	p := reflect.New(rv.Type())
	p.Elem().Set(rv)
	return p.Interface()
}

// failedParseObservation: the canonical line, the shape, and the C20 oracle on the returned value:
// no exported argument-free method panics, and verification never reports success.
func failedParseObservation(name string, w []byte, t int) (line, shape string, zero bool, fails []Fail) {
	fr := failReaders[name]
	v, failed := fr.run(w, t)
	if !failed {
		return "ok", "", false, nil
	}
	rv := reflect.ValueOf(v)
	shape = shapeOf(rv, 0)
	zero = !rv.IsValid() || rv.IsZero()
	z := "p"
	if zero {
		z = "z"
	}
	if p := addressable(v); p != nil {
		fails = append(fails, methodFails("C20", fr.typ, p)...)
		// a fresh value for the verification call: methods called above may have cached state
		v2, _ := fr.run(w, t)
		if p2 := addressable(v2); p2 != nil {
			if has, success := verifySucceeds(p2); has && success {
				fails = append(fails, fail("C20", "verify-on-failed-parse:"+fr.typ, "%s: verification of the value returned with an error reports success", name))
			}
		}
	}
	return "err " + z + " " + shape, shape, zero, fails
}

func init() {
	reg("failShape", func(a []string) (string, []Fail) {
		fr, ok := failReaders[a[0]]
		if !ok {
			return "no-such-reader", []Fail{fail("HARNESS", "failshape-unknown-reader", "no reader %s", a[0])}
		}
		t := 0
		if fr.args == 2 {
			t = atoi(a[2])
		}
		line, shape, _, fails := failedParseObservation(a[0], unhx(a[1]), t)
		if shape != "" {
			count(fmt.Sprintf("failshape:%s:%s", a[0], shapeClass(shape)))
		}
		return line, fails
	})
}
