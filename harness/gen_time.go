package main

import (
	"fmt"
	"strconv"
	"strings"
)

func u(v uint64) string  { return strconv.FormatUint(v, 10) }
func i64(v int64) string { return strconv.FormatInt(v, 10) }

// 32-bit second values every accessor is driven with exhaustively (crossed with offsetBoundary)
var secBoundary = []uint64{0, 1, 1<<31 - 1, 1 << 31, 1<<32 - 1}
var secNear = []uint64{2, 65535, 65536, 1<<31 - 2, 1<<31 + 1, 1<<32 - 65536, 1<<32 - 65535, 1<<32 - 2,
	1700000000, 1800000000, 2147483647 - 65535, 4102444800 /* year 2100 */}
var offsetBoundary = []uint64{0, 1, 65535}
var offsetNear = []uint64{2, 255, 256, 600, 660, 32767, 32768, 65534}

func (g *G) randU32() uint64 {
	r := g.R
	switch r.intn(4) {
	case 0:
		return r.next() >> 32
	case 1: // around a power of two
		k := uint(r.rng(1, 32))
		return (uint64(1)<<k + uint64(r.rng(-3, 3))) & 0xffffffff
	case 2:
		return uint64(1<<32-1) - uint64(r.intn(70000))
	}
	return 1600000000 + uint64(r.intn(600000000))
}

func (g *G) randU16() uint64 {
	r := g.R
	if r.coin(0.3) {
		return uint64(r.pick(0, 1, 2, 599, 600, 660, 32767, 32768, 65534, 65535))
	}
	return r.next() & 0xffff
}

func genHeaderExpiry(g *G) {
	for _, op := range []string{"ls2Expiry", "elsExpiry", "metaExpiry"} {
		g.in(op + "-boundary")
		for _, p := range secBoundary {
			for _, e := range offsetBoundary {
				g.emit(op, u(p), u(e))
			}
		}
		g.in(op + "-near")
		for _, p := range append(append([]uint64{}, secBoundary...), secNear...) {
			for _, e := range append(append([]uint64{}, offsetBoundary...), offsetNear...) {
				g.emit(op, u(p), u(e))
			}
		}
		g.in(op + "-random")
		for i := 0; i < g.n(400, 40000); i++ {
			g.emit(op, u(g.randU32()), u(g.randU16()))
		}
	}
}

func genSeconds32(g *G) {
	for _, op := range []string{"metaEntry", "offsigExpires", "lease2Read"} {
		g.in(op + "-boundary")
		for _, p := range append(append([]uint64{}, secBoundary...), secNear...) {
			g.emit(op, u(p))
		}
		g.in(op + "-random")
		for i := 0; i < g.n(400, 40000); i++ {
			g.emit(op, u(g.randU32()))
		}
	}
}

var int64Boundary = []int64{-1 << 63, -1<<63 + 1, -1 << 62, -1 << 32, -1<<31 - 1, -1 << 31, -2, -1, 0, 1, 2, 1<<31 - 1, 1 << 31, 1<<32 - 2, 1<<32 - 1,
	1 << 32, 1<<32 + 1, 1 << 33, 1<<62 - 1, 1 << 62, 1<<63 - 2, 1<<63 - 1}

func genLease2New(g *G) {
	r := g.R
	g.in("lease2New-boundary")
	for _, s := range int64Boundary {
		g.emit("lease2New", i64(s), "0")
	}
	// nanoseconds are normalised into the second count before the range check
	for _, s := range []int64{-1, 0, 1, 1<<31 - 1, 1 << 31, 1<<32 - 2, 1<<32 - 1, 1 << 32} {
		for _, n := range []int64{1, 999999999, 1000000000, 1000000001, -1, -999999999, -1000000000, -1000000001, 1<<62 - 1} {
			g.emit("lease2New", i64(s), i64(n))
		}
	}
	g.in("lease2New-random")
	for i := 0; i < g.n(400, 40000); i++ {
		var s int64
		switch r.intn(4) {
		case 0:
			s = int64(g.randU32())
		case 1:
			s = int64(r.next()) >> uint(r.intn(40)) // any magnitude, either sign
		case 2:
			s = int64(1<<32) + int64(r.rng(-5, 5))
		default:
			s = int64(r.rng(-5, 5))
		}
		n := int64(0)
		if r.coin(0.5) && s > -(1<<62) && s < 1<<62 {
			n = int64(r.rng(-2000000000, 2000000000))
		}
		g.emit("lease2New", i64(s), i64(n))
	}
}

// millisecond dates the lease ops are driven with
var msBoundary = []uint64{0, 1, 999, 1000, 1001, (1 << 31) * 1000, (1<<31)*1000 - 1, (1 << 32) * 1000, (1<<32)*1000 - 1, 1 << 53, 1<<53 + 1,
	1<<63 - 1, 1<<63 - 1000, 9223372036854775, 9223372036854776, 1 << 62}
var msOutside = []uint64{1 << 63, 1<<63 + 1, 1<<64 - 1, 1<<64 - 1000}

func (g *G) randMs() uint64 {
	r := g.R
	switch r.intn(5) {
	case 0:
		return r.next() >> 1 // anywhere below 2^63
	case 1:
		return r.next() >> uint(r.rng(1, 63))
	case 2:
		return (1600000000+uint64(r.intn(600000000)))*1000 + uint64(r.intn(1000))
	case 3:
		return msBoundary[r.intn(len(msBoundary))]
	}
	k := uint(r.rng(1, 62))
	return uint64(1)<<k + uint64(r.rng(-2, 2))
}

func genLease(g *G) {
	r := g.R
	g.in("leaseRead-boundary")
	for _, d := range append(append([]uint64{}, msBoundary...), msOutside...) {
		g.emit("leaseRead", u(d))
	}
	g.in("leaseRead-random")
	for i := 0; i < g.n(400, 40000); i++ {
		d := g.randMs()
		if r.coin(0.05) {
			d |= 1 << 63 // outside the property's range; correspondence only
		}
		g.emit("leaseRead", u(d))
	}
	g.in("leaseNew-boundary")
	for _, d := range msBoundary {
		g.emit("leaseNew", i64(int64(d/1000)), i64(int64(d%1000)*1000000))
	}
	for _, s := range []int64{0, 1, 1<<31 - 1, 1 << 31, 1<<32 - 1, 1 << 32, 9223372036854775} {
		for _, n := range []int64{0, 1, 999999, 1000000, 999999999, 1000000000, 1500000000} {
			g.emit("leaseNew", i64(s), i64(n))
		}
	}
	// negative times (outside the property's range): correspondence only
	for _, s := range []int64{-1, -2, -1 << 31, -9223372036854775} {
		g.emit("leaseNew", i64(s), "0")
		g.emit("leaseNew", i64(s), "999999999")
	}
	g.emit("leaseNew", "0", "-1")
	g.in("leaseNew-random")
	for i := 0; i < g.n(400, 40000); i++ {
		d := g.randMs()
		n := int64(d%1000)*1000000 + int64(r.intn(1000000))
		g.emit("leaseNew", i64(int64(d/1000)), i64(n))
	}
}

func datesArg(ds []uint64) string {
	if len(ds) == 0 {
		return "-"
	}
	var parts []string
	for _, d := range ds {
		parts = append(parts, u(d))
	}
	return strings.Join(parts, ",")
}

func genNewestOldest(g *G) {
	r := g.R
	pool := []uint64{0, 1, (1 << 31) * 1000, (1 << 32) * 1000, 1 << 53, 1<<63 - 1}
	g.in("extrema-boundary")
	g.emit("newestOldest", "-")
	for _, a := range pool {
		g.emit("newestOldest", datesArg([]uint64{a}))
		for _, b := range pool {
			g.emit("newestOldest", datesArg([]uint64{a, b}))
			g.emit("newestOldest", datesArg([]uint64{a, b, a}))
		}
	}
	// same second, different millisecond; ascending, descending and constant runs of 16
	g.emit("newestOldest", "1000,1001,1999,1000")
	g.emit("newestOldest", "1999,1001,1000,2000")
	var asc, desc, same []uint64
	for i := 0; i < 16; i++ {
		asc = append(asc, uint64(i)*500)
		desc = append(desc, uint64(15-i)*500)
		same = append(same, 1<<53)
	}
	g.emit("newestOldest", datesArg(asc))
	g.emit("newestOldest", datesArg(desc))
	g.emit("newestOldest", datesArg(same))
	g.emit("newestOldest", datesArg(pool))
	g.in("extrema-random")
	for i := 0; i < g.n(600, 60000); i++ {
		n := r.rng(1, 16)
		ds := make([]uint64, n)
		mode := r.intn(4)
		base := g.randMs()
		for j := range ds {
			switch {
			case mode == 0 || r.coin(0.2):
				ds[j] = pool[r.intn(len(pool))]
			case mode == 1: // clustered: ties and sub-second differences
				ds[j] = (base&^(1<<63))/2 + uint64(r.intn(3000))
			default:
				ds[j] = g.randMs()
			}
		}
		if r.coin(0.3) { // duplicates of the extremum in several positions
			ds[r.intn(n)] = ds[r.intn(n)]
		}
		g.emit("newestOldest", datesArg(ds))
	}
	g.in("extrema-outside") // dates at or above 2^63 (Date.Int() turns negative): correspondence only
	for i := 0; i < g.n(60, 3000); i++ {
		n := r.rng(1, 16)
		ds := make([]uint64, n)
		for j := range ds {
			ds[j] = g.randMs()
			if r.coin(0.4) {
				ds[j] = msOutside[r.intn(len(msOutside))]
			}
		}
		g.emit("newestOldest", datesArg(ds))
	}
}

func genExpired(g *G) {
	r := g.R
	day := int64(86400)
	g.in("expired-day")
	for _, kind := range []string{"ls2", "els", "meta", "entry", "offsig", "lease2", "lease"} {
		unit := int64(1)
		if kind == "lease" {
			unit = 1000
		}
		es := []string{"0"}
		if kind == "ls2" || kind == "meta" {
			es = []string{"0", "1", "600", "65535"}
		}
		if kind == "els" {
			es = []string{"1", "600", "65535"}
		}
		for _, e := range es {
			for _, d := range []int64{-day, -day - 1, -2 * day, -365 * day, day, day + 1, 2 * day, 365 * day, -3600, 3600, -5, 5, -day + 1, day - 1} {
				g.emit("expired", kind, i64(d*unit), e)
			}
		}
	}
	g.in("expired-random")
	kinds := []string{"ls2", "els", "meta", "entry", "offsig", "lease2", "lease"}
	for i := 0; i < g.n(300, 20000); i++ {
		kind := kinds[r.intn(len(kinds))]
		d := int64(r.rng(5, 50000000))
		if r.coin(0.5) {
			d = day + int64(r.intn(200000))
		}
		if r.coin(0.5) {
			d = -d
		}
		e := "0"
		if kind == "ls2" || kind == "els" || kind == "meta" {
			e = u(uint64(r.rng(1, 65535)))
		}
		if kind == "lease" {
			d = d*1000 + int64(r.intn(1000))
		}
		g.emit("expired", kind, i64(d), e)
	}
}

// genRouterInfoPublished: the published Date of a new RouterInfo (time → millisecond conversion).
func genRouterInfoPublished(g *G) {
	r := g.R
	g.in("riPublished-boundary")
	for _, d := range msBoundary {
		g.emit("riPublished", i64(int64(d/1000)), i64(int64(d%1000)*1000000))
	}
	for _, s := range []int64{0, 1, 1<<31 - 1, 1 << 31, 1<<32 - 1, 9223372035, 9223372036, 9223372037} {
		for _, n := range []int64{0, 999999, 1000000, 854775807, 854775808, 999999999} {
			g.emit("riPublished", i64(s), i64(n))
		}
	}
	g.in("riPublished-random")
	for i := 0; i < g.n(150, 10000); i++ {
		d := g.randMs()
		if r.coin(0.7) {
			d %= 9223372036854 // inside UnixNano's range
		}
		g.emit("riPublished", i64(int64(d/1000)), i64(int64(d%1000)*1000000+int64(r.intn(1000000))))
	}
}

func init() {
	suites["C15"] = func(g *G) {
		genHeaderExpiry(g)
		genSeconds32(g)
		genLease2New(g)
		genLease(g)
		genNewestOldest(g)
		genExpired(g)
		genRouterInfoPublished(g)
		// second ↔ millisecond constructors over the whole stated domain (millisecond dates below 2^63)
		g.in("date-constructors-whole-range")
		for _, ms := range []int64{0, 1, 999, 1000, 1<<31*1000 - 1, 1 << 31 * 1000, (1<<32-1)*1000 + 999, 1 << 53, 9223372036854, 9223372036855,
			9223372036854775, 1 << 56, 1<<56 - 1, 1 << 62, 1<<63 - 2, 1<<63 - 1} {
			g.emit("newDateMs", fmt.Sprint(ms))
			g.emit("newDateUnix", fmt.Sprint(ms/1000))
		}
		for i := 0; i < g.n(200, 5000); i++ {
			ms := int64(g.R.next() >> uint(1+g.R.intn(40)))
			g.emit("newDateMs", fmt.Sprint(ms))
		}
	}
}
