package main

import (
	"bufio"
	"encoding/json"
	"flag"
	"fmt"
	"os"
	"path/filepath"
	"sort"
	"strings"
	"time"
)

// suites maps a property id to the generators whose cases decide it.
var suites = map[string]func(g *G){}

type runStats struct {
	Cases     int                       `json:"cases"`
	Distinct  int                       `json:"distinct"`
	PerOp     map[string]map[string]int `json:"per_op"`  // op -> outcome class -> count
	PerGen    map[string]int            `json:"per_gen"` // generator -> count
	Fails     int                       `json:"fails"`
	Panics    int                       `json:"panics"`
	SlowCalls int                       `json:"slow_calls"`
	WallS     float64                   `json:"wall_s"`
	Samples   []string                  `json:"samples"`
	Counters  map[string]int            `json:"counters"`
}

type failRec struct {
	Line int    `json:"line"`
	Op   string `json:"op"`
	Fail
}

func outcomeClass(out string) string {
	f := strings.Fields(out)
	if len(f) == 0 {
		return "empty"
	}
	switch f[0] {
	case "ok", "err", "panic":
		return f[0]
	}
	if strings.HasPrefix(f[0], "errs=[]") {
		return "ok"
	}
	if strings.HasPrefix(f[0], "errs=[") {
		return "errs"
	}
	return "other"
}

// execCase runs one op under recover and with a wall-clock budget proportional to the input size.
func execCase(c Case) (out string, fails []Fail, slow bool) {
	f, ok := ops[c.Op]
	if !ok {
		return "no-such-op", []Fail{fail("HARNESS", "no-such-op", "unknown op %s", c.Op)}, false
	}
	size := 0
	for _, a := range c.Args {
		size += len(a)
	}
	start := time.Now()
	trailMu.Lock()
	opTrail = opTrail[:0]
	trailMu.Unlock()
	func() {
		defer func() {
			if r := recover(); r != nil {
				msg := fmt.Sprint(r)
				trailMu.Lock()
				fails = append(fails, opTrail...) // what the oracles had found before the operation went down
				trailMu.Unlock()
				if strings.HasPrefix(msg, "harness:") {
					out = "harness-error"
					fails = append(fails, fail("HARNESS", "harness-error", "%s", msg))
					return
				}
				out = "panic"
				fails = append(fails, fail("C04", "panic:"+c.Op, "%s panicked: %s", c.Op, msg))
			}
		}()
		out, fails = f(c.Args)
	}()
	el := time.Since(start)
	// generous: 2 s + 1 ms per input character (hex) — three orders of magnitude above normal
	if el > 2*time.Second+time.Duration(size)*time.Millisecond {
		slow = true
		fails = append(fails, fail("C04", "slow:"+c.Op, "%s took %v on %d input characters", c.Op, el, size))
	}
	return
}

func cmdRun(args []string) {
	fs := flag.NewFlagSet("run", flag.ExitOnError)
	props := fs.String("props", "", "comma-separated property ids")
	tier := fs.String("tier", "quick", "quick|thorough")
	seed := fs.Uint64("seed", 1, "seed")
	outDir := fs.String("out", "", "output directory")
	fs.Parse(args)
	start := time.Now()
	g := &G{R: &Rng{s: *seed*0x9e3779b97f4a7c15 + 12345}, Tier: *tier}
	for _, p := range strings.Split(*props, ",") {
		s, ok := suites[p]
		if !ok {
			fmt.Fprintf(os.Stderr, "no suite for %s\n", p)
			os.Exit(2)
		}
		s(g)
	}
	os.MkdirAll(*outDir, 0o755)
	fo, _ := os.Create(filepath.Join(*outDir, "ops.txt"))
	fi, _ := os.Create(filepath.Join(*outDir, "impl.txt"))
	ff, _ := os.Create(filepath.Join(*outDir, "fails.jsonl"))
	fa, _ := os.Create(filepath.Join(*outDir, "allops.txt")) // every line incl. the implementation-only ones (for the isolation differential)
	wa := bufio.NewWriterSize(fa, 1<<20)
	wo, wi, wf := bufio.NewWriterSize(fo, 1<<20), bufio.NewWriterSize(fi, 1<<20), bufio.NewWriter(ff)
	st := runStats{PerOp: map[string]map[string]int{}, PerGen: map[string]int{}}
	seen := map[string]bool{}
	enc := json.NewEncoder(wf)
	line := 0
	for _, c := range g.Cases {
		key := c.Op + " " + joinArgs(c.Args)
		if seen[key] {
			continue
		}
		seen[key] = true
		out, fails, slow := execCase(c)
		line++
		st.Cases++
		if st.PerOp[c.Op] == nil {
			st.PerOp[c.Op] = map[string]int{}
		}
		st.PerOp[c.Op][outcomeClass(out)]++
		st.PerGen[c.Gen]++
		if out == "panic" {
			st.Panics++
		}
		if slow {
			st.SlowCalls++
		}
		for _, f := range fails {
			st.Fails++
			enc.Encode(failRec{Line: line, Op: key, Fail: f})
		}
		if len(st.Samples) < 16 && st.PerGen[c.Gen] == 1 {
			s := key
			if len(s) > 160 {
				s = s[:160] + "…"
			}
			st.Samples = append(st.Samples, s+" => "+trunc(out, 120))
		}
		fmt.Fprintf(wa, "%s\n", key)
		if strings.HasPrefix(c.Op, "!") {
			// implementation-only op: keep line numbering aligned with a placeholder the driver echoes
			fmt.Fprintf(wo, "nop\n")
			fmt.Fprintf(wi, "nop\n")
		} else {
			fmt.Fprintf(wo, "%s\n", key)
			fmt.Fprintf(wi, "%s\n", out)
		}
	}
	st.Distinct = len(seen)
	st.Counters = counters
	st.WallS = time.Since(start).Seconds()
	wo.Flush()
	wi.Flush()
	wf.Flush()
	wa.Flush()
	fa.Close()
	fo.Close()
	fi.Close()
	ff.Close()
	sj, _ := json.MarshalIndent(st, "", " ")
	os.WriteFile(filepath.Join(*outDir, "stats.json"), sj, 0o644)
}

func trunc(s string, n int) string {
	if len(s) > n {
		return s[:n] + "…"
	}
	return s
}

// cmdExec executes op lines from stdin (one per line) and prints observation + oracle failures as JSON.
func cmdExec() {
	sc := bufio.NewScanner(os.Stdin)
	sc.Buffer(make([]byte, 1<<20), 1<<26)
	enc := json.NewEncoder(os.Stdout)
	for sc.Scan() {
		f := strings.Fields(sc.Text())
		if len(f) == 0 {
			continue
		}
		out, fails, _ := execCase(Case{Op: f[0], Args: f[1:]})
		enc.Encode(map[string]interface{}{"op": sc.Text(), "out": out, "fails": fails})
	}
}

func main() {
	if len(os.Args) < 2 {
		fmt.Fprintln(os.Stderr, "usage: harness run|exec|list")
		os.Exit(2)
	}
	switch os.Args[1] {
	case "run":
		cmdRun(os.Args[2:])
	case "exec":
		cmdExec()
	case "list":
		var names []string
		for k := range ops {
			names = append(names, k)
		}
		sort.Strings(names)
		fmt.Println(strings.Join(names, "\n"))
	default:
		if f, ok := extraCmds[os.Args[1]]; ok {
			f(os.Args[2:])
			return
		}
		os.Exit(2)
	}
}

var extraCmds = map[string]func([]string){}
