//go:build !race

package main

const raceEnabled = false
