package main

// Fixed-width helpers of data/encoding.go (C12: "the same holds for the fixed-width helpers").
// fixedEncU/fixedEncI <width> <decimal>  → hex of EncodeUintN / EncodeIntN(value)
// fixedDecU/fixedDecI <hex>              → decimal of DecodeUintN / DecodeIntN(bytes)
// The oracle is an independent big-endian / two's-complement computation with math/big.
import (
	"bytes"
	"fmt"
	"math/big"
	"strconv"

	"github.com/go-i2p/common/data"
)

func fixedWant(w int, v *big.Int) []byte {
	m := new(big.Int).Lsh(big.NewInt(1), uint(8*w))
	u := new(big.Int).Mod(v, m) // Euclidean for a positive modulus: the two's-complement image
	out := make([]byte, w)
	u.FillBytes(out)
	return out
}

func init() {
	reg("fixedEncU", func(a []string) (string, []Fail) {
		w := atoi(a[0])
		v, err := strconv.ParseUint(a[1], 10, 64)
		if err != nil {
			return "bad-op", nil
		}
		var got []byte
		switch w {
		case 2:
			x := data.EncodeUint16(uint16(v))
			got = x[:]
		case 4:
			x := data.EncodeUint32(uint32(v))
			got = x[:]
		case 8:
			x := data.EncodeUint64(v)
			got = x[:]
		default:
			return "bad-op", nil
		}
		var fails []Fail
		if !bytes.Equal(got, fixedWant(w, new(big.Int).SetUint64(v))) {
			fails = append(fails, fail("C12", "fixed-width:EncodeUint", "EncodeUint%d(%d) = %x", 8*w, v, got))
		}
		return hx(got), fails
	})
	reg("fixedEncI", func(a []string) (string, []Fail) {
		w := atoi(a[0])
		v, err := strconv.ParseInt(a[1], 10, 64)
		if err != nil {
			return "bad-op", nil
		}
		var got []byte
		var back int64
		switch w {
		case 2:
			x := data.EncodeInt16(int16(v))
			got, back = x[:], int64(data.DecodeInt16(x))
		case 4:
			x := data.EncodeInt32(int32(v))
			got, back = x[:], int64(data.DecodeInt32(x))
		case 8:
			x := data.EncodeInt64(v)
			got, back = x[:], data.DecodeInt64(x)
		default:
			return "bad-op", nil
		}
		var fails []Fail
		if !bytes.Equal(got, fixedWant(w, big.NewInt(v))) {
			fails = append(fails, fail("C12", "fixed-width:EncodeInt", "EncodeInt%d(%d) = %x", 8*w, v, got))
		}
		if back != v {
			fails = append(fails, fail("C12", "fixed-width:roundtrip", "DecodeInt%d(EncodeInt%d(%d)) = %d", 8*w, 8*w, v, back))
		}
		return hx(got), fails
	})
	reg("fixedDecU", func(a []string) (string, []Fail) {
		b := unhx(a[0])
		var got uint64
		var again []byte
		switch len(b) {
		case 2:
			got = uint64(data.DecodeUint16([2]byte(b)))
			x := data.EncodeUint16(uint16(got))
			again = x[:]
		case 4:
			got = uint64(data.DecodeUint32([4]byte(b)))
			x := data.EncodeUint32(uint32(got))
			again = x[:]
		case 8:
			got = data.DecodeUint64([8]byte(b))
			x := data.EncodeUint64(got)
			again = x[:]
		default:
			return "bad-op", nil
		}
		var fails []Fail
		if new(big.Int).SetBytes(b).Cmp(new(big.Int).SetUint64(got)) != 0 {
			fails = append(fails, fail("C12", "fixed-width:DecodeUint", "DecodeUint%d(%x) = %d", 8*len(b), b, got))
		}
		if !bytes.Equal(again, b) {
			fails = append(fails, fail("C12", "fixed-width:roundtrip", "EncodeUint%d(DecodeUint%d(%x)) = %x", 8*len(b), 8*len(b), b, again))
		}
		return fmt.Sprint(got), fails
	})
	reg("fixedDecI", func(a []string) (string, []Fail) {
		b := unhx(a[0])
		var got int64
		var again []byte
		switch len(b) {
		case 2:
			got = int64(data.DecodeInt16([2]byte(b)))
			x := data.EncodeInt16(int16(got))
			again = x[:]
		case 4:
			got = int64(data.DecodeInt32([4]byte(b)))
			x := data.EncodeInt32(int32(got))
			again = x[:]
		case 8:
			got = data.DecodeInt64([8]byte(b))
			x := data.EncodeInt64(got)
			again = x[:]
		default:
			return "bad-op", nil
		}
		var fails []Fail
		want := new(big.Int).SetBytes(b)
		if len(b) > 0 && b[0]&0x80 != 0 {
			want.Sub(want, new(big.Int).Lsh(big.NewInt(1), uint(8*len(b))))
		}
		if want.Cmp(big.NewInt(got)) != 0 {
			fails = append(fails, fail("C12", "fixed-width:DecodeInt", "DecodeInt%d(%x) = %d, want %s", 8*len(b), b, got, want))
		}
		if !bytes.Equal(again, b) {
			fails = append(fails, fail("C12", "fixed-width:roundtrip", "EncodeInt%d(DecodeInt%d(%x)) = %x", 8*len(b), 8*len(b), b, again))
		}
		return fmt.Sprint(got), fails
	})
}
