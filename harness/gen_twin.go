package main

import (
	"fmt"
	"math"
	"strings"
)

// Generators of the C19 twin slice (ops tw*, see ops_twin.go). Every family gets valid inputs of every size
// class, the boundary lengths (exact, one short, one long, empty) and malformed inputs.

// twLens: boundary lengths around an exact size n, plus a few random ones.
func (g *G) twLens(n int) []int {
	r := g.R
	ls := []int{0, 1, n, n, n + 1, n + r.rng(2, 40)}
	if n > 0 {
		ls = append(ls, n-1)
	}
	if n > 2 {
		ls = append(ls, r.rng(1, n-1))
	}
	return ls
}

var twSigSizes = map[int]int{0: 40, 1: 64, 2: 96, 3: 132, 4: 256, 5: 384, 6: 512, 7: 64, 8: 64, 11: 64}

func genTwinSignatures(g *G) {
	r := g.R
	g.in("twin-signature")
	types := []int{0, 1, 2, 3, 4, 5, 6, 7, 8, 9, 10, 11, 12, 20, 21, 255, 256, 65279, 65280, 65534, 65535, 65536, 65543, -1, -7, math.MaxInt32, math.MinInt64, math.MaxInt64}
	for round := 0; round < g.n(3, 60); round++ {
		for _, t := range types {
			n, ok := twSigSizes[t]
			if !ok {
				n = r.pick(40, 64, 128)
			}
			for _, l := range g.twLens(n) {
				g.emit("twSig", hx(r.bytes(l)), itoa(t))
			}
		}
	}
	// a buffer of one type's size read as another type
	for i := 0; i < g.n(40, 2000); i++ {
		t1, t2 := r.pick(0, 1, 2, 3, 4, 5, 6, 7, 8, 11), r.pick(0, 1, 2, 3, 4, 5, 6, 7, 8, 9, 10, 11, 13)
		g.emit("twSig", hx(r.bytes(twSigSizes[t1])), itoa(t2))
	}
}

func genTwinStrings(g *G) {
	r := g.R
	g.in("twin-string")
	for _, n := range []int{0, 1, 2, 3, 16, 127, 128, 254, 255, 256, 257, 300, 1000, 65536} {
		g.emit("twStrNew", hx(r.bytes(n)))
	}
	for i := 0; i < g.n(60, 3000); i++ {
		g.emit("twStrNew", hx(r.bytes(r.pick(r.rng(0, 30), r.rng(200, 300), r.rng(0, 600)))))
	}
	for _, fixed := range []string{"-", "00", "0000", "01", "0141", "014142", "0241", "ff", "ff" + strings.Repeat("61", 255), "ff" + strings.Repeat("61", 254), "ff" + strings.Repeat("61", 256)} {
		g.emit("twStrRead", fixed)
	}
	for i := 0; i < g.n(150, 6000); i++ {
		n := r.pick(0, 1, r.rng(0, 20), r.rng(0, 255), 255, 254)
		s := append([]byte{byte(n)}, r.bytes(n)...)
		switch r.intn(6) {
		case 0, 1: // exact
		case 2: // bytes follow
			s = append(s, r.bytes(r.rng(1, 9))...)
		case 3: // one short (or more)
			if n > 0 {
				s = s[:len(s)-r.rng(1, min(n, 3))]
			}
		case 4: // length byte off by one
			s[0] = byte(int(s[0]) + r.pick(1, -1, 2))
		case 5:
			s = r.bytes(r.rng(0, 300))
		}
		g.emit("twStrRead", hx(s))
	}
}

func genTwinIntegers(g *G) {
	r := g.R
	g.in("twin-integer")
	vals := []int{0, 1, 127, 128, 255, 256, 257, 65535, 65536, 1<<24 - 1, 1 << 24, 1<<32 - 1, 1 << 32, 1<<40 - 1, 1 << 40, 1<<48 - 1, 1 << 48,
		1<<56 - 1, 1 << 56, 1<<62 + 5, math.MaxInt64 - 1, math.MaxInt64, -1, -2, -256, math.MinInt64, math.MinInt64 + 1}
	sizes := []int{-1, 0, 1, 2, 3, 4, 5, 6, 7, 8, 9, 16, math.MaxInt64, math.MinInt64}
	for _, v := range vals {
		for _, n := range sizes {
			g.emit("twIntEnc", itoa(v), itoa(n))
		}
	}
	for i := 0; i < g.n(300, 20000); i++ {
		n := r.rng(1, 8)
		var v int
		switch r.intn(5) {
		case 0: // fits exactly the width
			v = int(r.next() >> uint(64-8*n) & math.MaxInt64)
		case 1: // one bit too wide
			if n < 8 {
				v = 1<<uint(8*n) + int(r.next()>>uint(64-8*n)&math.MaxInt64)
			} else {
				v = -int(r.next() >> 1)
			}
		case 2:
			v = int(r.next() >> uint(r.rng(1, 63)))
		case 3:
			v = int(r.next())
		case 4:
			v = r.rng(0, 70000)
		}
		g.emit("twIntEnc", itoa(v), itoa(r.pick(n, n, n, 2, 4, 8)))
	}
	for _, fixed := range []string{"-", "00", "7f", "80", "ff", "0000", "ffff", "7fffffffffffffff", "8000000000000000", "ffffffffffffffff",
		"00ffffffffffffffff", "007fffffffffffffff", "000000000000000000", "0000000000000001", "ffffffffffffff"} {
		g.emit("twIntDec", fixed)
	}
	for i := 0; i < g.n(200, 10000); i++ {
		b := r.bytes(r.pick(0, 1, 2, 3, 4, 5, 6, 7, 8, 8, 8, 9, 10, 16))
		if len(b) > 0 && r.coin(0.3) {
			b[0] &= 0x7f
		}
		if len(b) > 0 && r.coin(0.1) {
			b[0] |= 0x80
		}
		g.emit("twIntDec", hx(b))
	}
}

func genTwinDates(g *G) {
	r := g.R
	g.in("twin-date")
	for round := 0; round < g.n(4, 200); round++ {
		for _, l := range g.twLens(8) {
			g.emit("twDateRead", hx(r.bytes(l)))
		}
	}
	g.emit("twDateRead", "0000000000000000")
	g.emit("twDateRead", "ffffffffffffffff")
	g.emit("twDateRead", "8000000000000000aa")
	maxS := int64(math.MaxInt64 / 1000)
	xs := []int64{0, 1, 999, 1000, 1001, -1, -999, -1000, -1001, 1700000000, 1700000000123, maxS - 1, maxS, maxS + 1, maxS + 2, math.MaxInt64/1000000 + 1,
		math.MaxInt64 - 1, math.MaxInt64, math.MinInt64, math.MinInt64 + 1, math.MinInt64 / 1000, 1 << 32, 1<<32 - 1, 1 << 53, 4102444800000, 253402300800000}
	for _, x := range xs {
		g.emit("twDateNew", fmt.Sprint(x))
	}
	for i := 0; i < g.n(200, 10000); i++ {
		var x int64
		switch r.intn(6) {
		case 0:
			x = int64(r.next() >> uint(r.rng(1, 63)))
		case 1:
			x = int64(r.next())
		case 2:
			x = int64(r.rng(0, 4000000000))
		case 3:
			x = int64(r.rng(0, 4000000000))*1000 + int64(r.rng(0, 999))
		case 4:
			x = maxS + int64(r.rng(-3000, 3000))
		case 5:
			x = -int64(r.next() >> uint(r.rng(1, 63)))
		}
		g.emit("twDateNew", fmt.Sprint(x))
	}
}

func genTwinFixed(g *G) {
	r := g.R
	g.in("twin-hash")
	for round := 0; round < g.n(4, 200); round++ {
		for _, l := range g.twLens(32) {
			g.emit("twHash", hx(r.bytes(l)))
		}
	}
	g.emit("twHash", hx(make([]byte, 32)))
	g.in("twin-lease")
	for round := 0; round < g.n(4, 200); round++ {
		for _, n := range []int{40, 44} {
			for _, l := range g.twLens(n) {
				g.emit("twLease", hx(r.bytes(l)))
			}
		}
		g.emit("twLease", hx(r.bytes(88)))
	}
	g.emit("twLease", hx(make([]byte, 44)))
	g.in("twin-session")
	for round := 0; round < g.n(4, 200); round++ {
		for _, n := range []int{8, 32} {
			for _, l := range g.twLens(n) {
				g.emit("twSess", hx(r.bytes(l)))
			}
		}
	}
	g.emit("twSess", hx(make([]byte, 32)))
	g.emit("twSess", hx(make([]byte, 8)))
}

func genTwinMappings(g *G) {
	r := g.R
	g.in("twin-mapping")
	for _, fixed := range []string{"-", "00", "0000", "0001", "000100", "0006016161016162", "00060161" + "3d" + "0162" + "3b", "00060161" + "3d" + "0162" + "3b" + "ff", "ffff"} {
		g.emit("twMap", fixed)
	}
	for i := 0; i < g.n(150, 6000); i++ {
		b, _ := g.genMappingBytes()
		switch r.intn(5) {
		case 0:
			if len(b) > 0 {
				b = b[:r.intn(len(b))]
			}
		case 1:
			b = append(b, r.bytes(r.rng(1, 8))...)
		case 2:
			if len(b) > 2 {
				b = append([]byte{}, b...)
				b[r.rng(2, len(b)-1)] ^= byte(1 << uint(r.intn(8)))
			}
		}
		g.emit("twMap", hx(b))
	}
}

func genTwinBuilder(g *G) {
	r := g.R
	g.in("twin-builder")
	step := func() string {
		switch r.intn(3) {
		case 0:
			return fmt.Sprintf("t%d", r.pick(0, 1, 2, 3, 4, 5, 5, 6, 7, 128, 255))
		case 1:
			n := r.pick(0, 0, 1, 4, 4, 5, 39, 40, 41, 72, 73, 3, 300)
			return "p" + hx(r.bytes(n))
		}
		return fmt.Sprintf("k%d:%d", r.pick(7, 7, 0, 1, 11, 9, 255, 256, 65535, 65536, 65543, -1, math.MinInt64), r.pick(4, 0, 4, 5, 255, 65535, 65536, 65540, -1, math.MaxInt64))
	}
	for i := 0; i < g.n(500, 20000); i++ {
		n := r.rng(1, 5)
		var st []string
		for j := 0; j < n; j++ {
			st = append(st, step())
		}
		g.emit("twBuilder", strings.Join(st, ","))
	}
	fixed := []string{"-", "t0", "t1", "t2", "t3", "t4", "t5", "t6", "t255", "k7:4", "p00070004,k7:4", "k7:4,p00070004", "t1,p01020304,k7:4", "t5,p0007", "t5,p-",
		"p-,t5", "k65543:4", "k7:65540", "k7:4,t0", "k7:4,t2", "k7:4,t3", "k7:4,t1", "p01,k7:4,t0", "t3,p" + hx(make([]byte, 40)), "t3,p" + hx(make([]byte, 72)),
		"t3,p" + hx(make([]byte, 41)), "t0,p01", "t2,p01", "t2,p-", "t4,p" + hx(make([]byte, 9)), "k-1:4", "k4:-1", "k65535:65535", "k65536:0", "k0:65536", "k0:0"}
	for _, f := range fixed {
		g.emit("twBuilder", f)
	}
	// one very long payload: the 65535 limit of NewCertificateWithType, both sides of it
	g.emit("twBuilder", "t1,p"+hx(r.bytes(65535)))
	g.emit("twBuilder", "t1,p"+hx(r.bytes(65536)))
	g.in("twin-keycert")
	sigs := []int{0, 1, 2, 3, 4, 5, 6, 7, 8, 9, 10, 11, 12, 20, 21, 255, 256, 65279, 65280, 65281, 65534, 65535, 65536, 65543, -1, math.MinInt64, math.MaxInt64}
	crys := []int{0, 1, 2, 3, 4, 5, 6, 7, 8, 9, 255, 256, 65279, 65280, 65534, 65535, 65536, 65540, -1, math.MinInt64, math.MaxInt64}
	for _, s := range sigs {
		for _, c := range crys {
			g.emit("twKeyCert", itoa(s), itoa(c))
		}
	}
	for i := 0; i < g.n(100, 10000); i++ {
		g.emit("twKeyCert", itoa(r.pick(r.rng(0, 12), r.rng(0, 65600), r.rng(65270, 65540), r.rng(-3, 3))), itoa(r.pick(r.rng(0, 9), r.rng(0, 65600), r.rng(65270, 65540), r.rng(-3, 3))))
	}
}

func init() {
	suites["TWIN"] = func(g *G) {
		genTwinSignatures(g)
		genTwinStrings(g)
		genTwinIntegers(g)
		genTwinDates(g)
		genTwinFixed(g)
		genTwinMappings(g)
		genTwinBuilder(g)
	}
}
