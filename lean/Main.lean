import I2P.Driver.DataOps
import I2P.Driver.KacOps
import I2P.Driver.StructOps
import I2P.Driver.TimeOps
import I2P.Driver.BaseOps
import I2P.Driver.NetOps
import I2P.Driver.VerifyOps
import I2P.Driver.C16Ops
import I2P.Driver.SpecOps
import I2P.Driver.TwinOps
import I2P.Driver.FailShapeOps
open I2P.Driver

def allOps : List (String × Op) := dataOps ++ kacOps ++ structOps ++ timeOps ++ baseOps ++ netOps ++ verifyOps ++ c16Ops ++ specOps ++ twinOps ++ failShapeOps

def step (line : String) : String :=
  match line.trimAscii.toString.splitOn " " with
  | [] => "bad-op"
  | op :: args =>
    match allOps.lookup op with
    | none => "unknown-op"
    | some f => (f args).getD "bad-args"

partial def loopIO (h : IO.FS.Stream) (out : IO.FS.Stream) : IO Unit := do
  let line ← h.getLine
  if line.isEmpty then return ()
  out.putStrLn (step line)
  loopIO h out

def main : IO Unit := do loopIO (← IO.getStdin) (← IO.getStdout)
