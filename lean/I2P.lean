import I2P.Bytes
import I2P.Data
import I2P.Mapping
import I2P.Tables
import I2P.Kac
import I2P.Structs
import I2P.Time
import I2P.Base
