import I2P.Bytes
import I2P.Data
import I2P.Mapping
