import I2P.Bytes
/-! Code-mirroring models of the two standard-library functions the RouterAddress accessors rely on
    (DESIGN.md appendix B): `net.ParseIP` (= `netip.ParseAddr` with any zone rejected) and
    `strconv.Atoi`, plus `strconv.Itoa` on non-negative values.  Go 1.24.  Core-only.
    Validated differentially against the real functions by the ops `parseIP` / `atoi` / `itoa`. -/

namespace I2P.NetAddr

/-- `'0' ≤ c ≤ '9'` -/
def isDigit (c : UInt8) : Bool := 48 ≤ c.toNat && c.toNat ≤ 57

/-- value of one hex digit (either case), as in the inner loop of `netip.parseIPv6` -/
def hexVal (c : UInt8) : Option Nat :=
  let n := c.toNat
  if 48 ≤ n ∧ n ≤ 57 then some (n - 48)
  else if 97 ≤ n ∧ n ≤ 102 then some (n - 97 + 10)
  else if 65 ≤ n ∧ n ≤ 70 then some (n - 65 + 10)
  else none

def isHexDigit (c : UInt8) : Bool := (hexVal c).isSome

/-- `netip.parseIPv4Fields` on the byte string `s`: exactly four decimal fields separated by single
    dots, no leading zero, each ≤ 255, no other byte.  Arguments: rest of the input, `val`, `digLen`,
    `pos`, the previous byte (`none` at offset 0), the fields stored so far. -/
def v4Fields : Bytes → Nat → Nat → Nat → Option UInt8 → List Nat → Option (List Nat)
  | [], val, _, pos, _, fs => if pos < 3 then none else some (fs ++ [val])
  | c :: rest, val, digLen, pos, prev, fs =>
    if isDigit c then
      if digLen == 1 && val == 0 then none                       -- leading zero
      else
        let v := val * 10 + (c.toNat - 48)
        if v > 255 then none else v4Fields rest v (digLen + 1) pos (some c) fs
    else if c == 46 then
      if prev == none || rest.isEmpty || prev == some 46 then none   -- ".1.2.3", "1.2.3.", "1..2.3"
      else if pos == 3 then none                                  -- "1.2.3.4.5"
      else v4Fields rest 0 0 (pos + 1) (some c) (fs ++ [val])
    else none                                                     -- unexpected character

/-- `netip.parseIPv4`: the four fields -/
def parseV4 (s : Bytes) : Option (List Nat) := v4Fields s 0 0 0 none []

/-- the hex-number loop of `netip.parseIPv6`: (value, digits consumed, rest); a fifth digit fails -/
def hexGroup : Bytes → Nat → Nat → Option (Nat × Nat × Bytes)
  | [], acc, off => some (acc, off, [])
  | c :: rest, acc, off =>
    match hexVal c with
    | none => some (acc, off, c :: rest)
    | some d => if off > 3 then none else hexGroup rest (acc * 16 + d) (off + 1)

/-- main loop of `netip.parseIPv6`: `i` = bytes of the address filled so far, `ell` = byte position of
    the `::` if one was seen, `acc` = the bytes filled so far (in order).  Fuel bounds the number of
    groups (eight suffice).  Result: bytes, final `i`, ellipsis position; `none` = parse error
    (including "trailing garbage", which Go detects right after the loop). -/
def v6loop : Nat → Bytes → Nat → Option Nat → List Nat → Option (List Nat × Nat × Option Nat)
  | 0, _, _, _, _ => none
  | fuel+1, s, i, ell, acc =>
    if i ≥ 16 then (if s.isEmpty then some (acc, i, ell) else none) else
    match hexGroup s 0 0 with
    | none => none
    | some (v, off, rest) =>
      if off == 0 then none                         -- each field must have at least one digit
      else match rest with
      | [] => some (acc ++ [v / 256, v % 256], i + 2, ell)
      | c :: rest1 =>
        if c == 46 then                             -- '.': trailing dotted quad starting at this group
          if ell.isNone && i != 12 then none
          else if i + 4 > 16 then none
          else match parseV4 s with
            | none => none
            | some fs => some (acc ++ fs, i + 4, ell)
        else if c == 58 then                        -- ':'
          match rest1 with
          | [] => none                              -- colon must be followed by more characters
          | d :: rest2 =>
            if d == 58 then
              if ell.isSome then none               -- multiple "::"
              else if rest2.isEmpty then some (acc ++ [v / 256, v % 256], i + 2, some (i + 2))
              else v6loop fuel rest2 (i + 2) (some (i + 2)) (acc ++ [v / 256, v % 256])
            else v6loop fuel rest1 (i + 2) ell (acc ++ [v / 256, v % 256])
        else none                                   -- unexpected character, want colon

/-- `netip.parseIPv6` with `net.ParseIP`'s rejection of every zone (so any `%` is an error) -/
def parseV6 (s : Bytes) : Option (List Nat) :=
  if s.contains 37 then none else
  let (s', ell0) : Bytes × Option Nat :=
    match s with
    | a :: b :: rest => if a == 58 && b == 58 then (rest, some 0) else (s, none)
    | _ => (s, none)
  if ell0.isSome && s'.isEmpty then some (List.replicate 16 0) else
  match v6loop 20 s' 0 ell0 [] with
  | none => none
  | some (bytes, i, ell) =>
    if i < 16 then
      match ell with
      | none => none                                -- address string too short
      | some e => some (bytes.take e ++ List.replicate (16 - i) 0 ++ bytes.drop e)
    else if ell.isSome then none                    -- "::" must expand to at least one zero group
    else some bytes

/-- the byte on which `netip.ParseAddr` dispatches: the first of `.`, `:`, `%` -/
def firstSep (s : Bytes) : Option UInt8 := s.find? (fun c => c == 46 || c == 58 || c == 37)

/-- `net.ParseIP`: the 16-byte form (IPv4 as v4-in-v6), `none` for nil -/
def parseIP (s : Bytes) : Option (List Nat) :=
  match firstSep s with
  | none => none
  | some c =>
    if c == 46 then (parseV4 s).map fun fs => List.replicate 10 0 ++ [255, 255] ++ fs
    else if c == 58 then parseV6 s
    else none

/-- `IP.To4() != nil` on a 16-byte address -/
def isV4 (ip : List Nat) : Bool := (ip.take 10 == List.replicate 10 0) && ((ip.drop 10).take 2 == [255, 255])

/-- decimal value of a digit string (no checks) -/
def digitsVal (ds : Bytes) : Nat := ds.foldl (fun a c => a * 10 + (c.toNat - 48)) 0

/-- `strconv.Atoi` on a 64-bit platform: optional single sign, at least one digit, digits only,
    value within int64; `none` for any error (syntax or range). -/
def atoi (s : Bytes) : Option Int :=
  let (neg, ds) : Bool × Bytes :=
    match s with
    | [] => (false, [])
    | c :: r => if c == 43 then (false, r) else if c == 45 then (true, r) else (false, s)
  if ds.isEmpty || !ds.all isDigit then none else
  let v := digitsVal ds
  if neg then (if v ≤ 9223372036854775808 then some (-(v : Int)) else none)
  else (if v ≤ 9223372036854775807 then some (v : Int) else none)

/-- digit loop of `strconv.Itoa` (fuel = an upper bound on the number of digits) -/
def decimalAux : Nat → Nat → Bytes → Bytes
  | 0, _, acc => acc
  | fuel+1, n, acc =>
    if n < 10 then UInt8.ofNat (48 + n) :: acc
    else decimalAux fuel (n / 10) (UInt8.ofNat (48 + n % 10) :: acc)

/-- `strconv.Itoa` on a non-negative value -/
def decimal (n : Nat) : Bytes := decimalAux (n + 1) n []

end I2P.NetAddr
