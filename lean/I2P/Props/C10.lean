import I2P.Tables
import I2P.Gen.Observed
import I2P.Proofs.KacLemmas
/-! # C10 — key/signature size tables agree everywhere and fix the 384-byte key block

`I2P.Gen.Observed` is rewritten on every run by sweeping every size lookup of the freshly built library
over all 65,536 codes; `I2P.Gen.Tables` is re-translated from the Go source (map literals and `switch`
statements).  The theorems below are therefore re-proved against what the code says *now*. -/
namespace I2P.Props.C10
open I2P I2P.Spec I2P.Kac

/-- the specification's signing table as rows (code, public-key bytes, signature bytes) -/
def specSigRows : List (Nat × Int × Int) :=
  [0, 1, 2, 3, 4, 5, 6, 7, 8, 11].filterMap fun c => (sigInfo c).map fun p => (c, (p.1 : Int), (p.2 : Int))
/-- the specification's crypto table as rows (code, public-key bytes) -/
def specCryptoRows : List (Nat × Int) :=
  [0, 1, 2, 3, 4, 5, 6, 7].filterMap fun c => (cryptoInfo c).map fun n => (c, (n : Int))

/-- the row lists are complete: a code is known to the specification iff it has a row -/
theorem specSigRows_complete (c : Nat) : (sigInfo c).isSome = (specSigRows.map (·.1)).contains c := by
  have hrows : specSigRows.map (·.1) = [0, 1, 2, 3, 4, 5, 6, 7, 8, 11] := by decide
  rw [hrows]
  unfold sigInfo
  split
  all_goals first
    | rfl
    | (rename_i h0 h1 h2 h3 h4 h5 h6 h7 h8 h11
       have hc : c ∉ [0, 1, 2, 3, 4, 5, 6, 7, 8, 11] := by
         simp only [List.mem_cons, List.not_mem_nil, or_false, not_or]
         exact ⟨h0, h1, h2, h3, h4, h5, h6, h7, h8, h11⟩
       simp [List.contains_eq_mem, hc])

theorem specCryptoRows_complete (c : Nat) : (cryptoInfo c).isSome = (specCryptoRows.map (·.1)).contains c := by
  have hrows : specCryptoRows.map (·.1) = [0, 1, 2, 3, 4, 5, 6, 7] := by decide
  rw [hrows]
  unfold cryptoInfo
  split
  all_goals first
    | rfl
    | (rename_i h0 h1 h2 h3 h4 h5 h6 h7
       have hc : c ∉ [0, 1, 2, 3, 4, 5, 6, 7] := by
         simp only [List.mem_cons, List.not_mem_nil, or_false, not_or]
         exact ⟨h0, h1, h2, h3, h4, h5, h6, h7⟩
       simp [List.contains_eq_mem, hc])

/-- every signing-size lookup the library offers, observed over all 65,536 codes, equals the
    specification table (lookups that report only one component are compared on that component) -/
theorem sig_lookups_agree :
    Gen.Observed.sig_keycert_SigningKeySizes = specSigRows ∧
    Gen.Observed.sig_keycert_GetSigningKeySize_GetSignatureSize = specSigRows ∧
    Gen.Observed.sig_keycert_methods = specSigRows ∧
    Gen.Observed.sig_offline_signature_sizes = specSigRows ∧
    Gen.Observed.sig_keycert_SignaturePublicKeySizes = specSigRows.map (fun r => (r.1, r.2.1, -1)) ∧
    Gen.Observed.sig_signature_SignatureSize = specSigRows.map (fun r => (r.1, -1, r.2.2)) := by decide

/-- every crypto-size lookup (incl. the map used by the LeaseSet2 key validation) equals the specification table -/
theorem crypto_lookups_agree :
    Gen.Observed.crypto_keycert_CryptoKeySizes = specCryptoRows ∧
    Gen.Observed.crypto_keycert_CryptoPublicKeySizes = specCryptoRows ∧
    Gen.Observed.crypto_keycert_GetCryptoKeySize = specCryptoRows ∧
    Gen.Observed.crypto_keycert_crypto_methods = specCryptoRows := by decide

/-- the size tables *as the structure readers use them*, observed over all 65,536 codes through the readers
    themselves: `ReadEncryptedLeaseSet` (+ `EncryptedLeaseSet.Validate`) takes a blinded key and a signature of
    exactly the specification's lengths for exactly the specification's codes, `signature.ReadSignature` consumes
    the specification's signature length, and the LeaseSet2 encryption-key validation (`ReadLeaseSet2` followed by
    `LeaseSet2.Validate`) admits exactly the specification's key length for exactly its crypto codes -/
theorem use_lookups_agree :
    Gen.Observed.use_els = specSigRows ∧
    Gen.Observed.use_readSignature = specSigRows.map (fun r => (r.1, -1, r.2.2)) ∧
    Gen.Observed.use_ls2_key = specCryptoRows := by decide

/-- the sweep saw no internal inconsistency (a lookup knowing an out-of-range code, two getters of one
    table disagreeing on whether a code is known, a "known" answer that is not a usable size) -/
theorem sweep_consistent : Gen.Observed.markers = [] := by decide

/-- Layout of the 384-byte block for every accepted identity: the encryption key occupies the start, the
    signing key the end, the padding exactly the bytes between, and the declared sizes equal the
    lengths of the keys returned. -/
theorem layout_parsed (w : Bytes) (k : KeysAndCert) (r : Bytes) (h : readKac w = some (k, r)) :
    let cs := cryptoSize k.kc.cpk
    let ss := sigPubSize k.kc.spk
    0 < cs ∧ cs ≤ 256 ∧ 0 < ss ∧ ss ≤ 128 ∧ k.pub.length = cs ∧ k.sig.length = ss ∧ k.padding.length = 384 - cs - ss ∧
    ∃ b, k.bytes = some b ∧ b.take cs = k.pub ∧ (b.take 384).drop (384 - ss) = k.sig ∧
      (b.take (384 - ss)).drop cs = k.padding ∧ b.drop 384 = k.kc.cert.bytes ∧ b.take 384 = w.take 384 :=
  readKac_layout h

/-- The same layout for every value built from fields of the declared sizes (constructor side). -/
theorem layout_constructed (k : KeysAndCert)
    (hcs0 : 0 < cryptoSize k.kc.cpk) (hcs : cryptoSize k.kc.cpk ≤ 256)
    (hss0 : 0 < sigPubSize k.kc.spk) (hss : sigPubSize k.kc.spk ≤ 128)
    (hp : k.pub.length = cryptoSize k.kc.cpk) (hs : k.sig.length = sigPubSize k.kc.spk)
    (hpad : k.padding.length = 384 - cryptoSize k.kc.cpk - sigPubSize k.kc.spk) :
    k.bytes = some (k.pub ++ k.padding ++ k.sig ++ k.kc.cert.bytes) :=
  bytes_of_fields k hcs0 hcs hss0 hss hp hs hpad

end I2P.Props.C10
