import I2P.Alias
import I2P.Proofs.HistoryLemmas
/-! # C08 — parsed values do not share memory with the caller's buffer (model half)

Memory sharing is not a property of byte values, so a pure model cannot *discover* it; what the model does is
state, field by field, which fields are copies, and prove that a value all of whose fields are copies
observes the same bytes whatever the buffer is overwritten with.  The tie is the scribble oracle on the real
library (`sig` `alias:*` and `accessor-alias:*`), which runs for every accepted input of every structure in
scope and for the accessors documented to return copies. -/
namespace I2P.Props.C08
open I2P I2P.Kac I2P.Alias

/-- a value without views observes the same bytes under every later content of the buffer -/
theorem no_views_buffer_independent (fs : Fields) (h : noViews fs = true) (buf buf' : Bytes) :
    observeAll buf fs = observeAll buf' fs := by
  unfold observeAll
  apply List.map_congr_left
  intro f hf
  have := List.all_eq_true.mp h f hf
  cases hfl : f.2 with
  | owned b => simp [Fld.observe, hfl]
  | view o l => simp [Fld.isOwned, hfl] at this

/-- every field of a parsed certificate / KeysAndCert (hence Destination, RouterIdentity) is a copy -/
theorem cert_no_views (c : Cert) : noViews (certFields c) = true := by simp [noViews, certFields, Fld.isOwned]
theorem kac_no_views (k : KeysAndCert) : noViews (kacFields k) = true := by
  simp [noViews, kacFields, certFields, Fld.isOwned]

theorem kac_buffer_independent (k : KeysAndCert) (buf buf' : Bytes) :
    observeAll buf (kacFields k) = observeAll buf' (kacFields k) :=
  no_views_buffer_independent _ (kac_no_views k) buf buf'

/-- non-vacuity / regression witness: with the pre-repair provenance of the Ed25519 key (a sub-slice, D07)
    the observation does depend on the buffer -/
example : ∃ (k : KeysAndCert) (buf buf' : Bytes),
    observeAll buf (kacFieldsBeforeD07 k) ≠ observeAll buf' (kacFieldsBeforeD07 k) := by
  refine ⟨{ kc := { cert := { kind := [0], len := [0, 0], payload := [] }, spk := 7, cpk := 0 }, pub := [], padding := [], sig := [] },
    List.replicate 384 1, List.replicate 384 2, ?_⟩
  decide

/-! ### histories (second sentence of C08; the `!history` operation is the tie)

`History.lean`: the caller may overwrite the input buffer and whatever an accessor handed out, any number of
times. Which accessors are copies is a fact about the Go code, recorded in the harness (`documentedCopies` and the
serialisers in `ops_history.go`, each with the doc comment that promises the copy) and checked on the real library
by overwriting every such result — contents and spare capacity — on every kind and constructor path. -/

/-- for every history: a value without views, all of whose accessors the caller writes through are copies, reports
    the same bytes after any sequence of overwrites of the input buffer and of returned slices -/
theorem history_independent (s : History.State) (h : List History.Step)
    (hv : noViews s.fields = true) (hc : History.copiesOnly h = true) :
    (History.run s h).observe = s.observe := by
  unfold History.State.observe
  rw [History.run_fields_of_copiesOnly s h hc]
  exact no_views_buffer_independent s.fields hv _ _

/-- instance: a parsed KeysAndCert / Destination / RouterIdentity under any history that uses copy accessors only -/
theorem kac_history_independent (k : KeysAndCert) (buf : Bytes) (h : List History.Step)
    (hc : History.copiesOnly h = true) :
    (History.run ⟨buf, kacFields k⟩ h).observe = (⟨buf, kacFields k⟩ : History.State).observe :=
  history_independent _ h (kac_no_views k) hc

/-- non-vacuity / regression witness (D40): with an accessor that shares the padding — `AsDestination` before its
    repair handed out the identity's own padding slice — one write through the result changes what the value reports -/
example : ∃ (k : KeysAndCert) (buf : Bytes) (h : List History.Step),
    (History.run ⟨buf, kacFields k⟩ h).observe ≠ (⟨buf, kacFields k⟩ : History.State).observe := by
  refine ⟨{ kc := { cert := { kind := [5], len := [0, 4], payload := [0, 7, 0, 4] }, spk := 7, cpk := 4 }, pub := [1], padding := [9, 9], sig := [2] },
    [], [.writeResult (.share 1) (fun b => b.map (· ^^^ 0xFF))], ?_⟩
  decide

end I2P.Props.C08
