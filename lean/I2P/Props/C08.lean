import I2P.Alias
/-! # C08 — parsed values do not share memory with the caller's buffer (model half)

Memory sharing is not a property of byte values, so a pure model cannot *discover* it; what the model does is
state, field by field, which fields are copies, and prove that a value all of whose fields are copies
observes the same bytes whatever the buffer is overwritten with.  The tie is the scribble oracle on the real
library (`sig` `alias:*` and `accessor-alias:*`), which runs for every accepted input of every structure in
scope and for the accessors documented to return copies. -/
namespace I2P.Props.C08
open I2P I2P.Kac I2P.Alias

/-- a value without views observes the same bytes under every later content of the buffer -/
theorem no_views_buffer_independent (fs : Fields) (h : noViews fs = true) (buf buf' : Bytes) :
    observeAll buf fs = observeAll buf' fs := by
  unfold observeAll
  apply List.map_congr_left
  intro f hf
  have := List.all_eq_true.mp h f hf
  cases hfl : f.2 with
  | owned b => simp [Fld.observe, hfl]
  | view o l => simp [Fld.isOwned, hfl] at this

/-- every field of a parsed certificate / KeysAndCert (hence Destination, RouterIdentity) is a copy -/
theorem cert_no_views (c : Cert) : noViews (certFields c) = true := by simp [noViews, certFields, Fld.isOwned]
theorem kac_no_views (k : KeysAndCert) : noViews (kacFields k) = true := by
  simp [noViews, kacFields, certFields, Fld.isOwned]

theorem kac_buffer_independent (k : KeysAndCert) (buf buf' : Bytes) :
    observeAll buf (kacFields k) = observeAll buf' (kacFields k) :=
  no_views_buffer_independent _ (kac_no_views k) buf buf'

/-- non-vacuity / regression witness: with the pre-repair provenance of the Ed25519 key (a sub-slice, D07)
    the observation does depend on the buffer -/
example : ∃ (k : KeysAndCert) (buf buf' : Bytes),
    observeAll buf (kacFieldsBeforeD07 k) ≠ observeAll buf' (kacFieldsBeforeD07 k) := by
  refine ⟨{ kc := { cert := { kind := [0], len := [0, 0], payload := [] }, spk := 7, cpk := 0 }, pub := [], padding := [], sig := [] },
    List.replicate 384 1, List.replicate 384 2, ?_⟩
  decide

end I2P.Props.C08
