import I2P.Proofs.CheckedLemmas3Meta
/-! # C04 (part d) — `meta_leaseset.ReadMetaLeaseSet` cannot panic

Property theorems only; the checked mirrors are in `I2P/Checked3Meta.lean` (one Lean function per Go function
of `meta_leaseset/meta_leaseset.go`: `ReadMetaLeaseSet`, `parseDestinationAndHeader`, `validateMinSize`,
`parseDestinationField`, `validateHeaderDataSize`, `parseHeaderFields`, `parseOfflineSignature`,
`parseOptionsMapping`, `fatalMappingError`, `parseEntries`, `validateEntryCount`, `parseSingleEntry`,
`validateEntryMinSize`, `parseEntryFixedFields`, `validateEntryType`, `parseEntryProperties`,
`parseSignatureAndFinalize`), the helper lemmas in `I2P/Proofs/CheckedLemmas3Meta.lean`.

* `readMetaC_refines` — on EVERY input the checked mirror returns `.ok`; it accepts exactly the inputs the
  pure model `Structs.readMeta` accepts, and then the parsed structure re-serialises (`MLS.bytes`, the
  transcription of `MetaLeaseSet.Bytes()`) to the bytes the pure model returns, with the same remainder;
* `readMetaC_no_panic` — the corollary that it never returns `.error _`;
* `readMetaS_any_slice` — the same for an arbitrary Go slice (any underlying array, offset and capacity);
* `meta_entries_loop_bounds`, `meta_entries_loop_iterations`, `metaParseEntriesC_count` — the entries loop:
  number of iterations = the count byte, `1 ≤ count ≤ 16`, every iteration consumes at least 40 bytes.

The reader does not call `Validate()`, and does not parse revocations (the Go struct has none). -/
namespace I2P.Props.C04
open I2P I2P.Spec I2P.Kac I2P.Structs I2P.Checked

/-! ### how a stored Mapping is put on the wire -/

/-- the pure `MappingC.metaDataP` is what the checked `(*Mapping).Data()` returns: it never panics on a stored
    mapping -/
theorem metaMapping_data (m : MappingC) : mappingDataC (some m) = .ok m.metaDataP := mappingDataC_metaDataP m

/-- `MappingC.metaWire` is the Go expression `if len(m.Values()) > 0 { m.Data() } else { 00 00 }` evaluated with the
    checked `Data()` -/
theorem metaMapping_wire (m : MappingC) :
    ∃ d, mappingDataC (some m) = .ok d ∧ m.metaWire = if m.values.length > 0 then d.getD [] else [0, 0] :=
  ⟨_, mappingDataC_metaDataP m, rfl⟩

/-- for a mapping that came out of `ReadMapping` on `w`, the wire form is the `readOptions _ true` rule of the
    pure model: `0000` when no pair was stored, `Data()` of the pure result otherwise -/
theorem metaMapping_wire_of_read (s : Sl) :
    ∃ m rem errs, readMappingS s = .ok (m, rem, errs) ∧
      m.metaWire = if ((Mapping.readMapping s.data).vals.getD []).length = 0 then [0, 0]
               else (Mapping.data (Mapping.readMapping s.data)).getD [] := by
  obtain ⟨m, rem, h, h1, h2, -⟩ := readMappingS_spec s
  exact ⟨m, rem, _, h, metaWire_of_read h1 h2⟩

/-- `fatalMappingError` returns nil exactly for the error lists the pure model accepts (nothing but the
    trailing-data warning) -/
theorem metaFatalMappingError_accepted (errs : List Mapping.E) :
    (metaFatalMappingErrorC (errs.map .m)).isNone = errs.all (· == .beyond) := fatalMappingErrorC_map errs

/-! ### the parse helpers -/

/-- `parseDestinationAndHeader`: never panics; on success the destination pointer is set and destination,
    published, expires, flags and the remainder are those of the pure model's first lines -/
theorem metaParseDestinationAndHeaderC_refines (mls : MLS) (s : Sl) :
    ∃ r, metaParseDestinationAndHeaderC mls s = .ok r ∧
      match r with
      | none => s.len < 505 ∨ readDestination s.data = none ∨
          ∃ k r0, readDestination s.data = some (k, r0) ∧ r0.length < 8
      | some (l, rem) => 505 ≤ s.len ∧ ∃ k r0, readDestination s.data = some (k, r0) ∧ 8 ≤ r0.length ∧
          l = { mls with destination := some k, published := beVal (r0.take 4),
                         expires := beVal ((r0.drop 4).take 2), flags := beVal ((r0.drop 6).take 2) } ∧
          rem.data = r0.drop 8 :=
  metaParseDestinationAndHeaderC_spec mls s

/-- `parseOfflineSignature`: never panics once the destination is set (it dereferences it), and computes the
    `off` value of the pure model; the `uint16(…)` conversion is the identity for a parsed destination -/
theorem metaParseOfflineSignatureC_refines (mls : MLS) (s : Sl) (k : KeysAndCert) (hd : mls.destination = some k)
    (ho : mls.offlineSignature = none) (d r : Bytes) (hk : readDestination d = some (k, r)) :
    ∃ res, metaParseOfflineSignatureC mls s = .ok res ∧
      match res with
      | none => (if mls.flags % 2 = 1 then readOffSig s.data k.kc.spk else some ([], s.data, k.kc.spk)) = none
      | some (l, rem) => ∃ oo : Option OffSig, l = { mls with offlineSignature := oo } ∧
          (oo.isSome ↔ mls.flags % 2 = 1) ∧
          (if mls.flags % 2 = 1 then readOffSig s.data k.kc.spk else some ([], s.data, k.kc.spk)) =
            some (offBytes oo, rem.data, offSigT oo k.kc.spk) :=
  metaParseOfflineSignatureC_spec mls s k hd ho (readDestination_spk16 hk)

/-- `parseOptionsMapping` (`common.ReadMapping` + `fatalMappingError`): never panics, accepts exactly when the
    pure `readOptions _ true` does, stores a mapping whose wire form is the pure model's bytes, and returns the
    pure model's remainder -/
theorem metaParseOptionsMappingC_refines (mls : MLS) (s : Sl) :
    ∃ r, metaParseOptionsMappingC mls s = .ok r ∧
      r.map (fun p => (p.1.options.metaWire, p.2.data)) = readOptions s.data true ∧
      ∀ l rem, r = some (l, rem) → ∃ m, l = { mls with options := m } := by
  obtain ⟨m, rem, h1, h2, h3, hp⟩ := metaParseOptionsMappingC_spec mls s
  rw [hp, metaReadOptions_of_read h1 h2]
  cases Mapping.accepted (Mapping.readMapping s.data) with
  | false => exact ⟨none, rfl, rfl, by intro l rem hh; cases hh⟩
  | true =>
    refine ⟨_, rfl, by simp [h3], ?_⟩
    intro l rem' hh
    simp only [if_true, Option.some.injEq, Prod.mk.injEq] at hh
    exact ⟨m, hh.1.symm⟩

/-- `parseSignatureAndFinalize`: never panics once the destination is set (both branches dereference a
    pointer) -/
theorem metaParseSignatureAndFinalizeC_refines (mls : MLS) (s : Sl) (k : KeysAndCert) (hd : mls.destination = some k)
    (hoff : mls.offlineSignature.isSome ↔ mls.flags % 2 = 1) :
    ∃ r, metaParseSignatureAndFinalizeC mls s = .ok r ∧
      match r with
      | none => readSig s.data (offSigT mls.offlineSignature k.kc.spk) = none
      | some (l, rem) => ∃ sb, l = { mls with signature := sb } ∧
          readSig s.data (offSigT mls.offlineSignature k.kc.spk) = some (sb, rem.data) :=
  metaParseSignatureAndFinalizeC_spec mls s k hd hoff

/-! ### the entries loop

The loop is a structural recursion on a fuel argument (termination is by construction); the ghost counter
`n` in its result is the number of loop bodies (`parseSingleEntry` calls) executed. -/

/-- one loop body (`parseSingleEntry`), for ANY index argument: it never panics unless the indexed store
    `mls.entries[entryIndex] = entry` is out of range, which `metaParseSingleEntryC_in_range` excludes for the
    indices the loop uses -/
theorem metaParseSingleEntryC_panics_only_on_store (mls : MLS) (i : Int) (s : Sl) (e : Panic)
    (h : metaParseSingleEntryC mls i s = .error e) : e = .indexOOB ∧ ¬ (0 ≤ i ∧ i < mls.entries.length) := by
  by_cases h40 : s.len < 40
  · rw [metaParseSingleEntryC_short mls i s h40] at h; cases h
  · cases ht : entryTypeOk s.data with
    | false => rw [metaParseSingleEntryC_badType mls i s (by omega) ht] at h; cases h
    | true =>
      obtain ⟨m, rem, -, -, -, hp⟩ := metaParseSingleEntryC_main mls i s (by omega) ht
      rw [hp] at h
      cases ha : Mapping.accepted (Mapping.readMapping (s.data.drop 38)) with
      | false => simp [ha] at h
      | true =>
        simp only [ha, if_true, setAt] at h
        split at h
        · simp at h
        · rename_i hc
          simp only [bind_error, Except.error.injEq] at h
          exact ⟨h.symm, hc⟩

/-- for an index inside `mls.entries` (the loop only uses `0 … numEntries-1` on a slice of `numEntries`
    elements) the loop body never panics -/
theorem metaParseSingleEntryC_in_range (mls : MLS) (i : Nat) (s : Sl) (hi : i < mls.entries.length) :
    ∃ r, metaParseSingleEntryC mls i s = .ok r := by
  cases h : metaParseSingleEntryC mls i s with
  | ok r => exact ⟨r, rfl⟩
  | error e =>
    have := (metaParseSingleEntryC_panics_only_on_store mls i s e h).2
    omega

/-- every successful loop body consumes at least 40 bytes: hash (32), type (1), expires (4), cost (1) and the
    two size bytes of the properties mapping -/
theorem metaParseSingleEntryC_consumes_40 (mls : MLS) (i : Int) (s : Sl) (l : MLS) (rem : Sl)
    (h : metaParseSingleEntryC mls i s = .ok (some (l, rem))) : rem.len + 40 ≤ s.len :=
  metaParseSingleEntryC_consumes h

/-- entries loop, for arbitrary arguments: at most `fuel` iterations, never past `numEntries`, and every
    iteration strictly shortens the remaining input (by at least 40 bytes) -/
theorem meta_entries_loop_bounds (fuel : Nat) (i numEntries : Int) (mls : MLS) (s : Sl) (l : MLS) (rem : Sl) (n : Nat)
    (h : metaParseEntriesLoopC fuel i numEntries mls s = .ok (some (l, rem, n))) :
    n ≤ fuel ∧ (n = 0 ∨ i + n ≤ numEntries) ∧ rem.len + 40 * n ≤ s.len ∧ 40 * n ≤ s.data.length := by
  obtain ⟨a, b, c⟩ := metaParseEntriesLoopC_bounds fuel i numEntries mls s l rem n h
  exact ⟨a, b, c, by simp; omega⟩

/-- the loop as `parseEntries` runs it (`fuel = numEntries = len(mls.entries) = c`, from index 0): it never
    panics, and when it succeeds it executed exactly `c` bodies, stored `c` entries and consumed at least
    `40·c` bytes -/
theorem meta_entries_loop_iterations (c : Nat) (mls : MLS) (s : Sl) (hc : mls.entries.length = c) :
    ∃ r, metaParseEntriesLoopC c 0 (c : Int) mls s = .ok r ∧
      ∀ l rem n, r = some (l, rem, n) → n = c ∧ l.entries.length = c ∧ rem.len + 40 * c ≤ s.len := by
  obtain ⟨r, hr, hm⟩ := metaEntriesLoop_spec c 0 mls s (by omega)
  simp only [Nat.zero_add, Int.cast_ofNat_Int] at hr
  refine ⟨r, hr, ?_⟩
  intro l rem n e
  subst e
  obtain ⟨hn, hlen, es, hes, hl, -⟩ := hm
  refine ⟨hn, ?_, hlen⟩
  rw [hl]; simp [hes]

/-- `parseEntries`: the number of entries read is the count byte, `1 ≤ count ≤ 16 ≤ 255`, it is also what
    `numEntries` records, and `1 + 40·count` bytes at least were consumed -/
theorem metaParseEntriesC_count (mls : MLS) (s : Sl) (l : MLS) (rem : Sl)
    (h : metaParseEntriesC mls s = .ok (some (l, rem))) :
    ∃ ne : UInt8, s.data.head? = some ne ∧ l.numEntries = ne ∧ l.entries.length = ne.toNat ∧
      1 ≤ ne.toNat ∧ ne.toNat ≤ 16 ∧ ne.toNat ≤ 255 ∧ rem.len + 1 + 40 * ne.toNat ≤ s.len := by
  obtain ⟨r, hr, hm⟩ := metaParseEntriesC_spec mls s
  rw [h] at hr
  cases hr
  obtain ⟨ne, es, hes, h1, h16, hl, hlen, hh, -⟩ := hm
  refine ⟨ne, hh, by rw [hl], by rw [hl]; exact hes, h1, h16, by omega, by omega⟩

/-- `parseEntries` never panics and computes the entry lines of the pure model -/
theorem metaParseEntriesC_refines (mls : MLS) (s : Sl) :
    ∃ r, metaParseEntriesC mls s = .ok r ∧
      r.map (fun p => (p.1.entries.flatMap MetaEntry.bytes, p.2.data)) = metaEntriesPure s.data := by
  obtain ⟨r, hr, hm⟩ := metaParseEntriesC_spec mls s
  refine ⟨r, hr, ?_⟩
  cases r with
  | none => exact hm.symm
  | some p =>
    obtain ⟨l, rem⟩ := p
    obtain ⟨ne, es, -, -, -, hl, -, -, hp⟩ := hm
    rw [hp, hl]; rfl

/-- `metaEntriesPure` is literally the entry-count / entries part of the pure `readMeta` (`metaCont`) -/
theorem readMeta_entries_piece (hb r : Bytes) (sigT : Nat) :
    metaCont hb r sigT =
      match metaEntriesPure r with
      | none => none
      | some (eb, r1) =>
        match readSig r1 sigT with
        | none => none
        | some (sb, r2) => some (hb ++ [r.headD 0] ++ eb ++ sb, r2) :=
  metaCont_eq hb r sigT

/-! ### the reader -/

/-- `ReadMetaLeaseSet` on an arbitrary Go slice (any underlying array, offset and capacity): never panics;
    succeeds exactly when the pure model does, and then `Bytes()` of the parsed value succeeds and returns the
    pure model's bytes, with the pure model's remainder -/
theorem readMetaS_any_slice (s : Sl) :
    ∃ r, readMetaS s = .ok r ∧ vMeta r = (readMeta s.data).map (fun q => (some q.1, q.2)) :=
  readMetaS_spec s

/-- `ReadMetaLeaseSet` on a caller buffer (slice with `cap = len`, the most panic-prone view): never panics;
    the result is `some` exactly when the pure `readMeta` accepts, and then the parsed value re-serialises
    (`Bytes()` succeeds: the pure model's `k.bytes = none` branch is unreachable for a parsed destination) to
    exactly the bytes the pure model returns, with the same remainder -/
theorem readMetaC_refines (w : Bytes) :
    ∃ r, readMetaC w = .ok r ∧
      r.map (fun p => (p.1.bytes, p.2)) = (readMeta w).map (fun q => (some q.1, q.2)) := by
  obtain ⟨r, hr, hv⟩ := readMetaS_spec (.ofBytes w)
  refine ⟨_, onBytes_ok hr, ?_⟩
  rw [Sl.ofBytes_data] at hv
  rw [← hv]; cases r <;> rfl

/-- the same in the shape of `readELSC_refines`: the view "re-serialised bytes and remainder" of the result is
    the pure model's result -/
theorem readMetaC_refines_view (w : Bytes) :
    ∃ r, readMetaC w = .ok r ∧ r.bind (fun p => p.1.bytes.map (fun b => (b, p.2))) = readMeta w := by
  obtain ⟨r, hr, hv⟩ := readMetaC_refines w
  refine ⟨r, hr, ?_⟩
  cases r with
  | none =>
    cases hm : readMeta w with
    | none => rfl
    | some q => rw [hm] at hv; cases hv
  | some p =>
    cases hm : readMeta w with
    | none => rw [hm] at hv; cases hv
    | some q =>
      rw [hm] at hv
      simp only [Option.map_some, Option.some.injEq, Prod.mk.injEq] at hv
      simp only [Option.bind_some, hv.1, Option.map_some, hv.2]

theorem readMetaC_no_panic (w : Bytes) : ∃ r, readMetaC w = .ok r := by
  obtain ⟨r, h, -⟩ := readMetaC_refines w; exact ⟨r, h⟩

/-- whatever `ReadMetaLeaseSet` returns without error can be serialised again -/
theorem readMetaC_serialisable (w : Bytes) (m : MLS) (rem : Bytes) (h : readMetaC w = .ok (some (m, rem))) :
    ∃ b, m.bytes = some b ∧ readMeta w = some (b, rem) := by
  obtain ⟨r, hr, hv⟩ := readMetaC_refines w
  rw [h] at hr
  cases hr
  cases hm : readMeta w with
  | none => rw [hm] at hv; cases hv
  | some q =>
    rw [hm] at hv
    simp only [Option.map_some, Option.some.injEq, Prod.mk.injEq] at hv
    exact ⟨q.1, hv.1, by rw [hv.2]⟩

/-- the reader accepts exactly the inputs of the pure model -/
theorem readMetaC_accepts_iff (w : Bytes) :
    (∃ m rem, readMetaC w = .ok (some (m, rem))) ↔ (readMeta w).isSome := by
  obtain ⟨r, hr, hv⟩ := readMetaC_refines w
  constructor
  · rintro ⟨m, rem, h⟩
    rw [h] at hr; cases hr
    cases hm : readMeta w with
    | none => rw [hm] at hv; cases hv
    | some q => rfl
  · intro h
    cases r with
    | none =>
      cases hm : readMeta w with
      | none => rw [hm] at h; cases h
      | some q => rw [hm] at hv; cases hv
    | some p => exact ⟨p.1, p.2, hr⟩

/-- the statements are not vacuous: the example MetaLeaseSet of `StructLemmas` (one entry, no offline
    signature, empty options) is accepted and round-trips -/
example : ∃ m, readMetaC exMeta = .ok (some (m, [])) ∧ m.bytes = some exMeta := by
  obtain ⟨r, hr, hv⟩ := readMetaC_refines exMeta
  rw [show readMeta exMeta = some (exMeta, []) by decide +kernel] at hv
  cases r with
  | none => cases hv
  | some p =>
    obtain ⟨m, rem⟩ := p
    simp only [Option.map_some, Option.some.injEq, Prod.mk.injEq] at hv
    exact ⟨m, by rw [hr, hv.2], hv.1⟩

/-! ### the guards are load-bearing

The checked primitives really detect Go's run-time errors: each helper DOES panic when it is called without
the check that its caller performs first.  (These are not defects: `ReadMetaLeaseSet` always performs the
checks; the examples show that the no-panic theorems above are not vacuous.) -/

/-- `parseEntryFixedFields` without `validateEntryMinSize`: on 10 bytes `data[:32]` is out of range … -/
example : metaParseEntryFixedFieldsC {} (.ofBytes (List.replicate 10 0)) = .error .sliceOOB := by rfl
/-- … and on 37 bytes the cost byte `data[0]` is -/
example : metaParseEntryFixedFieldsC {} (.ofBytes (List.replicate 37 0)) = .error .indexOOB := by rfl
/-- `parseHeaderFields` without `validateHeaderDataSize` -/
example : metaParseHeaderFieldsC {} (.ofBytes (List.replicate 7 0)) = .error .sliceOOB := by rfl
/-- `parseOfflineSignature` / `parseSignatureAndFinalize` before the destination is set: nil dereference -/
example : metaParseOfflineSignatureC { flags := 1 } (.ofBytes []) = .error .nilDeref := by rfl
example : metaParseSignatureAndFinalizeC {} (.ofBytes []) = .error .nilDeref := by rfl
set_option maxRecDepth 20000 in
/-- `parseSingleEntry` before `mls.entries = make(…)`: the indexed store is out of range -/
example : metaParseSingleEntryC {} 0 (.ofBytes exEntry) = .error .indexOOB := by rfl

end I2P.Props.C04
