import I2P.Proofs.SpecLemmas
import I2P.Proofs.DataLemmas
import I2P.Proofs.SpecLemmasMeta
import I2P.Proofs.SpecLemmasRouter
/-! # C02 — wire format agrees with the I2P 0.9.67 specification, both directions

Property theorems only; helper lemmas live in `I2P/Proofs/SpecLemmas*.lean`.

* The SPEC side is `I2P/Spec/Structs.lean`: records holding exactly the specification's fields and a
  `Codec` per structure (`encode = codec.write`, `decode = codec.read`, `wf = codec.wf`) built from the
  lawful combinators of `I2P/Spec/Codec.lean`.  It never mentions the model of the code.
* The CODE side is the code-mirroring model `I2P/Kac.lean`, `I2P/Mapping.lean`, `I2P/Structs.lean`
  (tied to /repo by the correspondence runs of C01/C03).  Its readers return the re-serialisation
  (`Bytes()`) of the accepted value and the remainder.

(→)  `X_accepts`:   spec-wf v → Accepted v → reader (encode v ++ x) = some (encode v, x)
     — every well-formed encoding is accepted, exactly the encoding is consumed, `Bytes()` reproduces it;
     `X_roundtrip`: spec-wf v → decode (encode v ++ x) = some (v, x)
     — the encoding determines every field value (so "exposes exactly the encoded field values" has
     content: the parser's `Bytes()` equals an encoding from which the spec decoder recovers all fields).
(←)  `…_decodes`: what a modelled constructor / serialiser emits decodes to the argument fields.

Every hypothesis named `…Accepted` / `…Supported` is a RESTRICTION OF THE PARSER relative to the
layout; each field is documented where the structure is declared (Proofs/SpecLemmas*.lean) and listed
in the doc comment of the theorem using it. -/

namespace I2P.Props.C02
open I2P I2P.Spec I2P.Kac I2P.Structs I2P.Mapping I2P.SpecLemmas

/-! ## (→) identities -/

/-- KeysAndCert.  Restriction: `KacSupported` = signing type ∈ {0,1,2,7,8,11} and crypto type ∈ {0,4,5,6,7}
    (the types whose keys the library can construct; P521 and RSA signing keys, P256/P384/P521 crypto
    keys are in the specification's tables but are refused). -/
theorem keysAndCert_accepts (v : SIdentity) (x : Bytes) (h : v.wf) (hs : KacSupported v) :
    ∃ k, readKac (identityCodec.write v ++ x) = some (k, x) ∧ k.bytes = some (identityCodec.write v) ∧
      k.pub = v.cryptoKey ∧ k.padding = v.padding ∧ k.sig = v.sigKey ∧ k.kc.spk = v.sigType ∧ k.kc.cpk = v.cryptoType := by
  obtain ⟨k, hr, h1, h2, h3, h4, h5, h6⟩ := identity_readKac v x h hs
  exact ⟨k, hr, h6, h1, h2, h3, h4, h5⟩

/-- Destination: additionally the Destination key-type policy (`destAllowed`). -/
theorem destination_accepts (v : SIdentity) (x : Bytes) (h : v.wf) (hs : DestSupported v) :
    ∃ k, readDestination (identityCodec.write v ++ x) = some (k, x) ∧ k.bytes = some (identityCodec.write v) ∧
      k.pub = v.cryptoKey ∧ k.padding = v.padding ∧ k.sig = v.sigKey ∧ k.kc.spk = v.sigType ∧ k.kc.cpk = v.cryptoType := by
  obtain ⟨k, hr, h1, h2, h3, h4, h5, h6⟩ := identity_readKac v x h hs.1
  exact ⟨k, readDestination_complete hr (by rw [h4, h5]; exact hs.2), h6, h1, h2, h3, h4, h5⟩

/-- RouterIdentity: additionally the RouterIdentity key-type policy (`ridAllowed`). -/
theorem routerIdentity_accepts (v : SIdentity) (x : Bytes) (h : v.wf) (hs : KacSupported v)
    (ha : ridAllowed v.sigType v.cryptoType = true) :
    ∃ k, readRouterIdentity (identityCodec.write v ++ x) = some (k, x) ∧ k.bytes = some (identityCodec.write v) ∧
      k.pub = v.cryptoKey ∧ k.padding = v.padding ∧ k.sig = v.sigKey ∧ k.kc.spk = v.sigType ∧ k.kc.cpk = v.cryptoType := by
  obtain ⟨k, hr, h1, h2, h3, h4, h5, h6⟩ := identity_readKac v x h hs
  exact ⟨k, readRouterIdentity_complete hr (by rw [h4, h5]; exact ha), h6, h1, h2, h3, h4, h5⟩

/-- key alignment inside the 384-byte block is part of the agreement: the crypto key is the first
    bytes of the encoding, the signing key its bytes ending at offset 384 -/
theorem identity_key_alignment (v : SIdentity) (h : v.wf) :
    (identityCodec.write v).take v.cryptoKey.length = v.cryptoKey ∧
    ((identityCodec.write v).take 384).drop (384 - v.sigKey.length) = v.sigKey := by
  have hb : (v.cryptoKey ++ (v.padding ++ v.sigKey)).length = 384 := by
    obtain ⟨nc, st, ct, ck, pad, sk, ex⟩ := v
    cases nc with
    | true =>
      simp only [SIdentity.wf, if_true] at h
      obtain ⟨_, _, hck, rfl, hsk, _⟩ := h
      simp only [List.length_append, List.length_nil, hck, hsk]
    | false =>
      simp only [SIdentity.wf, Bool.false_eq_true, if_false] at h
      obtain ⟨_, _, hs128, hck, hsk, hpad, _⟩ := h
      have := cryptoSize_le ct
      simp only [List.length_append, hck, hsk, hpad]; omega
  rw [identityCodec_write]
  refine ⟨?_, ?_⟩
  · rw [List.append_assoc]; exact List.take_left' rfl
  · rw [List.take_left' hb, ← List.append_assoc]
    exact List.drop_left' (by rw [List.length_append] at hb ⊢; simp only [List.length_append] at hb; omega)

/-! ## (→) Mapping -/

/-- Restrictions (`MappingAccepted`): no duplicate keys; at most 1000 pairs (the parser stops there). -/
theorem mapping_accepts (m : SMapping) (x : Bytes) (h : SMapping.wf m) (ha : MappingAccepted m) :
    accepted (readMapping (mappingCodec.write m ++ x)) = true ∧
    (readMapping (mappingCodec.write m ++ x)).rem = x ∧
    Mapping.data (readMapping (mappingCodec.write m ++ x)) = some (mappingCodec.write m) ∧
    ((readMapping (mappingCodec.write m ++ x)).vals.map fun ps => ps.map dec) = some m := by
  refine ⟨mapping_accepted m x h ha, ?_, mapping_data m x h ha, ?_⟩
  · rw [mapping_readMapping m x h ha]
  · rw [mapping_readMapping m x h ha]
    show some ((m.map enc).map dec) = some m
    rw [map_dec_enc m (short_of_wf m h)]

/-! ## (→) Lease, Lease2, OfflineSignature, Signature -/

theorem lease_accepts (v : SLease) (x : Bytes) (h : v.wf) :
    readFixedN 44 (leaseCodec.write v ++ x) = some (leaseCodec.write v, x) := by
  have := fixed_accepts (leaseCodec.write v) x 1 44 (by rw [lease_write_length v h])
  rwa [readFixed_eq] at this

theorem lease2_accepts (v : SLease2) (x : Bytes) (h : v.wf) :
    readFixedN 40 (lease2Codec.write v ++ x) = some (lease2Codec.write v, x) := by
  have := fixed_accepts (lease2Codec.write v) x 1 40 (by rw [lease2_write_length v h])
  rwa [readFixed_eq] at this

/-- the transient type handed on is the encoded one -/
theorem offlineSignature_accepts (destType : Nat) (v : SOfflineSig) (x : Bytes) (h : v.wf destType) :
    readOffSig ((offlineCodec destType).write v ++ x) destType = some ((offlineCodec destType).write v, x, v.transientType) :=
  offline_readOffSig destType v x h

theorem signature_accepts (s x : Bytes) (t : Nat) (hl : s.length = sigLen t) (h0 : sigLen t ≠ 0) :
    readSig (s ++ x) t = some (s, x) := sig_accepts s x t hl h0

/-! ## (→) the composite structures -/

/-- LeaseSet2.  Restrictions (`LeaseSet2Accepted`): destination key types the library supports and the
    Destination policy; options without duplicate keys and with at most 1000 pairs; and the encoding must
    have at least 499 bytes (`LEASESET2_MIN_SIZE`) — the layout allows shorter ones (finding D30).
    Counts: 1..16 keys, 0..16 leases, any key type code with an explicit length: all in `SLeaseSet2.wf`. -/
theorem leaseSet2_accepts (v : SLeaseSet2) (x : Bytes) (h : v.wf) (ha : LeaseSet2Accepted v) :
    readLeaseSet2 (leaseSet2Codec.write v ++ x) = some (leaseSet2Codec.write v, x) :=
  SpecLemmas.leaseSet2_accepts v x h ha

/-- MetaLeaseSet.  Restrictions (`MetaLeaseSetAccepted`): as for LeaseSet2, for the options and for every
    entry's properties; at least 505 bytes (`META_LEASESET_MIN_SIZE`, finding D31). -/
theorem metaLeaseSet_accepts (v : SMetaLeaseSet) (x : Bytes) (h : v.wf) (ha : MetaLeaseSetAccepted v) :
    readMeta (metaLeaseSetCodec.write v ++ x) = some (metaLeaseSetCodec.write v, x) :=
  SpecLemmas.metaLeaseSet_accepts v x h ha

/-- EncryptedLeaseSet.  Restrictions (`EncryptedLeaseSetAccepted`): reserved flag bits zero, expires ≠ 0,
    at least 61 bytes of inner data (the reader runs `Validate`). -/
theorem encryptedLeaseSet_accepts (v : SEncryptedLeaseSet) (x : Bytes) (h : v.wf) (ha : EncryptedLeaseSetAccepted v) :
    readELS (encryptedLeaseSetCodec.write v ++ x) = some (encryptedLeaseSetCodec.write v, x) :=
  SpecLemmas.encryptedLeaseSet_accepts v x h ha

/-- RouterAddress.  Restriction: options without duplicate keys, at most 1000 pairs. -/
theorem routerAddress_accepts (v : SRouterAddress) (x : Bytes) (h : v.wf) (ha : MappingAccepted v.options) :
    readRouterAddress (routerAddressCodec.write v ++ x) = some (routerAddressCodec.write v, x) :=
  SpecLemmas.routerAddress_accepts v x h ha

/-- RouterInfo.  Restrictions (`RouterInfoAccepted`): identity key types / RouterIdentity policy; no peer
    hashes (`peers = []`: the parser reads the count byte only); mappings as above.  0..255 addresses. -/
theorem routerInfo_accepts (v : SRouterInfo) (x : Bytes) (h : v.wf) (ha : RouterInfoAccepted v) :
    readRouterInfo (routerInfoCodec.write v ++ x) = some (routerInfoCodec.write v, x) :=
  SpecLemmas.routerInfo_accepts v x h ha

/-- LeaseSet (type 1).  Restrictions (`LeaseSetAccepted`): destination as above; the ElGamal key VALUE and,
    for a NULL-certificate destination, the DSA revocation key VALUE are range-checked. -/
theorem leaseSet_accepts (v : SLeaseSet) (x : Bytes) (h : v.wf) (ha : LeaseSetAccepted v) :
    readLeaseSet (leaseSetCodec.write v ++ x) = some (leaseSetCodec.write v, x) :=
  SpecLemmas.leaseSet_accepts v x h ha

/-! ## the spec codec round-trips: the encoding determines every field -/

theorem identity_roundtrip (v : SIdentity) (x : Bytes) (h : v.wf) :
    identityCodec.read (identityCodec.write v ++ x) = some (v, x) := identityCodec.complete x h
theorem mapping_roundtrip (m : SMapping) (x : Bytes) (h : SMapping.wf m) :
    mappingCodec.read (mappingCodec.write m ++ x) = some (m, x) := mappingCodec.complete x ((mappingCodec_wf m).2 h)
theorem lease_roundtrip (v : SLease) (x : Bytes) (h : v.wf) :
    leaseCodec.read (leaseCodec.write v ++ x) = some (v, x) := leaseCodec.complete x h
theorem lease2_roundtrip (v : SLease2) (x : Bytes) (h : v.wf) :
    lease2Codec.read (lease2Codec.write v ++ x) = some (v, x) := lease2Codec.complete x h
theorem offlineSignature_roundtrip (t : Nat) (v : SOfflineSig) (x : Bytes) (h : v.wf t) :
    (offlineCodec t).read ((offlineCodec t).write v ++ x) = some (v, x) := (offlineCodec t).complete x h
theorem leaseSet2_roundtrip (v : SLeaseSet2) (x : Bytes) (h : v.wf) :
    leaseSet2Codec.read (leaseSet2Codec.write v ++ x) = some (v, x) := leaseSet2Codec.complete x ((leaseSet2Codec_wf v).2 h)
theorem metaLeaseSet_roundtrip (v : SMetaLeaseSet) (x : Bytes) (h : v.wf) :
    metaLeaseSetCodec.read (metaLeaseSetCodec.write v ++ x) = some (v, x) :=
  metaLeaseSetCodec.complete x ((metaLeaseSetCodec_wf v).2 h)
theorem encryptedLeaseSet_roundtrip (v : SEncryptedLeaseSet) (x : Bytes) (h : v.wf) :
    encryptedLeaseSetCodec.read (encryptedLeaseSetCodec.write v ++ x) = some (v, x) :=
  encryptedLeaseSetCodec.complete x ((encryptedLeaseSetCodec_wf v).2 h)
theorem leaseSet_roundtrip (v : SLeaseSet) (x : Bytes) (h : v.wf) :
    leaseSetCodec.read (leaseSetCodec.write v ++ x) = some (v, x) := leaseSetCodec.complete x ((leaseSetCodec_wf v).2 h)
theorem routerAddress_roundtrip (v : SRouterAddress) (x : Bytes) (h : v.wf) :
    routerAddressCodec.read (routerAddressCodec.write v ++ x) = some (v, x) := routerAddressCodec.complete x h
theorem routerInfo_roundtrip (v : SRouterInfo) (x : Bytes) (h : v.wf) :
    routerInfoCodec.read (routerInfoCodec.write v ++ x) = some (v, x) := routerInfoCodec.complete x ((routerInfoCodec_wf v).2 h)

/-- two well-formed values with the same encoding (even followed by different streams) are the same
    value: no field is lost or confused by the layout (instance for LeaseSet2; holds for every codec) -/
theorem leaseSet2_encoding_injective (a b : SLeaseSet2) (x y : Bytes) (ha : a.wf) (hb : b.wf)
    (h : leaseSet2Codec.write a ++ x = leaseSet2Codec.write b ++ y) : a = b ∧ x = y :=
  leaseSet2Codec.write_append_inj ((leaseSet2Codec_wf a).2 ha) ((leaseSet2Codec_wf b).2 hb) h

/-- whatever the spec decoder accepts is well-formed and is the encoding it was read from
    (`sound` + `consumed`; instance for LeaseSet2) -/
theorem leaseSet2_decode_sound (w : Bytes) (v : SLeaseSet2) (r : Bytes) (h : leaseSet2Codec.read w = some (v, r)) :
    v.wf ∧ leaseSet2Codec.write v ++ r = w :=
  ⟨(leaseSet2Codec_wf v).1 (leaseSet2Codec.sound h), leaseSet2Codec.consumed h⟩

/-- (→) composed with the round trip: the bytes the parser model re-serialises decode, with the
    independent decoder, to exactly the encoded value -/
theorem leaseSet2_exposes_fields (v : SLeaseSet2) (x : Bytes) (h : v.wf) (ha : LeaseSet2Accepted v) :
    ∃ b, readLeaseSet2 (leaseSet2Codec.write v ++ x) = some (b, x) ∧ leaseSet2Codec.read b = some (v, []) :=
  ⟨_, leaseSet2_accepts v x h ha, leaseSet2Codec.read_write ((leaseSet2Codec_wf v).2 h)⟩

/-! ## (←) what the modelled constructors and serialisers emit decodes to the arguments -/

/-- `data.NewIntegerFromInt(v, n)` (`v` a non-negative Go `int`, `1 ≤ n ≤ 8`): the bytes are the n-byte
    big-endian Integer of the layout -/
theorem newInteger_decodes (v n : Nat) (b : Bytes) (hn1 : 1 ≤ n) (hn8 : n ≤ 8) (hv : v < 2 ^ 63)
    (h : newIntegerFromInt (v : Int) (n : Int) = some b) : (beInt n).read b = some (v, []) := by
  rw [newInt_nat v n hn1 hn8 hv] at h
  split at h
  · rename_i hlt
    injection h with h
    subst h
    exact (beInt n).read_write (show v < 256 ^ n from hlt)
  · cases h

/-- `data.NewI2PString` / `ToI2PString`: the bytes are the String of the layout -/
theorem newString_decodes (s b : Bytes) (h : newStr s = some b) : str.read b = some (s, []) := by
  unfold newStr at h
  split at h
  · cases h
  · rename_i hl
    injection h with h
    subst h
    have hw : str.write s = UInt8.ofNat s.length :: s := by
      show beEnc 1 s.length ++ s = _
      rw [beEnc_one _ (by omega)]; rfl
    rw [← hw]
    exact str.read_write (show s.length < 256 ^ 1 by omega)

/-- `data.GoMapToMapping` (a Go map = association list in SOME iteration order, distinct keys): whenever
    it succeeds, `Mapping.Data()` of the result decodes — with the independent decoder — to exactly the
    pairs of the map, in the specification's canonical order (strictly increasing keys), nothing left over -/
theorem goMapToMapping_decodes (m : List (Bytes × Bytes)) (ps : List Pair) (hd : (m.map (·.1)).Nodup)
    (h : goMapToMapping m = some ps) :
    ∃ l, mappingCodec.read (dataOf ps) = some (l, []) ∧ l.Perm m ∧ l.Pairwise (fun a b => bytesLt a.1 b.1 = true) := by
  have hw : Short m ∧ (m.map fun p => p.1.length + p.2.length + 4).sum ≤ 65535 := by
    apply Classical.byContradiction
    intro hn
    rw [goMapToMapping_none m hn] at h
    cases h
  have hps : ps = sortPairs (m.map enc) := by
    rw [goMapToMapping_some m hw.1 hw.2] at h
    exact (Option.some.inj h).symm
  subst hps
  refine ⟨(sortPairs (m.map enc)).map dec, ?_, sorted_dec_perm m hw.1, sorted_strict m hw.1 hd⟩
  have hperm := sorted_dec_perm m hw.1
  have hshort : Short ((sortPairs (m.map enc)).map dec) := (Short_perm hperm).mpr hw.1
  have hencdec : ((sortPairs (m.map enc)).map dec).map enc = sortPairs (m.map enc) := by
    rw [List.map_map]
    conv => rhs; rw [← List.map_id (sortPairs (m.map enc))]
    apply List.map_congr_left
    intro q hq
    obtain ⟨p, hp, rfl⟩ := List.mem_map.mp ((sortPairs_perm (m.map enc)).mem_iff.mp hq)
    show enc (dec (enc p)) = enc p
    rw [dec_enc p (hw.1 p hp)]
  have hwrite : mappingCodec.write ((sortPairs (m.map enc)).map dec) = dataOf (sortPairs (m.map enc)) := by
    rw [mapping_write_eq _ hshort, hencdec]
  rw [← hwrite]
  apply mappingCodec.read_write
  rw [mappingCodec_wf]
  refine ⟨hshort, ?_⟩
  have : SMapping.bodySize ((sortPairs (m.map enc)).map dec) = (m.map fun p => p.1.length + p.2.length + 4).sum :=
    (hperm.map _).sum_nat
  rw [this]; exact hw.2

/-- `certificate.NewCertificateWithType(5, types ‖ extra)` + `KeysAndCert.Bytes()` (the serialiser behind
    `NewKeysAndCert`, `NewDestination`, `NewRouterIdentity`): for keys and padding of the sizes the
    certificate demands, the bytes decode to exactly the argument fields -/
def keyIdentity (s c : Nat) (pub pad sk extra : Bytes) : SIdentity :=
  { nullCert := false, sigType := s, cryptoType := c, cryptoKey := pub, padding := pad, sigKey := sk, certExtra := extra }

theorem keysAndCert_bytes_decodes (s c : Nat) (pub pad sk extra : Bytes) (cert : Cert)
    (hs : sigPubSize s ≠ 0) (hs128 : sigPubSize s ≤ 128) (hc : cryptoSize c ≠ 0)
    (hcert : newCertWithType 5 (beEnc 2 s ++ (beEnc 2 c ++ extra)) = some cert)
    (hpub : pub.length = cryptoSize c) (hsk : sk.length = sigPubSize s)
    (hpad : pad.length = 384 - cryptoSize c - sigPubSize s) :
    ∃ b, KeysAndCert.bytes { kc := { cert := cert, spk := s, cpk := c }, pub := pub, padding := pad, sig := sk } = some b ∧
      identityCodec.read b = some (keyIdentity s c pub pad sk extra, []) := by
  have hlen : (beEnc 2 s ++ (beEnc 2 c ++ extra)).length = 4 + extra.length := by
    simp only [List.length_append, beEnc_length]; omega
  have hex : extra.length ≤ 65531 := by
    unfold newCertWithType at hcert
    split at hcert
    · cases hcert
    split at hcert
    · cases hcert
    · rename_i h2; rw [hlen] at h2; omega
  have hcb : cert.bytes = [5] ++ (beEnc 2 (4 + extra.length) ++ (beEnc 2 s ++ (beEnc 2 c ++ extra))) := by
    unfold newCertWithType at hcert
    split at hcert
    · cases hcert
    split at hcert
    · cases hcert
    split at hcert
    · rename_i h3; exact absurd h3.1 (by decide)
    split at hcert
    · rename_i h3; exact absurd h3.1 (by decide)
    split at hcert
    · rename_i h3; exact absurd h3.1 (by decide)
    injection hcert with hcert
    subst hcert
    show [UInt8.ofNat 5] ++ beEnc 2 (beEnc 2 s ++ (beEnc 2 c ++ extra)).length ++
        (beEnc 2 s ++ (beEnc 2 c ++ extra)).take (beVal (beEnc 2 (beEnc 2 s ++ (beEnc 2 c ++ extra)).length)) = _
    rw [hlen, beVal_beEnc 2 _ (by omega), ← hlen, List.take_length]
    simp only [List.append_assoc]
    rfl
  have hc256 := cryptoSize_le c
  have hb := bytes_of_fields { kc := { cert := cert, spk := s, cpk := c }, pub := pub, padding := pad, sig := sk }
    (by show 0 < cryptoSize c; omega) hc256 (by show 0 < sigPubSize s; omega) hs128 hpub hsk hpad
  refine ⟨_, hb, ?_⟩
  have hv : SIdentity.wf (keyIdentity s c pub pad sk extra) := by
    simp only [keyIdentity, SIdentity.wf, Bool.false_eq_true, if_false]
    exact ⟨hc, hs, hs128, hpub, hsk, hpad, hex⟩
  have hw : identityCodec.write (keyIdentity s c pub pad sk extra) = pub ++ pad ++ sk ++ cert.bytes := by
    rw [identityCodec_write, hcb]
    simp only [keyIdentity, SIdentity.certType, SIdentity.certPayload, Bool.false_eq_true, if_false, hlen, List.append_assoc]
  rw [← hw]
  exact identityCodec.read_write hv

/-! ## non-vacuity: the hypotheses are satisfiable -/

/-- a concrete LeaseSet2 (Ed25519/X25519 destination, one X25519 key, one lease, no offline block, empty
    options) satisfies `wf` and `LeaseSet2Accepted` -/
def exDest : SIdentity :=
  { nullCert := false, sigType := 7, cryptoType := 4, cryptoKey := List.replicate 32 1, padding := List.replicate 320 2,
    sigKey := List.replicate 32 3, certExtra := [] }

def exLS2 : SLeaseSet2 :=
  { dest := exDest, published := 1, expires := 600, flags := 0, offline := none, options := [],
    keys := [{ keyType := 4, data := List.replicate 32 9 }], leases := [{ gateway := List.replicate 32 5, tunnelId := 7, endDate := 8 }],
    signature := List.replicate 64 6 }

theorem exDest_wf : exDest.wf := by
  simp only [exDest, SIdentity.wf, Bool.false_eq_true, if_false, List.length_replicate]
  decide

theorem exLS2_length : (leaseSet2Codec.write exLS2).length = 543 := by
  rw [leaseSet2Codec_write, identityCodec_write]
  simp only [exLS2, exDest, SIdentity.certType, SIdentity.certPayload, offlineBytes, mappingCodec_write, encKeyCodec_write,
    lease2Codec_write, writeAll_cons, writeAll_nil, Bool.false_eq_true, if_false, List.length_append, List.length_replicate,
    List.length_cons, List.length_nil, beEnc_length]

example : exLS2.wf ∧ LeaseSet2Accepted exLS2 := by
  refine ⟨?_, ⟨⟨⟨rfl, rfl⟩, rfl⟩, ⟨List.nodup_nil, Nat.zero_le _⟩, by rw [exLS2_length]; decide⟩⟩
  refine ⟨exDest_wf, by decide, by decide, by decide, rfl, ⟨fun p hp => absurd hp List.not_mem_nil, Nat.zero_le _⟩,
    ⟨Nat.le_refl _, by decide, ?_⟩, ⟨by decide, ?_⟩, ?_⟩
  · intro k hk
    simp only [exLS2, List.mem_singleton] at hk
    subst hk
    exact ⟨by decide, by simp only [List.length_replicate]; decide⟩
  · intro l hl
    simp only [exLS2, List.mem_singleton] at hl
    subst hl
    exact ⟨List.length_replicate, by decide, by decide⟩
  · show (List.replicate 64 (6 : UInt8)).length = sigLen 7
    rw [List.length_replicate]; rfl

end I2P.Props.C02
