import I2P.Proofs.C16Lemmas
/-! # C16 — encrypted LeaseSet2 payload and destination blinding

Property theorems only.  The model (`I2P/Crypto16.lean`) is *symbolic*: `EncScheme` / `BlindScheme` carry the
primitives as parameters and every fact about them is a named hypothesis of the theorem that uses it:

* laws, true of the real primitives: `DhComm`, `DhDefined`, `PubLen`, `TagLen`, `CtLen`, `AeadCorrect`, `BlindLen`;
* idealisations of computational security, relative to one session: `AeadAuthAt` (`aead_auth`),
  `AeadWrongKeyAt`, `DeriveInj`, `DhInjOn canon` (`dh_inj`), `BlindInj`.

`AeadCorrect` (global) and `AeadAuthAt` (nothing but the sealed triple opens under the session key) cannot
hold together — whoever knows the key can seal something else — so `roundtrip` and `tamper_partial` are
proved under *separate* hypothesis sets; each set is shown satisfiable by an `example` at the end. -/

namespace I2P.Props.C16
open I2P I2P.Structs I2P.Crypto16

/-- the bytes of a LeaseSet2 the reader accepts completely (then its re-serialisation is `l` itself) -/
def ValidLS2 (l : Bytes) : Prop := ∃ b, readLeaseSet2 l = some (b, [])

/-- **Layout.**  A successful encryption is `eph_pub(32) ‖ nonce(12) ‖ ciphertext(|plain|) ‖ tag(16)` where
    (ciphertext, tag) seal the plaintext under `derive (dh ephPriv recipientPub)` and the nonce, with no
    associated data; the four parts are recovered by position. -/
theorem layout (E : EncScheme) (pub_len : PubLen E) (tag_len : TagLen E) (ct_len : CtLen E)
    (l rp eph nonce blob : Bytes) (heph : eph.length = 32) (henc : encryptLS2 E l rp eph nonce = some blob) :
    ∃ s, E.dh eph rp = some s ∧
      blob = E.pub eph ++ nonce ++ (E.aeadSeal (E.derive s) nonce l).1 ++ (E.aeadSeal (E.derive s) nonce l).2 ∧
      (E.pub eph).length = 32 ∧ nonce.length = 12 ∧
      (E.aeadSeal (E.derive s) nonce l).1.length = l.length ∧ (E.aeadSeal (E.derive s) nonce l).2.length = 16 ∧
      blob.length = 32 + 12 + l.length + 16 ∧
      blob.take 32 = E.pub eph ∧ (blob.drop 32).take 12 = nonce ∧
      (blob.drop 44).take l.length = (E.aeadSeal (E.derive s) nonce l).1 ∧
      (blob.drop 44).drop l.length = (E.aeadSeal (E.derive s) nonce l).2 := by
  obtain ⟨_, hn, s, hs, hb⟩ := encrypt_some henc
  have hp := pub_len eph heph
  have ht := tag_len (E.derive s) nonce l
  have hc := ct_len (E.derive s) nonce l
  obtain ⟨h1, h2, h3, h4, h5⟩ := blob_split _ _ (E.aeadSeal (E.derive s) nonce l).1 _ hp hn ht
  have hlen : ((E.pub eph ++ nonce ++ (E.aeadSeal (E.derive s) nonce l).1 ++
      (E.aeadSeal (E.derive s) nonce l).2).drop 44).length - 16 = l.length := by
    rw [List.length_drop, h5, hc]; omega
  rw [hlen] at h3 h4
  refine ⟨s, hs, hb, hp, hn, hc, ht, ?_, ?_, ?_, ?_, ?_⟩
  · rw [hb, h5, hc]; omega
  · rw [hb]; exact h1
  · rw [hb]; exact h2
  · rw [hb]; exact h3
  · rw [hb]; exact h4

/-- **Round trip.**  Under `dh_comm` and `aead_correct` (and the length laws), for every LeaseSet2 `l`, key
    pair `(sk, pub sk)`, ephemeral key, nonce and cookie: encryption to `pub sk` succeeds and decryption with
    `sk` returns a LeaseSet2 with exactly the bytes `l`. -/
theorem roundtrip (E : EncScheme) (dh_comm : DhComm E) (dh_defined : DhDefined E) (aead_correct : AeadCorrect E)
    (pub_len : PubLen E) (pub_canonical : PubCanonical E) (tag_len : TagLen E)
    (l sk eph nonce cookie : Bytes) (hl : ValidLS2 l)
    (hsk : sk.length = 32) (heph : eph.length = 32) (hn : nonce.length = 12) (hc : cookie.length = 32) :
    ∃ blob, encryptLS2 E l (E.pub sk) eph nonce = some blob ∧ decryptLS2 E cookie blob sk = some l := by
  obtain ⟨s, hs⟩ := Option.isSome_iff_exists.mp (dh_defined eph sk heph hsk)
  refine ⟨_, encrypt_of_dh (pub_len sk hsk) hn hs, ?_⟩
  rw [decrypt_parts E cookie _ nonce _ _ sk hc hsk (pub_len eph heph) hn (tag_len _ _ _)]
  rw [if_pos (pub_canonical eph), dh_comm sk eph, hs]
  simp only [Option.bind_some]
  rw [aead_correct]
  simp only [Option.bind_some]
  obtain ⟨b, hb⟩ := hl
  rw [hb]
  have := readLeaseSet2_consumed hb
  simp at this
  simp [this]

/-- **Tampering and wrong key (partial).**  Let `blob` be an honest encryption of `l` to `pub sk`, `s` the
    shared secret.  Under the idealisations `aead_auth`, `aead_wrong_key`, `derive_inj` and `dh_inj` on
    `canon` strings:

    1. every blob of the same length that differs from `blob` *either* only after the ephemeral key *or*
       only in the ephemeral key — in particular every blob obtained by modifying one byte — is rejected,
       provided that, in the second case, the new ephemeral key is `canon`;
    2. every private key whose shared secret with the ephemeral key differs is rejected.

    What is excluded, exactly: (a) replacement ephemeral keys that have bit 255 clear and are outside `canon`
    (strings with bit 255 set are rejected by `validateEphemeralPublicKey`, the fix of D10; for the real
    X25519 `canon` still has to exclude values `≥ 2^255 − 19` and torsion-shifted points, none of which is a
    one-byte modification of an honest key except with negligible probability — `eph_malleable`);
    (b) blobs that change the ephemeral key *and*
    the rest at once: a fresh encryption of another LeaseSet2 to the same recipient is such a blob and is
    accepted by design (public-key encryption gives no sender authenticity), so the unrestricted
    "any different blob of the same length fails" of DESIGN.md appendix H is not a theorem. -/
theorem tamper_partial (E : EncScheme) (canon : Bytes → Prop)
    (dh_comm : DhComm E) (pub_len : PubLen E) (pub_canonical : PubCanonical E) (tag_len : TagLen E)
    (derive_inj : DeriveInj E) (dh_inj : DhInjOn E canon) (canon_pub : ∀ a, canon (E.pub a))
    (l sk eph nonce cookie blob s : Bytes)
    (hsk : sk.length = 32) (heph : eph.length = 32) (hc : cookie.length = 32)
    (henc : encryptLS2 E l (E.pub sk) eph nonce = some blob) (hs : E.dh eph (E.pub sk) = some s)
    (aead_auth : AeadAuthAt E (E.derive s) nonce l) (aead_wrong_key : AeadWrongKeyAt E (E.derive s) nonce l) :
    (∀ blob', blob'.length = blob.length → blob' ≠ blob →
        (blob'.take 32 = blob.take 32 ∨
          (blob'.drop 32 = blob.drop 32 ∧ (canon (blob'.take 32) ∨ ephCanonical (blob'.take 32) = false))) →
        decryptLS2 E cookie blob' sk = none) ∧
    (∀ sk', E.dh sk' (E.pub eph) ≠ E.dh sk (E.pub eph) → decryptLS2 E cookie blob sk' = none) := by
  obtain ⟨_, hn, s', hs', hb⟩ := encrypt_some henc
  rw [hs] at hs'; cases hs'
  have hp := pub_len eph heph
  have ht := tag_len (E.derive s) nonce l
  have hdh : E.dh sk (E.pub eph) = some s := by rw [dh_comm sk eph]; exact hs
  obtain ⟨h1, _, _, _, h5⟩ := blob_split _ _ (E.aeadSeal (E.derive s) nonce l).1 _ hp hn ht
  rw [← hb] at h1 h5
  constructor
  · intro blob' hlen hne hreg
    obtain ⟨e', n', c', t', he', hn', ht', rfl⟩ := blob_decompose blob' (by unfold minBlob; omega)
    obtain ⟨g1, _, _, _, _⟩ := blob_split e' n' c' t' he' hn' ht'
    rw [decrypt_parts E cookie e' n' c' t' sk hc hsk he' hn' ht']
    rcases hreg with hsame | ⟨hrest, hcan⟩
    · -- same ephemeral key, hence the session key: only the sealed triple opens
      have hee : e' = E.pub eph := by rw [← g1, hsame, h1]
      rw [hee, if_pos (pub_canonical eph), hdh]
      simp only [Option.bind_some]
      cases ho : E.aeadOpen (E.derive s) n' c' t' with
      | none => rfl
      | some p =>
        exfalso
        obtain ⟨a1, a2, a3⟩ := aead_auth n' c' t' (by rw [ho]; rfl)
        apply hne
        rw [hb, hee, a1, a2, a3]
    · -- another (canonical) ephemeral key in front of the untouched rest: another session key
      rw [g1] at hcan
      rcases hcan with hcan | hnc
      case inr => rw [hnc]; rfl
      by_cases hec : ephCanonical e' = true
      case neg => rw [if_neg hec]
      rw [if_pos hec]
      have hbl : e' ++ n' ++ c' ++ t' = e' ++ blob.drop 32 := by
        have := List.take_append_drop 32 (e' ++ n' ++ c' ++ t')
        rw [g1, hrest] at this; exact this.symm
      have hbb : blob = E.pub eph ++ blob.drop 32 := by
        have := List.take_append_drop 32 blob
        rw [h1] at this; exact this.symm
      have hee : e' ≠ E.pub eph := by
        intro h; apply hne; rw [hbl, h, ← hbb]
      -- the rest is the sealed triple
      have hparts : e' ++ n' ++ c' ++ t' =
          e' ++ nonce ++ (E.aeadSeal (E.derive s) nonce l).1 ++ (E.aeadSeal (E.derive s) nonce l).2 := by
        rw [hbl]
        have : blob.drop 32 = nonce ++ (E.aeadSeal (E.derive s) nonce l).1 ++ (E.aeadSeal (E.derive s) nonce l).2 := by
          have h0 := congrArg (List.drop 32) hb
          rw [h0]
          simp only [List.append_assoc]
          rw [List.drop_append_of_le_length (by omega), ← hp, List.drop_length, List.nil_append]
        rw [this]; simp [List.append_assoc]
      obtain ⟨_, q2, q3, q4⟩ := parts_inj he' hn' ht' he' hn ht hparts
      subst q2 q3 q4
      cases hd : E.dh sk e' with
      | none => rfl
      | some s2 =>
        simp only [Option.bind_some]
        have hs2 : s2 ≠ s := by
          intro h; subst h
          exact hee (dh_inj sk e' (E.pub eph) s2 hsk he' hp hcan (canon_pub eph) hd hdh)
        have hk : E.derive s2 ≠ E.derive s := fun h => hs2 (derive_inj _ _ h)
        rw [aead_wrong_key _ hk]; rfl
  · intro sk' hdiff
    by_cases hsk' : sk'.length = 32
    · rw [hb, decrypt_parts E cookie _ nonce _ _ sk' hc hsk' hp hn ht, if_pos (pub_canonical eph)]
      cases hd : E.dh sk' (E.pub eph) with
      | none => rfl
      | some s2 =>
        simp only [Option.bind_some]
        have hs2 : s2 ≠ s := by
          intro h; subst h; exact hdiff (hd.trans hdh.symm)
        have hk : E.derive s2 ≠ E.derive s := fun h => hs2 (derive_inj _ _ h)
        rw [aead_wrong_key _ hk]; rfl
    · unfold decryptLS2
      rw [if_neg (by omega), if_pos hsk']

/-- **Every single-byte modification (partial)** — the literal clause of the property, as a corollary:
    overwriting position `i` of the blob with a different value is rejected; for `i < 32` (the ephemeral
    key) under the proviso that the modified key is `canon` (see `tamper_partial`). -/
theorem tamper_single_byte_partial (E : EncScheme) (canon : Bytes → Prop)
    (dh_comm : DhComm E) (pub_len : PubLen E) (pub_canonical : PubCanonical E) (tag_len : TagLen E)
    (derive_inj : DeriveInj E) (dh_inj : DhInjOn E canon) (canon_pub : ∀ a, canon (E.pub a))
    (l sk eph nonce cookie blob s : Bytes)
    (hsk : sk.length = 32) (heph : eph.length = 32) (hc : cookie.length = 32)
    (henc : encryptLS2 E l (E.pub sk) eph nonce = some blob) (hs : E.dh eph (E.pub sk) = some s)
    (aead_auth : AeadAuthAt E (E.derive s) nonce l) (aead_wrong_key : AeadWrongKeyAt E (E.derive s) nonce l)
    (i : Nat) (v : UInt8) (hi : i < blob.length) (hv : blob[i] ≠ v)
    (hcanon : i < 32 → canon ((blob.set i v).take 32) ∨ ephCanonical ((blob.set i v).take 32) = false) :
    decryptLS2 E cookie (blob.set i v) sk = none := by
  refine (tamper_partial E canon dh_comm pub_len pub_canonical tag_len derive_inj dh_inj canon_pub l sk eph nonce cookie blob s
    hsk heph hc henc hs aead_auth aead_wrong_key).1 (blob.set i v) (by simp) ?_ ?_
  · intro h
    have := congrArg (fun b => b[i]?) h
    simp [hi] at this
    exact hv this.symm
  · by_cases h32 : i < 32
    · exact Or.inr ⟨List.drop_set_of_lt h32, hcanon h32⟩
    · exact Or.inl (List.take_set_of_le (by omega))

/-- **Residual malleability.**  Replacing the ephemeral key by a 32-byte string with bit 255 clear and the same
    shared secret yields a different blob that decrypts to the same LeaseSet2 — which is why `tamper_partial`
    still needs `canon` after the fix of D10. -/
theorem eph_malleable (E : EncScheme) (dh_comm : DhComm E) (aead_correct : AeadCorrect E)
    (pub_len : PubLen E) (tag_len : TagLen E)
    (l sk eph nonce cookie blob e' : Bytes) (hl : ValidLS2 l)
    (hsk : sk.length = 32) (heph : eph.length = 32) (hc : cookie.length = 32)
    (henc : encryptLS2 E l (E.pub sk) eph nonce = some blob)
    (he' : e'.length = 32) (hne : e' ≠ E.pub eph) (hcan : ephCanonical e' = true)
    (hsame : E.dh sk e' = E.dh sk (E.pub eph)) :
    e' ++ blob.drop 32 ≠ blob ∧ (e' ++ blob.drop 32).length = blob.length ∧
      decryptLS2 E cookie (e' ++ blob.drop 32) sk = some l := by
  obtain ⟨_, hn, s, hs, hb⟩ := encrypt_some henc
  have hp := pub_len eph heph
  have ht := tag_len (E.derive s) nonce l
  have hdrop : blob.drop 32 = nonce ++ (E.aeadSeal (E.derive s) nonce l).1 ++ (E.aeadSeal (E.derive s) nonce l).2 := by
    rw [hb]; simp only [List.append_assoc]
    rw [List.drop_append_of_le_length (by omega), ← hp, List.drop_length, List.nil_append]
  have hshape : e' ++ blob.drop 32 =
      e' ++ nonce ++ (E.aeadSeal (E.derive s) nonce l).1 ++ (E.aeadSeal (E.derive s) nonce l).2 := by
    rw [hdrop]; simp [List.append_assoc]
  refine ⟨?_, ?_, ?_⟩
  · intro h
    rw [hshape, hb] at h
    exact hne (parts_inj he' hn ht hp hn ht h).1
  · rw [hshape, hb]; simp [he', hp]
  · rw [hshape, decrypt_parts E cookie e' nonce _ _ sk hc hsk he' hn ht, if_pos hcan, hsame, dh_comm sk eph, hs]
    simp only [Option.bind_some]
    rw [aead_correct]
    simp only [Option.bind_some]
    obtain ⟨b, hb'⟩ := hl
    have := readLeaseSet2_consumed hb'
    simp at this
    rw [hb']; simp [this]

/-- **D10 is closed**: a replacement ephemeral key with bit 255 set is rejected whatever its shared secret. -/
theorem eph_top_bit_rejected (E : EncScheme) (cookie blob' sk : Bytes) (hlen : minBlob ≤ blob'.length)
    (h : ephCanonical (blob'.take 32) = false) : decryptLS2 E cookie blob' sk = none := by
  unfold decryptLS2
  split
  · rfl
  · split
    · rfl
    · rw [if_neg (by omega), h]; rfl

/-! ## Blinding -/

/-- **The date is a function of the instant, not of the `Location`.** -/
theorem utcDay_location_independent (s off off' : Int) : utcDay s off = utcDay s off' := rfl

/-- … and of the instant only through its UTC day number `⌊s / 86400⌋`. -/
theorem utcDay_day_only (s s' off off' : Int) (h : s / 86400 = s' / 86400) : utcDay s off = utcDay s' off' := by
  rw [utcDay_eq, utcDay_eq]
  exact formatDay_day_only _ _ (by simpa using h)

/-- Contrast (mutant M43): formatting the *local* day does depend on the `Location`. -/
theorem localDay_location_dependent : ∃ s off, localDay s off ≠ localDay s 0 :=
  ⟨86399, 3600, by decide⟩

/-- **Blinding is a function of (destination, secret, UTC day)**: equal date strings — in particular the same
    instant in two zones, or two instants of the same UTC day — give the same result, error or value. -/
theorem blind_function_of_utc_day (B : BlindScheme) (d : Dest) (secret : Bytes) (s s' off off' : Int)
    (h : s / 86400 = s' / 86400) : createBlinded B d secret s off = createBlinded B d secret s' off' := by
  unfold createBlinded
  rw [utcDay_day_only s s' off off' h]

/-- **What is kept, what changes, what is refused.**  A blinded destination keeps encryption key, padding,
    certificate (and signing type); its signing key is `blind key (factor secret date)` for the UTC date;
    secrets shorter than 32 bytes and signing types other than 7 and 11 are errors. -/
theorem blind_keeps (B : BlindScheme) (d d' : Dest) (secret : Bytes) (s off : Int)
    (h : createBlinded B d secret s off = some d') :
    d'.encKey = d.encKey ∧ d'.padding = d.padding ∧ d'.cert = d.cert ∧ d'.sigType = d.sigType ∧
    32 ≤ secret.length ∧ (d.sigType = 7 ∨ d.sigType = 11) ∧
    ∃ date, utcDay s off = some date ∧ B.blind d.sigKey (B.factor secret date) = some d'.sigKey := by
  unfold createBlinded at h
  split at h
  · cases h
  · rename_i ht
    split at h
    · cases h
    · rename_i hs
      cases hu : utcDay s off with
      | none => rw [hu] at h; cases h
      | some date =>
        rw [hu] at h
        simp only at h
        split at h
        · cases h
        · cases hb : B.blind d.sigKey (B.factor secret date) with
          | none => rw [hb] at h; cases h
          | some k =>
            rw [hb] at h
            cases h
            exact ⟨rfl, rfl, rfl, rfl, by omega, by omega, date, rfl, hb⟩

/-- The signing key really changes whenever `blind` has no fixed point at the derived factor (for
    edwards25519: whenever the factor is not the zero scalar). -/
theorem blind_new_key (B : BlindScheme) (d d' : Dest) (secret : Bytes) (s off : Int)
    (no_fixed_point : ∀ date, B.blind d.sigKey (B.factor secret date) ≠ some d.sigKey)
    (h : createBlinded B d secret s off = some d') : d'.sigKey ≠ d.sigKey := by
  obtain ⟨_, _, _, _, _, _, date, _, hb⟩ := blind_keeps B d d' secret s off h
  intro he
  rw [he] at hb
  exact no_fixed_point date hb

/-- **The library's own check.**  For every destination that can be blinded (signing type 7 or 11): the
    blinded destination passes `VerifyBlindedSignature` with the derived factor and, `blind` being injective
    in the factor, with no other. -/
theorem blind_verify (B : BlindScheme) (blind_inj : BlindInj B) (blind_len : BlindLen B)
    (d d' : Dest) (secret date : Bytes) (s off : Int)
    (h : createBlinded B d secret s off = some d') (hd : utcDay s off = some date) (alpha : Bytes) :
    verifyBlinded B d' d alpha = true ↔ alpha = B.factor secret date := by
  obtain ⟨_, _, _, ht, _, _, date', hd', hb⟩ := blind_keeps B d d' secret s off h
  rw [hd] at hd'; cases hd'
  have hty : ¬ (d.sigType ≠ 7 ∧ d.sigType ≠ 11) := by
    intro hne
    unfold createBlinded at h
    rw [if_pos hne] at h
    cases h
  have hlen : d.sigKey.length = 32 := by
    unfold createBlinded at h
    rw [if_neg hty] at h
    split at h
    · cases h
    · rw [hd] at h
      simp only at h
      split at h
      · cases h
      · rename_i hl; omega
  have hlen' : d'.sigKey.length = 32 := blind_len _ _ _ hb
  have hty' : ¬ (d'.sigType ≠ 7 ∧ d'.sigType ≠ 11) := by rw [ht]; exact hty
  have e1 : ed25519KeyOf d = some d.sigKey := by
    unfold ed25519KeyOf; rw [if_neg hty, if_neg (by omega)]
  have e2 : ed25519KeyOf d' = some d'.sigKey := by
    unfold ed25519KeyOf; rw [if_neg hty', if_neg (by omega)]
  unfold verifyBlinded
  rw [e1, e2]
  simp only [beq_iff_eq]
  constructor
  · intro hv; exact blind_inj _ _ _ _ hv hb
  · intro hv; rw [hv]; exact hb

/-- destinations of any other signing type are never accepted by the check, whatever the factor -/
theorem verify_rejects_other_types (B : BlindScheme) (d d' : Dest) (alpha : Bytes) (h : d.sigType ≠ 7 ∧ d.sigType ≠ 11) :
    verifyBlinded B d' d alpha = false := by
  unfold verifyBlinded
  have : ed25519KeyOf d = none := by unfold ed25519KeyOf; rw [if_pos h]
  rw [this]

/-! ## The hypothesis sets are satisfiable -/

example : DhComm toyLaws ∧ DhDefined toyLaws ∧ AeadCorrect toyLaws ∧ PubLen toyLaws ∧ PubCanonical toyLaws ∧
    TagLen toyLaws ∧ CtLen toyLaws :=
  ⟨fun _ _ => rfl, fun _ _ _ _ => rfl, fun _ _ _ => rfl, fun _ _ => by simp [toyLaws], fun _ => by show ephCanonical (List.replicate 32 0) = true; decide,
   fun _ _ _ => by simp [toyLaws], fun _ _ _ => rfl⟩

/-- the LeaseSet2 hypothesis is satisfiable (a concrete accepted LeaseSet2 from the STRUCT proofs) -/
example : ValidLS2 exLS2 := ⟨exLS2, by decide +kernel⟩

example (sk eph n0 l0 : Bytes) :
    let E := toyIdeal (List.zipWith (· + ·) eph sk) n0 l0
    DhComm E ∧ PubLen E ∧ TagLen E ∧ DeriveInj E ∧ DhInjOn E (fun _ => True) ∧ (∀ a, (fun _ => True) (E.pub a)) ∧
      ∃ s, E.dh eph (E.pub sk) = some s ∧ AeadAuthAt E (E.derive s) n0 l0 ∧ AeadWrongKeyAt E (E.derive s) n0 l0 := by
  refine ⟨?_, fun _ h => h, fun _ _ _ => by simp [toyIdeal], fun _ _ h => h, ?_, fun _ => trivial, _, rfl, ?_, ?_⟩
  · intro a b
    show some (List.zipWith (· + ·) a b) = some (List.zipWith (· + ·) b a)
    rw [List.zipWith_comm]
    simp [UInt8.add_comm]
  · intro sk' e e' s hsk he he' _ _ h1 h2
    have h1' : List.zipWith (· + ·) sk' e = s := Option.some.inj h1
    have h2' : List.zipWith (· + ·) sk' e' = s := Option.some.inj h2
    exact zipAdd_inj sk' e e' (by omega) (by omega) (h1'.trans h2'.symm)
  · intro n' c' t' h
    simp only [toyIdeal] at h ⊢
    split at h
    · rename_i hc; exact ⟨hc.2.1, hc.2.2.1, hc.2.2.2⟩
    · cases h
  · intro k' hk
    simp only [toyIdeal, id] at hk ⊢
    rw [if_neg (fun h => hk h.1)]

/-- toy blinding scheme for `BlindInj`, `BlindLen` -/
example : ∃ B : BlindScheme, BlindInj B ∧ BlindLen B :=
  ⟨{ factor := fun s _ => s, blind := fun _ a => if a.length = 32 then some a else none },
   fun _ a a' r h h' => by
     simp only at h h'
     split at h <;> split at h' <;> simp_all,
   fun _ a r h => by
     simp only at h
     split at h
     · cases h; assumption
     · cases h⟩

end I2P.Props.C16
