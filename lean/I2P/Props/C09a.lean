import I2P.Proofs.KacLemmas
/-! # C09 (model half) — prohibited key types never appear in a Destination or RouterIdentity -/
namespace I2P.Props.C09
open I2P
open I2P.Kac
open I2P.Spec

/-- every Destination the reader returns satisfies the Destination policy -/
theorem destination_allowed :
    ∀ {w : Bytes} {k : KeysAndCert} {r : Bytes},
      readDestination w = some (k, r) → destAllowed k.kc.spk k.kc.cpk = true :=
  @I2P.Kac.readDestination_allowed

/-- every RouterIdentity the reader returns satisfies the RouterIdentity policy -/
theorem router_identity_allowed :
    ∀ {w : Bytes} {k : KeysAndCert} {r : Bytes},
      readRouterIdentity w = some (k, r) → ridAllowed k.kc.spk k.kc.cpk = true :=
  @I2P.Kac.readRouterIdentity_allowed

/-- justifies `RouterIdentity.AsDestination` -/
theorem rid_policy_implies_dest_policy :
    ∀ {s c : Nat}, ridAllowed s c = true → destAllowed s c = true :=
  @I2P.Kac.ridAllowed_destAllowed

/-- the restriction rejects nothing that is permitted: every KeysAndCert with permitted types is accepted as a Destination -/
theorem destination_not_over_rejected :
    ∀ {w : Bytes} {k : KeysAndCert} {r : Bytes},
      readKac w = some (k, r) → destAllowed k.kc.spk k.kc.cpk = true → readDestination w = some (k, r) :=
  @I2P.Kac.readDestination_complete

/-- the same for RouterIdentity -/
theorem router_identity_not_over_rejected :
    ∀ {w : Bytes} {k : KeysAndCert} {r : Bytes},
      readKac w = some (k, r) → ridAllowed k.kc.spk k.kc.cpk = true → readRouterIdentity w = some (k, r) :=
  @I2P.Kac.readRouterIdentity_complete

/-- every supported (signing, crypto) pair with keys of the table sizes parses, with exactly the encoded fields -/
theorem supported_pairs_parse :
    ∀ (s c : Nat),
      sigConstructible s = true →
        cryptoConstructible c = true →
          s < 65536 →
            c < 65536 →
              ∀ (ck pad sk extra x : Bytes),
                List.length ck = cryptoSize c →
                  List.length sk = sigPubSize s →
                    List.length pad = 384 - cryptoSize c - sigPubSize s →
                      List.length extra ≤ 65531 →
                        ∃ k,
                          readKac
                                (ck ++ pad ++ sk ++ [5] ++ beEnc 2 (4 + List.length extra) ++ beEnc 2 s ++ beEnc 2 c ++
                                    extra ++
                                  x) =
                              some (k, x) ∧
                            k.pub = ck ∧
                              k.padding = pad ∧
                                k.sig = sk ∧
                                  k.kc.spk = s ∧
                                    k.kc.cpk = c ∧
                                      k.bytes =
                                        some
                                          (ck ++ pad ++ sk ++ [5] ++ beEnc 2 (4 + List.length extra) ++ beEnc 2 s ++
                                              beEnc 2 c ++
                                            extra) :=
  @I2P.Kac.readKac_accepts

end I2P.Props.C09
