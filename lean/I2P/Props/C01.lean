import I2P.Proofs.KacLemmas
import I2P.Proofs.MappingLemmas
import I2P.Props.C12
/-! # C01 — re-serialising any accepted wire input reproduces the consumed bytes exactly

One theorem per parser of the code-mirroring model: accepted ⇒ serialisation ++ remainder = input.
Statements are frozen here; the proofs live in `I2P/Proofs/`. The composite structures (LeaseSet2, …)
are in `Props/C01S.lean`. -/
namespace I2P.Props.C01
open I2P
open I2P.Kac
open I2P.Mapping

/-- ReadCertificate: `Bytes()` followed by the remainder is the input -/
theorem certificate :
    ∀ {w : Bytes} {c : Cert} {r : Bytes}, readCert w = some (c, r) → c.bytes ++ r = w :=
  @I2P.Kac.readCert_consumed

/-- NewKeyCertificate -/
theorem key_certificate :
    ∀ {w : Bytes} {kc : KeyCert} {r : Bytes}, newKeyCert w = some (kc, r) → kc.cert.bytes ++ r = w :=
  @I2P.Kac.newKeyCert_consumed

/-- ReadKeysAndCert (KEY and NULL certificates, extra payload included) -/
theorem keys_and_cert :
    ∀ {w : Bytes} {k : KeysAndCert} {r : Bytes},
      readKac w = some (k, r) → ∃ b, k.bytes = some b ∧ b ++ r = w :=
  @I2P.Kac.readKac_consumed

/-- ReadKeysAndCertElgAndEd25519 -/
theorem keys_and_cert_elg_ed25519 :
    ∀ {w : Bytes} {k : KeysAndCert} {r : Bytes},
      readKacFast 0 w = some (k, r) → ∃ b, k.bytes = some b ∧ b ++ r = w :=
  @I2P.Kac.readKacFast0_consumed

/-- ReadKeysAndCertX25519AndEd25519 -/
theorem keys_and_cert_x25519_ed25519 :
    ∀ {w : Bytes} {k : KeysAndCert} {r : Bytes},
      readKacFast 4 w = some (k, r) → ∃ b, k.bytes = some b ∧ b ++ r = w :=
  @I2P.Kac.readKacFast4_consumed

/-- ReadDestination -/
theorem destination :
    ∀ {w : Bytes} {k : KeysAndCert} {r : Bytes},
      readDestination w = some (k, r) → ∃ b, k.bytes = some b ∧ b ++ r = w :=
  @I2P.Kac.readDestination_consumed

/-- ReadRouterIdentity -/
theorem router_identity :
    ∀ {w : Bytes} {k : KeysAndCert} {r : Bytes},
      readRouterIdentity w = some (k, r) → ∃ b, k.bytes = some b ∧ b ++ r = w :=
  @I2P.Kac.readRouterIdentity_consumed

/-- ReadMapping: accepted (no error other than the trailing-data warning) ⇒ `Data()` is exactly the consumed prefix -/
theorem mapping :
    ∀ (w : Bytes),
      accepted (readMapping w) = true → ∃ c, w = c ++ (readMapping w).rem ∧ data (readMapping w) = some c :=
  @I2P.Mapping.accepted_reserialise

end I2P.Props.C01
