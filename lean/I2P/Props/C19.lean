import I2P.Proofs.KacLemmas
/-! # C19 — alternative entry points for the same structure agree (model half)

Twin pairs that are *separately written code* in the library and therefore separately modelled. Pairs that
are thin wrappers of one another (pointer- vs value-returning readers, `New…FromBytes`) are covered by the
direct twin comparison on the real library in the harness (`sig` `twin:*`). -/
namespace I2P.Props.C19
open I2P
open I2P.Kac
open I2P.Spec

/-- generic reader accepts with the fast path's key types ⇒ the key-type-specific reader returns the same value and remainder -/
theorem fast_reader_of_generic :
    ∀ {c : Nat},
      c = 0 ∨ c = 4 →
        ∀ {w : Bytes} {k : KeysAndCert} {r : Bytes},
          readKac w = some (k, r) →
            (List.drop 384 w).head? = some 5 → k.kc.spk = 7 → k.kc.cpk = c → readKacFast c w = some (k, r) :=
  @I2P.Kac.fast_of_generic

/-- the key-type-specific readers accept nothing the generic reader does not, and return the same value -/
theorem generic_of_fast_reader :
    ∀ {c : Nat},
      c = 0 ∨ c = 4 → ∀ {w : Bytes} {k : KeysAndCert} {r : Bytes}, readKacFast c w = some (k, r) → readKac w = some (k, r) :=
  @I2P.Kac.generic_of_fast

/-- NewKeyCertificate = KeyCertificateFromCertificate ∘ ReadCertificate -/
theorem key_certificate_from_bytes_vs_from_certificate :
    ∀ {w : Bytes} {c : Cert} {r : Bytes},
      readCert w = some (c, r) → newKeyCert w = Option.map (fun x => (x, r)) (keyCertFromCert c) :=
  @I2P.Kac.keyCertFromCert_eq

/-- ReadDestination returns exactly what ReadKeysAndCert returns -/
theorem destination_wrapper_sub :
    ∀ {w : Bytes} {k : KeysAndCert} {r : Bytes},
      readDestination w = some (k, r) → readKac w = some (k, r) :=
  @I2P.Kac.readDestination_sub

/-- ReadRouterIdentity returns exactly what ReadKeysAndCert returns -/
theorem router_identity_wrapper_sub :
    ∀ {w : Bytes} {k : KeysAndCert} {r : Bytes},
      readRouterIdentity w = some (k, r) → readKac w = some (k, r) :=
  @I2P.Kac.readRouterIdentity_sub

end I2P.Props.C19
