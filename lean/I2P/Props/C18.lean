import I2P.Conc
import I2P.Gen.Effects
/-! # C18 — shared values may be read concurrently (proof, partial)

*Theorem 1* (`schedule_independent`) is about the abstract machine of `I2P.Conc`: threads without shared
writes see, under EVERY complete schedule, exactly what they see alone; the shared memory is left as it
was; no two executed steps of different threads conflict.  All the substance of C18 is in its premise.

*Theorem 2* (`effects_allowed`) ties that premise to the code.  `I2P.Gen.Effects.facts` is regenerated on
every run from the SSA form of /repo (extract/effects.go): one fact per write-like instruction reachable,
inside the module, from the read-only API (`I2P.Gen.Effects.roots`).  Each fact must lie in the explicit
allowed set below, whose members map to `read`/`writePrivate` steps only:

* class **fresh** — `Store`, `MapUpdate`, `append`, `copy`, `sort` whose target object was allocated during
  the call itself (`new`, `make`, composite literal, result of a call that allocates): a `writePrivate`.
* class **CapTight** — `append` whose base is a slice of the receiver (or of a parameter) named in
  `capTightBases`.  `append s xs` writes into `s`'s backing array iff `len s + len xs ≤ cap s`; for the bases
  listed every parser and constructor establishes `cap s = len s`, so a non-empty `xs` reallocates (a
  `writePrivate` to the new array) and an empty `xs` writes nothing.  That invariant is NOT proved here: it
  is checked on real values of every parser/constructor path by the harness op `!captight`.
  The only base today: `Certificate.kind` in `Certificate.Bytes`/`RawBytes` (`append(c.kind.Bytes(), …)`).
* class **external** — a call that leaves the module and is handed memory the call did not allocate
  (receiver, parameter, package variable).  Functions KNOWN to write through an argument (`binary.PutUint32`,
  `io.ReadFull`, `hex.Encode`, `subtle.ConstantTimeCopy`, `(*bytes.Buffer).Write`, `sync`/`atomic` operations,
  `hash.Hash.Sum` … — a table of library facts in extract/effects.go, like `copy`, `append` and `sort.*`) are
  reported as kind `extwrite` with the origin of the written argument and fall under class *fresh*.  Every
  other external call is reported as `external-call` with the callee's package group and is allowed when the
  group is in `readOnlyExternalGroups`: the logging stack and the error/format constructors (they format their
  arguments; goroutine-safety of the logger is a trusted assumption), go-i2p/crypto (key accessors,
  constructors and verifiers, reached mostly through its interfaces), the universe interface `error`, and the
  value-oriented parts of the standard library.  The rule is per package group, not per function, so that a
  harmless edit (a new validation call into go-i2p/crypto, say) does not break the obligation.  External calls
  that only receive fresh memory are `writePrivate` at worst.

Everything else — a store to a receiver field (a lazily filled cache), to a package variable, a `MapUpdate`
on a map that is not fresh, a sort or copy into receiver memory, an `append` on a new receiver-derived
base, a goroutine, a channel send, a call through a function value, an instruction the slice cannot
classify (`unknown`), an extractor failure — is outside the set and breaks `effects_allowed`.

Not proved (assumptions of the claim): the Go memory model and runtime; that the extractor's backward
slice is sound; goroutine-safety of the external callees.  These are exercised by the harness suite `C18`
under the race detector. -/
namespace I2P.Props.C18
open I2P.Conc

/-! ## Theorem 1 -/

/-- under a complete schedule every thread has run to completion -/
private theorem all_finished {ts : List Thread} {sched : List Nat} (mem : Mem) (hc : complete ts sched) :
    ∀ s ∈ (runMachine (Machine.init ts mem) sched).threads, s.todo = [] := by
  intro s hs
  obtain ⟨j, hj⟩ := List.getElem?_of_mem hs
  have h := run_progress sched (Machine.init ts mem) j
  rw [hj] at h
  simp only [Machine.init, List.getElem?_map] at h
  cases ht : ts[j]? with
  | none => rw [ht] at h; simp at h
  | some t =>
    rw [ht] at h
    simp only [Option.map_some, TState.init, Option.some.injEq] at h
    obtain ⟨hlt, heq⟩ := List.getElem?_eq_some_iff.mp ht
    have := hc j hlt
    rw [heq] at this
    exact List.eq_nil_of_length_eq_zero (by omega)

/-- **Theorem 1.**  For any number of threads, none of which performs a shared write, and EVERY complete
    schedule (of any length): each thread reads exactly what it reads when run alone on the initial
    memory, the shared memory is unchanged afterwards, and no two executed steps of different threads
    conflict.  (Induction on the schedule: `run_ro`, `run_progress`, `trace_ro` in `I2P.Conc`.) -/
theorem schedule_independent (ts : List Thread) (sched : List Nat) (mem : Mem)
    (hro : ∀ t ∈ ts, readOnly t) (hc : complete ts sched) :
    runInterleaved ts sched mem = ts.map (runAlone · mem) ∧
    memAfter ts sched mem = mem ∧
    (∀ x ∈ trace (Machine.init ts mem) sched, ∀ y ∈ trace (Machine.init ts mem) sched,
        x.1 ≠ y.1 → conflict x.2 y.2 = false) := by
  have hinit := init_ro mem hro
  obtain ⟨h1, _, h3⟩ := run_ro sched hinit
  refine ⟨?_, h1, ?_⟩
  · have hfin := all_finished mem hc
    unfold runInterleaved
    have : (runMachine (Machine.init ts mem) sched).threads.map (·.reads) =
        (runMachine (Machine.init ts mem) sched).threads.map (·.final mem) := by
      apply List.map_congr_left
      intro s hs
      simp [TState.final, hfin s hs, runSeq]
    rw [this]
    have hm : (Machine.init ts mem).mem = mem := rfl
    rw [hm] at h3
    rw [h3]
    simp [Machine.init, TState.init, TState.final, runAlone, Function.comp_def]
  · intro x hx y hy _
    have hx' := trace_ro sched hinit x hx
    have hy' := trace_ro sched hinit y hy
    simp [conflict, hx', hy']

/-- the static form: the programs of two read-only threads contain no conflicting pair at all -/
theorem no_static_conflict (ts : List Thread) (hro : ∀ t ∈ ts, readOnly t) :
    ∀ t ∈ ts, ∀ u ∈ ts, ∀ a ∈ t, ∀ b ∈ u, conflict a b = false := by
  intro t ht u hu a ha b hb
  simp [conflict, hro t ht a ha, hro u hu b hb]

/-- the hypotheses are satisfiable: three read-only threads (one works on a private copy) and a
    complete schedule that interleaves them -/
example :
    let ts : List Thread := [[.read 0, .read 1], [.writePrivate 0 7, .read 0], [.read 1]]
    (∀ t ∈ ts, readOnly t) ∧ complete ts [2, 0, 1, 0, 1] ∧
      runInterleaved ts [2, 0, 1, 0, 1] (fun l => l + 10) = [[10, 11], [7], [11]] := by
  decide

/-- non-vacuity of the hypothesis: with ONE shared write the results do depend on the schedule — both
    schedules below are complete, the reader sees 0 under one and 1 under the other -/
example :
    let ts : List Thread := [[.read 0], [.writeShared 0 1]]
    complete ts [0, 1] ∧ complete ts [1, 0] ∧
      runInterleaved ts [0, 1] (fun _ => 0) = [[0], []] ∧
      runInterleaved ts [1, 0] (fun _ => 0) = [[1], []] ∧
      conflict (.read 0) (.writeShared 0 1) = true := by
  decide

/-! ## Theorem 2 -/

/-- write-like instruction kinds the extractor reports (`extwrite`: an external function known to write
    through the argument whose origin is given) -/
def writeKinds : List String := ["Store", "MapUpdate", "append", "copy", "sort", "extwrite"]

/-- receiver-derived `append` bases for which `cap = len` is an invariant of every parser and constructor
    (checked on real values by the harness op `!captight`; keep in step with `capTightFields` there) -/
def capTightBases : List String := ["Certificate.kind"]

/-- package groups whose functions may be handed shared memory: they only read it (their known writers are
    reported as `extwrite`/`sort` before this rule applies) -/
def readOnlyExternalGroups : List String := [
  -- logging stack and error/format constructors (format their arguments; logger safety is trusted)
  "github.com/go-i2p/logger", "github.com/sirupsen/logrus", "github.com/samber/oops", "std:fmt", "std:errors", "error",
  -- go-i2p/crypto: key bytes/length accessors, key constructors/validators, verifier construction and use
  "github.com/go-i2p/crypto",
  -- standard library, value-oriented packages
  "std:crypto", "std:encoding", "std:hash", "std:bytes", "std:strings", "std:strconv", "std:unicode", "std:math",
  "std:time", "std:net", "std:sort", "std:slices", "std:maps", "std:cmp"]

/-- the allowed set (see the module comment for the three classes) -/
def allowed (f : String × String × String × String) : Bool :=
  let kind := f.2.1
  let origin := f.2.2.1
  let detail := f.2.2.2
  (writeKinds.contains kind && origin == "fresh")
  || (kind == "append" && (origin == "receiver" || origin == "param") && capTightBases.contains detail)
  || (kind == "external-call" && (origin == "fresh" || readOnlyExternalGroups.contains detail))

/-- **Theorem 2.**  Every effect fact extracted from the current source is in the allowed set. -/
theorem effects_allowed : ∀ f ∈ Gen.Effects.facts, allowed f = true := by
  -- `+kernel`: the list has a few hundred string rows; evaluation by the kernel avoids the elaborator's
  -- recursion limit (no axiom is involved, see the audit)
  have h : Gen.Effects.facts.all allowed = true := by decide +kernel
  exact fun f hf => List.all_eq_true.mp h f hf

-- diagnostic for the build log (kept in the replay file of a broken obligation): the facts outside the
-- allowed set; `[]` when `effects_allowed` holds
#eval Gen.Effects.facts.filter (fun f => !allowed f)

/-- the extraction is not vacuous: it walked the read-only API (a root per structure's serialiser) and a
    few hundred function bodies -/
theorem effects_nonvacuous :
    100 ≤ Gen.Effects.roots.length ∧ 100 ≤ Gen.Effects.analysed ∧ 20 ≤ Gen.Effects.facts.length := by
  decide +kernel

/-- what the allowed set rejects (each is the fact one of the classic regressions would produce) -/
example : allowed ("(*destination.Destination).Hash", "Store", "receiver", "Destination.hashCache") = false := by decide
example : allowed ("(*data.Mapping).Data", "sort", "receiver", "Mapping.vals") = false := by decide
example : allowed ("key_certificate.GetSigningKeySize", "MapUpdate", "global", "key_certificate.sizes") = false := by decide
example : allowed ("(*x.T).Bytes", "append", "receiver", "T.prefix") = false := by decide
example : allowed ("(*x.T).Bytes", "copy", "param", "other") = false := by decide
example : allowed ("(*x.T).Bytes", "extwrite", "receiver", "(encoding/binary.bigEndian).PutUint32") = false := by decide
example : allowed ("(*x.T).Bytes -> os.WriteFile", "external-call", "receiver", "std:os") = false := by decide
example : allowed ("(*x.T).Bytes -> example.org/x/y.F", "external-call", "global", "example.org/x/y") = false := by decide
example : allowed ("(*x.T).Bytes", "dynamic-call", "unknown", "(func value)") = false := by decide
example : allowed ("", "EXTRACTOR-FAILED", "unknown", "panic") = false := by decide

end I2P.Props.C18
