import I2P.Ctor
/-! # C14 — constructor success ⇒ Validate success ⇒ clean wire round trip; documented defects rejected by both

Rule-level theorems over the shape model of `I2P/Ctor.lean` (one Boolean conjunct per Go check; the
differential oracles of suite C14 in `harness/ops_ctor.go` run the same questions against the real library).

Naming: `ctor_implies_validate_<S>` is the first sentence of the property for structure `S`,
`validate_implies_parses_<S>` the second, `defect_<δ>_<S>` the converse for one documented defect class.
A theorem that needs a hypothesis beyond the property sentence is called `…_partial`; the hypothesis excludes
exactly one known finding of `known_findings.json` (D15, D16b, D21a, D24, D28-C14, D35, D36), and an `example`
next to it exhibits the excluded shape as a genuine counterexample (decided by evaluation).  The findings
D13, D16a, D20, D21b, D22, D23, D33 are repaired in /repo; their theorems are stated at full strength. -/

namespace I2P.Props.C14
open I2P I2P.Spec I2P.Ctor

/-! ## helper facts about the size tables -/

theorem sigConstructible_size (t : Nat) (h : Kac.sigConstructible t = true) :
    0 < sigPubSize t ∧ sigPubSize t ≤ 128 := by
  unfold Kac.sigConstructible at h
  split at h <;> first | (exact absurd h (by decide)) | (simp [sigPubSize, sigInfo])

theorem cryptoConstructible_size (t : Nat) (h : Kac.cryptoConstructible t = true) : 0 < cryptoSize t := by
  unfold Kac.cryptoConstructible at h
  split at h <;> first | (exact absurd h (by decide)) | (simp [cryptoSize, cryptoInfo])

/-! ## KeysAndCert -/

/-- D15 excluded by hypothesis: both keys are present. -/
theorem ctor_implies_validate_KeysAndCert_partial (a : KacShape) (h : kacCtorAccepts a = true)
    (hc : a.cryptoKeyLen.isSome = true) (hs : a.signingKeyLen.isSome = true) : kacValidates a = true := by
  obtain ⟨cn, st, ct, ck, sk, pl⟩ := a
  cases ck with
  | none => simp at hc
  | some c =>
    cases sk with
    | none => simp at hs
    | some s =>
      simp [kacCtorAccepts, keyLenOk] at h
      simp [kacValidates, h]

/-- D15: `NewKeysAndCert(cert, nil, padding, nil)` is accepted, `Validate` refuses the result. -/
example : kacCtorAccepts { sigType := 7, cryptoType := 4, cryptoKeyLen := none, signingKeyLen := none, paddingLen := 320 } = true
    ∧ kacValidates { sigType := 7, cryptoType := 4, cryptoKeyLen := none, signingKeyLen := none, paddingLen := 320 } = false := by
  decide

/-- Second sentence for KeysAndCert. D16b excluded by hypothesis: the declared key types are ones the parser can construct. -/
theorem validate_implies_parses_KeysAndCert_partial (a : KacShape) (_hv : kacValidates a = true)
    (hc : Kac.cryptoConstructible a.cryptoType = true) (hs : Kac.sigConstructible a.sigType = true) :
    kacParses a = true := by
  have := sigConstructible_size a.sigType hs
  simp [kacParses, hc, hs, this.1, this.2]

/-- D16b: Ed25519 with a P-256 crypto key: constructor and Validate accept, the parser cannot build the key. -/
example : let a : KacShape := { sigType := 7, cryptoType := 1, cryptoKeyLen := some 64, signingKeyLen := some 32, paddingLen := 288 }
    kacCtorAccepts a = true ∧ kacValidates a = true ∧ kacParses a = false := by decide

/-- D16a (repaired, 4315d7c): key types of unknown size are rejected by constructor and validator alike. -/
theorem defect_unknown_key_type_KeysAndCert (a : KacShape) (h : cryptoSize a.cryptoType = 0 ∨ sigPubSize a.sigType = 0) :
    kacCtorAccepts a = false ∧ kacValidates a = false := by
  rcases h with h | h <;> simp [kacCtorAccepts, kacValidates, h]

/-- the parser's key types always leave room for the padding: what parses was constructible -/
theorem parser_types_fit (s c : Nat) (hc : Kac.cryptoConstructible c = true) (hs : Kac.sigConstructible s = true) :
    cryptoSize c + sigPubSize s ≤ 384 := by
  unfold Kac.cryptoConstructible at hc
  unfold Kac.sigConstructible at hs
  split at hc <;> split at hs <;>
    first | (exact absurd hc (by decide)) | (exact absurd hs (by decide)) | (simp [cryptoSize, cryptoInfo, sigPubSize, sigInfo])

/-- defect "nil certificate": rejected by both -/
theorem defect_nil_cert_KeysAndCert (a : KacShape) (h : a.certNil = true) :
    kacCtorAccepts a = false ∧ kacValidates a = false := by
  simp [kacCtorAccepts, kacValidates, h]

/-- defect "crypto key length ≠ size declared by the certificate" (known type, key present): rejected by both -/
theorem defect_crypto_keylen_KeysAndCert (a : KacShape) (n : Nat) (hk : a.cryptoKeyLen = some n)
    (hsz : cryptoSize a.cryptoType ≠ 0) (hne : n ≠ cryptoSize a.cryptoType) :
    kacCtorAccepts a = false ∧ kacValidates a = false := by
  simp [kacCtorAccepts, kacValidates, keyLenOk, hk, hne, hsz]

/-- defect "signing key length ≠ size declared by the certificate": rejected by both -/
theorem defect_signing_keylen_KeysAndCert (a : KacShape) (n : Nat) (hk : a.signingKeyLen = some n)
    (hsz : sigPubSize a.sigType ≠ 0) (hne : n ≠ sigPubSize a.sigType) :
    kacCtorAccepts a = false ∧ kacValidates a = false := by
  simp [kacCtorAccepts, kacValidates, keyLenOk, hk, hne, hsz]

/-! ## Destination / RouterIdentity -/

theorem ctor_implies_validate_Destination (k : Option KacShape) (h : destCtorAccepts k = true) :
    destValidates k = true := by
  cases k with
  | none => simp [destCtorAccepts] at h
  | some k => simp [destCtorAccepts] at h; simp [destValidates, h.1]

theorem validate_implies_parses_Destination_partial (k : KacShape) (h : destCtorAccepts (some k) = true)
    (hc : Kac.cryptoConstructible k.cryptoType = true) (hs : Kac.sigConstructible k.sigType = true) :
    destParses k = true := by
  simp [destCtorAccepts] at h
  simp [destParses, validate_implies_parses_KeysAndCert_partial k h.1 hc hs, h.2]

/-- D15 knock-on: `NewRouterIdentity` builds its KeysAndCert with `NewKeysAndCert`. -/
theorem ctor_implies_validate_RouterIdentity_partial (a : KacShape) (h : ridCtorAccepts a = true)
    (hc : a.cryptoKeyLen.isSome = true) (hs : a.signingKeyLen.isSome = true) : ridValidates (some a) = true := by
  simp [ridCtorAccepts] at h
  simp [ridValidates, destValidates, ctor_implies_validate_KeysAndCert_partial a h.1 hc hs]

example : let a : KacShape := { sigType := 7, cryptoType := 4, cryptoKeyLen := some 32, signingKeyLen := none, paddingLen := 320 }
    ridCtorAccepts a = true ∧ ridValidates (some a) = false := by decide

theorem ctor_implies_validate_RouterIdentityFromKeysAndCert (k : Option KacShape)
    (h : ridFromKacCtorAccepts k = true) : ridValidates k = true := by
  cases k with
  | none => simp [ridFromKacCtorAccepts] at h
  | some k => simp [ridFromKacCtorAccepts] at h; simp [ridValidates, destValidates, h.1]

/-- defect "prohibited key type": the constructors and the parsers reject; `Validate` documents
    initialisation only (recorded as an observation by the harness, not as a failure) -/
theorem defect_prohibited_type_ctor (k : KacShape) (hd : destAllowed k.sigType k.cryptoType = false) :
    destCtorAccepts (some k) = false ∧ destParses k = false := by
  simp [destCtorAccepts, destParses, hd]

/-! ## Mapping, RouterAddress -/

theorem ctor_implies_validate_Mapping (m : MapShape) (h : mapCtorAccepts m = true) : mapValidates m = true := by
  simp [mapCtorAccepts] at h
  simp [mapValidates, h.1]

/-- D28-C14 and D36 excluded by hypothesis. -/
theorem validate_implies_parses_Mapping_partial (m : MapShape) (_h : mapValidates m = true)
    (hp : m.pairs ≤ 1000) (hd : m.duplicateKeys = false) : mapParses m = true := by
  simp [mapParses, hp, hd]

/-- D28: 1001 pairs with empty values -/
example : let m : MapShape := { pairs := 1001, maxString := 5, bodyLen := 9009 }
    mapCtorAccepts m = true ∧ mapValidates m = true ∧ mapParses m = false := by decide

/-- D36: `ValuesToMapping [a=1, a=2]` -/
example : let m : MapShape := { pairs := 2, maxString := 1, bodyLen := 12, duplicateKeys := true }
    mapValidates m = true ∧ mapParses m = false := by decide

theorem defect_string_over_255_Mapping (m : MapShape) (h : 255 < m.maxString) :
    mapCtorAccepts m = false ∧ mapValidates m = false := by
  have : ¬ m.maxString ≤ 255 := by omega
  simp [mapCtorAccepts, mapValidates, this]

theorem ctor_implies_validate_RouterAddress (a : RaArgs) (h : raCtorAccepts a = true) :
    raValidates (raBuilt a) = true := by
  simp [raCtorAccepts] at h
  simp [raValidates, raBuilt, h.1.1, ctor_implies_validate_Mapping _ h.2]

theorem validate_implies_parses_RouterAddress_partial (a : RaArgs) (_h : raCtorAccepts a = true)
    (hp : a.options.pairs ≤ 1000) (hd : a.options.duplicateKeys = false) : raParses (raBuilt a) = true := by
  simp [raParses, raBuilt, mapParses, hp, hd]

theorem defect_empty_style_RouterAddress (a : RaArgs) (v : RaVal) (ha : a.styleLen = 0) (hv : v.styleLen = 0) :
    raCtorAccepts a = false ∧ raValidates v = false := by
  simp [raCtorAccepts, raValidates, ha, hv]

theorem defect_missing_field_RouterAddress (v : RaVal) (h : v.costNil = true ∨ v.dateNil = true ∨ v.optionsNil = true) :
    raValidates v = false := by
  rcases h with h | h | h <;> simp [raValidates, h]

/-! ## RouterInfo -/

/-- D21a excluded by hypothesis: at least one address. (D21b — the zero published date — is rejected by the
    constructor since 1683fe6.) -/
theorem ctor_implies_validate_RouterInfo_partial (a : RiArgs) (h : riCtor a = .ok)
    (hn : a.nAddresses ≠ 0) : riValidates (riBuilt a) = true := by
  unfold riCtor at h
  repeat' split at h
  all_goals first | (cases h; done) | skip
  all_goals simp_all [riValidates, riBuilt, mapCtorAccepts, mapValidates]

/-- D21a: zero addresses (a hidden router) -/
example : let a : RiArgs := { identity := some { sigType := 7, cryptoType := 4, cryptoKeyLen := some 32, signingKeyLen := some 32, paddingLen := 320 },
                               publishedZero := false, nAddresses := 0, options := { pairs := 0, maxString := 0, bodyLen := 0 } }
    riCtor a = .ok ∧ riValidates (riBuilt a) = false := by decide

/-- D21b (repaired, 1683fe6): a zero published date is rejected by the constructor and by `Validate`. -/
theorem defect_zero_published_RouterInfo (a : RiArgs) (v : RiVal) (ha : a.publishedZero = true) (hv : v.publishedZero = true) :
    riCtor a ≠ .ok ∧ riValidates v = false := by
  refine ⟨?_, by simp [riValidates, hv]⟩
  unfold riCtor
  repeat' split
  all_goals simp_all

/-- D20 (repaired, 6596339): `NewRouterInfo` never panics; a nil identity or nil address element is an error. -/
theorem ctor_no_panic_RouterInfo (a : RiArgs) : riCtor a ≠ .panic := by
  unfold riCtor
  repeat' split
  all_goals simp_all

theorem defect_nil_identity_RouterInfo (a : RiArgs) (h : a.identity = none ∨ a.someAddressNil = true) : riCtor a = .err := by
  rcases h with h | h <;> simp [riCtor, h]

/-- defect "more than 255 addresses": the size field is one byte -/
theorem defect_over_255_addresses_RouterInfo (a : RiArgs) (h : 255 < a.nAddresses) : riCtor a = .err := by
  have : ¬ a.nAddresses ≤ 255 := by omega
  unfold riCtor
  repeat' split
  all_goals simp_all [fits1]

/-! ## Lease / Lease2 -/

/-- D35 excluded by hypothesis: the gateway hash is not all zero. -/
theorem ctor_implies_validate_Lease_partial (a : LeaseArgs) (_h : leaseCtorAccepts a = true)
    (hg : a.gatewayZero = false) : leaseValidates a = true := by
  simp [leaseValidates, hg]

theorem ctor_implies_validate_Lease2_partial (a : LeaseArgs) (_h : lease2CtorAccepts a = true)
    (hg : a.gatewayZero = false) : leaseValidates a = true := by
  simp [leaseValidates, hg]

/-- D35 -/
example : leaseCtorAccepts { gatewayZero := true } = true ∧ lease2CtorAccepts { gatewayZero := true } = true
    ∧ leaseValidates { gatewayZero := true } = false := by decide

theorem validate_implies_parses_Lease (a : LeaseArgs) (_h : leaseValidates a = true) : leaseParses a = true := rfl

/-! ## LeaseSet -/

theorem ctor_implies_validate_LeaseSet (a : LsArgs) (h : lsCtor a = .ok) : lsValidates (lsBuilt a) = true := by
  unfold lsCtor at h
  repeat' split at h
  all_goals first | (cases h; done) | skip
  all_goals simp_all [lsValidates, lsBuilt]
  all_goals omega

/-- Second sentence for LeaseSet, at full strength since 186a243 (D22): `Validate` applies the parser's
    ElGamal range; the DSA range of a NULL-certificate revocation key is part of being obtainable. -/
theorem validate_implies_parses_LeaseSet (v : LsVal) (h : lsValidates v = true) (ho : lsObtainable v = true) :
    lsParses v = true := by
  simp only [lsValidates, Bool.and_eq_true] at h
  simp only [lsObtainable] at ho
  simp only [lsParses, Bool.and_eq_true]
  exact ⟨⟨h.1.1.1.1.1, h.1.1.2⟩, ho⟩

/-- every value `NewLeaseSet` returns is obtainable in that sense, hence parses back -/
theorem ctor_implies_parses_LeaseSet (a : LsArgs) (h : lsCtor a = .ok) : lsParses (lsBuilt a) = true := by
  have hv := ctor_implies_validate_LeaseSet a h
  apply validate_implies_parses_LeaseSet _ hv
  unfold lsCtor at h
  repeat' split at h
  all_goals first | (cases h; done) | skip
  all_goals simp_all [lsObtainable, lsBuilt]
  all_goals (cases hk : a.keyCert <;> simp_all)

/-- D22 (repaired): a key value outside the parser's range is rejected by constructor and validator. -/
theorem defect_elgamal_value_LeaseSet (a : LsArgs) (v : LsVal) (ha : a.elgInRange = false) (hv : v.elgInRange = false) :
    lsCtor a ≠ .ok ∧ lsValidates v = false := by
  refine ⟨?_, by simp [lsValidates, hv]⟩
  unfold lsCtor
  repeat' split
  all_goals simp_all

theorem defect_dsa_revocation_value_LeaseSet (a : LsArgs) (hk : a.keyCert = false) (ha : a.revKeyInRange = false) :
    lsCtor a ≠ .ok := by
  unfold lsCtor
  repeat' split
  all_goals simp_all

/-- D33 (repaired, ffaf3b9): `NewLeaseSet` never panics; nil keys are errors. -/
theorem ctor_no_panic_LeaseSet (a : LsArgs) : lsCtor a ≠ .panic := by
  unfold lsCtor
  repeat' split
  all_goals simp_all

theorem defect_nil_key_LeaseSet (a : LsArgs) (h : a.encKeyLen = none ∨ a.signingKeyLen = none ∨ a.privKeyNil = true) :
    lsCtor a = .err := by
  unfold lsCtor
  rcases h with h | h | h
  all_goals (repeat' split)
  all_goals simp_all

theorem defect_over_16_leases_LeaseSet (a : LsArgs) (h : 16 < a.nLeases) : lsCtor a ≠ .ok := by
  unfold lsCtor
  repeat' split
  all_goals simp_all

theorem defect_encryption_keylen_LeaseSet (a : LsArgs) (e : Nat) (he : a.encKeyLen = some e) (hne : e ≠ 256) :
    lsCtor a ≠ .ok := by
  unfold lsCtor
  repeat' split
  all_goals simp_all

/-! ## LeaseSet2 -/

/-- First sentence for LeaseSet2, at full strength since 43eefaf (D13): the constructor has the reserved-bit
    and key-size rules of `Validate`. -/
theorem ctor_implies_validate_LeaseSet2 (a : Ls2Args) (h : ls2CtorAccepts a = true) : ls2Validates a = true := by
  simp only [ls2CtorAccepts, Bool.and_eq_true] at h
  simp only [ls2Validates, Bool.and_eq_true]
  simp_all

/-- D13 (repaired): reserved flag bits and a key whose length is not the size of its known type are rejected
    by constructor and validator alike. -/
theorem defect_reserved_flags_LeaseSet2 (a : Ls2Args) (h : ls2Reserved a.flags = true) :
    ls2CtorAccepts a = false ∧ ls2Validates a = false := by
  simp [ls2CtorAccepts, ls2Validates, h]

theorem defect_keylen_vs_type_LeaseSet2 (a : Ls2Args) (k : EncKey) (n : Nat) (hk : k ∈ a.keys)
    (ht : cryptoInfo k.keyType = some n) (hne : k.keyLen ≠ n) :
    ls2CtorAccepts a = false ∧ ls2Validates a = false := by
  have h2 : a.keys.all encKeyValid = false := by
    rw [List.all_eq_false]; exact ⟨k, hk, by simp [encKeyValid, ht, hne]⟩
  simp [ls2CtorAccepts, ls2Validates, h2]

/-- D06 (repaired, c5dd9b4): a key object that cannot sign is an error, not a silent placeholder. -/
theorem defect_unsupported_key_LeaseSet2 (a : Ls2Args) (h : a.key = .unsupported) : ls2CtorAccepts a = false := by
  simp [ls2CtorAccepts, ls2SignatureOk, h]

theorem validate_implies_parses_LeaseSet2 (a : Ls2Args) (h : ls2Validates a = true) : ls2Parses a = true := by
  simp only [ls2Validates, Bool.and_eq_true] at h
  obtain ⟨⟨⟨⟨hcnt, _⟩, _⟩, _⟩, hl⟩ := h
  simp only [ls2Parses, Bool.and_eq_true]
  exact ⟨hcnt, hl⟩

theorem defect_offline_mismatch_LeaseSet2 (a : Ls2Args) (h : offlineFlag a.flags ≠ a.offlinePresent) :
    ls2CtorAccepts a = false ∧ ls2Validates a = false := by
  have : (offlineFlag a.flags == a.offlinePresent) = false := by simpa using h
  simp [ls2CtorAccepts, ls2Validates, this]

theorem defect_key_count_LeaseSet2 (a : Ls2Args) (h : a.keys.length = 0 ∨ 16 < a.keys.length) :
    ls2CtorAccepts a = false ∧ ls2Validates a = false := by
  have : (decide (1 ≤ a.keys.length) && decide (a.keys.length ≤ 16)) = false := by
    rcases h with h | h
    · simp [h]
    · have : ¬ a.keys.length ≤ 16 := by omega
      simp [this]
  simp [ls2CtorAccepts, ls2Validates, this]

theorem defect_keylen_vs_data_LeaseSet2 (a : Ls2Args) (k : EncKey) (hk : k ∈ a.keys) (hne : k.keyLen ≠ k.dataLen) :
    ls2CtorAccepts a = false ∧ ls2Validates a = false := by
  have h2 : a.keys.all encKeyValid = false := by
    rw [List.all_eq_false]; exact ⟨k, hk, by simp [encKeyValid, hne]⟩
  simp [ls2CtorAccepts, ls2Validates, h2]

theorem defect_over_16_leases_LeaseSet2 (a : Ls2Args) (h : 16 < a.nLeases) :
    ls2CtorAccepts a = false ∧ ls2Validates a = false := by
  have : ¬ a.nLeases ≤ 16 := by omega
  simp [ls2CtorAccepts, ls2Validates, this]

/-! ## EncryptedLeaseSet -/

theorem ctor_implies_validate_EncryptedLeaseSet (a : ElsArgs) (h : elsCtorAccepts a = true) :
    elsValidates (elsBuilt a) = true := by
  simp only [elsCtorAccepts, Bool.and_eq_true, decide_eq_true_eq] at h
  have : a.innerLen % 65536 = a.innerLen := Nat.mod_eq_of_lt (by omega)
  simp only [elsValidates, elsBuilt, Bool.and_eq_true, decide_eq_true_eq, this]
  simp_all

/-- Second sentence for EncryptedLeaseSet, at full strength since 9f2a61a (D23): `Validate` compares the
    length field with the data length as `int`. -/
theorem validate_implies_parses_EncryptedLeaseSet (v : ElsVal) (h : elsValidates v = true) : elsParses v = true := by
  simp only [elsValidates, Bool.and_eq_true] at h
  exact h.1.2

/-- D23 (repaired): inner data that the two-byte length field cannot describe is rejected by the constructor,
    and a value whose length field disagrees with its data (65 597 bytes, field 61) by the validator. -/
theorem defect_inner_over_65535_EncryptedLeaseSet (a : ElsArgs) (h : 65535 < a.innerLen) : elsCtorAccepts a = false := by
  have : ¬ a.innerLen ≤ 65535 := by omega
  simp [elsCtorAccepts, this]

/-- the value the pre-fix constructor produced for 65 597 bytes of inner data -/
def wrappedEls : ElsVal :=
  { sigType := 7, blindedKeyLen := 32, expires := 600, flags := 0, offlinePresent := false,
    innerLength := 61, dataLen := 65597, signatureOk := true }

example : elsValidates wrappedEls = false := by decide

theorem defect_zero_expires_EncryptedLeaseSet (a : ElsArgs) (v : ElsVal) (ha : a.expires = 0) (hv : v.expires = 0) :
    elsCtorAccepts a = false ∧ elsValidates v = false := by
  simp [elsCtorAccepts, elsValidates, ha, hv]

theorem defect_reserved_flags_EncryptedLeaseSet (a : ElsArgs) (v : ElsVal) (ha : elsReserved a.flags = true)
    (hv : elsReserved v.flags = true) : elsCtorAccepts a = false ∧ elsValidates v = false := by
  simp [elsCtorAccepts, elsValidates, ha, hv]

theorem defect_offline_mismatch_EncryptedLeaseSet (a : ElsArgs) (v : ElsVal)
    (ha : offlineFlag a.flags ≠ a.offlinePresent) (hv : offlineFlag v.flags ≠ v.offlinePresent) :
    elsCtorAccepts a = false ∧ elsValidates v = false := by
  have h1 : (offlineFlag a.flags == a.offlinePresent) = false := by simpa using ha
  have h2 : (offlineFlag v.flags == v.offlinePresent) = false := by simpa using hv
  simp [elsCtorAccepts, elsValidates, h1, h2]

theorem defect_short_inner_EncryptedLeaseSet (a : ElsArgs) (v : ElsVal) (ha : a.innerLen < 61) (hv : v.dataLen < 61) :
    elsCtorAccepts a = false ∧ elsValidates v = false := by
  have h1 : ¬ 61 ≤ a.innerLen := by omega
  have h2 : ¬ 61 ≤ v.dataLen := by omega
  simp [elsCtorAccepts, elsValidates, h1, h2]

theorem defect_unknown_sigtype_EncryptedLeaseSet (a : ElsArgs) (v : ElsVal) (ha : sigInfo a.sigType = none)
    (hv : sigInfo v.sigType = none) : elsCtorAccepts a = false ∧ elsValidates v = false := by
  simp [elsCtorAccepts, elsValidates, ha, hv]

theorem defect_blinded_keylen_EncryptedLeaseSet (a : ElsArgs) (v : ElsVal) (ha : a.blindedKeyLen ≠ sigPubSize a.sigType)
    (hv : v.blindedKeyLen ≠ sigPubSize v.sigType) : elsCtorAccepts a = false ∧ elsValidates v = false := by
  simp [elsCtorAccepts, elsValidates, ha, hv]

/-- defect "length-field mismatch" -/
theorem defect_inner_length_mismatch_EncryptedLeaseSet (v : ElsVal) (h : v.innerLength ≠ v.dataLen) :
    elsValidates v = false := by
  simp [elsValidates, h]

/-! ## OfflineSignature -/

/-- D24 excluded by hypothesis: a non-zero expiry. -/
theorem ctor_implies_validate_OfflineSignature_partial (a : OffArgs) (h : offCtorAccepts a = true)
    (he : a.expires ≠ 0) : offValidates a = true := by
  simp [offValidates, h, he]

/-- D24 -/
example : let a : OffArgs := { expires := 0, transientType := 7, transientKeyLen := 32, destType := 7, signatureLen := 64 }
    offCtorAccepts a = true ∧ offValidates a = false := by decide

/-- `CreateOfflineSignature` has the expiry rule itself: true in full. -/
theorem ctor_implies_validate_CreateOfflineSignature (e tt tk dt : Nat) (h : offCreateAccepts e tt tk dt = true) :
    offValidates { expires := e, transientType := tt, transientKeyLen := tk, destType := dt, signatureLen := 64 } = true := by
  simp only [offCreateAccepts, Bool.and_eq_true] at h
  obtain ⟨⟨h1, _⟩, h3⟩ := h
  simp only [offValidates, Bool.and_eq_true]
  exact ⟨h1, h3⟩

theorem validate_implies_parses_OfflineSignature (a : OffArgs) (h : offValidates a = true) : offParses a = true := by
  simp only [offValidates, offCtorAccepts, Bool.and_eq_true] at h
  obtain ⟨_, ⟨⟨⟨h1, _⟩, h3⟩, _⟩⟩ := h
  simp only [offParses, Bool.and_eq_true]
  exact ⟨h1, h3⟩

theorem defect_unknown_type_OfflineSignature (a : OffArgs) (h : sigPubSize a.transientType = 0 ∨ sigLen a.destType = 0) :
    offCtorAccepts a = false ∧ offValidates a = false := by
  rcases h with h | h <;> simp [offCtorAccepts, offValidates, h]

theorem defect_keylen_OfflineSignature (a : OffArgs) (h : a.transientKeyLen ≠ sigPubSize a.transientType) :
    offCtorAccepts a = false ∧ offValidates a = false := by
  simp [offCtorAccepts, offValidates, h]

theorem defect_siglen_OfflineSignature (a : OffArgs) (h : a.signatureLen ≠ sigLen a.destType) :
    offCtorAccepts a = false ∧ offValidates a = false := by
  simp [offCtorAccepts, offValidates, h]

/-! ## Signature, Certificate -/

theorem ctor_implies_validate_Signature (t len : Nat) (h : sigCtorAccepts t len = true) : sigValidates t len = true := h
theorem validate_implies_parses_Signature (t len : Nat) (h : sigValidates t len = true) : sigParses t len = true := h

theorem defect_length_Signature (t len : Nat) (h : len ≠ sigLen t) :
    sigCtorAccepts t len = false ∧ sigValidates t len = false := by
  simp [sigCtorAccepts, sigValidates, h]

theorem defect_unknown_type_Signature (t len : Nat) (h : sigInfo t = none) :
    sigCtorAccepts t len = false ∧ sigValidates t len = false := by
  simp [sigCtorAccepts, sigValidates, h]

theorem ctor_implies_validate_Certificate (t n : Nat) (_h : certCtorAccepts t n = true) : certValidates t n = true := rfl
theorem validate_implies_parses_Certificate (t n : Nat) (_h : certValidates t n = true) : certParses t n = true := rfl

theorem defect_unknown_type_Certificate (t n : Nat) (h : 5 < t) : certCtorAccepts t n = false := by
  have : ¬ t ≤ 5 := by omega
  simp [certCtorAccepts, this]

theorem defect_payload_Certificate (t n : Nat)
    (h : 65535 < n ∨ (t = 0 ∧ n ≠ 0) ∨ (t = 2 ∧ n ≠ 0) ∨ (t = 3 ∧ n ≠ 40 ∧ n ≠ 72)) : certCtorAccepts t n = false := by
  rcases h with h | ⟨rfl, h⟩ | ⟨rfl, h⟩ | ⟨rfl, h1, h2⟩
  · have : ¬ n ≤ 65535 := by omega
    simp [certCtorAccepts, this]
  · simp [certCtorAccepts, h]
  · simp [certCtorAccepts, h]
  · simp [certCtorAccepts, h1, h2]

/-- `Build` succeeds only on configurations the builder's `Validate` accepts. -/
theorem build_implies_validate_Builder (b : Builder) (h : builderBuilds b = true) : builderValidates b = true := by
  simp only [builderBuilds, Bool.and_eq_true] at h
  exact h.1.1

/-- defect "KEY builder without key types or payload": rejected by `Validate` and `Build` -/
theorem defect_key_without_types_Builder (b : Builder) (ht : b.certType = 5) (h1 : b.signingTypeSet = false)
    (h2 : b.cryptoTypeSet = false) (h3 : b.payloadSet = false) : builderValidates b = false ∧ builderBuilds b = false := by
  simp [builderBuilds, builderValidates, ht, h1, h2, h3]

/-- observation (not a failure): the builder's `Validate` does not know the payload rules of
    `NewCertificateWithType` — a NULL certificate with a payload passes `Validate` and fails `Build` -/
example : builderValidates { certType := 0, payloadSet := true, payloadLen := 1 } = true
    ∧ builderBuilds { certType := 0, payloadSet := true, payloadLen := 1 } = false := by decide

end I2P.Props.C14
