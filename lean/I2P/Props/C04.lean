import I2P.Proofs.CheckedLemmas
/-! # C04 — no input makes a parser panic

Property theorems only; the checked mirrors are in `I2P/Checked.lean`, the helper lemmas in
`I2P/Proofs/CheckedLemmas.lean`.

`I2P/Checked.lean` transcribes the Go parsers a second time with Go's run-time checks explicit
(`s[i]`, `s[lo:hi]` up to the *capacity*, `make` with a negative length, nil dereference) in the monad
`Go α = Except Panic α`.  For every reader `f` there are two theorems:

* `fC_refines` — the checked mirror returns `.ok` of exactly what the pure model (`Data.lean`, `Kac.lean`,
  `Structs.lean`) returns, for EVERY input (and every type argument where a type is a parameter);
* `fC_no_panic` — the corollary that it never returns `.error _`.

The `…S_any_slice` variants state the same for an arbitrary Go slice (any underlying array, offset and
capacity), not only for a buffer whose capacity equals its length.  The section on `ReadKeysAndCert`
also exhibits the panic that the order of the code before commit 706c093 had. -/
namespace I2P.Props.C04
open I2P I2P.Spec I2P.Kac I2P.Structs I2P.Checked

/-! ### the primitives: exactly Go's bounds rules -/

/-- `s[lo:hi]` panics iff Go's rule `0 ≤ lo ≤ hi ≤ cap(s)` is violated -/
theorem slice_panics_iff (s : Sl) (lo hi : Int) :
    (∃ e, slice s lo hi = .error e) ↔ ¬ (0 ≤ lo ∧ lo ≤ hi ∧ hi ≤ s.cap) := by
  by_cases h : 0 ≤ lo ∧ lo ≤ hi ∧ hi ≤ s.cap
  · simp [slice, h]
  · simp [slice, h]

/-- within the length, `s[lo:hi]` is the obvious window of the visible bytes -/
theorem slice_within_len (s : Sl) (lo hi : Nat) (h1 : lo ≤ hi) (h2 : hi ≤ s.len) :
    ∃ t, slice s lo hi = .ok t ∧ t.data = (s.data.drop lo).take (hi - lo) ∧ t.len = hi - lo := by
  refine ⟨_, slice_eq (by omega) (by omega) (by omega), ?_, ?_⟩
  · simpa using Sl.sub_data h1 h2
  · simpa using Sl.sub_len h1 h2

/-- `s[i]` panics iff `i` is outside `[0, len)` -/
theorem index_panics_iff (s : Sl) (i : Int) : (∃ e, index s i = .error e) ↔ ¬ (0 ≤ i ∧ i < s.len) := by
  by_cases h : 0 ≤ i ∧ i < s.len
  · simp [index, h]
  · simp [index, h]

/-- `make([]byte, n)` panics iff `n < 0` -/
theorem mk_panics_iff (n : Int) : (∃ e, mk n = .error e) ↔ n < 0 := by
  by_cases h : 0 ≤ n
  · have : ¬ n < 0 := by omega
    simp [mk, h, this]
  · have : n < 0 := by omega
    simp [mk, h, this]

/-! ### data: Integer, I2PString, Date, Hash -/

theorem readIntegerC_refines (w : Bytes) (size : Int) : readIntegerB w size = .ok (readInteger w size) := by
  have hl : (Sl.ofBytes w).len = w.length := rfl
  simp only [readIntegerB, readIntegerC_eq, readInteger, bind_ok, pure_eq_ok]
  by_cases h1 : size ≤ 0 ∨ size > 8
  · simp [h1]
  · by_cases h2 : ((Sl.ofBytes w).len : Int) < size
    · have : w.length < size.toNat := by omega
      simp only [h1, h2, if_true, if_false, this, Option.map_some, Sl.ofBytes_data, Sl.nil_data]
    · have : ¬ w.length < size.toNat := by omega
      simp only [h1, h2, if_false, this, Option.map_some]
      rw [Sl.sub_data_to (by omega), Sl.sub_data_from (by omega), Sl.ofBytes_data]

theorem readIntegerC_no_panic (w : Bytes) (size : Int) : ∃ r, readIntegerB w size = .ok r :=
  ⟨_, readIntegerC_refines w size⟩

/-- `intFromBytes` (with the `_ = b[7]` bounds hint of `binary.BigEndian.Uint64`) on any slice -/
theorem intFromBytesC_refines (s : Sl) : intFromBytesC s = .ok (intFromBytes s.data) := intFromBytesC_eq s
theorem intFromBytesC_no_panic (s : Sl) : ∃ r, intFromBytesC s = .ok r := ⟨_, intFromBytesC_eq s⟩

/-- `Integer.Int()` on any slice -/
theorem integerIntC_refines (s : Sl) : integerIntC s = .ok (integerInt s.data) := integerIntC_eq s
theorem integerIntC_no_panic (s : Sl) : ∃ r, integerIntC s = .ok r := ⟨_, integerIntC_eq s⟩

theorem readStrC_refines (w : Bytes) :
    readStrC w = .ok ((readStr w).1, (readStr w).2.1, (readStr w).2.2.map StrErrC.ofPure) := by
  obtain ⟨str, rem, h, h1, h2⟩ := readStrS_spec (.ofBytes w)
  simp only [Sl.ofBytes_data] at h h1 h2
  simp only [readStrC, h, bind_ok, pure_eq_ok, h1, h2]

theorem readStrC_no_panic (w : Bytes) : ∃ r, readStrC w = .ok r := ⟨_, readStrC_refines w⟩

theorem readStrS_any_slice (s : Sl) : ∃ r, readStrS s = .ok r := by
  obtain ⟨str, rem, h, -, -⟩ := readStrS_spec s; exact ⟨_, h⟩

theorem readDateC_refines (w : Bytes) : readDateC w = .ok (readDate w) := onBytes_of_spec readDateS_spec w
theorem readDateC_no_panic (w : Bytes) : ∃ r, readDateC w = .ok r := ⟨_, readDateC_refines w⟩

theorem readHashC_refines (w : Bytes) : readHashC w = .ok (readHash w) := onBytes_of_spec readHashS_spec w
theorem readHashC_no_panic (w : Bytes) : ∃ r, readHashC w = .ok r := ⟨_, readHashC_refines w⟩

/-! ### Certificate, KeyCertificate -/

theorem readCertC_refines (w : Bytes) : readCertC w = .ok (readCert w) := onBytes_of_spec readCertS_spec w
theorem readCertC_no_panic (w : Bytes) : ∃ r, readCertC w = .ok r := ⟨_, readCertC_refines w⟩
theorem readCertS_any_slice (s : Sl) : ∃ r, readCertS s = .ok r ∧ vRem r = readCert s.data := readCertS_spec s

theorem newKeyCertC_refines (w : Bytes) : newKeyCertC w = .ok (newKeyCert w) := onBytes_of_spec newKeyCertS_spec w
theorem newKeyCertC_no_panic (w : Bytes) : ∃ r, newKeyCertC w = .ok r := ⟨_, newKeyCertC_refines w⟩
theorem newKeyCertS_any_slice (s : Sl) : ∃ r, newKeyCertS s = .ok r ∧ vRem r = newKeyCert s.data := newKeyCertS_spec s

/-! ### KeysAndCert: the current order never panics, the pre-fix order did -/

/-- the padding code relies on exactly two guards — crypto key ≤ 256 bytes and signing key ≤ 128 bytes —
    and under them it cannot panic (and returns the pure model's padding) -/
theorem extractPaddingC_guard (s : Sl) (cs ss : Nat) (h : 384 ≤ s.len) (hc : cs ≤ 256) (hs : ss ≤ 128) :
    extractPaddingFromDataC s cs ss = .ok (extractPadding s.data cs ss) :=
  extractPaddingFromDataC_eq s cs ss h hc hs

/-- without the second guard it panics: a 32-byte crypto key with a signing key of 129…351 bytes makes
    `padding[:224]` exceed the capacity `384 - 32 - ss` of the `make`d padding buffer -/
theorem extractPaddingC_unguarded_panics (s : Sl) (ss : Nat) (h : 384 ≤ s.len) (h1 : 128 < ss) (h2 : ss < 352) :
    extractPaddingFromDataC s 32 ss = .error .sliceOOB :=
  extractPaddingFromDataC_panics s ss h h1 h2

/-- `ReadKeysAndCert` in the current order: never a panic, always the pure model's answer -/
theorem readKacC_refines (w : Bytes) : readKacC w = .ok (readKac w) := onBytes_of_spec readKacS_spec w
theorem readKacC_no_panic (w : Bytes) : ∃ r, readKacC w = .ok r := ⟨_, readKacC_refines w⟩
theorem readKacS_any_slice (s : Sl) : ∃ r, readKacS s = .ok r ∧ vRem r = readKac s.data := readKacS_spec s

/-- the 391-byte input of commit 706c093: 384 key-block bytes, then a KEY certificate `05 0004 0003 0004`
    (signing type 3 = P-521, 132 bytes; crypto type 4 = X25519, 32 bytes) -/
def oldPanicInput : Bytes := List.replicate 384 0 ++ [5, 0, 4, 0, 3, 0, 4]

set_option maxRecDepth 20000 in
/-- the pre-fix order of `ReadKeysAndCert` panics on it with "slice bounds out of range" … -/
example : readKacPrefixC oldPanicInput = .error .sliceOOB := by rfl

set_option maxRecDepth 20000 in
/-- … the current order rejects it with an ordinary error -/
example : readKacC oldPanicInput = .ok none := by rfl

/-- the pre-fix order panics on EVERY input whose key certificate declares a 32-byte crypto key
    (types 4–7) together with P-521 or RSA-2048 signing (types 3, 4) -/
theorem readKacPrefixC_panics (w : Bytes) (h : 387 ≤ w.length) (t : Bytes) (h5 : w.drop 384 = 5 :: t)
    (kc : KeyCert) (rem : Bytes) (hkc : newKeyCert (w.drop 384) = some (kc, rem))
    (hc : kc.cpk = 4 ∨ kc.cpk = 5 ∨ kc.cpk = 6 ∨ kc.cpk = 7) (hs : kc.spk = 3 ∨ kc.spk = 4) :
    readKacPrefixC w = .error .sliceOOB :=
  onBytes_error (readKacPrefixS_panics (.ofBytes w) (by simpa using h) kc rem t (by simpa using h5)
    (by simpa using hkc) hc hs)

set_option maxRecDepth 20000 in
/-- the hypotheses of `readKacPrefixC_panics` are satisfiable -/
example : ∃ (w t : Bytes) (kc : KeyCert) (rem : Bytes), 387 ≤ w.length ∧ w.drop 384 = 5 :: t ∧ newKeyCert (w.drop 384) = some (kc, rem) ∧
    (kc.cpk = 4 ∨ kc.cpk = 5 ∨ kc.cpk = 6 ∨ kc.cpk = 7) ∧ (kc.spk = 3 ∨ kc.spk = 4) := by
  refine ⟨oldPanicInput, [0, 4, 0, 3, 0, 4],
    { cert := { kind := [5], len := [0, 4], payload := [0, 3, 0, 4] }, spk := 3, cpk := 4 }, [], ?_, ?_, ?_, Or.inl rfl, Or.inl rfl⟩
  · simp only [oldPanicInput, List.length_append, List.length_replicate]; decide
  · exact List.drop_left' (List.length_replicate ..)
  · rw [show oldPanicInput.drop 384 = [5, 0, 4, 0, 3, 0, 4] from List.drop_left' (List.length_replicate ..)]; rfl

theorem readKacElgEdC_refines (w : Bytes) : readKacElgEdC w = .ok (readKacFast 0 w) :=
  onBytes_of_spec readKacElgEdS_spec w
theorem readKacElgEdC_no_panic (w : Bytes) : ∃ r, readKacElgEdC w = .ok r := ⟨_, readKacElgEdC_refines w⟩

theorem readKacX25519EdC_refines (w : Bytes) : readKacX25519EdC w = .ok (readKacFast 4 w) :=
  onBytes_of_spec readKacX25519EdS_spec w
theorem readKacX25519EdC_no_panic (w : Bytes) : ∃ r, readKacX25519EdC w = .ok r := ⟨_, readKacX25519EdC_refines w⟩

theorem readDestinationC_refines (w : Bytes) : readDestinationC w = .ok (readDestination w) :=
  onBytes_of_spec readDestinationS_spec w
theorem readDestinationC_no_panic (w : Bytes) : ∃ r, readDestinationC w = .ok r := ⟨_, readDestinationC_refines w⟩

/-! ### Signature, OfflineSignature -/

/-- for every signature type (16-bit or not) -/
theorem readSigC_refines (w : Bytes) (t : Nat) : readSigC w t = .ok (readSig w t) :=
  onBytes_of_spec (f := (readSigS · (t : Int))) (g := fun d => readSig d t) (fun s => readSigS_spec s t) w

/-- for every Go `int`, negative ones included -/
theorem readSigC_no_panic (w : Bytes) (t : Int) : ∃ r, readSigC w t = .ok r := by
  by_cases h : t < 0
  · exact ⟨_, onBytes_ok (f := (readSigS · t)) (readSigS_neg _ h)⟩
  · obtain ⟨n, rfl⟩ := Int.eq_ofNat_of_zero_le (by omega : 0 ≤ t)
    exact ⟨_, readSigC_refines w n⟩

theorem readSigS_any_slice (s : Sl) (t : Nat) : ∃ r, readSigS s t = .ok r ∧ vRem r = readSig s.data t :=
  readSigS_spec s t

/-- for every destination signature type: the parsed offline signature re-serialises to the bytes the pure
    model returns, with the same remainder and transient type -/
theorem readOffSigC_refines (w : Bytes) (t : Nat) :
    ∃ r, readOffSigC w t = .ok r ∧ r.map (fun p => (p.1.bytes, p.2, p.1.sigtype)) = readOffSig w t := by
  obtain ⟨r, hr, hv⟩ := readOffSigS_spec (.ofBytes w) t
  refine ⟨_, onBytes_ok (f := (readOffSigS · t)) hr, ?_⟩
  rw [Sl.ofBytes_data] at hv
  rw [← hv]; cases r <;> rfl

theorem readOffSigC_no_panic (w : Bytes) (t : Nat) : ∃ r, readOffSigC w t = .ok r := by
  obtain ⟨r, h, -⟩ := readOffSigC_refines w t; exact ⟨r, h⟩

theorem readOffSigS_any_slice (s : Sl) (t : Nat) : ∃ r, readOffSigS s t = .ok r ∧ vOff r = readOffSig s.data t :=
  readOffSigS_spec s t

/-! ### Lease, Lease2 -/

theorem readLeaseC_refines (w : Bytes) : readLeaseC w = .ok (readFixedN 44 w) := onBytes_of_spec readLeaseS_spec w
theorem readLeaseC_no_panic (w : Bytes) : ∃ r, readLeaseC w = .ok r := ⟨_, readLeaseC_refines w⟩

theorem readLease2C_refines (w : Bytes) : readLease2C w = .ok (readFixedN 40 w) := onBytes_of_spec readLease2S_spec w
theorem readLease2C_no_panic (w : Bytes) : ∃ r, readLease2C w = .ok r := ⟨_, readLease2C_refines w⟩

/-! ### LeaseSet2: the parse helpers

This section covers the helpers around the options mapping; `ls2Head`, `ls2Tail` are the corresponding lines of
the pure `readLeaseSet2` (`readLeaseSet2_pieces`).  The options mapping (`parseOptionsMapping`,
`common.ReadMapping`) and the end-to-end theorem `readLeaseSet2C_refines` are in `Props/C04b.lean`. -/

/-- `ls2Head`/`ls2Tail` are literally the head and the tail of the pure model -/
theorem readLeaseSet2_pieces (d : Bytes) : readLeaseSet2 d =
    if d.length < 499 then none else
    match readDestination d with
    | none => none
    | some (k, r) =>
      match k.bytes with
      | none => none
      | some db =>
        if r.length < 8 then none else
        match (if beVal ((r.drop 6).take 2) % 2 = 1 then readOffSig (r.drop 8) k.kc.spk
               else some ([], r.drop 8, k.kc.spk)) with
        | none => none
        | some (ob, r1, sigT) =>
          match readOptions r1 true with
          | none => none
          | some (optb, r2) => (ls2Tail sigT r2).map (fun p => (db ++ r.take 8 ++ ob ++ optb ++ p.1, p.2)) :=
  readLeaseSet2_decomp d

/-- `parseDestinationAndHeader`: never panics; destination, published, expires, flags and remainder are
    those of the pure model; on success the destination pointer is set -/
theorem parseDestinationAndHeaderC_refines (ls2 : LS2) (s : Sl) :
    ∃ r, parseDestinationAndHeaderC ls2 s = .ok r ∧
      (∀ l rem, r = some (l, rem) → l.destination.isSome) ∧
      r.map (fun p => (p.1.destination, p.1.published, p.1.expires, p.1.flags, p.2.data)) =
        (ls2Head s.data).map (fun q => (some q.1, q.2.1, q.2.2.1, q.2.2.2.1, q.2.2.2.2)) :=
  parseDestinationAndHeaderC_spec ls2 s

/-- `parseOfflineSignature`: never panics once the destination is set (it dereferences it) -/
theorem parseOfflineSignatureC_no_panic' (ls2 : LS2) (s : Sl) (hd : ls2.destination.isSome) :
    ∃ r, parseOfflineSignatureC ls2 s = .ok r :=
  parseOfflineSignatureC_no_panic ls2 s hd

/-- … and computes the `off` value of the pure model -/
theorem parseOfflineSignatureC_refines (ls2 : LS2) (s : Sl) (k : KeysAndCert) (hd : ls2.destination = some k)
    (ho : ls2.offlineSignature = none) :
    ∃ r, parseOfflineSignatureC ls2 s = .ok r ∧
      (∀ l rem, r = some (l, rem) → l.destination = some k ∧ l.flags = ls2.flags ∧
        (l.offlineSignature.isSome ↔ ls2.flags % 2 = 1)) ∧
      r.map (fun p => ((p.1.offView k).1, p.2.data, (p.1.offView k).2)) =
        (if ls2.flags % 2 = 1 then readOffSig s.data (k.kc.spk % 65536) else some ([], s.data, k.kc.spk)) :=
  parseOfflineSignatureC_spec ls2 s k hd ho

/-- for a destination that came out of the parser the `uint16(…)` conversion is the identity, so the helper
    computes exactly the `off` value of the pure `readLeaseSet2` -/
theorem parseOfflineSignatureC_refines_parsed (ls2 : LS2) (s : Sl) (k : KeysAndCert) (hd : ls2.destination = some k)
    (ho : ls2.offlineSignature = none) (d r : Bytes) (hk : readDestination d = some (k, r)) :
    ∃ res, parseOfflineSignatureC ls2 s = .ok res ∧
      res.map (fun p => ((p.1.offView k).1, p.2.data, (p.1.offView k).2)) =
        (if ls2.flags % 2 = 1 then readOffSig s.data k.kc.spk else some ([], s.data, k.kc.spk)) := by
  obtain ⟨res, h, -, hv⟩ := parseOfflineSignatureC_spec ls2 s k hd ho
  have hs : k.kc.spk % 65536 = k.kc.spk := by
    have := sigConstructible_cases (readKac_struct (readDestination_iff.mp hk).1).2.2.2.1
    omega
  rw [hs] at hv
  exact ⟨res, h, hv⟩

/-- `parseKeysLeasesAndSignature` (key count, key loop, lease count, lease loop, signature): never panics
    once the destination is set, and computes `ls2Tail` -/
theorem parseKeysLeasesAndSignatureC_refines (ls2 : LS2) (s : Sl) (k : KeysAndCert) (hd : ls2.destination = some k) :
    ∃ r, parseKeysLeasesAndSignatureC ls2 s = .ok r ∧
      r.map (fun p => (p.1.tailBytes, p.2.data)) = ls2Tail (ls2.sigTypeOf k) s.data :=
  parseKeysLeasesAndSignatureC_spec ls2 s k hd

/-- the helpers in the order `ReadLeaseSet2` calls them never panic, whatever slice `s'` the (unmirrored)
    options parser hands on -/
theorem readLeaseSet2_chain_no_panic (s s' : Sl) :
    ∃ r1, parseDestinationAndHeaderC {} s = .ok r1 ∧ ∀ l1 s1, r1 = some (l1, s1) →
      ∃ r2, parseOfflineSignatureC l1 s1 = .ok r2 ∧ ∀ l2 s2, r2 = some (l2, s2) →
        ∃ r3, parseKeysLeasesAndSignatureC l2 s' = .ok r3 := by
  obtain ⟨r1, h1, hd1, hv1⟩ := parseDestinationAndHeaderC_spec {} s
  refine ⟨r1, h1, ?_⟩
  intro l1 s1 e1
  have hds := hd1 l1 s1 e1
  obtain ⟨k, hk⟩ := Option.isSome_iff_exists.mp hds
  have ho : l1.offlineSignature = none := by
    subst e1
    simp only [parseDestinationAndHeaderC] at h1
    -- the only fields the helper writes are destination, published, expires, flags
    revert h1
    split
    · intro h; cases h
    · intro h
      cases hr : readDestinationS s with
      | error e => simp [hr] at h
      | ok r =>
        cases r with
        | none => simp [hr] at h
        | some p =>
          obtain ⟨dest, rem⟩ := p
          simp only [hr, bind_ok] at h
          split at h
          · cases h
          · rename_i h8
            have h8' : 8 ≤ rem.len := by simp only [Sl.ilen_eq] at h8; omega
            rw [parseHeaderFieldsC_eq _ rem h8'] at h
            simp only [bind_ok, pure_eq_ok, Except.ok.injEq, Option.some.injEq, Prod.mk.injEq] at h
            rw [← h.1]
  obtain ⟨r2, h2, hd2, -⟩ := parseOfflineSignatureC_spec l1 s1 k hk ho
  refine ⟨r2, h2, ?_⟩
  intro l2 s2 e2
  obtain ⟨r3, h3, -⟩ := parseKeysLeasesAndSignatureC_spec l2 s' k (hd2 l2 s2 e2).1
  exact ⟨r3, h3⟩

/-! ### LeaseSet2: loop bounds

Both loops are structural recursions on a fuel argument (termination is by construction); the ghost counter
`n` in their result is the number of loop bodies executed. -/

/-- encryption-key loop, for arbitrary arguments: at most `fuel` iterations, never past `numKeys`, and every
    iteration strictly shortens the remaining input (by at least the 4 header bytes) -/
theorem keys_loop_bounds (fuel : Nat) (i numKeys : Int) (ls2 : LS2) (s : Sl) (l : LS2) (rem : Sl) (n : Nat)
    (h : parseEncryptionKeysLoopC fuel i numKeys ls2 s = .ok (some (l, rem, n))) :
    n ≤ fuel ∧ (n = 0 ∨ i + n ≤ numKeys) ∧ rem.len + 4 * n ≤ s.len ∧ n ≤ s.data.length + 1 := by
  obtain ⟨a, b, c⟩ := parseEncryptionKeysLoopC_bounds fuel i numKeys ls2 s l rem n h
  exact ⟨a, b, c, by simp; omega⟩

/-- lease loop, for arbitrary arguments: at most `fuel` iterations, never past `numLeases`, every iteration
    consumes exactly 40 bytes -/
theorem lease_loop_bounds (fuel : Nat) (i numLeases : Int) (ls : List Bytes) (s : Sl) (ls' : List Bytes) (rem : Sl)
    (n : Nat) (h : parseLease2ArrayLoopC fuel i numLeases ls s = .ok (some (ls', rem, n))) :
    n ≤ fuel ∧ (n = 0 ∨ i + n ≤ numLeases) ∧ rem.len + 40 * n = s.len ∧ n ≤ s.data.length + 1 := by
  obtain ⟨a, b, c⟩ := parseLease2ArrayLoopC_bounds fuel i numLeases ls s ls' rem n h
  exact ⟨a, b, c, by simp; omega⟩

/-- as `parseEncryptionKeys` runs the loop: the number of keys read is the count byte, which is ≤ 16 ≤ 255,
    and `1 + 4·count` bytes at least were consumed -/
theorem parseEncryptionKeysC_count (ls2 : LS2) (s : Sl) (l : LS2) (rem : Sl)
    (h : parseEncryptionKeysC ls2 s = .ok (some (l, rem))) :
    ∃ nk : UInt8, s.data.head? = some nk ∧ l.encryptionKeys.length = nk.toNat ∧ nk.toNat ≤ 16 ∧ nk.toNat ≤ 255 ∧
      rem.len + 1 + 4 * nk.toNat ≤ s.len := by
  obtain ⟨r, hr, hm⟩ := parseEncryptionKeysC_spec ls2 s
  rw [h] at hr
  cases hr
  obtain ⟨nk, ks, hks, -, h16, hl, hlen, hh, -⟩ := hm
  refine ⟨nk, hh, by rw [hl]; simp [hks], h16, by omega, by omega⟩

/-- as `parseLeases` runs the loop: the number of leases read is the count byte ≤ 16 ≤ 255, and exactly
    `1 + 40·count` bytes were consumed -/
theorem parseLeasesC_count (ls2 : LS2) (s : Sl) (l : LS2) (rem : Sl)
    (h : parseLeasesC ls2 s = .ok (some (l, rem))) :
    ∃ nl : UInt8, s.data.head? = some nl ∧ l.leases.length = nl.toNat ∧ nl.toNat ≤ 16 ∧ nl.toNat ≤ 255 ∧
      rem.len + 1 + 40 * nl.toNat = s.len := by
  obtain ⟨r, hr, hm⟩ := parseLeasesC_spec ls2 s
  rw [h] at hr
  cases hr
  obtain ⟨nl, xs, hxs, h16, hl, hlen, hh, -⟩ := hm
  refine ⟨nl, hh, by rw [hl]; exact hxs, h16, by omega, by omega⟩

/-! ### EncryptedLeaseSet -/

/-- `ReadEncryptedLeaseSet` (all parse helpers and `Validate`): never panics, and the parsed value
    re-serialises to exactly what the pure model returns -/
theorem readELSC_refines (w : Bytes) :
    ∃ r, readELSC w = .ok r ∧ r.map (fun p => (p.1.bytes, p.2)) = readELS w := by
  obtain ⟨r, hr, hv⟩ := readELSS_spec (.ofBytes w)
  refine ⟨_, onBytes_ok hr, ?_⟩
  rw [Sl.ofBytes_data] at hv
  rw [← hv]; cases r <;> rfl

theorem readELSC_no_panic (w : Bytes) : ∃ r, readELSC w = .ok r := by
  obtain ⟨r, h, -⟩ := readELSC_refines w; exact ⟨r, h⟩

theorem readELSS_any_slice (s : Sl) : ∃ r, readELSS s = .ok r ∧ vELS r = readELS s.data := readELSS_spec s

end I2P.Props.C04
