import I2P.Proofs.StructLemmas
/-! # C03 (composite structures) — appended bytes change nothing; no proper prefix parses -/
namespace I2P.Props.C03
open I2P
open I2P.Structs

/-- ReadSignature (b) -/
theorem signature_append :
    ∀ {d : Bytes} {t : Nat} {b r : Bytes},
      readSig d t = some (b, r) → ∀ (x : Bytes), readSig (d ++ x) t = some (b, r ++ x) :=
  @I2P.Structs.readSig_append

/-- ReadOfflineSignature (b) -/
theorem offline_signature_append :
    ∀ {d : Bytes} {t : Nat} {b r : Bytes} {st : Nat},
      readOffSig d t = some (b, r, st) → ∀ (x : Bytes), readOffSig (d ++ x) t = some (b, r ++ x, st) :=
  @I2P.Structs.readOffSig_append

/-- ReadLease / ReadLease2 (fixed 44 / 40 bytes) (b) -/
theorem lease_append :
    ∀ {n : Nat} {d b r : Bytes},
      readFixedN n d = some (b, r) → ∀ (x : Bytes), readFixedN n (d ++ x) = some (b, r ++ x) :=
  @I2P.Structs.readFixedN_append

/-- an options mapping embedded in a stream (b) -/
theorem options_append :
    ∀ {d : Bytes} {z : Bool} {b r : Bytes},
      readOptions d z = some (b, r) → ∀ (x : Bytes), readOptions (d ++ x) z = some (b, r ++ x) :=
  @I2P.Structs.readOptions_append

/-- ReadRouterAddress (b) -/
theorem router_address_append :
    ∀ {d b r : Bytes},
      readRouterAddress d = some (b, r) → ∀ (x : Bytes), readRouterAddress (d ++ x) = some (b, r ++ x) :=
  @I2P.Structs.readRouterAddress_append

/-- ReadLeaseSet2 (b) -/
theorem leaseset2_append :
    ∀ {d b r : Bytes},
      readLeaseSet2 d = some (b, r) → ∀ (x : Bytes), readLeaseSet2 (d ++ x) = some (b, r ++ x) :=
  @I2P.Structs.readLeaseSet2_append

/-- ReadMetaLeaseSet (b) -/
theorem meta_leaseset_append :
    ∀ {d b r : Bytes}, readMeta d = some (b, r) → ∀ (x : Bytes), readMeta (d ++ x) = some (b, r ++ x) :=
  @I2P.Structs.readMeta_append

/-- ReadEncryptedLeaseSet (b) -/
theorem encrypted_leaseset_append :
    ∀ {d b r : Bytes}, readELS d = some (b, r) → ∀ (x : Bytes), readELS (d ++ x) = some (b, r ++ x) :=
  @I2P.Structs.readELS_append

/-- ReadRouterInfo (b) -/
theorem router_info_append :
    ∀ {d b r : Bytes},
      readRouterInfo d = some (b, r) → ∀ (x : Bytes), readRouterInfo (d ++ x) = some (b, r ++ x) :=
  @I2P.Structs.readRouterInfo_append

/-- ReadLeaseSet (b) -/
theorem leaseset_append :
    ∀ {d b r : Bytes},
      readLeaseSet d = some (b, r) → ∀ (x : Bytes), readLeaseSet (d ++ x) = some (b, r ++ x) :=
  @I2P.Structs.readLeaseSet_append

/-- ReadSignature (c) -/
theorem signature_no_prefix :
    ∀ {d : Bytes} {t : Nat} {b : Bytes},
      readSig d t = some (b, []) → ∀ (k : Nat), k < List.length d → readSig (List.take k d) t = none :=
  @I2P.Structs.readSig_no_prefix

/-- ReadOfflineSignature (c) -/
theorem offline_signature_no_prefix :
    ∀ {d : Bytes} {t : Nat} {b : Bytes} {st : Nat},
      readOffSig d t = some (b, [], st) → ∀ (k : Nat), k < List.length d → readOffSig (List.take k d) t = none :=
  @I2P.Structs.readOffSig_no_prefix

/-- ReadLease / ReadLease2 (fixed 44 / 40 bytes) (c) -/
theorem lease_no_prefix :
    ∀ {n : Nat} {d b : Bytes},
      readFixedN n d = some (b, []) → ∀ (k : Nat), k < List.length d → readFixedN n (List.take k d) = none :=
  @I2P.Structs.readFixedN_no_prefix

/-- an options mapping embedded in a stream (c) -/
theorem options_no_prefix :
    ∀ {d : Bytes} {z : Bool} {b : Bytes},
      readOptions d z = some (b, []) → ∀ (k : Nat), k < List.length d → readOptions (List.take k d) z = none :=
  @I2P.Structs.readOptions_no_prefix

/-- ReadRouterAddress (c) -/
theorem router_address_no_prefix :
    ∀ {d b : Bytes},
      readRouterAddress d = some (b, []) → ∀ (k : Nat), k < List.length d → readRouterAddress (List.take k d) = none :=
  @I2P.Structs.readRouterAddress_no_prefix

/-- ReadLeaseSet2 (c) -/
theorem leaseset2_no_prefix :
    ∀ {d b : Bytes},
      readLeaseSet2 d = some (b, []) → ∀ (k : Nat), k < List.length d → readLeaseSet2 (List.take k d) = none :=
  @I2P.Structs.readLeaseSet2_no_prefix

/-- ReadMetaLeaseSet (c) -/
theorem meta_leaseset_no_prefix :
    ∀ {d b : Bytes},
      readMeta d = some (b, []) → ∀ (k : Nat), k < List.length d → readMeta (List.take k d) = none :=
  @I2P.Structs.readMeta_no_prefix

/-- ReadEncryptedLeaseSet (c) -/
theorem encrypted_leaseset_no_prefix :
    ∀ {d b : Bytes},
      readELS d = some (b, []) → ∀ (k : Nat), k < List.length d → readELS (List.take k d) = none :=
  @I2P.Structs.readELS_no_prefix

/-- ReadRouterInfo (c) -/
theorem router_info_no_prefix :
    ∀ {d b : Bytes},
      readRouterInfo d = some (b, []) → ∀ (k : Nat), k < List.length d → readRouterInfo (List.take k d) = none :=
  @I2P.Structs.readRouterInfo_no_prefix

/-- (c) follows from (b) for every reader of this shape -/
theorem no_prefix_of_append :
    ∀ {R : Bytes → P},
      (∀ (d b r x : Bytes), R d = some (b, r) → R (d ++ x) = some (b, r ++ x)) →
        ∀ {d b : Bytes} {k : Nat}, R d = some (b, []) → k < List.length d → R (List.take k d) = none :=
  @I2P.Structs.no_prefix_of_append

end I2P.Props.C03
