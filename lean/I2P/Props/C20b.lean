import I2P.Proofs.FailShapeLemmas
import I2P.Verify
import I2P.Gen.Observed
import I2P.Props.C20
/-! # C20, failed-parse half — WHICH value a reader returns together with an error

`I2P/FailShape.lean` models, reader by reader, the value the Go code hands out when it reports an error, as
a *shape* (the nil-structure of the value, `Shape`) plus the bit "is the zero value of its type".  The op
`failShape` (suite C20P) compares that model with `reflect` dumps of what the real readers return, on every
truncation point / field-boundary cut / control-byte corruption of generated encodings.

What is proved here, per reader `R` with model `read_R` (existing reader model) and `stop_R` (new):
* `…_zero_on_error` (readers that return the zero value or a nil pointer on every error path):
  `read_R` rejects `w` → the observation is `⟨zero := true, zeroShape⟩`.  A value with `zero = true` *is*
  the zero value (`reflect.Value.IsZero`), which the exhaustive sweep of `Props/C20.lean` already called
  every method on: `failed_parse_half_of_zero_on_error_readers` states the two facts side by side.
* `…_failed_shapes` (readers that hand out partially populated values): `read_R` rejects `w` → the shape's
  *class* is in the explicit finite list `shapes_R`, and `zero = true` only with the zero shape.
  A class fixes the nil-structure; it leaves open the length of every byte string (`b*`) and plain slice
  (`[*]`), the dynamic key type under an interface (`i*`), and the multiplicity of an element class in an
  element list (see `Shape.cls`).
* `…_classes_swept` / `…_classes_exact`: `harness observe` built a value of **every** class of `shapes_R`
  *through the real reader* (truncated / corrupted encodings, fixed seed), called every exported
  argument-free method on it, and saw no class outside the list; `partial_values_safe`: none panicked;
  `partial_values_never_verify`: no verification reported success.

What this does NOT prove: that no method panics on *every* value of a class.  Method behaviour may depend on
field *contents* inside a class (byte values, lengths, key types, flag bits); the sweep calls the methods on
at most 64 witnesses per class, and only the differential exploration (suites STRUCT/KAC/C20P: the C20 oracle
runs on every failed parse) samples contents more widely.  Nor is a nil *pointer* result covered by any method
call: there is no value (the harness skips it, as a caller must).
-/
namespace I2P.Props.C20b
open I2P I2P.Spec I2P.Kac I2P.Structs I2P.FailShape I2P.FailShape.Shape

/-! ## readers that return the zero value / a nil pointer on every error path -/

/-- `certificate.ReadCertificate` -/
theorem readCertificate_zero_on_error (w : Bytes) (h : readCert w = none) : stopCert w = some ⟨true, .nil⟩ := by
  simp [stopCert, zstop, h]
/-- `key_certificate.NewKeyCertificate` -/
theorem newKeyCertificate_zero_on_error (w : Bytes) (h : newKeyCert w = none) : stopKeyCert w = some ⟨true, .nil⟩ := by
  simp [stopKeyCert, zstop, h]
/-- `keys_and_cert.ReadKeysAndCert` -/
theorem readKeysAndCert_zero_on_error (w : Bytes) (h : readKac w = none) : stopKac w = some ⟨true, .nil⟩ := by
  simp [stopKac, zstop, h]
/-- `destination.ReadDestination`: `Destination{}` -/
theorem readDestination_zero_on_error (w : Bytes) (h : readDestination w = none) : stopDest w = some ⟨true, dest0⟩ := by
  simp [stopDest, zstop, h]
/-- `destination.NewDestinationFromBytes` -/
theorem newDestinationFromBytes_zero_on_error (w : Bytes) (h : readDestination w = none) :
    stopNewDest w = some ⟨true, .nil⟩ := by
  simp [stopNewDest, zstop, h]
/-- `router_identity.ReadRouterIdentity` and `NewRouterIdentityFromBytes` -/
theorem readRouterIdentity_zero_on_error (w : Bytes) (h : readRouterIdentity w = none) :
    stopRid w = some ⟨true, .nil⟩ := by
  simp [stopRid, zstop, h]
/-- `signature.ReadSignature`: `Signature{}` -/
theorem readSignature_zero_on_error (w : Bytes) (t : Int) (h : readSigInt w t = none) : stopSig w t = some ⟨true, sig0⟩ := by
  simp [stopSig, zstop, h]
/-- `signature.NewSignature` -/
theorem newSignature_zero_on_error (w : Bytes) (t : Int) (h : readSigInt w t = none) : stopNewSig w t = some ⟨true, .nil⟩ := by
  simp [stopNewSig, zstop, h]
/-- `signature.NewSignatureFromBytes` -/
theorem newSignatureFromBytes_zero_on_error (w : Bytes) (t : Int) (h : newSigFromBytesOk w t = false) :
    stopSigFromBytes w t = some ⟨true, sig0⟩ := by
  simp [stopSigFromBytes, zstop, h]
/-- `lease.ReadLease` (n = 44), `lease.ReadLease2` (40), `session_key.ReadSessionKey` (32), `data.ReadDate` (8),
    `data.ReadHash` (32): the zero array -/
theorem readFixedArray_zero_on_error (n : Nat) (w : Bytes) (h : readFixedN n w = none) : stopArr n w = some ⟨true, .arr n⟩ := by
  simp [stopArr, zstop, h]
/-- `session_tag.ReadSessionTag` (n = 32) / `ReadECIESSessionTag` (8): the zero struct -/
theorem readSessionTag_zero_on_error (n : Nat) (w : Bytes) (h : readFixedN n w = none) :
    stopTag n w = some ⟨true, S [.arr n]⟩ := by
  simp [stopTag, zstop, h]
/-- `NewLeaseFromBytes`, `NewLease2FromBytes`, `NewSessionKey`, `NewSessionTag`, `NewECIESSessionTag`, `NewDate` -/
theorem newFixedPointer_zero_on_error (n : Nat) (w : Bytes) (h : readFixedN n w = none) : stopPtrN n w = some ⟨true, .nil⟩ := by
  simp [stopPtrN, zstop, h]
/-- `NewSessionTagFromBytes` (n = 32) / `NewECIESSessionTagFromBytes` (8) -/
theorem newSessionTagFromBytes_zero_on_error (n : Nat) (w : Bytes) (h : w.length ≠ n) :
    stopTagExact n w = some ⟨true, S [.arr n]⟩ := by
  simp [stopTagExact, zstop, h]
/-- `data.NewHashFromSlice` -/
theorem newHashFromSlice_zero_on_error (w : Bytes) (h : w.length ≠ 32) : stopHashExact w = some ⟨true, .arr 32⟩ := by
  simp [stopHashExact, zstop, h]
/-- `data.NewIntegerFromBytes` -/
theorem newIntegerFromBytes_zero_on_error (w : Bytes) (h : newIntegerFromBytes w = none) :
    stopIntFromBytes w = some ⟨true, .nil⟩ := by
  simp [stopIntFromBytes, zstop, h]
/-- `data.NewI2PStringFromBytes` -/
theorem newI2PStringFromBytes_zero_on_error (w : Bytes) (h : newStrFromBytes w = none) :
    stopStrFromBytes w = some ⟨true, .nil⟩ := by
  simp [stopStrFromBytes, zstop, h]
/-- `lease_set.ReadLeaseSet`: `LeaseSet{}` -/
theorem readLeaseSet_zero_on_error (w : Bytes) (h : readLeaseSet w = none) : stopLeaseSet w = some ⟨true, leaseSet0⟩ := by
  simp [stopLeaseSet, zstop, h]
/-- `lease_set.ReadDestinationFromLeaseSet`: `Destination{}` -/
theorem readDestinationFromLeaseSet_zero_on_error (w : Bytes) (h : readDestFromLS w = none) :
    stopDestFromLS w = some ⟨true, dest0⟩ := by
  simp [stopDestFromLS, zstop, h]

/-- the hypotheses above are satisfiable: the empty input is rejected by every one of these readers -/
example : readCert [] = none ∧ readKac [] = none ∧ readDestination [] = none ∧ readLeaseSet [] = none ∧
    readFixedN 44 [] = none ∧ readSigInt [] 7 = none := by decide

/-- (package, type) of the value types whose readers above return the zero value with every error -/
def zeroOnErrorTypes : List (String × String) :=
  [("destination", "Destination"), ("signature", "Signature"), ("lease", "Lease"), ("lease", "Lease2"),
   ("session_key", "SessionKey"), ("session_tag", "SessionTag"), ("session_tag", "ECIESSessionTag"),
   ("data", "Date"), ("data", "Hash"), ("data", "Integer"), ("data", "I2PString"), ("lease_set", "LeaseSet")]

/-- **The failed-parse half of C20 for the zero-on-error readers, outright.**  Whatever input such a reader
    rejects, the value it returns is the zero value of its type (the `…_zero_on_error` theorems: `zero = true`),
    the zero value of every one of these types was swept by `harness observe`, no exported argument-free
    method panicked on it (`C20.zero_values_safe`) and no verification succeeded (`C20.zero_values_never_verify`).
    (The readers that return a *pointer* return nil: there is no value to call a method on.) -/
theorem failed_parse_half_of_zero_on_error_readers :
    (∀ w, readDestination w = none → stopDest w = some ⟨true, dest0⟩) ∧
    (∀ w t, readSigInt w t = none → stopSig w t = some ⟨true, sig0⟩) ∧
    (∀ n w, readFixedN n w = none → stopArr n w = some ⟨true, .arr n⟩) ∧
    (∀ n w, readFixedN n w = none → stopTag n w = some ⟨true, S [.arr n]⟩) ∧
    (∀ w, readLeaseSet w = none → stopLeaseSet w = some ⟨true, leaseSet0⟩) ∧
    (∀ t ∈ zeroOnErrorTypes, t ∈ Gen.Observed.zeroTypes.map fun x => (x.1, x.2.1)) ∧
    Gen.Observed.zeroPanics = [] ∧ Gen.Observed.zeroVerifySuccess = [] :=
  ⟨readDestination_zero_on_error, readSignature_zero_on_error, readFixedArray_zero_on_error,
   readSessionTag_zero_on_error, readLeaseSet_zero_on_error, by decide, C20.zero_values_safe, C20.zero_values_never_verify⟩

/-- cross-check on the real library: every value `harness observe` obtained from these readers together with
    an error had exactly the predicted zero class -/
theorem zero_on_error_readers_observed :
    ∀ p ∈ ([(Gen.Observed.partialSwept_ReadCertificate, Shape.nil.code),
      (Gen.Observed.partialSwept_NewKeyCertificate, Shape.nil.code),
      (Gen.Observed.partialSwept_ReadKeysAndCert, Shape.nil.code),
      (Gen.Observed.partialSwept_ReadDestination, dest0.code),
      (Gen.Observed.partialSwept_NewDestinationFromBytes, Shape.nil.code),
      (Gen.Observed.partialSwept_ReadRouterIdentity, Shape.nil.code),
      (Gen.Observed.partialSwept_NewRouterIdentityFromBytes, Shape.nil.code),
      (Gen.Observed.partialSwept_ReadSignature, sig0.code),
      (Gen.Observed.partialSwept_NewSignature, Shape.nil.code),
      (Gen.Observed.partialSwept_NewSignatureFromBytes, sig0.code),
      (Gen.Observed.partialSwept_ReadLease, (Shape.arr 44).code),
      (Gen.Observed.partialSwept_NewLeaseFromBytes, Shape.nil.code),
      (Gen.Observed.partialSwept_ReadLease2, (Shape.arr 40).code),
      (Gen.Observed.partialSwept_NewLease2FromBytes, Shape.nil.code),
      (Gen.Observed.partialSwept_ReadSessionKey, (Shape.arr 32).code),
      (Gen.Observed.partialSwept_NewSessionKey, Shape.nil.code),
      (Gen.Observed.partialSwept_ReadSessionTag, (S [.arr 32]).code),
      (Gen.Observed.partialSwept_NewSessionTag, Shape.nil.code),
      (Gen.Observed.partialSwept_NewSessionTagFromBytes, (S [.arr 32]).code),
      (Gen.Observed.partialSwept_ReadECIESSessionTag, (S [.arr 8]).code),
      (Gen.Observed.partialSwept_NewECIESSessionTag, Shape.nil.code),
      (Gen.Observed.partialSwept_NewECIESSessionTagFromBytes, (S [.arr 8]).code),
      (Gen.Observed.partialSwept_ReadDate, (Shape.arr 8).code),
      (Gen.Observed.partialSwept_NewDate, Shape.nil.code),
      (Gen.Observed.partialSwept_ReadHash, (Shape.arr 32).code),
      (Gen.Observed.partialSwept_NewHashFromSlice, (Shape.arr 32).code),
      (Gen.Observed.partialSwept_NewIntegerFromBytes, Shape.nil.code),
      (Gen.Observed.partialSwept_NewI2PStringFromBytes, Shape.nil.code),
      (Gen.Observed.partialSwept_ReadLeaseSet, leaseSet0.code),
      (Gen.Observed.partialSwept_ReadDestinationFromLeaseSet, dest0.code)] : List (List (List Nat) × List Nat)),
      p.1 = [p.2] := by decide

/-! ## readers that hand out partially populated values -/

/-- `data.ReadI2PString`: nil on empty input, the whole input (`b<len>`) on a short buffer -/
theorem readI2PString_failed_shapes (w : Bytes) (h : (readStr w).2.2 ≠ none) :
    ∃ o, stopStr w = some o ∧ o.shape.cls ∈ shapes_ReadI2PString ∧ (o.zero = true → o.shape = .nil) := by
  cases hs : stopStr w with
  | none => exact absurd ((stopStr_none w).mp hs) h
  | some o => exact ⟨o, rfl, stopStr_cls hs, stopStr_zero hs⟩

/-- `data.ReadMapping` (error = any entry in the error list) -/
theorem readMapping_failed_shapes (w : Bytes) (h : (Mapping.readMapping w).errs ≠ []) :
    ∃ o, stopMapping w = some o ∧ o.shape.cls ∈ shapes_ReadMapping ∧ (o.zero = true → o.shape = map0) := by
  cases hs : stopMapping w with
  | none => exact absurd ((stopMapping_none w).mp hs) h
  | some o => exact ⟨o, rfl, stopMapping_cls hs, stopMapping_zero hs⟩

/-- `data.NewMapping`: a non-nil pointer to what `ReadMapping` returned -/
theorem newMapping_failed_shapes (w : Bytes) (h : (Mapping.readMapping w).errs ≠ []) :
    ∃ o, stopNewMapping w = some o ∧ o.shape.cls ∈ shapes_NewMapping := by
  cases hs : stopNewMapping w with
  | none => exact absurd ((stopNewMapping_none w).mp hs) h
  | some o => exact ⟨o, rfl, stopNewMapping_cls hs⟩

/-- `offline_signature.ReadOfflineSignature`: header scalars only, or header and transient key -/
theorem readOfflineSignature_failed_shapes (w : Bytes) (t : Nat) (h : readOffSig w t = none) :
    ∃ o, stopOffSig w t = some o ∧ o.shape.cls ∈ shapes_ReadOfflineSignature ∧ (o.zero = true → o.shape = off0) := by
  cases hs : stopOffSig w t with
  | none => have := (stopOffSig_none w t).mp hs; rw [h] at this; cases this
  | some o => exact ⟨o, rfl, stopOffSig_cls hs, stopOffSig_zero hs⟩

/-- `ReadKeysAndCertElgAndEd25519` (`c = 0`) / `ReadKeysAndCertX25519AndEd25519` (`c = 4`): nil, or keys and
    padding without a certificate -/
theorem readKeysAndCertFast_failed_shapes (c : Nat) (w : Bytes) (h : readKacFast c w = none) :
    ∃ o, stopKacFast c w = some o ∧ o.shape.cls ∈ shapes_ReadKeysAndCertFast ∧ (o.zero = true → o.shape = .nil) := by
  cases hs : stopKacFast c w with
  | none => have := (stopKacFast_none c w).mp hs; rw [h] at this; cases this
  | some o => exact ⟨o, rfl, stopKacFast_cls hs, stopKacFast_zero hs⟩

/-- `router_address.ReadRouterAddress` -/
theorem readRouterAddress_failed_shapes (w : Bytes) (h : readRouterAddress w = none) :
    ∃ o, stopRA w = some o ∧ o.shape.cls ∈ shapes_ReadRouterAddress ∧ (o.zero = true → o.shape = ra0) := by
  cases hs : stopRA w with
  | none => have := (stopRA_none w).mp hs; rw [h] at this; cases this
  | some o => exact ⟨o, rfl, stopRA_cls hs, stopRA_zero hs⟩

/-- `encrypted_leaseset.ReadEncryptedLeaseSet` -/
theorem readEncryptedLeaseSet_failed_shapes (w : Bytes) (h : readELS w = none) :
    ∃ o, stopELS w = some o ∧ o.shape.cls ∈ shapes_ReadEncryptedLeaseSet ∧ (o.zero = true → o.shape = els0) := by
  cases hs : stopELS w with
  | none => have := (stopELS_none w).mp hs; rw [h] at this; cases this
  | some o => exact ⟨o, rfl, stopELS_cls hs, stopELS_zero hs⟩

/-- `lease_set2.ReadLeaseSet2` -/
theorem readLeaseSet2_failed_shapes (w : Bytes) (h : readLeaseSet2 w = none) :
    ∃ o, stopLS2 w = some o ∧ o.shape.cls ∈ shapes_ReadLeaseSet2 ∧ (o.zero = true → o.shape = ls20) := by
  cases hs : stopLS2 w with
  | none => have := (stopLS2_none w).mp hs; rw [h] at this; cases this
  | some o => exact ⟨o, rfl, stopLS2_cls hs, stopLS2_zero hs⟩

/-- `meta_leaseset.ReadMetaLeaseSet` -/
theorem readMetaLeaseSet_failed_shapes (w : Bytes) (h : readMeta w = none) :
    ∃ o, stopMeta w = some o ∧ o.shape.cls ∈ shapes_ReadMetaLeaseSet ∧ (o.zero = true → o.shape = meta0) := by
  cases hs : stopMeta w with
  | none => have := (stopMeta_none w).mp hs; rw [h] at this; cases this
  | some o => exact ⟨o, rfl, stopMeta_cls hs, stopMeta_zero hs⟩

/-- `router_info.ReadRouterInfo` -/
theorem readRouterInfo_failed_shapes (w : Bytes) (h : readRouterInfo w = none) :
    ∃ o, stopRI w = some o ∧ o.shape.cls ∈ shapes_ReadRouterInfo ∧ (o.zero = true → o.shape = ri0) := by
  cases hs : stopRI w with
  | none => have := (stopRI_none w).mp hs; rw [h] at this; cases this
  | some o => exact ⟨o, rfl, stopRI_cls hs, stopRI_zero hs⟩

/-- the hypotheses are satisfiable -/
example : readLeaseSet2 [] = none ∧ readMeta [] = none ∧ readELS [] = none ∧ readRouterInfo [] = none ∧
    readRouterAddress [] = none ∧ readOffSig [] 7 = none := by decide

/-! ### every class was built through the real reader, and nothing outside the lists was seen

`Gen.Observed.partialSwept_R` is the list of classes (as token lists, `Shape.code`) of the values
`harness observe` obtained from reader `R` together with an error. -/

theorem readI2PString_classes_swept : ∀ c ∈ shapes_ReadI2PString, c.code ∈ Gen.Observed.partialSwept_ReadI2PString := by decide
theorem readI2PString_classes_exact : ∀ c ∈ Gen.Observed.partialSwept_ReadI2PString, c ∈ shapes_ReadI2PString.map Shape.code := by decide
theorem readMapping_classes_swept : ∀ c ∈ shapes_ReadMapping, c.code ∈ Gen.Observed.partialSwept_ReadMapping := by decide
theorem readMapping_classes_exact : ∀ c ∈ Gen.Observed.partialSwept_ReadMapping, c ∈ shapes_ReadMapping.map Shape.code := by decide
theorem newMapping_classes_swept : ∀ c ∈ shapes_NewMapping, c.code ∈ Gen.Observed.partialSwept_NewMapping := by decide
theorem newMapping_classes_exact : ∀ c ∈ Gen.Observed.partialSwept_NewMapping, c ∈ shapes_NewMapping.map Shape.code := by decide
theorem readOfflineSignature_classes_swept :
    ∀ c ∈ shapes_ReadOfflineSignature, c.code ∈ Gen.Observed.partialSwept_ReadOfflineSignature := by decide
theorem readOfflineSignature_classes_exact :
    ∀ c ∈ Gen.Observed.partialSwept_ReadOfflineSignature, c ∈ shapes_ReadOfflineSignature.map Shape.code := by decide
theorem readKeysAndCertFast_classes_swept : ∀ c ∈ shapes_ReadKeysAndCertFast,
    c.code ∈ Gen.Observed.partialSwept_ReadKeysAndCertElgAndEd25519 ∧
    c.code ∈ Gen.Observed.partialSwept_ReadKeysAndCertX25519AndEd25519 := by decide
theorem readKeysAndCertFast_classes_exact :
    (∀ c ∈ Gen.Observed.partialSwept_ReadKeysAndCertElgAndEd25519, c ∈ shapes_ReadKeysAndCertFast.map Shape.code) ∧
    (∀ c ∈ Gen.Observed.partialSwept_ReadKeysAndCertX25519AndEd25519, c ∈ shapes_ReadKeysAndCertFast.map Shape.code) := by
  decide
theorem readRouterAddress_classes_swept :
    ∀ c ∈ shapes_ReadRouterAddress, c.code ∈ Gen.Observed.partialSwept_ReadRouterAddress := by decide
theorem readRouterAddress_classes_exact :
    ∀ c ∈ Gen.Observed.partialSwept_ReadRouterAddress, c ∈ shapes_ReadRouterAddress.map Shape.code := by decide
theorem readEncryptedLeaseSet_classes_swept :
    ∀ c ∈ shapes_ReadEncryptedLeaseSet, c.code ∈ Gen.Observed.partialSwept_ReadEncryptedLeaseSet := by decide
theorem readEncryptedLeaseSet_classes_exact :
    ∀ c ∈ Gen.Observed.partialSwept_ReadEncryptedLeaseSet, c ∈ shapes_ReadEncryptedLeaseSet.map Shape.code := by decide
theorem readLeaseSet2_classes_swept :
    ∀ c ∈ shapes_ReadLeaseSet2, c.code ∈ Gen.Observed.partialSwept_ReadLeaseSet2 := by decide
theorem readLeaseSet2_classes_exact :
    ∀ c ∈ Gen.Observed.partialSwept_ReadLeaseSet2, c ∈ shapes_ReadLeaseSet2.map Shape.code := by decide
theorem readMetaLeaseSet_classes_swept :
    ∀ c ∈ shapes_ReadMetaLeaseSet, c.code ∈ Gen.Observed.partialSwept_ReadMetaLeaseSet := by decide
theorem readMetaLeaseSet_classes_exact :
    ∀ c ∈ Gen.Observed.partialSwept_ReadMetaLeaseSet, c ∈ shapes_ReadMetaLeaseSet.map Shape.code := by decide
theorem readRouterInfo_classes_swept :
    ∀ c ∈ shapes_ReadRouterInfo, c.code ∈ Gen.Observed.partialSwept_ReadRouterInfo := by decide
theorem readRouterInfo_classes_exact :
    ∀ c ∈ Gen.Observed.partialSwept_ReadRouterInfo, c ∈ shapes_ReadRouterInfo.map Shape.code := by decide

/-- no exported argument-free method panicked on any failed-parse value `harness observe` built (every class
    of every list above, through the real reader) -/
theorem partial_values_safe : Gen.Observed.partialPanics = [] := by decide

/-- `Verify()` / `VerifySignature()` reported success on none of them -/
theorem partial_values_never_verify : Gen.Observed.partialVerifySuccess = [] := by decide

/-! ## verification of a failed-parse value never reports success: what the model carries

In every value a signed-structure reader hands out with an error the signature is *absent*: the `data`
slice of the `signature.Signature` field is nil (LeaseSet2, MetaLeaseSet, EncryptedLeaseSet: the signature is
the last thing parsed, and the one later check — `EncryptedLeaseSet.Validate` — replaces the value by the
zero value), the signature *pointer* is nil (RouterInfo), or the whole value is `LeaseSet{}`.
`RouterInfo.VerifySignature` and `LeaseSet.Verify` reject that by an explicit guard; the three `Verify`
methods without such a guard hand the empty signature to the verifier, so for them the conclusion needs the
(true, but outside /repo) fact that no verifier of go-i2p/crypto accepts a zero-length signature. -/

/-- `LeaseSet2.signature.data` is nil in every failed-parse value -/
theorem leaseSet2_failed_parse_no_signature (w : Bytes) (h : readLeaseSet2 w = none) :
    ∃ o, stopLS2 w = some o ∧ o.shape.field 8 = sig0 := by
  obtain ⟨o, ho, _⟩ := readLeaseSet2_failed_shapes w h
  exact ⟨o, ho, stopLS2_sig ho⟩

/-- `MetaLeaseSet.signature.data` is nil in every failed-parse value -/
theorem metaLeaseSet_failed_parse_no_signature (w : Bytes) (h : readMeta w = none) :
    ∃ o, stopMeta w = some o ∧ o.shape.field 8 = sig0 := by
  obtain ⟨o, ho, _⟩ := readMetaLeaseSet_failed_shapes w h
  exact ⟨o, ho, stopMeta_sig ho⟩

/-- `EncryptedLeaseSet.signature.data` is nil in every failed-parse value -/
theorem encryptedLeaseSet_failed_parse_no_signature (w : Bytes) (h : readELS w = none) :
    ∃ o, stopELS w = some o ∧ o.shape.field 8 = sig0 := by
  obtain ⟨o, ho, _⟩ := readEncryptedLeaseSet_failed_shapes w h
  exact ⟨o, ho, stopELS_sig ho⟩

/-- the same fact read off the class lists (what `harness observe` compared against) -/
theorem signature_absent_in_every_class :
    (∀ c ∈ shapes_ReadLeaseSet2, c.field 8 = sig0) ∧ (∀ c ∈ shapes_ReadMetaLeaseSet, c.field 8 = sig0) ∧
    (∀ c ∈ shapes_ReadEncryptedLeaseSet, c.field 8 = sig0) ∧ (∀ c ∈ shapes_ReadRouterInfo, c.field 6 = .nil) := by
  decide

/-- `validateSignaturePrerequisites` of `RouterInfo.VerifySignature`: identity and signature pointers must
    both be non-nil, otherwise `(false, err)` -/
def riVerifyGuard (s : Shape) : Bool := s.field 0 != .nil && s.field 6 != .nil

/-- `RouterInfo.VerifySignature` stops at its guard on every failed-parse value: the signature pointer is nil -/
theorem routerInfo_failed_parse_never_verifies (w : Bytes) (h : readRouterInfo w = none) :
    ∃ o, stopRI w = some o ∧ riVerifyGuard o.shape = false := by
  obtain ⟨o, ho, _⟩ := readRouterInfo_failed_shapes w h
  refine ⟨o, ho, ?_⟩
  simp [riVerifyGuard, stopRI_sig ho]

/-- `LeaseSet.Verify` on the only failed-parse value, `LeaseSet{}`: the destination is nil and the signature
    empty — `Verify` returns an error at `sigLen == 0` (`Verify.verifyLS`) if not before, in `Bytes()` -/
theorem leaseSet_failed_parse_is_zero (w : Bytes) (h : readLeaseSet w = none) :
    stopLeaseSet w = some ⟨true, leaseSet0⟩ ∧ leaseSet0.field 0 = dest0 ∧ leaseSet0.field 5 = sig0 :=
  ⟨readLeaseSet_zero_on_error w h, rfl, rfl⟩

/-- no verifier accepts a zero-length signature (Ed25519: 64 bytes, ECDSA: 2·n bytes, DSA: 40 bytes are
    checked before anything else in go-i2p/crypto) -/
def RejectsEmptySig (C : Verify.SigScheme) : Prop := ∀ a k m, C.verify a k m [] = false

/-- `LeaseSet.Verify` has its own guard: an empty signature never verifies, whatever the oracle -/
theorem verifyLS_empty_signature (C : Verify.SigScheme) (p : Verify.LSParsed) (hs : p.sig = []) :
    Verify.verifyLS C p = false := by
  simp [Verify.verifyLS, hs]

/-- `RouterInfo.VerifySignature` on an empty signature: only through the oracle -/
theorem verifyRI_empty_signature (C : Verify.SigScheme) (hC : RejectsEmptySig C) (p : Verify.RIParsed) (hs : p.sig = []) :
    Verify.verifyRI C p = false := by
  unfold Verify.verifyRI
  split
  · split
    · rfl
    · rw [hs]; exact hC _ _ _
  · rfl

/-- `LeaseSet2.Verify` / `MetaLeaseSet.Verify` with an empty signature: every path ends in the oracle applied
    to `[]` (or fails earlier) -/
theorem verifyDest_empty_signature (pfx : Bytes) (C : Verify.SigScheme) (hC : RejectsEmptySig C) (p : Verify.Parsed)
    (hs : p.sig = []) : Verify.verifyDest pfx C p = false := by
  unfold Verify.verifyDest
  rw [hs]
  simp only [List.length_nil, Nat.not_lt_zero, if_false]
  split
  · split
    · rfl
    · split
      · rfl
      · exact hC _ _ _
  · rw [hC]; simp

/-- `EncryptedLeaseSet.Verify` with an empty signature -/
theorem verifyELS_empty_signature (C : Verify.SigScheme) (hC : RejectsEmptySig C) (p : Verify.ELSParsed)
    (hs : p.sig = []) : Verify.verifyELS C p = false := by
  unfold Verify.verifyELS
  rw [hs]
  split
  · split
    · rfl
    · split
      · rfl
      · exact hC _ _ _
  · split
    · rfl
    · exact hC _ _ _

/-- `RejectsEmptySig` is satisfiable (and says nothing about non-empty signatures) -/
example : RejectsEmptySig ⟨fun _ _ _ s => !s.isEmpty⟩ := fun _ _ _ => rfl

end I2P.Props.C20b
