import I2P.Gen.Observed
import I2P.Gen.Api
/-! # C20 — zero values and failed-parse results are safe to touch

Zero-value half: the domain (every exported type × every exported argument-free method, promoted methods
included) is finite, and `harness observe` calls every pair by reflection on the freshly built library on
every run, so `Gen.Observed` *is* the library's behaviour on that domain.  The obligations below say that the
observed table is complete for the current API surface (as translated from the source by the extractor) and
that nothing panicked and no verification succeeded.  The failed-parse half (every truncation point of every
generated encoding) is unbounded and is decided by the reflective oracle on the real library in the harness;
it is reported as exploration, not as a theorem. -/
namespace I2P.Props.C20
open I2P

/-- (package, type, number of exported argument-free methods) derived from the translated API surface -/
def apiTable : List (String × String × Nat) :=
  let rows := Gen.Api.funcs.filter fun f => f.2.1 != "" && f.2.2.2.1.isEmpty
  let keys := (rows.map fun f => (f.1, f.2.1)).eraseDups
  keys.map fun k => (k.1, k.2, (rows.filter fun f => f.1 == k.1 && f.2.1 == k.2).length)

/-- the reflective sweep covered exactly the types and method counts the source declares -/
theorem sweep_complete :
    (∀ x ∈ apiTable, x ∈ Gen.Observed.zeroTypes) ∧ (∀ x ∈ Gen.Observed.zeroTypes, x ∈ apiTable) := by
  decide +kernel

/-- no exported argument-free method panics on the zero value of any exported type -/
theorem zero_values_safe : Gen.Observed.zeroPanics = [] := by decide

/-- verification of a zero value never reports success -/
theorem zero_values_never_verify : Gen.Observed.zeroVerifySuccess = [] := by decide

end I2P.Props.C20
