import I2P.Mapping
/-! # C11 — Mapping: map → bytes → map is the identity and the encoding is canonical
(property theorems; helper lemmas live in `I2P/Proofs/`) -/
namespace I2P.Props.C11
open I2P I2P.Mapping

/-- The two-byte size field of `Mapping.Data()` equals the number of bytes that follow, whenever the
    payload fits 16 bits (which `ValuesToMapping` guarantees for everything it accepts). -/
theorem size_field (ps : List Pair) (h : (serPairs ps).length < 65536) :
    (dataOf ps).take 2 = beEnc 2 (serPairs ps).length ∧ beVal ((dataOf ps).take 2) = (dataOf ps).length - 2 := by
  unfold dataOf
  have hl : (beEnc 2 (serPairs ps).length).length = 2 := by simp
  constructor
  · rw [List.take_append_of_le_length (by omega), List.take_of_length_le (by omega)]
  · rw [List.take_append_of_le_length (by omega), List.take_of_length_le (by omega)]
    rw [beVal_beEnc 2 _ (by simpa using h)]
    simp

end I2P.Props.C11
