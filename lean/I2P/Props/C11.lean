import I2P.Proofs.MappingLemmas
/-! # C11 — Mapping: map → bytes → map is the identity and the encoding is canonical

Property theorems only; helper lemmas live in `I2P/Proofs/MappingLemmas.lean`.  The model functions are
the code-mirroring definitions of `I2P/Mapping.lean` (tied to `/repo` by the correspondence run of
`./check C11`).  A Go `map[string]string` is represented by an association list in *some* iteration
order with pairwise distinct keys. -/
namespace I2P.Props.C11
open I2P I2P.Mapping

/-- a Go `map[string]string` as an association list in SOME iteration order -/
abbrev GoMap := List (Bytes × Bytes)

/-- what makes an association list a map -/
def DistinctKeys (m : GoMap) : Prop := (m.map (·.1)).Nodup

/-- the documented limits: every string at most 255 bytes, and the serialised body
    (`len k = v len ;` per pair, i.e. `|k| + |v| + 4` bytes) at most 65535 bytes -/
def WithinLimits (m : GoMap) : Prop :=
  (∀ p ∈ m, p.1.length ≤ 255 ∧ p.2.length ≤ 255) ∧ (m.map fun p => p.1.length + p.2.length + 4).sum ≤ 65535

/-- T1. The result of `GoMapToMapping` does not depend on the iteration order of the Go map. -/
theorem order_independent (m m' : GoMap) (hp : m'.Perm m) (hd : DistinctKeys m) :
    goMapToMapping m' = goMapToMapping m := by
  have hsum : (m'.map fun p => p.1.length + p.2.length + 4).sum = (m.map fun p => p.1.length + p.2.length + 4).sum :=
    (hp.map _).sum_nat
  by_cases hw : Short m ∧ (m.map fun p => p.1.length + p.2.length + 4).sum ≤ 65535
  · have hs' : Short m' := (Short_perm hp).mpr hw.1
    rw [goMapToMapping_some m hw.1 hw.2, goMapToMapping_some m' hs' (by rw [hsum]; exact hw.2)]
    congr 1
    have hd' : (m'.map (·.1)).Nodup := ((hp.map (fun p : Bytes × Bytes => p.1)).nodup_iff).mpr hd
    exact sortPairs_perm_invariant _ _ (hp.map enc) (enc_inj_on m' hs' hd')
  · rw [goMapToMapping_none m hw, goMapToMapping_none m']
    intro hw'
    exact hw ⟨(Short_perm hp).mp hw'.1, by rw [← hsum]; exact hw'.2⟩

/-- T2. Every map within the limits is accepted, and the stored pairs decode to exactly the pairs of
    the map, strictly sorted by key. -/
theorem accepts_within_limits (m : GoMap) (hd : DistinctKeys m) (hw : WithinLimits m) :
    ∃ ps, goMapToMapping m = some ps ∧
      ∃ l, toGoMap ps = some l ∧ l.Perm m ∧ l.Pairwise (fun a b => bytesLt a.1 b.1 = true) :=
  ⟨sortPairs (m.map enc), goMapToMapping_some m hw.1 hw.2,
    (sortPairs (m.map enc)).map dec, toGoMap_ok _ (sorted_ok m hw.1), sorted_dec_perm m hw.1,
    sorted_strict m hw.1 hd⟩

/-- T3. A map beyond the limits is rejected: there is no value at all (never a truncated one). -/
theorem rejects_beyond_limits (m : GoMap) (hw : ¬ WithinLimits m) : goMapToMapping m = none :=
  goMapToMapping_none m hw

/-- T4. map → bytes → map: the bytes written for an accepted map of at most 1000 pairs read back to
    exactly the stored pairs, nothing left over, no error and no warning.

    PARTIAL: the hypothesis `m.length ≤ 1000` cannot be dropped.  `GoMapToMapping`/`ValuesToMapping`
    accept maps of more than `MAX_MAPPING_PAIRS = 1000` pairs (e.g. 1001 one-byte keys with empty
    values: 1001 × 5 = 5005 bytes, far below 65535), but `ReadMapping` stops after 1000 pairs with the
    `maxPairs` error — a recorded finding. -/
theorem roundtrip_partial (m : GoMap) (ps : List Pair) (hd : DistinctKeys m) (hw : WithinLimits m)
    (hn : m.length ≤ 1000) (hps : goMapToMapping m = some ps) :
    readMapping (dataOf ps) = { hasSize := true, vals := some ps, rem := [], errs := [] } := by
  obtain ⟨h1, h2, h3, h4⟩ := goMapToMapping_stored m ps hd hw.1 hw.2 hps
  have := readMapping_dataOf ps [] h1 h2 (by rw [h3]; exact hn) h4
  simpa using this

/-- T4 (streaming). The same when the written bytes are followed by other data `x ≠ []`: the stored
    pairs are returned, `x` is the remainder, and the only diagnostic is the trailing-data warning —
    except for the empty map, whose size field is 0: then the Go code returns no warning at all.

    PARTIAL for the same reason as `roundtrip_partial` (`m.length ≤ 1000`). -/
theorem roundtrip_stream_partial (m : GoMap) (ps : List Pair) (hd : DistinctKeys m) (hw : WithinLimits m)
    (hn : m.length ≤ 1000) (hps : goMapToMapping m = some ps) (x : Bytes) (hx : x ≠ []) :
    readMapping (dataOf ps ++ x) =
      { hasSize := true, vals := some ps, rem := x, errs := if ps = [] then [] else [.beyond] } := by
  obtain ⟨h1, h2, h3, h4⟩ := goMapToMapping_stored m ps hd hw.1 hw.2 hps
  have := readMapping_dataOf ps x h1 h2 (by rw [h3]; exact hn) h4
  simpa [hx] using this

/-- T5. The two-byte size field of `Mapping.Data()` equals the number of bytes that follow, whenever the
    payload fits 16 bits (which `ValuesToMapping` guarantees for everything it accepts). -/
theorem size_field (ps : List Pair) (h : (serPairs ps).length < 65536) :
    (dataOf ps).take 2 = beEnc 2 (serPairs ps).length ∧ beVal ((dataOf ps).take 2) = (dataOf ps).length - 2 := by
  unfold dataOf
  have hl : (beEnc 2 (serPairs ps).length).length = 2 := by simp
  constructor
  · rw [List.take_append_of_le_length (by omega), List.take_of_length_le (by omega)]
  · rw [List.take_append_of_le_length (by omega), List.take_of_length_le (by omega)]
    rw [beVal_beEnc 2 _ (by simpa using h)]
    simp

/-- T6 (the C01 instance). Whatever `ReadMapping` accepts re-serialises to exactly the bytes it
    consumed: the input is `Data()` of the result followed by the returned remainder. -/
theorem reserialise_accepted (w : Bytes) (h : accepted (readMapping w) = true) :
    ∃ c, w = c ++ (readMapping w).rem ∧ data (readMapping w) = some c :=
  accepted_reserialise w h

/-- T7 (the C03 instance). Appending bytes to an accepted input changes neither the value nor the
    verdict, and the appended bytes come back at the end of the remainder. -/
theorem append_stable (w : Bytes) (h : accepted (readMapping w) = true) (x : Bytes) :
    (readMapping (w ++ x)).vals = (readMapping w).vals ∧
    (readMapping (w ++ x)).rem = (readMapping w).rem ++ x ∧
    accepted (readMapping (w ++ x)) = true :=
  accepted_append w h x

/-- T8. No proper prefix of a completely consumed accepted input is accepted. -/
theorem no_accepted_proper_prefix (w : Bytes) (h : accepted (readMapping w) = true)
    (hr : (readMapping w).rem = []) (k : Nat) (hk : k < w.length) :
    accepted (readMapping (w.take k)) = false :=
  accepted_no_proper_prefix w h hr k hk

/-! ### the hypotheses are satisfiable (concrete data) -/

/-- `{"host": "1.2.3.4", "a": ""}` in an iteration order that is not the sorted one -/
def exMap : GoMap := [([0x68, 0x6f, 0x73, 0x74], [0x31, 0x2e, 0x32, 0x2e, 0x33, 0x2e, 0x34]), ([0x61], [])]

/-- the bytes `Mapping.Data()` produces for `exMap`: size 20, then `1"a"=0"";4"host"=7"1.2.3.4";` -/
def exBytes : Bytes :=
  [0, 20, 1, 0x61, 0x3d, 0, 0x3b, 4, 0x68, 0x6f, 0x73, 0x74, 0x3d, 7, 0x31, 0x2e, 0x32, 0x2e, 0x33, 0x2e, 0x34, 0x3b]

example : DistinctKeys exMap ∧ WithinLimits exMap ∧ exMap.length ≤ 1000 := by
  unfold DistinctKeys WithinLimits; decide

/-- the stored value for `exMap`, computed through `order_independent` (the map is given unsorted) -/
example : goMapToMapping exMap =
    some [([1, 0x61], [0]), ([4, 0x68, 0x6f, 0x73, 0x74], [7, 0x31, 0x2e, 0x32, 0x2e, 0x33, 0x2e, 0x34])] := by
  have hp : [exMap[1], exMap[0]].Perm exMap := by decide
  rw [← order_independent exMap _ hp (by unfold DistinctKeys; decide),
    goMapToMapping_some _ (by unfold Short; decide) (by decide)]
  exact congrArg some (List.mergeSort_of_pairwise (by decide))

/-- `exBytes` is what is written for the stored value, it is accepted and completely consumed
    (the hypotheses of `reserialise_accepted`, `append_stable`, `no_accepted_proper_prefix`) -/
example : dataOf [([1, 0x61], [0]), ([4, 0x68, 0x6f, 0x73, 0x74], [7, 0x31, 0x2e, 0x32, 0x2e, 0x33, 0x2e, 0x34])] = exBytes ∧
    accepted (readMapping exBytes) = true ∧ (readMapping exBytes).rem = [] := by decide

/-- a map beyond the limits (a 256-byte key): the hypothesis of `rejects_beyond_limits` -/
example : ¬ WithinLimits [(List.replicate 256 0x61, [])] := by
  intro h
  have := (h.1 _ (List.mem_singleton.mpr rfl)).1
  rw [List.length_replicate] at this
  omega

end I2P.Props.C11
