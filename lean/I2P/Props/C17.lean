import I2P.Proofs.NetLemmas
/-! # C17 — router address host/port accessors

"For any options, the host accessor succeeds only when the host option is a literal IPv4 or IPv6
address and returns that address; the port accessor succeeds only for a decimal port in 1..65535 and
returns it in canonical form; the boolean validity helpers agree exactly with those outcomes and the
reported IP version agrees with the address family.  Option lookup returns the value stored under
exactly the requested key, and the static-key and IV accessors succeed exactly for 32- and 16-byte
values."

Property theorems only, for **all** stored option lists `o : List Mapping.Pair` (well-formed or not).
The accessor models are the code-mirroring definitions of `I2P/RouterAddrAcc.lean`; `parseIP`, `atoi`
and `decimal` are the models of `net.ParseIP`, `strconv.Atoi` and `strconv.Itoa` in `I2P/NetAddr.lean`
(all tied to `/repo` and to the Go standard library by the correspondence run of `./check C17`).
"Decimal port" is read as "what `Atoi` accepts, with value in 1..65535" (DESIGN.md, C17). -/

namespace I2P.Props.C17
open I2P I2P.Mapping I2P.NetAddr I2P.RouterAddr

/-! ### Option lookup -/

/-- `GetOption(ToI2PString(k))` returns the value of the *first* stored pair whose key decodes to
    exactly `k` — never the value of a pair whose key is a proper prefix or an extension of `k`. -/
theorem lookup_exact (o : List Pair) (k : Bytes) (h : k.length ≤ 255) :
    getOption o (toI2PString k) = (o.find? fun p => strDataOk p.1 && strData p.1 == k).map (·.2) :=
  get_toI2PString o k h

/-- If no stored pair carries exactly the key `k`, the lookup finds nothing and `CheckOption` is false,
    whatever other keys (prefixes, extensions, other case) are present. -/
theorem lookup_absent (o : List Pair) (k : Bytes) (hno : ∀ p ∈ o, strData p.1 ≠ k) :
    getOption o (toI2PString k) = none ∧ checkOption o k = false ∧ lookup o k = none := by
  have hnone : getOption o (toI2PString k) = none := by
    by_cases h : k.length ≤ 255
    · rw [lookup_exact o k h]
      have : (o.find? fun p => strDataOk p.1 && strData p.1 == k) = none := by
        rw [List.find?_eq_none]
        intro p hp
        have := hno p hp
        simp [this]
      rw [this]; rfl
    · rw [toI2PString_long k (by omega)]
      unfold getOption RouterAddr.get
      simp [strDataOk]
  refine ⟨hnone, ?_, ?_⟩
  · simp [checkOption, hasOption, hnone, nonNil]
  · simp only [getOption] at hnone
    simp [lookup, optString, getOption, hnone]

/-- On an option list stored as `len :: content` strings (what the constructor and a clean parse
    store), the decoded lookup is the association-list lookup by exact key: first match wins. -/
theorem lookup_stored (m : List (Bytes × Bytes)) (k : Bytes) (hk : k.length ≤ 255)
    (hm : ∀ kv ∈ m, kv.1.length ≤ 255 ∧ kv.2.length ≤ 255) :
    lookup (storedPairs m) k = (m.find? fun kv => kv.1 == k).map (·.2) := by
  unfold lookup optString
  rw [lookup_exact _ k hk]
  induction m with
  | nil => simp [storedPairs]
  | cons kv t ih =>
    have h1 := hm kv (by simp)
    obtain ⟨ok1, d1⟩ := toI2PString_ok kv.1 h1.1
    obtain ⟨ok2, d2⟩ := toI2PString_ok kv.2 h1.2
    have iht := ih (fun x hx => hm x (by simp [hx]))
    simp only [storedPairs, List.map_cons, List.find?_cons] at iht ⊢
    rw [ok1, d1]
    by_cases he : (kv.1 == k) = true
    · simp [he, ok2, d2]
    · simp [he]
      simpa using iht

/-! ### Host -/

/-- `Host()` succeeds exactly when the host option decodes, is non-empty and is an IP literal, and it
    returns the address `net.ParseIP` gives for it. -/
theorem host_iff (o : List Pair) (a : List Nat) :
    host o = some a ↔ ∃ s, lookup o HOST_OPTION_KEY = some s ∧ s ≠ [] ∧ parseIP s = some a := by
  unfold host resolveHostIP
  cases he : extractOptionBytes o HOST_OPTION_KEY with
  | none =>
    constructor
    · intro h; cases h
    · rintro ⟨s, h1, h2, _⟩
      have := (extract_iff o HOST_OPTION_KEY s).mpr ⟨h1, h2⟩
      rw [he] at this; cases this
  | some s0 =>
    obtain ⟨h1, h2⟩ := (extract_iff o HOST_OPTION_KEY s0).mp he
    constructor
    · intro h; exact ⟨s0, h1, h2, h⟩
    · rintro ⟨s, h3, _, h5⟩
      rw [h1] at h3; cases h3; exact h5

/-- What `net.ParseIP` accepts consists of ASCII hex digits, `.` and `:` only — so nothing that would
    need name resolution (a letter beyond a–f/A–F, a `%zone`, whitespace, brackets, a sign, a `/`, any
    non-ASCII byte) is ever accepted. -/
theorem parseIP_literal (s : Bytes) (a : List Nat) (h : parseIP s = some a) :
    ∀ b ∈ s, (48 ≤ b.toNat ∧ b.toNat ≤ 57) ∨ (97 ≤ b.toNat ∧ b.toNat ≤ 102) ∨ (65 ≤ b.toNat ∧ b.toNat ≤ 70) ∨
      b = 46 ∨ b = 58 := by
  intro b hb
  rcases parseIP_lit h b hb with hh | h46 | h58
  · simp only [isHexDigit, hexVal] at hh
    by_cases h1 : 48 ≤ b.toNat ∧ b.toNat ≤ 57
    · exact Or.inl h1
    · by_cases h2 : 97 ≤ b.toNat ∧ b.toNat ≤ 102
      · exact Or.inr (Or.inl h2)
      · by_cases h3 : 65 ≤ b.toNat ∧ b.toNat ≤ 70
        · exact Or.inr (Or.inr (Or.inl h3))
        · simp [h1, h2, h3] at hh
  · exact Or.inr (Or.inr (Or.inr (Or.inl h46)))
  · exact Or.inr (Or.inr (Or.inr (Or.inr h58)))

/-- A dotted-quad literal (the first separator is a dot) always yields the IPv4 family. -/
theorem parseIP_dotted_is_v4 (s : Bytes) (a : List Nat) (hs : firstSep s = some 46) (h : parseIP s = some a) :
    isV4 a = true := by
  unfold parseIP at h
  rw [hs] at h
  simp only [beq_self_eq_true, if_true] at h
  cases hv : parseV4 s with
  | none => simp [hv] at h
  | some fs =>
    simp [hv] at h
    subst h
    simp [isV4]

/-- `Host()` never succeeds on anything but a literal: the accepted host option is non-empty and made of
    hex digits, dots and colons. -/
theorem host_literal (o : List Pair) (a : List Nat) (h : host o = some a) :
    ∃ s, lookup o HOST_OPTION_KEY = some s ∧ s ≠ [] ∧ parseIP s = some a ∧
      ∀ b ∈ s, (48 ≤ b.toNat ∧ b.toNat ≤ 57) ∨ (97 ≤ b.toNat ∧ b.toNat ≤ 102) ∨ (65 ≤ b.toNat ∧ b.toNat ≤ 70) ∨
        b = 46 ∨ b = 58 := by
  obtain ⟨s, h1, h2, h3⟩ := (host_iff o a).mp h
  exact ⟨s, h1, h2, h3, parseIP_literal s a h3⟩

/-- `HasValidHost()` is true exactly when `Host()` succeeds. -/
theorem hasValidHost_eq (o : List Pair) : hasValidHost o = (host o).isSome := by
  unfold hasValidHost host resolveHostIP extractOptionBytes hostString
  cases hc : checkOption o HOST_OPTION_KEY with
  | false => simp
  | true =>
    cases hg : optString o HOST_OPTION_KEY with
    | none => simp
    | some v =>
      by_cases h1 : v.isEmpty = true
      · simp [h1]
      · by_cases h2 : strDataOk v = true
        · by_cases h3 : strData v = []
          · simp [h1, h2, h3]
          · simp [h1, h2, h3]
        · simp [h1, h2]

/-- Whenever `Host()` succeeds, `IPVersion()` is "4" exactly for the IPv4 family (`To4() != nil`, which
    includes v4-mapped IPv6 literals) and "6" otherwise. -/
theorem ipVersion_agrees (o : List Pair) (a : List Nat) (h : host o = some a) :
    ipVersion o = if isV4 a then [52] else [54] := by
  unfold host resolveHostIP extractOptionBytes at h
  unfold ipVersion ipVersionFromHost hostString
  cases hc : checkOption o HOST_OPTION_KEY with
  | false => simp [hc] at h
  | true =>
    cases hg : optString o HOST_OPTION_KEY with
    | none => simp [hc, hg] at h
    | some v =>
      by_cases h1 : v.isEmpty = true
      · simp [hc, hg, h1] at h
      · by_cases h2 : strDataOk v = true
        · by_cases h3 : strData v = []
          · simp [hc, hg, h1, h2, h3] at h
          · simp [hc, hg, h1, h2, h3] at h
            by_cases h4 : isV4 a = true <;> simp [h1, h2, h3, h, h4]
        · simp [hc, hg, h1, h2] at h

/-- Without a usable host, `IPVersion()` is whatever the caps fallback says (the property is silent there). -/
theorem ipVersion_fallback (o : List Pair) (h : host o = none) : ipVersion o = ipVersionFromCaps o := by
  unfold host resolveHostIP extractOptionBytes at h
  unfold ipVersion ipVersionFromHost hostString
  cases hg : optString o HOST_OPTION_KEY with
  | none => simp
  | some v =>
    have hc : checkOption o HOST_OPTION_KEY = !v.isEmpty := by
      simp [checkOption, hasOption, optString] at hg ⊢; simp [hg, nonNil]
    by_cases h1 : v.isEmpty = true
    · simp [h1]
    · by_cases h2 : strDataOk v = true
      · by_cases h3 : strData v = []
        · simp [h1, h2, h3]
        · simp [hc, hg, h1, h2, h3] at h
          simp [h1, h2, h3, h]
      · simp [h1, h2]

/-! ### Port -/

/-- `Port()` succeeds exactly when the port option decodes to something `strconv.Atoi` accepts with a
    value in 1..65535, and returns that value in canonical decimal form (`strconv.Itoa`). -/
theorem port_iff (o : List Pair) (p : Bytes) :
    port o = some p ↔ ∃ s n, lookup o PORT_OPTION_KEY = some s ∧ atoi s = some n ∧ 1 ≤ n ∧ n ≤ 65535 ∧
      p = decimal n.toNat := by
  have hv : ∀ s, validatePortValue s = some p ↔ ∃ n, atoi s = some n ∧ 1 ≤ n ∧ n ≤ 65535 ∧ p = decimal n.toNat := by
    intro s
    unfold validatePortValue
    cases ha : atoi s with
    | none => simp
    | some n =>
      by_cases hr : n < 1 ∨ n > 65535
      · simp only [hr, if_true]
        constructor
        · intro h; cases h
        · rintro ⟨n', h1, h2, h3, _⟩; cases h1; omega
      · simp only [hr, if_false]
        constructor
        · intro h; cases h; exact ⟨n, rfl, by omega, by omega, rfl⟩
        · rintro ⟨n', h1, _, _, h4⟩; cases h1; rw [h4]
  unfold port
  cases he : extractOptionBytes o PORT_OPTION_KEY with
  | none =>
    constructor
    · intro h; cases h
    · rintro ⟨s, n, h1, h2, _⟩
      have hne : s ≠ [] := by intro hs; rw [hs, atoi_nil] at h2; cases h2
      have := (extract_iff o PORT_OPTION_KEY s).mpr ⟨h1, hne⟩
      rw [he] at this; cases this
  | some s0 =>
    obtain ⟨h1, _⟩ := (extract_iff o PORT_OPTION_KEY s0).mp he
    simp only
    rw [hv s0]
    constructor
    · rintro ⟨n, h⟩; exact ⟨s0, n, h1, h⟩
    · rintro ⟨s, n, h3, h⟩
      rw [h1] at h3; cases h3; exact ⟨n, h⟩

/-- The port returned is canonical: `strconv.Atoi` reads it back as a value in 1..65535, it consists of
    ASCII digits only (no sign, no padding) and its first digit is not `0`. -/
theorem port_canonical (o : List Pair) (p : Bytes) (h : port o = some p) :
    ∃ n : Int, 1 ≤ n ∧ n ≤ 65535 ∧ atoi p = some n ∧ p = decimal n.toNat ∧
      (∀ b ∈ p, 48 ≤ b.toNat ∧ b.toNat ≤ 57) ∧ ∃ c t, p = c :: t ∧ 49 ≤ c.toNat := by
  obtain ⟨s, n, _, _, h1, h2, h3⟩ := (port_iff o p).mp h
  obtain ⟨m, rfl⟩ := Int.eq_ofNat_of_zero_le (show 0 ≤ n by omega)
  rw [Int.toNat_natCast] at h3
  obtain ⟨g1, g2, c, t, g3, g4⟩ := decimal_spec m (by omega)
  subst h3
  refine ⟨(m : Int), h1, h2, g1, by rw [Int.toNat_natCast], ?_, c, t, g3, g4 (by omega)⟩
  intro b hb
  simpa [isDigit] using g2 b hb

/-- `HasValidPort()` is true exactly when `Port()` succeeds. -/
theorem hasValidPort_eq (o : List Pair) : hasValidPort o = (port o).isSome := by
  unfold hasValidPort port extractOptionBytes portString validatePortValue
  cases hc : checkOption o PORT_OPTION_KEY with
  | false => simp
  | true =>
    cases hg : optString o PORT_OPTION_KEY with
    | none => simp
    | some v =>
      by_cases h1 : v.isEmpty = true
      · simp [h1]
      · by_cases h2 : strDataOk v = true
        · by_cases h3 : strData v = []
          · simp [h1, h2, h3]
          · cases ha : atoi (strData v) with
            | none => simp [h1, h2, h3, ha]
            | some n =>
              by_cases hr : n < 1 ∨ 65535 < n
              · simp [h1, h2, h3, ha, hr]; omega
              · simp [h1, h2, h3, ha, hr]; omega
        · simp [h1, h2]

/-- What `strconv.Atoi` accepts is an optional single sign followed by at least one ASCII digit and
    nothing else (no blank, no underscore, no base prefix, no non-ASCII digit). -/
theorem atoi_digits (s : Bytes) (n : Int) (h : atoi s = some n) :
    ∃ ds, (s = ds ∨ s = 43 :: ds ∨ s = 45 :: ds) ∧ ds ≠ [] ∧ ∀ b ∈ ds, 48 ≤ b.toNat ∧ b.toNat ≤ 57 := by
  obtain ⟨ds, h1, h2, h3, _⟩ := atoi_shape h
  refine ⟨ds, h1, h2, ?_⟩
  intro b hb
  have := h3 b hb
  simpa [isDigit] using this

/-! ### Static key and IV -/

/-- `StaticKey()` succeeds exactly when the "s" option decodes to exactly 32 bytes, and returns them. -/
theorem staticKey_iff (o : List Pair) (k : Bytes) :
    staticKey o = some k ↔ lookup o STATIC_KEY_OPTION_KEY = some k ∧ k.length = 32 := by
  unfold staticKey fixedOption lookup STATIC_KEY_SIZE
  cases hg : optString o STATIC_KEY_OPTION_KEY with
  | none => simp
  | some v =>
    cases v with
    | nil => simp [strDataOk]
    | cons l rest =>
      by_cases h2 : strDataOk (l :: rest) = true
      · by_cases h3 : (strData (l :: rest)).length = 32
        · simp [h2, h3]; intro h; subst h; exact h3
        · simp [h2, h3]; intro h; subst h; exact h3
      · simp [h2]

/-- `InitializationVector()` succeeds exactly when the "i" option decodes to exactly 16 bytes. -/
theorem iv_iff (o : List Pair) (k : Bytes) :
    initializationVector o = some k ↔ lookup o INITIALIZATION_VECTOR_OPTION_KEY = some k ∧ k.length = 16 := by
  unfold initializationVector fixedOption lookup INITIALIZATION_VECTOR_SIZE
  cases hg : optString o INITIALIZATION_VECTOR_OPTION_KEY with
  | none => simp
  | some v =>
    cases v with
    | nil => simp [strDataOk]
    | cons l rest =>
      by_cases h2 : strDataOk (l :: rest) = true
      · by_cases h3 : (strData (l :: rest)).length = 16
        · simp [h2, h3]; intro h; subst h; exact h3
        · simp [h2, h3]; intro h; subst h; exact h3
      · simp [h2]

/-! ### Non-vacuity -/

/-- "1.2.3.4", "::1", "+0080", a prefix decoy and an extension decoy -/
def exOpts : List Pair := storedPairs [
  ([104,111,115], [58,58,49]),                      -- hos   = ::1
  ([104,111,115,116], [49,46,50,46,51,46,52]),      -- host  = 1.2.3.4
  ([104,111,115,116,120], [58,58,50]),              -- hostx = ::2
  ([112,111,114,116], [43,48,48,56,48])]            -- port  = +0080

example : host exOpts = some [0,0,0,0,0,0,0,0,0,0,255,255,1,2,3,4] := by decide
example : hasValidHost exOpts = true ∧ ipVersion exOpts = [52] := by decide
example : port exOpts = some [56,48] ∧ hasValidPort exOpts = true := by decide
example : lookup exOpts [104,111,115,116] = some [49,46,50,46,51,46,52] := by decide
example : lookup exOpts [104,111] = none ∧ lookup exOpts [104,111,115,116,120,120] = none := by decide
/-- an IPv6 literal, a hostname, a zone, a trailing blank, an embedded port -/
example : parseIP [50,48,48,49,58,100,98,56,58,58,49] = some [32,1,13,184,0,0,0,0,0,0,0,0,0,0,0,1] := by decide
example : host (storedPairs [(HOST_OPTION_KEY, [108,111,99,97,108,104,111,115,116])]) = none := by decide   -- localhost
example : parseIP [102,101,56,48,58,58,49,37,101,116,104,48] = none := by decide                          -- fe80::1%eth0
example : parseIP [49,46,50,46,51,46,52,32] = none ∧ parseIP [49,46,50,46,51,46,52,58,56,48] = none := by decide
example : atoi [43,48,48,56,48] = some 80 ∧ atoi [56,48,32] = none ∧ atoi [] = none := by decide
example : port (storedPairs [(PORT_OPTION_KEY, [48])]) = none ∧ port (storedPairs [(PORT_OPTION_KEY, [54,53,53,51,54])]) = none := by decide
example : staticKey (storedPairs [(STATIC_KEY_OPTION_KEY, List.replicate 32 7)]) = some (List.replicate 32 7) := by decide
example : staticKey (storedPairs [(STATIC_KEY_OPTION_KEY, List.replicate 33 7)]) = none := by decide
example : initializationVector (storedPairs [(INITIALIZATION_VECTOR_OPTION_KEY, List.replicate 16 7)]) = some (List.replicate 16 7) := by decide

end I2P.Props.C17
