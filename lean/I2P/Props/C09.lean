import I2P.Props.C09a
import I2P.Gen.Observed
/-! # C09 (tie half) — the policy the library enforces *now*, regenerated on every run

`Gen.Observed.destAccepted / ridAccepted`: the (signing, crypto) pairs for which `ReadDestination` /
`ReadRouterIdentity` of the freshly built library accept a well-formed identity, swept over every code the
key-certificate tables know plus both ends of the unknown range.  `Gen.Tables.*`: the prohibited sets as
written in the source. -/
namespace I2P.Props.C09
open I2P I2P.Spec I2P.Kac

/-- nothing the readers accept carries a prohibited type -/
theorem observed_destination_policy : ∀ p ∈ Gen.Observed.destAccepted, destAllowed p.1 p.2 = true := by decide
theorem observed_router_identity_policy : ∀ p ∈ Gen.Observed.ridAccepted, ridAllowed p.1 p.2 = true := by decide

/-- the restriction does not reject any permitted, supported combination -/
theorem observed_destination_complete :
    ∀ s ∈ [0, 1, 2, 7, 8, 11], ∀ c ∈ [0, 4, 5, 6, 7], destAllowed s c = true → (s, c) ∈ Gen.Observed.destAccepted := by decide
theorem observed_router_identity_complete :
    ∀ s ∈ [0, 1, 2, 7, 8, 11], ∀ c ∈ [0, 4, 5, 6, 7], ridAllowed s c = true → (s, c) ∈ Gen.Observed.ridAccepted := by decide

/-- the accepted sets are exactly what the model's readers accept on the swept pairs -/
theorem observed_matches_model :
    Gen.Observed.destAccepted =
      ([0, 1, 2, 3, 4, 5, 6, 7, 8, 11].flatMap fun s => (List.range 16).filterMap fun c =>
        if sigConstructible s && cryptoConstructible c && destAllowed s c then some (s, c) else none) ∧
    Gen.Observed.ridAccepted =
      ([0, 1, 2, 3, 4, 5, 6, 7, 8, 11].flatMap fun s => (List.range 16).filterMap fun c =>
        if sigConstructible s && cryptoConstructible c && ridAllowed s c then some (s, c) else none) := by decide

/-- and those sets are the specification's predicates (for every 16-bit code, by the shape of the predicates) -/
theorem spec_sets (s c : Nat) :
    destAllowed s c = (!([4, 5, 6, 8].contains s) && !([5, 6, 7].contains c)) ∧
    ridAllowed s c = (!([4, 5, 6, 8, 11].contains s) && !([5, 6, 7].contains c)) := by
  unfold destAllowed ridAllowed destProhibitedSig destProhibitedCrypto ridProhibitedSig ridProhibitedCrypto
  constructor <;> (split <;> split <;> simp_all [List.contains_eq_mem])

end I2P.Props.C09
