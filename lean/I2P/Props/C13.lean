import I2P.Proofs.BaseLemmas
/-! # C13 — base32 / base64 with the I2P alphabets

"For every byte string, encoding then decoding returns the same bytes for padded and unpadded base32
and for base64; the output uses only the I2P alphabets and matches an independent bit-level
implementation of the encodings.  Strings containing any other character (apart from CR and LF, which
the decoders skip) or malformed padding are rejected, and the size-guarded variants reject empty and
oversize input exactly at their documented limits."

Property theorems only.  The model functions are the code-mirroring definitions of `I2P/Base.lean`
(tied to `/repo` by the correspondence run of `./check C13`); byte values: `61` is `=`, `10`/`13` are
LF/CR, `255` is `byte(base32.NoPadding)`.

What is proved at full strength: the three round trips, the output alphabets, the alphabets themselves,
the whole rejection clause for base64, the Safe variants.  The rejection clause for the two base32
decoders is **false of the library as it is today** (findings D25, D26, D27 — the `example`s below show
each on the model); it is proved `…_partial` with exactly those signatures excluded, and at full
strength for the post-fix model `dec32Strict` / `dec32NoPadStrict` (the library after
`fixes/D25-D27-base32-strict.diff`). -/

namespace I2P.Props.C13
open I2P I2P.Base

/-! ### The alphabets -/

/-- The I2P alphabets have 32 and 64 pairwise distinct characters (kernel `decide`). -/
theorem alphabets_distinct :
    alpha32.length = 32 ∧ alpha32.Nodup ∧ alpha64.length = 64 ∧ alpha64.Nodup :=
  ⟨alpha32_length, alpha32_nodup, alpha64_length, alpha64_nodup⟩

/-- Neither alphabet contains `=`, CR or LF (so padding and skipped bytes are never data). -/
theorem alphabets_exclude_special :
    (∀ c ∈ alpha32, c ≠ 61 ∧ c ≠ 10 ∧ c ≠ 13) ∧ (∀ c ∈ alpha64, c ≠ 61 ∧ c ≠ 10 ∧ c ≠ 13) := by decide

/-! ### Round trips, for all byte strings -/

/-- `DecodeString (EncodeToString x) = x` (base32, padded). -/
theorem b32_roundtrip (x : Bytes) : dec32 (enc32 x) = some x := by
  unfold dec32 enc32; rw [stripNL_enc32Core, dec32Loop_enc32Core]

/-- `DecodeStringNoPadding (EncodeToStringNoPadding x) = x` (base32, unpadded). -/
theorem b32_nopad_roundtrip (x : Bytes) : dec32NoPad (enc32NoPad x) = some x := by
  unfold dec32NoPad enc32NoPad; rw [stripNL_enc32Core, dec32Loop_enc32Core]

/-- `DecodeString (EncodeToString x) = x` (base64). -/
theorem b64_roundtrip (x : Bytes) : dec64 (enc64 x) = some x := by
  unfold dec64; rw [stripNL_enc64, dec64Core_enc64]

/-! ### Output alphabet and length -/

/-- Every character of a padded base32 encoding is in the alphabet or is `=`. -/
theorem b32_output_alphabet (x : Bytes) : ∀ c ∈ enc32 x, c ∈ alpha32 ∨ c = 61 := by
  intro c hc
  rcases enc32Core_chars true x c hc with h | ⟨_, h⟩
  · exact Or.inl h
  · exact Or.inr h

/-- Every character of an unpadded base32 encoding is in the alphabet (no `=` at all). -/
theorem b32_nopad_output_alphabet (x : Bytes) : ∀ c ∈ enc32NoPad x, c ∈ alpha32 :=
  enc32NoPad_mem x

/-- Every character of a base64 encoding is in the alphabet or is `=`. -/
theorem b64_output_alphabet (x : Bytes) : ∀ c ∈ enc64 x, c ∈ alpha64 ∨ c = 61 :=
  enc64_chars x

/-- Output lengths: whole quanta for the padded encodings, `⌈8n/5⌉` characters for unpadded base32. -/
theorem output_length (x : Bytes) :
    (enc32 x).length = (x.length + 4) / 5 * 8 ∧ (enc32NoPad x).length = (x.length * 8 + 4) / 5 ∧
    (enc64 x).length = (x.length + 2) / 3 * 4 := by
  refine ⟨?_, ?_, enc64_length x⟩
  · have := enc32Core_length true x; simpa [enc32] using this
  · have := enc32Core_length false x; simpa [enc32NoPad] using this

/-! ### Rejection: base64, full strength -/

/-- Any text containing a byte outside alphabet ∪ {`=`, CR, LF} is rejected by the base64 decoder. -/
theorem b64_rejects_foreign (s : Bytes) (h : ∃ c ∈ s, c ∉ alpha64 ∧ c ≠ 61 ∧ c ≠ 10 ∧ c ≠ 13) : dec64 s = none := by
  obtain ⟨c, hc, hna, h61, h10, h13⟩ := h
  cases hd : dec64 s with
  | none => rfl
  | some r =>
    have := dec64Core_chars _ _ hd c (mem_stripNL.mpr ⟨hc, h10, h13⟩)
    rcases this with h | h
    · exact absurd h hna
    · exact absurd h h61

/-- Malformed padding is rejected by the base64 decoder: whatever it accepts is, once CR/LF are dropped,
    a run of alphabet characters followed by at most two `=`, a whole number of 4-character quanta. -/
theorem b64_rejects_malformed_padding (s r : Bytes) (h : dec64 s = some r) :
    ∃ body k, stripNL s = body ++ List.replicate k 61 ∧ (∀ c ∈ body, c ∈ alpha64) ∧ k ≤ 2 ∧
      (stripNL s).length % 4 = 0 :=
  dec64Core_shape _ _ h

/-! ### Rejection: base32 as it is today — partial, and why -/

/-- Padded base32 decoder: a byte outside alphabet ∪ {`=`, CR, LF} is rejected **provided no `=` occurs
    before it**.  Missing for full strength: the decoder stops reading at the end of a valid padding run
    and ignores the rest of the text (D26), so a foreign byte after padding goes unnoticed. -/
theorem b32_rejects_foreign_partial (p q : Bytes) (c : UInt8)
    (hc : c ∉ alpha32 ∧ c ≠ 61 ∧ c ≠ 10 ∧ c ≠ 13) (hp : ∀ x ∈ p, x ≠ 61) : dec32 (p ++ c :: q) = none := by
  unfold dec32
  rw [stripNL_append_cons p q c hc.2.2.1 hc.2.2.2]
  apply dec32Loop_reject true c _ (by simpa [padByte, padChar] using hc.2.1) (idx_none_of_not_mem hc.1)
  intro x hx
  have := hp x (mem_stripNL.mp hx).1
  simpa [padByte, padChar] using this

/-- Unpadded base32 decoder: a byte outside alphabet ∪ {`=`, CR, LF} is rejected **provided it is not
    0xFF and no 0xFF occurs before it**.  Missing for full strength: `encoding/base32` compares input
    bytes with `byte(NoPadding) = 0xFF`, so 0xFF acts as a padding character (D25) and, like real padding,
    hides everything after it (D26). -/
theorem b32_nopad_rejects_foreign_partial (p q : Bytes) (c : UInt8)
    (hc : c ∉ alpha32 ∧ c ≠ 61 ∧ c ≠ 10 ∧ c ≠ 13) (hff : c ≠ 255) (hp : ∀ x ∈ p, x ≠ 255) :
    dec32NoPad (p ++ c :: q) = none := by
  unfold dec32NoPad
  rw [stripNL_append_cons p q c hc.2.2.1 hc.2.2.2]
  apply dec32Loop_reject false c _ (by simpa [padByte, noPadByte] using hff) (idx_none_of_not_mem hc.1)
  intro x hx
  have := hp x (mem_stripNL.mp hx).1
  simpa [padByte, noPadByte] using this

/-- Corollary in the shape of the property sentence: a text without any `=` that contains a foreign
    byte is rejected by the padded decoder. -/
theorem b32_rejects_foreign_no_padding_partial (s : Bytes) (h : ∃ c ∈ s, c ∉ alpha32 ∧ c ≠ 61 ∧ c ≠ 10 ∧ c ≠ 13)
    (hnp : ∀ x ∈ s, x ≠ 61) : dec32 s = none := by
  obtain ⟨c, hc, hf⟩ := h
  obtain ⟨p, q, rfl⟩ := List.append_of_mem hc
  exact b32_rejects_foreign_partial p q c hf (fun x hx => hnp x (by simp [hx]))

/-- …and likewise for the unpadded decoder on texts without 0xFF. -/
theorem b32_nopad_rejects_foreign_no_ff_partial (s : Bytes) (h : ∃ c ∈ s, c ∉ alpha32 ∧ c ≠ 61 ∧ c ≠ 10 ∧ c ≠ 13)
    (hnf : ∀ x ∈ s, x ≠ 255) : dec32NoPad s = none := by
  obtain ⟨c, hc, hf⟩ := h
  obtain ⟨p, q, rfl⟩ := List.append_of_mem hc
  exact b32_nopad_rejects_foreign_partial p q c hf (hnf c hc) (fun x hx => hnf x (by simp [hx]))

/-! The hypotheses are satisfiable, and the excluded signatures are real: each leniency on the model. -/

/-- the partial theorems apply: "me!a" and "me\x80" are rejected -/
example : dec32 ([109, 101] ++ 33 :: [97]) = none :=
  b32_rejects_foreign_partial [109, 101] [97] 33 (by decide) (by decide)
example : dec32NoPad ([109, 101] ++ 128 :: []) = none :=
  b32_nopad_rejects_foreign_partial [109, 101] [] 128 (by decide) (by decide) (by decide)

/-- D25: "me\xff\xff\xff\xff\xff\xff" decodes to "a" with the no-padding decoder — 0xFF is taken for padding;
    the full-strength clause (255 ∉ alphabet ∪ {61, 10, 13}) would demand `none` -/
example : dec32NoPad [109, 101, 255, 255, 255, 255, 255, 255] = some [97] := by decide
example : (255 : UInt8) ∉ alpha32 ∧ (255 : UInt8) ≠ 61 ∧ (255 : UInt8) ≠ 10 ∧ (255 : UInt8) ≠ 13 := by decide
/-- D26: "me======" followed by "!!" (foreign) or by "aa" decodes to "a" — data after padding is ignored -/
example : dec32 [109, 101, 61, 61, 61, 61, 61, 61, 33, 33] = some [97] := by decide
example : dec32 [109, 101, 61, 61, 61, 61, 61, 61, 97, 97] = some [97] := by decide
/-- D26, excess padding: "me=======" (seven `=`) decodes to "a" -/
example : dec32 [109, 101, 61, 61, 61, 61, 61, 61, 61] = some [97] := by decide
/-- D26 through D25: "me" + 6×0xFF + "!" is accepted by the no-padding decoder -/
example : dec32NoPad [109, 101, 255, 255, 255, 255, 255, 255, 33] = some [97] := by decide
/-- D27: a final quantum of 1, 3 or 6 characters yields no bytes and no error: "a", "mfr", "mfrggz" -/
example : dec32NoPad [97] = some [] := by decide
example : dec32NoPad [109, 102, 114] = some [] := by decide
example : dec32NoPad [109, 102, 114, 103, 103, 122] = some [] := by decide
/-- D27 after a full quantum: "mfrggzdf" + "m" decodes to "abcde" and drops the "m" -/
example : dec32NoPad [109, 102, 114, 103, 103, 122, 100, 102, 109] = some [97, 98, 99, 100, 101] := by decide

/-! ### Rejection: base32 after the fix — full strength

`dec32Strict` / `dec32NoPadStrict` model the library with `fixes/D25-D27-base32-strict.diff` applied
(`valid32` is the validator of the patch).  They are what `./check C13` compares the library with once
`Base.fixApplied` is set. -/

/-- The fix only removes accepted inputs; it never changes a result. -/
theorem b32_strict_refines (s r : Bytes) :
    (dec32Strict s = some r → dec32 s = some r) ∧ (dec32NoPadStrict s = some r → dec32NoPad s = some r) := by
  constructor <;> intro h
  · unfold dec32Strict at h; split at h
    · exact h
    · cases h
  · unfold dec32NoPadStrict at h; split at h
    · exact h
    · cases h

/-- Round trips survive the fix. -/
theorem b32_strict_roundtrip (x : Bytes) :
    dec32Strict (enc32 x) = some x ∧ dec32NoPadStrict (enc32NoPad x) = some x := by
  constructor
  · unfold dec32Strict; rw [valid32_enc32, if_pos rfl]; exact b32_roundtrip x
  · unfold dec32NoPadStrict; rw [valid32_enc32NoPad, if_pos rfl]; exact b32_nopad_roundtrip x

/-- Full-strength rejection clause (padded): any text containing a byte outside alphabet ∪ {`=`, CR, LF}
    is rejected. -/
theorem b32_strict_rejects_foreign (s : Bytes) (h : ∃ c ∈ s, c ∉ alpha32 ∧ c ≠ 61 ∧ c ≠ 10 ∧ c ≠ 13) :
    dec32Strict s = none := by
  obtain ⟨c, hc, hf⟩ := h
  unfold dec32Strict; rw [valid32_foreign true s c hc hf]; rfl

/-- Full-strength rejection clause (unpadded). -/
theorem b32_nopad_strict_rejects_foreign (s : Bytes) (h : ∃ c ∈ s, c ∉ alpha32 ∧ c ≠ 61 ∧ c ≠ 10 ∧ c ≠ 13) :
    dec32NoPadStrict s = none := by
  obtain ⟨c, hc, hf⟩ := h
  unfold dec32NoPadStrict; rw [valid32_foreign false s c hc hf]; rfl

/-- Malformed padding is rejected (padded, after the fix): what is accepted is, once CR/LF are dropped,
    alphabet characters followed by fewer than eight `=` that fill the last quantum, and the number of
    alphabet characters is not 1, 3 or 6 modulo 8 (so the `=` run has length 0, 1, 3, 4 or 6). -/
theorem b32_strict_rejects_malformed_padding (s r : Bytes) (h : dec32Strict s = some r) :
    ∃ body k, stripNL s = body ++ List.replicate k 61 ∧ (∀ c ∈ body, c ∈ alpha32) ∧ k < 8 ∧
      (body.length + k) % 8 = 0 ∧ body.length % 8 ≠ 1 ∧ body.length % 8 ≠ 3 ∧ body.length % 8 ≠ 6 := by
  unfold dec32Strict at h
  split at h
  · rename_i hv; exact valid32_padded_shape s hv
  · cases h

/-- Impossible lengths and stray `=` are rejected (unpadded, after the fix): what is accepted consists of
    alphabet characters only, and not 1, 3 or 6 of them modulo 8. -/
theorem b32_nopad_strict_rejects_malformed (s r : Bytes) (h : dec32NoPadStrict s = some r) :
    (∀ c ∈ stripNL s, c ∈ alpha32) ∧ (stripNL s).length % 8 ≠ 1 ∧ (stripNL s).length % 8 ≠ 3 ∧
      (stripNL s).length % 8 ≠ 6 := by
  unfold dec32NoPadStrict at h
  split at h
  · rename_i hv; exact valid32_nopad_shape s hv
  · cases h

/-- the D25/D26/D27 inputs are rejected by the post-fix model -/
example : dec32NoPadStrict [109, 101, 255, 255, 255, 255, 255, 255] = none := by decide
example : dec32Strict [109, 101, 61, 61, 61, 61, 61, 61, 97, 97] = none := by decide
example : dec32Strict [109, 101, 61, 61, 61, 61, 61, 61, 61] = none := by decide
example : dec32NoPadStrict [109, 102, 114] = none := by decide
example : dec32Strict [109, 101, 61, 61, 61, 61, 61, 61] = some [97] := by decide

/-! ### Size-guarded variants -/

/-- The guard rejects exactly empty input (`empty`) and input longer than the limit (`tooLarge`). -/
theorem guard_exact (max n : Nat) :
    (sizeGuard max n = some .empty ↔ n = 0) ∧ (sizeGuard max n = some .tooLarge ↔ n ≠ 0 ∧ n > max) ∧
    (sizeGuard max n = none ↔ 0 < n ∧ n ≤ max) := by
  unfold sizeGuard
  by_cases h0 : n = 0
  · simp [h0]
  · by_cases hm : n > max
    · simp [h0, hm] <;> omega
    · simp [h0, hm] <;> omega

/-- `base32.EncodeToStringSafe`, `base64.EncodeToStringSafe`: rejected exactly when empty or longer than
    `MAX_ENCODE_SIZE` (10 MiB); otherwise the plain encoder's result. -/
theorem safe_encoders (x : Bytes) :
    ((∃ e, enc32Safe x = .error e) ↔ x.length = 0 ∨ x.length > 10 * 1024 * 1024) ∧
    (0 < x.length → x.length ≤ 10 * 1024 * 1024 → enc32Safe x = .ok (enc32 x)) ∧
    ((∃ e, enc64Safe x = .error e) ↔ x.length = 0 ∨ x.length > 10 * 1024 * 1024) ∧
    (0 < x.length → x.length ≤ 10 * 1024 * 1024 → enc64Safe x = .ok (enc64 x)) := by
  have h32 : maxEncode32 = 10 * 1024 * 1024 := rfl
  have h64 : maxEncode64 = 10 * 1024 * 1024 := rfl
  unfold enc32Safe enc64Safe sizeGuard
  rw [h32, h64]
  by_cases h0 : x.length = 0
  · simp [h0]
  · by_cases hm : x.length > 10 * 1024 * 1024
    · simp [h0, hm]
    · simp [h0, hm]

/-- `base32.DecodeStringSafe`, `DecodeStringSafeNoPadding`, `base64.DecodeStringSafe`: rejected by the guard
    exactly when empty or longer than `MAX_DECODE_SIZE` (16 777 216 resp. 13 981 016 characters); otherwise
    the plain decoder's result (error or bytes). -/
theorem safe_decoders (s : Bytes) :
    ((∃ e, dec32Safe s = .error e) ↔ s.length = 0 ∨ s.length > 16777216) ∧
    (0 < s.length → s.length ≤ 16777216 → dec32Safe s = .ok (dec32 s)) ∧
    ((∃ e, dec32SafeNoPad s = .error e) ↔ s.length = 0 ∨ s.length > 16777216) ∧
    (0 < s.length → s.length ≤ 16777216 → dec32SafeNoPad s = .ok (dec32NoPad s)) ∧
    ((∃ e, dec64Safe s = .error e) ↔ s.length = 0 ∨ s.length > 13981016) ∧
    (0 < s.length → s.length ≤ 13981016 → dec64Safe s = .ok (dec64 s)) := by
  have h32 : maxDecode32 = 16777216 := by decide
  have h64 : maxDecode64 = 13981016 := by decide
  unfold dec32Safe dec32SafeNoPad dec64Safe sizeGuard
  rw [h32, h64]
  by_cases h0 : s.length = 0
  · simp [h0]
  · by_cases hm : s.length > 16777216
    · by_cases hm' : s.length > 13981016
      · simp [h0, hm, hm']
      · omega
    · by_cases hm' : s.length > 13981016
      · simp [h0, hm, hm']
      · simp [h0, hm, hm']

/-- The limits fit together: the encoding of a maximal input is exactly a maximal decoder input. -/
theorem limits_consistent :
    encodedLen32 maxEncode32 = maxDecode32 ∧ encodedLen64 maxEncode64 = maxDecode64 := by decide

end I2P.Props.C13
