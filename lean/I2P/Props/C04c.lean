import I2P.Proofs.CheckedLemmas3LS
/-! # C04 (third part) — `lease_set.ReadLeaseSet` cannot panic

Property theorems only; the checked mirrors are in `I2P/Checked3LS.lean`, the helper lemmas in
`I2P/Proofs/CheckedLemmas3LS.lean`.

`readLeaseSetS` transcribes `ReadLeaseSet` and every helper it calls (`lease_set/utils.go`, plus
`KeyCertificateFromCertificate`, `NewSignatureFromBytes` and the two go-i2p/crypto key constructors) with
Go's run-time checks explicit.  `readLeaseSetC_refines` says that for EVERY input the mirror returns `.ok`,
accepts exactly the inputs the pure model `Structs.readLeaseSet` accepts, and that the parsed value
re-serialises (`LS.bytes`, i.e. `LeaseSet.Bytes()`) to exactly the bytes the pure model returns, with the same
unread remainder.  The pure model's `k.bytes = none` branch is dead: `Bytes()` of a parsed destination is
always `some` (`KacLemmas.readKac_struct`), which is why the view below has `some q.1` on the model side. -/
namespace I2P.Props.C04
open I2P I2P.Spec I2P.Kac I2P.Structs I2P.Checked

/-! ### `ReadLeaseSet` -/

/-- `ReadLeaseSet` on a caller buffer (`cap = len`): never a panic; success exactly when the pure model
    succeeds; then `LeaseSet.Bytes()` succeeds and yields the pure model's bytes, and the bytes that
    `parseSignature` left unread are the pure model's remainder -/
theorem readLeaseSetC_refines (w : Bytes) :
    ∃ r, readLeaseSetC w = .ok r ∧
      r.map (fun p => (p.1.bytes, p.2)) = (readLeaseSet w).map (fun q => (some q.1, q.2)) := by
  obtain ⟨r, hr, hv, -⟩ := readLeaseSetS_spec (.ofBytes w)
  refine ⟨_, onBytes_ok hr, ?_⟩
  rw [Sl.ofBytes_data] at hv
  simp only [vLS, pLS] at hv
  rw [← hv]; cases r <;> rfl

/-- the same in the shape of `readELSC_refines`: re-serialised bytes and unread remainder are the pure
    model's answer (weaker than `readLeaseSetC_refines`, which also says that `Bytes()` cannot fail) -/
theorem readLeaseSetC_refines' (w : Bytes) :
    ∃ r, readLeaseSetC w = .ok r ∧ r.bind (fun p => p.1.bytes.map (·, p.2)) = readLeaseSet w := by
  obtain ⟨r, hr, hv⟩ := readLeaseSetC_refines w
  refine ⟨r, hr, ?_⟩
  cases r with
  | none =>
    cases hp : readLeaseSet w with
    | none => rfl
    | some q => rw [hp] at hv; cases hv
  | some p =>
    cases hp : readLeaseSet w with
    | none => rw [hp] at hv; cases hv
    | some q =>
      rw [hp] at hv
      simp only [Option.map_some, Option.some.injEq, Prod.mk.injEq] at hv
      simp only [Option.bind_some, hv.1, hv.2, Option.map_some]

theorem readLeaseSetC_no_panic (w : Bytes) : ∃ r, readLeaseSetC w = .ok r := by
  obtain ⟨r, h, -⟩ := readLeaseSetC_refines w; exact ⟨r, h⟩

/-- the same for an arbitrary Go slice (any underlying array, offset and capacity) -/
theorem readLeaseSetS_any_slice (s : Sl) :
    ∃ r, readLeaseSetS s = .ok r ∧
      r.map (fun p => (p.1.bytes, p.2.data)) = (readLeaseSet s.data).map (fun q => (some q.1, q.2)) := by
  obtain ⟨r, hr, hv, -⟩ := readLeaseSetS_spec s
  exact ⟨r, hr, hv⟩

/-- the helpers of `ReadLeaseSet` that take the parsed destination never panic and never fail on the
    certificate: for a destination that came out of `ReadDestination`, `KeyCertificateFromCertificate`
    returns the destination's own key certificate (KEY certificate) or an ordinary error (NULL certificate) -/
theorem keyCertificateFromCertificateC_parsed (d r : Bytes) (k : KeysAndCert) (hk : readDestination d = some (k, r)) :
    keyCertificateFromCertificateC (destCertificateC (some k)) =
      .ok (if k.kc.cert.type = 5 then some k.kc else none) := by
  have ok := DestOK_of_readDestination hk
  simp only [destCertificateC, Option.map_some, keyCertificateFromCertificateC_eq ok.hk ok.hl]
  rcases ok.hty with ⟨h5, hkc⟩ | h0
  · rw [hkc, if_pos h5]
  · rw [if_neg (by omega), keyCertFromCert_eq', if_pos (by omega)]

/-! ### the lease loop

`extractLeases` is a structural recursion on a fuel argument (termination is by construction); the ghost
counter `n` in its result is the number of loop bodies executed. -/

/-- lease loop, for arbitrary arguments: at most `fuel` iterations, never past `leaseCount`; every iteration
    reads the next 44-byte window `data[i*44:(i+1)*44]`, which lies inside the capacity, and appends exactly
    one 44-byte lease -/
theorem ls_lease_loop_bounds (fuel : Nat) (i leaseCount : Int) (ls : List Bytes) (s : Sl) (ls' : List Bytes) (n : Nat)
    (h : lsExtractLeasesLoopC fuel i leaseCount ls s = .ok (ls', n)) :
    n ≤ fuel ∧ (n = 0 ∨ (0 ≤ i ∧ i + n ≤ leaseCount ∧ (i + n) * 44 ≤ s.cap)) ∧
      ∃ xs : List Bytes, ls' = ls ++ xs ∧ xs.length = n ∧ ∀ x ∈ xs, x.length = 44 :=
  lsExtractLeasesLoopC_bounds fuel i leaseCount ls s ls' n h

/-- under the guard `parseLeases` establishes (`leaseCount*44 ≤ len(data)`), `extractLeases` cannot panic and
    runs its body exactly `leaseCount` times -/
theorem lsExtractLeasesC_iterations (s : Sl) (leaseCount : Nat) (h : leaseCount * 44 ≤ s.len) :
    ∃ ls, lsExtractLeasesC s leaseCount = .ok (ls, leaseCount) ∧ ls.length = leaseCount ∧
      ∀ j, j < leaseCount → ls[j]? = some ((s.data.drop (44 * j)).take 44) := by
  have hl := lsExtractLeasesLoop_spec leaseCount 0 [] s (by omega)
  simp only [Nat.zero_add, Int.cast_ofNat_Int, List.nil_append] at hl
  refine ⟨_, by simp only [lsExtractLeasesC, Int.toNat_natCast]; exact hl, chunks44_length _ _ _, ?_⟩
  intro j hj
  rw [chunks44_getElem? _ _ _ _ hj, show (0 + j) * 44 = 44 * j by omega]

/-- without that guard the slice expression `data[i*44:(i+1)*44]` does panic — the guard in `parseLeases`
    is what keeps the loop safe -/
example : lsExtractLeasesC (.ofBytes (List.replicate 87 0)) 2 = .error .sliceOOB := by rfl

/-- as `parseLeases` runs the loop: the number of leases read is the count byte, which is ≤ 16 ≤ 255; the
    loop body ran exactly that many times (ghost counter); lease `j` is the 44-byte window at offset
    `1 + 44·j`; exactly `1 + 44·count` bytes were consumed -/
theorem lsParseLeasesC_count (s : Sl) (count : Int) (leases : List Bytes) (rem : Sl)
    (h : lsParseLeasesC s = .ok (some (count, leases, rem))) :
    ∃ nl : UInt8, s.data.head? = some nl ∧ count = nl.toNat ∧ leases.length = nl.toNat ∧ nl.toNat ≤ 16 ∧
      nl.toNat ≤ 255 ∧ rem.len + 1 + 44 * nl.toNat = s.len ∧
      (∀ j, j < nl.toNat → leases[j]? = some ((s.data.drop (1 + 44 * j)).take 44)) ∧
      lsExtractLeasesC (s.adv 1) count = .ok (leases, nl.toNat) := by
  obtain ⟨nl, a, b, c, d, e, -, f, g⟩ := lsParseLeasesC_some h
  exact ⟨nl, a, b, c, d, by omega, e, f, g⟩

/-- `parseLeases` never panics, on any slice -/
theorem lsParseLeasesC_no_panic (s : Sl) : ∃ r, lsParseLeasesC s = .ok r := ⟨_, lsParseLeasesC_spec s⟩

/-- a LeaseSet that `ReadLeaseSet` returns has `leaseCount ≤ 16` leases of 44 bytes each, a 256-byte encryption
    key, and the input splits exactly into destination, the fixed-size fields, `44·leaseCount` lease bytes, the
    signature and the unread remainder -/
theorem readLeaseSetS_shape (s : Sl) (l : LS) (rem : Sl) (h : readLeaseSetS s = .ok (some (l, rem))) :
    l.dest.isSome ∧ 0 ≤ l.leaseCount ∧ l.leaseCount ≤ 16 ∧ l.leases.length = l.leaseCount.toNat ∧
      (∀ x ∈ l.leases, x.length = 44) ∧ l.encryptionKey.length = 256 ∧
      ∃ destLen, 387 ≤ destLen ∧
        rem.len + l.signature.length + 44 * l.leases.length + 1 + l.signingKey.length + 256 + destLen = s.len := by
  obtain ⟨r, hr, -, hs⟩ := readLeaseSetS_spec s
  rw [h] at hr
  cases hr
  obtain ⟨k, a1, -, a2, a3, a4, a5, a6, a7, -, dl, a8, a9⟩ := hs l rem rfl
  exact ⟨by rw [a1]; rfl, a3.1, a3.2, a2, a4, a5, dl, a8, by omega⟩

/-! ### non-vacuity -/

/-- a complete legacy LeaseSet (KEY certificate, one lease) is accepted and re-serialises to itself -/
example : (readLeaseSetC exLS).toOption.bind (fun r => r.map (fun p => (p.1.bytes, p.2, p.1.leases.length))) =
    some (some exLS, [], 1) := by decide +kernel

/-- a legacy LeaseSet of a NULL-certificate destination (128-byte DSA revocation key, 40-byte signature) with two
    leases and two trailing bytes: accepted, `Bytes()` is the input without the trailing bytes -/
def exLSNull : Bytes :=
  List.replicate 384 1 ++ [0, 0, 0] ++ List.replicate 256 1 ++ List.replicate 128 2 ++ [2] ++ List.replicate 88 5 ++
    List.replicate 40 3 ++ [9, 9]

example : (readLeaseSetC exLSNull).toOption.bind (fun r => r.map (fun p => (p.1.bytes, p.2, p.1.leases.length))) =
    some (some (exLSNull.take 900), [9, 9], 2) := by decide +kernel

/-- … and the pure model agrees -/
example : readLeaseSet exLSNull = some (exLSNull.take 900, [9, 9]) := by decide +kernel

end I2P.Props.C04
