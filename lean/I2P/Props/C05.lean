import I2P.Proofs.VerifyLemmas
/-! # C05 — successful verification implies authenticity under the identity's own key

"Verification of a RouterInfo, LeaseSet, LeaseSet2, MetaLeaseSet, EncryptedLeaseSet or OfflineSignature
reports success only if the signature is cryptographically valid under the signing key of the contained
identity (or the blinded key), over exactly the bytes the structure was parsed from, with the store-type
prefix the specification prescribes.  When a transient (offline) key signs, success additionally requires
that the transient key was itself signed by the identity's key."

Every theorem holds for EVERY `C : SigScheme` — the verification oracle is unconstrained; what is proved is
the data flow: which algorithm, key, message and signature reach the oracle.  In each statement

* `consumed` are the bytes of the RAW INPUT `w` the parser consumed (`w` minus the remainder),
* `body` / `sig` are `consumed` without / restricted to its last `sigLen sigType` bytes,
* `idKey` is the tail of the 384-byte key block of `w` (the blinded key bytes for an EncryptedLeaseSet),
* the offline block `expires ‖ type ‖ transient key ‖ signature` is located in `w` right after the 8-byte
  header that follows the identity (`idLen w` = length of the identity on the wire).

`algOf` / `offAlgOf` (I2P/Verify.lean) record which algorithm the library runs for a signing type; that an
Ed25519ph (type 8) transient key is checked with plain Ed25519 is visible there (`algOf 8 = 7`, D17).
Unforgeability is computational and not a theorem. -/

namespace I2P.Props.C05
open I2P I2P.Spec I2P.Kac I2P.Structs I2P.Verify

/-! ### the field-level parsers refine the validated byte-level readers, with the same acceptance -/

theorem leaseset2_refines :
    ∀ {w : Bytes} {p : LS2Parsed}, parseLS2 w = some p → readLeaseSet2 w = some (p.bytes, p.rem) :=
  fun h => let ⟨_, _, _, _, hr, _⟩ := parseDestSigned_spec h; hr

theorem leaseset2_accepts :
    ∀ {w b r : Bytes}, readLeaseSet2 w = some (b, r) → ∃ p, parseLS2 w = some p ∧ p.bytes = b ∧ p.rem = r :=
  fun h => parseDestSigned_complete readLeaseSet2_hdrSigned h

theorem meta_leaseset_refines :
    ∀ {w : Bytes} {p : MetaParsed}, parseMeta w = some p → readMeta w = some (p.bytes, p.rem) :=
  fun h => let ⟨_, _, _, _, hr, _⟩ := parseDestSigned_spec h; hr

theorem meta_leaseset_accepts :
    ∀ {w b r : Bytes}, readMeta w = some (b, r) → ∃ p, parseMeta w = some p ∧ p.bytes = b ∧ p.rem = r :=
  fun h => parseDestSigned_complete readMeta_hdrSigned h

theorem encrypted_leaseset_refines :
    ∀ {w : Bytes} {p : ELSParsed}, parseELS w = some p → readELS w = some (p.bytes, p.rem) :=
  fun h => let ⟨_, _, hr, _⟩ := parseELS_spec h; hr

theorem encrypted_leaseset_accepts :
    ∀ {w b r : Bytes}, readELS w = some (b, r) → ∃ p, parseELS w = some p ∧ p.bytes = b ∧ p.rem = r :=
  fun h => parseELS_complete h

theorem leaseset_refines :
    ∀ {w : Bytes} {p : LSParsed}, parseLS w = some p → readLeaseSet w = some (p.bytes, p.rem) :=
  fun h => let ⟨_, _, _, _, hr, _⟩ := parseLS_spec h; hr

theorem leaseset_accepts :
    ∀ {w b r : Bytes}, readLeaseSet w = some (b, r) → ∃ p, parseLS w = some p ∧ p.bytes = b ∧ p.rem = r :=
  fun h => parseLS_complete h

theorem router_info_refines :
    ∀ {w : Bytes} {p : RIParsed}, parseRI w = some p → readRouterInfo w = some (p.bytes, p.rem) :=
  fun h => let ⟨_, _, hr, _⟩ := parseRI_spec h; hr

theorem router_info_accepts :
    ∀ {w b r : Bytes}, readRouterInfo w = some (b, r) → ∃ p, parseRI w = some p ∧ p.bytes = b ∧ p.rem = r :=
  fun h => parseRI_complete h

/-! ### C05, structure by structure -/

/-- **LeaseSet2.**  `Verify() = nil` ⇒ the trailing signature is valid over `0x03 ‖ received bytes` under the
    destination's own signing key — or, with the OFFLINE_KEYS flag, under the transient key found in the
    received offline block, AND that block (`expires ‖ type ‖ transient key`) is signed by the destination's
    own key. -/
theorem leaseset2_authentic (C : SigScheme) {w : Bytes} {p : LS2Parsed}
    (hp : parseLS2 w = some p) (hv : verifyLS2 C p = true) :
    let consumed := w.take (w.length - p.rem.length)
    let body := consumed.take (consumed.length - sigLen p.sigType)
    let sig := consumed.drop (consumed.length - sigLen p.sigType)
    let idKey := (w.take 384).drop (384 - sigPubSize p.idType)
    p.bytes = consumed ∧ sig.length = sigLen p.sigType ∧ sigLen p.sigType ≠ 0 ∧
    (p.flagsOffline = true ↔ beVal ((w.drop (idLen w + 6)).take 2) % 2 = 1) ∧
    (p.flagsOffline = false →
      p.sigType = p.idType ∧ C.verify (algOf p.idType) idKey ([3] ++ body) sig = true) ∧
    (p.flagsOffline = true → ∃ o, p.off = some o ∧ p.sigType = o.ttype ∧
      o.expires ++ beEnc 2 o.ttype ++ o.tkey ++ o.sig =
        (w.drop (idLen w + 8)).take (6 + sigPubSize o.ttype + sigLen p.idType) ∧
      o.expires.length = 4 ∧ o.tkey.length = sigPubSize o.ttype ∧
      C.verify (algOf o.ttype) o.tkey ([3] ++ body) sig = true ∧
      C.verify (algOf p.idType) idKey (o.expires ++ beEnc 2 o.ttype ++ o.tkey) o.sig = true) :=
  destSigned_sound readLeaseSet2_hdrSigned (fun _ _ _ h => readLeaseSet2_consumed h) [3] C hp hv

/-- **MetaLeaseSet.**  As LeaseSet2, with store-type prefix `0x07`. -/
theorem meta_leaseset_authentic (C : SigScheme) {w : Bytes} {p : MetaParsed}
    (hp : parseMeta w = some p) (hv : verifyMeta C p = true) :
    let consumed := w.take (w.length - p.rem.length)
    let body := consumed.take (consumed.length - sigLen p.sigType)
    let sig := consumed.drop (consumed.length - sigLen p.sigType)
    let idKey := (w.take 384).drop (384 - sigPubSize p.idType)
    p.bytes = consumed ∧ sig.length = sigLen p.sigType ∧ sigLen p.sigType ≠ 0 ∧
    (p.flagsOffline = true ↔ beVal ((w.drop (idLen w + 6)).take 2) % 2 = 1) ∧
    (p.flagsOffline = false →
      p.sigType = p.idType ∧ C.verify (algOf p.idType) idKey ([7] ++ body) sig = true) ∧
    (p.flagsOffline = true → ∃ o, p.off = some o ∧ p.sigType = o.ttype ∧
      o.expires ++ beEnc 2 o.ttype ++ o.tkey ++ o.sig =
        (w.drop (idLen w + 8)).take (6 + sigPubSize o.ttype + sigLen p.idType) ∧
      o.expires.length = 4 ∧ o.tkey.length = sigPubSize o.ttype ∧
      C.verify (algOf o.ttype) o.tkey ([7] ++ body) sig = true ∧
      C.verify (algOf p.idType) idKey (o.expires ++ beEnc 2 o.ttype ++ o.tkey) o.sig = true) :=
  destSigned_sound readMeta_hdrSigned (fun _ _ _ h => readMeta_consumed h) [7] C hp hv

/-- **EncryptedLeaseSet.**  Prefix `0x05`; the identity key is the blinded key `w[2 .. 2+ks)` of the declared
    `sig_type = w[0..2)`.  With offline keys the block must verify under the blinded key with the algorithm
    `offAlgOf sig_type` (for `sig_type = 8` that is the Ed25519ph API, which differs from `algOf 8`). -/
theorem encrypted_leaseset_authentic (C : SigScheme) {w : Bytes} {p : ELSParsed}
    (hp : parseELS w = some p) (hv : verifyELS C p = true) :
    let consumed := w.take (w.length - p.rem.length)
    let body := consumed.take (consumed.length - sigLen p.sigType)
    let sig := consumed.drop (consumed.length - sigLen p.sigType)
    let ks := sigPubSize p.idType
    let blinded := (w.drop 2).take ks
    p.bytes = consumed ∧ sig.length = sigLen p.sigType ∧ sigLen p.sigType ≠ 0 ∧ p.idType = beVal (w.take 2) ∧
    (p.flagsOffline = true ↔ beVal ((w.drop (2 + ks + 6)).take 2) % 2 = 1) ∧
    (p.flagsOffline = false →
      p.sigType = p.idType ∧ C.verify (algOf p.idType) blinded ([5] ++ body) sig = true) ∧
    (p.flagsOffline = true → ∃ o a, p.off = some o ∧ p.sigType = o.ttype ∧
      o.expires ++ beEnc 2 o.ttype ++ o.tkey ++ o.sig =
        (w.drop (2 + ks + 8)).take (6 + sigPubSize o.ttype + sigLen p.idType) ∧
      o.expires.length = 4 ∧ o.tkey.length = sigPubSize o.ttype ∧
      C.verify (algOf o.ttype) o.tkey ([5] ++ body) sig = true ∧
      offAlgOf p.idType = some a ∧
      C.verify a blinded (o.expires ++ beEnc 2 o.ttype ++ o.tkey) o.sig = true) :=
  els_sound C hp hv

/-- **LeaseSet.**  No prefix; the key is the destination's signing key, of the type the key certificate
    declares (a NULL certificate gives `idType = 0`, DSA-SHA1); the signature has that same type. -/
theorem leaseset_authentic (C : SigScheme) {w : Bytes} {p : LSParsed}
    (hp : parseLS w = some p) (hv : verifyLS C p = true) :
    let consumed := w.take (w.length - p.rem.length)
    let body := consumed.take (consumed.length - sigLen p.sigType)
    let sig := consumed.drop (consumed.length - sigLen p.sigType)
    let idKey := (w.take 384).drop (384 - sigPubSize p.idType)
    p.bytes = consumed ∧ sig.length = sigLen p.sigType ∧ sigLen p.sigType ≠ 0 ∧ p.sigType = p.idType ∧
    C.verify (algOf p.idType) idKey body sig = true :=
  ls_sound C hp hv

/-- **RouterInfo.**  No prefix; `VerifySignature() = true` ⇒ the identity's signing type is 7 and the last
    64 consumed bytes are an Ed25519 signature of everything before them under the 32-byte key at the end of
    the key block. -/
theorem router_info_authentic (C : SigScheme) {w : Bytes} {p : RIParsed}
    (hp : parseRI w = some p) (hv : verifyRI C p = true) :
    let consumed := w.take (w.length - p.rem.length)
    let body := consumed.take (consumed.length - 64)
    let sig := consumed.drop (consumed.length - 64)
    let idKey := (w.take 384).drop (384 - 32)
    p.bytes = consumed ∧ sig.length = 64 ∧ p.sigType = 7 ∧ p.idType = 7 ∧
    C.verify 7 idKey body sig = true :=
  ri_sound C hp hv

/-- RouterInfo: a signature of any type other than Ed25519 never verifies, whatever the oracle says -/
theorem router_info_only_ed25519 (C : SigScheme) (p : RIParsed) (h : p.sigType ≠ 7) : verifyRI C p = false := by
  unfold verifyRI; rw [if_neg h]

/-- **OfflineSignature.VerifySignature(key)** on a block read from `d` for destination type `t`:
    success ⇒ `t ∈ {7, 8, 11}`, a 32-byte key, a non-zero expiry, and the block's signature
    `d[6+ks .. 6+ks+sigLen t)` is valid under `key` over exactly `d[0 .. 6+ks)` = expires ‖ type ‖ transient key. -/
theorem offline_signature_authentic (C : SigScheme) {d : Bytes} {t : Nat} {ob r : Bytes} {st : Nat} {key : Bytes}
    (hr : readOffSig d t = some (ob, r, st)) (hv : verifyOffline C (offFields ob t) key = true) :
    (t = 7 ∨ t = 8 ∨ t = 11) ∧ key.length = 32 ∧ beVal (d.take 4) ≠ 0 ∧
    ∃ a, offAlgOf t = some a ∧
      C.verify a key (d.take (6 + sigPubSize st)) ((d.drop (6 + sigPubSize st)).take (sigLen t)) = true :=
  offline_sound C hr hv

/-! ### `Verify` = "every printed obligation holds" (what the `verifyObl` op compares with the library) -/

theorem leaseset2_obligations (C : SigScheme) (p : LS2Parsed) : verifyLS2 C p = C.all (oblLS2 p) :=
  verifyDest_eq_obl [3] C p

theorem meta_leaseset_obligations (C : SigScheme) (p : MetaParsed) : verifyMeta C p = C.all (oblMeta p) :=
  verifyDest_eq_obl [7] C p

theorem encrypted_leaseset_obligations (C : SigScheme) (p : ELSParsed) : verifyELS C p = C.all (oblELS p) :=
  verifyELS_eq_obl C p

theorem leaseset_obligations (C : SigScheme) (p : LSParsed) : verifyLS C p = C.all (oblLS p) :=
  verifyLS_eq_obl C p

theorem router_info_obligations (C : SigScheme) (p : RIParsed) : verifyRI C p = C.all (oblRI p) :=
  verifyRI_eq_obl C p

/-! ### the hole the fix closed (D4): the pre-fix `Verify` trusted any transient key -/

/-! `attackerOnly` (only the key of 32 bytes `0x06` ever verifies anything) and `forged` (victim identity key
    `0x02…`, offline flag set, attacker's transient key `0x06…`, 64 zero bytes as "destination signature", final
    signature by the attacker) are defined at the end of `Proofs/VerifyLemmas.lean`. -/

/-- `prefix_hole_example`: the PRE-FIX model accepts although the offline block does not verify under the
    identity's key — the conclusion of `leaseset2_authentic` fails for the old code; the current model rejects. -/
example :
    verifyLS2Prefix attackerOnly forged = true ∧
    attackerOnly.verify (algOf forged.idType) forged.idKey
      ([0, 0, 0, 1] ++ beEnc 2 7 ++ List.replicate 32 6) (List.replicate 64 0) = false ∧
    verifyLS2 attackerOnly forged = false := by decide +kernel

/-- the same on the wire: `exLS2Off` (StructLemmas) parses, carries an offline block whose transient key is
    32 bytes `0x06` while the destination's key is 32 bytes `0x01`; old code accepts, current code rejects -/
example :
    (parseLS2 exLS2Off).map (verifyLS2Prefix attackerOnly) = some true ∧
    (parseLS2 exLS2Off).map (verifyLS2 attackerOnly) = some false := by decide +kernel

/-! ### the hypotheses are satisfiable (`acceptAll`: an oracle that accepts everything) -/

example : (parseLS2 exLS2).map (verifyLS2 acceptAll) = some true := by decide +kernel
example : (parseLS2 exLS2Off).map (verifyLS2 acceptAll) = some true := by decide +kernel
example : (parseLS2 exLS2Off).map (·.flagsOffline) = some true := by decide +kernel
example : (parseMeta exMeta).map (verifyMeta acceptAll) = some true := by decide +kernel
example : (parseELS exELS).map (verifyELS acceptAll) = some true := by decide +kernel
example : (parseLS exLS).map (verifyLS acceptAll) = some true := by decide +kernel
example : (parseRI exRI).map (verifyRI acceptAll) = some true := by decide +kernel
example : verifyOffline acceptAll (offFields exOff 7) (List.replicate 32 1) = true := by decide +kernel

end I2P.Props.C05
