import I2P.Proofs.StructLemmas
/-! # C01 (composite structures) — re-serialisation ++ remainder = input, for every accepted input

In `I2P/Structs.lean` a reader returns the re-serialisation of the accepted value exactly as the Go `Bytes()`
emits it, field by field, and the remainder. -/
namespace I2P.Props.C01
open I2P
open I2P.Structs

/-- ReadSignature -/
theorem signature :
    ∀ {d : Bytes} {t : Nat} {b r : Bytes}, readSig d t = some (b, r) → b ++ r = d :=
  @I2P.Structs.readSig_consumed

/-- ReadOfflineSignature -/
theorem offline_signature :
    ∀ {d : Bytes} {t : Nat} {b r : Bytes} {st : Nat}, readOffSig d t = some (b, r, st) → b ++ r = d :=
  @I2P.Structs.readOffSig_consumed

/-- ReadLease / ReadLease2 (fixed 44 / 40 bytes) -/
theorem lease :
    ∀ {n : Nat} {d b r : Bytes}, readFixedN n d = some (b, r) → b ++ r = d :=
  @I2P.Structs.readFixedN_consumed

/-- an options mapping embedded in a stream -/
theorem options :
    ∀ {d : Bytes} {z : Bool} {b r : Bytes}, readOptions d z = some (b, r) → b ++ r = d :=
  @I2P.Structs.readOptions_consumed

/-- ReadRouterAddress -/
theorem router_address :
    ∀ {d b r : Bytes}, readRouterAddress d = some (b, r) → b ++ r = d :=
  @I2P.Structs.readRouterAddress_consumed

/-- ReadLeaseSet2 -/
theorem leaseset2 :
    ∀ {d b r : Bytes}, readLeaseSet2 d = some (b, r) → b ++ r = d :=
  @I2P.Structs.readLeaseSet2_consumed

/-- ReadMetaLeaseSet -/
theorem meta_leaseset :
    ∀ {d b r : Bytes}, readMeta d = some (b, r) → b ++ r = d :=
  @I2P.Structs.readMeta_consumed

/-- ReadEncryptedLeaseSet -/
theorem encrypted_leaseset :
    ∀ {d b r : Bytes}, readELS d = some (b, r) → b ++ r = d :=
  @I2P.Structs.readELS_consumed

/-- ReadRouterInfo -/
theorem router_info :
    ∀ {d b r : Bytes}, readRouterInfo d = some (b, r) → b ++ r = d :=
  @I2P.Structs.readRouterInfo_consumed

/-- ReadLeaseSet -/
theorem leaseset :
    ∀ {d b r : Bytes}, readLeaseSet d = some (b, r) → b ++ r = d :=
  @I2P.Structs.readLeaseSet_consumed

end I2P.Props.C01
