import I2P.Proofs.TimeLemmas
/-! # C15 — expiry arithmetic is exact

Property theorems only.  The model functions are the code-mirroring definitions of `I2P/Time.lean` (one per Go
accessor/constructor, every `uint32`/`uint16`/`int64`/`uint64`/`time.Duration` operation an explicit wrap
function; tied to `/repo` by the correspondence run of `./check C15`).  The theorems say that for **every**
representable field value (32-bit seconds, 16-bit offsets, millisecond dates below `2^63`) the results are the
mathematically exact integers — no wrap function is ever active.  `now` is an arbitrary `time.Time`.

Clauses that are false of the faithful model are stated as counterexamples (`example`) next to the
`…_partial` theorem that excludes exactly the failing inputs:
* `NewLease` never rejects; a time before 1970 is stored as its two's complement (candidate D14);
* `router_info.createPublishedDate` goes through `UnixNano()` and stores a wrapped value for instants after
  2262-04-11 (residue of D11; `data.DateFromTime` itself is exact since 18b9fe5). -/

namespace I2P.Props.C15
open I2P I2P.Time

/-! ### published time + expires offset -/

/-- LeaseSet2: `PublishedTime()` is the published second and `ExpirationTime()` is `published + expires`
    in ℤ (it may exceed `2^32 − 1`; nothing wraps), on a whole second. -/
theorem ls2_expiration_exact (p e : Nat) (hp : p < 2^32) (he : e < 2^16) :
    ls2ExpirationSeconds p e = (p : Int) + e ∧ (ls2ExpirationTime p e).nsec = 0 ∧ ls2PublishedSeconds p = p := by
  unfold ls2ExpirationSeconds ls2PublishedSeconds ls2ExpirationTime ls2PublishedTime unixOf
  rw [header_expiration p e hp he, unix32_time p hp]
  exact ⟨rfl, rfl, rfl⟩

/-- EncryptedLeaseSet: same arithmetic (`expires = 0` is refused by the reader and the constructor, the
    accessor is exact regardless). -/
theorem els_expiration_exact (p e : Nat) (hp : p < 2^32) (he : e < 2^16) :
    elsExpirationSeconds p e = (p : Int) + e ∧ (elsExpirationTime p e).nsec = 0 ∧ elsPublishedSeconds p = p := by
  unfold elsExpirationSeconds elsPublishedSeconds elsExpirationTime elsPublishedTime unixOf
  rw [header_expiration p e hp he, unix32_time p hp]
  exact ⟨rfl, rfl, rfl⟩

/-- MetaLeaseSet: same arithmetic. -/
theorem meta_expiration_exact (p e : Nat) (hp : p < 2^32) (he : e < 2^16) :
    metaExpirationSeconds p e = (p : Int) + e ∧ (metaExpirationTime p e).nsec = 0 ∧ metaPublishedSeconds p = p := by
  unfold metaExpirationSeconds metaPublishedSeconds metaExpirationTime metaPublishedTime unixOf
  rw [header_expiration p e hp he, unix32_time p hp]
  exact ⟨rfl, rfl, rfl⟩

/-- MetaLeaseSetEntry.ExpiresTime() is the stored second (no sign extension above `2^31`). -/
theorem entry_expires_exact (x : Nat) (hx : x < 2^32) :
    entryExpiresSeconds x = x ∧ (entryExpiresTime x).nsec = 0 := by
  unfold entryExpiresSeconds entryExpiresTime unixOf
  rw [unix32_time x hx]
  exact ⟨rfl, rfl⟩

example : ls2ExpirationSeconds (2^32 - 1) 65535 = 4295032830 := by decide
example : elsExpirationSeconds (2^31) 1 = 2147483649 := by decide
example : metaExpirationSeconds 0 0 = 0 := by decide
example : entryExpiresSeconds (2^31) = 2147483648 := by decide

/-! ### offline signature -/

/-- OfflineSignature: `ExpiresTime()` is the stored second, `ExpiresDate()` is eight bytes holding exactly
    `expires · 1000` milliseconds. -/
theorem offline_expires_exact (x : Nat) (hx : x < 2^32) :
    offlineExpiresSeconds x = x ∧ (offlineExpiresTime x).nsec = 0 ∧
      offlineExpiresDateMillis x = x * 1000 ∧ (offlineExpiresDate x).length = 8 := by
  refine ⟨?_, ?_, ?_, ?_⟩
  · unfold offlineExpiresSeconds offlineExpiresTime unixOf; rw [unix32_time x hx]
  · unfold offlineExpiresTime; rw [unix32_time x hx]
  · unfold offlineExpiresDateMillis
    rw [offlineExpiresDate_exact x hx]
    exact beVal_beEnc 8 _ (by have := p8; omega)
  · rw [offlineExpiresDate_exact x hx]; simp

example : offlineExpiresSeconds (2^32 - 1) = 4294967295 ∧ offlineExpiresDateMillis (2^32 - 1) = 4294967295000 := by decide

/-! ### Lease2 (32-bit seconds) -/

/-- `Lease2.Date()` is `end_date · 1000` (the multiplication is done after widening to 64 bits). -/
theorem lease2_date_exact (e : Nat) (he : e < 2^32) :
    lease2DateMillis e = e * 1000 ∧ beVal (lease2Date e) = e * 1000 ∧ (lease2Date e).length = 8 := by
  have h := lease2DateMillis_exact e he
  refine ⟨h, ?_, by simp [lease2Date]⟩
  unfold lease2Date
  rw [h]
  exact beVal_beEnc 8 _ (by have := p8; omega)

/-- `Lease2.Time()` is the stored second. -/
theorem lease2_time_exact (e : Nat) (he : e < 2^32) : lease2TimeSeconds e = e ∧ (lease2Time e).nsec = 0 := by
  unfold lease2TimeSeconds lease2Time unixOf
  rw [unix32_time e he]
  exact ⟨rfl, rfl⟩

/-- `NewLease2` accepts exactly the second counts `0 … 2^32 − 1` and stores them unchanged; every other
    `int64` second count is rejected (nothing is stored wrapped). -/
theorem newLease2_domain (s : Int) (hs : IsInt64 s) :
    (newLease2 s = some s.toNat ↔ 0 ≤ s ∧ s < 2^32) ∧ (¬ (0 ≤ s ∧ s < 2^32) → newLease2 s = none) := by
  obtain ⟨h1, h2⟩ := hs
  by_cases hneg : s < 0
  · have hn : newLease2 s = none := by unfold newLease2; rw [if_pos (Or.inl hneg)]
    refine ⟨⟨fun h => ?_, fun h => by omega⟩, fun _ => hn⟩
    rw [hn] at h; simp at h
  · obtain ⟨m, rfl⟩ := Int.eq_ofNat_of_zero_le (show 0 ≤ s by omega)
    have hw : wrapUInt64 (m : Int) = m := wrapUInt64_nat m (by omega)
    by_cases hlt : m < 2^32
    · have hv : newLease2 (m : Int) = some m := by
        unfold newLease2
        rw [hw, if_neg (by omega), wrapUInt32_nat m hlt]
      refine ⟨⟨fun _ => ⟨by omega, by omega⟩, fun _ => by rw [hv]; simp⟩, fun h => ?_⟩
      exact absurd ⟨by omega, by omega⟩ h
    · have hn : newLease2 (m : Int) = none := by
        unfold newLease2
        rw [hw, if_pos (Or.inr (by omega))]
      refine ⟨⟨fun h => ?_, fun h => by omega⟩, fun _ => hn⟩
      rw [hn] at h; simp at h

/-- the same on the `time.Time` argument: whatever the nanoseconds, only the second count decides -/
theorem newLease2_time_domain (t : GoTime) (hs : IsInt64 t.sec) :
    (newLease2FromTime t = some t.sec.toNat ↔ 0 ≤ t.sec ∧ t.sec < 2^32) ∧
      (¬ (0 ≤ t.sec ∧ t.sec < 2^32) → newLease2FromTime t = none) :=
  newLease2_domain t.sec hs

example : newLease2 (2^32 - 1) = some 4294967295 ∧ newLease2 0 = some 0 := by decide
example : newLease2 (-1) = none ∧ newLease2 (2^32) = none ∧ newLease2 (2^63 - 1) = none ∧ newLease2 (-2^63) = none := by decide

/-! ### Lease (64-bit milliseconds) -/

/-- Millisecond → time conversions of a stored date below `2^63`: `Lease.Time()`, `Date.Int()` and
    `Date.Time()` all denote exactly `date` milliseconds (`⌊date/1000⌋` seconds). -/
theorem lease_time_exact (d : Nat) (hd : d < 2^63) :
    leaseTimeMillis d = d ∧ (leaseTime d).sec = (d / 1000 : Nat) ∧ dateIntOf d = d ∧ (dateTimeOf d).unixMilli = d := by
  have key : ({ sec := ((d / 1000 : Nat) : Int), nsec := d % 1000 * 1000000 } : GoTime).unixMilli = d := by
    rw [unixMilli_exact _ (by simp only; omega) (by simp only; omega)]
    simp only
    omega
  refine ⟨?_, ?_, toI d hd, ?_⟩
  · unfold leaseTimeMillis; rw [leaseTime_small d hd, key]
  · rw [leaseTime_small d hd]
  · rw [dateTimeOf_small d hd, key]

/-- `NewLease` stores exactly the millisecond count of its argument — **for times from 1970 on** whose
    millisecond count is below `2^63`.  Partial: the constructor has no range check, see the counterexample. -/
theorem newLease_exact_partial (t : GoTime) (h0 : 0 ≤ t.sec) (h63 : t.sec * 1000 + t.nsec / 1000000 < 2^63) :
    (newLeaseDate t : Int) = t.sec * 1000 + ((t.nsec / 1000000 : Nat) : Int) ∧
      leaseTimeMillis (newLeaseDate t) = t.sec * 1000 + ((t.nsec / 1000000 : Nat) : Int) := by
  have hu := unixMilli_exact t (by omega) h63
  obtain ⟨m, hm⟩ := Int.eq_ofNat_of_zero_le (show 0 ≤ t.sec * 1000 + ((t.nsec / 1000000 : Nat) : Int) by omega)
  have hm63 : m < 2^63 := by omega
  have hd : newLeaseDate t = m := by
    unfold newLeaseDate
    rw [hu, hm]
    exact wrapUInt64_nat m (by omega)
  rw [hd]
  exact ⟨hm.symm, by rw [(lease_time_exact m hm63).1]; exact hm.symm⟩

/-- Counterexample (D14): one second before 1970 is stored as `2^64 − 1000`, and `Lease.Time()` of that
    lease is again −1000 ms; a date of `2^64 − 1000` ms is what goes on the wire. -/
example : newLeaseDate (timeUnix (-1) 0) = 2^64 - 1000 ∧ leaseTimeMillis (2^64 - 1000) = -1000 := by decide

example : newLeaseDate (timeUnix 4294967296 999000000) = 4294967296999 := by decide

/-! ### newest / oldest expiration of a LeaseSet -/

/-- For 1 or more leases (the wire format allows at most 16, the statement needs no upper bound) with dates
    below `2^63`, `NewestExpiration()` and `OldestExpiration()` succeed, return the date of one of the leases,
    and bound all the others. -/
theorem newest_oldest (ds : List Nat) (hlen : 1 ≤ ds.length) (hds : ∀ d ∈ ds, d < 2^63) :
    ∃ n o, newestExpiration ds = some n ∧ oldestExpiration ds = some o ∧ n ∈ ds ∧ o ∈ ds ∧
      ∀ d ∈ ds, o ≤ d ∧ d ≤ n := by
  match ds, hlen, hds with
  | x :: xs, _, hds =>
    have hx : x < 2^63 := hds x (by simp)
    have hxs : ∀ d ∈ xs, d < 2^63 := fun d hd => hds d (by simp [hd])
    obtain ⟨hm, _, hle, hall⟩ := newest_loop xs x hx hxs
    obtain ⟨hm', _, hle', hall'⟩ := oldest_loop xs x hx hxs
    refine ⟨_, _, rfl, rfl, hm, hm', ?_⟩
    intro d hd
    rcases List.mem_cons.mp hd with h1 | h1
    · subst h1; exact ⟨hle', hle⟩
    · exact ⟨hall' d h1, hall d h1⟩

/-- no leases: both report `ErrNoLeases` -/
theorem newest_oldest_empty : newestExpiration [] = none ∧ oldestExpiration [] = none := ⟨rfl, rfl⟩

example : newestExpiration [5, 2^63 - 1, 0, 1999, 1001] = some (2^63 - 1) ∧
    oldestExpiration [5, 2^63 - 1, 0, 1999, 1001] = some 0 := by decide
example : newestExpiration [1000, 1999, 1001] = some 1999 ∧ oldestExpiration [1999, 1000, 1001] = some 1000 := by decide

/-! ### a day in the past is expired, a day in the future is not -/

theorem ls2_isExpired_day (now : GoTime) (p e : Nat) (hp : p < 2^32) (he : e < 2^16) :
    ((p : Int) + e ≤ now.sec - 86400 → ls2IsExpired now p e = true) ∧
      ((p : Int) + e ≥ now.sec + 86400 → ls2IsExpired now p e = false) := by
  unfold ls2IsExpired ls2ExpirationTime ls2PublishedTime
  rw [header_expiration p e hp he]
  exact ⟨fun h => after_whole_true now _ (by omega), fun h => after_whole_false now _ (by omega)⟩

theorem els_isExpired_day (now : GoTime) (p e : Nat) (hp : p < 2^32) (he : e < 2^16) :
    ((p : Int) + e ≤ now.sec - 86400 → elsIsExpired now p e = true) ∧
      ((p : Int) + e ≥ now.sec + 86400 → elsIsExpired now p e = false) := by
  unfold elsIsExpired elsExpirationTime elsPublishedTime
  rw [header_expiration p e hp he]
  exact ⟨fun h => after_whole_true now _ (by omega), fun h => after_whole_false now _ (by omega)⟩

theorem meta_isExpired_day (now : GoTime) (p e : Nat) (hp : p < 2^32) (he : e < 2^16) :
    ((p : Int) + e ≤ now.sec - 86400 → metaIsExpired now p e = true) ∧
      ((p : Int) + e ≥ now.sec + 86400 → metaIsExpired now p e = false) := by
  unfold metaIsExpired metaExpirationTime metaPublishedTime
  rw [header_expiration p e hp he]
  exact ⟨fun h => after_whole_true now _ (by omega), fun h => after_whole_false now _ (by omega)⟩

theorem entry_isExpired_day (now : GoTime) (x : Nat) (hx : x < 2^32) :
    ((x : Int) ≤ now.sec - 86400 → entryIsExpired now x = true) ∧
      ((x : Int) ≥ now.sec + 86400 → entryIsExpired now x = false) := by
  unfold entryIsExpired entryExpiresTime
  rw [unix32_time x hx]
  exact ⟨fun h => after_whole_true now _ (by omega), fun h => after_whole_false now _ (by omega)⟩

theorem offline_isExpired_day (now : GoTime) (x : Nat) (hx : x < 2^32) :
    ((x : Int) ≤ now.sec - 86400 → offlineIsExpired now x = true) ∧
      ((x : Int) ≥ now.sec + 86400 → offlineIsExpired now x = false) := by
  unfold offlineIsExpired offlineExpiresTime
  rw [unix32_time x hx]
  exact ⟨fun h => after_whole_true now _ (by omega), fun h => after_whole_false now _ (by omega)⟩

theorem lease2_isExpired_day (now : GoTime) (x : Nat) (hx : x < 2^32) :
    ((x : Int) ≤ now.sec - 86400 → lease2IsExpired now x = true) ∧
      ((x : Int) ≥ now.sec + 86400 → lease2IsExpired now x = false) := by
  unfold lease2IsExpired lease2Time
  rw [unix32_time x hx]
  exact ⟨fun h => before_true _ now (by simp only; omega), fun h => before_false _ now (by simp only; omega)⟩

/-- Lease: the end date is in milliseconds; a day is 86 400 000 ms. -/
theorem lease_isExpired_day (now : GoTime) (d : Nat) (hd : d < 2^63) :
    ((d : Int) ≤ (now.sec - 86400) * 1000 → leaseIsExpired now d = true) ∧
      ((d : Int) ≥ (now.sec + 86400) * 1000 → leaseIsExpired now d = false) := by
  unfold leaseIsExpired
  rw [leaseTime_small d hd]
  exact ⟨fun h => before_true _ now (by simp only; omega), fun h => before_false _ now (by simp only; omega)⟩

/-- all seven `IsExpired` methods at once, for an expiry in whole seconds `x` (for the three lease sets the
    expiry is `published + expires`) -/
theorem isExpired_day (now : GoTime) (p e x : Nat) (hp : p < 2^32) (he : e < 2^16) (hx : x < 2^32)
    (hpe : p + e = x) :
    ((x : Int) ≤ now.sec - 86400 →
        ls2IsExpired now p e = true ∧ elsIsExpired now p e = true ∧ metaIsExpired now p e = true ∧
        entryIsExpired now x = true ∧ offlineIsExpired now x = true ∧ lease2IsExpired now x = true ∧
        leaseIsExpired now (x * 1000) = true) ∧
    ((x : Int) ≥ now.sec + 86400 →
        ls2IsExpired now p e = false ∧ elsIsExpired now p e = false ∧ metaIsExpired now p e = false ∧
        entryIsExpired now x = false ∧ offlineIsExpired now x = false ∧ lease2IsExpired now x = false ∧
        leaseIsExpired now (x * 1000) = false) := by
  have hx63 : x * 1000 < 2^63 := by omega
  have hc : ((p : Int) + e) = (x : Int) := by omega
  refine ⟨fun h => ⟨(ls2_isExpired_day now p e hp he).1 (by omega), (els_isExpired_day now p e hp he).1 (by omega),
      (meta_isExpired_day now p e hp he).1 (by omega), (entry_isExpired_day now x hx).1 h,
      (offline_isExpired_day now x hx).1 h, (lease2_isExpired_day now x hx).1 h,
      (lease_isExpired_day now (x * 1000) hx63).1 (by omega)⟩,
    fun h => ⟨(ls2_isExpired_day now p e hp he).2 (by omega), (els_isExpired_day now p e hp he).2 (by omega),
      (meta_isExpired_day now p e hp he).2 (by omega), (entry_isExpired_day now x hx).2 h,
      (offline_isExpired_day now x hx).2 h, (lease2_isExpired_day now x hx).2 h,
      (lease_isExpired_day now (x * 1000) hx63).2 (by omega)⟩⟩

example : ls2IsExpired ⟨1800000000, 5⟩ 1799913000 600 = true ∧ ls2IsExpired ⟨1800000000, 5⟩ 1800086400 0 = false := by decide
example : offlineIsExpired ⟨1800000000, 0⟩ 1800000000 = false ∧ offlineIsExpired ⟨1800000000, 1⟩ 1800000000 = true := by decide

/-! ### published date of a new RouterInfo -/

/-- `createPublishedDate` stores the exact millisecond count for every instant from 1970 on whose
    millisecond count fits 63 bits. -/
theorem published_date_exact (t : GoTime) (h0 : 0 ≤ t.sec) (h63 : t.sec * 1000 + ((t.nsec / 1000000 : Nat) : Int) < 2^63) :
    (createPublishedDate t : Int) = t.sec * 1000 + ((t.nsec / 1000000 : Nat) : Int) := by
  unfold createPublishedDate GoTime.unixMilli
  have hw : toInt64 (toUInt64 (t.sec * 1000 + (t.nsec : Int) / 1000000)) = t.sec * 1000 + (t.nsec : Int) / 1000000 :=
    wrapInt64_id _ (by omega) (by omega)
  rw [hw]
  obtain ⟨m, hm⟩ := Int.eq_ofNat_of_zero_le (show 0 ≤ t.sec * 1000 + (t.nsec : Int) / 1000000 by omega)
  rw [hm, wrapUInt64_nat m (by omega), ← hm]
  omega

/-- the instant at which the pre-fix code (through `UnixNano()`) first stored a wrapped value -/
example : createPublishedDate (timeUnix 9223372037 0) = 9223372037000 := by decide

example : createPublishedDate (timeUnix 1800000000 123456789) = 1800000000123 := by decide

end I2P.Props.C15
