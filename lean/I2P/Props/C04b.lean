import I2P.Proofs.CheckedLemmas2
/-! # C04 (second part) — no input makes a parser panic: Mapping and the readers that embed one

Property theorems only; the checked mirrors are in `I2P/Checked2.lean`, the helper lemmas in
`I2P/Proofs/CheckedLemmas2.lean`.  Same scheme as `Props/C04.lean`: for every reader `f`

* `fC_refines` — the checked mirror returns `.ok` of exactly what the pure model returns, for EVERY input;
* `fC_no_panic` — the corollary that it never returns `.error _`;
* `…S_any_slice` — the same for an arbitrary Go slice (any underlying array, offset and capacity). -/
namespace I2P.Props.C04
open I2P I2P.Spec I2P.Kac I2P.Structs I2P.Checked I2P.Mapping

/-! ### I2PString accessors, NewIntegerFromInt -/

/-- `I2PString.Data()` on ANY slice (malformed strings included): never a panic — `str[1 : length+1]` is only
    reached when the length byte equals `len(str) - 1` —, and the result is the pure `strData` / `strDataOk` -/
theorem i2pStringDataC_refines (s : Sl) :
    ∃ e, i2pStringDataC s = .ok (strData s.data, e) ∧ e.isNone = strDataOk s.data :=
  i2pStringDataC_spec s

theorem i2pStringDataC_no_panic (s : Sl) : ∃ r, i2pStringDataC s = .ok r := by
  obtain ⟨e, h, -⟩ := i2pStringDataC_spec s; exact ⟨_, h⟩

/-- `I2PString.Length()` on any slice -/
theorem i2pStringLengthC_no_panic (s : Sl) : ∃ r, i2pStringLengthC s = .ok r := by
  cases hd : s.data with
  | nil => exact ⟨_, i2pStringLengthC_nil s hd⟩
  | cons l rest => exact ⟨_, i2pStringLengthC_cons s l rest hd⟩

/-- `NewIntegerFromInt(value, size)` for every pair of Go ints: `bytes[8-size:]` stays in range -/
theorem newIntegerFromIntC_refines (value size : Int) :
    ∃ r, newIntegerFromIntC value size = .ok r ∧ r.map Sl.data = newIntegerFromInt value size :=
  newIntegerFromIntC_spec value size

theorem newIntegerFromIntC_no_panic (value size : Int) : ∃ r, newIntegerFromIntC value size = .ok r := by
  obtain ⟨r, h, -⟩ := newIntegerFromIntC_spec value size; exact ⟨r, h⟩

/-! ### ReadMapping -/

/-- one call of `parseSingleKeyValuePair` on any slice: no panic (`remainder[1:]` after `beginsWith`,
    `accumulatedErrors[0]`), and remainder, pair and error class are those of the pure model -/
theorem parseSingleKeyValuePairC_refines (s : Sl) (seen : List Bytes) :
    ∃ rem k v, parseSingleKeyValuePairC s seen = .ok (rem, (k, v), (parseSingle s.data seen).err.map .m) ∧
      rem.data = (parseSingle s.data seen).rem ∧ k.data = (parseSingle s.data seen).pair.1 ∧
      v.data = (parseSingle s.data seen).pair.2 :=
  parseSingleKeyValuePairC_spec s seen

/-- `ReadMapping` on a caller buffer returns exactly the four fields of the pure model: whether a size was
    read, the stored pairs, the remainder and the error list (never "failed to read mapping size", never
    "no forward progress", never a bare I2PString error) -/
theorem readMappingC_refines (w : Bytes) : readMappingC w = .ok (ResC.ofPure (readMapping w)) := by
  obtain ⟨m, rem, h, h1, h2, h3⟩ := readMappingS_spec (.ofBytes w)
  simp only [Sl.ofBytes_data] at h h1 h2 h3
  simp only [readMappingC, h, bind_ok, pure_eq_ok, ResC.ofPure, h1, h3]
  congr 2

theorem readMappingC_no_panic (w : Bytes) : ∃ r, readMappingC w = .ok r := ⟨_, readMappingC_refines w⟩

/-- the same for an arbitrary slice: in particular for the body `remainder[:size]`, whose capacity extends
    over the bytes that follow the mapping -/
theorem readMappingS_any_slice (s : Sl) :
    ∃ m rem, readMappingS s = .ok (m, rem, (readMapping s.data).errs.map .m) ∧
      m.size.isSome = (readMapping s.data).hasSize ∧ valsData m.vals = (readMapping s.data).vals ∧
      rem.data = (readMapping s.data).rem :=
  readMappingS_spec s

/-- `ReadMappingValues(remainder, map_length)` for any slice and any Integer whose value is `L` -/
theorem readMappingValuesS_any_slice (s ml : Sl) (L : Nat) (hL : integerInt ml.data = (L : Int)) :
    ∃ vals, readMappingValuesS s ml = .ok (vals, Sl.nil, (readValues s.data L).2.map .m) ∧
      valsData vals = (readValues s.data L).1 :=
  readMappingValuesS_spec s ml L hL

/-! ### Mapping.Data() -/

/-- `serializeOnePair` on ANY pair of slices: `pair[0][1:]` / `pair[1][1:]` cannot panic, because they are
    only reached after `Length()` succeeded -/
theorem serializeOnePairC_refines (p : PairS) :
    serializeOnePairC p = .ok (if strDataOk p.1.data = true ∧ strDataOk p.2.data = true
      then some (serPair (pairData p)) else none) :=
  serializeOnePairC_serPair p

theorem serializeOnePairC_no_panic (p : PairS) : ∃ r, serializeOnePairC p = .ok r := ⟨_, serializeOnePairC_serPair p⟩

/-- `Mapping.Data()` on ANY mapping value (stored pairs or not) -/
theorem mappingDataC_refines (m : MappingC) :
    mappingDataC (some m) = .ok (if m.size.isSome then some (dataOf ((valsData m.vals).getD [])) else none) :=
  mappingDataC_eq m

theorem mappingDataC_no_panic (m : Option MappingC) : ∃ r, mappingDataC m = .ok r := by
  cases m with
  | none => exact ⟨none, rfl⟩
  | some m => exact ⟨_, mappingDataC_eq m⟩

/-- `ReadMapping` followed by `Data()` is the pure `Mapping.data ∘ readMapping` -/
theorem readMappingDataC_refines (w : Bytes) : readMappingDataC w = .ok (Mapping.data (readMapping w)) := by
  obtain ⟨m, rem, h, h1, h2, -⟩ := readMappingS_spec (.ofBytes w)
  simp only [readMappingDataC, h, bind_ok]
  have := mappingDataC_of_read (s := .ofBytes w) h1 h2
  simpa using this

theorem readMappingDataC_no_panic (w : Bytes) : ∃ r, readMappingDataC w = .ok r := ⟨_, readMappingDataC_refines w⟩

/-! ### Mapping: loop bound

The `for { … }` loop of `parseKeyValuePairs` is a structural recursion on a fuel argument; the ghost counter `n`
in its result is the number of loop bodies (calls of `parseNextPair`) executed. -/

/-- for arbitrary arguments: at most `fuel` bodies, the pair counter never passes `MAX_MAPPING_PAIRS`, every
    body except possibly the last stores a pair (`k` pairs in all), and every stored pair consumed at least
    four bytes of the remaining input -/
theorem mapping_loop_bounds (fuel : Nat) (s : Sl) (vals : List PairS) (errs : List MapErrC) (seen : List Bytes)
    (pc prev : Int) (lm : Bool) (rem : Sl) (vals' : List PairS) (errs' : List MapErrC) (n : Nat)
    (h : parseKeyValuePairsLoopC fuel s vals errs seen pc prev lm = .ok (rem, vals', errs', n)) :
    n ≤ fuel ∧ (n = 0 ∨ pc + n ≤ MAX_MAPPING_PAIRS) ∧
      ∃ k, vals'.length = vals.length + k ∧ n ≤ k + 1 ∧ rem.len + 4 * k ≤ s.len :=
  parseKeyValuePairsLoopC_bounds fuel s vals errs seen pc prev lm rem vals' errs' n h

/-- as `parseKeyValuePairs` runs the loop (pair counter 0, fuel `MAX_MAPPING_PAIRS + 2`): the fuel is never
    exhausted, iterations ≤ min (MAX_MAPPING_PAIRS + 1) (len / 4 + 1), and every stored pair consumed ≥ 4 bytes -/
theorem parseKeyValuePairsC_iterations (s : Sl) (errs : List MapErrC) (rem : Sl) (vals' : List PairS)
    (errs' : List MapErrC) (n : Nat) (h : parseKeyValuePairsC s [] errs = .ok (rem, vals', errs', n)) :
    n < MAX_MAPPING_PAIRS + 2 ∧ n ≤ min (MAX_MAPPING_PAIRS + 1) (s.data.length / 4 + 1) ∧
      n ≤ vals'.length + 1 ∧ rem.len + 4 * vals'.length ≤ s.len := by
  obtain ⟨b1, b2, k, b3, b4, b5⟩ := parseKeyValuePairsLoopC_bounds _ _ _ _ _ _ _ _ _ _ _ _ h
  have hM : MAX_MAPPING_PAIRS = 1000 := rfl
  simp only [List.length_nil, Nat.zero_add] at b3
  have hl := s.data_length
  rw [hM, b3, hl]
  refine ⟨by omega, ?_, by omega, by omega⟩
  rw [Nat.le_min]
  exact ⟨by omega, by omega⟩

/-- the hypothesis of `parseKeyValuePairsC_iterations` is satisfiable (one pair `a=b;`, one iteration) -/
example : ∃ rem vals errs, parseKeyValuePairsC (.ofBytes [1, 97, 0x3d, 1, 98, 0x3b]) [] [] = .ok (rem, vals, errs, 1) :=
  ⟨_, _, _, rfl⟩

/-! ### LeaseSet2, end to end

`Props/C04.lean` proves the parse helpers of `ReadLeaseSet2` around the options mapping; with `ReadMapping`
mirrored the whole reader is covered. -/

/-- `parseOptionsMapping` (the error filter with `fatal[0]`, `warnIfOptionsUnsorted` with `pair[0].Data()`):
    never panics and computes the pure `readOptions _ true` -/
theorem ls2ParseOptionsMappingC_refines (s : Sl) :
    ∃ r, ls2ParseOptionsMappingC s = .ok r ∧
      r.map (fun p => (optionsBytes p.1, p.2.data)) = readOptions s.data true :=
  ls2ParseOptionsMappingC_spec s

/-- `ReadLeaseSet2` (destination, header, offline signature, options mapping, key loop, lease loop,
    signature): never a panic, and the parsed LeaseSet2 re-serialises (`LS2F.bytes` = what `Bytes()` emits) to
    exactly the bytes the pure model returns, with the same remainder -/
theorem readLeaseSet2C_refines (w : Bytes) :
    ∃ r, readLeaseSet2C w = .ok r ∧ r.bind (fun p => p.1.bytes.map (·, p.2)) = readLeaseSet2 w := by
  obtain ⟨r, hr, hv⟩ := readLeaseSet2S_spec (.ofBytes w)
  refine ⟨_, onBytes_ok hr, ?_⟩
  rw [Sl.ofBytes_data] at hv
  rw [← hv]; cases r <;> rfl

theorem readLeaseSet2C_no_panic (w : Bytes) : ∃ r, readLeaseSet2C w = .ok r := by
  obtain ⟨r, h, -⟩ := readLeaseSet2C_refines w; exact ⟨r, h⟩

theorem readLeaseSet2S_any_slice (s : Sl) :
    ∃ r, readLeaseSet2S s = .ok r ∧ r.bind (fun p => p.1.bytes.map (·, p.2.data)) = readLeaseSet2 s.data :=
  readLeaseSet2S_spec s

/-! ### RouterAddress -/

/-- `ReadRouterAddress` (`NewInteger`, `NewDate`, `ReadI2PString`, `NewMapping`): never a panic, and the parsed
    address re-serialises (`RA.bytes` = what `Bytes()` emits) to what the pure model returns -/
theorem readRouterAddressC_refines (w : Bytes) :
    ∃ r, readRouterAddressC w = .ok r ∧ r.map (fun p => (p.1.bytes, p.2)) = readRouterAddress w := by
  obtain ⟨r, hr, hv⟩ := readRouterAddressS_spec (.ofBytes w)
  refine ⟨_, onBytes_ok hr, ?_⟩
  rw [Sl.ofBytes_data] at hv
  rw [← hv]; cases r <;> rfl

theorem readRouterAddressC_no_panic (w : Bytes) : ∃ r, readRouterAddressC w = .ok r := by
  obtain ⟨r, h, -⟩ := readRouterAddressC_refines w; exact ⟨r, h⟩

theorem readRouterAddressS_any_slice (s : Sl) :
    ∃ r, readRouterAddressS s = .ok r ∧ r.map (fun p => (p.1.bytes, p.2.data)) = readRouterAddress s.data :=
  readRouterAddressS_spec s

/-- a successful `ReadRouterAddress` consumes at least 12 bytes -/
theorem readRouterAddressS_consumes (s : Sl) (a : RA) (rem : Sl) (h : readRouterAddressS s = .ok (some (a, rem))) :
    rem.len + 12 ≤ s.len :=
  readRouterAddressS_progress h

/-! ### RouterIdentity, RouterInfo -/

theorem readRouterIdentityC_refines (w : Bytes) : readRouterIdentityC w = .ok (readRouterIdentity w) :=
  onBytes_of_spec readRouterIdentityS_spec w
theorem readRouterIdentityC_no_panic (w : Bytes) : ∃ r, readRouterIdentityC w = .ok r := ⟨_, readRouterIdentityC_refines w⟩

/-- `ReadRouterInfo` (`parseRouterInfoCore`, the address loop, `parsePeerSizeAndOptions`,
    `parseRouterInfoSignature` with `cert.payload[0:2]`): never a panic, and the parsed RouterInfo re-serialises
    (`RI.bytes` = what `Bytes()` emits) to what the pure model returns -/
theorem readRouterInfoC_refines (w : Bytes) :
    ∃ r, readRouterInfoC w = .ok r ∧ r.bind (fun p => p.1.bytes.map (·, p.2)) = readRouterInfo w := by
  obtain ⟨r, hr, hv⟩ := readRouterInfoS_spec (.ofBytes w)
  refine ⟨_, onBytes_ok hr, ?_⟩
  rw [Sl.ofBytes_data] at hv
  rw [← hv]; cases r <;> rfl

theorem readRouterInfoC_no_panic (w : Bytes) : ∃ r, readRouterInfoC w = .ok r := by
  obtain ⟨r, h, -⟩ := readRouterInfoC_refines w; exact ⟨r, h⟩

theorem readRouterInfoS_any_slice (s : Sl) :
    ∃ r, readRouterInfoS s = .ok r ∧ r.bind (fun p => p.1.bytes.map (·, p.2.data)) = readRouterInfo s.data :=
  readRouterInfoS_spec s

/-- `parseRouterInfoSignature` on an identity with a one-byte kind and a two-byte length (every parsed one):
    never dereferences nil, `cert.payload[0:2]` is in range whenever the KEY branch is taken with ≥ 4 payload
    bytes, and the signature read is the pure model's -/
theorem parseRouterInfoSignatureC_refines (k : KeysAndCert) (s : Sl) (hk : k.kc.cert.kind.length = 1)
    (hl : k.kc.cert.len.length = 2)
    (h5 : k.kc.cert.kind = [5] → 4 ≤ k.kc.cert.payload.length ∧ k.kc.spk = beVal (k.kc.cert.payload.take 2)) :
    ∃ r, parseRouterInfoSignatureC (some k) s = .ok r ∧
      vRem r = readSig s.data (if k.kc.cert.kind == [5] then k.kc.spk else 0) :=
  parseRouterInfoSignatureC_spec k s hk hl h5

/-! ### RouterInfo: loop bound

The address loop is a structural recursion on a fuel argument; the ghost counter `n` is the number of loop
bodies (calls of `ReadRouterAddress`) executed. -/

/-- for arbitrary arguments: at most `fuel` iterations, one address stored per iteration, every iteration
    consumes at least 12 bytes (or fails: then the result is `none`), the index never passes `size.Int()` -/
theorem router_address_loop_bounds (fuel : Nat) (i : Int) (size : Option Sl) (addrs : List RA) (s : Sl)
    (as : List RA) (rem : Sl) (n : Nat)
    (h : parseRouterAddressesLoopC fuel i size addrs s = .ok (some (as, rem, n))) :
    n ≤ fuel ∧ as.length = addrs.length + n ∧ rem.len + 12 * n ≤ s.len ∧
      (n = 0 ∨ ∃ sz, size = some sz ∧ i + n ≤ integerInt sz.data) :=
  parseRouterAddressesLoopC_bounds fuel i size addrs s as rem n h

/-- as `ReadRouterInfo` runs the loop: the number of iterations is the size byte (≤ 255), it equals the number
    of stored addresses, and at least `12·n` bytes were there to be consumed -/
theorem readRouterInfo_address_count (s : Sl) (info : RI) (rem : Sl) (n : Nat)
    (h : readRouterInfoS' s = .ok (some (info, rem, n))) :
    n ≤ 255 ∧ info.addresses.length = n ∧ 12 * n ≤ s.len := by
  obtain ⟨r, hr, -, hb⟩ := readRouterInfoS'_spec s
  rw [h] at hr
  cases hr
  exact hb info rem n rfl

/-! ### non-vacuity

The example inputs of `Proofs/StructLemmas.lean` are accepted by the checked readers and round-trip. -/

example : ∃ l, readLeaseSet2C exLS2 = .ok (some (l, [])) ∧ l.bytes = some exLS2 := by
  obtain ⟨r, hr, hv⟩ := readLeaseSet2C_refines exLS2
  rw [show readLeaseSet2 exLS2 = some (exLS2, []) by decide +kernel] at hv
  cases r with
  | none => cases hv
  | some p =>
    obtain ⟨l, rem⟩ := p
    simp only [Option.bind_some] at hv
    cases hb : l.bytes with
    | none => rw [hb] at hv; cases hv
    | some b =>
      rw [hb] at hv
      simp only [Option.map_some, Option.some.injEq, Prod.mk.injEq] at hv
      exact ⟨l, by rw [hr, hv.2], by rw [hb, hv.1]⟩

example : ∃ a, readRouterAddressC exAddr = .ok (some (a, [])) ∧ a.bytes = exAddr := by
  obtain ⟨r, hr, hv⟩ := readRouterAddressC_refines exAddr
  rw [show readRouterAddress exAddr = some (exAddr, []) by decide +kernel] at hv
  cases r with
  | none => cases hv
  | some p =>
    obtain ⟨a, rem⟩ := p
    simp only [Option.map_some, Option.some.injEq, Prod.mk.injEq] at hv
    exact ⟨a, by rw [hr, hv.2], hv.1⟩

example : ∃ i, readRouterInfoC exRI = .ok (some (i, [])) ∧ i.bytes = some exRI := by
  obtain ⟨r, hr, hv⟩ := readRouterInfoC_refines exRI
  rw [show readRouterInfo exRI = some (exRI, []) by decide +kernel] at hv
  cases r with
  | none => cases hv
  | some p =>
    obtain ⟨i, rem⟩ := p
    simp only [Option.bind_some] at hv
    cases hb : i.bytes with
    | none => rw [hb] at hv; cases hv
    | some b =>
      rw [hb] at hv
      simp only [Option.map_some, Option.some.injEq, Prod.mk.injEq] at hv
      exact ⟨i, by rw [hr, hv.2], by rw [hb, hv.1]⟩

/-! ### the guards are load-bearing

The helpers DO panic when they are called without the check their caller performs first (these are not
defects: the callers always perform the checks; the examples show the theorems above are not vacuous). -/

/-- `processNormalMappingData` without the length test of `processMappingData`: a declared size of 5 over 2
    bytes makes `remainder[:size.Int()]` exceed the capacity -/
example : ∃ e, processNormalMappingDataC {} (.ofBytes [1, 2]) (some (.ofBytes [0, 5])) [] = .error e := ⟨_, rfl⟩

/-- `processMappingData` with the nil `size` pointer that `parseMappingSize` returns on failure -/
example : processMappingDataC {} (.ofBytes [1, 2]) none [] = .error .nilDeref := rfl

/-- `logMappingCompletionDetails` on a mapping whose `vals` pointer is nil -/
example : logMappingCompletionDetailsC { size := some (.ofBytes [0, 1]) } = .error .nilDeref := rfl

/-- `parseRouterInfoSignature` with a nil identity -/
example : parseRouterInfoSignatureC none (.ofBytes []) = .error .nilDeref := rfl

/-- `parseRouterAddresses` with a nil `size` pointer -/
example : parseRouterAddressesC none (.ofBytes []) = .error .nilDeref := rfl

/-- an index expression on an empty slice (`fatal[0]`, `errs[0]`, `accumulatedErrors[0]` are all guarded by a
    length test) -/
example : getAt ([] : List MapErrC) 0 = .error .indexOOB := rfl

end I2P.Props.C04
