import I2P.Ctor
/-! # C06 — whatever the library signs it also verifies, before and after the wire

Data-flow theorems for an abstract signature scheme `C : Scheme` with the single law
`sig_correct : verify t (pub t sk) m (sign t sk m r) = true` (any randomness `r`).  Per signing constructor:

* `<s>_signs_what_verify_checks` — the byte string the constructor hands to the signer equals the byte string
  `Verify` recomputes from the constructed value (two expressions over the structure's serialised fields;
  for LeaseSet and LeaseSet2 `Verify` re-serialises the whole value and cuts the signature off by length),
* `<s>_new_verifies` — hence the constructor's output verifies under the public key of the private key used,
* `<s>_verify_depends_on_bytes` — `Verify` is a function of `Bytes()` and the signature alone, so a parser
  that returns a value with the same serialisation (C01) returns a value that verifies: the
  after-the-wire half of the property reduces to the re-serialisation theorems of C01/C11.

What the law does not cover is recorded in `known_findings.json`: D34 (the ECDSA verifier of go-i2p/crypto
cannot be constructed from an I2P-format key, i.e. that dependency does not satisfy `sig_correct`).
D06 (`NewLeaseSet2` did not call the signer at all) is repaired in /repo (c5dd9b4): `ls2NewSigned` is the
constructor; `ls2NewPlaceholder` remains for a nil key, which is outside C06. -/

namespace I2P.Props.C06
open I2P I2P.Ctor

/-- cutting `len(signature)` bytes off the end of `body ‖ signature` leaves the body -/
theorem take_body (m s : Bytes) : (m ++ s).take ((m ++ s).length - s.length) = m := by
  have : (m ++ s).length - s.length = m.length := by simp
  rw [this, List.take_left']
  rfl

/-! ## RouterInfo (`NewRouterInfo` / `VerifySignature`) -/

theorem ri_signs_what_verify_checks (C : Scheme) (p : RiParts) (sk : C.SK) (r : Bytes) :
    riVerifiedMessage (riNew C p sk r) = riSignedMessage p := rfl

theorem ri_new_verifies (C : Scheme) (p : RiParts) (sk : C.SK) (r : Bytes) :
    riVerify C (riNew C p sk r) (C.pub 7 sk) = true := by
  unfold riVerify
  rw [ri_signs_what_verify_checks]
  exact C.sig_correct 7 sk _ r

theorem ri_verify_depends_on_bytes (C : Scheme) (v v' : RiParts) (key : Bytes)
    (hb : v'.bytes = v.bytes) (hs : v'.signature = v.signature) : riVerify C v' key = riVerify C v key := by
  have hu : v'.unsigned = v.unsigned := by
    unfold RiParts.bytes at hb
    rw [hs] at hb
    exact List.append_cancel_right hb
  unfold riVerify riVerifiedMessage
  rw [hu, hs]

/-! ## LeaseSet (`NewLeaseSet` / `Verify`) -/

theorem ls_signs_what_verify_checks (C : Scheme) (t : Nat) (p : LsParts) (sk : C.SK) (r : Bytes) :
    lsVerifiedMessage (lsNew C t p sk r) = lsSignedMessage p := by
  unfold lsVerifiedMessage LsParts.bytes
  exact take_body _ _

theorem ls_new_verifies (C : Scheme) (t : Nat) (p : LsParts) (sk : C.SK) (r : Bytes) :
    lsVerify C t (lsNew C t p sk r) (C.pub t sk) = true := by
  unfold lsVerify
  rw [ls_signs_what_verify_checks]
  exact C.sig_correct t sk _ r

theorem ls_verify_depends_on_bytes (C : Scheme) (t : Nat) (v v' : LsParts) (key : Bytes)
    (hb : v'.bytes = v.bytes) (hs : v'.signature = v.signature) : lsVerify C t v' key = lsVerify C t v key := by
  unfold lsVerify lsVerifiedMessage
  rw [hb, hs]

/-! ## LeaseSet2 (`NewLeaseSet2` / `Verify`) -/

/-- The message `Verify` recomputes is the message `serializeLeaseSet2ForSigning` builds, whatever is stored
    as the signature. -/
theorem ls2_message_matches (p : Ls2Parts) (s : Bytes) :
    ls2VerifiedMessage { p with signature := s } = ls2SignedMessage p := by
  unfold ls2VerifiedMessage ls2SignedMessage Ls2Parts.bytes
  have : ({ p with signature := s } : Ls2Parts).content = p.content := rfl
  rw [this]
  show 3 :: (p.content ++ s).take ((p.content ++ s).length - s.length) = 3 :: p.content
  rw [take_body]

theorem ls2_signs_what_verify_checks (C : Scheme) (t : Nat) (p : Ls2Parts) (sk : C.SK) (r : Bytes) :
    ls2VerifiedMessage (ls2NewSigned C t p sk r) = ls2SignedMessage p :=
  ls2_message_matches p _

/-- `t` is the destination's signing type, or the transient type when an offline block is present.
    At full strength since c5dd9b4 (D06). -/
theorem ls2_new_verifies (C : Scheme) (t : Nat) (p : Ls2Parts) (sk : C.SK) (r : Bytes) :
    ls2Verify C t (ls2NewSigned C t p sk r) (C.pub t sk) = true := by
  unfold ls2Verify
  rw [ls2_signs_what_verify_checks]
  exact C.sig_correct t sk _ r

/-- a toy scheme satisfying the law: the "signature" is the message itself -/
def echo : Scheme where
  SK := Unit
  pub _ _ := []
  sign _ _ m _ := m
  verify _ _ m s := m == s
  sig_correct := by intros; simp

/-- a minimal LeaseSet2 body -/
def sampleParts : Ls2Parts :=
  { destination := [1], published := [], expires := [], flags := [], offline := [],
    options := [0, 0], keys := [], leases := [] }

/-- Outside C06 (no private key): the placeholder `NewLeaseSet2(…, nil)` stores is not a signature — a scheme
    that satisfies the law rejects it. Before c5dd9b4 this was D06: the output for every key. -/
example : ls2Verify echo 7 (ls2NewPlaceholder 64 sampleParts) (echo.pub 7 ()) = false := by
  decide

theorem ls2_verify_depends_on_bytes (C : Scheme) (t : Nat) (v v' : Ls2Parts) (key : Bytes)
    (hb : v'.bytes = v.bytes) (hs : v'.signature = v.signature) : ls2Verify C t v' key = ls2Verify C t v key := by
  unfold ls2Verify ls2VerifiedMessage
  rw [hb, hs]

/-! ## EncryptedLeaseSet (`NewEncryptedLeaseSet` / `Verify`) -/

theorem els_signs_what_verify_checks (C : Scheme) (t : Nat) (p : ElsParts) (sk : C.SK) (r : Bytes) :
    elsVerifiedMessage (elsNew C t p sk r) = elsSignedMessage p := rfl

theorem els_new_verifies (C : Scheme) (t : Nat) (p : ElsParts) (sk : C.SK) (r : Bytes) :
    elsVerify C t (elsNew C t p sk r) (C.pub t sk) = true := by
  unfold elsVerify
  rw [els_signs_what_verify_checks]
  exact C.sig_correct t sk _ r

/-! ## OfflineSignature (`CreateOfflineSignature` / `VerifySignature`) -/

theorem off_signs_what_verify_checks (C : Scheme) (dt : Nat) (p : OffParts) (sk : C.SK) (r : Bytes) :
    offVerifiedMessage (offCreate C dt p sk r) = offSignedMessage p := rfl

theorem off_create_verifies (C : Scheme) (dt : Nat) (p : OffParts) (sk : C.SK) (r : Bytes) :
    offVerify C dt (offCreate C dt p sk r) (C.pub dt sk) = true := by
  unfold offVerify
  rw [off_signs_what_verify_checks]
  exact C.sig_correct dt sk _ r

/-- With an offline block: the identity key `idsk` (type `dt`) signs the block that carries the transient
    public key, and the transient key `trsk` (type `tt`) signs the structure: both links of the chain that
    `signingPublicKeyForVerification` follows verify. -/
theorem offline_chain_verifies (C : Scheme) (dt tt : Nat) (idsk trsk : C.SK) (exp ty : Bytes) (p : ElsParts) (r₁ r₂ : Bytes) :
    let block := offCreate C dt { expires := exp, transientType := ty, transientKey := C.pub tt trsk } idsk r₁
    offVerify C dt block (C.pub dt idsk) = true ∧
    elsVerify C tt (elsNew C tt p trsk r₂) block.transientKey = true := by
  exact ⟨off_create_verifies C dt _ idsk r₁, els_new_verifies C tt p trsk r₂⟩

end I2P.Props.C06
