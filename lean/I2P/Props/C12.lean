import I2P.Proofs.DataLemmas
import I2P.Proofs.FixedLemmas
/-! # C12 — Integer, Date and String primitives are exact inverses within their domain

Property theorems only.  The model functions are the code-mirroring definitions of `I2P/Data.lean`
(tied to `/repo` by the correspondence run of `./check C12`).  Go's `int` is the range
`-2^63 ≤ v < 2^63`; that range is the explicit hypothesis `IsInt`. -/

namespace I2P.Props.C12
open I2P

/-- the values a Go `int` can hold -/
def IsInt (v : Int) : Prop := -2^63 ≤ v ∧ v < 2^63

/-- the domain on which encoding must succeed -/
def Fits (v n : Int) : Prop := 1 ≤ n ∧ n ≤ 8 ∧ 0 ≤ v ∧ v < 256 ^ n.toNat

/-- Encoding succeeds exactly on the domain, yields exactly `n` big-endian bytes, and decoding returns
    the value (through `Int()`, `IntSafe()`, `UintSafe()` and `DecodeIntN`). -/
theorem int_roundtrip (v n : Int) (hv : IsInt v) (hf : Fits v n) :
    ∃ b, newIntegerFromInt v n = some b ∧ b.length = n.toNat ∧ beVal b = v.toNat ∧
      integerInt b = v ∧ integerIntSafe b = some v ∧ integerUintSafe b = some v.toNat ∧ decodeIntN b = some v := by
  obtain ⟨h1, h8, h0, hlt⟩ := hf
  obtain ⟨m, rfl⟩ := Int.eq_ofNat_of_zero_le h0
  obtain ⟨k, rfl⟩ := Int.eq_ofNat_of_zero_le (show 0 ≤ n by omega)
  rw [Int.toNat_natCast] at hlt
  rw [Int.toNat_natCast]
  have hm63 : m < 2^63 := by have := hv.2; omega
  have hlt' : m < 256 ^ k := (castlt m k).mp hlt
  have hbv := beVal_beEnc k m hlt'
  have hl : (beEnc k m).length = k := by simp
  have hifb : intFromBytes (beEnc k m) = some (m : Int) := by
    rw [intFromBytes_small _ (by omega) (by omega) (by omega), hbv]
  refine ⟨beEnc k m, ?_, hl, hbv, ?_, ?_, ?_, ?_⟩
  · rw [newInt_nat m k (by omega) (by omega) hm63, if_pos hlt']
  · unfold integerInt; rw [hifb]; rfl
  · unfold integerIntSafe; rw [hl, if_neg (by omega), hifb]
  · unfold integerUintSafe; rw [hl, if_neg (by omega), hbv, Int.toNat_natCast]
  · unfold decodeIntN; rw [hl, if_neg (by omega), hbv, if_neg (by omega)]

/-- Values that do not fit, negative values and sizes outside 1..8 are rejected. -/
theorem int_reject (v n : Int) (hv : IsInt v) (hf : ¬ Fits v n) : newIntegerFromInt v n = none := by
  by_cases h0 : v < 0
  · unfold newIntegerFromInt; rw [if_pos h0]
  by_cases hn : n < 1 ∨ n > 8
  · unfold newIntegerFromInt; rw [if_neg h0, if_pos hn]
  obtain ⟨m, rfl⟩ := Int.eq_ofNat_of_zero_le (show 0 ≤ v by omega)
  obtain ⟨k, rfl⟩ := Int.eq_ofNat_of_zero_le (show 0 ≤ n by omega)
  have hm63 : m < 2^63 := by have := hv.2; omega
  rw [newInt_nat m k (by omega) (by omega) hm63, if_neg]
  intro hlt
  apply hf
  refine ⟨by omega, by omega, by omega, ?_⟩
  rw [Int.toNat_natCast]
  exact (castlt m k).mpr hlt

/-- The reader returns exactly the encoded bytes and the untouched rest of the stream. -/
theorem int_read_back (v n : Int) (hv : IsInt v) (hf : Fits v n) (x : Bytes) :
    ∃ b, newIntegerFromInt v n = some b ∧ readInteger (b ++ x) n = (some b, x) := by
  obtain ⟨b, hb, hl, _⟩ := int_roundtrip v n hv hf
  refine ⟨b, hb, ?_⟩
  unfold readInteger
  rw [if_neg (by have := hf.1; have := hf.2.1; omega)]
  have hk : n.toNat = b.length := hl.symm
  rw [if_neg (by simp; omega)]
  rw [hk]; simp

/-- A reader never returns a complete value for input shorter than the requested width. -/
theorem int_read_short (b : Bytes) (n : Int) (h : (b.length : Int) < n) :
    ∀ v, (readInteger b n).1 = some v → (v.length : Int) ≠ n := by
  intro v hvv
  unfold readInteger at hvv
  split at hvv
  · simp at hvv
  · split at hvv
    · simp at hvv; subst hvv; omega
    · rename_i h1 h2; omega

/-- The unsigned accessor returns the full 64-bit big-endian value for every 1..8-byte Integer
    (`beVal` is the mathematical big-endian value; it is `< 2^64` by `beVal_lt`). -/
theorem uint_full_range (b : Bytes) (h1 : 1 ≤ b.length) (h8 : b.length ≤ 8) :
    integerUintSafe b = some (beVal b) ∧ beVal b < 2^64 := by
  refine ⟨by unfold integerUintSafe; rw [if_neg (by omega)], ?_⟩
  have := beVal_lt b
  have h : (256:Nat) ^ b.length ≤ 256 ^ 8 := Nat.pow_le_pow_right (by decide) h8
  have : (256:Nat)^8 = 2^64 := by decide
  omega

/-! ### Dates -/

/-- Millisecond dates: every non-negative `int64` millisecond count is stored exactly in eight bytes;
    negative counts are rejected. -/
theorem date_roundtrip (ms : Int) (h0 : 0 ≤ ms) (h63 : ms < 2^63) :
    ∃ d, newDateFromMillis ms = some d ∧ d.length = 8 ∧ beVal d = ms.toNat ∧ dateInt d = ms := by
  obtain ⟨m, rfl⟩ := Int.eq_ofNat_of_zero_le h0
  have hm63 : m < 2^63 := by omega
  have hms : (timeUnix ((m:Int) / 1000) ((m:Int) % 1000 * 1000000)).unixMilli = (m:Int) := by
    unfold GoTime.unixMilli timeUnix
    simp only
    have hd : (m:Int) % 1000 * 1000000 / 1000000000 = 0 := by omega
    have hm : (m:Int) % 1000 * 1000000 % 1000000000 = (m:Int) % 1000 * 1000000 := by omega
    rw [hd, hm]
    have hn : (((m:Int) % 1000 * 1000000).toNat : Int) = (m:Int) % 1000 * 1000000 := Int.toNat_of_nonneg (by omega)
    rw [hn]
    have : ((m:Int) / 1000 + 0) * 1000 + (m:Int) % 1000 * 1000000 / 1000000 = (m:Int) := by omega
    rw [this, toU m (by omega), toI m hm63]
  have hb : beVal (dateFromTime (timeUnix ((m:Int) / 1000) ((m:Int) % 1000 * 1000000))) = m := by
    unfold dateFromTime
    rw [hms, toU m (by omega)]
    exact beVal_beEnc 8 _ (by have := p8; omega)
  have hl : (dateFromTime (timeUnix ((m:Int) / 1000) ((m:Int) % 1000 * 1000000))).length = 8 := by simp [dateFromTime]
  unfold newDateFromMillis
  rw [if_neg (by omega)]
  refine ⟨_, rfl, hl, by simpa using hb, ?_⟩
  unfold dateInt integerInt
  rw [intFromBytes_small _ (by omega) (by omega) (by omega), hb]
  rfl

theorem date_reject (ms : Int) (h : ms < 0) : newDateFromMillis ms = none := by
  unfold newDateFromMillis; rw [if_pos h]

/-- The date reader returns the eight bytes written and the untouched rest. -/
theorem date_read_back (d x : Bytes) (h : d.length = 8) : readDate (d ++ x) = some (d, x) := by
  unfold readDate
  rw [if_neg (by simp [h])]
  rw [← h]; simp

/-! ### Strings -/

/-- Length-prefixed strings up to 255 bytes round-trip, with the exact encoding `len :: content`. -/
theorem string_roundtrip (s x : Bytes) (h : s.length ≤ 255) :
    ∃ e, newStr s = some e ∧ e = UInt8.ofNat s.length :: s ∧
      readStr (e ++ x) = (e, x, none) ∧ strData e = s ∧ strDataOk e = true := by
  have h1 : (UInt8.ofNat s.length).toNat = s.length := by
    simp [UInt8.toNat_ofNat']; omega
  refine ⟨UInt8.ofNat s.length :: s, ?_, rfl, ?_, ?_, ?_⟩
  · unfold newStr; rw [if_neg (by omega)]
  · simp [readStr, h1]
  · simp [strData, h1]
  · simp [strDataOk, h1]

theorem string_reject (s : Bytes) (h : s.length > 255) : newStr s = none := by
  unfold newStr; rw [if_pos h]

/-- The string reader never reports success for input shorter than the declared length, and what it
    returns on success is exactly the length byte plus that many bytes, the rest being the remainder. -/
theorem string_read_sound (w s r : Bytes) (h : readStr w = (s, r, none)) :
    ∃ l rest, w = l :: rest ∧ l.toNat ≤ rest.length ∧ s = l :: rest.take l.toNat ∧ r = rest.drop l.toNat ∧ s ++ r = w := by
  unfold readStr at h
  split at h
  · simp at h
  · rename_i l rest
    split at h
    · rename_i hle
      simp at h
      obtain ⟨rfl, rfl⟩ := h
      exact ⟨l, rest, rfl, hle, rfl, rfl, by simp⟩
    · simp at h

/-! ### the fixed-width helpers (`data/encoding.go`: EncodeUint16/32/64, EncodeInt16/32/64 and their decoders) -/

/-- `DecodeUintN(EncodeUintN(v)) = v` for every value of the width, in exactly `w` bytes, big-endian
    (`Fixed.encodeUint` is by definition the big-endian `beEnc`) -/
theorem fixed_unsigned_roundtrip (w v : Nat) (h : v < 256 ^ w) :
    (Fixed.encodeUint w v).length = w ∧ Fixed.decodeUint (Fixed.encodeUint w v) = v ∧ beVal (Fixed.encodeUint w v) = v :=
  ⟨Fixed.encodeUint_length w v, Fixed.decode_encodeUint w v h, Fixed.decode_encodeUint w v h⟩

/-- every `w`-byte array is the encoding of the value it decodes to (no two arrays decode alike) -/
theorem fixed_unsigned_decode_encode (b : Bytes) :
    Fixed.encodeUint b.length (Fixed.decodeUint b) = b ∧ Fixed.decodeUint b < 256 ^ b.length :=
  ⟨Fixed.encode_decodeUint b, Fixed.decodeUint_lt b⟩

/-- the signed helpers are exact inverses on the whole two's-complement range −2^(8w−1) … 2^(8w−1)−1 -/
theorem fixed_signed_roundtrip (w : Nat) (v : Int)
    (hlo : -((256 ^ w : Nat) : Int) ≤ 2 * v) (hhi : 2 * v < ((256 ^ w : Nat) : Int)) :
    (Fixed.encodeInt w v).length = w ∧ Fixed.decodeInt (Fixed.encodeInt w v) = v :=
  ⟨Fixed.encodeUint_length w _, Fixed.decode_encodeInt w v hlo hhi⟩

/-- … and in the other direction, with the decoded value inside that range -/
theorem fixed_signed_decode_encode (b : Bytes) :
    Fixed.encodeInt b.length (Fixed.decodeInt b) = b ∧
    -((256 ^ b.length : Nat) : Int) ≤ 2 * Fixed.decodeInt b ∧ 2 * Fixed.decodeInt b < ((256 ^ b.length : Nat) : Int) :=
  ⟨Fixed.encode_decodeInt b, Fixed.decodeInt_range b⟩

/-- non-vacuity and the documented examples of `data/encoding.go` -/
example : Fixed.encodeUint 2 1234 = [4, 210] ∧ Fixed.encodeUint 4 123456 = [0, 1, 226, 64] ∧
    Fixed.decodeInt [251, 46] = -1234 ∧ Fixed.decodeInt [255, 254, 29, 192] = -123456 ∧
    Fixed.decodeUint [0x80, 0, 0, 0, 0, 0, 0, 0] = 2 ^ 63 ∧ Fixed.encodeInt 8 (-1) = [255, 255, 255, 255, 255, 255, 255, 255] := by
  decide

end I2P.Props.C12
