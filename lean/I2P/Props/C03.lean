import I2P.Proofs.KacLemmas
import I2P.Proofs.MappingLemmas
/-! # C03 — stream framing: consumed ++ remainder = input; appended bytes change nothing; no proper prefix parses

(a) is the `_consumed` family of `Props/C01.lean`; here: (b) append-stability and (c) no accepted proper prefix,
per parser of the code-mirroring model. Composite structures are in `Props/C03S.lean`. -/
namespace I2P.Props.C03
open I2P
open I2P.Kac
open I2P.Mapping

/-- ReadCertificate (b) -/
theorem certificate_append :
    ∀ {w : Bytes} {c : Cert} {r : Bytes},
      readCert w = some (c, r) →
        ∀ (x : Bytes),
          ∃ c',
            readCert (w ++ x) = some (c', r ++ x) ∧
              c'.bytes = c.bytes ∧ c'.kind = c.kind ∧ c'.len = c.len ∧ c'.data = c.data :=
  @I2P.Kac.readCert_append

/-- ReadCertificate (c) -/
theorem certificate_no_prefix :
    ∀ {w : Bytes} {c : Cert},
      readCert w = some (c, []) → ∀ (k : Nat), k < List.length w → readCert (List.take k w) = none :=
  @I2P.Kac.readCert_no_prefix

/-- NewKeyCertificate (b) -/
theorem key_certificate_append :
    ∀ {w : Bytes} {kc : KeyCert} {r : Bytes},
      newKeyCert w = some (kc, r) →
        ∀ (x : Bytes),
          ∃ kc',
            newKeyCert (w ++ x) = some (kc', r ++ x) ∧
              kc'.cert.bytes = kc.cert.bytes ∧
                kc'.cert.kind = kc.cert.kind ∧
                  kc'.cert.len = kc.cert.len ∧ kc'.cert.data = kc.cert.data ∧ kc'.spk = kc.spk ∧ kc'.cpk = kc.cpk :=
  @I2P.Kac.newKeyCert_append

/-- NewKeyCertificate (c) -/
theorem key_certificate_no_prefix :
    ∀ {w : Bytes} {kc : KeyCert},
      newKeyCert w = some (kc, []) → ∀ (k : Nat), k < List.length w → newKeyCert (List.take k w) = none :=
  @I2P.Kac.newKeyCert_no_prefix

/-- ReadKeysAndCert (b) -/
theorem keys_and_cert_append :
    ∀ {w : Bytes} {k : KeysAndCert} {r : Bytes},
      readKac w = some (k, r) →
        ∀ (x : Bytes),
          ∃ k',
            readKac (w ++ x) = some (k', r ++ x) ∧
              k'.bytes = k.bytes ∧
                k'.pub = k.pub ∧ k'.padding = k.padding ∧ k'.sig = k.sig ∧ k'.kc.spk = k.kc.spk ∧ k'.kc.cpk = k.kc.cpk :=
  @I2P.Kac.readKac_append

/-- ReadKeysAndCert (c) -/
theorem keys_and_cert_no_prefix :
    ∀ {w : Bytes} {k : KeysAndCert},
      readKac w = some (k, []) → ∀ (n : Nat), n < List.length w → readKac (List.take n w) = none :=
  @I2P.Kac.readKac_no_prefix

/-- ReadKeysAndCertElgAndEd25519 (b) -/
theorem keys_and_cert_elg_append :
    ∀ {w : Bytes} {k : KeysAndCert} {r : Bytes},
      readKacFast 0 w = some (k, r) →
        ∀ (x : Bytes),
          ∃ k',
            readKacFast 0 (w ++ x) = some (k', r ++ x) ∧
              k'.bytes = k.bytes ∧
                k'.pub = k.pub ∧ k'.padding = k.padding ∧ k'.sig = k.sig ∧ k'.kc.spk = k.kc.spk ∧ k'.kc.cpk = k.kc.cpk :=
  @I2P.Kac.readKacFast0_append

/-- ReadKeysAndCertElgAndEd25519 (c) -/
theorem keys_and_cert_elg_no_prefix :
    ∀ {w : Bytes} {k : KeysAndCert},
      readKacFast 0 w = some (k, []) → ∀ (n : Nat), n < List.length w → readKacFast 0 (List.take n w) = none :=
  @I2P.Kac.readKacFast0_no_prefix

/-- ReadKeysAndCertX25519AndEd25519 (b) -/
theorem keys_and_cert_x25519_append :
    ∀ {w : Bytes} {k : KeysAndCert} {r : Bytes},
      readKacFast 4 w = some (k, r) →
        ∀ (x : Bytes),
          ∃ k',
            readKacFast 4 (w ++ x) = some (k', r ++ x) ∧
              k'.bytes = k.bytes ∧
                k'.pub = k.pub ∧ k'.padding = k.padding ∧ k'.sig = k.sig ∧ k'.kc.spk = k.kc.spk ∧ k'.kc.cpk = k.kc.cpk :=
  @I2P.Kac.readKacFast4_append

/-- ReadKeysAndCertX25519AndEd25519 (c) -/
theorem keys_and_cert_x25519_no_prefix :
    ∀ {w : Bytes} {k : KeysAndCert},
      readKacFast 4 w = some (k, []) → ∀ (n : Nat), n < List.length w → readKacFast 4 (List.take n w) = none :=
  @I2P.Kac.readKacFast4_no_prefix

/-- ReadDestination (b) -/
theorem destination_append :
    ∀ {w : Bytes} {k : KeysAndCert} {r : Bytes},
      readDestination w = some (k, r) →
        ∀ (x : Bytes),
          ∃ k',
            readDestination (w ++ x) = some (k', r ++ x) ∧
              k'.bytes = k.bytes ∧
                k'.pub = k.pub ∧ k'.padding = k.padding ∧ k'.sig = k.sig ∧ k'.kc.spk = k.kc.spk ∧ k'.kc.cpk = k.kc.cpk :=
  @I2P.Kac.readDestination_append

/-- ReadDestination (c) -/
theorem destination_no_prefix :
    ∀ {w : Bytes} {k : KeysAndCert},
      readDestination w = some (k, []) → ∀ (n : Nat), n < List.length w → readDestination (List.take n w) = none :=
  @I2P.Kac.readDestination_no_prefix

/-- ReadRouterIdentity (b) -/
theorem router_identity_append :
    ∀ {w : Bytes} {k : KeysAndCert} {r : Bytes},
      readRouterIdentity w = some (k, r) →
        ∀ (x : Bytes),
          ∃ k',
            readRouterIdentity (w ++ x) = some (k', r ++ x) ∧
              k'.bytes = k.bytes ∧
                k'.pub = k.pub ∧ k'.padding = k.padding ∧ k'.sig = k.sig ∧ k'.kc.spk = k.kc.spk ∧ k'.kc.cpk = k.kc.cpk :=
  @I2P.Kac.readRouterIdentity_append

/-- ReadRouterIdentity (c) -/
theorem router_identity_no_prefix :
    ∀ {w : Bytes} {k : KeysAndCert},
      readRouterIdentity w = some (k, []) → ∀ (n : Nat), n < List.length w → readRouterIdentity (List.take n w) = none :=
  @I2P.Kac.readRouterIdentity_no_prefix

/-- ReadMapping (b) -/
theorem mapping_append :
    ∀ (w : Bytes),
      accepted (readMapping w) = true →
        ∀ (x : Bytes),
          (readMapping (w ++ x)).vals = (readMapping w).vals ∧
            (readMapping (w ++ x)).rem = (readMapping w).rem ++ x ∧ accepted (readMapping (w ++ x)) = true :=
  @I2P.Mapping.accepted_append

/-- ReadMapping (a) -/
theorem mapping_suffix :
    ∀ (w : Bytes),
      accepted (readMapping w) = true → ∃ c, w = c ++ (readMapping w).rem ∧ data (readMapping w) = some c :=
  @I2P.Mapping.accepted_reserialise

end I2P.Props.C03
