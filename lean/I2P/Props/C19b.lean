import I2P.Proofs.TwinLemmas
/-! # C19b — the separately written twin entry points agree (model half, second slice)

Each family: side A accepts ⇔ side B accepts *within the domain the Go code itself states* (an explicit
hypothesis), and then value and remainder are equal; the other branch of every domain restriction is
proved too.  Where the two sides genuinely disagree in /repo today the model is kept faithful and the
disagreement is a separate `…_differs` theorem with a concrete witness.

Model: `I2P/Twins.lean` (+ the existing models it names); tied to /repo by the `tw*` driver ops
(`I2P/Driver/TwinOps.lean` ↔ `harness/ops_twin.go`, suite `TWIN`). -/
namespace I2P.Props.C19b
open I2P I2P.Spec I2P.Kac I2P.Structs I2P.Twins

/-! ### pointer- versus value-returning readers
`NewSignature`, `NewDate`, `NewLeaseFromBytes`, `NewLease2FromBytes`, `NewSessionKey`, `NewSessionTag`,
`NewECIESSessionTag`, `NewMapping`: call the reader, take the address. -/

/-- `signature.NewSignature` = `signature.ReadSignature`: same acceptance, value, remainder -/
theorem signature_new_eq_read (d : Bytes) (t : Int) : newSignature d t = readSignature d t := ptrOf_eq _

/-- `data.NewDate` = `data.ReadDate` -/
theorem date_new_eq_read (d : Bytes) : newDate d = readDate d := ptrOf_eq _

/-- `lease.NewLeaseFromBytes` = `lease.ReadLease`; `lease.NewLease2FromBytes` = `lease.ReadLease2` -/
theorem lease_new_eq_read (d : Bytes) :
    newLeaseFromBytes d = readFixedN 44 d ∧ newLease2FromBytes d = readFixedN 40 d := ⟨ptrOf_eq _, ptrOf_eq _⟩

/-- `session_key.NewSessionKey` = `ReadSessionKey`; `session_tag.NewSessionTag` = `ReadSessionTag`;
    `session_tag.NewECIESSessionTag` = `ReadECIESSessionTag` -/
theorem session_new_eq_read (d : Bytes) :
    newSessionKey d = readSessionKey d ∧ newSessionTag d = readSessionTag d ∧
      newECIESSessionTag d = readECIESSessionTag d := ⟨ptrOf_eq _, ptrOf_eq _, ptrOf_eq _⟩

/-- `data.NewMapping` = `data.ReadMapping` (values, remainder and error list) -/
theorem mapping_new_eq_read (d : Bytes) : newMapping d = Mapping.readMapping d := rfl

/-! ### 1. the three signature constructors -/

/-- `ReadSignature` as written (own length lookup, then a fixed-size read) is the reader model used everywhere else -/
theorem signature_read_as_written (d : Bytes) (t : Int) :
    readSignature d t = match getSignatureLength t with | none => none | some n => readFixedN n d :=
  readSignature_eq d t

/-- All three constructors reject the same type codes (negative, above 65535, reserved, unknown) on every input. -/
theorem signature_same_types (d : Bytes) (t : Int) (h : getSignatureLength t = none) :
    readSignature d t = none ∧ newSignature d t = none ∧ newSignatureFromBytes d t = none := by
  have hr : readSignature d t = none := by rw [readSignature_eq, h]
  refine ⟨hr, by rw [signature_new_eq_read, hr], by rw [newSignatureFromBytes_eq, h]⟩

/-- `NewSignatureFromBytes` requires the exact length: it accepts exactly the inputs `ReadSignature` consumes
    completely, and returns the same signature bytes. -/
theorem signature_fromBytes_iff_read (d s : Bytes) (t : Int) :
    newSignatureFromBytes d t = some s ↔ readSignature d t = some (s, []) := by
  rw [newSignatureFromBytes_eq, readSignature_eq]
  cases getSignatureLength t with
  | none => simp
  | some n => exact setBytes_iff_readFixedN n d s

/-- The other branch: `ReadSignature` also accepts a longer buffer and returns the rest; `NewSignatureFromBytes`
    rejects that buffer, and on the consumed prefix returns the same signature. -/
theorem signature_read_longer (d s r : Bytes) (t : Int) (h : readSignature d t = some (s, r)) (hr : r ≠ []) :
    newSignatureFromBytes d t = none ∧ newSignatureFromBytes s t = some s := by
  rw [readSignature_eq] at h
  rw [newSignatureFromBytes_eq, newSignatureFromBytes_eq]
  cases hg : getSignatureLength t with
  | none => rw [hg] at h; cases h
  | some n => rw [hg] at h; exact readFixedN_longer n d s r h hr

/-- Too short for the type: all three reject. -/
theorem signature_short (d : Bytes) (t : Int) (n : Nat) (hg : getSignatureLength t = some n) (h : d.length < n) :
    readSignature d t = none ∧ newSignature d t = none ∧ newSignatureFromBytes d t = none := by
  have hr : readSignature d t = none := by rw [readSignature_eq, hg]; exact (readFixedN_short n d h).1
  exact ⟨hr, by rw [signature_new_eq_read, hr], by rw [newSignatureFromBytes_eq, hg]; exact (readFixedN_short n d h).2⟩

example : ∃ d s, newSignatureFromBytes d 7 = some s ∧ readSignature d 7 = some (s, []) :=
  ⟨List.replicate 64 1, List.replicate 64 1, by decide, by decide⟩
example : ∃ d s r, readSignature d 0 = some (s, r) ∧ r ≠ [] :=
  ⟨List.replicate 41 1, List.replicate 40 1, [1], by decide, by decide⟩
example : getSignatureLength 9 = none ∧ getSignatureLength (-1) = none ∧ getSignatureLength 65536 = none := by decide

/-! ### 2. strings -/

/-- `data.ToI2PString` and `data.NewI2PString` accept the same contents (≤ 255 bytes) and build the same bytes. -/
theorem string_to_eq_new (c : Bytes) : toI2PString c = newStr c := toI2PString_eq_newStr c

/-- `data.NewI2PStringFromBytes` accepts exactly the inputs `data.ReadI2PString` reads without error and without
    remainder, and returns the same string. -/
theorem string_fromBytes_iff_read (d s : Bytes) : newStrFromBytes d = some s ↔ readStr d = (s, [], none) :=
  newStrFromBytes_iff_readStr d s

/-- The other branch: `ReadI2PString` accepts bytes after the string and returns them; `NewI2PStringFromBytes`
    rejects that buffer, and on the consumed prefix returns the same string. -/
theorem string_read_longer (d s r : Bytes) (h : readStr d = (s, r, none)) (hr : r ≠ []) :
    newStrFromBytes d = none ∧ newStrFromBytes s = some s := readStr_longer d s r h hr

example : ∃ d s, newStrFromBytes d = some s ∧ readStr d = (s, [], none) := ⟨[2, 65, 66], [2, 65, 66], by decide, by decide⟩
example : ∃ d s r, readStr d = (s, r, none) ∧ r ≠ [] := ⟨[1, 65, 66], [1, 65], [66], by decide, by decide⟩

/-! ### 3. integers -/

/-- `data.EncodeIntN` and `data.NewIntegerFromInt`: same rejections (negative value, size outside 1..8, value too
    wide), same bytes. -/
theorem int_encodeIntN_eq_new (v n : Int) : encodeIntN v n = newIntegerFromInt v n := encodeIntN_eq_newIntegerFromInt v n

/-- `data.EncodeUint16/32/64` (after Go's `uint16/32/64(v)` conversion) give the bytes `NewIntegerFromInt(v, 2/4/8)`
    gives whenever the latter accepts (the fixed-width helpers cannot fail: outside that domain they truncate). -/
theorem int_encodeUintN_eq_new (v : Int) (k : Nat) (b : Bytes) (hk : k = 2 ∨ k = 4 ∨ k = 8)
    (h : newIntegerFromInt v (k : Int) = some b) : encodeUintN v k = some b :=
  encodeUintN_of_newIntegerFromInt hk h

/-- The other branch of the fixed-width domain: a value too wide is refused by `NewIntegerFromInt` and silently
    truncated by the helper (witness 65536 at width 2). -/
theorem int_encodeUintN_truncates : newIntegerFromInt 65536 2 = none ∧ encodeUintN 65536 2 = some [0, 0] := by decide

/-- `data.DecodeIntN` and `Integer.IntSafe` agree on every byte string whose value is below 2^63 — and on every
    string of a size outside 1..8 (both refuse). -/
theorem int_decodeIntN_eq_intSafe (b : Bytes) (h : b.length ≤ 8 → beVal b < 2 ^ 63) : decodeIntN b = integerIntSafe b :=
  decodeIntN_eq_intSafe b h

/-- The other branch, exactly: eight bytes with the top bit set. `DecodeIntN` refuses ("exceeds maximum int"),
    `IntSafe` accepts and returns the value wrapped to a negative `int`. -/
theorem int_decodeIntN_intSafe_high (b : Bytes) (h8 : b.length = 8) (h : 2 ^ 63 ≤ beVal b) :
    decodeIntN b = none ∧ integerIntSafe b = some ((beVal b : Int) - 2 ^ 64) := decodeIntN_intSafe_high b h8 h

/-- DISAGREEMENT in /repo today (confirmed on the real code by `twIntDec ffffffffffffffff`): the two decoders do
    not accept the same inputs. -/
theorem int_decodeIntN_intSafe_differs :
    decodeIntN [0xff, 0xff, 0xff, 0xff, 0xff, 0xff, 0xff, 0xff] = none ∧
    integerIntSafe [0xff, 0xff, 0xff, 0xff, 0xff, 0xff, 0xff, 0xff] = some (-1) := by
  have h := decodeIntN_intSafe_high [0xff, 0xff, 0xff, 0xff, 0xff, 0xff, 0xff, 0xff] rfl (by decide)
  refine ⟨h.1, ?_⟩
  rw [h.2]
  decide

example : ∃ b : Bytes, b.length ≤ 8 ∧ beVal b < 2 ^ 63 ∧ decodeIntN b = some 258 := ⟨[1, 2], by decide, by decide, by decide⟩

/-! ### 4. dates -/

/-- `data.NewDateFromUnix(s)` and `data.NewDateFromMillis(s*1000)` on the domain `NewDateFromUnix` states
    (0 ≤ s ≤ MaxInt64/1000, where `s*1000` does not overflow): same acceptance, same eight bytes. -/
theorem date_unix_eq_millis (s : Int) (h0 : 0 ≤ s) (hmax : s ≤ (2 ^ 63 - 1) / 1000) :
    newDateFromUnix s = newDateFromMillis (s * 1000) := newDateFromUnix_eq_millis s h0 hmax

/-- negative seconds: both refuse -/
theorem date_unix_millis_negative (s : Int) (h : s < 0) : newDateFromUnix s = none ∧ newDateFromMillis (s * 1000) = none := by
  unfold newDateFromUnix newDateFromMillis
  rw [if_pos h, if_pos (by omega)]
  exact ⟨rfl, rfl⟩

/-- `NewDateFromUnix` accepts exactly its stated domain -/
theorem date_unix_domain (s : Int) : (newDateFromUnix s).isSome ↔ (0 ≤ s ∧ s ≤ (2 ^ 63 - 1) / 1000) :=
  newDateFromUnix_isSome s

/-- `data.NewDateFromMillis(ms)` and `data.DateFromTime(time.UnixMilli(ms))` for the non-negative counts
    `NewDateFromMillis` accepts: the same eight bytes (`DateFromTime` cannot fail). -/
theorem date_millis_eq_fromTime (ms : Int) (h0 : 0 ≤ ms) :
    newDateFromMillis ms = some (dateFromTime (Time.timeUnixMilli ms)) := newDateFromMillis_eq_fromTime ms h0

/-- The other branch: a negative count is refused by `NewDateFromMillis`, while `DateFromTime` (which has no error
    path) stores its two's complement. -/
theorem date_millis_negative (ms : Int) (h : ms < 0) : newDateFromMillis ms = none := by
  unfold newDateFromMillis; rw [if_pos h]

example : ∃ s : Int, 0 ≤ s ∧ s ≤ (2 ^ 63 - 1) / 1000 ∧ (newDateFromUnix s).isSome :=
  ⟨1700000000, by decide, by decide, (date_unix_domain _).2 ⟨by decide, by decide⟩⟩

/-! ### 5. hash -/

/-- `data.ReadHash` as written is the fixed-size read of 32 bytes -/
theorem hash_read_as_written (d : Bytes) : readHash d = readFixedN 32 d := rfl

/-- `data.NewHashFromSlice` accepts exactly the inputs `data.ReadHash` consumes completely; same hash. -/
theorem hash_fromSlice_iff_read (d h : Bytes) : newHashFromSlice d = some h ↔ readHash d = some (h, []) :=
  setBytes_iff_readFixedN 32 d h

/-- The other branch: a longer buffer is read (rest returned) by `ReadHash`, refused by `NewHashFromSlice`; on the
    consumed prefix the values agree. -/
theorem hash_read_longer (d h r : Bytes) (hr : readHash d = some (h, r)) (hne : r ≠ []) :
    newHashFromSlice d = none ∧ newHashFromSlice h = some h := readFixedN_longer 32 d h r hr hne

example : ∃ d h, newHashFromSlice d = some h := ⟨List.replicate 32 7, List.replicate 32 7, by decide⟩

/-! ### 8. session tags -/

/-- `session_tag.NewSessionTagFromBytes` (zero value + `SetBytes`) accepts exactly what `ReadSessionTag` consumes
    completely; same tag. -/
theorem sessionTag_fromBytes_iff_read (d s : Bytes) : newSessionTagFromBytes d = some s ↔ readSessionTag d = some (s, []) :=
  setBytes_iff_readFixedN 32 d s

theorem sessionTag_read_longer (d s r : Bytes) (h : readSessionTag d = some (s, r)) (hr : r ≠ []) :
    newSessionTagFromBytes d = none ∧ newSessionTagFromBytes s = some s := readFixedN_longer 32 d s r h hr

/-- `session_tag.ReadECIESSessionTag` — length check, then `NewECIESSessionTagFromBytes` on the first eight bytes —
    never fails in that inner call: it is the plain fixed-size read. -/
theorem eciesTag_read_as_written (d : Bytes) : readECIESSessionTag d = readFixedN 8 d := readECIESSessionTag_eq d

/-- `session_tag.NewECIESSessionTagFromBytes` accepts exactly what `ReadECIESSessionTag` consumes completely. -/
theorem eciesTag_fromBytes_iff_read (d s : Bytes) :
    newECIESSessionTagFromBytes d = some s ↔ readECIESSessionTag d = some (s, []) := by
  rw [readECIESSessionTag_eq]; exact setBytes_iff_readFixedN 8 d s

theorem eciesTag_read_longer (d s r : Bytes) (h : readECIESSessionTag d = some (s, r)) (hr : r ≠ []) :
    newECIESSessionTagFromBytes d = none ∧ newECIESSessionTagFromBytes s = some s := by
  rw [readECIESSessionTag_eq] at h; exact readFixedN_longer 8 d s r h hr

/-- `session_key.ReadSessionKey` and `session_tag.ReadSessionTag` are the same 32-byte read -/
theorem sessionKey_read_as_written (d : Bytes) : readSessionKey d = readFixedN 32 d ∧ readSessionTag d = readFixedN 32 d :=
  ⟨rfl, rfl⟩

example : ∃ d s, newECIESSessionTagFromBytes d = some s := ⟨List.replicate 8 7, List.replicate 8 7, by decide⟩

/-! ### 9. certificate builder versus direct constructors -/

/-- **Any** sequence of `WithType` / `WithPayload` / `WithKeyTypes` calls (rejected calls leave the builder
    unchanged), then `Build()`: accepted exactly when the direct constructors accept the configuration the calls
    describe (`CertBuilder.direct`: `NewCertificateWithType` on the type last set and the explicit payload or the
    `BuildKeyTypePayload` payload, whichever was set last), and then the same certificate. -/
theorem builder_eq_direct (steps : List Step) :
    (newCertBuilder.run steps).build = (newCertBuilder.run steps).direct :=
  build_eq_direct_of_inv (inv_run steps inv_new)

/-- `NewCertificateWithType(t, p)` ↔ `builder.WithType(t).WithPayload(p).Build()` -/
theorem builder_type_payload (t : Nat) (p : Bytes) (cb : CertBuilder) (h : newCertBuilder.withType t = some cb) :
    (cb.withPayload p).build = newCertWithType t p := by
  have hi := inv_withPayload (inv_withType inv_new h) p
  rw [build_eq_direct_of_inv hi]
  unfold CertBuilder.withType at h
  by_cases ht : isValidCertType t = true
  · simp only [ht, Bool.not_true, Bool.false_eq_true, if_false, Option.some.injEq] at h
    subst h
    rfl
  · simp only [ht, Bool.not_false] at h
    simp at h

/-- …and a type `WithType` refuses, `NewCertificateWithType` refuses with every payload. -/
theorem builder_type_rejected (t : Nat) (p : Bytes) (h : newCertBuilder.withType t = none) : newCertWithType t p = none := by
  unfold CertBuilder.withType at h
  by_cases ht : isValidCertType t = true
  · simp [ht] at h
  · have : t > 5 := by
      match t with
      | 0 | 1 | 2 | 3 | 4 | 5 => simp [isValidCertType] at ht
      | k + 6 => omega
    unfold newCertWithType
    rw [if_pos this]

/-- `builder.WithKeyTypes(s, c)` and `certificate.BuildKeyTypePayload(s, c)` state the same domain. -/
theorem builder_keyTypes_iff_payload (s c : Int) :
    (newCertBuilder.withKeyTypes s c).isSome ↔ (buildKeyTypePayload s c).isSome := by
  unfold CertBuilder.withKeyTypes buildKeyTypePayload
  by_cases h1 : s < 0
  · simp [h1]
  · by_cases h2 : c < 0
    · simp [h1, h2]
    · by_cases h3 : s > 65535
      · simp [h1, h2, h3]
      · by_cases h4 : c > 65535
        · simp [h1, h2, h3, h4]
        · simp [h1, h2, h3, h4]

/-- `builder.WithKeyTypes(s, c).Build()` = `NewCertificateWithType(KEY, BuildKeyTypePayload(s, c))` -/
theorem builder_keyTypes_build (s c : Int) (cb : CertBuilder) (h : newCertBuilder.withKeyTypes s c = some cb) :
    ∃ pl, buildKeyTypePayload s c = some pl ∧ cb.build = newCertWithType 5 pl := by
  have hi := inv_withKeyTypes inv_new h
  obtain ⟨a1, a2, b1, b2, rfl⟩ := withKeyTypes_some h
  refine ⟨_, buildKeyTypePayload_of_range a1 a2 b1 b2, ?_⟩
  rw [build_eq_direct_of_inv hi]
  simp [CertBuilder.direct, buildKeyTypePayload_of_range a1 a2 b1 b2]

/-- `key_certificate.NewKeyCertificateWithTypes(s, c)` within the key types it states (implemented or experimental
    codes): the builder accepts the same pair and builds the same certificate, which declares exactly (s, c). -/
theorem keyCert_withTypes_eq_builder (s c : Int) (kc : KeyCert) (h : newKeyCertWithTypes s c = some kc) :
    ∃ cb, newCertBuilder.withKeyTypes s c = some cb ∧ cb.build = some kc.cert ∧
      (kc.spk : Int) = s ∧ (kc.cpk : Int) = c := by
  cases hs : validSigningType s with
  | false => rw [newKeyCertWithTypes_invalid s c (Or.inl hs)] at h; cases h
  | true =>
    cases hc : validCryptoType c with
    | false => rw [newKeyCertWithTypes_invalid s c (Or.inr hc)] at h; cases h
    | true =>
      rw [newKeyCertWithTypes_valid s c hs hc] at h
      cases h
      obtain ⟨s0, s1⟩ := validSigningType_range hs
      obtain ⟨c0, c1⟩ := validCryptoType_range hc
      have hk : newCertBuilder.withKeyTypes s c =
          some { newCertBuilder with certType := 5, signingType := some s, cryptoType := some c, payloadSet := false } := by
        unfold CertBuilder.withKeyTypes
        rw [if_neg (by omega), if_neg (by omega), if_neg (by omega), if_neg (by omega)]
      obtain ⟨pl, hpl, hb⟩ := builder_keyTypes_build s c _ hk
      rw [buildKeyTypePayload_of_range s0 s1 c0 c1] at hpl
      cases hpl
      refine ⟨_, hk, ?_, ?_, ?_⟩
      · rw [hb, newCertWithType_key _ (by simp [putUint16_length])]
      · show ((s.toNat : Nat) : Int) = s
        omega
      · show ((c.toNat : Nat) : Int) = c
        omega

/-- …and it accepts every pair within those stated key types, and only those. -/
theorem keyCert_withTypes_accepts_iff (s c : Int) :
    (newKeyCertWithTypes s c).isSome ↔ (validSigningType s = true ∧ validCryptoType c = true) := by
  constructor
  · intro h
    cases hs : validSigningType s with
    | false => rw [newKeyCertWithTypes_invalid s c (Or.inl hs)] at h; cases h
    | true =>
      cases hc : validCryptoType c with
      | false => rw [newKeyCertWithTypes_invalid s c (Or.inr hc)] at h; cases h
      | true => exact ⟨rfl, rfl⟩
  · intro ⟨hs, hc⟩
    rw [newKeyCertWithTypes_valid s c hs hc]; rfl

/-- The other branch of that domain: outside the implemented/experimental codes (witness: the reserved GOST code 9)
    `NewKeyCertificateWithTypes` refuses while the builder and `BuildKeyTypePayload`, whose stated domain is the
    whole 0..65535 range, accept. -/
theorem keyCert_withTypes_builder_domain_differs :
    newKeyCertWithTypes 9 4 = none ∧ (buildKeyTypePayload 9 4).isSome ∧
      ∃ cb, newCertBuilder.withKeyTypes 9 4 = some cb ∧ cb.build.isSome := by
  refine ⟨by decide, by decide, _, rfl, by decide⟩

example : ∃ kc, newKeyCertWithTypes 7 4 = some kc := by
  have := (keyCert_withTypes_accepts_iff 7 4).2 ⟨by decide, by decide⟩
  exact Option.isSome_iff_exists.mp this
example : ∃ cb, newCertBuilder.withType 3 = some cb := ⟨_, rfl⟩
example : ∃ cb, newCertBuilder.withKeyTypes 7 4 = some cb := ⟨_, rfl⟩

end I2P.Props.C19b
