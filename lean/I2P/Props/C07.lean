import I2P.Identity
import I2P.Proofs.KacLemmas
import I2P.Proofs.BaseLemmas
import I2P.Props.C13
/-! # C07 — identity hashes and addresses are pure functions of the identity's wire bytes

SHA-256 is a parameter `H` with 32-byte output; nothing else is assumed about it.  Collision resistance is
*not* assumed by any theorem: `byte_sensitivity` shows that a change to any key, padding or certificate byte
changes the serialisation, which is all a hash function can be asked to see. -/
namespace I2P.Props.C07
open I2P I2P.Kac I2P.Identity I2P.Base

private theorem enc32_eq_nopad_pads : ∀ x : Bytes, ∃ n, enc32Core true x = enc32Core false x ++ List.replicate n padChar
  | [] => ⟨0, rfl⟩
  | [_] => ⟨6, by simp [enc32Core, pads]⟩
  | [_, _] => ⟨4, by simp [enc32Core, pads]⟩
  | [_, _, _] => ⟨3, by simp [enc32Core, pads]⟩
  | [_, _, _, _] => ⟨1, by simp [enc32Core, pads]⟩
  | _ :: _ :: _ :: _ :: _ :: rest => by
    obtain ⟨n, h⟩ := enc32_eq_nopad_pads rest
    exact ⟨n, by simp [enc32Core, h]⟩

private theorem dropWhile_replicate_append (n : Nat) (l : Bytes) (h : ∀ c ∈ l, c ≠ padChar) :
    (List.replicate n padChar ++ l.reverse).dropWhile (· == padChar) = l.reverse := by
  induction n with
  | zero =>
    simp only [List.replicate_zero, List.nil_append]
    cases hl : l.reverse with
    | nil => rfl
    | cons a t =>
      have ha : a ∈ l := by
        have : a ∈ l.reverse := by rw [hl]; simp
        simpa using this
      have hne := h a ha
      have hb : (a == padChar) = false := by simpa using hne
      simp [List.dropWhile, hb]
  | succ n ih =>
    simp only [List.replicate_succ, List.cons_append, List.dropWhile_cons, beq_self_eq_true, if_true]
    exact ih

/-- trimming the padding of the padded encoding gives exactly the unpadded encoding -/
theorem trimPad_enc32 (x : Bytes) : trimPad (enc32 x) = enc32NoPad x := by
  obtain ⟨n, h⟩ := enc32_eq_nopad_pads x
  have hno : ∀ c ∈ enc32NoPad x, c ≠ padChar := by
    intro c hc heq
    have hmem := C13.b32_nopad_output_alphabet x c hc
    have := C13.alphabets_exclude_special
    subst heq
    revert hmem
    decide
  unfold trimPad enc32
  rw [h, List.reverse_append, List.reverse_replicate]
  have := dropWhile_replicate_append n (enc32Core false x) hno
  rw [this, List.reverse_reverse]
  rfl

/-- `Hash()` is `H` of exactly the serialised bytes; the address is the unpadded I2P base32 of that hash
    followed by `.b32.i2p`, 60 characters long; `Base64()` decodes back to the same bytes. -/
theorem hash_and_addresses (H : Bytes → Bytes) (hH : ∀ x, (H x).length = 32) (k : KeysAndCert) (b : Bytes)
    (hb : k.bytes = some b) :
    Identity.hash H k = some (H b) ∧
    base32Address H k = some (enc32NoPad (H b) ++ suffix) ∧
    (enc32NoPad (H b) ++ suffix).length = 60 ∧
    (∃ e, base64 k = some e ∧ dec64 e = some b) := by
  refine ⟨by simp [Identity.hash, hb], by simp [base32Address, hb, trimPad_enc32], ?_, ?_⟩
  · have := enc32Core_length false (H b)
    simp only [enc32NoPad, List.length_append, this, hH, suffix]
    decide
  · exact ⟨enc64 b, by simp [base64, hb], C13.b64_roundtrip b⟩

/-- Two identities compare equal exactly when their serialisations are equal. -/
theorem equals_iff (a b : KeysAndCert) (x y : Bytes) (ha : a.bytes = some x) (hb : b.bytes = some y) :
    equals a b = true ↔ x = y := by
  simp [equals, ha, hb]

/-- The serialisation determines every field: two accepted identities with the same bytes have the same
    encryption key, padding, signing key, certificate bytes and declared types — so changing any key,
    padding or certificate byte changes the bytes that are hashed. -/
theorem byte_sensitivity {w₁ w₂ : Bytes} {k₁ k₂ : KeysAndCert} {r₁ r₂ : Bytes}
    (h₁ : readKac w₁ = some (k₁, r₁)) (h₂ : readKac w₂ = some (k₂, r₂)) (hb : k₁.bytes = k₂.bytes) :
    k₁.pub = k₂.pub ∧ k₁.padding = k₂.padding ∧ k₁.sig = k₂.sig ∧ k₁.kc.cert.bytes = k₂.kc.cert.bytes ∧
      k₁.kc.spk = k₂.kc.spk ∧ k₁.kc.cpk = k₂.kc.cpk :=
  readKac_injective h₁ h₂ hb

/-- The hashed bytes of a parsed identity are exactly the bytes it was parsed from (C01 instance), so hash
    and address are functions of the wire bytes. -/
theorem hash_of_wire_bytes (H : Bytes → Bytes) {w : Bytes} {k : KeysAndCert} {r : Bytes} (h : readKac w = some (k, r)) :
    ∃ b, b ++ r = w ∧ Identity.hash H k = some (H b) := by
  obtain ⟨b, hb, hw⟩ := readKac_consumed h
  exact ⟨b, hw, by simp [Identity.hash, hb]⟩

end I2P.Props.C07
