import I2P.Data
/-! Code-mirroring model of `data/mapping.go` and `data/mapping_values.go` (appendix A of DESIGN.md). -/

namespace I2P.Mapping
open I2P

def MAX_MAPPING_PAIRS : Nat := 1000
def MAX_MAPPING_DATA_SIZE : Nat := 65535

/-- error classes of the mapping readers, in the order the Go code can emit them -/
inductive E | zeroLength | exceeds | beyond | noData | maxPairs | noProgress | dup | expEq | expSemi | parseVals
deriving DecidableEq, Repr

def E.tag : E → String
  | .zeroLength => "zero" | .exceeds => "exceeds" | .beyond => "beyond" | .noData => "nodata"
  | .maxPairs => "maxpairs" | .noProgress => "noprogress" | .dup => "dup" | .expEq => "expeq"
  | .expSemi => "expsemi" | .parseVals => "parsevals"

abbrev Pair := Bytes × Bytes          -- both components are I2PStrings *including* their length byte

structure PairRes where
  rem : Bytes
  pair : Pair
  err : Option E

/-- `parseSingleKeyValuePair` -/
def parseSingle (d : Bytes) (seen : List Bytes) : PairRes :=
  let (k, r1, kerr) := readStr d
  let kacc : Option E :=
    match kerr with
    | some .zero => none      -- a string error, never one of the classes that reach the caller
    | _ => if seen.contains (strData k) then some .dup else none
  match r1 with
  | 0x3d :: r2 =>
    let (v, r3, _) := readStr r2
    match r3 with
    | 0x3b :: r4 => { rem := r4, pair := (k, v), err := kacc }
    | _ => { rem := r3, pair := (k, v), err := some .expSemi }
  | _ => { rem := r1, pair := (k, []), err := some .expEq }

/-- `parseKeyValuePairs`.  `lenBad` = a length mismatch was already reported for this body
    (then, and only then, a tail of fewer than six bytes is skipped quietly). -/
def loop : (fuel : Nat) → (count : Nat) → Bytes → List Pair → List E → List Bytes → Bool → (Bytes × List Pair × List E)
  | 0, _, rem, vals, errs, _, _ => (rem, vals, errs)
  | fuel+1, count, rem, vals, errs, seen, lenBad =>
    if count ≥ MAX_MAPPING_PAIRS then (rem, vals, errs ++ [.maxPairs])
    else if rem.length = 0 then (rem, vals, errs)
    else if lenBad ∧ rem.length < 6 then (rem, vals, errs)
    else
      let r := parseSingle rem seen
      match r.err with
      | some .expEq => (r.rem, vals, errs ++ [.expEq])
      | some .expSemi => (r.rem, vals, errs ++ [.expSemi])
      | e =>
        let errs' := match e with | some x => errs ++ [x] | none => errs
        let vals' := vals ++ [r.pair]
        if r.rem.length = 0 then (r.rem, vals', errs')
        else loop fuel (count+1) r.rem vals' errs' (strData r.pair.1 :: seen) lenBad

/-- `ReadMappingValues(d, L)` -/
def readValues (d : Bytes) (L : Nat) : Option (List Pair) × List E :=
  if d.length < 1 then (none, [.noData]) else
  let e0 : List E := if d.length > L then [.beyond] else if L > d.length then [.exceeds] else []
  let (_, vals, errs) := loop (MAX_MAPPING_PAIRS + 2) 0 d [] e0 [] (e0.length > 0)
  (some vals, errs)

structure Res where
  hasSize : Bool
  vals : Option (List Pair)
  rem : Bytes
  errs : List E

/-- `data.ReadMapping` -/
def readMapping (d : Bytes) : Res :=
  match d with
  | h :: l :: rest =>
    let size := h.toNat * 256 + l.toNat
    if size = 0 then { hasSize := true, vals := some [], rem := rest, errs := [] }
    else if rest.length < size then
      let (v, ve) := readValues rest size
      { hasSize := true, vals := v, rem := [], errs := [.exceeds] ++ ve }
    else
      let e0 : List E := if rest.length > size then [.beyond] else []
      let (v, ve) := readValues (rest.take size) size
      { hasSize := true, vals := v, rem := rest.drop size,
        errs := e0 ++ ve ++ (if ve.length > 0 then [.parseVals] else []) }
  | _ => { hasSize := false, vals := none, rem := [], errs := [.zeroLength] }

/-- "accepted" for the list-of-errors readers: nothing but the trailing-data warning -/
def accepted (r : Res) : Bool := r.errs.all (· == .beyond)

/-- `serializeOnePair`: pairs whose strings are malformed are skipped -/
def serPair (p : Pair) : Bytes :=
  if strDataOk p.1 ∧ strDataOk p.2 then p.1 ++ [0x3d] ++ p.2 ++ [0x3b] else []

def serPairs (ps : List Pair) : Bytes := (ps.map serPair).flatten

/-- `Mapping.Data()` given the stored pairs (`uint16(len(payload))` truncates) -/
def dataOf (ps : List Pair) : Bytes :=
  let payload := serPairs ps
  beEnc 2 payload.length ++ payload

def data (r : Res) : Option Bytes :=
  if !r.hasSize then none else some (dataOf (r.vals.getD []))

/-! ### map → Mapping -/

/-- bytewise lexicographic `<` on Go strings -/
def bytesLt : Bytes → Bytes → Bool
  | [], [] => false
  | [], _ :: _ => true
  | _ :: _, [] => false
  | a :: as, b :: bs => if a < b then true else if b < a then false else bytesLt as bs

def bytesLe (a b : Bytes) : Bool := !bytesLt b a

/-- `mappingOrder`: stable sort by decoded key -/
def sortPairs (ps : List Pair) : List Pair :=
  ps.mergeSort (fun a b => bytesLe (strData a.1) (strData b.1))

/-- `ValuesToMapping` on already-built I2PString pairs: `none` when the total exceeds 65535 -/
def valuesToMapping (ps : List Pair) : Option (List Pair) :=
  let sorted := sortPairs ps
  let total := 2 * sorted.length + (sorted.map fun p => p.1.length + p.2.length).sum
  if total > MAX_MAPPING_DATA_SIZE then none else some sorted

/-- `GoMapToMapping` for a map given as an association list in *some* iteration order:
    `none` when a string exceeds 255 bytes or the total exceeds 65535. -/
def goMapToMapping (m : List (Bytes × Bytes)) : Option (List Pair) :=
  let rec conv : List (Bytes × Bytes) → Option (List Pair)
    | [] => some []
    | (k, v) :: t =>
      match newStr k, newStr v, conv t with
      | some ks, some vs, some r => some ((ks, vs) :: r)
      | _, _, _ => none
  match conv m with
  | none => none
  | some ps => valuesToMapping ps

/-- `Mapping.ToGoMap()` as an association list in stored order (`none` when a string is malformed) -/
def toGoMap (ps : List Pair) : Option (List (Bytes × Bytes)) :=
  if ps.all (fun p => strDataOk p.1 && strDataOk p.2) then some (ps.map fun p => (strData p.1, strData p.2)) else none

end I2P.Mapping
