import I2P.Mapping
import I2P.Kac
/-! Code-mirroring models of the composite parsers (appendix E of DESIGN.md): Signature,
    OfflineSignature, Lease/Lease2, LeaseSet, LeaseSet2, MetaLeaseSet, EncryptedLeaseSet,
    RouterAddress, RouterInfo.  Each reader returns the re-serialisation of the accepted value
    (`Bytes()` as the Go code emits it, field by field) and the remainder; `none` = error. -/

namespace I2P.Structs
open I2P I2P.Spec I2P.Kac

abbrev P := Option (Bytes × Bytes)

/-- `signature.ReadSignature(d, t)` -/
def readSig (d : Bytes) (t : Nat) : P :=
  let n := sigLen t
  if n = 0 then none else if d.length < n then none else some (d.take n, d.drop n)

/-- `offline_signature.ReadOfflineSignature(d, destType)`: (bytes, remainder, transient type) -/
def readOffSig (d : Bytes) (destType : Nat) : Option (Bytes × Bytes × Nat) :=
  if d.length < 6 then none else
  let st := beVal ((d.drop 4).take 2)
  let ks := sigPubSize st
  if ks = 0 then none else
  let r := d.drop 6
  if r.length < ks then none else
  let ss := sigLen destType
  if ss = 0 then none else
  let r2 := r.drop ks
  if r2.length < ss then none else
  some (d.take (6 + ks + ss), r2.drop ss, st)

/-- `lease.ReadLease` (44 bytes) / `lease.ReadLease2` (40 bytes) -/
def readFixedN (size : Nat) (d : Bytes) : P :=
  if d.length < size then none else some (d.take size, d.drop size)

/-- an options mapping embedded in a stream: only the trailing-data warning is tolerated.
    `zeroWhenEmpty`: LeaseSet2/MetaLeaseSet emit `0000` when no pair was stored. -/
def readOptions (d : Bytes) (zeroWhenEmpty : Bool) : P :=
  let r := Mapping.readMapping d
  if !Mapping.accepted r then none else
  let vals := r.vals.getD []
  let ser := if zeroWhenEmpty ∧ vals.length = 0 then [0, 0] else (Mapping.data r).getD []
  some (ser, r.rem)

def readKeys : Nat → Bytes → Bytes → P
  | 0, d, acc => some (acc, d)
  | n+1, d, acc =>
    if d.length < 4 then none else
    let kl := beVal ((d.drop 2).take 2)
    let r := d.drop 4
    if r.length < kl then none else readKeys n (r.drop kl) (acc ++ d.take (4 + kl))

def readFixed (n size : Nat) (d : Bytes) : P :=
  if d.length < n * size then none else some (d.take (n * size), d.drop (n * size))

/-- `lease_set2.ReadLeaseSet2` -/
def readLeaseSet2 (d : Bytes) : P :=
  if d.length < 499 then none else
  match readDestination d with
  | none => none
  | some (k, r) =>
    match k.bytes with
    | none => none
    | some db =>
    let spk := k.kc.spk
    if r.length < 8 then none else
    let hdr := r.take 8
    let flags := beVal ((r.drop 6).take 2)
    let r := r.drop 8
    let off : Option (Bytes × Bytes × Nat) := if flags % 2 = 1 then readOffSig r spk else some ([], r, spk)
    match off with
    | none => none
    | some (ob, r, sigT) =>
      match readOptions r true with
      | none => none
      | some (optb, r) =>
        match r with
        | [] => none
        | nk :: r =>
          if nk.toNat < 1 ∨ nk.toNat > 16 then none else
          match readKeys nk.toNat r [] with
          | none => none
          | some (kb, r) =>
            match r with
            | [] => none
            | nl :: r =>
              if nl.toNat > 16 then none else
              match readFixed nl.toNat 40 r with
              | none => none
              | some (lb, r) =>
                match readSig r sigT with
                | none => none
                | some (sb, r) => some (db ++ hdr ++ ob ++ optb ++ [nk] ++ kb ++ [nl] ++ lb ++ sb, r)

def readEntries : Nat → Bytes → Bytes → P
  | 0, d, acc => some (acc, d)
  | n+1, d, acc =>
    if d.length < 40 then none else
    let t := (d.drop 32).take 1
    if !(t == [1] || t == [3] || t == [5]) then none else
    match readOptions (d.drop 38) true with
    | none => none
    | some (pb, r) => readEntries n r (acc ++ d.take 38 ++ pb)

/-- `meta_leaseset.ReadMetaLeaseSet` -/
def readMeta (d : Bytes) : P :=
  if d.length < 505 then none else
  match readDestination d with
  | none => none
  | some (k, r) =>
    match k.bytes with
    | none => none
    | some db =>
    let spk := k.kc.spk
    if r.length < 8 then none else
    let hdr := r.take 8
    let flags := beVal ((r.drop 6).take 2)
    let r := r.drop 8
    let off : Option (Bytes × Bytes × Nat) := if flags % 2 = 1 then readOffSig r spk else some ([], r, spk)
    match off with
    | none => none
    | some (ob, r, sigT) =>
      match readOptions r true with
      | none => none
      | some (optb, r) =>
        match r with
        | [] => none
        | ne :: r =>
          if ne.toNat < 1 ∨ ne.toNat > 16 then none else
          match readEntries ne.toNat r [] with
          | none => none
          | some (eb, r) =>
            match readSig r sigT with
            | none => none
            | some (sb, r) => some (db ++ hdr ++ ob ++ optb ++ [ne] ++ eb ++ sb, r)

/-- `encrypted_leaseset.ReadEncryptedLeaseSet` (the reader runs `Validate` at the end) -/
def readELS (d : Bytes) : P :=
  if d.length < 109 then none else
  let st := beVal (d.take 2)
  let ks := sigPubSize st
  if ks = 0 then none else
  let r := d.drop 2
  if r.length < ks then none else
  let key := r.take ks
  let r := r.drop ks
  if r.length < 8 then none else
  let hdr := r.take 8
  let expires := beVal ((r.drop 4).take 2)
  let flags := beVal ((r.drop 6).take 2)
  let r := r.drop 8
  if flags / 4 ≠ 0 then none else
  let off : Option (Bytes × Bytes × Nat) := if flags % 2 = 1 then readOffSig r st else some ([], r, st)
  match off with
  | none => none
  | some (ob, r, sigT) =>
    if r.length < 2 then none else
    let il := beVal (r.take 2)
    let r2 := r.drop 2
    if il = 0 then none else
    if r2.length < il then none else
    match readSig (r2.drop il) sigT with
    | none => none
    | some (sb, rem) =>
      if expires = 0 then none else
      if il < 61 then none else
      some (d.take 2 ++ key ++ hdr ++ ob ++ r.take 2 ++ r2.take il ++ sb, rem)

/-- value checks performed by go-i2p/crypto constructors (outside /repo; the bounds were measured by binary
    search against `elg.NewElgPublicKey` / `dsa.NewDSAPublicKey`): an ElGamal key is accepted iff
    `2 ≤ Y < p − 1` for I2P's 2048-bit ElGamal prime, a DSA key iff `2 ≤ Y < p` for I2P's 1024-bit DSA prime. -/
def elgBound : Nat := 32317006071311007300338913926423828248817941241140239112842009751400741706634354222619689417363569347117901737909704191754605873209195028853758986185622153212175412514901774520270235796078236248884246189477587641105928646099411723245426622522193230540919037680524235519125679715870117001058055877651038861847280257976054903569732561526167081339361799541336476559160368317896729073178384589680639671900977202194168647225871031411336429319536193471636533209717077448227988588565369208645296636077250268955505928362751121174096972998068410554359584866583291642136218231078990999448652468262416972035911852507045361090558
def dsaBound : Nat := 109562555141185572592979399169788194164397094775005146407392677495381913755607968244477236408557208379726401338240052325714171822842630720462775574244994319498411672396013371979368111175489307598999756694593395222067217750072023982586443391041775511025125000701345024062639875105633402337620615096306473114771
def elgValid (k : Bytes) : Bool := beVal k ≥ 2 && beVal k < elgBound
def dsaValid (k : Bytes) : Bool := beVal k ≥ 2 && beVal k < dsaBound

/-- `lease_set.ReadLeaseSet`: returns no remainder (trailing bytes are ignored); the second
    component is what was left unread. -/
def readLeaseSet (d : Bytes) : P :=
  if d.length < 387 then none else
  match readCert (d.drop 384) with
  | none => none
  | some (c, _) =>
    let destLen := 387 + c.declared
    if d.length < destLen then none else
    match readDestination (d.take destLen) with
    | none => none
    | some (k, _) =>
      match k.bytes with
      | none => none
      | some db =>
      let spk := k.kc.spk
      let isKey := c.kind == [5]
      let r := d.drop destLen
      if r.length < 256 then none else
      if !elgValid (r.take 256) then none else
      let enc := r.take 256
      let r := r.drop 256
      let ks := if isKey then sigPubSize spk else 128
      if r.length < ks then none else
      let sk := r.take ks
      if !isKey && !dsaValid sk then none else
      let r := r.drop ks
      match r with
      | [] => none
      | n :: r =>
        if n.toNat > 16 then none else
        if r.length < n.toNat * 44 then none else
        let lb := r.take (n.toNat * 44)
        let r := r.drop (n.toNat * 44)
        let ss := if isKey then sigLen spk else 40
        if r.length < ss then none else
        some (db ++ enc ++ sk ++ [n] ++ lb ++ r.take ss, r.drop ss)

/-- `router_address.ReadRouterAddress` -/
def readRouterAddress (d : Bytes) : P :=
  if d.length < 12 then none else
  let (str, r, e) := readStr (d.drop 9)
  if e.isSome then none else
  let m := Mapping.readMapping r
  if !Mapping.accepted m then none else
  some (d.take 9 ++ str ++ (Mapping.data m).getD [], m.rem)

def readAddrs : Nat → Bytes → Bytes → P
  | 0, d, acc => some (acc, d)
  | n+1, d, acc =>
    match readRouterAddress d with
    | none => none
    | some (b, r) => readAddrs n r (acc ++ b)

/-- `router_info.ReadRouterInfo` -/
def readRouterInfo (d : Bytes) : P :=
  match readRouterIdentity d with
  | none => none
  | some (k, r) =>
    match k.bytes with
    | none => none
    | some ib =>
    if r.length < 8 then none else
    let date := r.take 8
    let r := r.drop 8
    let size := r.take 1
    let r := r.drop 1
    match readAddrs (beVal size) r [] with
    | none => none
    | some (ab, r) =>
      let peer := r.take 1
      let r := r.drop 1
      let m := Mapping.readMapping r
      if !Mapping.accepted m then none else
      let certKind := (d.drop 384).take 1
      let sigT := if certKind == [5] then k.kc.spk else 0
      match readSig m.rem sigT with
      | none => none
      | some (sb, rem) => some (ib ++ date ++ size ++ ab ++ peer ++ (Mapping.data m).getD [] ++ sb, rem)

end I2P.Structs
