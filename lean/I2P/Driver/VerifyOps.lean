import I2P.Driver.Util
import I2P.Verify
/-! `verifyObl <kind> <hex>`: the verification obligations (algorithm tag, key, message, signature) the model
    derives for an accepted input — `Props/C05.lean` proves `verifyX C p = C.all (oblX p)`. -/
namespace I2P.Driver
open I2P I2P.Verify

def showObl (o : Obl) : String := s!"{o.alg}:{toHex o.key}:{toHex o.msg}:{toHex o.sig}"

/-- outer `none`: the input does not parse; inner `none`: no oracle can make verification succeed -/
def showObls : Option (Option (List Obl)) → String
  | none => "err"
  | some none => "ok obligations=none"
  | some (some l) => "ok obligations=[" ++ ",".intercalate (l.map showObl) ++ "]"

def verifyOps : List (String × Op) := [
  ("verifyObl", fun
    | [kind, h] => do
      let w ← parseHex h
      match kind with
      | "ls2" => pure (showObls ((parseLS2 w).map oblLS2))
      | "meta" => pure (showObls ((parseMeta w).map oblMeta))
      | "els" => pure (showObls ((parseELS w).map oblELS))
      | "ls" => pure (showObls ((parseLS w).map oblLS))
      | "ri" => pure (showObls ((parseRI w).map oblRI))
      | _ => none
    | _ => none)
]
end I2P.Driver
