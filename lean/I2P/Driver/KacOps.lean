import I2P.Driver.Util
import I2P.Kac
import I2P.Identity
namespace I2P.Driver
open I2P I2P.Kac

def certObs (c : Cert) : String :=
  s!"type={c.type} len={c.declared} data={toHex c.data} bytes={toHex c.bytes}"

def kacObs (k : KeysAndCert) : String :=
  match k.bytes with
  | none => "bytes=err"
  | some b => s!"spk={k.kc.spk} cpk={k.kc.cpk} pub={toHex k.pub} pad={toHex k.padding} sig={toHex k.sig} bytes={toHex b}"

def showKac : Option (KeysAndCert × Bytes) → String
  | none => "err"
  | some (k, rem) => s!"ok rem={rem.length} {kacObs k}"

def showCert : Option (Cert × Bytes) → String
  | none => "err"
  | some (c, rem) => s!"ok rem={rem.length} {certObs c}"

def showKeyCert : Option (KeyCert × Bytes) → String
  | none => "err"
  | some (kc, rem) => s!"ok rem={rem.length} spk={kc.spk} cpk={kc.cpk} bytes={toHex kc.cert.bytes}"

def showDestAddr (d : Bytes) : Option (KeysAndCert × Bytes) → String
  | none => "err"
  | some (k, _) =>
    s!"ok hash={optHex (Identity.hash (fun _ => d) k)} b32={optHex (Identity.base32Address (fun _ => d) k)} b64={optHex (Identity.base64 k)}"

def showLookup (c : Nat) : String :=
  let s := match Spec.sigInfo c with | none => "unknown" | some (k, l) => s!"{k}/{l}"
  let cr := match Spec.cryptoInfo c with | none => "unknown" | some n => s!"{n}"
  s!"sig={s} crypto={cr}"

def kacOps : List (String × Op) := [
  ("readCert", fun | [h] => do let w ← parseHex h; pure (showCert (readCert w)) | _ => none),
  ("readKeyCert", fun | [h] => do let w ← parseHex h; pure (showKeyCert (newKeyCert w)) | _ => none),
  ("readKac", fun | [h] => do let w ← parseHex h; pure (showKac (readKac w)) | _ => none),
  ("readKacElgEd", fun | [h] => do let w ← parseHex h; pure (showKac (readKacFast 0 w)) | _ => none),
  ("readKacXEd", fun | [h] => do let w ← parseHex h; pure (showKac (readKacFast 4 w)) | _ => none),
  ("readDest", fun | [h] => do let w ← parseHex h; pure (showKac (readDestination w)) | _ => none),
  ("readRid", fun | [h] => do let w ← parseHex h; pure (showKac (readRouterIdentity w)) | _ => none),
  -- identity accessors; the SHA-256 of the serialisation is an oracle answer carried on the line
  ("destAddr", fun | [h, sha] => do let w ← parseHex h; let d ← parseHex sha; pure (showDestAddr d (readDestination w)) | _ => none),
  -- every size lookup on one type code (out-of-range codes are unknown)
  ("lookup", fun | [c] => do let c ← parseInt c; pure (if c < 0 ∨ c ≥ 65536 then "sig=unknown crypto=unknown" else showLookup c.toNat) | _ => none)
]

end I2P.Driver
