import I2P.Driver.Util
import I2P.Base
/-! Driver ops for `/repo/base32` and `/repo/base64` (property C13). Same canonical lines as
`harness/ops_base.go`. Text (encoder output, decoder input) travels as hex like every byte string. -/
namespace I2P.Driver
open I2P I2P.Base

/-- encoder result; the group formulation must agree with the independent bit-list formulation -/
def encLine (model spec : Bytes) : String :=
  if model == spec then "ok " ++ toHex model else "SPEC-MISMATCH " ++ toHex model ++ " " ++ toHex spec

def guardTag : GuardErr → String
  | .empty => "empty" | .tooLarge => "toolarge"

def safeEncLine : Except GuardErr Bytes → String
  | .error e => "err " ++ guardTag e
  | .ok b => "ok " ++ toHex b

def safeDecLine : Except GuardErr (Option Bytes) → String
  | .error e => "err " ++ guardTag e
  | .ok none => "err corrupt"
  | .ok (some b) => "ok " ++ toHex b

def guardLine (max n : Nat) (extra : String) : String :=
  match sizeGuard max n with
  | some e => "err " ++ guardTag e
  | none => "pass" ++ extra


def baseOps : List (String × Op) := [
  ("baseConsts", fun
    | [] => some s!"a32={toHex alpha32} a64={toHex alpha64} maxEnc32={maxEncode32} maxDec32={maxDecode32} maxEnc64={maxEncode64} maxDec64={maxDecode64}"
    | _ => none),
  ("b32enc", fun | [h] => do let b ← parseHex h; pure (encLine (enc32 b) (Spec.enc32 b)) | _ => none),
  ("b32encNoPad", fun | [h] => do let b ← parseHex h; pure (encLine (enc32NoPad b) (Spec.enc32NoPad b)) | _ => none),
  ("b64enc", fun | [h] => do let b ← parseHex h; pure (encLine (enc64 b) (Spec.enc64 b)) | _ => none),
  ("b32dec", fun | [h] => do let b ← parseHex h; pure (okHex (dec32Cur b)) | _ => none),
  ("b32decNoPad", fun | [h] => do let b ← parseHex h; pure (okHex (dec32NoPadCur b)) | _ => none),
  ("b64dec", fun | [h] => do let b ← parseHex h; pure (okHex (dec64 b)) | _ => none),
  ("b32encSafe", fun | [h] => do let b ← parseHex h; pure (safeEncLine (enc32Safe b)) | _ => none),
  ("b32decSafe", fun | [h] => do let b ← parseHex h; pure (safeDecLine (dec32SafeCur b)) | _ => none),
  ("b32decSafeNoPad", fun | [h] => do let b ← parseHex h; pure (safeDecLine (dec32SafeNoPadCur b)) | _ => none),
  ("b64encSafe", fun | [h] => do let b ← parseHex h; pure (safeEncLine (enc64Safe b)) | _ => none),
  ("b64decSafe", fun | [h] => do let b ← parseHex h; pure (safeDecLine (dec64Safe b)) | _ => none),
  -- limit sizes: only the length travels; the guard of the model decides, the output length comes
  -- from `encodedLen32/64` (theorems `enc32_length`, `enc64_length`)
  ("b32encSafeLen", fun | [n] => do let n ← parseNat n; pure (guardLine maxEncode32 n s!" len={encodedLen32 n}") | _ => none),
  ("b64encSafeLen", fun | [n] => do let n ← parseNat n; pure (guardLine maxEncode64 n s!" len={encodedLen64 n}") | _ => none),
  ("b32decSafeLen", fun | [n] => do let n ← parseNat n; pure (guardLine maxDecode32 n "") | _ => none),
  ("b32decSafeNoPadLen", fun | [n] => do let n ← parseNat n; pure (guardLine maxDecode32 n "") | _ => none),
  ("b64decSafeLen", fun | [n] => do let n ← parseNat n; pure (guardLine maxDecode64 n "") | _ => none)
]

end I2P.Driver
