import I2P.Driver.Util
import I2P.Spec.Structs
/-! `specDecode <kind> <hex>`: the Lean transcription of the layout (I2P/Spec/Structs.lean) run on the same
    bytes as the harness's independent Go decoder (harness/spec.go), printing every decoded field. -/
namespace I2P.Driver
open I2P I2P.Spec

def dId (v : SIdentity) : String :=
  s!"id({if v.nullCert then 1 else 0},{v.sigType},{v.cryptoType},{toHex v.cryptoKey},{toHex v.padding},{toHex v.sigKey},{toHex v.certExtra})"
def dMap (m : SMapping) : String :=
  "map[" ++ ",".intercalate (m.map fun p => toHex p.1 ++ ":" ++ toHex p.2) ++ "]"
def dOff : Option SOfflineSig → String
  | none => "off-"
  | some o => s!"off({o.expires},{o.transientType},{toHex o.transientKey},{toHex o.signature})"
def dLease (l : SLease) : String := s!"lease({toHex l.gateway},{l.tunnelId},{l.endDate})"
def dLease2 (l : SLease2) : String := s!"lease2({toHex l.gateway},{l.tunnelId},{l.endDate})"
def dList (parts : List String) : String := "[" ++ ",".intercalate parts ++ "]"
def dRA (a : SRouterAddress) : String := s!"ra({a.cost},{a.expiration},{toHex a.style},{dMap a.options})"

def showSpec {α : Type} (d : α → String) : Option (α × Bytes) → String
  | none => "err"
  | some (v, r) => s!"ok rem={r.length} {d v}"

def specDecode (kind : String) (w : Bytes) : Option String :=
  match kind.splitOn ":" with
  | ["ident"] => some (showSpec dId (identityCodec.read w))
  | ["mapping"] => some (showSpec dMap (mappingCodec.read w))
  | ["lease"] => some (showSpec dLease (leaseCodec.read w))
  | ["lease2"] => some (showSpec dLease2 (lease2Codec.read w))
  | ["offsig", t] => do
    let t ← t.toNat?
    pure (showSpec (fun o => dOff (some o)) ((offlineCodec t).read w))
  | ["ls2"] => some (showSpec (fun v =>
      s!"ls2({dId v.dest},{v.published},{v.expires},{v.flags},{dOff v.offline},{dMap v.options},{dList (v.keys.map fun k => s!"key({k.keyType},{toHex k.data})")},{dList (v.leases.map dLease2)},{toHex v.signature})")
      (leaseSet2Codec.read w))
  | ["meta"] => some (showSpec (fun v =>
      s!"meta({dId v.dest},{v.published},{v.expires},{v.flags},{dOff v.offline},{dMap v.options},{dList (v.entries.map fun e => s!"entry({toHex e.hash},{e.entryType},{e.expires},{e.cost},{dMap e.properties})")},{toHex v.signature})")
      (metaLeaseSetCodec.read w))
  | ["els"] => some (showSpec (fun v =>
      s!"els({v.sigType},{toHex v.blindedKey},{v.published},{v.expires},{v.flags},{dOff v.offline},{toHex v.inner},{toHex v.signature})")
      (encryptedLeaseSetCodec.read w))
  | ["ls"] => some (showSpec (fun v =>
      s!"ls({dId v.dest},{toHex v.encKey},{toHex v.signingKey},{dList (v.leases.map dLease)},{toHex v.signature})")
      (leaseSetCodec.read w))
  | ["ra"] => some (showSpec dRA (routerAddressCodec.read w))
  | ["ri"] => some (showSpec (fun v =>
      s!"ri({dId v.ident},{v.published},{dList (v.addresses.map dRA)},{dList (v.peers.map toHex)},{dMap v.options},{toHex v.signature})")
      (routerInfoCodec.read w))
  | _ => none

def specOps : List (String × Op) := [
  ("specDecode", fun | [k, h] => do let w ← parseHex h; specDecode k w | _ => none)
]
end I2P.Driver
