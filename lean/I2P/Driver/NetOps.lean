import I2P.Driver.DataOps
import I2P.RouterAddrAcc
namespace I2P.Driver
open I2P I2P.Mapping I2P.NetAddr I2P.RouterAddr

namespace NetOps

def natsToBytes (l : List Nat) : Bytes := l.map UInt8.ofNat

/-- a possibly-nil `I2PString`: raw hex, `nil` for nil -/
def rawStr : Option Bytes → String
  | none => "nil"
  | some v => if v.isEmpty then "nil" else toHex v

def okBytes : Option Bytes → String
  | none => "err"
  | some b => "ok:" ++ toHex b

def tf (b : Bool) : String := if b then "t" else "f"

def verStr (v : Bytes) : String := if v.isEmpty then "-" else toHex v

/-- keys probed by `raAcc` besides the well-known accessors (decoys: prefixes and extensions) -/
def probeKeys : List Bytes := [
  [104,111,115], [104,111,115,116], [104,111,115,116,120], [104],        -- hos host hostx h
  [112,111,114], [112,111,114,116], [112,111,114,116,115],               -- por port ports
  [115], [115,120], [105], [105,105], [], [99,97,112,115], [99,97,112,115,54], [118]]  -- s sx i ii "" caps caps6 v

/-- the canonical observation line of every option accessor on one option list -/
def accLine (o : List Pair) : String :=
  let nums : List Int := [-1, 0, 1, 2, 3]
  let ih := ",".intercalate (nums.map fun n => rawStr (introducerHashString o n))
  let iexp := ",".intercalate (nums.map fun n => rawStr (introducerExpirationString o n))
  let itag := ",".intercalate (nums.map fun n => rawStr (introducerTagString o n))
  let probe := ",".intercalate (probeKeys.map fun k => rawStr (getOption o (toI2PString k)) ++ "/" ++ tf (checkOption o k))
  s!"host={okBytes ((host o).map natsToBytes)} hvh={tf (hasValidHost o)} ipv={verStr (ipVersion o)} " ++
  s!"port={okBytes (port o)} hvp={tf (hasValidPort o)} sk={okBytes (staticKey o)} iv={okBytes (initializationVector o)} " ++
  s!"pv={okBytes (protocolVersion o)} caps={rawStr (capsString o)} ih={ih} iexp={iexp} itag={itag} probe={probe}"

end NetOps

open NetOps in
def netOps : List (String × Op) := [
  ("parseIP", fun
    | [h] => do
      let s ← parseHex h
      pure (match parseIP s with
        | none => "err"
        | some ip => s!"ok {toHex (natsToBytes ip)} {if isV4 ip then "4" else "6"}")
    | _ => none),
  ("atoi", fun | [h] => do let s ← parseHex h; pure (okInt (atoi s)) | _ => none),
  ("itoa", fun | [n] => do let n ← parseInt n; pure (if n < 0 then "neg" else toHex (decimal n.toNat)) | _ => none),
  ("raAcc", fun
    | [a] => do let m ← parseAssoc a; pure (accLine (storedPairs m))
    | _ => none),
  ("raGet", fun
    | [a, k] => do
      let m ← parseAssoc a; let k ← parseHex k
      let o := storedPairs m
      pure s!"get={rawStr (getOption o (toI2PString k))} has={tf (checkOption o k)}"
    | _ => none),
  ("raWire", fun
    | [h] => do
      let b ← parseHex h
      let r := readMapping b
      pure (accLine (r.vals.getD []))
    | _ => none)
]

end I2P.Driver
