import I2P.Driver.Util
import I2P.Structs
namespace I2P.Driver
open I2P I2P.Structs

def showP (noRem : Bool) : P → String
  | none => "err"
  | some (b, r) => if noRem then s!"ok bytes={toHex b}" else s!"ok rem={r.length} bytes={toHex b}"

def showOff : Option (Bytes × Bytes × Nat) → String
  | none => "err"
  | some (b, r, t) => s!"ok rem={r.length} ttype={t} bytes={toHex b}"

def structOps : List (String × Op) := [
  ("readSig", fun | [h, t] => do let w ← parseHex h; let t ← parseInt t; pure (showP false (if t < 0 then none else readSig w t.toNat)) | _ => none),
  ("readOffSig", fun | [h, t] => do let w ← parseHex h; let t ← t.toNat?; pure (showOff (readOffSig w t)) | _ => none),
  ("nop", fun _ => some "nop"),
  ("readLease", fun | [h] => do let w ← parseHex h; pure (showP false (readFixedN 44 w)) | _ => none),
  ("readLease2", fun | [h] => do let w ← parseHex h; pure (showP false (readFixedN 40 w)) | _ => none),
  ("readLS2", fun | [h] => do let w ← parseHex h; pure (showP false (readLeaseSet2 w)) | _ => none),
  ("readMeta", fun | [h] => do let w ← parseHex h; pure (showP false (readMeta w)) | _ => none),
  ("readELS", fun | [h] => do let w ← parseHex h; pure (showP false (readELS w)) | _ => none),
  ("readLS", fun | [h] => do let w ← parseHex h; pure (showP true (readLeaseSet w)) | _ => none),
  ("readRA", fun | [h] => do let w ← parseHex h; pure (showP false (readRouterAddress w)) | _ => none),
  ("readRI", fun | [h] => do let w ← parseHex h; pure (showP false (readRouterInfo w)) | _ => none)
]
end I2P.Driver
