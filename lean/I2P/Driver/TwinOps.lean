import I2P.Driver.DataOps
import I2P.Driver.KacOps
import I2P.Twins
/-! Driver operations of the C19 twin slice: each op runs BOTH (all) entry points of one twin family on the
    model and prints one canonical line; `harness/ops_twin.go` prints the same line from the real library. -/
namespace I2P.Driver
open I2P I2P.Kac I2P.Structs I2P.Twins

/-- `ok:<value hex>:<remainder length>` / `err` -/
def twP : P → String
  | none => "err"
  | some (b, r) => s!"ok:{toHex b}:{r.length}"

/-- `ok:<value hex>` / `err` -/
def twB : Option Bytes → String
  | none => "err"
  | some b => s!"ok:{toHex b}"

def twI : Option Int → String
  | none => "err"
  | some v => s!"ok:{v}"

def twCert : Option Cert → String
  | none => "err"
  | some c => s!"ok:{toHex c.bytes}"

/-- one step of `twBuilder`: `t<type>` | `p<hex>` | `k<sig>:<crypto>` -/
def parseStep (s : String) : Option Step :=
  match s.toList with
  | 't' :: rest => do let t ← (String.ofList rest).toNat?; pure (.type (t % 256))
  | 'p' :: rest => do let b ← parseHex (String.ofList rest); pure (.payload b)
  | 'k' :: rest =>
    match (String.ofList rest).splitOn ":" with
    | [a, b] => do let s ← parseInt a; let c ← parseInt b; pure (.keyTypes s c)
    | _ => none
  | _ => none

def parseSteps (s : String) : Option (List Step) :=
  if s == "-" then some [] else (s.splitOn ",").mapM parseStep

def twinOps : List (String × Op) := [
  ("twSig", fun
    | [h, t] => do
      let w ← parseHex h; let t ← parseInt t
      pure s!"R={twP (readSignature w t)} N={twP (newSignature w t)} F={twB (newSignatureFromBytes w t)}"
    | _ => none),
  ("twStrNew", fun
    | [h] => do let c ← parseHex h; pure s!"To={twB (toI2PString c)} New={twB (newStr c)}"
    | _ => none),
  ("twStrRead", fun
    | [h] => do
      let w ← parseHex h
      let (s, r, e) := readStr w
      pure s!"Read={toHex s}:{r.length}:{strErrTag e} From={twB (newStrFromBytes w)}"
    | _ => none),
  ("twIntEnc", fun
    | [v, n] => do
      let v ← parseInt v; let n ← parseInt n
      let u := if n = 2 ∨ n = 4 ∨ n = 8 then (match encodeUintN v n.toNat with | some b => toHex b | none => "n/a") else "n/a"
      pure s!"New={twB (newIntegerFromInt v n)} EncN={twB (encodeIntN v n)} EncU={u}"
    | _ => none),
  ("twIntDec", fun
    | [h] => do let w ← parseHex h; pure s!"Dec={twI (decodeIntN w)} Safe={twI (integerIntSafe w)}"
    | _ => none),
  ("twDateRead", fun
    | [h] => do let w ← parseHex h; pure s!"R={twP (readDate w)} N={twP (newDate w)}"
    | _ => none),
  ("twDateNew", fun
    | [x] => do
      let x ← parseInt x
      let x1000 := Time.wrapInt64 (x * 1000)
      pure s!"Unix={twB (newDateFromUnix x)} Ms={twB (newDateFromMillis x)} MsOfUnix={twB (newDateFromMillis x1000)} FromTime={toHex (dateFromTime (Time.timeUnixMilli x))}"
    | _ => none),
  ("twHash", fun
    | [h] => do let w ← parseHex h; pure s!"R={twP (readHash w)} S={twB (newHashFromSlice w)}"
    | _ => none),
  ("twMap", fun
    | [h] => do
      let w ← parseHex h
      pure ("R={" ++ showMapping (Mapping.readMapping w) ++ "} N={" ++ showMapping (newMapping w) ++ "}")
    | _ => none),
  ("twLease", fun
    | [h] => do
      let w ← parseHex h
      pure s!"L={twP (readFixedN 44 w)} NL={twP (newLeaseFromBytes w)} L2={twP (readFixedN 40 w)} NL2={twP (newLease2FromBytes w)}"
    | _ => none),
  ("twSess", fun
    | [h] => do
      let w ← parseHex h
      pure (s!"K={twP (readSessionKey w)} NK={twP (newSessionKey w)} T={twP (readSessionTag w)} NT={twP (newSessionTag w)} " ++
            s!"TB={twB (newSessionTagFromBytes w)} E={twP (readECIESSessionTag w)} NE={twP (newECIESSessionTag w)} EB={twB (newECIESSessionTagFromBytes w)}")
    | _ => none),
  ("twBuilder", fun
    | [s] => do
      let steps ← parseSteps s
      let cb := newCertBuilder.run steps
      pure s!"B={twCert cb.build} D={twCert cb.direct}"
    | _ => none),
  ("twKeyCert", fun
    | [s, c] => do
      let s ← parseInt s; let c ← parseInt c
      let k := match newKeyCertWithTypes s c with
        | none => "err"
        | some kc => s!"ok:{toHex kc.cert.bytes}:{kc.spk}:{kc.cpk}"
      let b := match newCertBuilder.withKeyTypes s c with
        | none => "err"
        | some cb => twCert cb.build
      pure s!"K={k} B={b} P={twB (buildKeyTypePayload s c)}"
    | _ => none)
]

end I2P.Driver
