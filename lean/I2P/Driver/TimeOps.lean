import I2P.Driver.Util
import I2P.Time
namespace I2P.Driver
open I2P I2P.Time


def parseU32 (s : String) : Option Nat := do let v ← s.toNat?; if v < 2^32 then some v else none
def parseU16 (s : String) : Option Nat := do let v ← s.toNat?; if v < 2^16 then some v else none
def parseU64 (s : String) : Option Nat := do let v ← s.toNat?; if v < 2^64 then some v else none
def parseI64 (s : String) : Option Int := do let v ← s.toInt?; if -2^63 ≤ v ∧ v < 2^63 then some v else none

/-- `d1,d2,…` of unsigned 64-bit decimals; `-` is the empty list -/
def parseDates (s : String) : Option (List Nat) :=
  if s == "-" then some [] else (s.splitOn ",").mapM parseU64

/-- The library reads the clock itself, so `expired` cases are phrased relative to it (`delta` seconds, or
    milliseconds for `lease`, between the expiry and the clock).  The model is evaluated at this fixed instant;
    the outcome depends on `delta` only as long as `|delta|` exceeds the few seconds a case may take. -/
def refNow : GoTime := { sec := 1800000000, nsec := 500000000 }

def boolStr (b : Bool) : String := if b then "true" else "false"

def hdrLine (pub exp : GoTime) : String := s!"ok pub={unixOf pub} exp={unixOf exp} nsec={exp.nsec}"

def timeOps : List (String × Op) := [
  ("ls2Expiry", fun
    | [p, e] => do
      let p ← parseU32 p; let e ← parseU16 e
      pure (hdrLine (ls2PublishedTime p) (ls2ExpirationTime p e))
    | _ => none),
  ("elsExpiry", fun
    | [p, e] => do
      let p ← parseU32 p; let e ← parseU16 e
      pure (if elsExpiresAccepted e then hdrLine (elsPublishedTime p) (elsExpirationTime p e) else "err")
    | _ => none),
  ("metaExpiry", fun
    | [p, e] => do
      let p ← parseU32 p; let e ← parseU16 e
      pure (hdrLine (metaPublishedTime p) (metaExpirationTime p e))
    | _ => none),
  ("metaEntry", fun
    | [x] => do let x ← parseU32 x; pure s!"ok exp={x} time={entryExpiresSeconds x}"
    | _ => none),
  ("offsigExpires", fun
    | [x] => do
      let x ← parseU32 x
      pure s!"ok exp={x} time={offlineExpiresSeconds x} date={offlineExpiresDateMillis x}"
    | _ => none),
  ("lease2Read", fun
    | [x] => do
      let x ← parseU32 x
      pure s!"ok end={x} time={lease2TimeSeconds x} ms={lease2DateMillis x} date={toHex (lease2Date x)}"
    | _ => none),
  ("lease2New", fun
    | [s, n] => do
      let s ← parseI64 s; let n ← parseI64 n
      pure (match newLease2FromTime (timeUnix s n) with
        | none => "err"
        | some x => s!"ok end={x} time={lease2TimeSeconds x} ms={lease2DateMillis x}")
    | _ => none),
  ("leaseNew", fun
    | [s, n] => do
      let s ← parseI64 s; let n ← parseI64 n
      let d := newLeaseDate (timeUnix s n)
      pure s!"ok date={d} timeMs={leaseTimeMillis d}"
    | _ => none),
  ("leaseRead", fun
    | [d] => do
      let d ← parseU64 d
      pure s!"ok date={d} int={dateIntOf d} timeMs={leaseTimeMillis d} dtimeMs={(dateTimeOf d).unixMilli}"
    | _ => none),
  ("newestOldest", fun
    | [ds] => do
      let ds ← parseDates ds
      pure (match newestExpiration ds, oldestExpiration ds with
        | some n, some o => s!"ok newest={n} oldest={o}"
        | _, _ => "err")
    | _ => none),
  ("riPublished", fun
    | [s, n] => do
      let s ← parseI64 s; let n ← parseI64 n
      -- `NewRouterInfo` rejects a zero published date ("undefined")
      pure (if createPublishedDate (timeUnix s n) = 0 then "err" else s!"ok date={createPublishedDate (timeUnix s n)}")
    | _ => none),
  ("expired", fun
    | [kind, delta, e] => do
      let delta ← parseI64 delta; let e ← parseU16 e
      let expiry := refNow.sec + delta
      let u32 (v : Int) : Option Nat := if 0 ≤ v ∧ v < 2^32 then some v.toNat else none
      let r ← match kind with
        | "ls2" => do let p ← u32 (expiry - e); pure (ls2IsExpired refNow p e)
        | "els" => do let p ← u32 (expiry - e); pure (elsIsExpired refNow p e)
        | "meta" => do let p ← u32 (expiry - e); pure (metaIsExpired refNow p e)
        | "entry" => do let x ← u32 expiry; pure (entryIsExpired refNow x)
        | "offsig" => do let x ← u32 expiry; pure (offlineIsExpired refNow x)
        | "lease2" => do let x ← u32 expiry; pure (lease2IsExpired refNow x)
        | "lease" =>
          -- delta in milliseconds relative to the clock's UnixMilli()
          let ms := refNow.unixMilli + delta
          if 0 ≤ ms ∧ ms < 2^63 then pure (leaseIsExpired refNow ms.toNat) else none
        | _ => none
      pure s!"expired={boolStr r}"
    | _ => none)
]

end I2P.Driver
