import I2P.Driver.Util
import I2P.FailShape
/-! `failShape <Reader> <hex> [type]`: the line `harness/ops_failshape.go` prints for the real reader.
    The accept/reject decision is the existing reader model where one exists; the shape comes from the
    `stop…` function of `I2P/FailShape.lean`.  Should the two ever disagree the line shows it (`err ? ?`). -/
namespace I2P.Driver
open I2P I2P.FailShape I2P.Kac I2P.Structs

/-- decision by the existing model, shape by the stop function -/
def fsLine (accepted : Bool) (o : Option Obs) : String :=
  if accepted then (match o with | none => "ok" | some _ => "ok ?")
  else match o with
    | some o => o.render
    | none => "err ? ?"

def failShape1 (reader : String) (w : Bytes) : Option String :=
  match reader with
  | "ReadCertificate" => some (fsLine (readCert w).isSome (stopCert w))
  | "NewKeyCertificate" => some (fsLine (newKeyCert w).isSome (stopKeyCert w))
  | "ReadKeysAndCert" => some (fsLine (readKac w).isSome (stopKac w))
  | "ReadDestination" => some (fsLine (readDestination w).isSome (stopDest w))
  | "NewDestinationFromBytes" => some (fsLine (readDestination w).isSome (stopNewDest w))
  | "ReadRouterIdentity" => some (fsLine (readRouterIdentity w).isSome (stopRid w))
  | "NewRouterIdentityFromBytes" => some (fsLine (readRouterIdentity w).isSome (stopRid w))
  | "ReadLease" => some (fsLine (readFixedN 44 w).isSome (stopArr 44 w))
  | "NewLeaseFromBytes" => some (fsLine (readFixedN 44 w).isSome (stopPtrN 44 w))
  | "ReadLease2" => some (fsLine (readFixedN 40 w).isSome (stopArr 40 w))
  | "NewLease2FromBytes" => some (fsLine (readFixedN 40 w).isSome (stopPtrN 40 w))
  | "ReadSessionKey" => some (fsLine (readFixedN 32 w).isSome (stopArr 32 w))
  | "NewSessionKey" => some (fsLine (readFixedN 32 w).isSome (stopPtrN 32 w))
  | "ReadSessionTag" => some (fsLine (readFixedN 32 w).isSome (stopTag 32 w))
  | "NewSessionTag" => some (fsLine (readFixedN 32 w).isSome (stopPtrN 32 w))
  | "NewSessionTagFromBytes" => some (line (stopTagExact 32 w))
  | "ReadECIESSessionTag" => some (fsLine (readFixedN 8 w).isSome (stopTag 8 w))
  | "NewECIESSessionTag" => some (fsLine (readFixedN 8 w).isSome (stopPtrN 8 w))
  | "NewECIESSessionTagFromBytes" => some (line (stopTagExact 8 w))
  | "ReadDate" => some (fsLine (readDate w).isSome (stopArr 8 w))
  | "NewDate" => some (fsLine (readDate w).isSome (stopPtrN 8 w))
  | "ReadHash" => some (fsLine (readHash w).isSome (stopArr 32 w))
  | "NewHashFromSlice" => some (line (stopHashExact w))
  | "NewIntegerFromBytes" => some (fsLine (newIntegerFromBytes w).isSome (stopIntFromBytes w))
  | "NewI2PStringFromBytes" => some (fsLine (newStrFromBytes w).isSome (stopStrFromBytes w))
  | "ReadLeaseSet" => some (fsLine (readLeaseSet w).isSome (stopLeaseSet w))
  | "ReadDestinationFromLeaseSet" => some (line (stopDestFromLS w))
  | "ReadI2PString" => some (fsLine (readStr w).2.2.isNone (stopStr w))
  | "ReadMapping" => some (fsLine (Mapping.readMapping w).errs.isEmpty (stopMapping w))
  | "NewMapping" => some (fsLine (Mapping.readMapping w).errs.isEmpty (stopNewMapping w))
  | "ReadKeysAndCertElgAndEd25519" => some (fsLine (readKacFast 0 w).isSome (stopKacFast 0 w))
  | "ReadKeysAndCertX25519AndEd25519" => some (fsLine (readKacFast 4 w).isSome (stopKacFast 4 w))
  | "ReadRouterAddress" => some (fsLine (readRouterAddress w).isSome (stopRA w))
  | "ReadEncryptedLeaseSet" => some (fsLine (readELS w).isSome (stopELS w))
  | "ReadLeaseSet2" => some (fsLine (readLeaseSet2 w).isSome (stopLS2 w))
  | "ReadMetaLeaseSet" => some (fsLine (readMeta w).isSome (stopMeta w))
  | "ReadRouterInfo" => some (fsLine (readRouterInfo w).isSome (stopRI w))
  | _ => none

def failShape2 (reader : String) (w : Bytes) (t : Int) : Option String :=
  match reader with
  | "ReadSignature" => some (fsLine (readSigInt w t).isSome (stopSig w t))
  | "NewSignature" => some (fsLine (readSigInt w t).isSome (stopNewSig w t))
  | "NewSignatureFromBytes" => some (line (stopSigFromBytes w t))
  | "ReadOfflineSignature" =>
    if t < 0 then none else
    some (fsLine (readOffSig w (t.toNat % 65536)).isSome (stopOffSig w (t.toNat % 65536)))
  | _ => none

def failShapeOps : List (String × Op) := [
  ("failShape", fun
    | [rd, h] => do let w ← parseHex h; failShape1 rd w
    | [rd, h, t] => do let w ← parseHex h; let t ← parseInt t; failShape2 rd w t
    | _ => none)
]
end I2P.Driver
