import I2P.Driver.Util
import I2P.Crypto16
namespace I2P.Driver
open I2P I2P.Crypto16

/-- C16: the only computable part of the symbolic model is the date string of the blinding derivation. -/
def c16Ops : List (String × Op) := [
  ("utcDay", fun | [s, off] => do let s ← parseInt s; let off ← parseInt off; pure (okHex (utcDay s off)) | _ => none)
]
end I2P.Driver
