import I2P.Bytes
/-! Line-protocol helpers for the driver (hex, integers, canonical printing). -/
namespace I2P.Driver

def hexVal (c : Char) : Option Nat :=
  if '0' ≤ c ∧ c ≤ '9' then some (c.toNat - '0'.toNat)
  else if 'a' ≤ c ∧ c ≤ 'f' then some (c.toNat - 'a'.toNat + 10)
  else none

def parseHexChars : List Char → Option Bytes
  | [] => some []
  | a :: b :: t => do
    let x ← hexVal a; let y ← hexVal b; let r ← parseHexChars t
    pure (UInt8.ofNat (x*16+y) :: r)
  | _ => none

/-- `-` is the empty byte string -/
def parseHex (s : String) : Option Bytes :=
  if s == "-" then some [] else parseHexChars s.toList

def hexDigit (n : Nat) : Char := if n < 10 then Char.ofNat (48+n) else Char.ofNat (87+n)

def toHex (b : Bytes) : String :=
  if b.isEmpty then "-" else String.ofList (b.flatMap fun x => [hexDigit (x.toNat / 16), hexDigit (x.toNat % 16)])

def optHex : Option Bytes → String
  | none => "nil"
  | some b => toHex b

def parseInt (s : String) : Option Int := s.toInt?
def parseNat (s : String) : Option Nat := s.toNat?

def okHex : Option Bytes → String
  | none => "err"
  | some b => "ok " ++ toHex b

def okInt : Option Int → String
  | none => "err"
  | some v => s!"ok {v}"

def okNat : Option Nat → String
  | none => "err"
  | some v => s!"ok {v}"

abbrev Op := List String → Option String

end I2P.Driver
