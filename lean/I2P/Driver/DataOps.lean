import I2P.Driver.Util
import I2P.Mapping
import I2P.Fixed
namespace I2P.Driver
open I2P I2P.Mapping

def strErrTag : Option StrErr → String
  | none => "none" | some .zero => "zero" | some .short => "short" | some .mismatch => "mismatch"

def pairsHex (ps : List Pair) : String :=
  if ps.isEmpty then "-" else ",".intercalate (ps.map fun p => toHex p.1 ++ ":" ++ toHex p.2)

/-- parse `k:v,k:v` (hex, `-` for empty; the whole list may be `-`) -/
def parseAssoc (s : String) : Option (List (Bytes × Bytes)) :=
  if s == "-" then some [] else
  (s.splitOn ",").mapM fun kv =>
    match kv.splitOn ":" with
    | [k, v] => do let a ← parseHex k; let b ← parseHex v; pure (a, b)
    | _ => none

def showMapping (r : Res) : String :=
  let errs := ",".intercalate (r.errs.map E.tag)
  let vals := pairsHex (r.vals.getD [])
  s!"errs=[{errs}] rem={r.rem.length} vals={vals} data={optHex (data r)}"

def dataOps : List (String × Op) := [
  ("readInteger", fun
    | [h, n] => do
      let b ← parseHex h; let n ← parseInt n
      let (v, r) := readInteger b n
      pure s!"val={optHex v} rem={r.length}"
    | _ => none),
  ("intOf", fun | [h] => do let b ← parseHex h; pure s!"{integerInt b}" | _ => none),
  ("intSafe", fun | [h] => do let b ← parseHex h; pure (okInt (integerIntSafe b)) | _ => none),
  ("uintSafe", fun | [h] => do let b ← parseHex h; pure (okNat (integerUintSafe b)) | _ => none),
  ("decodeIntN", fun | [h] => do let b ← parseHex h; pure (okInt (decodeIntN b)) | _ => none),
  ("newInt", fun | [v, n] => do let v ← parseInt v; let n ← parseInt n; pure (okHex (newIntegerFromInt v n)) | _ => none),
  ("newIntFromBytes", fun | [h] => do let b ← parseHex h; pure (okHex (newIntegerFromBytes b)) | _ => none),
  -- fixed-width helpers of data/encoding.go; the Go functions are typed, so only in-range arguments exist
  ("fixedEncU", fun
    | [w, v] => do
      let w ← parseNat w; let v ← parseNat v
      if (w = 2 ∨ w = 4 ∨ w = 8) ∧ v < 256 ^ w then pure (toHex (Fixed.encodeUint w v)) else none
    | _ => none),
  ("fixedEncI", fun
    | [w, v] => do
      let w ← parseNat w; let v ← parseInt v
      if (w = 2 ∨ w = 4 ∨ w = 8) ∧ -((256 ^ w : Nat) : Int) ≤ 2 * v ∧ 2 * v < ((256 ^ w : Nat) : Int) then
        pure (toHex (Fixed.encodeInt w v)) else none
    | _ => none),
  ("fixedDecU", fun
    | [h] => do
      let b ← parseHex h
      if b.length = 2 ∨ b.length = 4 ∨ b.length = 8 then pure s!"{Fixed.decodeUint b}" else none
    | _ => none),
  ("fixedDecI", fun
    | [h] => do
      let b ← parseHex h
      if b.length = 2 ∨ b.length = 4 ∨ b.length = 8 then pure s!"{Fixed.decodeInt b}" else none
    | _ => none),
  ("readStr", fun
    | [h] => do
      let b ← parseHex h
      let (s, r, e) := readStr b
      pure s!"str={toHex s} rem={r.length} err={strErrTag e}"
    | _ => none),
  ("newStr", fun | [h] => do let b ← parseHex h; pure (okHex (newStr b)) | _ => none),
  ("newStrFromBytes", fun | [h] => do let b ← parseHex h; pure (okHex (newStrFromBytes b)) | _ => none),
  ("strData", fun | [h] => do let b ← parseHex h; pure s!"{if strDataOk b then "ok" else "err"} {toHex (strData b)}" | _ => none),
  ("readDate", fun
    | [h] => do
      let b ← parseHex h
      pure (match readDate b with | none => "err" | some (d, r) => s!"ok {toHex d} rem={r.length} ms={dateInt d}")
    | _ => none),
  ("newDateMs", fun | [v] => do let v ← parseInt v; pure (okHex (newDateFromMillis v)) | _ => none),
  ("newDateUnix", fun | [v] => do let v ← parseInt v; pure (okHex (newDateFromUnix v)) | _ => none),
  ("dateFromTime", fun
    | [s, n] => do let s ← parseInt s; let n ← parseInt n; pure ("ok " ++ toHex (dateFromTime (timeUnix s n)))
    | _ => none),
  ("readHash", fun
    | [h] => do
      let b ← parseHex h
      pure (match readHash b with | none => "err" | some (d, r) => s!"ok {toHex d} rem={r.length}")
    | _ => none),
  ("readMapping", fun | [h] => do let b ← parseHex h; pure (showMapping (readMapping b)) | _ => none),
  ("goMap", fun
    | [a] => do
      let m ← parseAssoc a
      pure (match goMapToMapping m with
        | none => "err"
        | some ps => s!"ok vals={pairsHex ps} data={toHex (dataOf ps)}")
    | _ => none)
]

end I2P.Driver
