import I2P.Data
import I2P.Tables
/-! Code-mirroring model of `certificate/`, `key_certificate/`, `keys_and_cert/`, `destination/`,
    `router_identity/` readers, serialisers and constructors (appendix D of DESIGN.md). -/

namespace I2P.Kac
open I2P I2P.Spec

/-! ### Certificate -/

structure Cert where
  kind : Bytes
  len : Bytes
  payload : Bytes      -- everything after the header that was in the buffer (later stream data included)
deriving Repr, DecidableEq

def Cert.declared (c : Cert) : Nat := beVal c.len
def Cert.type (c : Cert) : Nat := beVal c.kind
/-- `Certificate.Data()` -/
def Cert.data (c : Cert) : Bytes := c.payload.take c.declared
/-- `Certificate.Bytes()` -/
def Cert.bytes (c : Cert) : Bytes := c.kind ++ c.len ++ c.data
/-- `Certificate.RawBytes()` -/
def Cert.rawBytes (c : Cert) : Bytes := c.kind ++ c.len ++ c.payload

/-- `certificate.ReadCertificate`: `none` = error (the Go code then returns a nil certificate and
    the whole input as remainder). -/
def readCert (w : Bytes) : Option (Cert × Bytes) :=
  if w.length < 3 then none else
  let c : Cert := { kind := w.take 1, len := (w.drop 1).take 2, payload := w.drop 3 }
  if c.declared > w.length - 3 then none else some (c, w.drop (3 + c.declared))

/-- `certificate.NewCertificateWithType(type, payload)` -/
def newCertWithType (t : Nat) (payload : Bytes) : Option Cert :=
  if t > 5 then none
  else if payload.length > 65535 then none
  else if t = 0 ∧ payload.length > 0 then none
  else if t = 2 ∧ payload.length > 0 then none
  else if t = 3 ∧ payload.length ≠ 40 ∧ payload.length ≠ 72 then none
  else some { kind := [UInt8.ofNat t], len := beEnc 2 payload.length, payload := payload }

/-! ### KeyCertificate -/

structure KeyCert where
  cert : Cert
  spk : Nat
  cpk : Nat
deriving Repr, DecidableEq

/-- `key_certificate.NewKeyCertificate`: certificate must be of type KEY with ≥ 4 declared payload bytes. -/
def newKeyCert (w : Bytes) : Option (KeyCert × Bytes) :=
  match readCert w with
  | none => none
  | some (c, rem) =>
    if c.type ≠ 5 then none else
    let d := c.data
    if d.length < 4 then none
    else some ({ cert := c, spk := beVal (d.take 2), cpk := beVal ((d.drop 2).take 2) }, rem)

/-- `key_certificate.KeyCertificateFromCertificate` -/
def keyCertFromCert (c : Cert) : Option KeyCert :=
  if c.type ≠ 5 then none else
  let d := c.data
  if d.length < 4 then none
  else some { cert := c, spk := beVal (d.take 2), cpk := beVal ((d.drop 2).take 2) }

/-- `KeyCertificate.ConstructPublicKey` succeeds only for these crypto types -/
def cryptoConstructible : Nat → Bool | 0 | 4 | 5 | 6 | 7 => true | _ => false
/-- `selectSigningKeyConstructor` succeeds only for these signing types -/
def sigConstructible : Nat → Bool | 0 | 1 | 2 | 7 | 8 | 11 => true | _ => false

/-! ### KeysAndCert -/

structure KeysAndCert where
  kc : KeyCert
  pub : Bytes          -- ReceivingPublic.Bytes()
  padding : Bytes
  sig : Bytes          -- SigningPublic.Bytes()
deriving Repr, DecidableEq

/-- `extractPaddingFromData` for sizes that passed the checks (`cs ≤ 256`, `ss ≤ 128`):
    the bytes between the crypto key and byte 256, then the bytes between 256 and the signing key. -/
def extractPadding (w : Bytes) (cs ss : Nat) : Bytes :=
  if 384 ≤ cs + ss then [] else
  ((w.take 256).drop cs) ++ ((w.take (384 - ss)).drop 256)

/-- the common tail of `ReadKeysAndCert` and `readKeysAndCertNonKeyCert` -/
def finishKac (w : Bytes) (kc : KeyCert) (rem : Bytes) : Option (KeysAndCert × Bytes) :=
  let cs := cryptoSize kc.cpk
  if cs = 0 then none else
  if !cryptoConstructible kc.cpk then none else
  let ss := sigPubSize kc.spk
  if ss = 0 then none else
  if ss > 128 then none else
  if !sigConstructible kc.spk then none else
  some ({ kc := kc, pub := w.take cs, padding := extractPadding w cs ss, sig := (w.take 384).drop (384 - ss) }, rem)

/-- `keys_and_cert.ReadKeysAndCert` -/
def readKac (w : Bytes) : Option (KeysAndCert × Bytes) :=
  if w.length < 387 then none else
  match w.drop 384 with
  | 5 :: _ =>
    match newKeyCert (w.drop 384) with
    | none => none
    | some (kc, rem) => finishKac w kc rem
  | 0 :: _ =>
    match readCert (w.drop 384) with
    | none => none
    | some (c, rem) => finishKac w { cert := c, spk := 0, cpk := 0 } rem
  | _ => none

/-- `ReadKeysAndCertElgAndEd25519` (`c = 0`) and `ReadKeysAndCertX25519AndEd25519` (`c = 4`): the layout
    is assumed, the KEY certificate must declare exactly (Ed25519, `c`). -/
def readKacFast (c : Nat) (w : Bytes) : Option (KeysAndCert × Bytes) :=
  if w.length < 387 then none else
  match newKeyCert (w.drop 384) with
  | none => none
  | some (kc, rem) =>
    if kc.spk ≠ 7 ∨ kc.cpk ≠ c then none else
    let cs := cryptoSize c
    some ({ kc := kc, pub := w.take cs, padding := (w.take 352).drop cs, sig := (w.take 384).drop 352 }, rem)

/-- `KeysAndCert.Validate()` on values whose keys are present -/
def KeysAndCert.validate (k : KeysAndCert) : Bool :=
  let cs := cryptoSize k.kc.cpk
  let ss := sigPubSize k.kc.spk
  (cs = 0 ∨ k.pub.length = cs) ∧ (ss = 0 ∨ k.sig.length = ss)

/-- `buildKeysAndCertBlock` -/
def KeysAndCert.block (k : KeysAndCert) : Bytes :=
  let cs := cryptoSize k.kc.cpk
  let ss := sigPubSize k.kc.spk
  let pubPad := 256 - cs
  let sigPad := 128 - ss
  -- zero block, then the four copies in the order of the Go code
  let b0 : Bytes := List.replicate 384 0
  let put (b : Bytes) (off : Nat) (src : Bytes) : Bytes := b.take off ++ src ++ b.drop (off + src.length)
  let b1 := put b0 0 (k.pub.take 384)
  let b2 := if pubPad > 0 ∧ k.padding.length ≥ pubPad then put b1 cs (k.padding.take pubPad) else b1
  let b3 := if sigPad > 0 ∧ k.padding.length ≥ pubPad + sigPad then put b2 256 ((k.padding.drop pubPad).take sigPad) else b2
  let b4 := if k.sig.length ≤ 384 then put b3 (384 - k.sig.length) k.sig else b3
  b4.take 384

/-- `KeysAndCert.Bytes()` -/
def KeysAndCert.bytes (k : KeysAndCert) : Option Bytes :=
  if k.validate then some (k.block ++ k.kc.cert.bytes) else none

/-! ### Destination / RouterIdentity -/

/-- `destination.ReadDestination` -/
def readDestination (w : Bytes) : Option (KeysAndCert × Bytes) :=
  match readKac w with
  | none => none
  | some (k, rem) => if destAllowed k.kc.spk k.kc.cpk then some (k, rem) else none

/-- `router_identity.ReadRouterIdentity` -/
def readRouterIdentity (w : Bytes) : Option (KeysAndCert × Bytes) :=
  match readKac w with
  | none => none
  | some (k, rem) => if ridAllowed k.kc.spk k.kc.cpk then some (k, rem) else none

end I2P.Kac
