import I2P.Checked2
/-! Checked ("can it panic?") mirrors, third part: `meta_leaseset/meta_leaseset.go` —
    `ReadMetaLeaseSet` and every parse helper it calls.

    Same conventions as `I2P/Checked.lean` / `I2P/Checked2.lean`: one Lean function per Go function (the
    Go name is in the doc comment), every index expression, slice expression, `make` and pointer
    dereference goes through a checked primitive.  `Props/C04d.lean` proves that the reader never returns
    `.error _` and that it returns what the pure model `Structs.readMeta` returns.  Core-only. -/

namespace I2P.Checked
open I2P I2P.Spec I2P.Kac

/-! ### how a stored `Mapping` is serialised by `MetaLeaseSet.Bytes()` / `MetaLeaseSetEntry.Bytes()` -/

/-- the value of `(*Mapping).Data()` on a stored mapping (`none` = nil: the size pointer is nil); the checked
    `mappingDataC` returns exactly this (`mappingDataC_metaDataP`) -/
def MappingC.metaDataP (m : MappingC) : Option Bytes :=
  if m.size.isSome then some (Mapping.dataOf (m.values.map pairData)) else none

/-- `if len(m.Values()) > 0 { append(m.Data()...) } else { append(0x00, 0x00) }` (appending nil appends
    nothing) -/
def MappingC.metaWire (m : MappingC) : Bytes :=
  if m.values.length > 0 then m.metaDataP.getD [] else [0, 0]

/-! ### the parsed structures -/

/-- `MetaLeaseSetEntry` -/
structure MetaEntry where
  hash : Bytes := List.replicate 32 0                    -- [32]byte
  leaseType : UInt8 := 0
  expires : Nat := 0                                     -- uint32
  cost : UInt8 := 0
  properties : MappingC := {}

/-- what `MetaLeaseSetEntry.Bytes()` emits (the serialiser itself is outside C04) -/
def MetaEntry.bytes (e : MetaEntry) : Bytes :=
  e.hash ++ [e.leaseType] ++ beEnc 4 e.expires ++ [e.cost] ++ e.properties.metaWire

/-- the fields of `MetaLeaseSet` (`destination` wraps a pointer: nil until parsed) -/
structure MLS where
  destination : Option KeysAndCert := none
  published : Nat := 0                                   -- uint32
  expires : Nat := 0                                     -- uint16
  flags : Nat := 0                                       -- uint16
  offlineSignature : Option OffSig := none
  options : MappingC := {}
  numEntries : UInt8 := 0
  entries : List MetaEntry := []
  signature : Bytes := []

/-- what `MetaLeaseSet.Bytes()` emits (the serialiser itself is outside C04); `none` = error
    (`KeysAndCert.Bytes()` failed; a nil destination is treated alike) -/
def MLS.bytes (m : MLS) : Option Bytes :=
  match m.destination with
  | none => none
  | some k =>
    match k.bytes with
    | none => none
    | some db =>
      some (db ++ (beEnc 4 m.published ++ beEnc 2 m.expires ++ beEnc 2 m.flags) ++
        (match m.offlineSignature with | none => [] | some o => o.bytes) ++
        m.options.metaWire ++ [m.numEntries] ++ m.entries.flatMap MetaEntry.bytes ++ m.signature)

/-- `HasOfflineKeys()`: `flags & 1 != 0` -/
def MLS.hasOfflineKeys (m : MLS) : Bool := m.flags % 2 = 1

/-! ### destination and header -/

/-- `validateMinSize`: `true` = no error (`META_LEASESET_MIN_SIZE = 505`) -/
def metaValidateMinSizeC (dataLen : Int) : Bool := !(decide (dataLen < 505))

/-- `parseDestinationField`; `none` = error -/
def metaParseDestinationFieldC (mls : MLS) (data : Sl) : Go (Option (MLS × Sl)) := do
  match ← readDestinationS data with
  | none => return none
  | some (dest, rem) => return some ({ mls with destination := some dest }, rem)

/-- `validateHeaderDataSize`: `true` = no error -/
def metaValidateHeaderDataSizeC (dataLen : Int) : Bool :=
  let requiredSize : Int := 4 + 2 + 2
  !(decide (dataLen < requiredSize))

/-- `parseHeaderFields` -/
def metaParseHeaderFieldsC (mls : MLS) (data : Sl) : Go (MLS × Sl) := do
  let published ← beUint32 (← sliceTo data 4)
  let data ← sliceFrom data 4
  let expires ← beUint16 (← sliceTo data 2)
  let data ← sliceFrom data 2
  let flags ← beUint16 (← sliceTo data 2)
  let data ← sliceFrom data 2
  return ({ mls with published := published, expires := expires, flags := flags }, data)

/-- `parseDestinationAndHeader` -/
def metaParseDestinationAndHeaderC (mls : MLS) (data : Sl) : Go (Option (MLS × Sl)) := do
  if !metaValidateMinSizeC data.ilen then return none else
  match ← metaParseDestinationFieldC mls data with
  | none => return none
  | some (mls, rem) =>
  if !metaValidateHeaderDataSizeC rem.ilen then return none else
  return some (← metaParseHeaderFieldsC mls rem)

/-! ### offline signature -/

/-- `parseOfflineSignature`; `mls.destination.KeyCertificate.SigningPublicKeyType()` dereferences the
    destination pointer; `uint16(…)` truncates -/
def metaParseOfflineSignatureC (mls : MLS) (data : Sl) : Go (Option (MLS × Sl)) := do
  if !mls.hasOfflineKeys then return some (mls, data) else
  let dest ← deref mls.destination
  let destSigType : Nat := dest.kc.spk % 65536
  match ← readOffSigS data destSigType with
  | none => return none
  | some (offlineSig, rem) => return some ({ mls with offlineSignature := some offlineSig }, rem)

/-! ### options -/

/-- `fatalMappingError`: the `for _, e := range errs` loop (no index expression; structural recursion on
    the slice); `none` = nil -/
def metaFatalMappingErrorC : List MapErrC → Option MapErrC
  | [] => none
  | e :: rest => if isBeyondWarningC e then metaFatalMappingErrorC rest else some e

/-- `parseOptionsMapping` -/
def metaParseOptionsMappingC (mls : MLS) (data : Sl) : Go (Option (MLS × Sl)) := do
  let (mapping, rem, errs) ← readMappingS data
  match metaFatalMappingErrorC errs with
  | some _ => return none
  | none => return some ({ mls with options := mapping }, rem)

/-! ### entries -/

/-- `validateEntryCount`: `true` = no error -/
def metaValidateEntryCountC (numEntries : Int) : Bool := !(decide (numEntries < 1 ∨ numEntries > 16))

/-- `validateEntryMinSize`: `true` = no error -/
def metaValidateEntryMinSizeC (dataLen : Int) : Bool :=
  let minSize : Int := 32 + 1 + 4 + 1 + 2
  !(decide (dataLen < minSize))

/-- `parseEntryFixedFields`: `copy(entry.hash[:], data[:32])`, `data[0]`, `binary.BigEndian.Uint32(data[:4])`,
    `data[0]` and the four re-slicings; `entry.hash` is a `[32]byte`, `entry.hash[:]` a full slice of it -/
def metaParseEntryFixedFieldsC (entry : MetaEntry) (data : Sl) : Go (MetaEntry × Sl) := do
  let hashArr := Sl.ofBytes entry.hash
  let dst ← slice hashArr 0 hashArr.ilen                          -- entry.hash[:]
  let src ← sliceTo data 32                                       -- data[:32]
  let hashArr := copy dst src                                     -- copy(entry.hash[:], data[:32])
  let data ← sliceFrom data 32
  let leaseType ← index data 0
  let data ← sliceFrom data 1
  let expires ← beUint32 (← sliceTo data 4)
  let data ← sliceFrom data 4
  let cost ← index data 0
  let data ← sliceFrom data 1
  return ({ entry with hash := hashArr.data, leaseType := leaseType, expires := expires, cost := cost }, data)

/-- `validateEntryType`: `true` = no error (the `switch` accepts 1, 3, 5) -/
def metaValidateEntryTypeC (leaseType : UInt8) : Bool := leaseType == 1 || leaseType == 3 || leaseType == 5

/-- `parseEntryProperties`; `none` = error -/
def metaParseEntryPropertiesC (entry : MetaEntry) (data : Sl) : Go (Option (MetaEntry × Sl)) := do
  let (properties, rem, errs) ← readMappingS data
  match metaFatalMappingErrorC errs with
  | some _ => return none
  | none => return some ({ entry with properties := properties }, rem)

/-- `parseSingleEntry`: `mls.entries[entryIndex] = entry` is an indexed store (`logParsedEntry` only reads
    fields of the local `entry`) -/
def metaParseSingleEntryC (mls : MLS) (entryIndex : Int) (data : Sl) : Go (Option (MLS × Sl)) := do
  if !metaValidateEntryMinSizeC data.ilen then return none else
  let entry : MetaEntry := {}                                     -- var entry MetaLeaseSetEntry
  let (entry, data) ← metaParseEntryFixedFieldsC entry data
  if !metaValidateEntryTypeC entry.leaseType then return none else
  match ← metaParseEntryPropertiesC entry data with
  | none => return none
  | some (entry, rem) =>
  let entries ← setAt mls.entries entryIndex entry
  return some ({ mls with entries := entries }, rem)

/-- the loop `for i := 0; i < int(numEntries); i++` of `parseEntries`, from index `i`; `fuel` is the
    structural recursion argument (`numEntries - i` suffices).  The third component of the result is a ghost
    counter: the number of loop bodies executed. -/
def metaParseEntriesLoopC : (fuel : Nat) → (i numEntries : Int) → MLS → Sl → Go (Option (MLS × Sl × Nat))
  | 0, _, _, mls, data => return some (mls, data, 0)
  | fuel + 1, i, numEntries, mls, data => do
    if ¬ (i < numEntries) then return some (mls, data, 0) else
    match ← metaParseSingleEntryC mls i data with
    | none => return none
    | some (mls, data) =>
      match ← metaParseEntriesLoopC fuel (i + 1) numEntries mls data with
      | none => return none
      | some (mls, data, n) => return some (mls, data, n + 1)

/-- `parseEntries`; `make([]MetaLeaseSetEntry, numEntries)` has a `uint8` length (never negative) -/
def metaParseEntriesC (mls : MLS) (data : Sl) : Go (Option (MLS × Sl)) := do
  if data.ilen < 1 then return none else
  let numEntries : UInt8 ← index data 0
  let data ← sliceFrom data 1
  if !metaValidateEntryCountC (numEntries.toNat : Int) then return none else
  let mls := { mls with numEntries := numEntries, entries := List.replicate numEntries.toNat ({} : MetaEntry) }
  match ← metaParseEntriesLoopC numEntries.toNat 0 (numEntries.toNat : Int) mls data with
  | none => return none
  | some (mls, data, _) => return some (mls, data)

/-! ### signature -/

/-- `parseSignatureAndFinalize`: both branches dereference a pointer; the final log line only reads
    `numEntries` and `flags` -/
def metaParseSignatureAndFinalizeC (mls : MLS) (data : Sl) : Go (Option (MLS × Sl)) := do
  let sigType : Int ←
    (if mls.hasOfflineKeys && mls.offlineSignature.isSome then do
      let o ← deref mls.offlineSignature
      pure (o.sigtype : Int)
    else do
      let dest ← deref mls.destination
      pure (dest.kc.spk : Int))
  match ← readSigS data sigType with
  | none => return none
  | some (signature, rem) => return some ({ mls with signature := signature }, rem)

/-! ### the reader -/

/-- `meta_leaseset.ReadMetaLeaseSet` (the reader does not call `Validate`) -/
def readMetaS (data : Sl) : Go (Option (MLS × Sl)) := do
  let mls : MLS := {}
  match ← metaParseDestinationAndHeaderC mls data with
  | none => return none
  | some (mls, data) =>
  match ← metaParseOfflineSignatureC mls data with
  | none => return none
  | some (mls, data) =>
  match ← metaParseOptionsMappingC mls data with
  | none => return none
  | some (mls, data) =>
  match ← metaParseEntriesC mls data with
  | none => return none
  | some (mls, data) => metaParseSignatureAndFinalizeC mls data

/-- `ReadMetaLeaseSet` on a caller buffer (slice with `cap = len`) -/
def readMetaC := onBytes readMetaS

end I2P.Checked
