import I2P.Props.C09
import I2P.Gen.Tables
/-! Diagnostic cross-check for C09 — NOT a property obligation (see `Diag/C10.lean`): the prohibited sets as written
in the Go source (map literals, `switch` cases) against the specification's.  The property itself is stated over the
exhaustive sweep of the built library in `Props/C09.lean`. -/
namespace I2P.Diag.C09
open I2P I2P.Spec I2P.Kac

/-- the prohibited sets as written in the Go source equal the specification's -/
theorem source_policy_sets :
    Gen.Tables.router_identity_disallowedSigningKeyTypes.map (·.1) = [4, 5, 6, 8, 11] ∧
    Gen.Tables.router_identity_disallowedCryptoKeyTypes.map (·.1) = [5, 6, 7] ∧
    Gen.Tables.destination_switch_validateDestinationCryptoType.map (fun r => (r.1, r.2.getD 1 1)) = [(5, 0), (6, 0), (7, 0)] ∧
    Gen.Tables.destination_switch_validateDestinationSigningType.map (fun r => (r.1, r.2.getD 1 1)) = [(4, 0), (5, 0), (6, 0), (8, 0)] := by decide

end I2P.Diag.C09
