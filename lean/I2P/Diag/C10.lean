import I2P.Props.C10
import I2P.Gen.Tables
/-! Diagnostic cross-check for C10 — NOT a property obligation.  The source-level copies of the size tables (map
literals and `switch` statements re-translated from the Go AST on every run) are compared with the specification
rows.  When this file stops building, either a copy of a table was edited (then `Props/C10.lean`, which is stated
over the exhaustive sweep of the built library, fails too and names the lookup) or the source was merely
reorganised (a switch turned into a map, a helper extracted): the latter is harmless, so `./check` records it as
a note in the evidence and does not raise an alarm. -/
namespace I2P.Diag.C10
open I2P I2P.Spec I2P.Props.C10

/-- the source-level copies of the tables (map literals and `switch` statements, re-translated from the
    Go AST on every run) carry the same rows — pinpoints which copy was edited when an agreement breaks -/
theorem source_tables_agree :
    Gen.Tables.key_certificate_SigningKeySizes.map (fun r => ((r.1, r.2.getD 1 0, r.2.getD 0 0) : Int × Int × Int))
      = specSigRows.map (fun r => ((r.1 : Int), r.2.1, r.2.2)) ∧
    Gen.Tables.key_certificate_SignaturePublicKeySizes.map (fun r => ((r.1, r.2.getD 0 0) : Int × Int))
      = specSigRows.map (fun r => ((r.1 : Int), r.2.1)) ∧
    Gen.Tables.key_certificate_CryptoKeySizes.map (fun r => ((r.1, r.2.getD 0 0) : Int × Int))
      = specCryptoRows.map (fun r => ((r.1 : Int), r.2)) ∧
    Gen.Tables.key_certificate_CryptoPublicKeySizes.map (fun r => ((r.1, r.2.getD 0 0) : Int × Int))
      = specCryptoRows.map (fun r => ((r.1 : Int), r.2)) ∧
    (Gen.Tables.signature_switch_getSignatureLength.filter (fun r => r.2.getD 1 0 == 1)).map (fun r => ((r.1, r.2.getD 2 0) : Int × Int))
      = specSigRows.map (fun r => ((r.1 : Int), r.2.2)) ∧
    (Gen.Tables.offline_signature_switch_SigningPublicKeySize.filter (fun r => r.2.getD 1 0 == 1)).map (fun r => ((r.1, r.2.getD 2 0) : Int × Int))
      = specSigRows.map (fun r => ((r.1 : Int), r.2.1)) ∧
    (Gen.Tables.offline_signature_switch_SignatureSize.filter (fun r => r.2.getD 1 0 == 1)).map (fun r => ((r.1, r.2.getD 2 0) : Int × Int))
      = specSigRows.map (fun r => ((r.1 : Int), r.2.2)) := by decide

end I2P.Diag.C10
